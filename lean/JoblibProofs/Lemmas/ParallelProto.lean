import JoblibProofs.Lemmas.ParallelProto.Bound
import JoblibProofs.Lemmas.ParallelProto.CallU
/-!
# Lemmas for M1 (`JoblibModel.ParallelProto`), the dispatch / completion / retrieval protocol of `joblib.Parallel`

The development is split over `Lemmas/ParallelProto/*.lean`:

* `Lists`     — `chunks`, `removeFirst`
* `Prims`     — what the primitive operations change (`pullUpTo`, `registerOutcome`, `dispatch`, `dispatchLocked`)
* `Inv`       — the invariant of a call in progress: `InvT` (trackers/queues), `InvS` (source, conservation,
                counters), `InvL` (liveness bookkeeping), `IterPend`; `Inv` is their conjunction
* `StepsT`, `StepsS` — preservation by the elementary updates (relational lemmas: only the fields read matter)
* `Dispatch`  — `dispatchLocked` (`DLSpec`), the termination measure `meas`, the expected output `restS`
* `Deliver`   — `callback`, `deliver`, `deliverAll`, `hook` (`Later`, `CBSpec`, `HookSpec`); stale callbacks are no-ops
* `Start`     — `dispatchOneMain`, `startLoop`, `start`
* `CallStart` — `Idle` (between calls), `callStart` establishes the invariant
* `Retrieve`, `Loop` — `getStatus`, `getResult`, the retrieval loop and the tail loop (ordered modes)
* `Call`      — `drain`, `callList`: what a whole call returns / raises
* `Gen`       — the generator seen by its consumer (`genNext`, pauses, `genClose`), one-step facts (promptness,
                timeout, failing batch), abort makes dispatch a no-op, where the input position can move
* `StepsU`, `LoopU`, `CallU` — `return_as='generator_unordered'`: the queue invariant `InvU`, the retrieval loop,
                whole calls (output tracked up to permutation); `callList_general_all` for all three modes
* `Bound`     — C09: `InvB` (size bounds, defined in `Inv`), parked batches never grow at a completion, the
                look-ahead bound, `RetrievalReach`
-/
