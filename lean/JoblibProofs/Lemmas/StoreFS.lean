import JoblibModel.Store
/-! Lemmas about the file-system model of `JoblibModel.Store` (C05, C11): how each system call changes what the
observers `FS.get`, `FS.dataAt`, `FS.inoData` return. -/
namespace JoblibModel.Store

/-- effect of `write(ino i, d)` on one node -/
def wr (i : Nat) (d : Bytes) : Node → Node
  | .file j c => .file j (if j = i then overwrite c d else c)
  | n => n

theorem lookup_eraseName_self (p : Path) (l : List (Path × Node)) : lookup p (eraseName p l) = none := by
  induction l with
  | nil => rfl
  | cons x r ih =>
    obtain ⟨q, n⟩ := x
    by_cases h : q = p <;> simp [eraseName, lookup, h, ih]

theorem lookup_eraseName_ne {p q : Path} (h : q ≠ p) (l : List (Path × Node)) :
    lookup q (eraseName p l) = lookup q l := by
  induction l with
  | nil => rfl
  | cons x r ih =>
    obtain ⟨q', n⟩ := x
    by_cases h1 : q' = p
    · have : q' ≠ q := by rw [h1]; exact fun e => h e.symm
      simp [eraseName, lookup, h1, ih]
      intro e; exact absurd e.symm h
    · by_cases h2 : q' = q
      · subst h2; simp [eraseName, lookup, h1]
      · simp [eraseName, lookup, h1, h2, ih]

theorem lookup_writeNames (i : Nat) (d : Bytes) (q : Path) (l : List (Path × Node)) :
    lookup q (writeNames i d l) = (lookup q l).map (wr i d) := by
  induction l with
  | nil => rfl
  | cons x r ih =>
    obtain ⟨q', n⟩ := x
    cases n with
    | dir j => by_cases h : q' = q <;> simp [writeNames, lookup, h, ih, wr]
    | file j c => by_cases h : q' = q <;> simp [writeNames, lookup, h, ih, wr]

theorem get_set (fs : FS) (p : Path) (n : Node) (q : Path) :
    (fs.set p n).get q = if q = [] then some (.dir 0) else if q = p then some n else fs.get q := by
  unfold FS.get FS.set
  by_cases h0 : q = []
  · simp [h0]
  · by_cases h1 : q = p
    · subst h1; simp [h0, lookup]
    · have : p ≠ q := fun e => h1 e.symm
      simp [h0, h1, lookup, this, lookup_eraseName_ne h1]

theorem get_erase (fs : FS) (p q : Path) :
    (fs.erase p).get q = if q = [] then some (.dir 0) else if q = p then none else fs.get q := by
  unfold FS.get FS.erase
  by_cases h0 : q = []
  · simp [h0]
  · by_cases h1 : q = p
    · subst h1; simp [h0, lookup_eraseName_self]
    · simp [h0, h1, lookup_eraseName_ne h1]

@[simp] theorem get_nil (fs : FS) : fs.get [] = some (.dir 0) := by simp [FS.get]

theorem get_with_next (fs : FS) (n : Nat) (q : Path) : ({ fs with next := n } : FS).get q = fs.get q := rfl
theorem get_with_orphans (fs : FS) (o : List (Path × Nat × Bytes)) (q : Path) :
    ({ fs with orphans := o } : FS).get q = fs.get q := rfl

theorem get_write (fs : FS) (i : Nat) (d : Bytes) (q : Path) :
    ({ fs with names := writeNames i d fs.names, orphans := writeOrphans i d fs.orphans } : FS).get q
      = (fs.get q).map (wr i d) := by
  unfold FS.get
  by_cases h0 : q = []
  · simp [h0, wr]
  · simp [h0, lookup_writeNames]

end JoblibModel.Store

namespace JoblibModel.Store

/-! ### What each system call does, in terms of the observers -/

/-- `get` after a successful change of one name. -/
def getUpd (fs : FS) (p : Path) (n : Option Node) (q : Path) : Option Node :=
  if q = [] then some (.dir 0) else if q = p then n else fs.get q

theorem observer_noop (o : Op) (fs : FS)
    (h : (∃ p, o = .stat p) ∨ (∃ p, o = .openr p) ∨ (∃ p i, o = .read p i) ∨ (∃ p g, o = .opendir p g) ∨
         (∃ p i, o = .readdir p i)) : (apply o fs).2 = fs := by
  rcases h with ⟨p, rfl⟩ | ⟨p, rfl⟩ | ⟨p, i, rfl⟩ | ⟨p, g, rfl⟩ | ⟨p, i, rfl⟩
  · rfl
  · simp only [apply]; split <;> rfl
  · rfl
  · simp only [apply]; split
    · rfl
    · split <;> rfl
  · rfl

theorem lstat_noop (p : Path) (g : Option Nat) (fs : FS) : (apply (.lstat p g) fs).2 = fs := by
  simp only [apply]; split <;> rfl

theorem mkdir_spec (p : Path) (fs : FS) :
    ((apply (.mkdir p) fs).2 = fs ∧ (apply (.mkdir p) fs).1 ≠ .ok) ∨
    ((apply (.mkdir p) fs).1 = .ok ∧ fs.get p = none ∧ (∃ j, fs.get (parent p) = some (.dir j)) ∧
      (apply (.mkdir p) fs).2.next = fs.next + 1 ∧ (apply (.mkdir p) fs).2.orphans = fs.orphans ∧
      ∀ q, (apply (.mkdir p) fs).2.get q = getUpd fs p (some (.dir fs.next)) q) := by
  simp only [apply]
  split
  · left; simp
  · rename_i hp
    split
    · rename_i j hj
      right
      refine ⟨rfl, hp, ⟨j, hj⟩, rfl, rfl, fun q => ?_⟩
      show (fs.set p (.dir fs.next)).get q = _
      rw [get_set]; rfl
    · left; simp
    · left; simp

theorem creat_spec (p : Path) (fs : FS) :
    ((apply (.creat p) fs).2 = fs ∧ ∀ i, (apply (.creat p) fs).1 ≠ .fd i) ∨
    (∃ i c, fs.get p = some (.file i c) ∧ (apply (.creat p) fs).1 = .fd i ∧
      (apply (.creat p) fs).2.next = fs.next ∧ (apply (.creat p) fs).2.orphans = fs.orphans ∧
      ∀ q, (apply (.creat p) fs).2.get q = getUpd fs p (some (.file i [])) q) ∨
    (fs.get p = none ∧ (∃ j, fs.get (parent p) = some (.dir j)) ∧ (apply (.creat p) fs).1 = .fd fs.next ∧
      (apply (.creat p) fs).2.next = fs.next + 1 ∧ (apply (.creat p) fs).2.orphans = fs.orphans ∧
      ∀ q, (apply (.creat p) fs).2.get q = getUpd fs p (some (.file fs.next [])) q) := by
  simp only [apply]
  split
  · left; simp
  · rename_i i c hp
    right; left
    refine ⟨i, c, hp, rfl, rfl, rfl, fun q => ?_⟩
    rw [get_set]; rfl
  · rename_i hp
    split
    · rename_i j hj
      right; right
      refine ⟨hp, ⟨j, hj⟩, rfl, rfl, rfl, fun q => ?_⟩
      show (fs.set p (.file fs.next [])).get q = _
      rw [get_set]; rfl
    · left; simp
    · left; simp

theorem write_spec (p : Path) (i : Nat) (d : Bytes) (fs : FS) :
    (apply (.write p i d) fs).1 = .ok ∧ (apply (.write p i d) fs).2.next = fs.next ∧
    (apply (.write p i d) fs).2.orphans = writeOrphans i d fs.orphans ∧
    ∀ q, (apply (.write p i d) fs).2.get q = (fs.get q).map (wr i d) := by
  refine ⟨rfl, rfl, rfl, fun q => ?_⟩
  exact get_write fs i d q

theorem unlink_spec (p : Path) (g : Option Nat) (fs : FS) :
    ((apply (.unlink p g) fs).2 = fs ∧ (apply (.unlink p g) fs).1 ≠ .ok) ∨
    (∃ i c, fs.get p = some (.file i c) ∧ guardOK fs p g = true ∧ (apply (.unlink p g) fs).1 = .ok ∧
      (apply (.unlink p g) fs).2.next = fs.next ∧ (apply (.unlink p g) fs).2.orphans = (p, i, c) :: fs.orphans ∧
      ∀ q, (apply (.unlink p g) fs).2.get q = getUpd fs p none q) := by
  simp only [apply]
  by_cases hgd : guardOK fs p g = true
  case neg => left; simp [hgd]
  simp only [hgd, Bool.not_true, Bool.false_eq_true, if_false]
  split
  · left; simp
  · left; simp
  · rename_i i c hp
    right
    refine ⟨i, c, hp, (by first | exact hgd | trivial), rfl, rfl, rfl, fun q => ?_⟩
    show (fs.erase p).get q = _
    rw [get_erase]; rfl

theorem rmdir_spec (p : Path) (g : Option Nat) (fs : FS) :
    ((apply (.rmdir p g) fs).2 = fs ∧ (apply (.rmdir p g) fs).1 ≠ .ok) ∨
    (∃ j, fs.get p = some (.dir j) ∧ p ≠ [] ∧ (fs.children p).isEmpty = true ∧ (apply (.rmdir p g) fs).1 = .ok ∧
      (apply (.rmdir p g) fs).2.next = fs.next ∧ (apply (.rmdir p g) fs).2.orphans = fs.orphans ∧
      ∀ q, (apply (.rmdir p g) fs).2.get q = getUpd fs p none q) := by
  simp only [apply]
  by_cases hgd : guardOK fs p g = true
  case neg => left; simp [hgd]
  simp only [hgd, Bool.not_true, Bool.false_eq_true, if_false]
  split
  · left; simp
  · left; simp
  · rename_i j hp
    split
    · left; simp
    · rename_i hne
      split
      · rename_i hc
        right
        refine ⟨j, hp, hne, hc, rfl, rfl, rfl, fun q => ?_⟩
        rw [get_erase]; rfl
      · left; simp

/-- `get` after a successful rename of the file `(i, c)` from `p` to `q`. -/
def getMove (fs : FS) (p q : Path) (i : Nat) (c : Bytes) (x : Path) : Option Node :=
  if x = [] then some (.dir 0) else if x = q then some (.file i c) else if x = p then none else fs.get x

theorem rename_spec (p q : Path) (fs : FS) :
    ((apply (.rename p q) fs).2 = fs) ∨
    (∃ i c, fs.get p = some (.file i c) ∧ q ≠ p ∧ (∃ j, fs.get (parent q) = some (.dir j)) ∧
      (apply (.rename p q) fs).1 = .ok ∧ (apply (.rename p q) fs).2.next = fs.next ∧
      ((fs.get q = none ∧ (apply (.rename p q) fs).2.orphans = fs.orphans) ∨
       (∃ j c', fs.get q = some (.file j c') ∧ (apply (.rename p q) fs).2.orphans = (q, j, c') :: fs.orphans)) ∧
      ∀ x, (apply (.rename p q) fs).2.get x = getMove fs p q i c x) := by
  simp only [apply]
  split
  · left; rfl
  · left; rfl
  · rename_i i c hp
    split
    · rename_i j hj
      split
      · left; rfl
      · rename_i j' c' hq
        split
        · left; rfl
        · rename_i hne
          right
          refine ⟨i, c, hp, hne, ⟨j, hj⟩, rfl, rfl, Or.inr ⟨j', c', hq, rfl⟩, fun x => ?_⟩
          show ((fs.erase p).set q (.file i c)).get x = _
          rw [get_set, get_erase]
          unfold getMove
          by_cases h0 : x = [] <;> simp [h0]
      · rename_i hq
        have hne : q ≠ p := by
          intro e; rw [e, hp] at hq; cases hq
        right
        refine ⟨i, c, hp, hne, ⟨j, hj⟩, rfl, rfl, Or.inl ⟨hq, rfl⟩, fun x => ?_⟩
        rw [get_set, get_erase]
        unfold getMove
        by_cases h0 : x = [] <;> simp [h0]
    · left; rfl
    · left; rfl

theorem childrenOf_ne_nil {p q : Path} {n : Node} {l : List (Path × Node)} (h : lookup q l = some n)
    (hq : q ≠ []) (hp : q.dropLast = p) : childrenOf p l ≠ [] := by
  induction l with
  | nil => cases h
  | cons x r ih =>
    obtain ⟨q', n'⟩ := x
    unfold lookup at h
    split at h
    · rename_i hqq
      subst hqq
      unfold childrenOf
      have : q'.getLast? = some (q'.getLast hq) := List.getLast?_eq_some_getLast hq
      rw [this]
      simp [hp]
    · have := ih h
      unfold childrenOf
      split
      · split
        · simp
        · exact this
      · exact this

/-- an empty directory listing means no name directly below `p` exists -/
theorem children_empty {fs : FS} {p q : Path} (h : (fs.children p).isEmpty = true) (hq : q ≠ [])
    (hp : parent q = p) : fs.get q = none := by
  cases hg : fs.get q with
  | none => rfl
  | some n =>
    exfalso
    unfold FS.get at hg
    rw [if_neg hq] at hg
    have := childrenOf_ne_nil hg hq hp
    unfold FS.children at h
    cases hc : childrenOf p fs.names with
    | nil => exact this hc
    | cons a b => rw [hc] at h; cases h

/-- Tearing a call changes nothing but the data of a write. -/
theorem tear_eq (n : Nat) (o : Op) : tear n o = o ∨ ∃ p i d, o = .write p i d ∧ tear n o = .write p i (d.take n) := by
  cases o with
  | write p i d => exact Or.inr ⟨p, i, d, rfl, rfl⟩
  | _ => exact Or.inl rfl

end JoblibModel.Store
