import JoblibProofs.Lemmas.HashStream
/-! A decoder for the streams of `JoblibModel.HashStream.encode` — a small-step stack machine for
the pickle opcodes the encoder emits (the fragment of `pickle._Unpickler` needed) — and the proof
that running it on `encode H v` ends in exactly one final state holding the canonical form of
`v`.  Injectivity of `encode` follows from determinism of the machine.  Helper file for C08. -/
namespace JoblibModel.HashStream

/-! ## the machine -/

inductive SV where
  | val (v : PyVal)
  | mark
  | cls (c : Cls)
  | obj (c : Cls)

structure MState where
  stack : List SV
  /-- the unpickler's memo; this machine numbers the entries itself (0, 1, 2, …: what the
  pickler does), ignoring the index written after BINPUT/LONG_BINPUT -/
  memo : List SV

def MState.push (x : SV) (st : MState) : MState := { st with stack := x :: st.stack }

def fromLE : Bs → Nat
  | [] => 0
  | b :: r => b + 256 * fromLE r

/-- `pickle.decode_long`: little-endian two's complement. -/
def decodeLong (bs : Bs) : Int :=
  let u := fromLE bs
  if 2 * u ≥ 256 ^ bs.length then (u : Int) - ((256 ^ bs.length : Nat) : Int) else (u : Int)

def popMark : List SV → Option (List SV × List SV)
  | [] => none
  | .mark :: r => some ([], r)
  | x :: r => (popMark r).map fun p => (x :: p.1, p.2)

def vals : List SV → Option (List PyVal)
  | [] => some []
  | .val v :: r => (vals r).map (v :: ·)
  | _ :: _ => none

def pairUp : List PyVal → Option (List (PyVal × PyVal))
  | [] => some []
  | k :: v :: r => (pairUp r).map ((k, v) :: ·)
  | [_] => none

def readLine : Bs → Option (Bs × Bs)
  | [] => none
  | b :: r => if b = 10 then some ([], r) else (readLine r).map fun p => (b :: p.1, p.2)

def classOf (line1 line2 : Bs) : Option Cls :=
  if line1 ++ 10 :: (line2 ++ [10]) = Cls.name .cset then some .cset
  else if line1 ++ 10 :: (line2 ++ [10]) = Cls.name .cfset then some .cfset
  else none

/-- One instruction.  `none`: stuck (STOP, end of input, or an ill-formed stream). -/
def step : Bs → MState → Option (Bs × MState)
  | [], _ => none
  | op :: r, st =>
    if op = NONE then some (r, st.push (.val .none))
    else if op = NEWTRUE then some (r, st.push (.val (.bool true)))
    else if op = NEWFALSE then some (r, st.push (.val (.bool false)))
    else if op = BININT1 then
      match r with
      | b :: r' => some (r', st.push (.val (.int b)))
      | _ => none
    else if op = BININT2 then
      if 2 ≤ r.length then some (r.drop 2, st.push (.val (.int (fromLE (r.take 2))))) else none
    else if op = BININT then
      if 4 ≤ r.length then some (r.drop 4, st.push (.val (.int (decodeLong (r.take 4))))) else none
    else if op = LONG1 then
      match r with
      | n :: r' => if n ≤ r'.length then some (r'.drop n, st.push (.val (.int (decodeLong (r'.take n))))) else none
      | _ => none
    else if op = LONG4 then
      if 4 ≤ r.length ∧ fromLE (r.take 4) ≤ (r.drop 4).length then
        some ((r.drop 4).drop (fromLE (r.take 4)), st.push (.val (.int (decodeLong ((r.drop 4).take (fromLE (r.take 4)))))))
      else none
    else if op = BINFLOAT then
      if 8 ≤ r.length then some (r.drop 8, st.push (.val (.float (fromLE (r.take 8).reverse)))) else none
    else if op = BINUNICODE then
      if 4 ≤ r.length ∧ fromLE (r.take 4) ≤ (r.drop 4).length then
        some ((r.drop 4).drop (fromLE (r.take 4)), st.push (.val (.str ((r.drop 4).take (fromLE (r.take 4))))))
      else none
    else if op = SHORT_BINBYTES then
      match r with
      | n :: r' => if n ≤ r'.length then some (r'.drop n, st.push (.val (.bytes (r'.take n)))) else none
      | _ => none
    else if op = BINBYTES then
      if 4 ≤ r.length ∧ fromLE (r.take 4) ≤ (r.drop 4).length then
        some ((r.drop 4).drop (fromLE (r.take 4)), st.push (.val (.bytes ((r.drop 4).take (fromLE (r.take 4))))))
      else none
    else if op = EMPTY_LIST then some (r, st.push (.val (.list [])))
    else if op = EMPTY_TUPLE then some (r, st.push (.val (.tuple [])))
    else if op = EMPTY_DICT then some (r, st.push (.val (.dict [])))
    else if op = MARK then some (r, st.push .mark)
    else if op = APPEND then
      match st.stack with
      | .val x :: .val (.list l) :: s => some (r, { st with stack := .val (.list (l ++ [x])) :: s })
      | _ => none
    else if op = APPENDS then
      match popMark st.stack with
      | some (items, .val (.list l) :: s) =>
        match vals items with
        | some vs => some (r, { st with stack := .val (.list (l ++ vs.reverse)) :: s })
        | none => none
      | _ => none
    else if op = SETITEM then
      match st.stack with
      | .val v :: .val k :: .val (.dict d) :: s => some (r, { st with stack := .val (.dict (d ++ [(k, v)])) :: s })
      | _ => none
    else if op = SETITEMS then
      match popMark st.stack with
      | some (items, .val (.dict d) :: s) =>
        match (vals items).bind fun vs => pairUp vs.reverse with
        | some kvs => some (r, { st with stack := .val (.dict (d ++ kvs)) :: s })
        | none => none
      | _ => none
    else if op = TUPLE1 then
      match st.stack with
      | .val a :: s => some (r, { st with stack := .val (.tuple [a]) :: s })
      | _ => none
    else if op = TUPLE2 then
      match st.stack with
      | .val b :: .val a :: s => some (r, { st with stack := .val (.tuple [a, b]) :: s })
      | _ => none
    else if op = TUPLE3 then
      match st.stack with
      | .val c :: .val b :: .val a :: s => some (r, { st with stack := .val (.tuple [a, b, c]) :: s })
      | _ => none
    else if op = TUPLE then
      match popMark st.stack with
      | some (items, s) =>
        match vals items with
        | some vs => some (r, { st with stack := .val (.tuple vs.reverse) :: s })
        | none => none
      | _ => none
    else if op = BINPUT then
      match r, st.stack with
      | _ :: r', top :: _ => some (r', { st with memo := st.memo ++ [top] })
      | _, _ => none
    else if op = LONG_BINPUT then
      match st.stack with
      | top :: _ => if 4 ≤ r.length then some (r.drop 4, { st with memo := st.memo ++ [top] }) else none
      | _ => none
    else if op = BINGET then
      match r with
      | i :: r' =>
        match st.memo[i]? with
        | some x => some (r', st.push x)
        | none => none
      | _ => none
    else if op = LONG_BINGET then
      if 4 ≤ r.length then
        match st.memo[fromLE (r.take 4)]? with
        | some x => some (r.drop 4, st.push x)
        | none => none
      else none
    else if op = GLOBAL then
      match readLine r with
      | some (l1, r1) =>
        match readLine r1 with
        | some (l2, r2) =>
          match classOf l1 l2 with
          | some c => some (r2, st.push (.cls c))
          | none => none
        | none => none
      | none => none
    else if op = NEWOBJ then
      match st.stack with
      | .val (.tuple []) :: .cls c :: s => some (r, { st with stack := .obj c :: s })
      | _ => none
    else if op = BUILD then
      match st.stack with
      | .val (.dict [(.str k, .list l)]) :: .obj c :: s =>
        if k = SEQUENCE then
          match c with
          | .cset => some (r, { st with stack := .val (.set l) :: s })
          | .cfset => some (r, { st with stack := .val (.frozenset l) :: s })
          | .fz => none
        else none
      | _ => none
    else if op = PROTO then
      match r with
      | _ :: r' => some (r', st)
      | _ => none
    else none

abbrev Conf := Bs × MState

inductive Steps : Conf → Conf → Prop
  | refl (c : Conf) : Steps c c
  | head {c c' c'' : Conf} : step c.1 c.2 = some c' → Steps c' c'' → Steps c c''

theorem Steps.trans {a b c : Conf} (h1 : Steps a b) (h2 : Steps b c) : Steps a c := by
  induction h1 with
  | refl _ => exact h2
  | head hs _ ih => exact .head hs (ih h2)

theorem Steps.one {bs : Bs} {st : MState} {c : Conf} (h : step bs st = some c) : Steps (bs, st) c :=
  .head h (.refl _)

/-- The machine is deterministic: a computation has at most one stuck end. -/
theorem Steps.final_unique {a t1 t2 : Conf} (h1 : Steps a t1) (h2 : Steps a t2)
    (f1 : step t1.1 t1.2 = none) (f2 : step t2.1 t2.2 = none) : t1 = t2 := by
  induction h1 with
  | refl c =>
    cases h2 with
    | refl _ => rfl
    | head hs _ => rw [f1] at hs; cases hs
  | head hs _ ih =>
    cases h2 with
    | refl _ => rw [f2] at hs; cases hs
    | head hs' h2' =>
      rw [hs] at hs'; cases hs'
      exact ih h2' f1

/-! ## little-endian numbers -/

theorem fromLE_leBytes : ∀ (k u : Nat), fromLE (leBytes k u) = u % 256 ^ k
  | 0, u => by simp [leBytes, fromLE, Nat.mod_one]
  | k + 1, u => by
    simp only [leBytes, fromLE, fromLE_leBytes k]
    rw [Nat.pow_succ, Nat.mul_comm (256 ^ k) 256, Nat.mod_mul]

theorem leBytes_length : ∀ (k u : Nat), (leBytes k u).length = k
  | 0, _ => rfl
  | k + 1, u => by simp [leBytes, leBytes_length k]

theorem take_append_len {α : Type} (a b : List α) (n : Nat) (h : a.length = n) : (a ++ b).take n = a := by
  subst h; simp

theorem drop_append_len {α : Type} (a b : List α) (n : Nat) (h : a.length = n) : (a ++ b).drop n = b := by
  subst h; simp



theorem leBytes_take : ∀ (j k u : Nat), j ≤ k → (leBytes k u).take j = leBytes j u
  | 0, _, _, _ => by simp [leBytes]
  | j + 1, 0, _, h => by omega
  | j + 1, k + 1, u, h => by
    simp only [leBytes, List.take_succ_cons]
    rw [leBytes_take j k (u / 256) (by omega)]

theorem leBytes_getD : ∀ (i k u : Nat), i < k → (leBytes k u).getD i 0 = u / 256 ^ i % 256
  | _, 0, _, h => by omega
  | 0, k + 1, u, _ => by simp [leBytes]
  | i + 1, k + 1, u, h => by
    simp only [leBytes, List.getD_cons_succ]
    rw [leBytes_getD i k (u / 256) (by omega), Nat.div_div_eq_div_mul, Nat.pow_succ, Nat.mul_comm]

theorem decodeLong_leBytes (k u : Nat) :
    decodeLong (leBytes k u) =
      if 2 * (u % 256 ^ k) ≥ 256 ^ k then ((u % 256 ^ k : Nat) : Int) - ((256 ^ k : Nat) : Int) else ((u % 256 ^ k : Nat) : Int) := by
  simp [decodeLong, fromLE_leBytes, leBytes_length]

/-- Two's complement round trip when `x` fits in `k` bytes. -/
theorem decodeLong_leSigned (k : Nat) (x : Int) (h1 : -((256 ^ k : Nat) : Int) ≤ 2 * x) (h2 : 2 * x < ((256 ^ k : Nat) : Int)) :
    decodeLong (leSigned k x) = x := by
  unfold leSigned
  rw [decodeLong_leBytes]
  generalize hP : (256 ^ k : Nat) = P at *
  have hPpos : 0 < P := by rw [← hP]; exact Nat.pow_pos (by decide)
  have hnn : 0 ≤ x % (P : Int) := Int.emod_nonneg _ (by omega)
  have hlt : x % (P : Int) < P := Int.emod_lt_of_pos _ (by omega)
  have hu : ((x % (P : Int)).toNat : Int) = x % (P : Int) := Int.toNat_of_nonneg hnn
  have hmod : (x % (P : Int)).toNat % P = (x % (P : Int)).toNat := Nat.mod_eq_of_lt (by omega)
  rw [hmod]
  by_cases hx : 0 ≤ x
  · have : x % (P : Int) = x := Int.emod_eq_of_lt hx (by omega)
    rw [this] at hu
    split <;> omega
  · have : x % (P : Int) = x + P := by
      rw [← Int.add_mul_emod_self_left x P 1]
      simp only [Int.mul_one]
      exact Int.emod_eq_of_lt (by omega) (by omega)
    rw [this] at hu
    split <;> omega


theorem natAbs_lt_pow_bitLength (x : Int) (hx : x ≠ 0) : x.natAbs < 2 ^ bitLength x := by
  simp only [bitLength, hx, if_false]
  exact Nat.lt_log2_self

theorem two_natAbs_lt (x : Int) (hx : x ≠ 0) : 2 * x.natAbs < 256 ^ (bitLength x / 8 + 1) := by
  have h1 := natAbs_lt_pow_bitLength x hx
  have h2 : (256 : Nat) ^ (bitLength x / 8 + 1) = 2 ^ (8 * (bitLength x / 8 + 1)) := by
    rw [Nat.pow_mul]
  rw [h2]
  have h3 : bitLength x + 1 ≤ 8 * (bitLength x / 8 + 1) := by omega
  have h4 : 2 ^ (bitLength x + 1) ≤ 2 ^ (8 * (bitLength x / 8 + 1)) := Nat.pow_le_pow_right (by decide) h3
  rw [Nat.pow_succ] at h4
  omega

theorem decodeLong_encodeLong (x : Int) : decodeLong (encodeLong x) = x := by
  unfold encodeLong
  split
  · rename_i h; subst h; simp [decodeLong, fromLE]
  · rename_i hx
    have hb := two_natAbs_lt x hx
    generalize hn : bitLength x / 8 + 1 = n at *
    simp only []
    split
    · rename_i hc
      obtain ⟨hneg, hn1, hA, hB⟩ := hc
      obtain ⟨j, rfl⟩ : ∃ j, n = j + 1 := ⟨n - 1, by omega⟩
      have hj : 1 ≤ j := by omega
      simp only [Nat.add_sub_cancel] at hA ⊢
      have hjj : j + 1 - 2 = j - 1 := by omega
      rw [hjj] at hB
      unfold leSigned at hA hB ⊢
      rw [leBytes_take j (j + 1) _ (by omega), decodeLong_leBytes]
      rw [leBytes_getD j (j + 1) _ (by omega)] at hA
      rw [leBytes_getD (j - 1) (j + 1) _ (by omega)] at hB
      generalize hQ : (256 ^ j : Nat) = Q at *
      have hP : (256 ^ (j + 1) : Nat) = 256 * Q := by rw [Nat.pow_succ, hQ, Nat.mul_comm]
      rw [hP] at hA hB hb ⊢
      have hQR : Q = 256 ^ (j - 1) * 256 := by
        rw [← hQ, ← Nat.pow_succ]; congr 1; omega
      generalize hR : (256 ^ (j - 1) : Nat) = R at *
      have hRpos : 0 < R := by rw [← hR]; exact Nat.pow_pos (by decide)
      have hxm : x % ((256 * Q : Nat) : Int) = x + ((256 * Q : Nat) : Int) := by
        rw [← Int.add_mul_emod_self_left x _ 1]
        simp only [Int.mul_one]
        exact Int.emod_eq_of_lt (by omega) (by omega)
      rw [hxm] at hA hB ⊢
      generalize hu : (x + ((256 * Q : Nat) : Int)).toNat = u at *
      have hu' : (u : Int) = x + ((256 * Q : Nat) : Int) := by rw [← hu]; exact Int.toNat_of_nonneg (by omega)
      have hult : u < 256 * Q := by omega
      have hQpos : 0 < Q := by omega
      have hdiv : u / Q < 256 := by
        rw [Nat.div_lt_iff_lt_mul hQpos]
        omega
      have hA' : u / Q = 255 := by rw [Nat.mod_eq_of_lt hdiv] at hA; exact hA
      have hdm := Nat.div_add_mod u Q
      rw [hA'] at hdm
      have hB' : u % Q / R ≥ 128 := by
        rw [hQR, Nat.mod_mul_right_div_self]; exact hB
      have hB'' : 128 * R ≤ u % Q := (Nat.le_div_iff_mul_le hRpos).mp hB'
      have hwlt : u % Q < Q := Nat.mod_lt _ (by omega)
      split <;> omega
    · exact decodeLong_leSigned n x (by omega) (by omega)



attribute [local simp] NONE NEWTRUE NEWFALSE BININT1 BININT2 BININT LONG1 LONG4 BINFLOAT BINUNICODE
  SHORT_BINBYTES BINBYTES EMPTY_LIST APPEND APPENDS MARK EMPTY_TUPLE TUPLE1 TUPLE2 TUPLE3 TUPLE
  EMPTY_DICT SETITEM SETITEMS GLOBAL NEWOBJ BUILD REDUCE BINPUT LONG_BINPUT BINGET LONG_BINGET PROTO STOP

section ops
variable (r : Bs) (st : MState)

theorem step_NONE : step (NONE :: r) st = some (r, st.push (.val .none)) := by simp [step]
theorem step_NEWTRUE : step (NEWTRUE :: r) st = some (r, st.push (.val (.bool true))) := by simp [step]
theorem step_NEWFALSE : step (NEWFALSE :: r) st = some (r, st.push (.val (.bool false))) := by simp [step]
theorem step_BININT1 (b : Nat) : step (BININT1 :: b :: r) st = some (r, st.push (.val (.int b))) := by simp [step]
theorem step_BININT2 (h : 2 ≤ r.length) :
    step (BININT2 :: r) st = some (r.drop 2, st.push (.val (.int (fromLE (r.take 2))))) := by simp [step, h]
theorem step_BININT (h : 4 ≤ r.length) :
    step (BININT :: r) st = some (r.drop 4, st.push (.val (.int (decodeLong (r.take 4))))) := by simp [step, h]
theorem step_LONG1 (n : Nat) (h : n ≤ r.length) :
    step (LONG1 :: n :: r) st = some (r.drop n, st.push (.val (.int (decodeLong (r.take n))))) := by simp [step, h]
theorem step_LONG4 (h : 4 ≤ r.length) (h2 : fromLE (r.take 4) ≤ (r.drop 4).length) :
    step (LONG4 :: r) st = some ((r.drop 4).drop (fromLE (r.take 4)),
      st.push (.val (.int (decodeLong ((r.drop 4).take (fromLE (r.take 4))))))) := by
  simp only [step]; simp [h]; simpa using h2
theorem step_BINFLOAT (h : 8 ≤ r.length) :
    step (BINFLOAT :: r) st = some (r.drop 8, st.push (.val (.float (fromLE (r.take 8).reverse)))) := by simp [step, h]
theorem step_BINUNICODE (h : 4 ≤ r.length) (h2 : fromLE (r.take 4) ≤ (r.drop 4).length) :
    step (BINUNICODE :: r) st = some ((r.drop 4).drop (fromLE (r.take 4)),
      st.push (.val (.str ((r.drop 4).take (fromLE (r.take 4)))))) := by
  simp only [step]; simp [h]; simpa using h2
theorem step_SHORT_BINBYTES (n : Nat) (h : n ≤ r.length) :
    step (SHORT_BINBYTES :: n :: r) st = some (r.drop n, st.push (.val (.bytes (r.take n)))) := by simp [step, h]
theorem step_BINBYTES (h : 4 ≤ r.length) (h2 : fromLE (r.take 4) ≤ (r.drop 4).length) :
    step (BINBYTES :: r) st = some ((r.drop 4).drop (fromLE (r.take 4)),
      st.push (.val (.bytes ((r.drop 4).take (fromLE (r.take 4)))))) := by
  simp only [step]; simp [h]; simpa using h2
theorem step_EMPTY_LIST : step (EMPTY_LIST :: r) st = some (r, st.push (.val (.list []))) := by simp [step]
theorem step_EMPTY_TUPLE : step (EMPTY_TUPLE :: r) st = some (r, st.push (.val (.tuple []))) := by simp [step]
theorem step_EMPTY_DICT : step (EMPTY_DICT :: r) st = some (r, st.push (.val (.dict []))) := by simp [step]
theorem step_MARK : step (MARK :: r) st = some (r, st.push .mark) := by simp [step]
end ops


/-! ### stack operations -/

theorem popMark_vals (vs : List PyVal) (rest : List SV) :
    popMark (vs.map SV.val ++ SV.mark :: rest) = some (vs.map SV.val, rest) := by
  induction vs with
  | nil => simp [popMark]
  | cons v vs ih => simp [popMark, ih]

theorem vals_map (vs : List PyVal) : vals (vs.map SV.val) = some vs := by
  induction vs with
  | nil => simp [vals]
  | cons v vs ih => simp [vals, ih]

theorem popMark_vals' (vs : List PyVal) (rest : List SV) :
    popMark ((vs.map SV.val).reverse ++ SV.mark :: rest) = some ((vs.map SV.val).reverse, rest) := by
  rw [← List.map_reverse]; exact popMark_vals _ _

theorem vals_map' (vs : List PyVal) : vals ((vs.map SV.val).reverse) = some vs.reverse := by
  rw [← List.map_reverse]; exact vals_map _

def flatKV (kvs : List (PyVal × PyVal)) : List PyVal := kvs.flatMap fun kv => [kv.1, kv.2]

theorem pairUp_flatKV (kvs : List (PyVal × PyVal)) : pairUp (flatKV kvs) = some kvs := by
  induction kvs with
  | nil => simp [flatKV, pairUp]
  | cons kv kvs ih =>
    simp only [flatKV, List.flatMap_cons, List.cons_append, List.nil_append, pairUp]
    simp only [flatKV] at ih
    simp [ih]

section stackops
variable (r : Bs) (s : List SV) (mm : List SV)

theorem step_APPEND (x : PyVal) (l : List PyVal) :
    step (APPEND :: r) ⟨.val x :: .val (.list l) :: s, mm⟩ = some (r, ⟨.val (.list (l ++ [x])) :: s, mm⟩) := by
  simp [step]

theorem step_APPENDS (vs : List PyVal) (l : List PyVal) :
    step (APPENDS :: r) ⟨vs.reverse.map SV.val ++ .mark :: .val (.list l) :: s, mm⟩
      = some (r, ⟨.val (.list (l ++ vs)) :: s, mm⟩) := by
  simp only [step]
  simp [popMark_vals', vals_map']

theorem step_SETITEM (k v : PyVal) (d : List (PyVal × PyVal)) :
    step (SETITEM :: r) ⟨.val v :: .val k :: .val (.dict d) :: s, mm⟩
      = some (r, ⟨.val (.dict (d ++ [(k, v)])) :: s, mm⟩) := by
  simp [step]

theorem step_SETITEMS (kvs : List (PyVal × PyVal)) (d : List (PyVal × PyVal)) :
    step (SETITEMS :: r) ⟨(flatKV kvs).reverse.map SV.val ++ .mark :: .val (.dict d) :: s, mm⟩
      = some (r, ⟨.val (.dict (d ++ kvs)) :: s, mm⟩) := by
  simp only [step]
  simp [popMark_vals', vals_map', pairUp_flatKV]

theorem step_TUPLE1 (a : PyVal) :
    step (TUPLE1 :: r) ⟨.val a :: s, mm⟩ = some (r, ⟨.val (.tuple [a]) :: s, mm⟩) := by simp [step]
theorem step_TUPLE2 (a b : PyVal) :
    step (TUPLE2 :: r) ⟨.val b :: .val a :: s, mm⟩ = some (r, ⟨.val (.tuple [a, b]) :: s, mm⟩) := by simp [step]
theorem step_TUPLE3 (a b c : PyVal) :
    step (TUPLE3 :: r) ⟨.val c :: .val b :: .val a :: s, mm⟩ = some (r, ⟨.val (.tuple [a, b, c]) :: s, mm⟩) := by
  simp [step]
theorem step_TUPLE (vs : List PyVal) :
    step (TUPLE :: r) ⟨vs.reverse.map SV.val ++ .mark :: s, mm⟩ = some (r, ⟨.val (.tuple vs) :: s, mm⟩) := by
  simp only [step]
  simp [popMark_vals', vals_map']

theorem step_put (idx : Nat) (top : SV) :
    step (put idx ++ r) ⟨top :: s, mm⟩ = some (r, ⟨top :: s, mm ++ [top]⟩) := by
  unfold put
  split
  · simp [step]
  · simp [step, leBytes_length]

theorem step_get (idx : Nat) (x : SV) (h : idx < 2 ^ 32) (hx : mm[idx]? = some x) :
    step (get idx ++ r) ⟨s, mm⟩ = some (r, ⟨x :: s, mm⟩) := by
  unfold get
  split
  · simp [step, hx, MState.push]
  · have h4 : (leBytes 4 idx ++ r).take 4 = leBytes 4 idx := take_append_len _ _ 4 (leBytes_length 4 idx)
    have h5 : (leBytes 4 idx ++ r).drop 4 = r := drop_append_len _ _ 4 (leBytes_length 4 idx)
    have h6 : fromLE (leBytes 4 idx) = idx := by rw [fromLE_leBytes]; exact Nat.mod_eq_of_lt h
    simp only [List.cons_append, step]
    simp [leBytes_length, h4, h5, h6, hx, MState.push]

theorem step_NEWOBJ (c : Cls) :
    step (NEWOBJ :: r) ⟨.val (.tuple []) :: .cls c :: s, mm⟩ = some (r, ⟨.obj c :: s, mm⟩) := by simp [step]

theorem step_BUILD_cset (l : List PyVal) :
    step (BUILD :: r) ⟨.val (.dict [(.str SEQUENCE, .list l)]) :: .obj .cset :: s, mm⟩
      = some (r, ⟨.val (.set l) :: s, mm⟩) := by simp [step]

theorem step_BUILD_cfset (l : List PyVal) :
    step (BUILD :: r) ⟨.val (.dict [(.str SEQUENCE, .list l)]) :: .obj .cfset :: s, mm⟩
      = some (r, ⟨.val (.frozenset l) :: s, mm⟩) := by simp [step]

theorem step_PROTO (b : Nat) (st : MState) : step (PROTO :: b :: r) st = some (r, st) := by simp [step]

theorem step_STOP (st : MState) : step (STOP :: r) st = none := by simp [step]

end stackops

theorem readLine_append : ∀ (l r : Bs), 10 ∉ l → readLine (l ++ 10 :: r) = some (l, r)
  | [], r, _ => by simp [readLine]
  | b :: l, r, h => by
    have hb : b ≠ 10 := by intro e; apply h; simp [e]
    have hl : 10 ∉ l := by intro e; apply h; simp [e]
    simp [readLine, hb, readLine_append l r hl]

theorem step_GLOBAL_cset (r : Bs) (st : MState) :
    step (GLOBAL :: (Cls.name .cset ++ r)) st = some (r, st.push (.cls .cset)) := by
  have e : Cls.name .cset ++ r = asciiBytes "joblib.hashing" ++ 10 :: (asciiBytes "_ConsistentSet" ++ 10 :: r) := by
    simp [Cls.name, asciiBytes]
  rw [e]
  simp only [step]
  rw [readLine_append _ _ (by decide)]
  simp only []
  rw [readLine_append _ _ (by decide)]
  simp [classOf, Cls.name, asciiBytes]

theorem step_GLOBAL_cfset (r : Bs) (st : MState) :
    step (GLOBAL :: (Cls.name .cfset ++ r)) st = some (r, st.push (.cls .cfset)) := by
  have e : Cls.name .cfset ++ r = asciiBytes "joblib.hashing" ++ 10 :: (asciiBytes "_ConsistentFrozenSet" ++ 10 :: r) := by
    simp [Cls.name, asciiBytes]
  rw [e]
  simp only [step]
  rw [readLine_append _ _ (by decide)]
  simp only []
  rw [readLine_append _ _ (by decide)]
  simp [classOf, Cls.name, asciiBytes]



theorem step_saveLong (i : Int) (h : (encodeLong i).length < 2 ^ 32) (r : Bs) (st : MState) :
    step (saveLong i ++ r) st = some (r, st.push (.val (.int i))) := by
  unfold saveLong
  split
  · rename_i hc
    simp only [leBytes, List.cons_append, List.nil_append]
    rw [step_BININT1]
    have : ((i.toNat % 256 : Nat) : Int) = i := by omega
    rw [this]
  · split
    · rename_i hc
      have hl : 2 ≤ (leBytes 2 i.toNat ++ r).length := by simp [leBytes_length]
      simp only [List.cons_append]
      rw [step_BININT2 _ _ hl, take_append_len _ _ 2 (leBytes_length _ _), drop_append_len _ _ 2 (leBytes_length _ _),
        fromLE_leBytes]
      have : ((i.toNat % 256 ^ 2 : Nat) : Int) = i := by omega
      rw [this]
    · split
      · rename_i hc
        have hlen : (leSigned 4 i).length = 4 := leBytes_length _ _
        have hl : 4 ≤ (leSigned 4 i ++ r).length := by simp [hlen]
        simp only [List.cons_append]
        rw [step_BININT _ _ hl, take_append_len _ _ 4 hlen, drop_append_len _ _ 4 hlen,
          decodeLong_leSigned 4 i (by omega) (by omega)]
      · simp only []
        split
        · rename_i hn
          simp only [List.cons_append]
          rw [step_LONG1 _ _ _ (by simp), take_append_len _ _ _ rfl, drop_append_len _ _ _ rfl, decodeLong_encodeLong]
        · have hlen : (leBytes 4 (encodeLong i).length).length = 4 := leBytes_length _ _
          have h4 : (leBytes 4 (encodeLong i).length ++ encodeLong i ++ r).take 4 = leBytes 4 (encodeLong i).length := by
            rw [List.append_assoc]; exact take_append_len _ _ 4 hlen
          have h5 : (leBytes 4 (encodeLong i).length ++ encodeLong i ++ r).drop 4 = encodeLong i ++ r := by
            rw [List.append_assoc]; exact drop_append_len _ _ 4 hlen
          have h6 : fromLE (leBytes 4 (encodeLong i).length) = (encodeLong i).length := by
            rw [fromLE_leBytes]; exact Nat.mod_eq_of_lt h
          simp only [List.cons_append]
          rw [step_LONG4 _ _ (by simp [hlen]) (by rw [h4, h5, h6]; simp), h4, h5, h6,
            take_append_len _ _ _ rfl, drop_append_len _ _ _ rfl, decodeLong_encodeLong]

theorem step_saveFloat (x : Nat) (h : x < 2 ^ 64) (r : Bs) (st : MState) :
    step (saveFloat x ++ r) st = some (r, st.push (.val (.float x))) := by
  unfold saveFloat
  have hlen : (leBytes 8 x).reverse.length = 8 := by simp [leBytes_length]
  simp only [List.cons_append]
  rw [step_BINFLOAT _ _ (by simp [leBytes_length]), take_append_len _ _ 8 hlen, drop_append_len _ _ 8 hlen,
    List.reverse_reverse, fromLE_leBytes, Nat.mod_eq_of_lt (by simpa using h)]

theorem step_saveStr (s : Bs) (h : s.length < 2 ^ 32) (r : Bs) (st : MState) :
    step (saveStr s ++ r) st = some (r, st.push (.val (.str s))) := by
  unfold saveStr
  have hlen : (leBytes 4 s.length).length = 4 := leBytes_length _ _
  have h4 : (leBytes 4 s.length ++ s ++ r).take 4 = leBytes 4 s.length := by
    rw [List.append_assoc]; exact take_append_len _ _ 4 hlen
  have h5 : (leBytes 4 s.length ++ s ++ r).drop 4 = s ++ r := by
    rw [List.append_assoc]; exact drop_append_len _ _ 4 hlen
  have h6 : fromLE (leBytes 4 s.length) = s.length := by
    rw [fromLE_leBytes]; exact Nat.mod_eq_of_lt h
  simp only [List.cons_append]
  rw [step_BINUNICODE _ _ (by simp [hlen]) (by rw [h4, h5, h6]; simp), h4, h5, h6,
    take_append_len _ _ _ rfl, drop_append_len _ _ _ rfl]

theorem step_saveBytes (s : Bs) (h : s.length < 2 ^ 32) (r : Bs) (st : MState) :
    step (saveBytes s ++ r) st = some (r, st.push (.val (.bytes s))) := by
  unfold saveBytes
  split
  · simp only [List.cons_append]
    rw [step_SHORT_BINBYTES _ _ _ (by simp), take_append_len _ _ _ rfl, drop_append_len _ _ _ rfl]
  · have hlen : (leBytes 4 s.length).length = 4 := leBytes_length _ _
    have h4 : (leBytes 4 s.length ++ s ++ r).take 4 = leBytes 4 s.length := by
      rw [List.append_assoc]; exact take_append_len _ _ 4 hlen
    have h5 : (leBytes 4 s.length ++ s ++ r).drop 4 = s ++ r := by
      rw [List.append_assoc]; exact drop_append_len _ _ 4 hlen
    have h6 : fromLE (leBytes 4 s.length) = s.length := by
      rw [fromLE_leBytes]; exact Nat.mod_eq_of_lt h
    simp only [List.cons_append]
    rw [step_BINBYTES _ _ (by simp [hlen]) (by rw [h4, h5, h6]; simp), h4, h5, h6,
      take_append_len _ _ _ rfl, drop_append_len _ _ _ rfl]



/-! ## the memo counter only grows -/

section mono
variable (e : PyVal → Memo → Bs × Memo)

theorem seqM_mono (he : ∀ x m, m.next ≤ (e x m).2.next) : ∀ (l : List PyVal) (m : Memo), m.next ≤ (seqM e l m).2.next
  | [], m => Nat.le_refl _
  | x :: xs, m => by
    simp only [seqM]
    exact Nat.le_trans (he x m) (seqM_mono he xs _)

theorem seqKV_mono (he : ∀ x m, m.next ≤ (e x m).2.next) :
    ∀ (l : List (PyVal × PyVal)) (m : Memo), m.next ≤ (seqKV e l m).2.next
  | [], m => Nat.le_refl _
  | (k, v) :: xs, m => by
    simp only [seqKV]
    exact Nat.le_trans (he k m) (Nat.le_trans (he v _) (seqKV_mono he xs _))

theorem saveClass_mono (c : Cls) (m : Memo) : m.next ≤ (saveClass c m).2.next := by
  unfold saveClass
  split
  · exact Nat.le_refl _
  · cases c <;> simp

theorem saveList_mono (he : ∀ x m, m.next ≤ (e x m).2.next) (l : List PyVal) (m : Memo) :
    m.next + 1 ≤ (saveList e l m).2.next := by
  simp only [saveList, memoize]
  exact seqM_mono e he l { m with next := m.next + 1 }

theorem saveTuple_mono (he : ∀ x m, m.next ≤ (e x m).2.next) (l : List PyVal) (m : Memo) :
    m.next ≤ (saveTuple e l m).2.next := by
  simp only [saveTuple, memoize]
  split
  · exact Nat.le_refl _
  · have := seqM_mono e he l m
    split <;> simp <;> omega

theorem wrapper_mono (he : ∀ x m, m.next ≤ (e x m).2.next) (c : Cls) (l : List PyVal) (m : Memo) :
    m.next ≤ (wrapper e c l m).2.next := by
  simp only [wrapper]
  have h1 := saveClass_mono c m
  have h2 := saveList_mono e he l (memoize (memoize (saveClass c m).2).2).2
  simp only [memoize] at h2 ⊢
  omega

end mono

theorem encF_mono (H : Bs → Bs) : ∀ (f : Nat) (v : PyVal) (m : Memo), m.next ≤ (encF H .fixed f v m).2.next := by
  intro f
  induction f with
  | zero => intro v m; simp [encF]
  | succ f ih =>
    intro v m
    cases v with
    | none => simp [encF]
    | bool b => simp [encF]
    | int i => simp [encF]
    | float x => simp [encF]
    | str s => simp [encF]
    | bytes s => simp [encF]
    | list l => simp only [encF]; have := saveList_mono _ ih l m; omega
    | tuple l => simp only [encF]; exact saveTuple_mono _ ih l m
    | set l => simp only [encF]; exact wrapper_mono _ ih _ _ m
    | frozenset l => simp only [encF]; exact wrapper_mono _ ih _ _ m
    | dict items =>
      simp only [encF, memoize]
      have := seqKV_mono _ ih (sortOn Prod.fst (itemsOf H .fixed (encF H .fixed f) items)) { m with next := m.next + 1 }
      simp only at this
      omega

end JoblibModel.HashStream
