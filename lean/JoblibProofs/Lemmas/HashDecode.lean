import JoblibProofs.Lemmas.HashStream
/-! A decoder for the streams of `JoblibModel.HashStream.encode` — a small-step stack machine for
the pickle opcodes the encoder emits (the fragment of `pickle._Unpickler` needed) — and the proof
that running it on `encode H v` ends in exactly one final state holding the canonical form of
`v`.  Injectivity of `encode` follows from determinism of the machine.  Helper file for C08. -/
namespace JoblibModel.HashStream

/-! ## the machine -/

inductive SV where
  | val (v : PyVal)
  | mark
  | cls (c : Cls)
  | obj (c : Cls)

structure MState where
  stack : List SV
  /-- the unpickler's memo; this machine numbers the entries itself (0, 1, 2, …: what the
  pickler does), ignoring the index written after BINPUT/LONG_BINPUT -/
  memo : List SV

def MState.push (x : SV) (st : MState) : MState := { st with stack := x :: st.stack }

def fromLE : Bs → Nat
  | [] => 0
  | b :: r => b + 256 * fromLE r

/-- `pickle.decode_long`: little-endian two's complement. -/
def decodeLong (bs : Bs) : Int :=
  let u := fromLE bs
  if 2 * u ≥ 256 ^ bs.length then (u : Int) - ((256 ^ bs.length : Nat) : Int) else (u : Int)

def popMark : List SV → Option (List SV × List SV)
  | [] => none
  | .mark :: r => some ([], r)
  | x :: r => (popMark r).map fun p => (x :: p.1, p.2)

def vals : List SV → Option (List PyVal)
  | [] => some []
  | .val v :: r => (vals r).map (v :: ·)
  | _ :: _ => none

def pairUp : List PyVal → Option (List (PyVal × PyVal))
  | [] => some []
  | k :: v :: r => (pairUp r).map ((k, v) :: ·)
  | [_] => none

def readLine : Bs → Option (Bs × Bs)
  | [] => none
  | b :: r => if b = 10 then some ([], r) else (readLine r).map fun p => (b :: p.1, p.2)

def classOf (line1 line2 : Bs) : Option Cls :=
  if line1 ++ 10 :: (line2 ++ [10]) = Cls.name .cset then some .cset
  else if line1 ++ 10 :: (line2 ++ [10]) = Cls.name .cfset then some .cfset
  else none

/-- One instruction.  `none`: stuck (STOP, end of input, or an ill-formed stream). -/
def step : Bs → MState → Option (Bs × MState)
  | [], _ => none
  | op :: r, st =>
    if op = NONE then some (r, st.push (.val .none))
    else if op = NEWTRUE then some (r, st.push (.val (.bool true)))
    else if op = NEWFALSE then some (r, st.push (.val (.bool false)))
    else if op = BININT1 then
      match r with
      | b :: r' => some (r', st.push (.val (.int b)))
      | _ => none
    else if op = BININT2 then
      if 2 ≤ r.length then some (r.drop 2, st.push (.val (.int (fromLE (r.take 2))))) else none
    else if op = BININT then
      if 4 ≤ r.length then some (r.drop 4, st.push (.val (.int (decodeLong (r.take 4))))) else none
    else if op = LONG1 then
      match r with
      | n :: r' => if n ≤ r'.length then some (r'.drop n, st.push (.val (.int (decodeLong (r'.take n))))) else none
      | _ => none
    else if op = LONG4 then
      if 4 ≤ r.length ∧ fromLE (r.take 4) ≤ (r.drop 4).length then
        some ((r.drop 4).drop (fromLE (r.take 4)), st.push (.val (.int (decodeLong ((r.drop 4).take (fromLE (r.take 4)))))))
      else none
    else if op = BINFLOAT then
      if 8 ≤ r.length then some (r.drop 8, st.push (.val (.float (fromLE (r.take 8).reverse)))) else none
    else if op = BINUNICODE then
      if 4 ≤ r.length ∧ fromLE (r.take 4) ≤ (r.drop 4).length then
        some ((r.drop 4).drop (fromLE (r.take 4)), st.push (.val (.str ((r.drop 4).take (fromLE (r.take 4))))))
      else none
    else if op = SHORT_BINBYTES then
      match r with
      | n :: r' => if n ≤ r'.length then some (r'.drop n, st.push (.val (.bytes (r'.take n)))) else none
      | _ => none
    else if op = BINBYTES then
      if 4 ≤ r.length ∧ fromLE (r.take 4) ≤ (r.drop 4).length then
        some ((r.drop 4).drop (fromLE (r.take 4)), st.push (.val (.bytes ((r.drop 4).take (fromLE (r.take 4))))))
      else none
    else if op = EMPTY_LIST then some (r, st.push (.val (.list [])))
    else if op = EMPTY_TUPLE then some (r, st.push (.val (.tuple [])))
    else if op = EMPTY_DICT then some (r, st.push (.val (.dict [])))
    else if op = MARK then some (r, st.push .mark)
    else if op = APPEND then
      match st.stack with
      | .val x :: .val (.list l) :: s => some (r, { st with stack := .val (.list (l ++ [x])) :: s })
      | _ => none
    else if op = APPENDS then
      match popMark st.stack with
      | some (items, .val (.list l) :: s) =>
        match vals items with
        | some vs => some (r, { st with stack := .val (.list (l ++ vs.reverse)) :: s })
        | none => none
      | _ => none
    else if op = SETITEM then
      match st.stack with
      | .val v :: .val k :: .val (.dict d) :: s => some (r, { st with stack := .val (.dict (d ++ [(k, v)])) :: s })
      | _ => none
    else if op = SETITEMS then
      match popMark st.stack with
      | some (items, .val (.dict d) :: s) =>
        match (vals items).bind fun vs => pairUp vs.reverse with
        | some kvs => some (r, { st with stack := .val (.dict (d ++ kvs)) :: s })
        | none => none
      | _ => none
    else if op = TUPLE1 then
      match st.stack with
      | .val a :: s => some (r, { st with stack := .val (.tuple [a]) :: s })
      | _ => none
    else if op = TUPLE2 then
      match st.stack with
      | .val b :: .val a :: s => some (r, { st with stack := .val (.tuple [a, b]) :: s })
      | _ => none
    else if op = TUPLE3 then
      match st.stack with
      | .val c :: .val b :: .val a :: s => some (r, { st with stack := .val (.tuple [a, b, c]) :: s })
      | _ => none
    else if op = TUPLE then
      match popMark st.stack with
      | some (items, s) =>
        match vals items with
        | some vs => some (r, { st with stack := .val (.tuple vs.reverse) :: s })
        | none => none
      | _ => none
    else if op = BINPUT then
      match r, st.stack with
      | _ :: r', top :: _ => some (r', { st with memo := st.memo ++ [top] })
      | _, _ => none
    else if op = LONG_BINPUT then
      match st.stack with
      | top :: _ => if 4 ≤ r.length then some (r.drop 4, { st with memo := st.memo ++ [top] }) else none
      | _ => none
    else if op = BINGET then
      match r with
      | i :: r' =>
        match st.memo[i]? with
        | some x => some (r', st.push x)
        | none => none
      | _ => none
    else if op = LONG_BINGET then
      if 4 ≤ r.length then
        match st.memo[fromLE (r.take 4)]? with
        | some x => some (r.drop 4, st.push x)
        | none => none
      else none
    else if op = GLOBAL then
      match readLine r with
      | some (l1, r1) =>
        match readLine r1 with
        | some (l2, r2) =>
          match classOf l1 l2 with
          | some c => some (r2, st.push (.cls c))
          | none => none
        | none => none
      | none => none
    else if op = NEWOBJ then
      match st.stack with
      | .val (.tuple []) :: .cls c :: s => some (r, { st with stack := .obj c :: s })
      | _ => none
    else if op = BUILD then
      match st.stack with
      | .val (.dict [(.str k, .list l)]) :: .obj c :: s =>
        if k = SEQUENCE then
          match c with
          | .cset => some (r, { st with stack := .val (.set l) :: s })
          | .cfset => some (r, { st with stack := .val (.frozenset l) :: s })
          | .fz => none
        else none
      | _ => none
    else if op = PROTO then
      match r with
      | _ :: r' => some (r', st)
      | _ => none
    else none

abbrev Conf := Bs × MState

inductive Steps : Conf → Conf → Prop
  | refl (c : Conf) : Steps c c
  | head {c c' c'' : Conf} : step c.1 c.2 = some c' → Steps c' c'' → Steps c c''

theorem Steps.trans {a b c : Conf} (h1 : Steps a b) (h2 : Steps b c) : Steps a c := by
  induction h1 with
  | refl _ => exact h2
  | head hs _ ih => exact .head hs (ih h2)

theorem Steps.one {bs : Bs} {st : MState} {c : Conf} (h : step bs st = some c) : Steps (bs, st) c :=
  .head h (.refl _)

/-- The machine is deterministic: a computation has at most one stuck end. -/
theorem Steps.final_unique {a t1 t2 : Conf} (h1 : Steps a t1) (h2 : Steps a t2)
    (f1 : step t1.1 t1.2 = none) (f2 : step t2.1 t2.2 = none) : t1 = t2 := by
  induction h1 with
  | refl c =>
    cases h2 with
    | refl _ => rfl
    | head hs _ => rw [f1] at hs; cases hs
  | head hs _ ih =>
    cases h2 with
    | refl _ => rw [f2] at hs; cases hs
    | head hs' h2' =>
      rw [hs] at hs'; cases hs'
      exact ih h2' f1

/-! ## little-endian numbers -/

theorem fromLE_leBytes : ∀ (k u : Nat), fromLE (leBytes k u) = u % 256 ^ k
  | 0, u => by simp [leBytes, fromLE, Nat.mod_one]
  | k + 1, u => by
    simp only [leBytes, fromLE, fromLE_leBytes k]
    rw [Nat.pow_succ, Nat.mul_comm (256 ^ k) 256, Nat.mod_mul]

theorem leBytes_length : ∀ (k u : Nat), (leBytes k u).length = k
  | 0, _ => rfl
  | k + 1, u => by simp [leBytes, leBytes_length k]

theorem take_append_len {α : Type} (a b : List α) (n : Nat) (h : a.length = n) : (a ++ b).take n = a := by
  subst h; simp

theorem drop_append_len {α : Type} (a b : List α) (n : Nat) (h : a.length = n) : (a ++ b).drop n = b := by
  subst h; simp



theorem leBytes_take : ∀ (j k u : Nat), j ≤ k → (leBytes k u).take j = leBytes j u
  | 0, _, _, _ => by simp [leBytes]
  | j + 1, 0, _, h => by omega
  | j + 1, k + 1, u, h => by
    simp only [leBytes, List.take_succ_cons]
    rw [leBytes_take j k (u / 256) (by omega)]

theorem leBytes_getD : ∀ (i k u : Nat), i < k → (leBytes k u).getD i 0 = u / 256 ^ i % 256
  | _, 0, _, h => by omega
  | 0, k + 1, u, _ => by simp [leBytes]
  | i + 1, k + 1, u, h => by
    simp only [leBytes, List.getD_cons_succ]
    rw [leBytes_getD i k (u / 256) (by omega), Nat.div_div_eq_div_mul, Nat.pow_succ, Nat.mul_comm]

theorem decodeLong_leBytes (k u : Nat) :
    decodeLong (leBytes k u) =
      if 2 * (u % 256 ^ k) ≥ 256 ^ k then ((u % 256 ^ k : Nat) : Int) - ((256 ^ k : Nat) : Int) else ((u % 256 ^ k : Nat) : Int) := by
  simp [decodeLong, fromLE_leBytes, leBytes_length]

/-- Two's complement round trip when `x` fits in `k` bytes. -/
theorem decodeLong_leSigned (k : Nat) (x : Int) (h1 : -((256 ^ k : Nat) : Int) ≤ 2 * x) (h2 : 2 * x < ((256 ^ k : Nat) : Int)) :
    decodeLong (leSigned k x) = x := by
  unfold leSigned
  rw [decodeLong_leBytes]
  generalize hP : (256 ^ k : Nat) = P at *
  have hPpos : 0 < P := by rw [← hP]; exact Nat.pow_pos (by decide)
  have hnn : 0 ≤ x % (P : Int) := Int.emod_nonneg _ (by omega)
  have hlt : x % (P : Int) < P := Int.emod_lt_of_pos _ (by omega)
  have hu : ((x % (P : Int)).toNat : Int) = x % (P : Int) := Int.toNat_of_nonneg hnn
  have hmod : (x % (P : Int)).toNat % P = (x % (P : Int)).toNat := Nat.mod_eq_of_lt (by omega)
  rw [hmod]
  by_cases hx : 0 ≤ x
  · have : x % (P : Int) = x := Int.emod_eq_of_lt hx (by omega)
    rw [this] at hu
    split <;> omega
  · have : x % (P : Int) = x + P := by
      rw [← Int.add_mul_emod_self_left x P 1]
      simp only [Int.mul_one]
      exact Int.emod_eq_of_lt (by omega) (by omega)
    rw [this] at hu
    split <;> omega


theorem natAbs_lt_pow_bitLength (x : Int) (hx : x ≠ 0) : x.natAbs < 2 ^ bitLength x := by
  simp only [bitLength, hx, if_false]
  exact Nat.lt_log2_self

theorem two_natAbs_lt (x : Int) (hx : x ≠ 0) : 2 * x.natAbs < 256 ^ (bitLength x / 8 + 1) := by
  have h1 := natAbs_lt_pow_bitLength x hx
  have h2 : (256 : Nat) ^ (bitLength x / 8 + 1) = 2 ^ (8 * (bitLength x / 8 + 1)) := by
    rw [Nat.pow_mul]
  rw [h2]
  have h3 : bitLength x + 1 ≤ 8 * (bitLength x / 8 + 1) := by omega
  have h4 : 2 ^ (bitLength x + 1) ≤ 2 ^ (8 * (bitLength x / 8 + 1)) := Nat.pow_le_pow_right (by decide) h3
  rw [Nat.pow_succ] at h4
  omega

theorem decodeLong_encodeLong (x : Int) : decodeLong (encodeLong x) = x := by
  unfold encodeLong
  split
  · rename_i h; subst h; simp [decodeLong, fromLE]
  · rename_i hx
    have hb := two_natAbs_lt x hx
    generalize hn : bitLength x / 8 + 1 = n at *
    simp only []
    split
    · rename_i hc
      obtain ⟨hneg, hn1, hA, hB⟩ := hc
      obtain ⟨j, rfl⟩ : ∃ j, n = j + 1 := ⟨n - 1, by omega⟩
      have hj : 1 ≤ j := by omega
      simp only [Nat.add_sub_cancel] at hA ⊢
      have hjj : j + 1 - 2 = j - 1 := by omega
      rw [hjj] at hB
      unfold leSigned at hA hB ⊢
      rw [leBytes_take j (j + 1) _ (by omega), decodeLong_leBytes]
      rw [leBytes_getD j (j + 1) _ (by omega)] at hA
      rw [leBytes_getD (j - 1) (j + 1) _ (by omega)] at hB
      generalize hQ : (256 ^ j : Nat) = Q at *
      have hP : (256 ^ (j + 1) : Nat) = 256 * Q := by rw [Nat.pow_succ, hQ, Nat.mul_comm]
      rw [hP] at hA hB hb ⊢
      have hQR : Q = 256 ^ (j - 1) * 256 := by
        rw [← hQ, ← Nat.pow_succ]; congr 1; omega
      generalize hR : (256 ^ (j - 1) : Nat) = R at *
      have hRpos : 0 < R := by rw [← hR]; exact Nat.pow_pos (by decide)
      have hxm : x % ((256 * Q : Nat) : Int) = x + ((256 * Q : Nat) : Int) := by
        rw [← Int.add_mul_emod_self_left x _ 1]
        simp only [Int.mul_one]
        exact Int.emod_eq_of_lt (by omega) (by omega)
      rw [hxm] at hA hB ⊢
      generalize hu : (x + ((256 * Q : Nat) : Int)).toNat = u at *
      have hu' : (u : Int) = x + ((256 * Q : Nat) : Int) := by rw [← hu]; exact Int.toNat_of_nonneg (by omega)
      have hult : u < 256 * Q := by omega
      have hQpos : 0 < Q := by omega
      have hdiv : u / Q < 256 := by
        rw [Nat.div_lt_iff_lt_mul hQpos]
        omega
      have hA' : u / Q = 255 := by rw [Nat.mod_eq_of_lt hdiv] at hA; exact hA
      have hdm := Nat.div_add_mod u Q
      rw [hA'] at hdm
      have hB' : u % Q / R ≥ 128 := by
        rw [hQR, Nat.mod_mul_right_div_self]; exact hB
      have hB'' : 128 * R ≤ u % Q := (Nat.le_div_iff_mul_le hRpos).mp hB'
      have hwlt : u % Q < Q := Nat.mod_lt _ (by omega)
      split <;> omega
    · exact decodeLong_leSigned n x (by omega) (by omega)



/-! ## one lemma per opcode -/

section opcodes
attribute [local simp] NONE NEWTRUE NEWFALSE BININT1 BININT2 BININT LONG1 LONG4 BINFLOAT BINUNICODE
  SHORT_BINBYTES BINBYTES EMPTY_LIST APPEND APPENDS MARK EMPTY_TUPLE TUPLE1 TUPLE2 TUPLE3 TUPLE
  EMPTY_DICT SETITEM SETITEMS GLOBAL NEWOBJ BUILD REDUCE BINPUT LONG_BINPUT BINGET LONG_BINGET PROTO STOP

section ops
variable (r : Bs) (st : MState)

theorem step_NONE : step (NONE :: r) st = some (r, st.push (.val .none)) := by simp [step]
theorem step_NEWTRUE : step (NEWTRUE :: r) st = some (r, st.push (.val (.bool true))) := by simp [step]
theorem step_NEWFALSE : step (NEWFALSE :: r) st = some (r, st.push (.val (.bool false))) := by simp [step]
theorem step_BININT1 (b : Nat) : step (BININT1 :: b :: r) st = some (r, st.push (.val (.int b))) := by simp [step]
theorem step_BININT2 (h : 2 ≤ r.length) :
    step (BININT2 :: r) st = some (r.drop 2, st.push (.val (.int (fromLE (r.take 2))))) := by simp [step, h]
theorem step_BININT (h : 4 ≤ r.length) :
    step (BININT :: r) st = some (r.drop 4, st.push (.val (.int (decodeLong (r.take 4))))) := by simp [step, h]
theorem step_LONG1 (n : Nat) (h : n ≤ r.length) :
    step (LONG1 :: n :: r) st = some (r.drop n, st.push (.val (.int (decodeLong (r.take n))))) := by simp [step, h]
theorem step_LONG4 (h : 4 ≤ r.length) (h2 : fromLE (r.take 4) ≤ (r.drop 4).length) :
    step (LONG4 :: r) st = some ((r.drop 4).drop (fromLE (r.take 4)),
      st.push (.val (.int (decodeLong ((r.drop 4).take (fromLE (r.take 4))))))) := by
  simp only [step]; simp [h]; simpa using h2
theorem step_BINFLOAT (h : 8 ≤ r.length) :
    step (BINFLOAT :: r) st = some (r.drop 8, st.push (.val (.float (fromLE (r.take 8).reverse)))) := by simp [step, h]
theorem step_BINUNICODE (h : 4 ≤ r.length) (h2 : fromLE (r.take 4) ≤ (r.drop 4).length) :
    step (BINUNICODE :: r) st = some ((r.drop 4).drop (fromLE (r.take 4)),
      st.push (.val (.str ((r.drop 4).take (fromLE (r.take 4)))))) := by
  simp only [step]; simp [h]; simpa using h2
theorem step_SHORT_BINBYTES (n : Nat) (h : n ≤ r.length) :
    step (SHORT_BINBYTES :: n :: r) st = some (r.drop n, st.push (.val (.bytes (r.take n)))) := by simp [step, h]
theorem step_BINBYTES (h : 4 ≤ r.length) (h2 : fromLE (r.take 4) ≤ (r.drop 4).length) :
    step (BINBYTES :: r) st = some ((r.drop 4).drop (fromLE (r.take 4)),
      st.push (.val (.bytes ((r.drop 4).take (fromLE (r.take 4)))))) := by
  simp only [step]; simp [h]; simpa using h2
theorem step_EMPTY_LIST : step (EMPTY_LIST :: r) st = some (r, st.push (.val (.list []))) := by simp [step]
theorem step_EMPTY_TUPLE : step (EMPTY_TUPLE :: r) st = some (r, st.push (.val (.tuple []))) := by simp [step]
theorem step_EMPTY_DICT : step (EMPTY_DICT :: r) st = some (r, st.push (.val (.dict []))) := by simp [step]
theorem step_MARK : step (MARK :: r) st = some (r, st.push .mark) := by simp [step]
end ops


/-! ### stack operations -/

theorem popMark_vals (vs : List PyVal) (rest : List SV) :
    popMark (vs.map SV.val ++ SV.mark :: rest) = some (vs.map SV.val, rest) := by
  induction vs with
  | nil => simp [popMark]
  | cons v vs ih => simp [popMark, ih]

theorem vals_map (vs : List PyVal) : vals (vs.map SV.val) = some vs := by
  induction vs with
  | nil => simp [vals]
  | cons v vs ih => simp [vals, ih]

theorem popMark_vals' (vs : List PyVal) (rest : List SV) :
    popMark ((vs.map SV.val).reverse ++ SV.mark :: rest) = some ((vs.map SV.val).reverse, rest) := by
  rw [← List.map_reverse]; exact popMark_vals _ _

theorem vals_map' (vs : List PyVal) : vals ((vs.map SV.val).reverse) = some vs.reverse := by
  rw [← List.map_reverse]; exact vals_map _

def flatKV (kvs : List (PyVal × PyVal)) : List PyVal := kvs.flatMap fun kv => [kv.1, kv.2]

theorem pairUp_flatKV (kvs : List (PyVal × PyVal)) : pairUp (flatKV kvs) = some kvs := by
  induction kvs with
  | nil => simp [flatKV, pairUp]
  | cons kv kvs ih =>
    simp only [flatKV, List.flatMap_cons, List.cons_append, List.nil_append, pairUp]
    simp only [flatKV] at ih
    simp [ih]

section stackops
variable (r : Bs) (s : List SV) (mm : List SV)

theorem step_APPEND (x : PyVal) (l : List PyVal) :
    step (APPEND :: r) ⟨.val x :: .val (.list l) :: s, mm⟩ = some (r, ⟨.val (.list (l ++ [x])) :: s, mm⟩) := by
  simp [step]

theorem step_APPENDS (vs : List PyVal) (l : List PyVal) :
    step (APPENDS :: r) ⟨vs.reverse.map SV.val ++ .mark :: .val (.list l) :: s, mm⟩
      = some (r, ⟨.val (.list (l ++ vs)) :: s, mm⟩) := by
  simp only [step]
  simp [popMark_vals', vals_map']

theorem step_SETITEM (k v : PyVal) (d : List (PyVal × PyVal)) :
    step (SETITEM :: r) ⟨.val v :: .val k :: .val (.dict d) :: s, mm⟩
      = some (r, ⟨.val (.dict (d ++ [(k, v)])) :: s, mm⟩) := by
  simp [step]

theorem step_SETITEMS (kvs : List (PyVal × PyVal)) (d : List (PyVal × PyVal)) :
    step (SETITEMS :: r) ⟨(flatKV kvs).reverse.map SV.val ++ .mark :: .val (.dict d) :: s, mm⟩
      = some (r, ⟨.val (.dict (d ++ kvs)) :: s, mm⟩) := by
  simp only [step]
  simp [popMark_vals', vals_map', pairUp_flatKV]

theorem step_TUPLE1 (a : PyVal) :
    step (TUPLE1 :: r) ⟨.val a :: s, mm⟩ = some (r, ⟨.val (.tuple [a]) :: s, mm⟩) := by simp [step]
theorem step_TUPLE2 (a b : PyVal) :
    step (TUPLE2 :: r) ⟨.val b :: .val a :: s, mm⟩ = some (r, ⟨.val (.tuple [a, b]) :: s, mm⟩) := by simp [step]
theorem step_TUPLE3 (a b c : PyVal) :
    step (TUPLE3 :: r) ⟨.val c :: .val b :: .val a :: s, mm⟩ = some (r, ⟨.val (.tuple [a, b, c]) :: s, mm⟩) := by
  simp [step]
theorem step_TUPLE (vs : List PyVal) :
    step (TUPLE :: r) ⟨vs.reverse.map SV.val ++ .mark :: s, mm⟩ = some (r, ⟨.val (.tuple vs) :: s, mm⟩) := by
  simp only [step]
  simp [popMark_vals', vals_map']

theorem step_put (idx : Nat) (top : SV) :
    step (put idx ++ r) ⟨top :: s, mm⟩ = some (r, ⟨top :: s, mm ++ [top]⟩) := by
  unfold put
  split
  · simp [step]
  · simp [step, leBytes_length]

theorem step_get (idx : Nat) (x : SV) (h : idx < 2 ^ 32) (hx : mm[idx]? = some x) :
    step (get idx ++ r) ⟨s, mm⟩ = some (r, ⟨x :: s, mm⟩) := by
  unfold get
  split
  · simp [step, hx, MState.push]
  · have h4 : (leBytes 4 idx ++ r).take 4 = leBytes 4 idx := take_append_len _ _ 4 (leBytes_length 4 idx)
    have h5 : (leBytes 4 idx ++ r).drop 4 = r := drop_append_len _ _ 4 (leBytes_length 4 idx)
    have h6 : fromLE (leBytes 4 idx) = idx := by rw [fromLE_leBytes]; exact Nat.mod_eq_of_lt h
    simp only [List.cons_append, step]
    simp [leBytes_length, h4, h5, h6, hx, MState.push]

theorem step_NEWOBJ (c : Cls) :
    step (NEWOBJ :: r) ⟨.val (.tuple []) :: .cls c :: s, mm⟩ = some (r, ⟨.obj c :: s, mm⟩) := by simp [step]

theorem step_BUILD_cset (l : List PyVal) :
    step (BUILD :: r) ⟨.val (.dict [(.str SEQUENCE, .list l)]) :: .obj .cset :: s, mm⟩
      = some (r, ⟨.val (.set l) :: s, mm⟩) := by simp [step]

theorem step_BUILD_cfset (l : List PyVal) :
    step (BUILD :: r) ⟨.val (.dict [(.str SEQUENCE, .list l)]) :: .obj .cfset :: s, mm⟩
      = some (r, ⟨.val (.frozenset l) :: s, mm⟩) := by simp [step]

theorem step_PROTO (b : Nat) (st : MState) : step (PROTO :: b :: r) st = some (r, st) := by simp [step]

theorem step_STOP (st : MState) : step (STOP :: r) st = none := by simp [step]

end stackops

theorem readLine_append : ∀ (l r : Bs), 10 ∉ l → readLine (l ++ 10 :: r) = some (l, r)
  | [], r, _ => by simp [readLine]
  | b :: l, r, h => by
    have hb : b ≠ 10 := by intro e; apply h; simp [e]
    have hl : 10 ∉ l := by intro e; apply h; simp [e]
    simp [readLine, hb, readLine_append l r hl]

theorem step_GLOBAL_cset (r : Bs) (st : MState) :
    step (GLOBAL :: (Cls.name .cset ++ r)) st = some (r, st.push (.cls .cset)) := by
  have e : Cls.name .cset ++ r = asciiBytes "joblib.hashing" ++ 10 :: (asciiBytes "_ConsistentSet" ++ 10 :: r) := by
    simp [Cls.name, asciiBytes]
  rw [e]
  simp only [step]
  rw [readLine_append _ _ (by decide)]
  simp only []
  rw [readLine_append _ _ (by decide)]
  simp [classOf, Cls.name, asciiBytes]

theorem step_GLOBAL_cfset (r : Bs) (st : MState) :
    step (GLOBAL :: (Cls.name .cfset ++ r)) st = some (r, st.push (.cls .cfset)) := by
  have e : Cls.name .cfset ++ r = asciiBytes "joblib.hashing" ++ 10 :: (asciiBytes "_ConsistentFrozenSet" ++ 10 :: r) := by
    simp [Cls.name, asciiBytes]
  rw [e]
  simp only [step]
  rw [readLine_append _ _ (by decide)]
  simp only []
  rw [readLine_append _ _ (by decide)]
  simp [classOf, Cls.name, asciiBytes]



end opcodes

/-! ## scalars round-trip -/

theorem step_saveLong (i : Int) (h : (encodeLong i).length < 2 ^ 32) (r : Bs) (st : MState) :
    step (saveLong i ++ r) st = some (r, st.push (.val (.int i))) := by
  unfold saveLong
  split
  · rename_i hc
    simp only [leBytes, List.cons_append, List.nil_append]
    rw [step_BININT1]
    have : ((i.toNat % 256 : Nat) : Int) = i := by omega
    rw [this]
  · split
    · rename_i hc
      have hl : 2 ≤ (leBytes 2 i.toNat ++ r).length := by simp [leBytes_length]
      simp only [List.cons_append]
      rw [step_BININT2 _ _ hl, take_append_len _ _ 2 (leBytes_length _ _), drop_append_len _ _ 2 (leBytes_length _ _),
        fromLE_leBytes]
      have : ((i.toNat % 256 ^ 2 : Nat) : Int) = i := by omega
      rw [this]
    · split
      · rename_i hc
        have hlen : (leSigned 4 i).length = 4 := leBytes_length _ _
        have hl : 4 ≤ (leSigned 4 i ++ r).length := by simp [hlen]
        simp only [List.cons_append]
        rw [step_BININT _ _ hl, take_append_len _ _ 4 hlen, drop_append_len _ _ 4 hlen,
          decodeLong_leSigned 4 i (by omega) (by omega)]
      · simp only []
        split
        · rename_i hn
          simp only [List.cons_append]
          rw [step_LONG1 _ _ _ (by simp), take_append_len _ _ _ rfl, drop_append_len _ _ _ rfl, decodeLong_encodeLong]
        · have hlen : (leBytes 4 (encodeLong i).length).length = 4 := leBytes_length _ _
          have h4 : (leBytes 4 (encodeLong i).length ++ encodeLong i ++ r).take 4 = leBytes 4 (encodeLong i).length := by
            rw [List.append_assoc]; exact take_append_len _ _ 4 hlen
          have h5 : (leBytes 4 (encodeLong i).length ++ encodeLong i ++ r).drop 4 = encodeLong i ++ r := by
            rw [List.append_assoc]; exact drop_append_len _ _ 4 hlen
          have h6 : fromLE (leBytes 4 (encodeLong i).length) = (encodeLong i).length := by
            rw [fromLE_leBytes]; exact Nat.mod_eq_of_lt h
          simp only [List.cons_append]
          rw [step_LONG4 _ _ (by simp [hlen]) (by rw [h4, h5, h6]; simp), h4, h5, h6,
            take_append_len _ _ _ rfl, drop_append_len _ _ _ rfl, decodeLong_encodeLong]

theorem step_saveFloat (x : Nat) (h : x < 2 ^ 64) (r : Bs) (st : MState) :
    step (saveFloat x ++ r) st = some (r, st.push (.val (.float x))) := by
  unfold saveFloat
  have hlen : (leBytes 8 x).reverse.length = 8 := by simp [leBytes_length]
  simp only [List.cons_append]
  rw [step_BINFLOAT _ _ (by simp [leBytes_length]), take_append_len _ _ 8 hlen, drop_append_len _ _ 8 hlen,
    List.reverse_reverse, fromLE_leBytes, Nat.mod_eq_of_lt (by simpa using h)]

theorem step_saveStr (s : Bs) (h : s.length < 2 ^ 32) (r : Bs) (st : MState) :
    step (saveStr s ++ r) st = some (r, st.push (.val (.str s))) := by
  unfold saveStr
  have hlen : (leBytes 4 s.length).length = 4 := leBytes_length _ _
  have h4 : (leBytes 4 s.length ++ s ++ r).take 4 = leBytes 4 s.length := by
    rw [List.append_assoc]; exact take_append_len _ _ 4 hlen
  have h5 : (leBytes 4 s.length ++ s ++ r).drop 4 = s ++ r := by
    rw [List.append_assoc]; exact drop_append_len _ _ 4 hlen
  have h6 : fromLE (leBytes 4 s.length) = s.length := by
    rw [fromLE_leBytes]; exact Nat.mod_eq_of_lt h
  simp only [List.cons_append]
  rw [step_BINUNICODE _ _ (by simp [hlen]) (by rw [h4, h5, h6]; simp), h4, h5, h6,
    take_append_len _ _ _ rfl, drop_append_len _ _ _ rfl]

theorem step_saveBytes (s : Bs) (h : s.length < 2 ^ 32) (r : Bs) (st : MState) :
    step (saveBytes s ++ r) st = some (r, st.push (.val (.bytes s))) := by
  unfold saveBytes
  split
  · simp only [List.cons_append]
    rw [step_SHORT_BINBYTES _ _ _ (by simp), take_append_len _ _ _ rfl, drop_append_len _ _ _ rfl]
  · have hlen : (leBytes 4 s.length).length = 4 := leBytes_length _ _
    have h4 : (leBytes 4 s.length ++ s ++ r).take 4 = leBytes 4 s.length := by
      rw [List.append_assoc]; exact take_append_len _ _ 4 hlen
    have h5 : (leBytes 4 s.length ++ s ++ r).drop 4 = s ++ r := by
      rw [List.append_assoc]; exact drop_append_len _ _ 4 hlen
    have h6 : fromLE (leBytes 4 s.length) = s.length := by
      rw [fromLE_leBytes]; exact Nat.mod_eq_of_lt h
    simp only [List.cons_append]
    rw [step_BINBYTES _ _ (by simp [hlen]) (by rw [h4, h5, h6]; simp), h4, h5, h6,
      take_append_len _ _ _ rfl, drop_append_len _ _ _ rfl]



/-! ## the memo counter only grows -/

section mono
variable (e : PyVal → Memo → Bs × Memo)

theorem seqM_mono (he : ∀ x m, m.next ≤ (e x m).2.next) : ∀ (l : List PyVal) (m : Memo), m.next ≤ (seqM e l m).2.next
  | [], m => Nat.le_refl _
  | x :: xs, m => by
    simp only [seqM]
    exact Nat.le_trans (he x m) (seqM_mono he xs _)

theorem seqKV_mono (he : ∀ x m, m.next ≤ (e x m).2.next) :
    ∀ (l : List (PyVal × PyVal)) (m : Memo), m.next ≤ (seqKV e l m).2.next
  | [], m => Nat.le_refl _
  | (k, v) :: xs, m => by
    simp only [seqKV]
    exact Nat.le_trans (he k m) (Nat.le_trans (he v _) (seqKV_mono he xs _))

theorem saveClass_mono (c : Cls) (m : Memo) : m.next ≤ (saveClass c m).2.next := by
  unfold saveClass
  split
  · exact Nat.le_refl _
  · cases c <;> simp

theorem saveList_mono (he : ∀ x m, m.next ≤ (e x m).2.next) (l : List PyVal) (m : Memo) :
    m.next + 1 ≤ (saveList e l m).2.next := by
  simp only [saveList, memoize]
  exact seqM_mono e he l { m with next := m.next + 1 }

theorem saveTuple_mono (he : ∀ x m, m.next ≤ (e x m).2.next) (l : List PyVal) (m : Memo) :
    m.next ≤ (saveTuple e l m).2.next := by
  simp only [saveTuple, memoize]
  split
  · exact Nat.le_refl _
  · have := seqM_mono e he l m
    split <;> simp <;> omega

theorem wrapper_mono (he : ∀ x m, m.next ≤ (e x m).2.next) (c : Cls) (l : List PyVal) (m : Memo) :
    m.next ≤ (wrapper e c l m).2.next := by
  simp only [wrapper]
  have h1 := saveClass_mono c m
  have h2 := saveList_mono e he l (memoize (memoize (saveClass c m).2).2).2
  simp only [memoize] at h2 ⊢
  omega

end mono

theorem encF_mono (H : Bs → Bs) : ∀ (f : Nat) (v : PyVal) (m : Memo), m.next ≤ (encF H .fixed f v m).2.next := by
  intro f
  induction f with
  | zero => intro v m; simp [encF]
  | succ f ih =>
    intro v m
    cases v with
    | none => simp [encF]
    | bool b => simp [encF]
    | int i => simp [encF]
    | float x => simp [encF]
    | str s => simp [encF]
    | bytes s => simp [encF]
    | list l => simp only [encF]; have := saveList_mono _ ih l m; omega
    | tuple l => simp only [encF]; exact saveTuple_mono _ ih l m
    | set l => simp only [encF]; exact wrapper_mono _ ih _ _ m
    | frozenset l => simp only [encF]; exact wrapper_mono _ ih _ _ m
    | dict items =>
      simp only [encF, memoize]
      have := seqKV_mono _ ih (sortOn Prod.fst (itemsOf H .fixed (encF H .fixed f) items)) { m with next := m.next + 1 }
      simp only at this
      omega



/-! ## sequences of items -/

/-- Running `b` pushes `out` (top first) and turns the memo `mm` into `mm'`. -/
def Part (b : Bs) (out : List SV) (mm mm' : List SV) : Prop :=
  ∀ rest stk, Steps (b ++ rest, ⟨stk, mm⟩) (rest, ⟨out ++ stk, mm'⟩)

inductive Parts : List Bs → List (List SV) → List SV → List SV → Prop
  | nil (mm : List SV) : Parts [] [] mm mm
  | cons {b : Bs} {o : List SV} {bs : List Bs} {os : List (List SV)} {mm mm1 mm2 : List SV} :
      Part b o mm mm1 → Parts bs os mm1 mm2 → Parts (b :: bs) (o :: os) mm mm2

theorem Parts.length_eq {bs os mm mm'} (h : Parts bs os mm mm') : bs.length = os.length := by
  induction h with
  | nil _ => rfl
  | cons _ _ ih => simp [ih]

theorem Parts.run {bs os mm mm'} (h : Parts bs os mm mm') :
    ∀ rest stk, Steps (bs.flatten ++ rest, ⟨stk, mm⟩) (rest, ⟨os.reverse.flatten ++ stk, mm'⟩) := by
  induction h with
  | nil _ => intro rest stk; exact .refl _
  | @cons b o bs os mm mm1 mm2 hp _ ih =>
    intro rest stk
    have h1 := hp (bs.flatten ++ rest) stk
    have h2 := ih rest (o ++ stk)
    simp only [List.flatten_cons, List.append_assoc, List.reverse_cons, List.flatten_append,
      List.flatten_nil, List.append_nil] at h1 h2 ⊢
    exact h1.trans h2

theorem Parts.split {bs os mm mm'} (h : Parts bs os mm mm') (n : Nat) :
    ∃ mid, Parts (bs.take n) (os.take n) mm mid ∧ Parts (bs.drop n) (os.drop n) mid mm' := by
  induction h generalizing n with
  | nil mm => exact ⟨mm, by simpa using Parts.nil mm, by simpa using Parts.nil mm⟩
  | @cons b o bs os mm mm1 mm2 hp hps ih =>
    cases n with
    | zero => exact ⟨mm, by simpa using Parts.nil mm, by simpa using Parts.cons hp hps⟩
    | succ n =>
      obtain ⟨mid, h1, h2⟩ := ih n
      exact ⟨mid, by simpa using Parts.cons hp h1, by simpa using h2⟩

theorem Parts.nil_inv {os mm mm'} (h : Parts [] os mm mm') : os = [] ∧ mm' = mm := by
  cases h; exact ⟨rfl, rfl⟩

theorem flatten_reverse_vals (vs : List PyVal) :
    ((vs.map fun v => [SV.val v]).reverse).flatten = vs.reverse.map SV.val := by
  induction vs with
  | nil => rfl
  | cons v vs ih => simp [ih]

theorem flatten_reverse_kvs (kvs : List (PyVal × PyVal)) :
    ((kvs.map fun kv => [SV.val kv.2, SV.val kv.1]).reverse).flatten = (flatKV kvs).reverse.map SV.val := by
  induction kvs with
  | nil => rfl
  | cons kv kvs ih => simp [ih, flatKV]

/-- One pass of the `_batch_appends` loop body. -/
def chunkOf (one many : Nat) (tmp : List Bs) : Bs :=
  if tmp.length > 1 then MARK :: (tmp.flatten ++ [many])
  else if tmp.length = 1 then tmp.flatten ++ [one]
  else []

theorem batchF_succ (one many fuel : Nat) (items : List Bs) :
    batchF one many (fuel + 1) items =
      chunkOf one many (items.take BATCHSIZE) ++
        (if (items.take BATCHSIZE).length < BATCHSIZE then [] else batchF one many fuel (items.drop BATCHSIZE)) := rfl

theorem chunk_appends {tmp : List Bs} {vt : List PyVal} {mm mid : List SV}
    (h : Parts tmp (vt.map fun v => [SV.val v]) mm mid) (l0 : List PyVal) (R : Bs) (stk : List SV) :
    Steps (chunkOf APPEND APPENDS tmp ++ R, ⟨.val (.list l0) :: stk, mm⟩) (R, ⟨.val (.list (l0 ++ vt)) :: stk, mid⟩) := by
  have hlen := h.length_eq
  simp only [List.length_map] at hlen
  unfold chunkOf
  split
  · rename_i hgt
    have h1 := h.run (APPENDS :: R) (.mark :: .val (.list l0) :: stk)
    rw [flatten_reverse_vals] at h1
    simp only [List.cons_append, List.append_assoc, List.nil_append]
    refine (Steps.one (step_MARK _ _)).trans (h1.trans (Steps.one ?_))
    exact step_APPENDS _ _ _ _ _
  · rename_i hngt
    split
    · rename_i h1len
      have h1 := h.run (APPEND :: R) (.val (.list l0) :: stk)
      rw [flatten_reverse_vals] at h1
      obtain ⟨v, rfl⟩ : ∃ v, vt = [v] := by
        cases vt with
        | nil => rw [h1len] at hlen; simp at hlen
        | cons v vt' =>
          cases vt' with
          | nil => exact ⟨v, rfl⟩
          | cons _ _ => rw [h1len] at hlen; simp at hlen
      simp only [List.append_assoc, List.cons_append, List.nil_append]
      refine h1.trans (Steps.one ?_)
      exact step_APPEND _ _ _ _ _
    · rename_i hn1
      have : tmp = [] := by
        cases tmp with
        | nil => rfl
        | cons _ t => simp only [List.length_cons] at hngt hn1; omega
      subst this
      obtain ⟨ho, hm⟩ := h.nil_inv
      have : vt = [] := by simpa using ho
      subst this; subst hm
      simp
      exact .refl _

theorem batch_appends : ∀ (fuel : Nat) (bs : List Bs) (vs : List PyVal) (mm mm' : List SV) (l0 : List PyVal),
    Parts bs (vs.map fun v => [SV.val v]) mm mm' → bs.length / BATCHSIZE + 1 ≤ fuel →
    ∀ rest stk, Steps (batchF APPEND APPENDS fuel bs ++ rest, ⟨.val (.list l0) :: stk, mm⟩)
      (rest, ⟨.val (.list (l0 ++ vs)) :: stk, mm'⟩)
  | 0, _, _, _, _, _, _, hf => (Nat.not_succ_le_zero _ hf).elim
  | fuel + 1, bs, vs, mm, mm', l0, h, hf => by
    intro rest stk
    obtain ⟨mid, h1, h2⟩ := h.split BATCHSIZE
    rw [← List.map_take] at h1
    rw [← List.map_drop] at h2
    have hlen := h.length_eq
    simp only [List.length_map] at hlen
    rw [batchF_succ, List.append_assoc]
    refine (chunk_appends h1 l0 _ stk).trans ?_
    split
    · rename_i hlt
      have hb : bs.drop BATCHSIZE = [] := by
        simp only [List.length_take] at hlt
        apply List.drop_eq_nil_of_le; omega
      rw [hb] at h2
      obtain ⟨ho, hm⟩ := h2.nil_inv
      have hv : vs.drop BATCHSIZE = [] := by simpa using ho
      have : vs.take BATCHSIZE = vs := by
        have := List.take_append_drop BATCHSIZE vs
        rw [hv, List.append_nil] at this; exact this
      rw [this, hm]
      exact .refl _
    · rename_i hge
      simp only [List.length_take] at hge
      have hfu : (bs.drop BATCHSIZE).length / BATCHSIZE + 1 ≤ fuel := by
        simp only [List.length_drop, BATCHSIZE] at *
        omega
      have := batch_appends fuel _ _ mid mm' (l0 ++ vs.take BATCHSIZE) h2 hfu rest stk
      rw [List.append_assoc, List.take_append_drop] at this
      exact this

theorem chunk_setitems {tmp : List Bs} {vt : List (PyVal × PyVal)} {mm mid : List SV}
    (h : Parts tmp (vt.map fun kv => [SV.val kv.2, SV.val kv.1]) mm mid) (d0 : List (PyVal × PyVal)) (R : Bs)
    (stk : List SV) :
    Steps (chunkOf SETITEM SETITEMS tmp ++ R, ⟨.val (.dict d0) :: stk, mm⟩) (R, ⟨.val (.dict (d0 ++ vt)) :: stk, mid⟩) := by
  have hlen := h.length_eq
  simp only [List.length_map] at hlen
  unfold chunkOf
  split
  · rename_i hgt
    have h1 := h.run (SETITEMS :: R) (.mark :: .val (.dict d0) :: stk)
    rw [flatten_reverse_kvs] at h1
    simp only [List.cons_append, List.append_assoc, List.nil_append]
    refine (Steps.one (step_MARK _ _)).trans (h1.trans (Steps.one ?_))
    exact step_SETITEMS _ _ _ _ _
  · rename_i hngt
    split
    · rename_i h1len
      have h1 := h.run (SETITEM :: R) (.val (.dict d0) :: stk)
      obtain ⟨kv, rfl⟩ : ∃ kv, vt = [kv] := by
        cases vt with
        | nil => rw [h1len] at hlen; simp at hlen
        | cons v vt' =>
          cases vt' with
          | nil => exact ⟨v, rfl⟩
          | cons _ _ => rw [h1len] at hlen; simp at hlen
      simp only [List.append_assoc, List.cons_append, List.nil_append, List.map_cons, List.map_nil,
        List.reverse_cons, List.reverse_nil, List.flatten_cons, List.flatten_nil, List.append_nil] at h1 ⊢
      refine h1.trans (Steps.one ?_)
      exact step_SETITEM _ _ _ _ _ _
    · rename_i hn1
      have : tmp = [] := by
        cases tmp with
        | nil => rfl
        | cons _ t => simp only [List.length_cons] at hngt hn1; omega
      subst this
      obtain ⟨ho, hm⟩ := h.nil_inv
      have : vt = [] := by simpa using ho
      subst this; subst hm
      simp
      exact .refl _

theorem batch_setitems : ∀ (fuel : Nat) (bs : List Bs) (vs : List (PyVal × PyVal)) (mm mm' : List SV)
    (d0 : List (PyVal × PyVal)),
    Parts bs (vs.map fun kv => [SV.val kv.2, SV.val kv.1]) mm mm' → bs.length / BATCHSIZE + 1 ≤ fuel →
    ∀ rest stk, Steps (batchF SETITEM SETITEMS fuel bs ++ rest, ⟨.val (.dict d0) :: stk, mm⟩)
      (rest, ⟨.val (.dict (d0 ++ vs)) :: stk, mm'⟩)
  | 0, _, _, _, _, _, _, hf => (Nat.not_succ_le_zero _ hf).elim
  | fuel + 1, bs, vs, mm, mm', d0, h, hf => by
    intro rest stk
    obtain ⟨mid, h1, h2⟩ := h.split BATCHSIZE
    rw [← List.map_take] at h1
    rw [← List.map_drop] at h2
    have hlen := h.length_eq
    simp only [List.length_map] at hlen
    rw [batchF_succ, List.append_assoc]
    refine (chunk_setitems h1 d0 _ stk).trans ?_
    split
    · rename_i hlt
      have hb : bs.drop BATCHSIZE = [] := by
        simp only [List.length_take] at hlt
        apply List.drop_eq_nil_of_le; omega
      rw [hb] at h2
      obtain ⟨ho, hm⟩ := h2.nil_inv
      have hv : vs.drop BATCHSIZE = [] := by simpa using ho
      have : vs.take BATCHSIZE = vs := by
        have := List.take_append_drop BATCHSIZE vs
        rw [hv, List.append_nil] at this; exact this
      rw [this, hm]
      exact .refl _
    · rename_i hge
      simp only [List.length_take] at hge
      have hfu : (bs.drop BATCHSIZE).length / BATCHSIZE + 1 ≤ fuel := by
        simp only [List.length_drop, BATCHSIZE] at *
        omega
      have := batch_setitems fuel _ _ mid mm' (d0 ++ vs.take BATCHSIZE) h2 hfu rest stk
      rw [List.append_assoc, List.take_append_drop] at this
      exact this



/-! ## the encoder's streams run to their value -/

/-- The machine's memo mirrors the pickler's: same length, and the classes sit where the
pickler remembers them. -/
def MemoOK (m : Memo) (mm : List SV) : Prop :=
  mm.length = m.next ∧ ∀ c i, m.cls c = some i → i < 2 ^ 32 ∧ mm[i]? = some (.cls c)

/-- From any mirrored memo (and while fewer than 2^32 objects are memoised — beyond that the real
pickler raises), the stream `e x m` pushes `out` and leaves a mirrored memo. -/
def Runs (e : PyVal → Memo → Bs × Memo) (out : PyVal) (x : PyVal) : Prop :=
  ∀ m mm, MemoOK m mm → (e x m).2.next ≤ 2 ^ 32 →
    ∃ mm', Part (e x m).1 [.val out] mm mm' ∧ MemoOK (e x m).2 mm'

theorem MemoOK.memoize {m : Memo} {mm : List SV} (h : MemoOK m mm) (top : SV) :
    MemoOK (memoize m).2 (mm ++ [top]) := by
  obtain ⟨h1, h2⟩ := h
  refine ⟨by simp [JoblibModel.HashStream.memoize, h1], ?_⟩
  intro c i hc
  have hc' : m.cls c = some i := by cases c <;> simpa [JoblibModel.HashStream.memoize, Memo.cls] using hc
  obtain ⟨hi, hg⟩ := h2 c i hc'
  refine ⟨hi, ?_⟩
  obtain ⟨hlt, _⟩ := List.getElem?_eq_some_iff.mp hg
  rw [List.getElem?_append_left hlt]; exact hg

theorem steps_put (idx : Nat) (top : SV) (r : Bs) (s mm : List SV) :
    Steps (put idx ++ r, ⟨top :: s, mm⟩) (r, ⟨top :: s, mm ++ [top]⟩) :=
  Steps.one (step_put r s mm idx top)

theorem steps_MARK (r : Bs) (s mm : List SV) : Steps (MARK :: r, ⟨s, mm⟩) (r, ⟨.mark :: s, mm⟩) :=
  Steps.one (step_MARK r ⟨s, mm⟩)
theorem steps_EMPTY_LIST (r : Bs) (s mm : List SV) :
    Steps (EMPTY_LIST :: r, ⟨s, mm⟩) (r, ⟨.val (.list []) :: s, mm⟩) := Steps.one (step_EMPTY_LIST r ⟨s, mm⟩)
theorem steps_EMPTY_TUPLE (r : Bs) (s mm : List SV) :
    Steps (EMPTY_TUPLE :: r, ⟨s, mm⟩) (r, ⟨.val (.tuple []) :: s, mm⟩) := Steps.one (step_EMPTY_TUPLE r ⟨s, mm⟩)
theorem steps_EMPTY_DICT (r : Bs) (s mm : List SV) :
    Steps (EMPTY_DICT :: r, ⟨s, mm⟩) (r, ⟨.val (.dict []) :: s, mm⟩) := Steps.one (step_EMPTY_DICT r ⟨s, mm⟩)
theorem steps_saveStr (x : Bs) (h : x.length < 2 ^ 32) (r : Bs) (s mm : List SV) :
    Steps (saveStr x ++ r, ⟨s, mm⟩) (r, ⟨.val (.str x) :: s, mm⟩) := Steps.one (step_saveStr x h r ⟨s, mm⟩)

section runs
variable (e : PyVal → Memo → Bs × Memo) (canon : PyVal → PyVal)
variable (hm : ∀ x m, m.next ≤ (e x m).2.next)
include hm

theorem seqM_parts : ∀ (l : List PyVal), (∀ x ∈ l, Runs e (canon x) x) → ∀ m mm, MemoOK m mm →
    (seqM e l m).2.next ≤ 2 ^ 32 →
    ∃ mm', Parts (seqM e l m).1 (l.map fun x => [SV.val (canon x)]) mm mm' ∧ MemoOK (seqM e l m).2 mm'
  | [], _, m, mm, ok, _ => ⟨mm, .nil mm, ok⟩
  | x :: xs, hl, m, mm, ok, hb => by
    simp only [seqM] at hb ⊢
    have hb1 : (e x m).2.next ≤ 2 ^ 32 := Nat.le_trans (seqM_mono e hm xs _) hb
    obtain ⟨mm1, p1, ok1⟩ := hl x List.mem_cons_self m mm ok hb1
    obtain ⟨mm2, p2, ok2⟩ := seqM_parts xs (fun y hy => hl y (List.mem_cons_of_mem _ hy)) _ mm1 ok1 hb
    exact ⟨mm2, .cons p1 p2, ok2⟩

theorem seqKV_parts : ∀ (l : List (PyVal × PyVal)),
    (∀ kv ∈ l, Runs e (canon kv.1) kv.1 ∧ Runs e (canon kv.2) kv.2) → ∀ m mm, MemoOK m mm →
    (seqKV e l m).2.next ≤ 2 ^ 32 →
    ∃ mm', Parts (seqKV e l m).1 (l.map fun kv => [SV.val (canon kv.2), SV.val (canon kv.1)]) mm mm' ∧
      MemoOK (seqKV e l m).2 mm'
  | [], _, m, mm, ok, _ => ⟨mm, .nil mm, ok⟩
  | (k, v) :: xs, hl, m, mm, ok, hb => by
    simp only [seqKV] at hb ⊢
    have hb2 : (e v (e k m).2).2.next ≤ 2 ^ 32 := Nat.le_trans (seqKV_mono e hm xs _) hb
    have hb1 : (e k m).2.next ≤ 2 ^ 32 := Nat.le_trans (hm v _) hb2
    obtain ⟨mm1, p1, ok1⟩ := (hl (k, v) List.mem_cons_self).1 m mm ok hb1
    obtain ⟨mm2, p2, ok2⟩ := (hl (k, v) List.mem_cons_self).2 _ mm1 ok1 hb2
    obtain ⟨mm3, p3, ok3⟩ := seqKV_parts xs (fun y hy => hl y (List.mem_cons_of_mem _ hy)) _ mm2 ok2 hb
    refine ⟨mm3, .cons ?_ p3, ok3⟩
    intro rest stk
    have s1 := p1 ((e v (e k m).2).1 ++ rest) stk
    have s2 := p2 rest (.val (canon k) :: stk)
    simp only [List.append_assoc, List.cons_append, List.nil_append] at s1 s2 ⊢
    exact s1.trans s2

theorem saveList_run (l : List PyVal) (hl : ∀ x ∈ l, Runs e (canon x) x) :
    ∀ m mm, MemoOK m mm → (saveList e l m).2.next ≤ 2 ^ 32 →
    ∃ mm', Part (saveList e l m).1 [.val (.list (l.map canon))] mm mm' ∧ MemoOK (saveList e l m).2 mm' := by
  intro m mm ok hb
  simp only [saveList] at hb ⊢
  obtain ⟨mm', ps, ok'⟩ := seqM_parts e canon hm l hl (memoize m).2 (mm ++ [.val (.list [])])
    (ok.memoize _) hb
  refine ⟨mm', ?_, ok'⟩
  intro rest stk
  have hps : Parts (seqM e l (memoize m).2).1 ((l.map canon).map fun v => [SV.val v]) (mm ++ [.val (.list [])]) mm' := by
    rw [List.map_map]; exact ps
  have s3 := batch_appends _ _ _ _ _ [] hps (Nat.le_refl _) rest stk
  simp only [List.cons_append, List.append_assoc, List.nil_append, memoize, batch] at s3 ⊢
  exact (steps_EMPTY_LIST _ _ _).trans ((steps_put _ _ _ _ _).trans s3)

theorem saveTuple_run (l : List PyVal) (hl : ∀ x ∈ l, Runs e (canon x) x) :
    ∀ m mm, MemoOK m mm → (saveTuple e l m).2.next ≤ 2 ^ 32 →
    ∃ mm', Part (saveTuple e l m).1 [.val (.tuple (l.map canon))] mm mm' ∧ MemoOK (saveTuple e l m).2 mm' := by
  intro m mm ok hb
  by_cases hemp : l.isEmpty = true
  · have : l = [] := by simpa using hemp
    subst this
    simp only [saveTuple, List.isEmpty_nil, if_true, List.map_nil]
    refine ⟨mm, ?_, ok⟩
    intro rest stk
    exact steps_EMPTY_TUPLE _ _ _
  · simp only [saveTuple, hemp, Bool.false_eq_true, if_false] at hb ⊢
    have hb0 : (seqM e l m).2.next ≤ 2 ^ 32 := by
      split at hb <;> simp only [memoize] at hb <;> omega
    obtain ⟨mm1, ps, ok1⟩ := seqM_parts e canon hm l hl m mm ok hb0
    have hps : Parts (seqM e l m).1 ((l.map canon).map fun v => [SV.val v]) mm mm1 := by
      rw [List.map_map]; exact ps
    by_cases hlen : l.length ≤ 3
    · simp only [hlen, if_true]
      refine ⟨mm1 ++ [.val (.tuple (l.map canon))], ?_, ok1.memoize _⟩
      intro rest stk
      have run := hps.run ((TUPLE1 + (l.length - 1)) :: (put (seqM e l m).2.next ++ rest)) stk
      rw [flatten_reverse_vals] at run
      simp only [List.append_assoc, List.cons_append, memoize, List.nil_append] at run ⊢
      refine run.trans (Steps.trans (Steps.one ?_) (steps_put (seqM e l m).2.next _ rest stk mm1))
      match l, hemp, hlen with
      | [a], _, _ => exact step_TUPLE1 _ _ _ _
      | [a, b], _, _ => exact step_TUPLE2 _ _ _ _ _
      | [a, b, c], _, _ => exact step_TUPLE3 _ _ _ _ _ _
      | [], h, _ => simp at h
      | _ :: _ :: _ :: _ :: _, _, h => simp at h
    · simp only [hlen, if_false]
      refine ⟨mm1 ++ [.val (.tuple (l.map canon))], ?_, ok1.memoize _⟩
      intro rest stk
      have run := hps.run (TUPLE :: (put (seqM e l m).2.next ++ rest)) (.mark :: stk)
      rw [flatten_reverse_vals] at run
      simp only [List.append_assoc, List.cons_append, memoize, List.nil_append] at run ⊢
      exact (steps_MARK _ _ _).trans (run.trans ((Steps.one (step_TUPLE _ _ _ _)).trans (steps_put _ _ _ _ _)))

omit hm in
theorem saveClass_run (c : Cls) (hc : c ≠ .fz) (m : Memo) (mm : List SV) (ok : MemoOK m mm)
    (hb : (saveClass c m).2.next ≤ 2 ^ 32) :
    ∃ mm', Part (saveClass c m).1 [.cls c] mm mm' ∧ MemoOK (saveClass c m).2 mm' := by
  unfold saveClass at hb ⊢
  split
  · rename_i i hi
    obtain ⟨h1, h2⟩ := ok.2 c i hi
    refine ⟨mm, ?_, ok⟩
    intro rest stk
    exact Steps.one (step_get rest stk mm i _ h1 h2)
  · rename_i hnone
    simp only [hnone] at hb
    have hnext : m.next < 2 ^ 32 := by cases c <;> simp at hb <;> omega
    refine ⟨mm ++ [.cls c], ?_, ?_⟩
    · intro rest stk
      simp only [List.cons_append, List.append_assoc]
      have hg : step (GLOBAL :: (c.name ++ (put m.next ++ rest))) ⟨stk, mm⟩
          = some (put m.next ++ rest, (⟨stk, mm⟩ : MState).push (.cls c)) := by
        cases c with
        | cset => exact step_GLOBAL_cset _ _
        | cfset => exact step_GLOBAL_cfset _ _
        | fz => exact absurd rfl hc
      exact (Steps.one hg).trans (steps_put _ _ _ _ _)
    · obtain ⟨h1, h2⟩ := ok
      refine ⟨by cases c <;> simp [h1], ?_⟩
      intro c' i hc'
      by_cases hcc : c' = c
      · subst hcc
        have : i = m.next := by cases c' <;> simp [Memo.setCls, Memo.cls] at hc' <;> omega
        subst this
        refine ⟨hnext, ?_⟩
        rw [← h1]; simp
      · have hold : m.cls c' = some i := by
          cases c <;> cases c' <;> simp_all [Memo.setCls, Memo.cls]
        obtain ⟨hi, hg⟩ := h2 c' i hold
        obtain ⟨hlt, _⟩ := List.getElem?_eq_some_iff.mp hg
        exact ⟨hi, by rw [List.getElem?_append_left hlt]; exact hg⟩

theorem wrapper_run (c : Cls) (hc : c ≠ .fz) (seq : List PyVal) (hl : ∀ x ∈ seq, Runs e (canon x) x)
    (out : PyVal)
    (hout : ∀ r s mm, step (BUILD :: r) ⟨.val (.dict [(.str SEQUENCE, .list (seq.map canon))]) :: .obj c :: s, mm⟩
      = some (r, ⟨.val out :: s, mm⟩)) :
    ∀ m mm, MemoOK m mm → (wrapper e c seq m).2.next ≤ 2 ^ 32 →
    ∃ mm', Part (wrapper e c seq m).1 [.val out] mm mm' ∧ MemoOK (wrapper e c seq m).2 mm' := by
  intro m mm ok hb
  simp only [wrapper] at hb ⊢
  have hmono := saveList_mono e hm seq (memoize (memoize (saveClass c m).2).2).2
  have hb1 : (saveClass c m).2.next ≤ 2 ^ 32 := by
    simp only [memoize] at hmono hb; omega
  obtain ⟨mm1, p1, ok1⟩ := saveClass_run c hc m mm ok hb1
  have ok2 := ok1.memoize (.obj c)
  have ok3 := ok2.memoize (.val (.dict []))
  generalize hmm3 : mm1 ++ [SV.obj c] ++ [SV.val (.dict [])] = mm3 at ok3
  obtain ⟨mm4, p4, ok4⟩ := saveList_run e canon hm seq hl _ _ ok3 hb
  refine ⟨mm4, ?_, ok4⟩
  intro rest stk
  have s1 := p1 (EMPTY_TUPLE :: NEWOBJ :: ((memoize (saveClass c m).2).1 ++ EMPTY_DICT ::
      ((memoize (memoize (saveClass c m).2).2).1 ++ saveStr SEQUENCE ++
        (saveList e seq (memoize (memoize (saveClass c m).2).2).2).1 ++ [SETITEM, BUILD])) ++ rest) stk
  have s4 := p4 (SETITEM :: BUILD :: rest) (.val (.str SEQUENCE) :: .val (.dict []) :: .obj c :: stk)
  simp only [List.append_assoc, List.cons_append, List.nil_append, memoize] at s1 s4 ⊢
  refine s1.trans ?_
  refine (steps_EMPTY_TUPLE _ _ _).trans ?_
  refine (Steps.one (step_NEWOBJ _ _ _ _)).trans ?_
  refine (steps_put _ _ _ _ _).trans ?_
  refine (steps_EMPTY_DICT _ _ _).trans ?_
  refine (steps_put _ _ _ _ _).trans ?_
  rw [hmm3]
  refine (steps_saveStr SEQUENCE (by decide) _ _ _).trans ?_
  refine s4.trans ?_
  refine (Steps.one (step_SETITEM _ _ _ _ _ _)).trans ?_
  exact Steps.one (hout _ _ _)

theorem dict_run (items : List (PyVal × PyVal))
    (hl : ∀ kv ∈ items, Runs e (canon kv.1) kv.1 ∧ Runs e (canon kv.2) kv.2) :
    ∀ m mm, MemoOK m mm → (seqKV e items (memoize m).2).2.next ≤ 2 ^ 32 →
    ∃ mm', Part (EMPTY_DICT :: ((memoize m).1 ++ batch SETITEM SETITEMS (seqKV e items (memoize m).2).1))
        [.val (.dict (items.map fun kv => (canon kv.1, canon kv.2)))] mm mm' ∧
      MemoOK (seqKV e items (memoize m).2).2 mm' := by
  intro m mm ok hb
  obtain ⟨mm', ps, ok'⟩ := seqKV_parts e canon hm items hl (memoize m).2 (mm ++ [.val (.dict [])])
    (ok.memoize _) hb
  refine ⟨mm', ?_, ok'⟩
  intro rest stk
  have hps : Parts (seqKV e items (memoize m).2).1
      ((items.map fun kv => (canon kv.1, canon kv.2)).map fun kv => [SV.val kv.2, SV.val kv.1])
      (mm ++ [.val (.dict [])]) mm' := by
    rw [List.map_map]; exact ps
  have s3 := batch_setitems _ _ _ _ _ [] hps (Nat.le_refl _) rest stk
  simp only [List.cons_append, List.append_assoc, List.nil_append, memoize, batch] at s3 ⊢
  exact (steps_EMPTY_DICT _ _ _).trans ((steps_put _ _ _ _ _).trans s3)

end runs



/-- The fragment on which `encode` is injective: the value is at most `f` levels deep, every
dict / set / frozenset node sorts its keys directly (never takes the digest fallback), floats are
64-bit patterns, and nothing is too long for its 4-byte length field (beyond which the real
pickler raises instead of producing a stream). -/
def Plain : Nat → PyVal → Prop
  | 0, _ => False
  | f + 1, v =>
    match v with
    | .none => True
    | .bool _ => True
    | .int i => (encodeLong i).length < 2 ^ 32
    | .float x => x < 2 ^ 64
    | .str s => s.length < 2 ^ 32
    | .bytes s => s.length < 2 ^ 32
    | .list l => ∀ x ∈ l, Plain f x
    | .tuple l => ∀ x ∈ l, Plain f x
    | .set l => orderable .fixed l = true ∧ ∀ x ∈ l, Plain f x
    | .frozenset l => orderable .fixed l = true ∧ ∀ x ∈ l, Plain f x
    | .dict items => orderable .fixed (items.map Prod.fst) = true ∧ ∀ kv ∈ items, Plain f kv.1 ∧ Plain f kv.2

/-- The canonical listing of a value: every set / frozenset / dict part in sorted order. -/
def canonF : Nat → PyVal → PyVal
  | 0, v => v
  | f + 1, v =>
    match v with
    | .list l => .list (l.map (canonF f))
    | .tuple l => .tuple (l.map (canonF f))
    | .set l => .set ((sortOn id l).map (canonF f))
    | .frozenset l => .frozenset ((sortOn id l).map (canonF f))
    | .dict items => .dict ((sortOn Prod.fst items).map fun kv => (canonF f kv.1, canonF f kv.2))
    | .none => .none
    | .bool b => .bool b
    | .int i => .int i
    | .float x => .float x
    | .str s => .str s
    | .bytes s => .bytes s

theorem runs_leaf (e : PyVal → Memo → Bs × Memo) (x out : PyVal)
    (h : ∀ m, (e x m).2 = m ∧ ∀ r st, step ((e x m).1 ++ r) st = some (r, st.push (.val out))) : Runs e out x := by
  intro m mm ok _
  refine ⟨mm, ?_, by rw [(h m).1]; exact ok⟩
  intro rest stk
  exact Steps.one ((h m).2 rest ⟨stk, mm⟩)

theorem exec_encF (H : Bs → Bs) : ∀ (f : Nat) (v : PyVal), Plain f v → Runs (encF H .fixed f) (canonF f v) v := by
  intro f
  induction f with
  | zero => intro v h; exact absurd h (by simp [Plain])
  | succ f ih =>
    intro v hp
    have hm := encF_mono H f
    cases v with
    | none => exact runs_leaf _ _ _ (fun m => ⟨rfl, fun r st => step_NONE r st⟩)
    | bool b =>
      refine runs_leaf _ _ _ (fun m => ⟨rfl, fun r st => ?_⟩)
      cases b
      · exact step_NEWFALSE r st
      · exact step_NEWTRUE r st
    | int i => exact runs_leaf _ _ _ (fun m => ⟨rfl, fun r st => step_saveLong i hp r st⟩)
    | float x => exact runs_leaf _ _ _ (fun m => ⟨rfl, fun r st => step_saveFloat x hp r st⟩)
    | str s => exact runs_leaf _ _ _ (fun m => ⟨rfl, fun r st => step_saveStr s hp r st⟩)
    | bytes s => exact runs_leaf _ _ _ (fun m => ⟨rfl, fun r st => step_saveBytes s hp r st⟩)
    | list l =>
      intro m mm ok hb
      exact saveList_run _ (canonF f) hm l (fun x hx => ih x (hp x hx)) m mm ok hb
    | tuple l =>
      intro m mm ok hb
      exact saveTuple_run _ (canonF f) hm l (fun x hx => ih x (hp x hx)) m mm ok hb
    | set l =>
      intro m mm ok hb
      obtain ⟨ho, hl⟩ := hp
      simp only [encF, keysOf, ho, if_true] at hb ⊢
      refine wrapper_run _ (canonF f) hm .cset (by decide) (sortOn id l)
        (fun x hx => ih x (hl x ((sortOn_perm id l).subset hx))) _ (fun r s mm => step_BUILD_cset r s mm _) m mm ok hb
    | frozenset l =>
      intro m mm ok hb
      obtain ⟨ho, hl⟩ := hp
      simp only [encF, keysOf, ho, if_true] at hb ⊢
      refine wrapper_run _ (canonF f) hm .cfset (by decide) (sortOn id l)
        (fun x hx => ih x (hl x ((sortOn_perm id l).subset hx))) _ (fun r s mm => step_BUILD_cfset r s mm _) m mm ok hb
    | dict items =>
      intro m mm ok hb
      obtain ⟨ho, hl⟩ := hp
      simp only [encF, itemsOf, ho, if_true] at hb ⊢
      exact dict_run _ (canonF f) hm (sortOn Prod.fst items)
        (fun kv hkv => ⟨ih _ (hl kv ((sortOn_perm Prod.fst items).subset hkv)).1,
          ih _ (hl kv ((sortOn_perm Prod.fst items).subset hkv)).2⟩) m mm ok hb

/-- Running the machine on the whole stream ends, stuck on STOP, with exactly the canonical
listing of the value on the stack. -/
theorem exec_encode (H : Bs → Bs) (v : PyVal) (hp : Plain (depth v) v)
    (hb : (encF H .fixed (depth v) v Memo.init).2.next ≤ 2 ^ 32) :
    ∃ mm', Steps (encode H v, ⟨[], []⟩) ([STOP], ⟨[.val (canonF (depth v) v)], mm'⟩) := by
  have ok : MemoOK Memo.init [] := ⟨rfl, by intro c i h; cases c <;> simp [Memo.init, Memo.cls] at h⟩
  obtain ⟨mm', p, _⟩ := exec_encF H (depth v) v hp Memo.init [] ok hb
  refine ⟨mm', ?_⟩
  have s := p [STOP] []
  unfold encode encodeV frame
  exact (Steps.one (step_PROTO _ 3 _)).trans s

/-- Injectivity of the stream on plain values: equal streams ⇒ equal canonical listings. -/
theorem encode_inj (H : Bs → Bs) (v w : PyVal) (hv : Plain (depth v) v) (hw : Plain (depth w) w)
    (bv : (encF H .fixed (depth v) v Memo.init).2.next ≤ 2 ^ 32)
    (bw : (encF H .fixed (depth w) w Memo.init).2.next ≤ 2 ^ 32)
    (h : encode H v = encode H w) : canonF (depth v) v = canonF (depth w) w := by
  obtain ⟨m1, s1⟩ := exec_encode H v hv bv
  obtain ⟨m2, s2⟩ := exec_encode H w hw bw
  rw [h] at s1
  have := Steps.final_unique s1 s2 (step_STOP _ _) (step_STOP _ _)
  simp only [Prod.mk.injEq, MState.mk.injEq, List.cons.injEq, SV.val.injEq] at this
  exact this.2.1.1



/-! ## the canonical listing is a reordering, and keeps the constructor -/

theorem reorderL_map (g : PyVal → PyVal) : ∀ (l : List PyVal), (∀ x ∈ l, Reorder x (g x)) → ReorderL l (l.map g)
  | [], _ => .nil
  | x :: xs, h => .cons (h x List.mem_cons_self) (reorderL_map g xs (fun y hy => h y (List.mem_cons_of_mem _ hy)))

theorem reorderD_map (g : PyVal → PyVal) : ∀ (l : List (PyVal × PyVal)),
    (∀ kv ∈ l, Reorder kv.1 (g kv.1) ∧ Reorder kv.2 (g kv.2)) → ReorderD l (l.map fun kv => (g kv.1, g kv.2))
  | [], _ => .nil
  | (k, v) :: xs, h => .cons (h (k, v) List.mem_cons_self).1 (h (k, v) List.mem_cons_self).2
      (reorderD_map g xs (fun y hy => h y (List.mem_cons_of_mem _ hy)))

theorem reorder_canonF : ∀ (f : Nat) (v : PyVal), Reorder v (canonF f v) := by
  intro f
  induction f with
  | zero => intro v; exact Reorder.refl v
  | succ f ih =>
    intro v
    cases v with
    | none => exact .none
    | bool b => exact .bool b
    | int i => exact .int i
    | float x => exact .float x
    | str s => exact .str s
    | bytes s => exact .bytes s
    | list l => exact .list (reorderL_map _ l (fun x _ => ih x))
    | tuple l => exact .tuple (reorderL_map _ l (fun x _ => ih x))
    | set l => exact .set (reorderL_map _ l (fun x _ => ih x)) ((sortOn_perm id l).symm.map _)
    | frozenset l => exact .frozenset (reorderL_map _ l (fun x _ => ih x)) ((sortOn_perm id l).symm.map _)
    | dict l =>
      exact .dict (reorderD_map _ l (fun kv _ => ⟨ih kv.1, ih kv.2⟩)) ((sortOn_perm Prod.fst l).symm.map _)

/-- The Python type of a value. -/
inductive Ty where
  | none | bool | int | float | str | bytes | list | tuple | set | frozenset | dict
deriving DecidableEq, Repr

def tyOf : PyVal → Ty
  | .none => .none
  | .bool _ => .bool
  | .int _ => .int
  | .float _ => .float
  | .str _ => .str
  | .bytes _ => .bytes
  | .list _ => .list
  | .tuple _ => .tuple
  | .set _ => .set
  | .frozenset _ => .frozenset
  | .dict _ => .dict

theorem tyOf_canonF (f : Nat) (v : PyVal) : tyOf (canonF f v) = tyOf v := by
  cases f <;> cases v <;> rfl

/-- A value with no dict / set / frozenset inside: its listing is unique. -/
def Ordered : Nat → PyVal → Prop
  | 0, _ => True
  | f + 1, v =>
    match v with
    | .list l => ∀ x ∈ l, Ordered f x
    | .tuple l => ∀ x ∈ l, Ordered f x
    | .set _ => False
    | .frozenset _ => False
    | .dict _ => False
    | _ => True

theorem map_id_of {g : PyVal → PyVal} : ∀ (l : List PyVal), (∀ x ∈ l, g x = x) → l.map g = l
  | [], _ => rfl
  | x :: xs, h => by
    simp only [List.map_cons, h x List.mem_cons_self,
      map_id_of xs (fun y hy => h y (List.mem_cons_of_mem _ hy))]

theorem canonF_ordered : ∀ (f : Nat) (v : PyVal), Ordered f v → canonF f v = v := by
  intro f
  induction f with
  | zero => intro v _; rfl
  | succ f ih =>
    intro v h
    cases v with
    | list l => simp only [canonF]; rw [map_id_of l (fun x hx => ih x (h x hx))]
    | tuple l => simp only [canonF]; rw [map_id_of l (fun x hx => ih x (h x hx))]
    | set l => exact absurd h (by simp [Ordered])
    | frozenset l => exact absurd h (by simp [Ordered])
    | dict l => exact absurd h (by simp [Ordered])
    | none => rfl
    | bool b => rfl
    | int i => rfl
    | float x => rfl
    | str s => rfl
    | bytes s => rfl

end JoblibModel.HashStream
