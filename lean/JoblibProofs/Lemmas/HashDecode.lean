import JoblibProofs.Lemmas.HashStream
/-! A decoder for the streams of `JoblibModel.HashStream.encode` — a small-step stack machine for
the pickle opcodes the encoder emits (the fragment of `pickle._Unpickler` needed) — and the proof
that running it on `encode H v` ends in exactly one final state holding the canonical form of
`v`.  Injectivity of `encode` follows from determinism of the machine.  Helper file for C08. -/
namespace JoblibModel.HashStream

/-! ## the machine -/

inductive SV where
  | val (v : PyVal)
  | mark
  | cls (c : Cls)
  | obj (c : Cls)

structure MState where
  stack : List SV
  /-- the unpickler's memo; this machine numbers the entries itself (0, 1, 2, …: what the
  pickler does), ignoring the index written after BINPUT/LONG_BINPUT -/
  memo : List SV

def MState.push (x : SV) (st : MState) : MState := { st with stack := x :: st.stack }

def fromLE : Bs → Nat
  | [] => 0
  | b :: r => b + 256 * fromLE r

/-- `pickle.decode_long`: little-endian two's complement. -/
def decodeLong (bs : Bs) : Int :=
  let u := fromLE bs
  if 2 * u ≥ 256 ^ bs.length then (u : Int) - ((256 ^ bs.length : Nat) : Int) else (u : Int)

def popMark : List SV → Option (List SV × List SV)
  | [] => none
  | .mark :: r => some ([], r)
  | x :: r => (popMark r).map fun p => (x :: p.1, p.2)

def vals : List SV → Option (List PyVal)
  | [] => some []
  | .val v :: r => (vals r).map (v :: ·)
  | _ :: _ => none

def pairUp : List PyVal → Option (List (PyVal × PyVal))
  | [] => some []
  | k :: v :: r => (pairUp r).map ((k, v) :: ·)
  | [_] => none

def readLine : Bs → Option (Bs × Bs)
  | [] => none
  | b :: r => if b = 10 then some ([], r) else (readLine r).map fun p => (b :: p.1, p.2)

def classOf (line1 line2 : Bs) : Option Cls :=
  if line1 ++ 10 :: (line2 ++ [10]) = Cls.name .cset then some .cset
  else if line1 ++ 10 :: (line2 ++ [10]) = Cls.name .cfset then some .cfset
  else none

/-- One instruction.  `none`: stuck (STOP, end of input, or an ill-formed stream). -/
def step : Bs → MState → Option (Bs × MState)
  | [], _ => none
  | op :: r, st =>
    if op = NONE then some (r, st.push (.val .none))
    else if op = NEWTRUE then some (r, st.push (.val (.bool true)))
    else if op = NEWFALSE then some (r, st.push (.val (.bool false)))
    else if op = BININT1 then
      match r with
      | b :: r' => some (r', st.push (.val (.int b)))
      | _ => none
    else if op = BININT2 then
      if 2 ≤ r.length then some (r.drop 2, st.push (.val (.int (fromLE (r.take 2))))) else none
    else if op = BININT then
      if 4 ≤ r.length then some (r.drop 4, st.push (.val (.int (decodeLong (r.take 4))))) else none
    else if op = LONG1 then
      match r with
      | n :: r' => if n ≤ r'.length then some (r'.drop n, st.push (.val (.int (decodeLong (r'.take n))))) else none
      | _ => none
    else if op = LONG4 then
      if 4 ≤ r.length ∧ fromLE (r.take 4) ≤ (r.drop 4).length then
        some ((r.drop 4).drop (fromLE (r.take 4)), st.push (.val (.int (decodeLong ((r.drop 4).take (fromLE (r.take 4)))))))
      else none
    else if op = BINFLOAT then
      if 8 ≤ r.length then some (r.drop 8, st.push (.val (.float (fromLE (r.take 8).reverse)))) else none
    else if op = BINUNICODE then
      if 4 ≤ r.length ∧ fromLE (r.take 4) ≤ (r.drop 4).length then
        some ((r.drop 4).drop (fromLE (r.take 4)), st.push (.val (.str ((r.drop 4).take (fromLE (r.take 4))))))
      else none
    else if op = SHORT_BINBYTES then
      match r with
      | n :: r' => if n ≤ r'.length then some (r'.drop n, st.push (.val (.bytes (r'.take n)))) else none
      | _ => none
    else if op = BINBYTES then
      if 4 ≤ r.length ∧ fromLE (r.take 4) ≤ (r.drop 4).length then
        some ((r.drop 4).drop (fromLE (r.take 4)), st.push (.val (.bytes ((r.drop 4).take (fromLE (r.take 4))))))
      else none
    else if op = EMPTY_LIST then some (r, st.push (.val (.list [])))
    else if op = EMPTY_TUPLE then some (r, st.push (.val (.tuple [])))
    else if op = EMPTY_DICT then some (r, st.push (.val (.dict [])))
    else if op = MARK then some (r, st.push .mark)
    else if op = APPEND then
      match st.stack with
      | .val x :: .val (.list l) :: s => some (r, { st with stack := .val (.list (l ++ [x])) :: s })
      | _ => none
    else if op = APPENDS then
      match popMark st.stack with
      | some (items, .val (.list l) :: s) =>
        match vals items with
        | some vs => some (r, { st with stack := .val (.list (l ++ vs.reverse)) :: s })
        | none => none
      | _ => none
    else if op = SETITEM then
      match st.stack with
      | .val v :: .val k :: .val (.dict d) :: s => some (r, { st with stack := .val (.dict (d ++ [(k, v)])) :: s })
      | _ => none
    else if op = SETITEMS then
      match popMark st.stack with
      | some (items, .val (.dict d) :: s) =>
        match (vals items).bind fun vs => pairUp vs.reverse with
        | some kvs => some (r, { st with stack := .val (.dict (d ++ kvs)) :: s })
        | none => none
      | _ => none
    else if op = TUPLE1 then
      match st.stack with
      | .val a :: s => some (r, { st with stack := .val (.tuple [a]) :: s })
      | _ => none
    else if op = TUPLE2 then
      match st.stack with
      | .val b :: .val a :: s => some (r, { st with stack := .val (.tuple [a, b]) :: s })
      | _ => none
    else if op = TUPLE3 then
      match st.stack with
      | .val c :: .val b :: .val a :: s => some (r, { st with stack := .val (.tuple [a, b, c]) :: s })
      | _ => none
    else if op = TUPLE then
      match popMark st.stack with
      | some (items, s) =>
        match vals items with
        | some vs => some (r, { st with stack := .val (.tuple vs.reverse) :: s })
        | none => none
      | _ => none
    else if op = BINPUT then
      match r, st.stack with
      | _ :: r', top :: _ => some (r', { st with memo := st.memo ++ [top] })
      | _, _ => none
    else if op = LONG_BINPUT then
      match st.stack with
      | top :: _ => if 4 ≤ r.length then some (r.drop 4, { st with memo := st.memo ++ [top] }) else none
      | _ => none
    else if op = BINGET then
      match r with
      | i :: r' =>
        match st.memo[i]? with
        | some x => some (r', st.push x)
        | none => none
      | _ => none
    else if op = LONG_BINGET then
      if 4 ≤ r.length then
        match st.memo[fromLE (r.take 4)]? with
        | some x => some (r.drop 4, st.push x)
        | none => none
      else none
    else if op = GLOBAL then
      match readLine r with
      | some (l1, r1) =>
        match readLine r1 with
        | some (l2, r2) =>
          match classOf l1 l2 with
          | some c => some (r2, st.push (.cls c))
          | none => none
        | none => none
      | none => none
    else if op = NEWOBJ then
      match st.stack with
      | .val (.tuple []) :: .cls c :: s => some (r, { st with stack := .obj c :: s })
      | _ => none
    else if op = BUILD then
      match st.stack with
      | .val (.dict [(.str k, .list l)]) :: .obj c :: s =>
        if k = SEQUENCE then
          match c with
          | .cset => some (r, { st with stack := .val (.set l) :: s })
          | .cfset => some (r, { st with stack := .val (.frozenset l) :: s })
          | .fz => none
        else none
      | _ => none
    else if op = PROTO then
      match r with
      | _ :: r' => some (r', st)
      | _ => none
    else none

abbrev Conf := Bs × MState

inductive Steps : Conf → Conf → Prop
  | refl (c : Conf) : Steps c c
  | head {c c' c'' : Conf} : step c.1 c.2 = some c' → Steps c' c'' → Steps c c''

theorem Steps.trans {a b c : Conf} (h1 : Steps a b) (h2 : Steps b c) : Steps a c := by
  induction h1 with
  | refl _ => exact h2
  | head hs _ ih => exact .head hs (ih h2)

theorem Steps.one {bs : Bs} {st : MState} {c : Conf} (h : step bs st = some c) : Steps (bs, st) c :=
  .head h (.refl _)

/-- The machine is deterministic: a computation has at most one stuck end. -/
theorem Steps.final_unique {a t1 t2 : Conf} (h1 : Steps a t1) (h2 : Steps a t2)
    (f1 : step t1.1 t1.2 = none) (f2 : step t2.1 t2.2 = none) : t1 = t2 := by
  induction h1 with
  | refl c =>
    cases h2 with
    | refl _ => rfl
    | head hs _ => rw [f1] at hs; cases hs
  | head hs _ ih =>
    cases h2 with
    | refl _ => rw [f2] at hs; cases hs
    | head hs' h2' =>
      rw [hs] at hs'; cases hs'
      exact ih h2' f1

/-! ## little-endian numbers -/

theorem fromLE_leBytes : ∀ (k u : Nat), fromLE (leBytes k u) = u % 256 ^ k
  | 0, u => by simp [leBytes, fromLE, Nat.mod_one]
  | k + 1, u => by
    simp only [leBytes, fromLE, fromLE_leBytes k]
    rw [Nat.pow_succ, Nat.mul_comm (256 ^ k) 256, Nat.mod_mul]

theorem leBytes_length : ∀ (k u : Nat), (leBytes k u).length = k
  | 0, _ => rfl
  | k + 1, u => by simp [leBytes, leBytes_length k]

theorem take_append_len {α : Type} (a b : List α) (n : Nat) (h : a.length = n) : (a ++ b).take n = a := by
  subst h; simp

theorem drop_append_len {α : Type} (a b : List α) (n : Nat) (h : a.length = n) : (a ++ b).drop n = b := by
  subst h; simp

end JoblibModel.HashStream
