import JoblibModel.Tracker
/-! Helper lemmas for C20 (kept apart from the property theorems): the association-list dict, the registry
record, the invariants of `step`/`run`, the line parser on the `_send` format. -/
namespace JoblibModel.Tracker

/-! ### the association-list dict -/

def keys (d : RTypeRegistry) : List Name := d.map Prod.fst

theorem lookup_setItem_self (d : RTypeRegistry) (n : Name) (v : Int) :
    lookup (setItem d n v) n = some v := by
  induction d with
  | nil => simp [setItem, lookup]
  | cons e r ih =>
    obtain ⟨k, c⟩ := e
    by_cases h : k = n <;> simp [setItem, lookup, h, ih]

theorem lookup_setItem_ne (d : RTypeRegistry) (n m : Name) (v : Int) (h : m ≠ n) :
    lookup (setItem d n v) m = lookup d m := by
  induction d with
  | nil =>
    have : ¬ n = m := fun e => h e.symm
    simp [setItem, lookup, this]
  | cons e r ih =>
    obtain ⟨k, c⟩ := e
    by_cases hk : k = n
    · subst hk
      have : ¬ k = m := fun e => h e.symm
      simp [setItem, lookup, this]
    · by_cases hm : k = m
      · subst hm; simp [setItem, lookup, hk]
      · simp [setItem, lookup, hk, hm, ih]

theorem lookup_delItem_ne (d : RTypeRegistry) (n m : Name) (h : m ≠ n) :
    lookup (delItem d n) m = lookup d m := by
  induction d with
  | nil => simp [delItem, lookup]
  | cons e r ih =>
    obtain ⟨k, c⟩ := e
    by_cases hk : k = n
    · subst hk
      have : ¬ k = m := fun e => h e.symm
      simp [delItem, lookup, this]
    · by_cases hm : k = m
      · subst hm; simp [delItem, lookup, hk]
      · simp [delItem, lookup, hk, hm, ih]

theorem lookup_eq_none_iff (d : RTypeRegistry) (n : Name) : lookup d n = none ↔ n ∉ keys d := by
  induction d with
  | nil => simp [lookup, keys]
  | cons e r ih =>
    obtain ⟨k, c⟩ := e
    by_cases hk : k = n
    · simp [lookup, keys, hk]
    · have : ¬ n = k := fun e => hk e.symm
      simp [lookup, hk, this, keys] at ih ⊢
      exact ih

theorem lookup_delItem_self (d : RTypeRegistry) (n : Name) (hd : (keys d).Nodup) :
    lookup (delItem d n) n = none := by
  induction d with
  | nil => simp [delItem, lookup]
  | cons e r ih =>
    obtain ⟨k, c⟩ := e
    simp only [keys, List.map_cons, List.nodup_cons] at hd
    by_cases hk : k = n
    · subst hk
      simp only [delItem, if_true]
      exact (lookup_eq_none_iff r k).mpr hd.1
    · simp [delItem, lookup, hk]
      exact ih hd.2

theorem keys_setItem (d : RTypeRegistry) (n : Name) (v : Int) :
    keys (setItem d n v) = if n ∈ keys d then keys d else keys d ++ [n] := by
  induction d with
  | nil => simp [setItem, keys]
  | cons e r ih =>
    obtain ⟨k, c⟩ := e
    by_cases hk : k = n
    · simp [setItem, keys, hk]
    · have : ¬ n = k := fun e => hk e.symm
      simp only [keys] at ih
      simp only [setItem, hk, if_false, keys, List.map_cons, List.mem_cons, this, false_or, ih]
      split <;> simp [*]

theorem nodup_setItem (d : RTypeRegistry) (n : Name) (v : Int) (hd : (keys d).Nodup) :
    (keys (setItem d n v)).Nodup := by
  rw [keys_setItem]
  split
  · exact hd
  · rename_i h
    rw [List.nodup_append]
    refine ⟨hd, by simp, ?_⟩
    intro a ha b hb
    simp at hb; subst hb
    intro e; subst e; exact h ha

theorem keys_delItem_sublist (d : RTypeRegistry) (n : Name) : (keys (delItem d n)).Sublist (keys d) := by
  induction d with
  | nil => simp [delItem, keys]
  | cons e r ih =>
    obtain ⟨k, c⟩ := e
    by_cases hk : k = n
    · simp [delItem, keys, hk]
    · simp only [delItem, hk, if_false, keys, List.map_cons]
      exact List.Sublist.cons_cons _ ih

theorem nodup_delItem (d : RTypeRegistry) (n : Name) (hd : (keys d).Nodup) :
    (keys (delItem d n)).Nodup :=
  List.Sublist.nodup (keys_delItem_sublist d n) hd

theorem mem_of_lookup {d : RTypeRegistry} {n : Name} {v : Int} (h : lookup d n = some v) : (n, v) ∈ d := by
  induction d with
  | nil => simp [lookup] at h
  | cons e r ih =>
    obtain ⟨k, c⟩ := e
    by_cases hk : k = n
    · simp [lookup, hk] at h; simp [hk, h]
    · simp [lookup, hk] at h; simp [ih h]

theorem lookup_of_mem {d : RTypeRegistry} {n : Name} {v : Int} (hd : (keys d).Nodup) (h : (n, v) ∈ d) :
    lookup d n = some v := by
  induction d with
  | nil => simp at h
  | cons e r ih =>
    obtain ⟨k, c⟩ := e
    simp only [keys, List.map_cons, List.nodup_cons] at hd
    rcases List.mem_cons.mp h with h | h
    · simp at h; simp [lookup, h.1, h.2]
    · have hne : ¬ k = n := by
        intro e; subst e
        exact hd.1 (List.mem_map.mpr ⟨(k, v), h, rfl⟩)
      simp [lookup, hne]; exact ih hd.2 h

/-! ### the registry record -/

@[simp] theorem get_set_same (r : Registry) (t : RType) (d : RTypeRegistry) : (r.set t d).get t = d := by
  cases t <;> rfl

theorem get_set_ne (r : Registry) (t t' : RType) (d : RTypeRegistry) (h : t' ≠ t) :
    (r.set t d).get t' = r.get t' := by
  cases t <;> cases t' <;> first | rfl | exact absurd rfl h

/-- Every count in the registry is at least 1. -/
def Registry.Positive (r : Registry) : Prop :=
  ∀ t n c, lookup (r.get t) n = some c → 1 ≤ c

theorem distinct_iff (r : Registry) : r.Distinct ↔ ∀ t, (keys (r.get t)).Nodup := Iff.rfl

theorem empty_distinct : Registry.empty.Distinct := by
  intro t; cases t <;> simp [Registry.empty, Registry.get]

theorem empty_positive : Registry.empty.Positive := by
  intro t n c h; cases t <;> simp [Registry.empty, Registry.get, lookup] at h

theorem set_distinct (r : Registry) (t : RType) (d : RTypeRegistry) (hr : r.Distinct)
    (hd : (keys d).Nodup) : (r.set t d).Distinct := by
  intro t'
  by_cases h : t' = t
  · subst h; rw [get_set_same]; exact hd
  · rw [get_set_ne _ _ _ _ h]; exact hr t'

/-! ### `exec` characterised through `lookup` -/

/-- What `exec` leaves at key `name` of `registry[rt]`. -/
def execAt (c : Cmd) (old : Option Int) : Option Int :=
  match c, old with
  | .register, none => some 1
  | .register, some n => some (n + 1)
  | .unregister, _ => none
  | .maybeUnlink, none => none
  | .maybeUnlink, some n => if n - 1 = 0 then none else some (n - 1)

/-- What `exec` does besides updating the registry. -/
def execActs (c : Cmd) (rt : RType) (name : Name) (old : Option Int) : List Action :=
  match c, old with
  | .register, _ => []
  | .unregister, none => [.report .keyError]
  | .unregister, some _ => []
  | .maybeUnlink, none => [.report .keyError]
  | .maybeUnlink, some n => if n - 1 = 0 then [.cleanup rt name] else []

theorem exec_reg_none {reg : Registry} {rt : RType} {name : Name} (h : lookup (reg.get rt) name = none) :
    exec reg .register rt name = (reg.set rt (setItem (reg.get rt) name 1), []) := by simp [exec, h]
theorem exec_reg_some {reg : Registry} {rt : RType} {name : Name} {n : Int}
    (h : lookup (reg.get rt) name = some n) :
    exec reg .register rt name = (reg.set rt (setItem (reg.get rt) name (n + 1)), []) := by simp [exec, h]
theorem exec_unreg_none {reg : Registry} {rt : RType} {name : Name} (h : lookup (reg.get rt) name = none) :
    exec reg .unregister rt name = (reg, [.report .keyError]) := by simp [exec, h]
theorem exec_unreg_some {reg : Registry} {rt : RType} {name : Name} {n : Int}
    (h : lookup (reg.get rt) name = some n) :
    exec reg .unregister rt name = (reg.set rt (delItem (reg.get rt) name), []) := by simp [exec, h]
theorem exec_mu_none {reg : Registry} {rt : RType} {name : Name} (h : lookup (reg.get rt) name = none) :
    exec reg .maybeUnlink rt name = (reg, [.report .keyError]) := by simp [exec, h]
theorem exec_mu_zero {reg : Registry} {rt : RType} {name : Name} {n : Int}
    (h : lookup (reg.get rt) name = some n) (h0 : n - 1 = 0) :
    exec reg .maybeUnlink rt name
      = (reg.set rt (delItem (setItem (reg.get rt) name (n - 1)) name), [.cleanup rt name]) := by
  simp [exec, h, h0]
theorem exec_mu_pos {reg : Registry} {rt : RType} {name : Name} {n : Int}
    (h : lookup (reg.get rt) name = some n) (h0 : ¬ n - 1 = 0) :
    exec reg .maybeUnlink rt name = (reg.set rt (setItem (reg.get rt) name (n - 1)), []) := by
  simp [exec, h, h0]

theorem exec_acts (reg : Registry) (c : Cmd) (rt : RType) (name : Name) :
    (exec reg c rt name).2 = execActs c rt name (lookup (reg.get rt) name) := by
  cases c <;> cases h : lookup (reg.get rt) name
  · rw [exec_reg_none h]; rfl
  · rw [exec_reg_some h]; rfl
  · rw [exec_unreg_none h]; rfl
  · rw [exec_unreg_some h]; rfl
  · rw [exec_mu_none h]; rfl
  · rename_i n
    by_cases h0 : n - 1 = 0
    · rw [exec_mu_zero h h0]; simp [execActs, h0]
    · rw [exec_mu_pos h h0]; simp [execActs, h0]

theorem exec_distinct (reg : Registry) (c : Cmd) (rt : RType) (name : Name) (hd : reg.Distinct) :
    (exec reg c rt name).1.Distinct := by
  have hk := hd rt
  cases c <;> cases h : lookup (reg.get rt) name
  · rw [exec_reg_none h]; exact set_distinct _ _ _ hd (nodup_setItem _ _ _ hk)
  · rw [exec_reg_some h]; exact set_distinct _ _ _ hd (nodup_setItem _ _ _ hk)
  · rw [exec_unreg_none h]; exact hd
  · rw [exec_unreg_some h]; exact set_distinct _ _ _ hd (nodup_delItem _ _ hk)
  · rw [exec_mu_none h]; exact hd
  · rename_i n
    by_cases h0 : n - 1 = 0
    · rw [exec_mu_zero h h0]
      exact set_distinct _ _ _ hd (nodup_delItem _ _ (nodup_setItem _ _ _ hk))
    · rw [exec_mu_pos h h0]; exact set_distinct _ _ _ hd (nodup_setItem _ _ _ hk)

theorem exec_get_same (reg : Registry) (c : Cmd) (rt : RType) (name : Name) (hd : reg.Distinct) :
    lookup ((exec reg c rt name).1.get rt) name = execAt c (lookup (reg.get rt) name) := by
  have hk := hd rt
  cases c <;> cases h : lookup (reg.get rt) name
  · rw [exec_reg_none h]; simp only [get_set_same, lookup_setItem_self, execAt]
  · rw [exec_reg_some h]; simp only [get_set_same, lookup_setItem_self, execAt]
  · rw [exec_unreg_none h]; simpa [execAt] using h
  · rw [exec_unreg_some h]; simp only [get_set_same, execAt]; exact lookup_delItem_self _ _ hk
  · rw [exec_mu_none h]; simpa [execAt] using h
  · rename_i n
    by_cases h0 : n - 1 = 0
    · rw [exec_mu_zero h h0]; simp only [get_set_same, execAt, h0, if_true]
      exact lookup_delItem_self _ _ (nodup_setItem _ _ _ hk)
    · rw [exec_mu_pos h h0]; simp only [get_set_same, execAt, h0, if_false, lookup_setItem_self]

theorem exec_get_other (reg : Registry) (c : Cmd) (rt : RType) (name : Name) (t : RType) (m : Name)
    (h : ¬ (t = rt ∧ m = name)) :
    lookup ((exec reg c rt name).1.get t) m = lookup (reg.get t) m := by
  have key : ∀ d : RTypeRegistry, (t = rt → lookup d m = lookup (reg.get rt) m) →
      lookup ((reg.set rt d).get t) m = lookup (reg.get t) m := by
    intro d hd'
    by_cases ht : t = rt
    · subst ht; rw [get_set_same]; exact hd' rfl
    · rw [get_set_ne _ _ _ _ ht]
  have hm : t = rt → m ≠ name := fun e1 e2 => h ⟨e1, e2⟩
  cases c <;> cases hl : lookup (reg.get rt) name
  · rw [exec_reg_none hl]; exact key _ (fun e => lookup_setItem_ne _ _ _ _ (hm e))
  · rw [exec_reg_some hl]; exact key _ (fun e => lookup_setItem_ne _ _ _ _ (hm e))
  · rw [exec_unreg_none hl]
  · rw [exec_unreg_some hl]; exact key _ (fun e => lookup_delItem_ne _ _ _ (hm e))
  · rw [exec_mu_none hl]
  · rename_i n
    by_cases h0 : n - 1 = 0
    · rw [exec_mu_zero hl h0]
      exact key _ (fun e => by rw [lookup_delItem_ne _ _ _ (hm e), lookup_setItem_ne _ _ _ _ (hm e)])
    · rw [exec_mu_pos hl h0]; exact key _ (fun e => lookup_setItem_ne _ _ _ _ (hm e))

theorem execAt_positive (c : Cmd) (old : Option Int) (h : ∀ n, old = some n → 1 ≤ n) :
    ∀ n, execAt c old = some n → 1 ≤ n := by
  intro n hn
  unfold execAt at hn
  cases c <;> cases old <;> simp at hn
  · omega
  · rename_i v; have := h v rfl; omega
  · rename_i v; have := h v rfl; omega

theorem exec_positive (reg : Registry) (c : Cmd) (rt : RType) (name : Name) (hd : reg.Distinct)
    (hp : reg.Positive) : (exec reg c rt name).1.Positive := by
  intro t m v hv
  by_cases h : t = rt ∧ m = name
  · obtain ⟨rfl, rfl⟩ := h
    rw [exec_get_same _ _ _ _ hd] at hv
    exact execAt_positive c _ (fun n hn => hp t m n hn) v hv
  · rw [exec_get_other _ _ _ _ _ _ h] at hv
    exact hp t m v hv

/-! ### `step` and `run` -/

theorem step_req (reg : Registry) (l : Line) (c : Cmd) (rt : RType) (name : Name)
    (h : classify l = .req c rt name) : step reg l = exec reg c rt name := by
  simp [step, h]

theorem step_not_req (reg : Registry) (l : Line) (h : ∀ c rt name, classify l ≠ .req c rt name) :
    (step reg l).1 = reg := by
  unfold step
  cases hc : classify l <;> simp
  exact absurd hc (h _ _ _)

theorem step_distinct (reg : Registry) (l : Line) (hd : reg.Distinct) : (step reg l).1.Distinct := by
  unfold step
  cases hc : classify l <;> simp <;> first | exact hd | exact exec_distinct _ _ _ _ hd

theorem step_positive (reg : Registry) (l : Line) (hd : reg.Distinct) (hp : reg.Positive) :
    (step reg l).1.Positive := by
  unfold step
  cases hc : classify l <;> simp <;> first | exact hp | exact exec_positive _ _ _ _ hd hp

theorem run_distinct (reg : Registry) (ls : List Line) (hd : reg.Distinct) : (run reg ls).1.Distinct := by
  induction ls generalizing reg with
  | nil => exact hd
  | cons l ls ih => exact ih _ (step_distinct reg l hd)

theorem run_positive (reg : Registry) (ls : List Line) (hd : reg.Distinct) (hp : reg.Positive) :
    (run reg ls).1.Positive := by
  induction ls generalizing reg with
  | nil => exact hp
  | cons l ls ih => exact ih _ (step_distinct reg l hd) (step_positive reg l hd hp)

theorem run_append (reg : Registry) (a b : List Line) :
    run reg (a ++ b) = ((run (run reg a).1 b).1, (run reg a).2 ++ (run (run reg a).1 b).2) := by
  induction a generalizing reg with
  | nil => simp [run]
  | cons l ls ih => simp [run, ih, List.append_assoc]

/-- How the abstract count shows in the registry: absent at 0, the count itself otherwise. -/
def enc (n : Nat) : Option Int := if n = 0 then none else some (n : Int)

def absAt (c : Cmd) (n : Nat) : Nat :=
  match c with
  | .register => n + 1
  | .unregister => 0
  | .maybeUnlink => n - 1

theorem execAt_enc (c : Cmd) (n : Nat) : execAt c (enc n) = enc (absAt c n) := by
  cases c
  · by_cases h0 : n = 0
    · subst h0; simp [execAt, enc, absAt]
    · simp [execAt, enc, absAt, h0]
  · simp [execAt, enc, absAt]
  · by_cases h0 : n = 0
    · subst h0; simp [execAt, enc, absAt]
    · by_cases h1 : n = 1
      · subst h1; simp [execAt, enc, absAt]
      · have e1 : ¬ ((n : Int) - 1 = 0) := by omega
        have e2 : ¬ (n - 1 = 0) := by omega
        simp only [execAt, enc, absAt, h0, if_false, e1, e2]
        congr 1; omega

theorem step_refines (reg : Registry) (l : Line) (rt : RType) (name : Name) (n : Nat) (hd : reg.Distinct)
    (h : lookup (reg.get rt) name = enc n) :
    lookup ((step reg l).1.get rt) name = enc (absStep rt name n l) := by
  unfold step absStep
  cases hc : classify l <;> simp only <;> try exact h
  rename_i c rt' name'
  by_cases hk : rt' = rt ∧ name' = name
  · obtain ⟨rfl, rfl⟩ := hk
    rw [exec_get_same _ _ _ _ hd, h]
    simp only [and_self, if_true]
    have := execAt_enc c n
    cases c <;> simpa [absAt] using this
  · have hk' : ¬ (rt = rt' ∧ name = name') := fun ⟨a, b⟩ => hk ⟨a.symm, b.symm⟩
    rw [exec_get_other _ _ _ _ _ _ hk', if_neg hk]; exact h

theorem run_refines (reg : Registry) (ls : List Line) (rt : RType) (name : Name) (n : Nat) (hd : reg.Distinct)
    (h : lookup (reg.get rt) name = enc n) :
    lookup ((run reg ls).1.get rt) name = enc (absCountFrom rt name n ls) := by
  induction ls generalizing reg n with
  | nil => exact h
  | cons l ls ih =>
    exact ih _ _ (step_distinct reg l hd) (step_refines reg l rt name n hd h)

theorem absCountFrom_append (rt : RType) (name : Name) (n : Nat) (a b : List Line) :
    absCountFrom rt name n (a ++ b) = absCountFrom rt name (absCountFrom rt name n a) b := by
  induction a generalizing n with
  | nil => rfl
  | cons l ls ih => simp [absCountFrom, ih]

/-- A positive count has a `REGISTER` for that very (type, name) behind it. -/
theorem registered_of_pos (rt : RType) (name : Name) (ls : List Line) (n : Nat)
    (h : 0 < absCountFrom rt name n ls) :
    0 < n ∨ ∃ l ∈ ls, classify l = .req .register rt name := by
  induction ls generalizing n with
  | nil => exact Or.inl h
  | cons l ls ih =>
    rcases ih _ h with h1 | ⟨l', hl', hc⟩
    · unfold absStep at h1
      cases hc : classify l <;> simp only [hc] at h1 <;> try exact Or.inl h1
      rename_i c rt' name'
      by_cases hk : rt' = rt ∧ name' = name
      · obtain ⟨rfl, rfl⟩ := hk
        cases c
        · exact Or.inr ⟨l, by simp, hc⟩
        · simp at h1
        · simp at h1; omega
      · rw [if_neg hk] at h1; exact Or.inl h1
    · exact Or.inr ⟨l', by simp [hl'], hc⟩

theorem balanced_net (rt : RType) (name : Name) (n : Nat) (ls : List Line)
    (hb : BalancedFrom rt name n ls) :
    (absCountFrom rt name n ls : Int) = netFrom rt name n ls := by
  induction ls generalizing n with
  | nil => rfl
  | cons l ls ih =>
    obtain ⟨h1, h2⟩ := hb
    rw [absCountFrom, netFrom, ih _ h2]
    congr 1
    unfold absStep
    cases hc : classify l <;> simp only
    rename_i c rt' name'
    by_cases hk : rt' = rt ∧ name' = name
    · obtain ⟨rfl, rfl⟩ := hk
      simp only [and_self, if_true]
      cases c <;> simp
      have := h1 hc; omega
    · simp [hk]

/-! ### the EOF clean-up -/

theorem mem_unlinkResources_cleanup (d : RTypeRegistry) (rt rt' : RType) (name : Name) :
    Action.cleanup rt' name ∈ unlinkResources d rt ↔ rt' = rt ∧ name ∈ keys d := by
  unfold unlinkResources keys
  constructor
  · intro h
    rcases List.mem_append.mp h with h | h
    · split at h <;> simp at h
    · obtain ⟨e, he, heq⟩ := List.mem_map.mp h
      simp at heq
      exact ⟨heq.1.symm, List.mem_map.mpr ⟨e, he, heq.2⟩⟩
  · rintro ⟨rfl, h⟩
    obtain ⟨e, he, heq⟩ := List.mem_map.mp h
    exact List.mem_append.mpr (Or.inr (List.mem_map.mpr ⟨e, he, by simp [heq]⟩))

theorem finish_eq (reg : Registry) :
    finish reg = unlinkResources reg.file .file ++ unlinkResources reg.semlock .semlock
      ++ unlinkResources reg.folder .folder := by
  simp [finish, rtypes, Registry.get]

/-! ### where an action of the loop comes from -/

theorem mem_run_acts (reg : Registry) (ls : List Line) (a : Action) (h : a ∈ (run reg ls).2) :
    ∃ pre l post, ls = pre ++ l :: post ∧ a ∈ (step (run reg pre).1 l).2 := by
  induction ls generalizing reg with
  | nil => simp [run] at h
  | cons l ls ih =>
    simp only [run, List.mem_append] at h
    rcases h with h | h
    · exact ⟨[], l, ls, rfl, h⟩
    · obtain ⟨pre, l', post, e, hm⟩ := ih _ h
      exact ⟨l :: pre, l', post, by simp [e], by simpa [run] using hm⟩

theorem enc_eq_some_one (n : Nat) : enc n = some 1 ↔ n = 1 := by
  unfold enc
  by_cases h : n = 0
  · subst h; simp
  · simp [h]; omega

theorem enc_eq_none (n : Nat) : enc n = none ↔ n = 0 := by
  unfold enc
  by_cases h : n = 0 <;> simp [h]

theorem mem_execActs_cleanup (c : Cmd) (rt rt' : RType) (name name' : Name) (old : Option Int) :
    Action.cleanup rt name ∈ execActs c rt' name' old ↔
      c = .maybeUnlink ∧ rt' = rt ∧ name' = name ∧ old = some 1 := by
  unfold execActs
  cases c <;> cases old <;> simp
  rename_i n
  by_cases h0 : n - 1 = 0
  · have : n = 1 := by omega
    simp [this]
    constructor <;> rintro ⟨a, b⟩ <;> exact ⟨a.symm, b.symm⟩
  · have : ¬ n = 1 := by omega
    simp [h0, this]

theorem mem_unlinkResources (d : RTypeRegistry) (rt : RType) (a : Action)
    (h : a ∈ unlinkResources d rt) : a = .leakWarning rt d.length ∨ ∃ name, a = .cleanup rt name := by
  unfold unlinkResources at h
  rcases List.mem_append.mp h with h | h
  · split at h
    · simp at h
    · simp at h; exact Or.inl h
  · obtain ⟨e, _, heq⟩ := List.mem_map.mp h
    exact Or.inr ⟨e.1, heq.symm⟩

theorem nodup_unlinkResources (d : RTypeRegistry) (rt : RType) (hd : (keys d).Nodup) :
    (unlinkResources d rt).Nodup := by
  unfold unlinkResources
  rw [List.nodup_append]
  refine ⟨by split <;> simp, ?_, ?_⟩
  · induction d with
    | nil => simp
    | cons e r ih =>
      simp only [keys, List.map_cons, List.nodup_cons] at hd ⊢
      refine ⟨?_, ih hd.2⟩
      intro hm
      obtain ⟨e', he', heq⟩ := List.mem_map.mp hm
      simp at heq
      exact hd.1 (List.mem_map.mpr ⟨e', he', heq⟩)
  · intro a ha b hb
    split at ha
    · simp at ha
    · simp at ha; subst ha
      obtain ⟨e, _, heq⟩ := List.mem_map.mp hb
      intro e2; rw [← e2] at heq; simp at heq

/-! ### the parser on what `ResourceTracker._send` writes -/

theorem splitColon_no_colon (a : Name) (h : 58 ∉ a) : splitColon a = (a, []) := by
  induction a with
  | nil => rfl
  | cons c r ih =>
    simp only [List.mem_cons, not_or] at h
    have hc : ¬ c = 58 := fun e => h.1 e.symm
    simp [splitColon, hc, ih h.2]

theorem fields_append (a b : Name) (h : 58 ∉ a) : fields (a ++ 58 :: b) = a :: fields b := by
  induction a with
  | nil => simp [fields, splitColon]
  | cons c r ih =>
    simp only [List.mem_cons, not_or] at h
    have hc : ¬ c = 58 := fun e => h.1 e.symm
    have := ih h.2
    simp only [fields, List.cons.injEq] at this
    simp [fields, splitColon, hc, this.1, this.2]

theorem fields_snoc (n r : Name) (h : 58 ∉ r) : fields (n ++ 58 :: r) = fields n ++ [r] := by
  induction n with
  | nil => simp [fields, splitColon, splitColon_no_colon r h]
  | cons c n ih =>
    simp only [fields, List.cons_append, List.cons.injEq] at ih
    by_cases hc : c = 58
    · simp [fields, splitColon, hc, ih.1, ih.2]
    · simp [fields, splitColon, hc, ih.1, ih.2]

theorem joinColon_fields (s : Name) : joinColon (fields s) = s := by
  induction s with
  | nil => simp [fields, splitColon, joinColon]
  | cons c r ih =>
    by_cases hc : c = 58
    · simp only [fields] at ih
      simp [fields, splitColon, hc, joinColon, ih]
    · simp only [fields] at ih
      simp only [fields, splitColon, hc, if_false]
      cases h2 : (splitColon r).2 with
      | nil => rw [h2] at ih; simp [joinColon] at ih ⊢; exact ih
      | cons y t => rw [h2] at ih; simp [joinColon] at ih ⊢; exact ih

theorem lastField_append (h : Name) (l : List Name) (x : Name) : lastField h (l ++ [x]) = x := by
  induction l generalizing h with
  | nil => rfl
  | cons y t ih => simp [lastField, ih]

theorem strip_line (b0 bl : Nat) (mid : Line) (h0 : isSpace b0 = false) (hl : isSpace bl = false) :
    strip ((b0 :: mid ++ [bl]) ++ [10]) = b0 :: mid ++ [bl] := by
  unfold strip
  have e1 : List.dropWhile isSpace ((b0 :: mid ++ [bl]) ++ [10]) = (b0 :: mid ++ [bl]) ++ [10] := by
    simp [h0]
  rw [e1]
  have e2 : ((b0 :: mid ++ [bl]) ++ [10]).reverse = 10 :: bl :: (b0 :: mid).reverse := by simp
  rw [e2]
  have h10 : isSpace 10 = true := by decide
  rw [List.dropWhile_cons, if_pos h10, List.dropWhile_cons, hl]
  simp

end JoblibModel.Tracker
