import JoblibModel.StoreLimits
import JoblibProofs.Lemmas.Lru
/-! Helper lemmas for the store part of C18 (walk, removal, deletion loop, size strings). -/
namespace JoblibModel.StoreLimits
open JoblibModel.Lru

/-! ### the walk -/

mutual
theorem walkDir_prefix : ∀ (d : Dir) (dp : Path) (e : WalkEntry), e ∈ walkDir dp d → dp <+: e.path
  | .mk name atime files subs, dp, e, h => by
    simp only [walkDir, List.mem_cons] at h
    rcases h with rfl | h
    · exact List.prefix_refl _
    · obtain ⟨d', _, hp⟩ := walkSubs_prefix subs dp e h
      exact List.IsPrefix.trans (List.prefix_append _ _) hp
theorem walkSubs_prefix : ∀ (ds : List Dir) (dp : Path) (e : WalkEntry), e ∈ walkSubs dp ds →
    ∃ d ∈ ds, (dp ++ [d.name]) <+: e.path
  | [], _, _, h => by simp [walkSubs] at h
  | d :: r, dp, e, h => by
    simp only [walkSubs, List.mem_append] at h
    rcases h with h | h
    · exact ⟨d, by simp, walkDir_prefix d _ e h⟩
    · obtain ⟨d', hd', hp⟩ := walkSubs_prefix r dp e h
      exact ⟨d', by simp [hd'], hp⟩
end


/-- `p` is not a prefix of the walked path: the entry survives `rmtree p`. -/
def keeps (p : Path) (q : Path) : Bool := !(p.isPrefixOf q)

theorem keeps_eq_false {p q : Path} : keeps p q = false ↔ p <+: q := by
  simp [keeps]

theorem keeps_eq_true {p q : Path} : keeps p q = true ↔ ¬ p <+: q := by
  rw [← keeps_eq_false]; simp

theorem rmBelow_name (p : Path) (d : Dir) : (rmBelow p d).name = d.name := by
  cases d; simp [rmBelow, Dir.name]

/-- Two prefixes of one list that differ right after a common part cannot both be prefixes. -/
theorem prefix_clash {dp q rest : Path} {a b : String} (hab : a ≠ b)
    (h1 : (dp ++ [a]) <+: q) (h2 : (dp ++ b :: rest) <+: q) : False := by
  obtain ⟨r1, rfl⟩ := h1
  obtain ⟨r2, h2⟩ := h2
  simp only [List.append_assoc, List.cons_append, List.nil_append] at h2
  have := List.append_cancel_left h2
  simp at this
  exact hab this.1.symm

mutual
theorem walkDir_rm : ∀ (d : Dir) (p : Path) (dp : Path), p ≠ [] →
    walkDir dp (rmBelow p d) = (walkDir dp d).filter (fun e => keeps (dp ++ p) e.path)
  | .mk name atime files subs, p, dp, hp => by
    have hroot : keeps (dp ++ p) dp = true := by
      rw [keeps_eq_true]
      intro h
      have := h.length_le
      cases p with
      | nil => exact hp rfl
      | cons a r => simp at this; omega
    simp only [rmBelow, walkDir, List.filter_cons, hroot, if_true]
    rw [walkSubs_rm subs p dp hp]
theorem walkSubs_rm : ∀ (ds : List Dir) (p : Path) (dp : Path), p ≠ [] →
    walkSubs dp (rmSubs p ds) = (walkSubs dp ds).filter (fun e => keeps (dp ++ p) e.path)
  | [], p, dp, _ => by simp [rmSubs, walkSubs]
  | d :: r, [], dp, hp => absurd rfl hp
  | d :: r, n :: rest, dp, hp => by
    have ih := walkSubs_rm r (n :: rest) dp hp
    simp only [rmSubs, walkSubs, List.filter_append]
    by_cases hn : d.name = n
    · simp only [hn, if_true]
      by_cases hr : rest = []
      · subst hr
        simp only [List.isEmpty_nil, if_true]
        rw [ih]
        have : (walkDir (dp ++ [n]) d).filter (fun e => keeps (dp ++ [n]) e.path) = [] := by
          rw [List.filter_eq_nil_iff]
          intro e he
          have := walkDir_prefix d _ e he
          simp [keeps_eq_false.mpr this]
        rw [this]; simp
      · have hre : rest.isEmpty = false := by simpa using hr
        simp only [hre, Bool.false_eq_true, if_false, walkSubs, rmBelow_name, hn]
        rw [ih, walkDir_rm d rest (dp ++ [n]) hr]
        simp [List.append_assoc]
    · simp only [hn, if_false, walkSubs]
      rw [ih]
      have : (walkDir (dp ++ [d.name]) d).filter (fun e => keeps (dp ++ n :: rest) e.path)
          = walkDir (dp ++ [d.name]) d := by
        rw [List.filter_eq_self]
        intro e he
        rw [keeps_eq_true]
        intro h2
        exact prefix_clash hn (walkDir_prefix d _ e he) h2
      rw [this]
end

/-- `os.walk` after `clear_location(p)` (`p` below the store root): the directories under `p` are gone, nothing else. -/
theorem osWalk_removed (t : Dir) (p : Path) (hp : p ≠ []) :
    osWalk (removed p t) = (osWalk t).filter (fun e => keeps p e.path) := by
  have : removed p t = rmBelow p t := by
    cases p with
    | nil => exact absurd rfl hp
    | cons a r => cases t; rfl
  rw [this, osWalk, osWalk, walkDir_rm t p [] hp]; simp

theorem itemOf_id {e : WalkEntry} {it : Item Path} (h : itemOf e = some it) : it.id = e.path := by
  unfold itemOf at h
  split at h
  · split at h
    · simp at h
    · split at h
      · simp at h
      · simp at h; rw [← h]
  · simp at h

theorem filterMap_filter_itemOf (l : List WalkEntry) (q : Path → Bool) :
    (l.filter (fun e => q e.path)).filterMap itemOf = (l.filterMap itemOf).filter (fun it => q it.id) := by
  induction l with
  | nil => simp
  | cons e r ih =>
    simp only [List.filter_cons, List.filterMap_cons]
    cases hq : q e.path with
    | true =>
      simp only [if_true, List.filterMap_cons]
      cases hi : itemOf e with
      | none => simp [ih]
      | some it => simp [itemOf_id hi, hq, ih]
    | false =>
      simp only [Bool.false_eq_true, if_false]
      cases hi : itemOf e with
      | none => simp [ih]
      | some it => simp [itemOf_id hi, hq, ih]

/-- The inventory after `clear_location(p)`: the items under `p` are gone, the others unchanged, in place. -/
theorem getItems_removed (t : Dir) (p : Path) (hp : p ≠ []) :
    getItems (removed p t) = (getItems t).filter (fun it => keeps p it.id) := by
  unfold getItems
  rw [osWalk_removed t p hp, filterMap_filter_itemOf _ (keeps p)]

/-! ### the deletion loop -/

/-- What the loop leaves: every selected location cleared, in order. -/
def clearAll (sel : List (Item Path)) (t : Dir) : Dir := sel.foldl (fun t it => removed it.id t) t

theorem enforceLoop_eq (raises : Path → Bool) (sel : List (Item Path)) (t : Dir) (calls : List Path) :
    enforceLoop raises sel t calls = (clearAll sel t, calls ++ sel.map (·.id)) := by
  induction sel generalizing t calls with
  | nil => simp [enforceLoop, clearAll]
  | cons it r ih =>
    simp only [enforceLoop, clearLocation]
    cases raises it.id <;> simp [ih, clearAll]

theorem getItems_clearAll (sel : List (Item Path)) (t : Dir) (hne : ∀ s ∈ sel, s.id ≠ []) :
    getItems (clearAll sel t) = (getItems t).filter (fun it => sel.all (fun s => keeps s.id it.id)) := by
  induction sel generalizing t with
  | nil =>
    simp only [clearAll, List.foldl_nil, List.all_nil]
    exact (List.filter_eq_self.mpr (fun _ _ => rfl)).symm
  | cons s r ih =>
    have h1 : s.id ≠ [] := hne s (by simp)
    have := ih (removed s.id t) (fun x hx => hne x (by simp [hx]))
    simp only [clearAll, List.foldl_cons] at this ⊢
    rw [this, getItems_removed t s.id h1, List.filter_filter]
    congr 1
    funext it
    simp [Bool.and_comm]


/-! ### inventory facts -/

theorem itemOf_some {e : WalkEntry} {it : Item Path} (h : itemOf e = some it) :
    isHashName e.name = true ∧ lastAccess e = some it.access ∧ dirSize e.files = some it.size ∧ it.id = e.path := by
  unfold itemOf at h
  split at h
  · rename_i hh
    split at h
    · simp at h
    · rename_i a ha
      split at h
      · simp at h
      · rename_i sz hs
        simp at h
        subst h
        exact ⟨hh, ha, hs, rfl⟩
  · simp at h

theorem itemOf_eq_some_iff (e : WalkEntry) :
    (itemOf e).isSome = (isHashName e.name && (lastAccess e).isSome && (dirSize e.files).isSome) := by
  unfold itemOf
  cases isHashName e.name <;> cases lastAccess e <;> cases dirSize e.files <;> simp

theorem map_id_filterMap_itemOf (l : List WalkEntry) :
    (l.filterMap itemOf).map (·.id) = (l.filter (fun e => (itemOf e).isSome)).map (·.path) := by
  induction l with
  | nil => simp
  | cons e r ih =>
    simp only [List.filterMap_cons, List.filter_cons]
    cases hi : itemOf e with
    | none => simp [ih]
    | some it => simp [ih, itemOf_id hi]

theorem filter_sublist_filter {α : Type} (p q : α → Bool) (h : ∀ a, p a = true → q a = true) :
    ∀ l : List α, (l.filter p).Sublist (l.filter q)
  | [] => by simp
  | a :: r => by
    have ih := filter_sublist_filter p q h r
    simp only [List.filter_cons]
    cases hp : p a with
    | true => simp [h a hp, ih]
    | false =>
      cases hq : q a with
      | true => simpa using ih.trans (List.sublist_cons_self a _)
      | false => simpa using ih

theorem itemIds_sublist_hashPaths (t : Dir) : ((getItems t).map (·.id)).Sublist (hashPaths t) := by
  unfold getItems hashPaths
  rw [map_id_filterMap_itemOf]
  apply List.Sublist.map
  apply filter_sublist_filter
  intro e he
  rw [itemOf_eq_some_iff] at he
  simp only [Bool.and_eq_true] at he
  exact he.1.1

theorem dirSize_spec : ∀ (fs : List File) (n : Nat), dirSize fs = some n →
    (∀ f ∈ fs, f.size.isSome = true) ∧ n = (fs.map (fun f => f.size.getD 0)).sum
  | [], n, h => by simp [dirSize] at h; simp [h]
  | f :: r, n, h => by
    simp only [dirSize] at h
    split at h
    · rename_i a b ha hb
      simp at h
      obtain ⟨h1, h2⟩ := dirSize_spec r b hb
      refine ⟨?_, ?_⟩
      · intro g hg
        rcases List.mem_cons.mp hg with rfl | hg
        · simp [ha]
        · exact h1 g hg
      · simp [ha, ← h2, ← h]
    · simp at h

theorem dirSize_isSome (fs : List File) (h : ∀ f ∈ fs, f.size.isSome = true) : (dirSize fs).isSome = true := by
  induction fs with
  | nil => simp [dirSize]
  | cons f r ih =>
    have hf := h f (by simp)
    have hr := ih (fun g hg => h g (by simp [hg]))
    simp only [dirSize]
    cases hs : f.size with
    | none => simp [hs] at hf
    | some a =>
      cases hd : dirSize r with
      | none => simp [hd] at hr
      | some b => simp

theorem lastAccess_isSome (e : WalkEntry) (h : e.atime.isSome = true) : (lastAccess e).isSome = true := by
  unfold lastAccess
  split
  · split
    · simp
    · exact h
  · exact h

/-! ### the survivors, as an inventory -/

theorem sat_perm {a b : List (Item Path)} (h : a.Perm b) (l : Limits) (hs : Sat a l) : Sat b l := by
  obtain ⟨h1, h2, h3⟩ := hs
  refine ⟨fun x hx => ?_, fun n hn => ?_, fun d hd it hit => ?_⟩
  · rw [← total_perm h]; exact h1 x hx
  · rw [← h.length_eq]; exact h2 n hn
  · exact h3 d hd it (h.mem_iff.mpr hit)

/-- When no item's path is a prefix of another's, clearing the selected items leaves exactly the survivors. -/
theorem filter_keeps_perm_survivors (items : List (Item Path)) (l : Limits)
    (hsep : (items.map (·.id)).Pairwise (fun a b => ¬ a <+: b ∧ ¬ b <+: a)) :
    (items.filter (fun it => (itemsToDelete items l).all (fun s => keeps s.id it.id))).Perm
      (survivors items l) := by
  have hperm := sortByAccess_perm items
  have hsplit := itemsToDelete_append_survivors items l
  generalize itemsToDelete items l = D at hsplit ⊢
  generalize survivors items l = R at hsplit ⊢
  refine (hperm.symm.filter _).trans ?_
  rw [← hsplit, List.filter_append]
  have hpw : ((D ++ R).map (·.id)).Pairwise (fun a b => ¬ a <+: b ∧ ¬ b <+: a) := by
    rw [hsplit]
    exact (hperm.map _).symm.pairwise hsep (fun h => ⟨h.2, h.1⟩)
  rw [List.map_append, List.pairwise_append] at hpw
  obtain ⟨_, _, hcross⟩ := hpw
  have hD : D.filter (fun it => D.all (fun s => keeps s.id it.id)) = [] := by
    rw [List.filter_eq_nil_iff]
    intro it hit
    simp only [List.all_eq_true]
    intro h
    have := h it hit
    simp [keeps_eq_false.mpr (List.prefix_refl it.id)] at this
  have hR : R.filter (fun it => D.all (fun s => keeps s.id it.id)) = R := by
    rw [List.filter_eq_self]
    intro it hit
    simp only [List.all_eq_true]
    intro s hs
    rw [keeps_eq_true]
    exact (hcross s.id (List.mem_map_of_mem hs) it.id (List.mem_map_of_mem hit)).1
  rw [hD, hR]; simp


theorem total_sublist {a b : List (Item Path)} (h : a.Sublist b) : total a ≤ total b := by
  induction h with
  | slnil => simp [total]
  | cons x _ ih => simp only [total]; omega
  | cons_cons x _ ih => simp only [total]; omega

theorem sat_sublist {a b : List (Item Path)} (h : a.Sublist b) (l : Limits) (hs : Sat b l) : Sat a l := by
  obtain ⟨h1, h2, h3⟩ := hs
  refine ⟨fun x hx => ?_, fun n hn => ?_, fun d hd it hit => ?_⟩
  · have := total_sublist h; have := h1 x hx; omega
  · have := h.length_le; have := h2 n hn; omega
  · exact h3 d hd it (h.subset hit)

/-- Whatever the nesting: clearing the selected items leaves (a rearrangement of) a part of the survivors. -/
theorem filter_keeps_sub_survivors (items : List (Item Path)) (l : Limits) :
    ∃ R', R'.Sublist (survivors items l) ∧
      (items.filter (fun it => (itemsToDelete items l).all (fun s => keeps s.id it.id))).Perm R' := by
  have hperm := sortByAccess_perm items
  have hsplit := itemsToDelete_append_survivors items l
  generalize itemsToDelete items l = D at hsplit ⊢
  generalize survivors items l = R at hsplit ⊢
  refine ⟨R.filter (fun it => D.all (fun s => keeps s.id it.id)), List.filter_sublist, ?_⟩
  refine (hperm.symm.filter _).trans ?_
  rw [← hsplit, List.filter_append]
  have hD : D.filter (fun it => D.all (fun s => keeps s.id it.id)) = [] := by
    rw [List.filter_eq_nil_iff]
    intro it hit
    simp only [List.all_eq_true]
    intro h
    have := h it hit
    simp [keeps_eq_false.mpr (List.prefix_refl it.id)] at this
  rw [hD]; simp

/-! ### `NoNesting` (structural) implies `Separated` (on paths) -/

/-- Paths of the hash-named directories among walked entries. -/
def hp (l : List WalkEntry) : List Path := (l.filter (fun e => isHashName e.name)).map (·.path)

theorem hp_append (a b : List WalkEntry) : hp (a ++ b) = hp a ++ hp b := by simp [hp]

theorem mem_hp {l : List WalkEntry} {a : Path} (h : a ∈ hp l) : ∃ e ∈ l, e.path = a := by
  simp only [hp, List.mem_map, List.mem_filter] at h
  obtain ⟨e, ⟨he, _⟩, rfl⟩ := h
  exact ⟨e, he, rfl⟩

mutual
theorem hp_hashFree : ∀ (d : Dir) (dp : Path), hashFree d = true → hp (walkDir dp d) = []
  | .mk name atime files subs, dp, h => by
    simp only [hashFree, Bool.and_eq_true, Bool.not_eq_eq_eq_not, Bool.not_true] at h
    have := hp_hashFreeSubs subs dp h.2
    simp only [walkDir, hp, List.filter_cons, h.1, Bool.false_eq_true, if_false] at this ⊢
    exact this
theorem hp_hashFreeSubs : ∀ (ds : List Dir) (dp : Path), hashFreeSubs ds = true → hp (walkSubs dp ds) = []
  | [], _, _ => by simp [walkSubs, hp]
  | d :: r, dp, h => by
    simp only [hashFreeSubs, Bool.and_eq_true] at h
    rw [walkSubs, hp_append, hp_hashFree d _ h.1, hp_hashFreeSubs r dp h.2]; rfl
end

def Sep (a b : Path) : Prop := ¬ a <+: b ∧ ¬ b <+: a

mutual
theorem hp_flat : ∀ (d : Dir) (dp : Path), flat d = true → (hp (walkDir dp d)).Pairwise Sep
  | .mk name atime files subs, dp, h => by
    simp only [flat, Bool.and_eq_true, decide_eq_true_eq] at h
    obtain ⟨⟨h1, h2⟩, h3⟩ := h
    have hcons : hp (walkDir dp (.mk name atime files subs))
        = (if isHashName name then [dp] else []) ++ hp (walkSubs dp subs) := by
      simp only [walkDir, hp, List.filter_cons]
      split <;> simp
    rw [hcons]
    by_cases hn : isHashName name = true
    · simp only [hn, if_true] at h1 ⊢
      rw [hp_hashFreeSubs subs dp h1]; simp
    · simp only [hn, Bool.false_eq_true, if_false, List.nil_append]
      exact hp_flatSubs subs dp h3 h2
theorem hp_flatSubs : ∀ (ds : List Dir) (dp : Path), flatSubs ds = true → (ds.map Dir.name).Nodup →
    (hp (walkSubs dp ds)).Pairwise Sep
  | [], _, _, _ => by simp [walkSubs, hp]
  | d :: r, dp, h, hnd => by
    simp only [flatSubs, Bool.and_eq_true] at h
    simp only [List.map_cons, List.nodup_cons] at hnd
    rw [walkSubs, hp_append, List.pairwise_append]
    refine ⟨hp_flat d _ h.1, hp_flatSubs r dp h.2 hnd.2, ?_⟩
    intro a ha b hb
    obtain ⟨ea, hea, rfl⟩ := mem_hp ha
    obtain ⟨eb, heb, rfl⟩ := mem_hp hb
    have pa := walkDir_prefix d _ ea hea
    obtain ⟨d', hd', pb⟩ := walkSubs_prefix r dp eb heb
    have hne : d.name ≠ d'.name := by
      intro he
      exact hnd.1 (he ▸ List.mem_map_of_mem hd')
    constructor
    · intro hab
      exact prefix_clash (rest := []) hne (pa.trans hab) pb
    · intro hba
      exact prefix_clash (rest := []) hne.symm (pb.trans hba) pa
end

theorem separated_of_noNesting (t : Dir) (h : NoNesting t) : Separated t := by
  obtain ⟨hf, hr⟩ := h
  have hpw := hp_flat t [] hf
  refine ⟨?_, hpw⟩
  cases t with
  | mk name atime files subs =>
    simp only [Dir.name] at hr
    intro hmem
    have : [] ∈ hp (walkSubs [] subs) := by
      simpa [hashPaths, osWalk, walkDir, hp, List.filter_cons, hr] using hmem
    obtain ⟨e, he, hpath⟩ := mem_hp this
    obtain ⟨d', _, hpre⟩ := walkSubs_prefix subs [] e he
    rw [hpath] at hpre
    have := hpre.length_le
    simp at this

/-! ### size strings -/

theorem memstrChars_concat (m : List Char) (u : Char) :
    memstrChars (m ++ [u]) =
      match unitExp u with
      | none => .valueError
      | some k =>
        if m.all inAlphabet then
          match parseMantissa m with
          | none => .valueError
          | some (neg, n, f) => .ok (scaled neg n f k)
        else .outside := by
  simp only [memstrChars, List.getLast?_concat, List.dropLast_concat]
  rfl

theorem isDigit_inAlphabet {c : Char} (h : isDigit c = true) : inAlphabet c = true := by
  simp [inAlphabet, h]

theorem natOfDigits_append (acc : Nat) (a b : List Char) :
    natOfDigits acc (a ++ b) = natOfDigits (natOfDigits acc a) b := by
  induction a generalizing acc with
  | nil => rfl
  | cons c r ih =>
    simp only [List.cons_append, natOfDigits]
    exact ih _

theorem natOfDigits_acc (acc : Nat) (b : List Char) :
    natOfDigits acc b = acc * 10 ^ b.length + natOfDigits 0 b := by
  induction b generalizing acc with
  | nil => simp only [natOfDigits, List.length_nil, Nat.pow_zero, Nat.mul_one, Nat.add_zero]
  | cons c r ih =>
    simp only [natOfDigits, List.length_cons]
    rw [ih, ih (0 * 10 + digitVal c)]
    generalize digitVal c = dv
    generalize natOfDigits 0 r = x
    rw [Nat.pow_succ, Nat.add_mul, Nat.zero_mul, Nat.zero_add, Nat.mul_assoc, Nat.mul_comm (10 ^ r.length) 10, Nat.add_assoc]

/-- The digits `ip` followed by the digits `fp` read as one number: `ip · 10^|fp| + fp`. -/
theorem natOfDigits_split (ip fp : List Char) :
    natOfDigits 0 (ip ++ fp) = natOfDigits 0 ip * 10 ^ fp.length + natOfDigits 0 fp := by
  rw [natOfDigits_append, natOfDigits_acc]

theorem parseUnsigned_point (ip fp : List Char) (hip : ∀ c ∈ ip, isDigit c = true)
    (hfp : ∀ c ∈ fp, isDigit c = true) (hne : ¬ (ip = [] ∧ fp = [])) :
    parseUnsigned (ip ++ '.' :: fp) = some (natOfDigits 0 (ip ++ fp), fp.length) := by
  have hdot : isDigit '.' = false := by decide
  unfold parseUnsigned
  simp only [List.takeWhile_append_of_pos hip, List.dropWhile_append_of_pos hip, List.takeWhile_cons,
    List.dropWhile_cons, hdot, Bool.false_eq_true, if_false, List.append_nil]
  have hall : fp.all isDigit = true := by simpa using hfp
  simp [hall, hne]

theorem parseUnsigned_int (ip : List Char) (hip : ∀ c ∈ ip, isDigit c = true) (hne : ip ≠ []) :
    parseUnsigned ip = some (natOfDigits 0 ip, 0) := by
  unfold parseUnsigned
  have h1 : ip.takeWhile isDigit = ip := by
    have := List.takeWhile_append_of_pos (l₂ := []) hip
    simpa using this
  have h2 : ip.dropWhile isDigit = [] := by
    have := List.dropWhile_append_of_pos (l₂ := []) hip
    simpa using this
  simp [h1, h2, hne]

theorem parseMantissa_unsigned (r : List Char) (h : ∀ c ∈ r.head?, c ≠ '-' ∧ c ≠ '+') :
    parseMantissa r = (parseUnsigned r).map (fun nf => (false, nf)) := by
  unfold parseMantissa
  split
  · simp at h
  · simp at h
  · rfl


/-- Truncation is robust: `P/q` within `1/T` of the non-integer `V/T` has the same integer part. -/
theorem trunc_robust (V T P q : Nat) (hT : 0 < T) (hnonint : V % T ≠ 0)
    (h1 : P * T < V * q + q) (h2 : V * q < P * T + q) : P / q = V / T := by
  have hdm := Nat.div_add_mod V T
  have hr : V % T < T := Nat.mod_lt _ hT
  generalize V / T = a at *
  generalize V % T = r at *
  subst hdm
  apply Nat.div_eq_of_lt_le
  · apply Nat.le_of_not_lt
    intro hlt
    have e1 : (P + 1) * T ≤ a * q * T := Nat.mul_le_mul_right T hlt
    have e2 : (T * a + r) * q = a * q * T + r * q := by grind
    have e3 : q ≤ r * q := Nat.le_mul_of_pos_left q (Nat.pos_of_ne_zero hnonint)
    have e4 : (P + 1) * T = P * T + T := by grind
    omega
  · apply Nat.lt_of_not_le
    intro hge
    have e1 : (a + 1) * q * T ≤ P * T := Nat.mul_le_mul_right T hge
    have e2 : (T * a + r) * q = a * q * T + r * q := by grind
    have e3 : (a + 1) * q * T = a * q * T + q * T := by grind
    have e5 : (r + 1) * q ≤ T * q := Nat.mul_le_mul_right q hr
    have e6 : (r + 1) * q = r * q + q := by grind
    have e7 : T * q = q * T := Nat.mul_comm _ _
    omega

end JoblibModel.StoreLimits
