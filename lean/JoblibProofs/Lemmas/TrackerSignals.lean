import JoblibModel.TrackerSignals
/-! Helper lemmas for the signal side of C20 (`JoblibModel.TrackerSignals`). -/
namespace JoblibModel.TrackerSignals

/-- The tracker lives and every signal is ignored or still in the mask. -/
def sigSafe (s : St) : Bool :=
  s.alive && (s.int.ignored || s.int.blocked) && (s.term.ignored || s.term.blocked)

theorem sigRun_append (s : St) (l1 l2 : List Ev) : sigRun s (l1 ++ l2) = sigRun (sigRun s l1) l2 := by
  simp [sigRun, List.foldl_append]

theorem sigRun_cons (s : St) (e : Ev) (l : List Ev) : sigRun s (e :: l) = sigRun (sigStep s e) l := rfl

/-- An arrival or a `signal(g, SIG_IGN)` in a safe state: still safe, the mask is unchanged, what was ignored is. -/
theorem sigStep_keeps (s : St) (e : Ev) (he : e ≠ .unblockAll) (h : sigSafe s = true) :
    sigSafe (sigStep s e) = true ∧ (sigStep s e).int.blocked = s.int.blocked ∧ (sigStep s e).term.blocked = s.term.blocked
      ∧ (s.int.ignored = true → (sigStep s e).int.ignored = true)
      ∧ (s.term.ignored = true → (sigStep s e).term.ignored = true) := by
  rcases s with ⟨⟨b1, i1, p1⟩, ⟨b2, i2, p2⟩, a⟩
  cases e with
  | unblockAll => exact absurd rfl he
  | arrive g =>
    cases g <;> cases b1 <;> cases i1 <;> cases b2 <;> cases i2 <;> cases a <;>
      simp_all [sigSafe, sigStep, St.get, St.set]
  | ignore g =>
    cases g <;> cases b1 <;> cases i1 <;> cases b2 <;> cases i2 <;> cases a <;>
      simp_all [sigSafe, sigStep, St.get, St.set]

theorem sigStep_ignore (s : St) (g : Sig) (h : s.alive = true) : ((sigStep s (.ignore g)).get g).ignored = true := by
  cases g <;> simp [sigStep, h, St.get, St.set]

theorem sigStep_unblock (s : St) (ha : s.alive = true) (hi : s.int.ignored = true) (ht : s.term.ignored = true) :
    (sigStep s .unblockAll).alive = true ∧ (sigStep s .unblockAll).int.ignored = true
      ∧ (sigStep s .unblockAll).term.ignored = true := by
  simp [sigStep, ha, hi, ht, Per.fatalWhenUnblocked]

theorem sigSafe_alive {s : St} (h : sigSafe s = true) : s.alive = true := by
  simp [sigSafe] at h; exact h.1.1

theorem sigSafe_of_ignored {s : St} (ha : s.alive = true) (hi : s.int.ignored = true) (ht : s.term.ignored = true) :
    sigSafe s = true := by simp [sigSafe, ha, hi, ht]

/-- Any number of arrivals in a safe state. -/
theorem sigRun_arrivals (a : List Sig) : ∀ (s : St), sigSafe s = true →
    sigSafe (sigRun s (arrivals a)) = true ∧ (sigRun s (arrivals a)).int.blocked = s.int.blocked
      ∧ (sigRun s (arrivals a)).term.blocked = s.term.blocked
      ∧ (s.int.ignored = true → (sigRun s (arrivals a)).int.ignored = true)
      ∧ (s.term.ignored = true → (sigRun s (arrivals a)).term.ignored = true) := by
  induction a with
  | nil => intro s h; simp [arrivals, sigRun, h]
  | cons g r ih =>
    intro s h
    have h1 := sigStep_keeps s (.arrive g) (by simp) h
    have h2 := ih (sigStep s (.arrive g)) h1.1
    simp only [arrivals, List.map_cons, sigRun_cons] at h2 ⊢
    refine ⟨h2.1, by rw [h2.2.1, h1.2.1], by rw [h2.2.2.1, h1.2.2.1], fun hi => h2.2.2.2.1 (h1.2.2.2.1 hi),
      fun ht => h2.2.2.2.2 (h1.2.2.2.2 ht)⟩

end JoblibModel.TrackerSignals
