import JoblibProofs.Lemmas.TrackerClient.Final
/-! Helper lemmas for the client part of C20 (`JoblibModel.TrackerClient`); the files are under
`Lemmas/TrackerClient/`: `Basic` (parser on `reqLine`, names, `send`, list helpers, the "wire" group), `Inv` (the
invariants), `Leaves` (the manager's functions), `Procs` (the worker processes, executor shutdown), `Ops` (the
operations, `inv_runOps`), `Final` (what is left on disk after `exitParent` / EOF). -/
