import JoblibProofs.Lemmas.ParallelProto.Gen
/-!
C09: the look-ahead bound. `ownParked` (parked batches of the running call) never grows at a completion; the number
of tasks taken from the input but not completed is at most `(ownParked + n_jobs) · bmax`.
-/
namespace JoblibModel.ParallelProto

/-! ### `ownParked` through completions -/

theorem filter_eraseIdx_length {p : Nat → Bool} : ∀ {l : List Nat} {k i : Nat}, l[k]? = some i →
    ((l.eraseIdx k).filter p).length + (if p i then 1 else 0) = (l.filter p).length := by
  intro l
  induction l with
  | nil => intro k i h; simp at h
  | cons a t ih =>
    intro k i h
    cases k with
    | zero =>
      simp only [List.getElem?_cons_zero, Option.some.injEq] at h
      subst h
      simp only [List.eraseIdx_cons_zero, List.filter_cons]
      split
      · simp
      · simp
    | succ k =>
      simp only [List.getElem?_cons_succ] at h
      have := ih h
      simp only [List.eraseIdx_cons_succ, List.filter_cons]
      split
      · simp only [List.length_cons]; omega
      · exact this

theorem ownParked_erase (t0 : Nat) {s s' : St} {k i : Nat} (hk : s.parked[k]? = some i)
    (h : s'.parked = s.parked.eraseIdx k) :
    ownParked t0 s' + (if t0 ≤ i then 1 else 0) = ownParked t0 s := by
  simp only [ownParked, h]
  have := filter_eraseIdx_length (p := fun i => decide (t0 ≤ i)) hk
  simpa using this

theorem dispatch_ownParked (c : Cfg) (t0 : Nat) (s : St) (b : List Nat) :
    ownParked t0 (dispatch c s b) ≤ ownParked t0 s + 1 := by
  cases ha : s.aborting with
  | true => rw [dispatch_aborting c b ha]; exact Nat.le_succ _
  | false =>
    obtain ⟨lg, h⟩ := dispatch_eq (c := c) b ha
    rw [h]
    exact (ownParked_append t0 s _ s.trk.length rfl).1

theorem registerOutcome_ownParked (c : Cfg) (t0 : Nat) (s : St) (i : Nat) (st : Status) (r : Res) :
    ownParked t0 (registerOutcome c s i st r) = ownParked t0 s := by
  simp only [ownParked, (registerOutcome_core c s i st r).2.2.2.2.2.2]

/-- Structural: the locked region parks at most one more batch, whatever the state. -/
theorem dispatchLocked_ownParked_any (c : Cfg) (t0 : Nat) (fo : Bool) (bs : Nat) (s : St) :
    ownParked t0 (dispatchLocked c fo bs s).1 ≤ ownParked t0 s + 1 := by
  unfold dispatchLocked
  split
  · exact Nat.le_succ _
  · split
    · split
      · exact Nat.le_succ _
      · exact dispatch_ownParked c t0 _ _
    · obtain ⟨lg, m, d, pl, r, he, _⟩ := pullUpTo_spec fo (bs * c.nj) s
      simp only [he]
      split
      · simp only
        rw [registerOutcome_ownParked]
        split <;> exact Nat.le_succ _
      · split
        · exact Nat.le_succ _
        · split
          · exact Nat.le_succ _
          · split
            · exact Nat.le_succ _
            · exact dispatch_ownParked c t0 _ _

theorem dispatchOneCb_ownParked_any (c : Cfg) (t0 : Nat) (s : St) :
    ownParked t0 (dispatchOneCb c s).1 ≤ ownParked t0 s + 1 := by
  unfold dispatchOneCb
  split
  · exact Nat.le_succ _
  · simp only
    split
    · exact dispatchLocked_ownParked_any c t0 true _ _
    · exact dispatchLocked_ownParked_any c t0 true _ _

theorem callback_ownParked_any (c : Cfg) (t0 : Nat) (s : St) (i : Nat) (failed : Option Nat) :
    ownParked t0 (callback c s i failed) ≤ ownParked t0 s + 1 := by
  unfold callback
  simp only
  split
  · exact Nat.le_succ _
  · split
    · exact Nat.le_succ _
    · cases failed with
      | some id => simp only; rw [registerOutcome_ownParked]; exact Nat.le_succ _
      | none =>
        simp only
        have h2 : ownParked t0 { registerOutcome c s i .done (.vals (getTrk s i).items) with nCompleted := (registerOutcome c s i .done (.vals (getTrk s i).items)).nCompleted + (getTrk s i).bsize } = ownParked t0 s :=
          registerOutcome_ownParked c t0 s i _ _
        split
        · have := dispatchOneCb_ownParked_any c t0 { registerOutcome c s i .done (.vals (getTrk s i).items) with nCompleted := (registerOutcome c s i .done (.vals (getTrk s i).items)).nCompleted + (getTrk s i).bsize }
          rw [h2] at this
          split
          · exact this
          · exact this
        · rw [h2]; exact Nat.le_succ _

/-- PARKED BOUND (steady state). A completion never increases the number of parked batches of the running call:
the completed batch leaves, and its callback dispatches at most one new batch. -/
theorem deliver_ownParked {c : Cfg} {t0 : Nat} {s : St} (k : Nat) (h : InvT c t0 none s) :
    ownParked t0 (deliver c k s) ≤ ownParked t0 s := by
  unfold deliver
  cases hk : s.parked[k]? with
  | none => exact Nat.le_refl _
  | some i =>
    simp only
    obtain ⟨lg, hex, _, _⟩ := execBatch_spec (getTrk { s with parked := s.parked.eraseIdx k } i).items
      (ev { s with parked := s.parked.eraseIdx k } ("complete " ++ idsStr (getTrk { s with parked := s.parked.eraseIdx k } i).items))
    generalize hres : execBatch (ev { s with parked := s.parked.eraseIdx k } ("complete " ++ idsStr (getTrk { s with parked := s.parked.eraseIdx k } i).items)) (getTrk { s with parked := s.parked.eraseIdx k } i).items = res at hex
    obtain ⟨s3, failed⟩ := res
    simp only at hex ⊢
    simp only [ev] at hex
    have hpk : ({ s3 with inCb := true } : St).parked = s.parked.eraseIdx k := by rw [hex]
    have he := ownParked_erase t0 (s' := { s3 with inCb := true }) hk hpk
    show ownParked t0 (callback c { s3 with inCb := true } i failed) ≤ _
    by_cases hown : t0 ≤ i
    · have := callback_ownParked_any c t0 { s3 with inCb := true } i failed
      simp only [hown, if_true] at he
      omega
    · have hst : (getTrk { s3 with inCb := true } i).callId ≠ ({ s3 with inCb := true } : St).callId := by
        have e1 : getTrk { s3 with inCb := true } i = getTrk s i := by rw [hex]; rfl
        have e2 : ({ s3 with inCb := true } : St).callId = s.callId := by rw [hex]
        rw [e1, e2]
        exact Nat.ne_of_lt (h.stale i (by omega))
      rw [stale_callback_noop c _ i failed hst]
      simp only [hown, if_false] at he
      omega

theorem deliverAll_ownParked {c : Cfg} (hc : CfgOK c) {t0 : Nat} : ∀ (l : List Nat) (s : St), Inv c t0 s →
    ownParked t0 (deliverAll c s l) ≤ ownParked t0 s := by
  intro l
  induction l with
  | nil => intro s _; exact Nat.le_refl _
  | cons idx r ih =>
    intro s h
    unfold deliverAll
    simp only
    split
    · exact ih s h
    · have h1 := (deliver_spec hc (idx % s.parked.length) h).1.inv
      exact Nat.le_trans (ih _ h1) (deliver_ownParked _ h.T)

/-- PARKED BOUND at a hook point (whatever completions the schedule delivers). -/
theorem hook_ownParked {c : Cfg} (hc : CfgOK c) {t0 : Nat} (sleep : Bool) {s : St} (h : Inv c t0 s) :
    ownParked t0 (hook c sleep s) ≤ ownParked t0 s := by
  unfold hook
  split
  · rename_i entry rest hs
    have h1 : Inv c t0 { s with sched := rest } :=
      h.frame rfl rfl rfl rfl rfl rfl rfl rfl rfl rfl rfl rfl rfl ⟨rfl, rfl, rfl, rfl, rfl, rfl, rfl, rfl, id⟩
    have := deliverAll_ownParked hc entry _ h1
    split
    · exact this
    · exact this
  · split
    · split
      · have h1 : Inv c t0 { s with idle := 0 } :=
          h.frame rfl rfl rfl rfl rfl rfl rfl rfl rfl rfl rfl rfl rfl ⟨rfl, rfl, rfl, rfl, rfl, rfl, rfl, rfl, id⟩
        exact deliver_ownParked 0 h1.T
      · simp only
        split <;> exact Nat.le_refl _
    · exact Nat.le_refl _

/-! ### the look-ahead bound -/

theorem own_eq_map (t0 : Nat) (s : St) :
    own t0 s = (List.range' t0 (s.trk.length - t0)).map (fun i => getTrk s i) := by
  apply List.ext_getElem
  · simp [own]
  · intro k h1 h2
    simp only [own, List.length_drop] at h1
    simp only [own, List.getElem_drop, List.getElem_map, List.getElem_range', Nat.mul_one]
    rw [getTrk_lt (by omega)]
    congr 1; omega

theorem pendSum_le_mul {B : Nat} : ∀ (l : List Tracker),
    (∀ t ∈ l, t.status = .pending → t.bsize ≤ B) →
    pendSum l ≤ B * (l.filter (fun t => t.status == .pending)).length := by
  intro l
  induction l with
  | nil => intro _; simp [pendSum]
  | cons x xs ih =>
    intro h
    have h' := ih (fun t ht => h t (List.mem_cons_of_mem _ ht))
    simp only [pendSum, List.filter_cons] at h' ⊢
    by_cases hx : x.status = .pending
    · have := h x (by simp) hx
      simp only [hx, beq_self_eq_true, if_true, List.map_cons, List.sum_cons, List.length_cons, Nat.mul_add,
        Nat.mul_one]
      omega
    · have : (x.status == Status.pending) = false := by simpa using hx
      simp only [this, Bool.false_eq_true, if_false]
      exact h'

/-- The pending batches of the call are parked: there are at most `ownParked` of them. -/
theorem pending_count_le_ownParked {c : Cfg} {t0 : Nat} {s : St} (h : InvT c t0 none s) (hna : s.aborting = false) :
    ((own t0 s).filter (fun t => t.status == .pending)).length ≤ ownParked t0 s := by
  rw [own_eq_map, List.filter_map, List.length_map]
  apply List.Nodup.length_le_of_subset
  · exact (List.nodup_range' (step := 1) (by omega)).sublist List.filter_sublist
  · intro i hi
    simp only [List.mem_filter, List.mem_range'_1, Function.comp, beq_iff_eq] at hi
    obtain ⟨⟨h0, h1⟩, hp⟩ := hi
    have hlt : i < s.trk.length := by omega
    have := (h.parked_pending hna i h0 hlt).mp hp
    simp only [reduceCtorEq, or_false] at this
    simp only [List.mem_filter, decide_eq_true_eq]
    exact ⟨this, h0⟩

/-- LOOK-AHEAD BOUND. In every state of a call that is not aborting, the number of items taken from the input
exceeds the number of completed tasks by at most `(P + n_jobs) · bmax`, where `P` is the number of parked batches
of the call and `bmax` the largest scripted batch size. -/
theorem lookahead_le {c : Cfg} {t0 : Nat} {s : St} (h : Inv c t0 s) (hB : InvB c t0 s)
    (hna : s.aborting = false) :
    s.srcPos ≤ s.nCompleted + (ownParked t0 s + c.nj) * bmax c := by
  have hcons := h.S.cons hna
  have hlen : (dispItems t0 s).length + s.ready.flatten.length = s.srcPos := by
    have := congrArg List.length hcons
    simpa using this
  have hnd := h.S.ndisp hna
  have hnc := h.S.ncomp hna
  have hps : pendSum (own t0 s) ≤ bmax c * ((own t0 s).filter (fun t => t.status == .pending)).length := by
    apply pendSum_le_mul
    intro t ht hp
    obtain ⟨k, hk⟩ := List.mem_iff_getElem?.mp ht
    have hkl : k < (own t0 s).length := by
      rcases Nat.lt_or_ge k (own t0 s).length with hlt | hge
      · exact hlt
      · rw [List.getElem?_eq_none hge] at hk; simp at hk
    have hl : (own t0 s).length = s.trk.length - t0 := by simp [own]
    have h1 : t0 + k < s.trk.length := by omega
    obtain ⟨_, he⟩ := own_getElem (t0 := t0) (s := s) (i := t0 + k) (by omega) h1
    have hk' : (own t0 s)[k] = t := by simpa [List.getElem?_eq_getElem hkl] using hk
    have e : t = getTrk s (t0 + k) := by
      rw [← he, ← hk']; congr 1; omega
    rw [e] at hp ⊢
    have hok := h.T.items_ok (t0 + k) (by omega) h1 (by rw [hp]; simp)
    rw [hok.2]
    exact hB.items_le (t0 + k) (by omega) h1
  have hpc := pending_count_le_ownParked h.T hna
  have hr := hB.ready_tot
  have hmul : bmax c * ((own t0 s).filter (fun t => t.status == .pending)).length ≤ bmax c * ownParked t0 s :=
    Nat.mul_le_mul_left _ hpc
  have e : (ownParked t0 s + c.nj) * bmax c = bmax c * ownParked t0 s + c.nj * bmax c := by
    rw [Nat.add_mul, Nat.mul_comm]
  rw [e]
  omega

/-- The number of parked batches of the call is at most the number of items taken from the input (every batch
is non-empty), hence at most `pre_dispatch + completed · n_jobs · bmax`. -/
theorem ownParked_le_pulled {c : Cfg} {t0 : Nat} {s : St} (h : Inv c t0 s) (hna : s.aborting = false) :
    ownParked t0 s ≤ s.srcPos := by
  -- parked own ⊆ own indices, all with non-empty items
  have h1 : ownParked t0 s ≤ (own t0 s).length := by
    have hl : (own t0 s).length = (List.range' t0 (s.trk.length - t0)).length := by simp [own]
    rw [hl]
    apply List.Nodup.length_le_of_subset
    · exact h.T.parked_nodup.sublist List.filter_sublist
    · intro i hi
      simp only [List.mem_filter, decide_eq_true_eq] at hi
      rw [List.mem_range'_1]
      have := h.T.parked_lt i hi.1
      omega
  have h2 : (own t0 s).length ≤ (dispItems t0 s).length := by
    have := length_le_flatten_length (L := (own t0 s).map (·.items)) (by
      intro b hb
      obtain ⟨t, ht, rfl⟩ := List.mem_map.mp hb
      obtain ⟨k, hk⟩ := List.mem_iff_getElem?.mp ht
      have hkl : k < (own t0 s).length := by
        rcases Nat.lt_or_ge k (own t0 s).length with hlt | hge
        · exact hlt
        · rw [List.getElem?_eq_none hge] at hk; simp at hk
      have hl : (own t0 s).length = s.trk.length - t0 := by simp [own]
      have h1 : t0 + k < s.trk.length := by omega
      obtain ⟨_, he⟩ := own_getElem (t0 := t0) (s := s) (i := t0 + k) (by omega) h1
      have hk' : (own t0 s)[k] = t := by simpa [List.getElem?_eq_getElem hkl] using hk
      have e : t = getTrk s (t0 + k) := by
        rw [← he, ← hk']; congr 1; omega
      rw [e]
      exact (h.T.items_ok (t0 + k) (by omega) h1 (h.T.no_error hna (t0 + k) (by omega) h1)).1)
    simpa [dispItems] using this
  have hcons := h.S.cons hna
  have hlen : (dispItems t0 s).length + s.ready.flatten.length = s.srcPos := by
    have := congrArg List.length hcons
    simpa using this
  omega

theorem getResult_nCompleted (s : St) (i : Nat) : (getResult s i).1.nCompleted = s.nCompleted := by
  unfold getResult
  simp only
  split
  · rfl
  · split <;> rfl
  · split <;> rfl

/-- The states reachable from `s` by the steps of the retrieval phase: hook points (the loop's `sleep`, pauses
of the consumer — the schedule delivers any completions), clock ticks, `get_status` of a tracker of the call,
popping a completed head (ordered modes), yielding a value. The caller does not dispatch in this phase. -/
inductive RetrievalReach (c : Cfg) (t0 : Nat) : St → St → Prop
  | refl (s : St) : RetrievalReach c t0 s s
  | hook {s s' : St} (sleep : Bool) : RetrievalReach c t0 s s' → RetrievalReach c t0 s (hook c sleep s')
  | tick {s s' : St} : RetrievalReach c t0 s s' → RetrievalReach c t0 s { s' with now := s'.now + 1 }
  | status {s s' : St} (i : Nat) : t0 ≤ i → i < s'.trk.length → RetrievalReach c t0 s s' →
      RetrievalReach c t0 s (getStatus c s' i).1
  | pop {s s' : St} {i : Nat} {rest : List Nat} : ordered c = true → s'.aborting = false → s'.jobs = i :: rest →
      (getTrk s' i).status = .done → RetrievalReach c t0 s s' →
      RetrievalReach c t0 s (getResult { s' with jobs := rest } i).1
  | yield {s s' : St} : RetrievalReach c t0 s s' →
      RetrievalReach c t0 s { s' with nbConsumed := s'.nbConsumed + 1 }

theorem RetrievalReach.spec {c : Cfg} (hc : CfgOK c) {t0 : Nat} {s₁ s : St} (hr : RetrievalReach c t0 s₁ s)
    (h : Inv c t0 s₁) (hB : InvB c t0 s₁) :
    Inv c t0 s ∧ InvB c t0 s ∧ ownParked t0 s ≤ ownParked t0 s₁ ∧ s₁.nCompleted ≤ s.nCompleted := by
  induction hr with
  | refl => exact ⟨h, hB, Nat.le_refl _, Nat.le_refl _⟩
  | hook sleep _ ih =>
    obtain ⟨i1, i2, i3, i4⟩ := ih
    have hk := hook_spec hc sleep i1
    exact ⟨hk.inv, hk.B i2, Nat.le_trans (hook_ownParked hc sleep i1) i3, Nat.le_trans i4 hk.later.ncomp⟩
  | tick _ ih =>
    obtain ⟨i1, i2, i3, i4⟩ := ih
    exact ⟨i1.frame rfl rfl rfl rfl rfl rfl rfl rfl rfl rfl rfl rfl rfl ⟨rfl, rfl, rfl, rfl, rfl, rfl, rfl, rfl, id⟩,
      InvB_mono i2 rfl (fun _ => rfl) rfl rfl rfl (Nat.le_refl _), i3, i4⟩
  | status i h0 h1 _ ih =>
    obtain ⟨i1, i2, i3, i4⟩ := ih
    have hs := getStatus_spec (c := c) i1 h0 h1
    exact ⟨hs.1, getStatus_B i i2, by rw [getStatus_ownParked]; exact i3, Nat.le_trans i4 hs.2.1.ncomp⟩
  | @pop s' i rest ho hna hj hd _ ih =>
    obtain ⟨i1, i2, i3, i4⟩ := ih
    obtain ⟨s3, hres, hi3, _, _, _, _, _, _, _, _, _, _, hp3, hB3⟩ := pop_done ho i1 hna hj hd
    have hnc := getResult_nCompleted { s' with jobs := rest } i
    rw [hres] at hnc ⊢
    refine ⟨hi3, hB3 i2, ?_, ?_⟩
    · simp only [ownParked, hp3]; exact i3
    · show s₁.nCompleted ≤ s3.nCompleted
      rw [hnc]; exact i4
  | yield _ ih =>
    obtain ⟨i1, i2, i3, i4⟩ := ih
    exact ⟨i1.frame rfl rfl rfl rfl rfl rfl rfl rfl rfl rfl rfl rfl rfl ⟨rfl, rfl, rfl, rfl, rfl, rfl, rfl, rfl, id⟩,
      InvB_mono i2 rfl (fun _ => rfl) rfl rfl rfl (Nat.le_refl _), i3, i4⟩

end JoblibModel.ParallelProto
