import JoblibModel.ParallelProto
/-!
Generic list facts used by the M1 (`ParallelProto`) proofs: `chunks`, `removeFirst`, sums over tracker tables.
-/
namespace JoblibModel.ParallelProto

/-! ### `chunks` -/

theorem chunks_go_flatten (k : Nat) : ∀ (fuel : Nat) (l : List Nat), l.length ≤ fuel →
    (chunks.go k fuel l).flatten = l := by
  intro fuel
  induction fuel with
  | zero => intro l h; cases l <;> simp_all [chunks.go]
  | succ f ih =>
    intro l h
    cases l with
    | nil => simp [chunks.go]
    | cons a t =>
      simp only [chunks.go, List.flatten_cons]
      rw [ih]
      · simp
      · simp only [List.length_drop, List.length_cons] at *; omega

theorem chunks_flatten (k : Nat) (l : List Nat) : (chunks k l).flatten = l :=
  chunks_go_flatten k _ l (Nat.le_refl _)

theorem chunks_go_ne_nil (k : Nat) : ∀ (fuel : Nat) (l : List Nat), ∀ b ∈ chunks.go k fuel l, b ≠ [] := by
  intro fuel
  induction fuel with
  | zero => intro l b h; simp [chunks.go] at h
  | succ f ih =>
    intro l b h
    cases l with
    | nil => simp [chunks.go] at h
    | cons a t =>
      simp only [chunks.go, List.mem_cons] at h
      rcases h with h | h
      · subst h
        have : 0 < max k 1 := by omega
        cases hm : max k 1 with
        | zero => omega
        | succ m => simp
      · exact ih _ b h

theorem chunks_ne_nil (k : Nat) (l : List Nat) : ∀ b ∈ chunks k l, b ≠ [] :=
  chunks_go_ne_nil k _ l

theorem chunks_go_len_le (k : Nat) : ∀ (fuel : Nat) (l : List Nat), ∀ b ∈ chunks.go k fuel l,
    b.length ≤ max k 1 := by
  intro fuel
  induction fuel with
  | zero => intro l b h; simp [chunks.go] at h
  | succ f ih =>
    intro l b h
    cases l with
    | nil => simp [chunks.go] at h
    | cons a t =>
      simp only [chunks.go, List.mem_cons] at h
      rcases h with h | h
      · subst h; simp only [List.length_take]; omega
      · exact ih _ b h

theorem chunks_len_le (k : Nat) (l : List Nat) : ∀ b ∈ chunks k l, b.length ≤ max k 1 :=
  chunks_go_len_le k _ l

theorem chunks_go_length_le (k : Nat) : ∀ (fuel : Nat) (l : List Nat),
    (chunks.go k fuel l).length ≤ l.length := by
  intro fuel
  induction fuel with
  | zero => intro l; simp [chunks.go]
  | succ f ih =>
    intro l
    cases l with
    | nil => simp [chunks.go]
    | cons a t =>
      simp only [chunks.go, List.length_cons]
      have := ih ((a :: t).drop (max k 1))
      simp only [List.length_drop, List.length_cons] at this
      omega

theorem chunks_length_le (k : Nat) (l : List Nat) : (chunks k l).length ≤ l.length :=
  chunks_go_length_le k _ l

theorem chunks_nil (k : Nat) : chunks k [] = [] := by simp [chunks, chunks.go]

theorem chunks_eq_nil_iff (k : Nat) (l : List Nat) : chunks k l = [] ↔ l = [] := by
  constructor
  · intro h
    have := chunks_flatten k l
    rw [h] at this; simpa using this.symm
  · rintro rfl; exact chunks_nil k

/-- The number of items in a list of batches. -/
def nTasks (bs : List (List Nat)) : Nat := bs.flatten.length

@[simp] theorem nTasks_nil : nTasks [] = 0 := rfl
@[simp] theorem nTasks_cons (b : List Nat) (bs : List (List Nat)) : nTasks (b :: bs) = b.length + nTasks bs := by
  simp [nTasks]

/-! ### `removeFirst` -/

theorem removeFirst_length {x : Nat} : ∀ {l : List Nat}, x ∈ l → (removeFirst x l).length + 1 = l.length := by
  intro l
  induction l with
  | nil => simp
  | cons y ys ih =>
    intro h
    simp only [removeFirst]
    split
    · simp
    · rename_i hne
      simp only [List.mem_cons] at h
      rcases h with h | h
      · exact absurd h hne
      · simp [ih h]

theorem mem_removeFirst {x y : Nat} : ∀ {l : List Nat}, y ∈ removeFirst x l → y ∈ l := by
  intro l
  induction l with
  | nil => simp [removeFirst]
  | cons z zs ih =>
    simp only [removeFirst]
    split
    · intro h; exact List.mem_cons_of_mem _ h
    · intro h
      simp only [List.mem_cons] at h ⊢
      rcases h with h | h
      · exact Or.inl h
      · exact Or.inr (ih h)

theorem mem_removeFirst_of_ne {x y : Nat} (hne : y ≠ x) : ∀ {l : List Nat}, y ∈ l → y ∈ removeFirst x l := by
  intro l
  induction l with
  | nil => simp
  | cons z zs ih =>
    intro h
    simp only [removeFirst]
    split
    · rename_i hxz
      simp only [List.mem_cons] at h
      rcases h with h | h
      · omega
      · exact h
    · simp only [List.mem_cons] at h ⊢
      rcases h with h | h
      · exact Or.inl h
      · exact Or.inr (ih h)

theorem removeFirst_nodup {x : Nat} : ∀ {l : List Nat}, l.Nodup → (removeFirst x l).Nodup ∧ x ∉ removeFirst x l := by
  intro l
  induction l with
  | nil => simp [removeFirst]
  | cons z zs ih =>
    intro h
    rw [List.nodup_cons] at h
    simp only [removeFirst]
    split
    · rename_i hxz; subst hxz; exact ⟨h.2, h.1⟩
    · rename_i hxz
      obtain ⟨h1, h2⟩ := ih h.2
      refine ⟨?_, ?_⟩
      · rw [List.nodup_cons]
        exact ⟨fun hm => h.1 (mem_removeFirst hm), h1⟩
      · simp only [List.mem_cons, not_or]
        exact ⟨hxz, h2⟩

end JoblibModel.ParallelProto
