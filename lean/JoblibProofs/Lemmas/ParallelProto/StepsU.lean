import JoblibProofs.Lemmas.ParallelProto.StepsS
/-!
`return_as='generator_unordered'`: the invariant of the completed-jobs queue `_jobs` and of `_jobs_set`, and its
preservation by the elementary updates.
-/
namespace JoblibModel.ParallelProto

/-- Unordered mode: `_jobs_set` holds the trackers of the call that have not been popped, `_jobs` those of them
whose outcome is registered (in registration order), without duplicates. -/
structure InvU (t0 : Nat) (s : St) : Prop where
  jobs_nodup : s.jobs.Nodup
  jobs_set : ∀ i ∈ s.jobs, i ∈ s.jobsSet ∧ (getTrk s i).status ≠ .pending
  set_nodup : s.jobsSet.Nodup
  set_own : ∀ i ∈ s.jobsSet, t0 ≤ i ∧ i < s.trk.length
  set_done : ∀ i ∈ s.jobsSet, (getTrk s i).status ≠ .pending → i ∈ s.jobs
  pend_set : ∀ i, t0 ≤ i → i < s.trk.length → (getTrk s i).status = .pending → i ∈ s.jobsSet

theorem InvU_frame {t0 : Nat} {s s' : St} (h : InvU t0 s)
    (htrk : s'.trk = s.trk) (hjobs : s'.jobs = s.jobs) (hjs : s'.jobsSet = s.jobsSet) : InvU t0 s' := by
  have hg : ∀ j, getTrk s' j = getTrk s j := getTrk_same htrk
  obtain ⟨a1, a2, a3, a4, a5, a6⟩ := h
  refine ⟨by rw [hjobs]; exact a1, ?_, by rw [hjs]; exact a3, ?_, ?_, ?_⟩
  · intro i hi; rw [hjobs] at hi; rw [hjs, hg]; exact a2 i hi
  · intro i hi; rw [hjs] at hi; rw [htrk]; exact a4 i hi
  · intro i hi hs; rw [hjs] at hi; rw [hg] at hs; rw [hjobs]; exact a5 i hi hs
  · intro i h0 h1 hs; rw [htrk] at h1; rw [hg] at hs; rw [hjs]; exact a6 i h0 h1 hs

/-- `_dispatch` in unordered mode: the new pending tracker joins `_jobs_set`. -/
theorem InvU_push {t0 : Nat} {s s' : St} {t : Tracker} (h : InvU t0 s) (ht0 : t0 ≤ s.trk.length)
    (hst : t.status = .pending)
    (htrk : s'.trk = s.trk ++ [t]) (hjobs : s'.jobs = s.jobs) (hjs : s'.jobsSet = s.jobsSet ++ [s.trk.length]) :
    InvU t0 s' := by
  have hg := getTrk_push htrk
  have hlen : s'.trk.length = s.trk.length + 1 := by simp [htrk]
  obtain ⟨a1, a2, a3, a4, a5, a6⟩ := h
  refine ⟨by rw [hjobs]; exact a1, ?_, ?_, ?_, ?_, ?_⟩
  · intro i hi; rw [hjobs] at hi
    obtain ⟨x, y⟩ := a2 i hi
    have := (a4 i x).2
    rw [hjs, hg]; simp only [this, if_true]
    exact ⟨List.mem_append_left _ x, y⟩
  · rw [hjs, List.nodup_append]
    refine ⟨a3, by simp, ?_⟩
    intro a ha b hb
    simp only [List.mem_singleton] at hb
    have := (a4 a ha).2
    omega
  · intro i hi; rw [hjs, List.mem_append] at hi
    rcases hi with hi | hi
    · have := a4 i hi; omega
    · simp only [List.mem_singleton] at hi; omega
  · intro i hi hs; rw [hjs, List.mem_append] at hi; rw [hjobs]
    rcases hi with hi | hi
    · have := (a4 i hi).2
      rw [hg] at hs; simp only [this, if_true] at hs
      exact a5 i hi hs
    · simp only [List.mem_singleton] at hi; subst hi
      rw [hg] at hs; simp [hst] at hs
  · intro i h0 h1 hs; rw [hjs]
    by_cases hlt : i < s.trk.length
    · rw [hg] at hs; simp only [hlt, if_true] at hs
      exact List.mem_append_left _ (a6 i h0 hlt hs)
    · have : i = s.trk.length := by omega
      subst this; simp

/-- The input iterable raised (unordered mode): the error tracker joins both `_jobs_set` and `_jobs`. -/
theorem InvU_pushErr {t0 : Nat} {s s' : St} {t : Tracker} (h : InvU t0 s) (ht0 : t0 ≤ s.trk.length)
    (hst : t.status ≠ .pending)
    (htrk : s'.trk = s.trk ++ [t]) (hjobs : s'.jobs = s.jobs ++ [s.trk.length])
    (hjs : s'.jobsSet = s.jobsSet ++ [s.trk.length]) : InvU t0 s' := by
  have hg := getTrk_push htrk
  have hlen : s'.trk.length = s.trk.length + 1 := by simp [htrk]
  obtain ⟨a1, a2, a3, a4, a5, a6⟩ := h
  refine ⟨?_, ?_, ?_, ?_, ?_, ?_⟩
  · rw [hjobs, List.nodup_append]
    refine ⟨a1, by simp, ?_⟩
    intro a ha b hb
    simp only [List.mem_singleton] at hb
    have := (a4 a (a2 a ha).1).2
    omega
  · intro i hi; rw [hjobs, List.mem_append] at hi
    rcases hi with hi | hi
    · obtain ⟨x, y⟩ := a2 i hi
      have := (a4 i x).2
      rw [hjs, hg]; simp only [this, if_true]
      exact ⟨List.mem_append_left _ x, y⟩
    · simp only [List.mem_singleton] at hi; subst hi
      rw [hjs, hg]; simp [hst]
  · rw [hjs, List.nodup_append]
    refine ⟨a3, by simp, ?_⟩
    intro a ha b hb
    simp only [List.mem_singleton] at hb
    have := (a4 a ha).2
    omega
  · intro i hi; rw [hjs, List.mem_append] at hi
    rcases hi with hi | hi
    · have := a4 i hi; omega
    · simp only [List.mem_singleton] at hi; omega
  · intro i hi hs; rw [hjs, List.mem_append] at hi; rw [hjobs]
    rcases hi with hi | hi
    · have := (a4 i hi).2
      rw [hg] at hs; simp only [this, if_true] at hs
      exact List.mem_append_left _ (a5 i hi hs)
    · simp only [List.mem_singleton] at hi; subst hi; simp
  · intro i h0 h1 hs; rw [hjs]
    by_cases hlt : i < s.trk.length
    · rw [hg] at hs; simp only [hlt, if_true] at hs
      exact List.mem_append_left _ (a6 i h0 hlt hs)
    · have : i = s.trk.length := by omega
      subst this; simp

/-- An outcome (success or error) is registered on the pending tracker `i` (unordered mode): it joins `_jobs`. -/
theorem InvU_register {t0 : Nat} {s s' : St} {i : Nat} {t : Tracker} (h : InvU t0 s)
    (hi0 : t0 ≤ i) (hi1 : i < s.trk.length) (hp : (getTrk s i).status = .pending) (hst : t.status ≠ .pending)
    (htrk : s'.trk = s.trk.set i t) (hjobs : s'.jobs = s.jobs ++ [i]) (hjs : s'.jobsSet = s.jobsSet) :
    InvU t0 s' := by
  have hg := getTrk_set htrk
  have hlen : s'.trk.length = s.trk.length := by simp [htrk]
  obtain ⟨a1, a2, a3, a4, a5, a6⟩ := h
  have hnj : i ∉ s.jobs := fun hm => (a2 i hm).2 hp
  refine ⟨?_, ?_, by rw [hjs]; exact a3, ?_, ?_, ?_⟩
  · rw [hjobs, List.nodup_append]
    refine ⟨a1, by simp, ?_⟩
    intro a ha b hb
    simp only [List.mem_singleton] at hb
    intro e; subst e; subst hb; exact hnj ha
  · intro j hj; rw [hjobs, List.mem_append] at hj; rw [hjs, hg]
    rcases hj with hj | hj
    · obtain ⟨x, y⟩ := a2 j hj
      have : i ≠ j := fun e => hnj (e ▸ hj)
      simp only [this, false_and, if_false]
      exact ⟨x, y⟩
    · simp only [List.mem_singleton] at hj; subst hj
      simp only [hi1, and_self, if_true]
      exact ⟨a6 j hi0 hi1 hp, hst⟩
  · intro j hj; rw [hjs] at hj; rw [hlen]; exact a4 j hj
  · intro j hj hs; rw [hjs] at hj; rw [hjobs]
    by_cases hji : i = j
    · subst hji; simp
    · rw [hg] at hs; simp only [hji, false_and, if_false] at hs
      exact List.mem_append_left _ (a5 j hj hs)
  · intro j h0 h1 hs; rw [hjs]
    by_cases hji : i = j
    · subst hji; rw [hg] at hs; simp only [hi1, and_self, if_true] at hs; exact absurd hs hst
    · rw [hg] at hs; simp only [hji, false_and, if_false] at hs
      exact a6 j h0 (by omega) hs

/-- Tracker `i` is replaced by one with the same status (`toCounter` / `result` changes). -/
theorem InvU_set_aux {t0 : Nat} {s s' : St} {i : Nat} {t : Tracker} (h : InvU t0 s)
    (hst : t.status = (getTrk s i).status)
    (htrk : s'.trk = s.trk.set i t) (hjobs : s'.jobs = s.jobs) (hjs : s'.jobsSet = s.jobsSet) : InvU t0 s' := by
  have hg := getTrk_set htrk
  have hlen : s'.trk.length = s.trk.length := by simp [htrk]
  have hgs : ∀ j, (getTrk s' j).status = (getTrk s j).status := by intro j; rw [hg]; grind
  obtain ⟨a1, a2, a3, a4, a5, a6⟩ := h
  refine ⟨by rw [hjobs]; exact a1, ?_, by rw [hjs]; exact a3, ?_, ?_, ?_⟩
  · intro j hj; rw [hjobs] at hj; rw [hjs, hgs]; exact a2 j hj
  · intro j hj; rw [hjs] at hj; rw [hlen]; exact a4 j hj
  · intro j hj hs; rw [hjs] at hj; rw [hgs] at hs; rw [hjobs]; exact a5 j hj hs
  · intro j h0 h1 hs; rw [hlen] at h1; rw [hgs] at hs; rw [hjs]; exact a6 j h0 h1 hs

/-- `_jobs.popleft()` + `_jobs_set.remove(job)` in unordered mode. -/
theorem InvU_pop {t0 : Nat} {s s' : St} {i : Nat} {rest : List Nat} (h : InvU t0 s) (hj : s.jobs = i :: rest)
    (htrk : s'.trk = s.trk) (hjobs : s'.jobs = rest) (hjs : s'.jobsSet = removeFirst i s.jobsSet) :
    InvU t0 s' ∧ i ∉ rest ∧ i ∈ s.jobsSet := by
  have hg : ∀ j, getTrk s' j = getTrk s j := getTrk_same htrk
  obtain ⟨a1, a2, a3, a4, a5, a6⟩ := h
  have hnd := a1
  rw [hj, List.nodup_cons] at hnd
  have hmem : i ∈ s.jobs := by rw [hj]; simp
  obtain ⟨hrn, hri⟩ := removeFirst_nodup (x := i) a3
  refine ⟨⟨by rw [hjobs]; exact hnd.2, ?_, by rw [hjs]; exact hrn, ?_, ?_, ?_⟩, hnd.1, (a2 i hmem).1⟩
  · intro j hj'; rw [hjobs] at hj'
    have hj'' : j ∈ s.jobs := by rw [hj]; exact List.mem_cons_of_mem _ hj'
    obtain ⟨x, y⟩ := a2 j hj''
    have hne : j ≠ i := fun e => hnd.1 (e ▸ hj')
    rw [hjs, hg]
    exact ⟨mem_removeFirst_of_ne hne x, y⟩
  · intro j hj'; rw [hjs] at hj'; rw [htrk]; exact a4 j (mem_removeFirst hj')
  · intro j hj' hs; rw [hjs] at hj'; rw [hg] at hs; rw [hjobs]
    have hne : j ≠ i := fun e => hri (e ▸ hj')
    have := a5 j (mem_removeFirst hj') hs
    rw [hj] at this
    simp only [List.mem_cons] at this
    rcases this with this | this
    · exact absurd this hne
    · exact this
  · intro j h0 h1 hs; rw [htrk] at h1; rw [hg] at hs; rw [hjs]
    have hne : j ≠ i := by
      intro e; subst e; exact (a2 j hmem).2 hs
    exact mem_removeFirst_of_ne hne (a6 j h0 h1 hs)

end JoblibModel.ParallelProto
