import JoblibProofs.Lemmas.ParallelProto.Start
/-!
Between calls (`Idle`), and `callStart`: the completions delivered at `backend.configure()` all belong to earlier
calls (their call id is smaller than the id just drawn), so they are no-ops; then the invariant is established.
-/
namespace JoblibModel.ParallelProto

/-- All parked batches belong to other calls than the current one. -/
def AllStale (s : St) : Prop := ∀ i ∈ s.parked, (getTrk s i).callId ≠ s.callId

/-- Every completion the backend can deliver now is a no-op on the `Parallel` object: the call is aborting (the
callback returns at its abort guard), or every parked batch belongs to another call (call-id guard). -/
def Quiet (s : St) : Prop := s.aborting = true ∨ AllStale s

/-- No call is in progress on the `Parallel` object (state at creation, or after a call has ended): not running, no
job queue, and whatever is still parked at the backend can only complete as a no-op. -/
structure Idle (s : St) : Prop where
  running : s.running = false
  jobs : s.jobs = []
  jobsSet : s.jobsSet = []
  callId_le : ∀ i, (getTrk s i).callId ≤ s.callCtr
  parked_lt : ∀ i ∈ s.parked, i < s.trk.length
  parked_nodup : s.parked.Nodup
  quiet : Quiet s

/-- Only the backend's bookkeeping moved (some parked batches were completed without any effect). -/
def StaleRel (s s' : St) : Prop :=
  ∃ lg pk sc ib, s' = { s with log := lg, parked := pk, sched := sc, inCb := ib } ∧
    pk.Sublist s.parked ∧ sc.length ≤ s.sched.length

theorem StaleRel.refl (s : St) : StaleRel s s :=
  ⟨s.log, s.parked, s.sched, s.inCb, rfl, List.Sublist.refl _, Nat.le_refl _⟩

theorem StaleRel.trans {a b d : St} (h1 : StaleRel a b) (h2 : StaleRel b d) : StaleRel a d := by
  obtain ⟨lg1, pk1, sc1, ib1, e1, p1, q1⟩ := h1
  obtain ⟨lg2, pk2, sc2, ib2, e2, p2, q2⟩ := h2
  subst e1
  subst e2
  exact ⟨lg2, pk2, sc2, ib2, rfl, p2.trans p1, Nat.le_trans q2 q1⟩

theorem StaleRel.allStale {s s' : St} (h : StaleRel s s') (hs : AllStale s) : AllStale s' := by
  obtain ⟨lg, pk, sc, ib, e, hsub, _⟩ := h
  subst e
  exact fun i hi => hs i (hsub.subset hi)

theorem StaleRel.quiet {s s' : St} (h : StaleRel s s') (hq : Quiet s) : Quiet s' := by
  rcases hq with hq | hq
  · left
    obtain ⟨lg, pk, sc, ib, e, _, _⟩ := h
    subst e; exact hq
  · exact Or.inr (h.allStale hq)

theorem StaleRel.idle {s s' : St} (h : StaleRel s s') (hi : Idle s) : Idle s' := by
  have hq := h.quiet hi.quiet
  obtain ⟨lg, pk, sc, ib, e, hsub, _⟩ := h
  subst e
  exact ⟨hi.running, hi.jobs, hi.jobsSet, hi.callId_le, fun i hm => hi.parked_lt i (hsub.subset hm),
    hi.parked_nodup.sublist hsub, hq⟩

/-- A completion delivered while every possible completion is a no-op (`Quiet`). -/
theorem deliver_quiet (c : Cfg) (k : Nat) {s : St} (hq : Quiet s) : StaleRel s (deliver c k s) := by
  unfold deliver
  cases hk : s.parked[k]? with
  | none => exact StaleRel.refl s
  | some i =>
    simp only
    obtain ⟨lg, hex, _, _⟩ := execBatch_spec (getTrk { s with parked := s.parked.eraseIdx k } i).items
      (ev { s with parked := s.parked.eraseIdx k } ("complete " ++ idsStr (getTrk { s with parked := s.parked.eraseIdx k } i).items))
    generalize hres : execBatch (ev { s with parked := s.parked.eraseIdx k } ("complete " ++ idsStr (getTrk { s with parked := s.parked.eraseIdx k } i).items)) (getTrk { s with parked := s.parked.eraseIdx k } i).items = res at hex
    obtain ⟨s3, failed⟩ := res
    simp only at hex ⊢
    simp only [ev] at hex
    have hno : callback c { s3 with inCb := true } i failed = { s3 with inCb := true } := by
      rcases hq with hq | hq
      · exact aborting_callback_noop c _ i failed (by rw [hex]; exact hq)
      · exact stale_callback_noop c _ i failed (by rw [hex]; exact hq i (List.mem_of_getElem? hk))
    rw [hno]
    refine ⟨lg, s.parked.eraseIdx k, s.sched, false, by rw [hex], List.eraseIdx_sublist _ _, Nat.le_refl _⟩

theorem deliverAll_quiet (c : Cfg) : ∀ (l : List Nat) {s : St}, Quiet s → StaleRel s (deliverAll c s l) := by
  intro l
  induction l with
  | nil => intro s _; exact StaleRel.refl s
  | cons idx r ih =>
    intro s hs
    unfold deliverAll
    simp only
    by_cases hp : s.parked.length = 0
    · rw [if_pos hp]; exact ih hs
    · rw [if_neg hp]
      have h1 := deliver_quiet c (idx % s.parked.length) hs
      exact h1.trans (ih (h1.quiet hs))

/-- A hook point (not the retrieval loop's sleep) reached while every possible completion is a no-op: whatever the
schedule delivers, only the backend's bookkeeping (`parked`, the log, the schedule) changes. -/
theorem hook_nosleep_quiet (c : Cfg) {s : St} (hs : Quiet s) : StaleRel s (hook c false s) := by
  unfold hook
  cases hsch : s.sched with
  | nil => simp only [Bool.false_eq_true, if_false]; exact StaleRel.refl s
  | cons entry rest =>
    simp only [Bool.false_eq_true, if_false]
    have h0 : StaleRel s { s with sched := rest } :=
      ⟨s.log, s.parked, rest, s.inCb, rfl, List.Sublist.refl _, by rw [hsch]; simp⟩
    exact h0.trans (deliverAll_quiet c entry (h0.quiet hs))

theorem deliver_stale (c : Cfg) (k : Nat) {s : St} (hs : AllStale s) : StaleRel s (deliver c k s) :=
  deliver_quiet c k (Or.inr hs)

theorem hook_nosleep_stale (c : Cfg) {s : St} (hs : AllStale s) : StaleRel s (hook c false s) :=
  hook_nosleep_quiet c (Or.inr hs)

/-- BETWEEN CALLS. At the hook point between two calls (and after the last one) the object is idle: completions of
batches of earlier calls that arrive there — trackers of older calls, or of the call that just ended (which is
aborting if anything of it is still parked) — change nothing but the backend's bookkeeping, and the object stays
idle. -/
theorem between_calls_noop (c : Cfg) {s : St} (hi : Idle s) :
    StaleRel s (hook c false s) ∧ Idle (hook c false s) :=
  ⟨hook_nosleep_quiet c hi.quiet, (hook_nosleep_quiet c hi.quiet).idle hi⟩

/-- The state `callStart` hands to `_start`. -/
structure Fresh (c : Cfg) (base : Nat) (spec : CallSpec) (s sF : St) : Prop where
  inv : Inv c s.trk.length { sF with iterating := false }
  invB : InvB c s.trk.length { sF with iterating := false }
  invU : InvU s.trk.length { sF with iterating := false }
  base : sF.base = base
  spec : sF.spec = spec
  failIds : sF.failIds = s.failIds
  callId : sF.callId = s.callCtr + 1
  callCtr : sF.callCtr = s.callCtr + 1
  trk : sF.trk = s.trk
  parked : sF.parked.Sublist s.parked
  sched : sF.sched.length ≤ s.sched.length
  hung : sF.hung = s.hung
  now : sF.now = s.now
  managed : sF.managed = s.managed
  running : sF.running = true
  calling : sF.calling = true
  zero : sF.srcPos = 0 ∧ sF.ready = [] ∧ sF.jobs = [] ∧ sF.jobsSet = [] ∧ sF.nbConsumed = 0 ∧
    sF.nCompleted = 0 ∧ sF.nDispTasks = 0 ∧ sF.aborting = false ∧ sF.srcDead = false ∧ sF.exception = false
  mode : (c.pdMode = 1 → sF.origAlive = false ∧ sF.preLeft = none) ∧
    (c.pdMode ≠ 1 → sF.origAlive = true ∧ sF.preLeft = some c.pd)

theorem callStart_running (c : Cfg) (fuel base : Nat) (spec : CallSpec) (s : St) (h : s.running = true) :
    callStart c fuel base spec s = (s, some .runtime) := by
  unfold callStart; rw [if_pos h]

/-- `_reset_run_tracking` (with the call id drawn in the same critical section). -/
def resetState (s : St) : St :=
  { s with running := true, callCtr := s.callCtr + 1, callId := s.callCtr + 1, nDispBatches := 0, nDispTasks := 0, nCompleted := 0, nbConsumed := 0, exception := false, aborting := false, aborted := false }

/-- `backend.configure()` when the object is not used as a context manager (a hook point). -/
def configured (c : Cfg) (s : St) : St := if !s.managed then hook c false (ev s "configure") else s

/-- The set-up in `__call__` between `configure` and `_start`. -/
def freshState (c : Cfg) (base : Nat) (spec : CallSpec) (s : St) : St :=
  let s := { s with ready := [] }
  let s := ev s "start_call"
  let s := { s with calling := true, base := base, spec := spec, srcPos := 0, srcDead := false }
  if c.pdMode == 1 then { s with origAlive := false, preLeft := none }
  else { s with origAlive := true, preLeft := some c.pd }

theorem callStart_eq (c : Cfg) (fuel base : Nat) (spec : CallSpec) (s : St) :
    callStart c fuel base spec s =
      if s.running then (s, some .runtime)
      else if (configured c (resetState s)).hung then (configured c (resetState s), none)
      else (start c fuel (freshState c base spec (configured c (resetState s))), none) := rfl

theorem configured_stale (c : Cfg) {s : St} (hs : AllStale s) : StaleRel s (configured c s) := by
  unfold configured
  split
  · have h0 : StaleRel s (ev s "configure") := ⟨_, _, _, _, rfl, List.Sublist.refl _, Nat.le_refl _⟩
    exact h0.trans (hook_nosleep_stale c (h0.allStale hs))
  · exact StaleRel.refl s

theorem callStart_fresh (c : Cfg) (fuel base : Nat) (spec : CallSpec) {s : St} (hi : Idle s)
    (hh : s.hung = false) :
    ∃ sF, callStart c fuel base spec s = (start c fuel sF, none) ∧ Fresh c base spec s sF := by
  rw [callStart_eq, if_neg (by simp [hi.running])]
  have hstale : AllStale (resetState s) := by
    intro i _
    have := hi.callId_le i
    show (getTrk s i).callId ≠ s.callCtr + 1
    omega
  obtain ⟨lg, pk, sc, ib, eC, hpk, hsc⟩ := configured_stale c hstale
  rw [eC]
  rw [if_neg (by simp [resetState, hh])]
  refine ⟨_, rfl, ?_⟩
  have hpl : ∀ i ∈ pk, i < s.trk.length := fun i hi' => hi.parked_lt i (hpk.subset hi')
  have hpn : pk.Nodup := hi.parked_nodup.sublist hpk
  unfold freshState
  simp only [resetState, ev]
  by_cases hm : (c.pdMode == 1) = true
  · have hm' : c.pdMode = 1 := by simpa using hm
    simp only [hm, if_true]
    have hUF : InvU s.trk.length { ({ s with log := "start_call" :: lg, sched := sc, parked := pk, inCb := ib, running := true, callCtr := s.callCtr + 1, callId := s.callCtr + 1, nDispBatches := 0, nDispTasks := 0, nCompleted := 0, nbConsumed := 0, exception := false, aborting := false, aborted := false, ready := [], calling := true, base := base, spec := spec, srcPos := 0, srcDead := false, origAlive := false, preLeft := none } : St) with iterating := false } := by
      refine ⟨by simp [hi.jobs], by intro i h; simp [hi.jobs] at h, by simp [hi.jobsSet],
        by intro i h; simp [hi.jobsSet] at h, by intro i h; simp [hi.jobsSet] at h, ?_⟩
      intro i h0 h1; exact absurd h1 (by show ¬ i < s.trk.length; omega)
    refine ⟨⟨?_, ?_, ?_, ?_⟩, ?_, hUF, rfl, rfl, rfl, rfl, rfl, rfl, hpk, hsc, rfl, rfl, rfl, rfl, rfl,
      ⟨rfl, rfl, hi.jobs, hi.jobsSet, rfl, rfl, rfl, rfl, rfl, rfl⟩, ⟨fun _ => ⟨rfl, rfl⟩, fun h => absurd hm' h⟩⟩
    rotate_left 4
    · refine ⟨fun i h0 h1 => absurd h1 (by show ¬ i < s.trk.length; omega), by intro b h; simp at h, by simp, ?_⟩
      intro h; exact absurd hm' h
    · constructor
      · exact Nat.le_refl _
      · show 0 < s.callCtr + 1; omega
      · intro i _; have := hi.callId_le i; show (getTrk s i).callId < s.callCtr + 1; omega
      · intro i h0 h1; exact absurd h1 (by show ¬ i < s.trk.length; omega)
      · exact hpl
      · exact hpn
      · simp
      · intro _ i h0 h1; exact absurd h1 (by show ¬ i < s.trk.length; omega)
      · intro i h0 h1; exact absurd h1 (by show ¬ i < s.trk.length; omega)
      · intro _ i h0 h1; exact absurd h1 (by show ¬ i < s.trk.length; omega)
      · rfl
      · intro h; simp at h
      · intro i h; simp [hi.jobs] at h
      · intro i h; simp [hi.jobs] at h
      · intro _; exact ⟨s.trk.length, Nat.le_refl _, Nat.le_refl _, by simp [hi.jobs], fun i h0 h1 => by omega⟩
    · constructor
      · show 0 ≤ spec.n; omega
      · intro h; show ((0 : Nat) : Int) ≤ spec.iterfail; simpa using h
      · intro _ h; simp at h
      · intro _; simp [dispItems, own]
      · intro b h; simp at h
      · intro b h; simp at h
      · intro i h0 h1; exact absurd h1 (by show ¬ i < s.trk.length; omega)
      · intro _; simp [dispItems, own]
      · intro _; simp [own, pendSum]
    · constructor
      · intro h; simp at h
      · intro h; simp at h
      · intro _; rfl
      · intro h; exact absurd hm' h
    · intro _ h; simp at h
  · have hm' : c.pdMode ≠ 1 := by simpa using hm
    simp only [hm, Bool.false_eq_true, if_false]
    have hUF : InvU s.trk.length { ({ s with log := "start_call" :: lg, sched := sc, parked := pk, inCb := ib, running := true, callCtr := s.callCtr + 1, callId := s.callCtr + 1, nDispBatches := 0, nDispTasks := 0, nCompleted := 0, nbConsumed := 0, exception := false, aborting := false, aborted := false, ready := [], calling := true, base := base, spec := spec, srcPos := 0, srcDead := false, origAlive := true, preLeft := some c.pd } : St) with iterating := false } := by
      refine ⟨by simp [hi.jobs], by intro i h; simp [hi.jobs] at h, by simp [hi.jobsSet],
        by intro i h; simp [hi.jobsSet] at h, by intro i h; simp [hi.jobsSet] at h, ?_⟩
      intro i h0 h1; exact absurd h1 (by show ¬ i < s.trk.length; omega)
    refine ⟨⟨?_, ?_, ?_, ?_⟩, ?_, hUF, rfl, rfl, rfl, rfl, rfl, rfl, hpk, hsc, rfl, rfl, rfl, rfl, rfl,
      ⟨rfl, rfl, hi.jobs, hi.jobsSet, rfl, rfl, rfl, rfl, rfl, rfl⟩, ⟨fun h => absurd h hm', fun _ => ⟨rfl, rfl⟩⟩⟩
    rotate_left 4
    · refine ⟨fun i h0 h1 => absurd h1 (by show ¬ i < s.trk.length; omega), by intro b h; simp at h, by simp, ?_⟩
      intro _; exact ⟨c.pd, rfl, by simp⟩
    · constructor
      · exact Nat.le_refl _
      · show 0 < s.callCtr + 1; omega
      · intro i _; have := hi.callId_le i; show (getTrk s i).callId < s.callCtr + 1; omega
      · intro i h0 h1; exact absurd h1 (by show ¬ i < s.trk.length; omega)
      · exact hpl
      · exact hpn
      · simp
      · intro _ i h0 h1; exact absurd h1 (by show ¬ i < s.trk.length; omega)
      · intro i h0 h1; exact absurd h1 (by show ¬ i < s.trk.length; omega)
      · intro _ i h0 h1; exact absurd h1 (by show ¬ i < s.trk.length; omega)
      · rfl
      · intro h; simp at h
      · intro i h; simp [hi.jobs] at h
      · intro i h; simp [hi.jobs] at h
      · intro _; exact ⟨s.trk.length, Nat.le_refl _, Nat.le_refl _, by simp [hi.jobs], fun i h0 h1 => by omega⟩
    · constructor
      · show 0 ≤ spec.n; omega
      · intro h; show ((0 : Nat) : Int) ≤ spec.iterfail; simpa using h
      · intro _ h; simp at h
      · intro _; simp [dispItems, own]
      · intro b h; simp at h
      · intro b h; simp at h
      · intro i h0 h1; exact absurd h1 (by show ¬ i < s.trk.length; omega)
      · intro _; simp [dispItems, own]
      · intro _; simp [own, pendSum]
    · constructor
      · intro h; simp at h
      · intro _; exact hm'
      · intro h; exact absurd h hm'
      · intro _ h; simp at h
    · intro _ h; simp at h

end JoblibModel.ParallelProto
