import JoblibProofs.Lemmas.ParallelProto.StepsU
/-!
`dispatchLocked` (the locked region of `dispatch_one_batch`) preserves the invariant; what else it guarantees.
-/
namespace JoblibModel.ParallelProto

/-- Fields that no step inside a call changes (until `finally`), and monotonicity of the abort flag. -/
structure Frame (s s' : St) : Prop where
  base : s'.base = s.base
  spec : s'.spec = s.spec
  callId : s'.callId = s.callId
  callCtr : s'.callCtr = s.callCtr
  failIds : s'.failIds = s.failIds
  managed : s'.managed = s.managed
  running : s'.running = s.running
  calling : s'.calling = s.calling
  abort_mono : s.aborting = true → s'.aborting = true

theorem Frame.refl (s : St) : Frame s s := ⟨rfl, rfl, rfl, rfl, rfl, rfl, rfl, rfl, id⟩

theorem Frame.trans {a b d : St} (h1 : Frame a b) (h2 : Frame b d) : Frame a d :=
  ⟨h2.base.trans h1.base, h2.spec.trans h1.spec, h2.callId.trans h1.callId, h2.callCtr.trans h1.callCtr,
   h2.failIds.trans h1.failIds, h2.managed.trans h1.managed, h2.running.trans h1.running,
   h2.calling.trans h1.calling, fun h => h2.abort_mono (h1.abort_mono h)⟩

/-- Batches sliced but not dispatched, plus input not yet sliced. -/
def work (s : St) : Nat := s.ready.length + (s.spec.n - s.srcPos)

/-- The trackers the retrieval loop has not popped yet. -/
def unpopped (c : Cfg) (s : St) : List Nat := if ordered c then s.jobs else s.jobsSet

/-- Termination measure of the call (without the schedule). -/
def meas (c : Cfg) (s : St) : Nat := (unpopped c s).length + s.parked.length + 2 * work s

/-- What the call is still going to output, in order (ordered modes): the batches not yet popped, then the
look-ahead queue, then the rest of the input. -/
def restS (s : St) : List Nat :=
  (s.jobs.map (fun i => (getTrk s i).items)).flatten ++ s.ready.flatten ++
    List.range' (s.base + s.srcPos) (s.spec.n - s.srcPos)

/-- Everything `dispatchLocked` guarantees from a non-aborting state satisfying the invariant. -/
structure DLSpec (c : Cfg) (t0 : Nat) (fo : Bool) (s s' : St) (more : Bool) : Prop where
  T : InvT c t0 none s'
  S : InvS c t0 s'
  L : InvL c t0 s'
  iterp : IterPend t0 s → IterPend t0 s'
  frame : Frame s s'
  old : ∀ i, i < s.trk.length → getTrk s' i = getTrk s i
  len : s.trk.length ≤ s'.trk.length
  exh : more = false → s'.aborting = false →
    s'.ready = [] ∧ (s'.srcDead = true ∨ (fo = false ∧ s'.preLeft = some 0))
  pend : more = true → s'.aborting = false →
    ∃ i, t0 ≤ i ∧ i < s'.trk.length ∧ (getTrk s' i).status = .pending
  meas_le : s'.aborting = false → meas c s' ≤ meas c s
  work_lt : more = true → s'.aborting = false → work s' < work s
  restS : ordered c = true → s'.aborting = false → restS s' = restS s
  same : s'.sched = s.sched ∧ s'.now = s.now ∧ s'.hung = s.hung ∧ s'.nCompleted = s.nCompleted ∧
    s'.iterating = s.iterating ∧ s'.origAlive = s.origAlive ∧ s'.idle = s.idle ∧ s'.bsI = s.bsI ∧
    s'.inCb = s.inCb ∧ s'.nbConsumed = s.nbConsumed ∧ s'.aborted = s.aborted
  more_abort : more = false → s'.aborting = false
  jobs_pre : ordered c = true → ∃ l, s'.jobs = s.jobs ++ l
  exh_stable : s.ready = [] → s.srcDead = true → s'.ready = [] ∧ s'.srcDead = true ∧ more = false
  pos_le : s.srcPos ≤ s'.srcPos
  work_le : work s' ≤ work s
  pre_orig : fo = true → s'.preLeft = s.preLeft
  pre_nomore : more = false → s'.preLeft = s.preLeft
  rlen : ordered c = true →
    (JoblibModel.ParallelProto.restS s').length ≤ (JoblibModel.ParallelProto.restS s).length

theorem map_items_push {s s' : St} {t : Tracker} (h : s'.trk = s.trk ++ [t]) {l : List Nat}
    (hl : ∀ i ∈ l, i < s.trk.length) :
    l.map (fun i => (getTrk s' i).items) = l.map (fun i => (getTrk s i).items) := by
  apply List.map_congr_left
  intro i hi
  rw [getTrk_push h]; simp [hl i hi]

/-- Common part of the two dispatching cases (from the queue, `m = 0`; after slicing, `m > 0`). -/
theorem dlspec_push {c : Cfg} {t0 : Nat} {fo : Bool} {s s' : St}
    (hT : InvT c t0 none s) (hS : InvS c t0 s) (hL : InvL c t0 s)
    {tasks : List Nat} {rest : List (List Nat)} {m : Nat}
    (hna : s.aborting = false) (htasks : tasks ≠ [])
    (hsplit : tasks ++ rest.flatten = s.ready.flatten ++ List.range' (s.base + s.srcPos) m)
    (hrest : ∀ b ∈ rest, b ≠ [])
    (hwork : rest.length + 1 + (s.spec.n - (s.srcPos + m)) ≤ s.ready.length + (s.spec.n - s.srcPos))
    (hle : s.srcPos + m ≤ s.spec.n)
    (hiter : 0 ≤ s.spec.iterfail → ((s.srcPos + m : Nat) : Int) ≤ s.spec.iterfail)
    (hdead : s'.srcDead = true → s.srcPos + m = s.spec.n ∧ ((s.srcPos + m : Nat) : Int) ≠ s.spec.iterfail)
    (hexh : c.pdMode ≠ 1 → s.origAlive = false → False)
    (hnexh : s.ready = [] → s.srcDead = true → False)
    (hpre : s.preLeft = none → s'.preLeft = none)
    (hpreo : fo = true → s'.preLeft = s.preLeft)
    (htrk : s'.trk = s.trk ++ [newTrk s tasks]) (hready : s'.ready = rest)
    (hjobs : s'.jobs = if ordered c then s.jobs ++ [s.trk.length] else s.jobs)
    (hjobsSet : s'.jobsSet = if ordered c then s.jobsSet else s.jobsSet ++ [s.trk.length])
    (hparked : s'.parked = s.parked ++ [s.trk.length])
    (hpos : s'.srcPos = s.srcPos + m) (hab : s'.aborting = s.aborting) (hexc : s'.exception = s.exception)
    (hnd : s'.nDispTasks = s.nDispTasks + tasks.length)
    (hframe : Frame s s')
    (hsame : s'.sched = s.sched ∧ s'.now = s.now ∧ s'.hung = s.hung ∧ s'.nCompleted = s.nCompleted ∧
      s'.iterating = s.iterating ∧ s'.origAlive = s.origAlive ∧ s'.idle = s.idle ∧ s'.bsI = s.bsI ∧
      s'.inCb = s.inCb ∧ s'.nbConsumed = s.nbConsumed ∧ s'.aborted = s.aborted) :
    DLSpec c t0 fo s s' true := by
  have hg := getTrk_push htrk
  have hlen : s'.trk.length = s.trk.length + 1 := by simp [htrk]
  have hT' := InvT_push hT htasks hna htrk hjobs hparked hframe.callId hab hexc hframe.failIds hframe.base
    hframe.spec
  have hS' := InvS_dispatch hS hT.t0_le hna hsplit hrest hle hiter hdead htrk hready hpos hnd hsame.2.2.2.1
    hframe.base hframe.spec
  have hL' : InvL c t0 s' := InvL_of hL (by rw [hsame.2.2.2.2.1]; exact id) hsame.2.2.2.2.2.1 hpre
    (by intro h1 h2 _; rw [hsame.2.2.2.2.2.1] at h2; exact (hexh h1 h2).elim)
  have hP' : IterPend t0 s → IterPend t0 s' := fun hP =>
    IterPend_of hP (by rw [hab]; exact id) (by rw [hsame.2.2.2.2.1]; exact id)
    (by omega) (by intro _ i hi; rw [hg]; simp [hi])
  refine ⟨hT', hS', hL', hP', hframe, fun i hi => by rw [hg]; simp [hi], by omega, by simp, ?_, ?_, ?_, ?_,
    hsame, by simp, fun ho => ⟨[s.trk.length], by rw [hjobs]; simp [ho]⟩, fun h1 h2 => (hnexh h1 h2).elim,
    by rw [hpos]; omega, by simp only [work, hready, hpos, hframe.spec]; omega, hpreo, by simp, ?_⟩
  · intro _ _
    exact ⟨s.trk.length, hT.t0_le, by omega, by rw [hg]; simp [newTrk]⟩
  · intro _
    simp only [meas, unpopped, work, hjobs, hjobsSet, hparked, hready, hpos, hframe.spec]
    by_cases ho : ordered c = true <;> simp [ho] <;> omega
  · intro _ _
    simp only [work, hready, hpos, hframe.spec]; omega
  · intro ho _
    simp only [restS, hjobs, ho, if_true, hready, hpos, hframe.base, hframe.spec, List.map_append,
      List.flatten_append, List.map_cons, List.map_nil, List.flatten_cons, List.flatten_nil, List.append_nil]
    rw [map_items_push htrk (fun i hi => (hT.jobs_own i hi).2)]
    have : (getTrk s' s.trk.length).items = tasks := by rw [hg]; simp [newTrk]
    rw [this]
    have hr : List.range' (s.base + s.srcPos) (s.spec.n - s.srcPos) =
        List.range' (s.base + s.srcPos) m ++ List.range' (s.base + (s.srcPos + m)) (s.spec.n - (s.srcPos + m)) := by
      rw [show s.base + (s.srcPos + m) = s.base + s.srcPos + 1 * m by omega, List.range'_append]
      congr 1; omega
    rw [hr]
    simp only [List.append_assoc]
    rw [← List.append_assoc tasks, hsplit]
    simp [List.append_assoc]
  · intro ho
    apply Nat.le_of_eq
    congr 1
    simp only [restS, hjobs, ho, if_true, hready, hpos, hframe.base, hframe.spec, List.map_append,
      List.flatten_append, List.map_cons, List.map_nil, List.flatten_cons, List.flatten_nil, List.append_nil]
    rw [map_items_push htrk (fun i hi => (hT.jobs_own i hi).2)]
    have : (getTrk s' s.trk.length).items = tasks := by rw [hg]; simp [newTrk]
    rw [this]
    have hr : List.range' (s.base + s.srcPos) (s.spec.n - s.srcPos) =
        List.range' (s.base + s.srcPos) m ++ List.range' (s.base + (s.srcPos + m)) (s.spec.n - (s.srcPos + m)) := by
      rw [show s.base + (s.srcPos + m) = s.base + s.srcPos + 1 * m by omega, List.range'_append]
      congr 1; omega
    rw [hr]
    simp only [List.append_assoc]
    rw [← List.append_assoc tasks, hsplit]
    simp [List.append_assoc]

theorem length_le_flatten_length : ∀ {L : List (List Nat)}, (∀ b ∈ L, b ≠ []) → L.length ≤ L.flatten.length := by
  intro L
  induction L with
  | nil => simp
  | cons b bs ih =>
    intro h
    have h1 : b ≠ [] := h b (by simp)
    have h2 := ih (fun x hx => h x (by simp [hx]))
    have : 0 < b.length := List.length_pos_iff.mpr h1
    simp only [List.length_cons, List.flatten_cons, List.length_append]; omega

theorem set_append_last {α : Type} (l : List α) (t t' : α) : (l ++ [t]).set l.length t' = l ++ [t'] := by
  induction l with
  | nil => simp
  | cons x xs ih => simp [ih]

theorem restS_length (s : St) : (restS s).length =
    ((s.jobs.map (fun i => (getTrk s i).items)).flatten).length + s.ready.flatten.length +
      (s.spec.n - s.srcPos) := by
  simp only [restS, List.length_append, List.length_range']

theorem rlen_push_empty {s s' : St} {t : Tracker} (htrk : s'.trk = s.trk ++ [t]) (hti : t.items = [])
    (hjobs : s'.jobs = s.jobs ++ [s.trk.length]) (hown : ∀ i ∈ s.jobs, i < s.trk.length)
    (hready : s'.ready = s.ready) (hpos : s.srcPos ≤ s'.srcPos) (hspec : s'.spec = s.spec) :
    (restS s').length ≤ (restS s).length := by
  rw [restS_length, restS_length, hjobs, hready, hspec]
  simp only [List.map_append, List.flatten_append, List.map_cons, List.map_nil, List.flatten_cons,
    List.flatten_nil, List.append_nil, List.length_append]
  rw [map_items_push htrk hown]
  have : (getTrk s' s.trk.length).items = [] := by rw [getTrk_push htrk]; simp [hti]
  rw [this]
  simp only [List.length_nil]
  omega

/-- The case where the input iterable raised while being sliced. -/
theorem dlspec_raise {c : Cfg} {t0 : Nat} {fo : Bool} {s s1 : St} {bs m : Nat} {d : Bool} {pl : Option Nat}
    {k : Nat} (hT : InvT c t0 none s) (hS : InvS c t0 s) (hL : InvL c t0 s)
    (hps : PullSpec fo k s m d pl true)
    (htrk : s1.trk = s.trk ++ [errTrk s bs])
    (hjobs : (if ordered c then s1.jobs else s1.jobs ++ [s.trk.length]) = s.jobs ++ [s.trk.length])
    (hparked : s1.parked = s.parked) (hready : s1.ready = s.ready)
    (hpos : s1.srcPos = s.srcPos + m) (hpl : s1.preLeft = pl)
    (hframe : Frame s s1)
    (hsame : s1.sched = s.sched ∧ s1.now = s.now ∧ s1.hung = s.hung ∧ s1.nCompleted = s.nCompleted ∧
      s1.iterating = s.iterating ∧ s1.origAlive = s.origAlive ∧ s1.idle = s.idle ∧ s1.bsI = s.bsI ∧
      s1.inCb = s.inCb ∧ s1.nbConsumed = s.nbConsumed ∧ s1.aborted = s.aborted) :
    DLSpec c t0 fo s
      (registerOutcome c s1 s.trk.length .error (.exc (.iter (s.base + (s.srcPos + m))))) true := by
  have hpend : getTrk s1 s.trk.length = errTrk s bs := by rw [getTrk_push htrk]; simp
  rw [registerOutcome_error (by rw [hpend]; rfl), hpend]
  have hraised := hps.raised rfl
  have hleg : Legit c s (.iter (s.base + (s.srcPos + m))) := by
    simp only [Legit]; rw [← hraised.2]; omega
  have hmn := hps.le_n hS.src_le
  have htrk' : s1.trk.set s.trk.length { errTrk s bs with status := .error, result := .exc (.iter (s.base + (s.srcPos + m))) } =
      s.trk ++ [{ errTrk s bs with status := .error, result := .exc (.iter (s.base + (s.srcPos + m))) }] := by
    rw [htrk, set_append_last]
  have hT' := InvT_pushErr (s' := { s1 with trk := s1.trk.set s.trk.length { errTrk s bs with status := .error, result := .exc (.iter (s.base + (s.srcPos + m))) }, exception := true, aborting := true, jobs := if ordered c then s1.jobs else s1.jobs ++ [s.trk.length] })
    hT hleg htrk' hjobs hparked hframe.callId rfl rfl hframe.failIds hframe.base hframe.spec
  have hS' := InvS_aborted (s' := { s1 with trk := s1.trk.set s.trk.length { errTrk s bs with status := .error, result := .exc (.iter (s.base + (s.srcPos + m))) }, exception := true, aborting := true, jobs := if ordered c then s1.jobs else s1.jobs ++ [s.trk.length] })
    hS rfl (by show s1.srcPos ≤ _; rw [hpos]; exact hmn)
      (fun hi => by show (s1.srcPos : Int) ≤ _; rw [hpos]; exact hps.le_iter (hS.src_iter hi)) (by
        intro i hi hi'
        have hi'' : i < s.trk.length + 1 := by
          have : i < (s1.trk.set s.trk.length { errTrk s bs with status := .error, result := .exc (.iter (s.base + (s.srcPos + m))) }).length := hi'
          rw [htrk'] at this; simpa using this
        by_cases hlt : i < s.trk.length
        · left; refine ⟨hlt, ?_⟩
          rw [getTrk_push (s := s) htrk']; simp [hlt]
        · right
          have : i = s.trk.length := by omega
          rw [getTrk_push (s := s) htrk']; simp [this, errTrk]) hready hframe.base hframe.spec
  have hL' := InvL_of (s' := { s1 with trk := s1.trk.set s.trk.length { errTrk s bs with status := .error, result := .exc (.iter (s.base + (s.srcPos + m))) }, exception := true, aborting := true, jobs := if ordered c then s1.jobs else s1.jobs ++ [s.trk.length] })
    hL (by show s1.iterating = true → _; rw [hsame.2.2.2.2.1]; exact id) hsame.2.2.2.2.2.1
    (by intro hn; show s1.preLeft = none; rw [hpl]; exact hps.pl_none hn) (by intro _ _ h3; simp at h3)
  refine ⟨hT', hS', hL', fun _ => by intro h3; simp at h3,
    ⟨hframe.base, hframe.spec, hframe.callId, hframe.callCtr, hframe.failIds, hframe.managed, hframe.running,
      hframe.calling, fun _ => rfl⟩, ?_, ?_, by simp, by simp, by simp, by simp, by simp, hsame, by simp,
    fun ho => ⟨[s.trk.length], by show (if ordered c then s1.jobs else s1.jobs ++ [s.trk.length]) = _; rw [hjobs]⟩,
    fun _ h2 => by have := (hps.dead_mono h2).2.2; simp at this, ?_, ?_,
    fun hfo => by show s1.preLeft = _; rw [hpl]; exact hps.pl_orig hfo, by simp, ?_⟩
  · intro i hi
    rw [getTrk_push (s := s) htrk']; simp [hi]
  · show s.trk.length ≤ (s1.trk.set _ _).length
    rw [htrk']; simp
  · show s.srcPos ≤ s1.srcPos
    rw [hpos]; omega
  · show s1.ready.length + (s1.spec.n - s1.srcPos) ≤ s.ready.length + (s.spec.n - s.srcPos)
    rw [hready, hpos, hframe.spec]; omega
  · intro _
    exact rlen_push_empty (t := { errTrk s bs with status := .error, result := .exc (.iter (s.base + (s.srcPos + m))) })
      htrk' rfl hjobs (fun i hi => (hT.jobs_own i hi).2) hready (by show s.srcPos ≤ s1.srcPos; rw [hpos]; omega)
      hframe.spec

theorem dispatchLocked_dlspec {c : Cfg} (hc : CfgOK c) {t0 : Nat} {fo : Bool} {bs : Nat} {s : St}
    (hbs : 1 ≤ bs) (hT : InvT c t0 none s) (hS : InvS c t0 s) (hL : InvL c t0 s) (hna : s.aborting = false) :
    DLSpec c t0 fo s (dispatchLocked c fo bs s).1 (dispatchLocked c fo bs s).2 := by
  rcases dispatchLocked_spec c fo bs s hna hS.ready_ne with
    ⟨tasks, rest, hrd, he⟩ | ⟨hrd, lg, m, d, pl, r, hps, hcases⟩
  · -- from the look-ahead queue
    obtain ⟨lg, hd⟩ := dispatch_eq (c := c) (s := { s with ready := rest }) tasks hna
    rw [he, hd]
    have htn : tasks ≠ [] := hS.ready_ne tasks (by simp [hrd])
    refine dlspec_push (m := 0) (tasks := tasks) (rest := rest) hT hS hL hna htn (by simp [hrd])
      (fun b hb => hS.ready_ne b (by simp [hrd, hb])) (by simp [hrd]) hS.src_le
      (fun hi => hS.src_iter hi) (fun hd' => hS.dead hna hd') ?_ (fun h1 _ => by rw [hrd] at h1; simp at h1)
      (fun hp => hp) (fun _ => rfl) rfl rfl rfl rfl rfl rfl rfl rfl rfl
      ⟨rfl, rfl, rfl, rfl, rfl, rfl, rfl, rfl, id⟩ ⟨rfl, rfl, rfl, rfl, rfl, rfl, rfl, rfl, rfl, rfl, rfl⟩
    intro h1 h2
    have := (hL.orig_exh h1 h2 hna).1
    rw [hrd] at this; simp at this
  · rcases hcases with ⟨hr, hm, he⟩ | ⟨hr, hm, tasks, rest, htn, hrest, hsplit, _, he⟩ | ⟨hr, he⟩
    · -- nothing left to slice
      subst hr; subst hm
      rw [he]
      have hT' : InvT c t0 none { s with log := lg, srcPos := s.srcPos + 0, srcDead := d, preLeft := pl } :=
        InvT_frame hT rfl rfl rfl rfl rfl rfl rfl rfl rfl
      have hdn : d = true → s.srcPos = s.spec.n ∧ (s.srcPos : Int) ≠ s.spec.iterfail := by
        intro hd
        cases hsd : s.srcDead with
        | true => exact hS.dead hna hsd
        | false =>
          have := hps.dead_new rfl hd hsd
          have h2 := hS.src_le
          simp only [Nat.add_zero] at this
          exact ⟨by omega, this.2⟩
      have hS' : InvS c t0 { s with log := lg, srcPos := s.srcPos + 0, srcDead := d, preLeft := pl } :=
        InvS_src hS (fun _ hd => hdn hd) rfl rfl rfl rfl rfl rfl rfl rfl
      have hL' : InvL c t0 { s with log := lg, srcPos := s.srcPos + 0, srcDead := d, preLeft := pl } :=
        InvL_of hL id rfl hps.pl_none (by
          intro h1 h2 h3
          have := hL.orig_exh h1 h2 h3
          exact ⟨this.1, (hps.dead_mono this.2).1⟩)
      have hP' : IterPend t0 s →
          IterPend t0 { s with log := lg, srcPos := s.srcPos + 0, srcDead := d, preLeft := pl } :=
        fun hP => IterPend_of hP id id (Nat.le_refl _) (fun _ i _ => rfl)
      refine ⟨hT', hS', hL', hP', ⟨rfl, rfl, rfl, rfl, rfl, rfl, rfl, rfl, id⟩, fun i _ => rfl, Nat.le_refl _, ?_,
        by simp, fun _ => Nat.le_refl _, by simp, fun _ _ => rfl,
        ⟨rfl, rfl, rfl, rfl, rfl, rfl, rfl, rfl, rfl, rfl, rfl⟩, fun _ => hna, fun _ => ⟨[], by simp⟩,
        fun h1 h2 => ⟨h1, (hps.dead_mono h2).1, rfl⟩, Nat.le_refl _, Nat.le_refl _, hps.pl_orig, ?_,
        fun _ => Nat.le_refl _⟩
      · intro _ _
        refine ⟨hrd, ?_⟩
        have hk : 0 < bs * c.nj := Nat.mul_pos (by omega) (by have := hc.nj; omega)
        exact hps.short rfl hk
      · intro _
        show pl = s.preLeft
        cases hpl : s.preLeft with
        | none => exact hps.pl_none hpl
        | some q =>
          cases fo with
          | true => rw [hps.pl_orig rfl, hpl]
          | false => rw [(hps.pl_some rfl q hpl).2]; rfl
    · -- a fresh slice
      subst hr
      obtain ⟨lg2, hd⟩ := dispatch_eq (c := c)
        (s := { s with log := lg, srcPos := s.srcPos + m, srcDead := d, preLeft := pl, ready := rest }) tasks hna
      rw [he, hd]
      have hnd : s.srcDead = false := by
        cases hsd : s.srcDead with
        | true => have := (hps.dead_mono hsd).2.1; omega
        | false => rfl
      have hcnt : (tasks :: rest).length ≤ m := by
        have := length_le_flatten_length (L := tasks :: rest)
          (by intro b hb; simp only [List.mem_cons] at hb; rcases hb with hb | hb
              · subst hb; exact htn
              · exact hrest b hb)
        simp only [List.flatten_cons, hsplit, List.length_range'] at this
        exact this
      have hmn := hps.le_n hS.src_le
      refine dlspec_push (m := m) (tasks := tasks) (rest := rest) hT hS hL hna htn (by simp [hrd, hsplit])
        hrest (by simp only [List.length_cons] at hcnt; simp only [hrd, List.length_nil]; omega) hmn
        (fun hi => hps.le_iter (hS.src_iter hi)) ?_ ?_ (fun _ h2 => by rw [hnd] at h2; simp at h2)
        hps.pl_none hps.pl_orig rfl rfl rfl rfl rfl rfl rfl rfl rfl
        ⟨rfl, rfl, rfl, rfl, rfl, rfl, rfl, rfl, id⟩ ⟨rfl, rfl, rfl, rfl, rfl, rfl, rfl, rfl, rfl, rfl, rfl⟩
      · intro hd'
        have := hps.dead_new rfl hd' hnd
        exact ⟨by omega, this.2⟩
      · intro h1 h2
        have := (hL.orig_exh h1 h2 hna).2
        rw [hnd] at this; simp at this
    · -- the iterable raised
      subst hr
      rw [he]
      exact dlspec_raise hT hS hL hps rfl
        (by by_cases ho : ordered c = true <;> simp [ho])
        rfl rfl rfl rfl ⟨rfl, rfl, rfl, rfl, rfl, rfl, rfl, rfl, fun h => h⟩
        ⟨rfl, rfl, rfl, rfl, rfl, rfl, rfl, rfl, rfl, rfl, rfl⟩

/-! ### size bounds (C09) through `dispatchLocked` -/

theorem ownParked_append (t0 : Nat) (s s' : St) (i : Nat) (h : s'.parked = s.parked ++ [i]) :
    ownParked t0 s' ≤ ownParked t0 s + 1 ∧ (t0 ≤ i → ownParked t0 s' = ownParked t0 s + 1) := by
  simp only [ownParked, h, List.filter_append, List.length_append]
  by_cases hi : t0 ≤ i <;> simp [hi]

theorem flatten_length_cons_le (b : List Nat) (bs : List (List Nat)) :
    bs.flatten.length ≤ (b :: bs).flatten.length := by simp

theorem dispatchLocked_B {c : Cfg} {t0 : Nat} {fo : Bool} {bs : Nat} {s : St}
    (hbs : bs ≤ bmax c) (hS : InvS c t0 s) (hna : s.aborting = false)
    (hB : InvB c t0 s)
    (hslack : c.pdMode ≠ 1 → fo = true → ∃ r, s.preLeft = some r ∧
      s.srcPos + r + c.nj * bmax c ≤ c.pd + s.nCompleted * (c.nj * bmax c)) :
    InvB c t0 (dispatchLocked c fo bs s).1 ∧
    ownParked t0 (dispatchLocked c fo bs s).1 ≤ ownParked t0 s + 1 := by
  have hmb : max 1 bs ≤ bmax c := by have := one_le_bmax c; omega
  have hkb : bs * c.nj ≤ c.nj * bmax c := by rw [Nat.mul_comm]; exact Nat.mul_le_mul_left _ hbs
  -- the budget after slicing `m` items
  have hbud : ∀ (m : Nat) (d : Bool) (pl : Option Nat) (r : Bool), PullSpec fo (bs * c.nj) s m d pl r →
      c.pdMode ≠ 1 → ∃ q, pl = some q ∧ s.srcPos + m + q ≤ c.pd + s.nCompleted * (c.nj * bmax c) := by
    intro m d pl r hps hm
    obtain ⟨q, hq, hqb⟩ := hB.budget hm
    cases hfo : fo with
    | true =>
      obtain ⟨q', hq', hqb'⟩ := hslack hm hfo
      rw [hq] at hq'; simp only [Option.some.injEq] at hq'; subst hq'
      refine ⟨q, by rw [hps.pl_orig hfo, hq], ?_⟩
      have := hps.m_le
      omega
    | false =>
      obtain ⟨h1, h2⟩ := hps.pl_some hfo q hq
      exact ⟨q - m, h2, by omega⟩
  rcases dispatchLocked_spec c fo bs s hna hS.ready_ne with
    ⟨tasks, rest, hrd, he⟩ | ⟨hrd, lg, m, d, pl, r, hps, hcases⟩
  · obtain ⟨lg, hd⟩ := dispatch_eq (c := c) (s := { s with ready := rest }) tasks hna
    rw [he, hd]
    have hg := getTrk_push (s := s) (s' := { s with ready := rest, log := lg, nDispTasks := s.nDispTasks + tasks.length, nDispBatches := s.nDispBatches + 1, trk := s.trk ++ [newTrk { s with ready := rest } tasks], jobs := if ordered c then s.jobs ++ [s.trk.length] else s.jobs, jobsSet := if ordered c then s.jobsSet else s.jobsSet ++ [s.trk.length], parked := s.parked ++ [s.trk.length] }) rfl
    refine ⟨⟨?_, ?_, ?_, hB.budget⟩, (ownParked_append t0 s _ s.trk.length rfl).1⟩
    · intro i hi hi'
      simp only [List.length_append, List.length_cons, List.length_nil] at hi'
      rw [hg]
      by_cases hlt : i < s.trk.length
      · simp only [hlt, if_true]; exact hB.items_le i hi hlt
      · have : i = s.trk.length := by omega
        subst this
        simp only [Nat.lt_irrefl, if_false, if_true, newTrk]
        exact hB.ready_le tasks (by rw [hrd]; simp)
    · intro b hb; exact hB.ready_le b (by rw [hrd]; simp [hb])
    · have := hB.ready_tot
      rw [hrd] at this
      exact Nat.le_trans (flatten_length_cons_le tasks rest) this
  · rcases hcases with ⟨hr, hm, he⟩ | ⟨hr, hm, tasks, rest, htn, hrest, hsplit, hlens, he⟩ | ⟨hr, he⟩
    · subst hr; subst hm
      rw [he]
      refine ⟨⟨hB.items_le, hB.ready_le, hB.ready_tot, ?_⟩, Nat.le_succ _⟩
      intro hmode
      obtain ⟨q, hq, hqb⟩ := hbud 0 d pl false hps hmode
      exact ⟨q, hq, hqb⟩
    · subst hr
      obtain ⟨lg2, hd⟩ := dispatch_eq (c := c)
        (s := { s with log := lg, srcPos := s.srcPos + m, srcDead := d, preLeft := pl, ready := rest }) tasks hna
      rw [he, hd]
      have hg := getTrk_push (s := s) (s' := { s with log := lg2, srcPos := s.srcPos + m, srcDead := d, preLeft := pl, ready := rest, nDispTasks := s.nDispTasks + tasks.length, nDispBatches := s.nDispBatches + 1, trk := s.trk ++ [newTrk { s with log := lg, srcPos := s.srcPos + m, srcDead := d, preLeft := pl, ready := rest } tasks], jobs := if ordered c then s.jobs ++ [s.trk.length] else s.jobs, jobsSet := if ordered c then s.jobsSet else s.jobsSet ++ [s.trk.length], parked := s.parked ++ [s.trk.length] }) rfl
      refine ⟨⟨?_, ?_, ?_, ?_⟩, (ownParked_append t0 s _ s.trk.length rfl).1⟩
      · intro i hi hi'
        simp only [List.length_append, List.length_cons, List.length_nil] at hi'
        rw [hg]
        by_cases hlt : i < s.trk.length
        · simp only [hlt, if_true]; exact hB.items_le i hi hlt
        · have : i = s.trk.length := by omega
          subst this
          simp only [Nat.lt_irrefl, if_false, if_true, newTrk]
          exact Nat.le_trans (hlens tasks (by simp)) hmb
      · intro b hb; exact Nat.le_trans (hlens b (by simp [hb])) hmb
      · have h1 : rest.flatten.length ≤ (tasks ++ rest.flatten).length := by simp
        rw [hsplit] at h1
        simp only [List.length_range'] at h1
        have := hps.m_le
        show rest.flatten.length ≤ _
        omega
      · intro hmode
        exact hbud m d pl false hps hmode
    · subst hr
      rw [he]
      have hpend : getTrk { s with log := lg, srcPos := s.srcPos + m, srcDead := d, preLeft := pl, trk := s.trk ++ [errTrk s bs], jobs := if ordered c then s.jobs ++ [s.trk.length] else s.jobs, jobsSet := if ordered c then s.jobsSet else s.jobsSet ++ [s.trk.length] } s.trk.length = errTrk s bs := by
        rw [getTrk_push (s := s) rfl]; simp
      rw [registerOutcome_error (by rw [hpend]; rfl), hpend]
      refine ⟨⟨?_, hB.ready_le, hB.ready_tot, ?_⟩, Nat.le_succ _⟩
      · intro i hi hi'
        simp only [List.length_set, List.length_append, List.length_cons, List.length_nil] at hi'
        rw [getTrk_set (s := { s with log := lg, srcPos := s.srcPos + m, srcDead := d, preLeft := pl, trk := s.trk ++ [errTrk s bs], jobs := if ordered c then s.jobs ++ [s.trk.length] else s.jobs, jobsSet := if ordered c then s.jobsSet else s.jobsSet ++ [s.trk.length] }) rfl]
        by_cases hlt : i < s.trk.length
        · have hne : s.trk.length ≠ i := by omega
          simp only [hne, false_and, if_false]
          rw [getTrk_push (s := s) rfl]
          simp only [hlt, if_true]
          exact hB.items_le i hi hlt
        · have : i = s.trk.length := by omega
          subst this
          simp [errTrk]
      · intro hmode
        exact hbud m d pl true hps hmode

/-- `dispatchLocked` parks at most one more batch. -/
theorem ownParked_dispatchLocked {c : Cfg} {t0 : Nat} {fo : Bool} {bs : Nat} {s : St}
    (hS : InvS c t0 s) (hna : s.aborting = false) :
    ownParked t0 (dispatchLocked c fo bs s).1 ≤ ownParked t0 s + 1 := by
  rcases dispatchLocked_spec c fo bs s hna hS.ready_ne with
    ⟨tasks, rest, hrd, he⟩ | ⟨hrd, lg, m, d, pl, r, hps, hcases⟩
  · obtain ⟨lg, hd⟩ := dispatch_eq (c := c) (s := { s with ready := rest }) tasks hna
    rw [he, hd]
    exact (ownParked_append t0 s _ s.trk.length rfl).1
  · rcases hcases with ⟨hr, hm, he⟩ | ⟨hr, hm, tasks, rest, htn, hrest, hsplit, hlens, he⟩ | ⟨hr, he⟩
    · rw [he]; exact Nat.le_succ _
    · obtain ⟨lg2, hd⟩ := dispatch_eq (c := c)
        (s := { s with log := lg, srcPos := s.srcPos + m, srcDead := d, preLeft := pl, ready := rest }) tasks hna
      rw [he, hd]
      exact (ownParked_append t0 s _ s.trk.length rfl).1
    · rw [he]
      have hpend : getTrk { s with log := lg, srcPos := s.srcPos + m, srcDead := d, preLeft := pl, trk := s.trk ++ [errTrk s bs], jobs := if ordered c then s.jobs ++ [s.trk.length] else s.jobs, jobsSet := if ordered c then s.jobsSet else s.jobsSet ++ [s.trk.length] } s.trk.length = errTrk s bs := by
        rw [getTrk_push (s := s) rfl]; simp
      rw [registerOutcome_error (by rw [hpend]; rfl)]
      exact Nat.le_succ _

/-- `InvB` only reads the items of the trackers, the look-ahead queue, the input position, `preLeft` and the
completed counter (which may grow). -/
theorem InvB_mono {c : Cfg} {t0 : Nat} {s s' : St} (h : InvB c t0 s)
    (hlen : s'.trk.length = s.trk.length) (hitems : ∀ j, (getTrk s' j).items = (getTrk s j).items)
    (hready : s'.ready = s.ready) (hpos : s'.srcPos = s.srcPos) (hpre : s'.preLeft = s.preLeft)
    (hnc : s.nCompleted ≤ s'.nCompleted) : InvB c t0 s' := by
  refine ⟨fun i h0 h1 => by rw [hitems]; exact h.items_le i h0 (by omega), by rw [hready]; exact h.ready_le,
    by rw [hready]; exact h.ready_tot, ?_⟩
  intro hm
  obtain ⟨r, h1, h2⟩ := h.budget hm
  refine ⟨r, by rw [hpre]; exact h1, ?_⟩
  rw [hpos]
  have : s.nCompleted * (c.nj * bmax c) ≤ s'.nCompleted * (c.nj * bmax c) := Nat.mul_le_mul_right _ hnc
  omega

/-! ### unordered mode through `dispatchLocked` -/

/-- What an unordered-mode call is still going to output, as a multiset: the batches not yet popped
(`_jobs_set`, in creation order), the look-ahead queue, the rest of the input. -/
def restU (s : St) : List Nat :=
  (s.jobsSet.map (fun i => (getTrk s i).items)).flatten ++ s.ready.flatten ++
    List.range' (s.base + s.srcPos) (s.spec.n - s.srcPos)

/-- What a dispatch / completion step guarantees in unordered mode. -/
structure UStep (t0 : Nat) (s s' : St) : Prop where
  inv : InvU t0 s'
  rest : s'.aborting = false → restU s' = restU s
  rlen : (JoblibModel.ParallelProto.restU s').length ≤ (JoblibModel.ParallelProto.restU s).length

theorem UStep.refl {t0 : Nat} {s : St} (h : InvU t0 s) : UStep t0 s s := ⟨h, fun _ => rfl, Nat.le_refl _⟩

theorem UStep.trans {t0 : Nat} {a b d : St} (h1 : UStep t0 a b) (h2 : UStep t0 b d)
    (hab : b.aborting = true → d.aborting = true) : UStep t0 a d := by
  refine ⟨h2.inv, fun hd => ?_, Nat.le_trans h2.rlen h1.rlen⟩
  have hb : b.aborting = false := by
    cases hx : b.aborting with
    | false => rfl
    | true => rw [hab hx] at hd; simp at hd
  rw [h2.rest hd, h1.rest hb]

/-- The look-ahead / job-set / source part of the state is untouched and the items of the trackers are the same. -/
theorem UStep.of_same {t0 : Nat} {s s' : St} (h : InvU t0 s')
    (hitems : ∀ j, (getTrk s' j).items = (getTrk s j).items) (hjs : s'.jobsSet = s.jobsSet)
    (hready : s'.ready = s.ready) (hpos : s'.srcPos = s.srcPos) (hbase : s'.base = s.base)
    (hspec : s'.spec = s.spec) : UStep t0 s s' := by
  have : restU s' = restU s := by simp only [restU, hjs, hready, hpos, hbase, hspec, hitems]
  exact ⟨h, fun _ => this, by rw [this]; exact Nat.le_refl _⟩

theorem restU_push {s s' : St} {t : Tracker} {rest : List (List Nat)} {m : Nat}
    (htrk : s'.trk = s.trk ++ [t]) (hjs : s'.jobsSet = s.jobsSet ++ [s.trk.length])
    (hown : ∀ i ∈ s.jobsSet, i < s.trk.length) (hready : s'.ready = rest) (hpos : s'.srcPos = s.srcPos + m)
    (hsplit : t.items ++ rest.flatten = s.ready.flatten ++ List.range' (s.base + s.srcPos) m)
    (hle : s.srcPos + m ≤ s.spec.n) (hbase : s'.base = s.base) (hspec : s'.spec = s.spec) :
    restU s' = restU s := by
  simp only [restU, hjs, hready, hpos, hbase, hspec, List.map_append, List.flatten_append, List.map_cons,
    List.map_nil, List.flatten_cons, List.flatten_nil, List.append_nil]
  rw [map_items_push htrk hown]
  have : (getTrk s' s.trk.length).items = t.items := by rw [getTrk_push htrk]; simp
  rw [this]
  have hr : List.range' (s.base + s.srcPos) (s.spec.n - s.srcPos) =
      List.range' (s.base + s.srcPos) m ++ List.range' (s.base + (s.srcPos + m)) (s.spec.n - (s.srcPos + m)) := by
    rw [show s.base + (s.srcPos + m) = s.base + s.srcPos + 1 * m by omega, List.range'_append]
    congr 1; omega
  rw [hr]
  simp only [List.append_assoc]
  rw [← List.append_assoc t.items, hsplit]
  simp [List.append_assoc]

theorem dispatchLocked_U {c : Cfg} {t0 : Nat} {fo : Bool} {bs : Nat} {s : St} (ho : ordered c = false)
    (hT : InvT c t0 none s) (hS : InvS c t0 s) (hna : s.aborting = false) (hU : InvU t0 s) :
    UStep t0 s (dispatchLocked c fo bs s).1 := by
  have hown : ∀ i ∈ s.jobsSet, i < s.trk.length := fun i hi => (hU.set_own i hi).2
  rcases dispatchLocked_spec c fo bs s hna hS.ready_ne with
    ⟨tasks, rest, hrd, he⟩ | ⟨hrd, lg, m, d, pl, r, hps, hcases⟩
  · obtain ⟨lg, hd⟩ := dispatch_eq (c := c) (s := { s with ready := rest }) tasks hna
    rw [he, hd]
    have hr := restU_push (s := s) (s' := { s with ready := rest, log := lg, nDispTasks := s.nDispTasks + tasks.length, nDispBatches := s.nDispBatches + 1, trk := s.trk ++ [newTrk { s with ready := rest } tasks], jobs := if ordered c then s.jobs ++ [s.trk.length] else s.jobs, jobsSet := if ordered c then s.jobsSet else s.jobsSet ++ [s.trk.length], parked := s.parked ++ [s.trk.length] })
      (t := newTrk { s with ready := rest } tasks) (rest := rest) (m := 0) rfl (by simp [ho]) hown rfl rfl
      (by simp [newTrk, hrd]) hS.src_le rfl rfl
    refine ⟨InvU_push hU hT.t0_le rfl rfl (by simp [ho]) (by simp [ho]), fun _ => hr, by rw [hr]; exact Nat.le_refl _⟩
  · rcases hcases with ⟨hr, hm, he⟩ | ⟨hr, hm, tasks, rest, htn, hrest, hsplit, hlens, he⟩ | ⟨hr, he⟩
    · subst hr; subst hm
      rw [he]
      exact UStep.of_same (InvU_frame hU rfl rfl rfl) (fun _ => rfl) rfl rfl rfl rfl rfl
    · subst hr
      obtain ⟨lg2, hd⟩ := dispatch_eq (c := c)
        (s := { s with log := lg, srcPos := s.srcPos + m, srcDead := d, preLeft := pl, ready := rest }) tasks hna
      rw [he, hd]
      have hmn := hps.le_n hS.src_le
      have hr := restU_push (s := s) (s' := { s with log := lg2, srcPos := s.srcPos + m, srcDead := d, preLeft := pl, ready := rest, nDispTasks := s.nDispTasks + tasks.length, nDispBatches := s.nDispBatches + 1, trk := s.trk ++ [newTrk { s with log := lg, srcPos := s.srcPos + m, srcDead := d, preLeft := pl, ready := rest } tasks], jobs := if ordered c then s.jobs ++ [s.trk.length] else s.jobs, jobsSet := if ordered c then s.jobsSet else s.jobsSet ++ [s.trk.length], parked := s.parked ++ [s.trk.length] })
        (t := newTrk { s with log := lg, srcPos := s.srcPos + m, srcDead := d, preLeft := pl, ready := rest } tasks)
        (rest := rest) (m := m) rfl (by simp [ho]) hown rfl rfl (by simp [newTrk, hrd, hsplit]) hmn rfl rfl
      refine ⟨InvU_push hU hT.t0_le rfl rfl (by simp [ho]) (by simp [ho]), fun _ => hr,
        by rw [hr]; exact Nat.le_refl _⟩
    · subst hr
      rw [he]
      have hpend : getTrk { s with log := lg, srcPos := s.srcPos + m, srcDead := d, preLeft := pl, trk := s.trk ++ [errTrk s bs], jobs := if ordered c then s.jobs ++ [s.trk.length] else s.jobs, jobsSet := if ordered c then s.jobsSet else s.jobsSet ++ [s.trk.length] } s.trk.length = errTrk s bs := by
        rw [getTrk_push (s := s) rfl]; simp
      rw [registerOutcome_error (by rw [hpend]; rfl), hpend]
      simp only [set_append_last]
      have hmn := hps.le_n hS.src_le
      refine ⟨InvU_pushErr (t := { errTrk s bs with status := .error, result := .exc (.iter (s.base + (s.srcPos + m))) })
        hU hT.t0_le (by simp) rfl (by simp [ho]) (by simp [ho]), fun ha => by simp at ha, ?_⟩
      -- only the length matters once aborting
      simp only [restU, ho, Bool.false_eq_true, if_false, List.map_append, List.flatten_append, List.map_cons,
        List.map_nil, List.flatten_cons, List.flatten_nil, List.append_nil, List.length_append, List.length_range']
      have e1 : (List.map (fun i => (getTrk { s with log := lg, srcPos := s.srcPos + m, srcDead := d, preLeft := pl, trk := s.trk ++ [{ errTrk s bs with status := .error, result := .exc (.iter (s.base + (s.srcPos + m))) }], jobs := s.jobs ++ [s.trk.length], jobsSet := s.jobsSet ++ [s.trk.length], exception := true, aborting := true } i).items) s.jobsSet) =
          List.map (fun i => (getTrk s i).items) s.jobsSet := by
        apply List.map_congr_left
        intro i hi
        rw [getTrk_push (s := s) rfl]; simp [hown i hi]
      have e2 : (getTrk { s with log := lg, srcPos := s.srcPos + m, srcDead := d, preLeft := pl, trk := s.trk ++ [{ errTrk s bs with status := .error, result := .exc (.iter (s.base + (s.srcPos + m))) }], jobs := s.jobs ++ [s.trk.length], jobsSet := s.jobsSet ++ [s.trk.length], exception := true, aborting := true } s.trk.length).items = [] := by
        rw [getTrk_push (s := s) rfl]; simp [errTrk]
      rw [e1, e2]
      simp only [List.length_nil]
      omega

end JoblibModel.ParallelProto
