import JoblibProofs.Lemmas.ParallelProto.StepsS
/-!
`dispatchLocked` (the locked region of `dispatch_one_batch`) preserves the invariant; what else it guarantees.
-/
namespace JoblibModel.ParallelProto

/-- Fields that no step inside a call changes (until `finally`), and monotonicity of the abort flag. -/
structure Frame (s s' : St) : Prop where
  base : s'.base = s.base
  spec : s'.spec = s.spec
  callId : s'.callId = s.callId
  callCtr : s'.callCtr = s.callCtr
  failIds : s'.failIds = s.failIds
  managed : s'.managed = s.managed
  running : s'.running = s.running
  calling : s'.calling = s.calling
  abort_mono : s.aborting = true → s'.aborting = true

theorem Frame.refl (s : St) : Frame s s := ⟨rfl, rfl, rfl, rfl, rfl, rfl, rfl, rfl, id⟩

theorem Frame.trans {a b d : St} (h1 : Frame a b) (h2 : Frame b d) : Frame a d :=
  ⟨h2.base.trans h1.base, h2.spec.trans h1.spec, h2.callId.trans h1.callId, h2.callCtr.trans h1.callCtr,
   h2.failIds.trans h1.failIds, h2.managed.trans h1.managed, h2.running.trans h1.running,
   h2.calling.trans h1.calling, fun h => h2.abort_mono (h1.abort_mono h)⟩

/-- Batches sliced but not dispatched, plus input not yet sliced. -/
def work (s : St) : Nat := s.ready.length + (s.spec.n - s.srcPos)

/-- The trackers the retrieval loop has not popped yet. -/
def unpopped (c : Cfg) (s : St) : List Nat := if ordered c then s.jobs else s.jobsSet

/-- Termination measure of the call (without the schedule). -/
def meas (c : Cfg) (s : St) : Nat := (unpopped c s).length + s.parked.length + 2 * work s

/-- What the call is still going to output, in order (ordered modes): the batches not yet popped, then the
look-ahead queue, then the rest of the input. -/
def restS (s : St) : List Nat :=
  (s.jobs.map (fun i => (getTrk s i).items)).flatten ++ s.ready.flatten ++
    List.range' (s.base + s.srcPos) (s.spec.n - s.srcPos)

/-- Everything `dispatchLocked` guarantees from a non-aborting state satisfying the invariant. -/
structure DLSpec (c : Cfg) (t0 : Nat) (fo : Bool) (s s' : St) (more : Bool) : Prop where
  T : InvT c t0 none s'
  S : InvS c t0 s'
  L : InvL c t0 s'
  iterp : IterPend t0 s → IterPend t0 s'
  frame : Frame s s'
  old : ∀ i, i < s.trk.length → getTrk s' i = getTrk s i
  len : s.trk.length ≤ s'.trk.length
  exh : more = false → s'.aborting = false →
    s'.ready = [] ∧ (s'.srcDead = true ∨ (fo = false ∧ s'.preLeft = some 0))
  pend : more = true → s'.aborting = false →
    ∃ i, t0 ≤ i ∧ i < s'.trk.length ∧ (getTrk s' i).status = .pending
  meas_le : s'.aborting = false → meas c s' ≤ meas c s
  work_lt : more = true → s'.aborting = false → work s' < work s
  restS : ordered c = true → s'.aborting = false → restS s' = restS s
  same : s'.sched = s.sched ∧ s'.now = s.now ∧ s'.hung = s.hung ∧ s'.nCompleted = s.nCompleted ∧
    s'.iterating = s.iterating ∧ s'.origAlive = s.origAlive ∧ s'.idle = s.idle ∧ s'.bsI = s.bsI ∧
    s'.inCb = s.inCb ∧ s'.nbConsumed = s.nbConsumed ∧ s'.aborted = s.aborted
  more_abort : more = false → s'.aborting = false
  jobs_pre : ordered c = true → ∃ l, s'.jobs = s.jobs ++ l
  exh_stable : s.ready = [] → s.srcDead = true → s'.ready = [] ∧ s'.srcDead = true ∧ more = false
  pos_le : s.srcPos ≤ s'.srcPos
  work_le : work s' ≤ work s
  pre_orig : fo = true → s'.preLeft = s.preLeft
  pre_nomore : more = false → s'.preLeft = s.preLeft

theorem map_items_push {s s' : St} {t : Tracker} (h : s'.trk = s.trk ++ [t]) {l : List Nat}
    (hl : ∀ i ∈ l, i < s.trk.length) :
    l.map (fun i => (getTrk s' i).items) = l.map (fun i => (getTrk s i).items) := by
  apply List.map_congr_left
  intro i hi
  rw [getTrk_push h]; simp [hl i hi]

/-- Common part of the two dispatching cases (from the queue, `m = 0`; after slicing, `m > 0`). -/
theorem dlspec_push {c : Cfg} {t0 : Nat} {fo : Bool} {s s' : St}
    (hT : InvT c t0 none s) (hS : InvS c t0 s) (hL : InvL c t0 s)
    {tasks : List Nat} {rest : List (List Nat)} {m : Nat}
    (hna : s.aborting = false) (htasks : tasks ≠ [])
    (hsplit : tasks ++ rest.flatten = s.ready.flatten ++ List.range' (s.base + s.srcPos) m)
    (hrest : ∀ b ∈ rest, b ≠ [])
    (hwork : rest.length + 1 + (s.spec.n - (s.srcPos + m)) ≤ s.ready.length + (s.spec.n - s.srcPos))
    (hle : s.srcPos + m ≤ s.spec.n)
    (hiter : 0 ≤ s.spec.iterfail → ((s.srcPos + m : Nat) : Int) ≤ s.spec.iterfail)
    (hdead : s'.srcDead = true → s.srcPos + m = s.spec.n ∧ ((s.srcPos + m : Nat) : Int) ≠ s.spec.iterfail)
    (hexh : c.pdMode ≠ 1 → s.origAlive = false → False)
    (hnexh : s.ready = [] → s.srcDead = true → False)
    (hpre : s.preLeft = none → s'.preLeft = none)
    (hpreo : fo = true → s'.preLeft = s.preLeft)
    (htrk : s'.trk = s.trk ++ [newTrk s tasks]) (hready : s'.ready = rest)
    (hjobs : s'.jobs = if ordered c then s.jobs ++ [s.trk.length] else s.jobs)
    (hjobsSet : s'.jobsSet = if ordered c then s.jobsSet else s.jobsSet ++ [s.trk.length])
    (hparked : s'.parked = s.parked ++ [s.trk.length])
    (hpos : s'.srcPos = s.srcPos + m) (hab : s'.aborting = s.aborting) (hexc : s'.exception = s.exception)
    (hnd : s'.nDispTasks = s.nDispTasks + tasks.length)
    (hframe : Frame s s')
    (hsame : s'.sched = s.sched ∧ s'.now = s.now ∧ s'.hung = s.hung ∧ s'.nCompleted = s.nCompleted ∧
      s'.iterating = s.iterating ∧ s'.origAlive = s.origAlive ∧ s'.idle = s.idle ∧ s'.bsI = s.bsI ∧
      s'.inCb = s.inCb ∧ s'.nbConsumed = s.nbConsumed ∧ s'.aborted = s.aborted) :
    DLSpec c t0 fo s s' true := by
  have hg := getTrk_push htrk
  have hlen : s'.trk.length = s.trk.length + 1 := by simp [htrk]
  have hT' := InvT_push hT htasks hna htrk hjobs hparked hframe.callId hab hexc hframe.failIds hframe.base
    hframe.spec
  have hS' := InvS_dispatch hS hT.t0_le hna hsplit hrest hle hiter hdead htrk hready hpos hnd hsame.2.2.2.1
    hframe.base hframe.spec
  have hL' : InvL c t0 s' := InvL_of hL (by rw [hsame.2.2.2.2.1]; exact id) hsame.2.2.2.2.2.1 hpre
    (by intro h1 h2 _; rw [hsame.2.2.2.2.2.1] at h2; exact (hexh h1 h2).elim)
  have hP' : IterPend t0 s → IterPend t0 s' := fun hP =>
    IterPend_of hP (by rw [hab]; exact id) (by rw [hsame.2.2.2.2.1]; exact id)
    (by omega) (by intro _ i hi; rw [hg]; simp [hi])
  refine ⟨hT', hS', hL', hP', hframe, fun i hi => by rw [hg]; simp [hi], by omega, by simp, ?_, ?_, ?_, ?_,
    hsame, by simp, fun ho => ⟨[s.trk.length], by rw [hjobs]; simp [ho]⟩, fun h1 h2 => (hnexh h1 h2).elim,
    by rw [hpos]; omega, by simp only [work, hready, hpos, hframe.spec]; omega, hpreo, by simp⟩
  · intro _ _
    exact ⟨s.trk.length, hT.t0_le, by omega, by rw [hg]; simp [newTrk]⟩
  · intro _
    simp only [meas, unpopped, work, hjobs, hjobsSet, hparked, hready, hpos, hframe.spec]
    by_cases ho : ordered c = true <;> simp [ho] <;> omega
  · intro _ _
    simp only [work, hready, hpos, hframe.spec]; omega
  · intro ho _
    simp only [restS, hjobs, ho, if_true, hready, hpos, hframe.base, hframe.spec, List.map_append,
      List.flatten_append, List.map_cons, List.map_nil, List.flatten_cons, List.flatten_nil, List.append_nil]
    rw [map_items_push htrk (fun i hi => (hT.jobs_own i hi).2)]
    have : (getTrk s' s.trk.length).items = tasks := by rw [hg]; simp [newTrk]
    rw [this]
    have hr : List.range' (s.base + s.srcPos) (s.spec.n - s.srcPos) =
        List.range' (s.base + s.srcPos) m ++ List.range' (s.base + (s.srcPos + m)) (s.spec.n - (s.srcPos + m)) := by
      rw [show s.base + (s.srcPos + m) = s.base + s.srcPos + 1 * m by omega, List.range'_append]
      congr 1; omega
    rw [hr]
    simp only [List.append_assoc]
    rw [← List.append_assoc tasks, hsplit]
    simp [List.append_assoc]

theorem length_le_flatten_length : ∀ {L : List (List Nat)}, (∀ b ∈ L, b ≠ []) → L.length ≤ L.flatten.length := by
  intro L
  induction L with
  | nil => simp
  | cons b bs ih =>
    intro h
    have h1 : b ≠ [] := h b (by simp)
    have h2 := ih (fun x hx => h x (by simp [hx]))
    have : 0 < b.length := List.length_pos_iff.mpr h1
    simp only [List.length_cons, List.flatten_cons, List.length_append]; omega

theorem set_append_last {α : Type} (l : List α) (t t' : α) : (l ++ [t]).set l.length t' = l ++ [t'] := by
  induction l with
  | nil => simp
  | cons x xs ih => simp [ih]

/-- The case where the input iterable raised while being sliced. -/
theorem dlspec_raise {c : Cfg} {t0 : Nat} {fo : Bool} {s s1 : St} {bs m : Nat} {d : Bool} {pl : Option Nat}
    {k : Nat} (hT : InvT c t0 none s) (hS : InvS c t0 s) (hL : InvL c t0 s)
    (hps : PullSpec fo k s m d pl true)
    (htrk : s1.trk = s.trk ++ [errTrk s bs])
    (hjobs : (if ordered c then s1.jobs else s1.jobs ++ [s.trk.length]) = s.jobs ++ [s.trk.length])
    (hparked : s1.parked = s.parked) (hready : s1.ready = s.ready)
    (hpos : s1.srcPos = s.srcPos + m) (hpl : s1.preLeft = pl)
    (hframe : Frame s s1)
    (hsame : s1.sched = s.sched ∧ s1.now = s.now ∧ s1.hung = s.hung ∧ s1.nCompleted = s.nCompleted ∧
      s1.iterating = s.iterating ∧ s1.origAlive = s.origAlive ∧ s1.idle = s.idle ∧ s1.bsI = s.bsI ∧
      s1.inCb = s.inCb ∧ s1.nbConsumed = s.nbConsumed ∧ s1.aborted = s.aborted) :
    DLSpec c t0 fo s
      (registerOutcome c s1 s.trk.length .error (.exc (.iter (s.base + (s.srcPos + m))))) true := by
  have hpend : getTrk s1 s.trk.length = errTrk s bs := by rw [getTrk_push htrk]; simp
  rw [registerOutcome_error (by rw [hpend]; rfl), hpend]
  have hraised := hps.raised rfl
  have hleg : Legit c s (.iter (s.base + (s.srcPos + m))) := by
    simp only [Legit]; rw [← hraised.2]; omega
  have hmn := hps.le_n hS.src_le
  have htrk' : s1.trk.set s.trk.length { errTrk s bs with status := .error, result := .exc (.iter (s.base + (s.srcPos + m))) } =
      s.trk ++ [{ errTrk s bs with status := .error, result := .exc (.iter (s.base + (s.srcPos + m))) }] := by
    rw [htrk, set_append_last]
  have hT' := InvT_pushErr (s' := { s1 with trk := s1.trk.set s.trk.length { errTrk s bs with status := .error, result := .exc (.iter (s.base + (s.srcPos + m))) }, exception := true, aborting := true, jobs := if ordered c then s1.jobs else s1.jobs ++ [s.trk.length] })
    hT hleg htrk' hjobs hparked hframe.callId rfl rfl hframe.failIds hframe.base hframe.spec
  have hS' := InvS_aborted (s' := { s1 with trk := s1.trk.set s.trk.length { errTrk s bs with status := .error, result := .exc (.iter (s.base + (s.srcPos + m))) }, exception := true, aborting := true, jobs := if ordered c then s1.jobs else s1.jobs ++ [s.trk.length] })
    hS rfl (by show s1.srcPos ≤ _; rw [hpos]; exact hmn)
      (fun hi => by show (s1.srcPos : Int) ≤ _; rw [hpos]; exact hps.le_iter (hS.src_iter hi)) (by
        intro i hi hi'
        have hi'' : i < s.trk.length + 1 := by
          have : i < (s1.trk.set s.trk.length { errTrk s bs with status := .error, result := .exc (.iter (s.base + (s.srcPos + m))) }).length := hi'
          rw [htrk'] at this; simpa using this
        by_cases hlt : i < s.trk.length
        · left; refine ⟨hlt, ?_⟩
          rw [getTrk_push (s := s) htrk']; simp [hlt]
        · right
          have : i = s.trk.length := by omega
          rw [getTrk_push (s := s) htrk']; simp [this, errTrk]) hready hframe.base hframe.spec
  have hL' := InvL_of (s' := { s1 with trk := s1.trk.set s.trk.length { errTrk s bs with status := .error, result := .exc (.iter (s.base + (s.srcPos + m))) }, exception := true, aborting := true, jobs := if ordered c then s1.jobs else s1.jobs ++ [s.trk.length] })
    hL (by show s1.iterating = true → _; rw [hsame.2.2.2.2.1]; exact id) hsame.2.2.2.2.2.1
    (by intro hn; show s1.preLeft = none; rw [hpl]; exact hps.pl_none hn) (by intro _ _ h3; simp at h3)
  refine ⟨hT', hS', hL', fun _ => by intro h3; simp at h3,
    ⟨hframe.base, hframe.spec, hframe.callId, hframe.callCtr, hframe.failIds, hframe.managed, hframe.running,
      hframe.calling, fun _ => rfl⟩, ?_, ?_, by simp, by simp, by simp, by simp, by simp, hsame, by simp,
    fun ho => ⟨[s.trk.length], by show (if ordered c then s1.jobs else s1.jobs ++ [s.trk.length]) = _; rw [hjobs]⟩,
    fun _ h2 => by have := (hps.dead_mono h2).2.2; simp at this, ?_, ?_,
    fun hfo => by show s1.preLeft = _; rw [hpl]; exact hps.pl_orig hfo, by simp⟩
  · intro i hi
    rw [getTrk_push (s := s) htrk']; simp [hi]
  · show s.trk.length ≤ (s1.trk.set _ _).length
    rw [htrk']; simp
  · show s.srcPos ≤ s1.srcPos
    rw [hpos]; omega
  · show s1.ready.length + (s1.spec.n - s1.srcPos) ≤ s.ready.length + (s.spec.n - s.srcPos)
    rw [hready, hpos, hframe.spec]; omega

theorem dispatchLocked_dlspec {c : Cfg} (hc : CfgOK c) {t0 : Nat} {fo : Bool} {bs : Nat} {s : St}
    (hbs : 1 ≤ bs) (hT : InvT c t0 none s) (hS : InvS c t0 s) (hL : InvL c t0 s) (hna : s.aborting = false) :
    DLSpec c t0 fo s (dispatchLocked c fo bs s).1 (dispatchLocked c fo bs s).2 := by
  rcases dispatchLocked_spec c fo bs s hna hS.ready_ne with
    ⟨tasks, rest, hrd, he⟩ | ⟨hrd, lg, m, d, pl, r, hps, hcases⟩
  · -- from the look-ahead queue
    obtain ⟨lg, hd⟩ := dispatch_eq (c := c) (s := { s with ready := rest }) tasks hna
    rw [he, hd]
    have htn : tasks ≠ [] := hS.ready_ne tasks (by simp [hrd])
    refine dlspec_push (m := 0) (tasks := tasks) (rest := rest) hT hS hL hna htn (by simp [hrd])
      (fun b hb => hS.ready_ne b (by simp [hrd, hb])) (by simp [hrd]) hS.src_le
      (fun hi => hS.src_iter hi) (fun hd' => hS.dead hna hd') ?_ (fun h1 _ => by rw [hrd] at h1; simp at h1)
      (fun hp => hp) (fun _ => rfl) rfl rfl rfl rfl rfl rfl rfl rfl rfl
      ⟨rfl, rfl, rfl, rfl, rfl, rfl, rfl, rfl, id⟩ ⟨rfl, rfl, rfl, rfl, rfl, rfl, rfl, rfl, rfl, rfl, rfl⟩
    intro h1 h2
    have := (hL.orig_exh h1 h2 hna).1
    rw [hrd] at this; simp at this
  · rcases hcases with ⟨hr, hm, he⟩ | ⟨hr, hm, tasks, rest, htn, hrest, hsplit, _, he⟩ | ⟨hr, he⟩
    · -- nothing left to slice
      subst hr; subst hm
      rw [he]
      have hT' : InvT c t0 none { s with log := lg, srcPos := s.srcPos + 0, srcDead := d, preLeft := pl } :=
        InvT_frame hT rfl rfl rfl rfl rfl rfl rfl rfl rfl
      have hdn : d = true → s.srcPos = s.spec.n ∧ (s.srcPos : Int) ≠ s.spec.iterfail := by
        intro hd
        cases hsd : s.srcDead with
        | true => exact hS.dead hna hsd
        | false =>
          have := hps.dead_new rfl hd hsd
          have h2 := hS.src_le
          simp only [Nat.add_zero] at this
          exact ⟨by omega, this.2⟩
      have hS' : InvS c t0 { s with log := lg, srcPos := s.srcPos + 0, srcDead := d, preLeft := pl } :=
        InvS_src hS (fun _ hd => hdn hd) rfl rfl rfl rfl rfl rfl rfl rfl
      have hL' : InvL c t0 { s with log := lg, srcPos := s.srcPos + 0, srcDead := d, preLeft := pl } :=
        InvL_of hL id rfl hps.pl_none (by
          intro h1 h2 h3
          have := hL.orig_exh h1 h2 h3
          exact ⟨this.1, (hps.dead_mono this.2).1⟩)
      have hP' : IterPend t0 s →
          IterPend t0 { s with log := lg, srcPos := s.srcPos + 0, srcDead := d, preLeft := pl } :=
        fun hP => IterPend_of hP id id (Nat.le_refl _) (fun _ i _ => rfl)
      refine ⟨hT', hS', hL', hP', ⟨rfl, rfl, rfl, rfl, rfl, rfl, rfl, rfl, id⟩, fun i _ => rfl, Nat.le_refl _, ?_,
        by simp, fun _ => Nat.le_refl _, by simp, fun _ _ => rfl,
        ⟨rfl, rfl, rfl, rfl, rfl, rfl, rfl, rfl, rfl, rfl, rfl⟩, fun _ => hna, fun _ => ⟨[], by simp⟩,
        fun h1 h2 => ⟨h1, (hps.dead_mono h2).1, rfl⟩, Nat.le_refl _, Nat.le_refl _, hps.pl_orig, ?_⟩
      · intro _ _
        refine ⟨hrd, ?_⟩
        have hk : 0 < bs * c.nj := Nat.mul_pos (by omega) (by have := hc.nj; omega)
        exact hps.short rfl hk
      · intro _
        show pl = s.preLeft
        cases hpl : s.preLeft with
        | none => exact hps.pl_none hpl
        | some q =>
          cases fo with
          | true => rw [hps.pl_orig rfl, hpl]
          | false => rw [(hps.pl_some rfl q hpl).2]; rfl
    · -- a fresh slice
      subst hr
      obtain ⟨lg2, hd⟩ := dispatch_eq (c := c)
        (s := { s with log := lg, srcPos := s.srcPos + m, srcDead := d, preLeft := pl, ready := rest }) tasks hna
      rw [he, hd]
      have hnd : s.srcDead = false := by
        cases hsd : s.srcDead with
        | true => have := (hps.dead_mono hsd).2.1; omega
        | false => rfl
      have hcnt : (tasks :: rest).length ≤ m := by
        have := length_le_flatten_length (L := tasks :: rest)
          (by intro b hb; simp only [List.mem_cons] at hb; rcases hb with hb | hb
              · subst hb; exact htn
              · exact hrest b hb)
        simp only [List.flatten_cons, hsplit, List.length_range'] at this
        exact this
      have hmn := hps.le_n hS.src_le
      refine dlspec_push (m := m) (tasks := tasks) (rest := rest) hT hS hL hna htn (by simp [hrd, hsplit])
        hrest (by simp only [List.length_cons] at hcnt; simp only [hrd, List.length_nil]; omega) hmn
        (fun hi => hps.le_iter (hS.src_iter hi)) ?_ ?_ (fun _ h2 => by rw [hnd] at h2; simp at h2)
        hps.pl_none hps.pl_orig rfl rfl rfl rfl rfl rfl rfl rfl rfl
        ⟨rfl, rfl, rfl, rfl, rfl, rfl, rfl, rfl, id⟩ ⟨rfl, rfl, rfl, rfl, rfl, rfl, rfl, rfl, rfl, rfl, rfl⟩
      · intro hd'
        have := hps.dead_new rfl hd' hnd
        exact ⟨by omega, this.2⟩
      · intro h1 h2
        have := (hL.orig_exh h1 h2 hna).2
        rw [hnd] at this; simp at this
    · -- the iterable raised
      subst hr
      rw [he]
      exact dlspec_raise hT hS hL hps rfl
        (by by_cases ho : ordered c = true <;> simp [ho])
        rfl rfl rfl rfl ⟨rfl, rfl, rfl, rfl, rfl, rfl, rfl, rfl, fun h => h⟩
        ⟨rfl, rfl, rfl, rfl, rfl, rfl, rfl, rfl, rfl, rfl, rfl⟩

end JoblibModel.ParallelProto
