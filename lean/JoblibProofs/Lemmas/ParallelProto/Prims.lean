import JoblibProofs.Lemmas.ParallelProto.Lists
/-!
Effect ("what exactly changes") lemmas for the primitive operations of the M1 model. The event log is irrelevant
to every invariant: the lemmas quantify it existentially.
-/
namespace JoblibModel.ParallelProto

/-! ### tracker table access -/

theorem getTrk_lt {s : St} {i : Nat} (h : i < s.trk.length) : getTrk s i = s.trk[i] := by
  simp [getTrk, List.getD_eq_getElem?_getD, h]

theorem getTrk_ge {s : St} {i : Nat} (h : s.trk.length ≤ i) : getTrk s i = default := by
  simp [getTrk, List.getD_eq_getElem?_getD, h]

theorem getTrk_setTrk (s : St) (i j : Nat) (t : Tracker) :
    getTrk (setTrk s i t) j = if i = j ∧ i < s.trk.length then t else getTrk s j := by
  simp only [getTrk, setTrk, List.getD_eq_getElem?_getD, List.getElem?_set]
  by_cases h : i = j
  · subst h
    by_cases h2 : i < s.trk.length
    · simp [h2]
    · simp [h2]
  · simp [h]

theorem getTrk_append_lt {s : St} {l : List Tracker} {i : Nat} (h : i < s.trk.length) :
    ({ s with trk := s.trk ++ l } : St).trk.getD i default = getTrk s i := by
  simp [getTrk, List.getD_eq_getElem?_getD, List.getElem?_append_left h]

@[simp] theorem default_callId : (default : Tracker).callId = 0 := rfl
@[simp] theorem default_items : (default : Tracker).items = [] := rfl
@[simp] theorem default_status : (default : Tracker).status = .pending := rfl
@[simp] theorem default_result : (default : Tracker).result = .none := rfl
@[simp] theorem default_bsize : (default : Tracker).bsize = 0 := rfl

/-! ### `pullUpTo` -/

/-- What `pullUpTo fromOrig k s` does: `m` items were taken, `d` is the new `srcDead`, `pl` the new `preLeft`,
`r` whether the iterator raised. -/
structure PullSpec (fo : Bool) (k : Nat) (s : St) (m : Nat) (d : Bool) (pl : Option Nat) (r : Bool) : Prop where
  m_le : m ≤ k
  le_n : s.srcPos ≤ s.spec.n → s.srcPos + m ≤ s.spec.n
  le_iter : (s.srcPos : Int) ≤ s.spec.iterfail → ((s.srcPos + m : Nat) : Int) ≤ s.spec.iterfail
  dead_mono : s.srcDead = true → d = true ∧ m = 0 ∧ r = false
  raised : r = true → d = true ∧ ((s.srcPos + m : Nat) : Int) = s.spec.iterfail
  dead_new : r = false → d = true → s.srcDead = false →
    s.spec.n ≤ s.srcPos + m ∧ ((s.srcPos + m : Nat) : Int) ≠ s.spec.iterfail
  short : r = false → m < k → d = true ∨ (fo = false ∧ pl = some 0)
  pl_orig : fo = true → pl = s.preLeft
  pl_none : s.preLeft = none → pl = none
  pl_some : fo = false → ∀ q, s.preLeft = some q → m ≤ q ∧ pl = some (q - m)

theorem pullUpTo_spec (fo : Bool) : ∀ (k : Nat) (s : St), ∃ lg m d pl r,
    pullUpTo fo k s =
      ({ s with log := lg, srcPos := s.srcPos + m, srcDead := d, preLeft := pl },
       List.range' (s.base + s.srcPos) m, r) ∧ PullSpec fo k s m d pl r := by
  intro k
  induction k with
  | zero =>
    intro s
    refine ⟨s.log, 0, s.srcDead, s.preLeft, false, by simp [pullUpTo], ?_⟩
    constructor <;> grind
  | succ k ih =>
    intro s
    unfold pullUpTo
    by_cases h1 : ((!fo) && s.preLeft == some 0) = true
    · rw [if_pos h1]
      refine ⟨s.log, 0, s.srcDead, s.preLeft, false, by simp, ?_⟩
      simp only [Bool.and_eq_true, Bool.not_eq_eq_eq_not, Bool.not_true, beq_iff_eq] at h1
      constructor <;> grind
    · rw [if_neg h1]
      by_cases h2 : s.srcDead = true
      · rw [if_pos h2]
        refine ⟨s.log, 0, true, s.preLeft, false, by simp; rw [← h2], ?_⟩
        constructor <;> grind
      · rw [if_neg h2]
        by_cases h3 : (s.srcPos : Int) = s.spec.iterfail
        · rw [if_pos h3]
          refine ⟨_, 0, true, s.preLeft, true, by simp [ev]; rfl, ?_⟩
          constructor <;> grind
        · rw [if_neg h3]
          by_cases h4 : s.srcPos ≥ s.spec.n
          · rw [if_pos h4]
            refine ⟨s.log, 0, true, s.preLeft, false, by simp, ?_⟩
            constructor <;> grind
          · rw [if_neg h4]
            obtain ⟨lg, m, d, pl, r, he, hs⟩ := ih
              { ev s ("pull " ++ toString (s.base + s.srcPos) ++ cbTag s) with
                  srcPos := s.srcPos + 1,
                  preLeft := if fo = true then s.preLeft else s.preLeft.map (· - 1) }
            simp only [he]
            refine ⟨lg, m + 1, d, pl, r, ?_, ?_⟩
            · simp [ev, List.range'_succ, Nat.add_assoc, Nat.add_comm 1 m]
            · have hsrc : ({ ev s ("pull " ++ toString (s.base + s.srcPos) ++ cbTag s) with
                  srcPos := s.srcPos + 1,
                  preLeft := if fo = true then s.preLeft else s.preLeft.map (· - 1) } : St).srcPos
                    = s.srcPos + 1 := rfl
              have hdead : ({ ev s ("pull " ++ toString (s.base + s.srcPos) ++ cbTag s) with
                  srcPos := s.srcPos + 1,
                  preLeft := if fo = true then s.preLeft else s.preLeft.map (· - 1) } : St).srcDead
                    = s.srcDead := rfl
              have hspec : ({ ev s ("pull " ++ toString (s.base + s.srcPos) ++ cbTag s) with
                  srcPos := s.srcPos + 1,
                  preLeft := if fo = true then s.preLeft else s.preLeft.map (· - 1) } : St).spec
                    = s.spec := rfl
              have hpl : ({ ev s ("pull " ++ toString (s.base + s.srcPos) ++ cbTag s) with
                  srcPos := s.srcPos + 1,
                  preLeft := if fo = true then s.preLeft else s.preLeft.map (· - 1) } : St).preLeft
                    = if fo = true then s.preLeft else s.preLeft.map (· - 1) := rfl
              obtain ⟨a1, a2, a3, a4, a5, a6, a7, a8, a9, a10⟩ := hs
              rw [hsrc] at a2 a3 a5 a6
              rw [hdead] at a4 a6
              rw [hspec] at a2 a3 a5 a6
              rw [hpl] at a8 a9 a10
              have e1 : s.srcPos + (m + 1) = s.srcPos + 1 + m := by omega
              constructor
              · omega
              · intro h; rw [e1]; exact a2 (by omega)
              · intro h; rw [e1]; apply a3; omega
              · intro h; exact absurd h h2
              · intro h; rw [e1]; exact a5 h
              · intro h h' h''; rw [e1]; exact a6 h h' h''
              · intro h h'; exact a7 h (by omega)
              · intro h; simp [h] at a8; exact a8
              · intro h; apply a9; simp [h]
              · intro h q hq
                simp only [h, Bool.false_eq_true, if_false, hq, Option.map_some] at a10
                have hq0 : q ≠ 0 := by
                  intro hq0; subst hq0
                  simp [h, hq] at h1
                obtain ⟨b1, b2⟩ := a10 trivial (q - 1) rfl
                refine ⟨by omega, ?_⟩
                rw [b2]; congr 1; omega

/-! ### `execBatch` -/

theorem execBatch_spec : ∀ (l : List Nat) (s : St), ∃ lg,
    (execBatch s l).1 = { s with log := lg } ∧
    (∀ id, (execBatch s l).2 = some id → id ∈ l ∧ id ∈ s.failIds) ∧
    ((execBatch s l).2 = none → ∀ id ∈ l, id ∉ s.failIds) := by
  intro l
  induction l with
  | nil => intro s; exact ⟨s.log, rfl, by simp [execBatch], by simp⟩
  | cons a t ih =>
    intro s
    unfold execBatch
    simp only
    by_cases h : (ev s ("exec " ++ toString a)).failIds.contains a = true
    · rw [if_pos h]
      refine ⟨_, rfl, ?_, by simp⟩
      intro id hid
      simp only [Option.some.injEq] at hid
      subst hid
      simp only [ev, List.contains_eq_mem, decide_eq_true_eq] at h
      simp [h]
    · rw [if_neg h]
      obtain ⟨lg, h1, h2, h3⟩ := ih (ev s ("exec " ++ toString a))
      refine ⟨lg, by rw [h1]; rfl, ?_, ?_⟩
      · intro id hid
        obtain ⟨x, y⟩ := h2 id hid
        exact ⟨List.mem_cons_of_mem _ x, y⟩
      · intro hn id hid
        simp only [List.mem_cons] at hid
        rcases hid with hid | hid
        · subst hid
          simpa [ev] using h
        · exact h3 hn id hid

/-! ### `registerOutcome`, `dispatch` -/

theorem registerOutcome_nonpending {c : Cfg} {s : St} {i : Nat} {st : Status} {r : Res}
    (h : (getTrk s i).status ≠ .pending) : registerOutcome c s i st r = s := by
  simp [registerOutcome, h]

theorem registerOutcome_done {c : Cfg} {s : St} {i : Nat} {r : Res}
    (h : (getTrk s i).status = .pending) :
    registerOutcome c s i .done r =
      { s with trk := s.trk.set i { getTrk s i with status := .done, result := r },
               jobs := if ordered c then s.jobs else s.jobs ++ [i] } := by
  simp only [registerOutcome, h, setTrk]
  by_cases ho : ordered c = true <;> simp [ho]

theorem registerOutcome_error {c : Cfg} {s : St} {i : Nat} {r : Res}
    (h : (getTrk s i).status = .pending) :
    registerOutcome c s i .error r =
      { s with trk := s.trk.set i { getTrk s i with status := .error, result := r },
               exception := true, aborting := true,
               jobs := if ordered c then s.jobs else s.jobs ++ [i] } := by
  simp only [registerOutcome, h, setTrk]
  by_cases ho : ordered c = true <;> simp [ho]

/-- The tracker `_dispatch` registers for a batch. -/
def newTrk (s : St) (b : List Nat) : Tracker := { items := b, bsize := b.length, callId := s.callId }

theorem dispatch_eq {c : Cfg} {s : St} (b : List Nat) (h : s.aborting = false) : ∃ lg,
    dispatch c s b =
      { s with log := lg, nDispTasks := s.nDispTasks + b.length, nDispBatches := s.nDispBatches + 1,
               trk := s.trk ++ [newTrk s b],
               jobs := if ordered c then s.jobs ++ [s.trk.length] else s.jobs,
               jobsSet := if ordered c then s.jobsSet else s.jobsSet ++ [s.trk.length],
               parked := s.parked ++ [s.trk.length] } := by
  simp only [dispatch, h, newTrk]
  by_cases ho : ordered c = true
  · exact ⟨_, by simp [ho, ev]; rfl⟩
  · exact ⟨_, by simp [ho, ev]; rfl⟩

/-- The tracker registered when the input iterable raises. -/
def errTrk (s : St) (bs : Nat) : Tracker := { items := [], bsize := bs, callId := s.callId }

/-- Case analysis of the locked region of `dispatch_one_batch` (not aborting, no empty batch queued). -/
theorem dispatchLocked_spec (c : Cfg) (fo : Bool) (bs : Nat) (s : St) (ha : s.aborting = false)
    (hr : ∀ b ∈ s.ready, b ≠ []) :
    (∃ tasks rest, s.ready = tasks :: rest ∧
        dispatchLocked c fo bs s = (dispatch c { s with ready := rest } tasks, true)) ∨
    (s.ready = [] ∧ ∃ lg m d pl r, PullSpec fo (bs * c.nj) s m d pl r ∧
      ((r = false ∧ m = 0 ∧
          dispatchLocked c fo bs s =
            ({ s with log := lg, srcPos := s.srcPos + m, srcDead := d, preLeft := pl }, false)) ∨
       (r = false ∧ 0 < m ∧ ∃ tasks rest, tasks ≠ [] ∧ (∀ b ∈ rest, b ≠ []) ∧
          tasks ++ rest.flatten = List.range' (s.base + s.srcPos) m ∧
          (∀ b ∈ tasks :: rest, b.length ≤ max 1 bs) ∧
          dispatchLocked c fo bs s =
            (dispatch c { s with log := lg, srcPos := s.srcPos + m, srcDead := d, preLeft := pl,
                                 ready := rest } tasks, true)) ∨
       (r = true ∧
          dispatchLocked c fo bs s =
            (registerOutcome c
              { s with log := lg, srcPos := s.srcPos + m, srcDead := d, preLeft := pl,
                       trk := s.trk ++ [errTrk s bs],
                       jobs := if ordered c then s.jobs ++ [s.trk.length] else s.jobs,
                       jobsSet := if ordered c then s.jobsSet else s.jobsSet ++ [s.trk.length] }
              s.trk.length .error (.exc (.iter (s.base + (s.srcPos + m)))), true)))) := by
  unfold dispatchLocked
  rw [if_neg (by simp [ha])]
  cases hrd : s.ready with
  | cons tasks rest =>
    left
    refine ⟨tasks, rest, rfl, ?_⟩
    have : tasks ≠ [] := hr tasks (by simp [hrd])
    have : tasks.length ≠ 0 := by simpa using this
    simp [this]
  | nil =>
    right
    refine ⟨rfl, ?_⟩
    obtain ⟨lg, m, d, pl, r, he, hs⟩ := pullUpTo_spec fo (bs * c.nj) s
    refine ⟨lg, m, d, pl, r, hs, ?_⟩
    simp only [he]
    cases r with
    | true =>
      right; right
      refine ⟨rfl, ?_⟩
      simp only [if_true, errTrk]
      by_cases ho : ordered c = true <;> simp [ho, hrd]
    | false =>
      simp only [Bool.false_eq_true, if_false, List.length_range']
      by_cases hm : m = 0
      · left; simp [hm, hrd]
      · right; left
        refine ⟨trivial, by omega, ?_⟩
        rw [if_neg hm]
        generalize hfin : (if (fo && decide (m < bs * c.nj)) = true then max 1 (m / (10 * c.nj))
          else max 1 (m / c.nj)) = final
        have hfin_le : final ≤ max 1 bs := by
          have hmk := hs.m_le
          have hnj : 0 < c.nj := by
            rcases Nat.eq_zero_or_pos c.nj with h0 | h0
            · rw [h0] at hmk; omega
            · exact h0
          have h1 : m / c.nj ≤ bs := by
            apply Nat.div_le_of_le_mul; rw [Nat.mul_comm]; exact hmk
          have h2 : m / (10 * c.nj) ≤ bs := by
            apply Nat.div_le_of_le_mul
            calc m ≤ bs * c.nj := hmk
              _ ≤ 10 * c.nj * bs := by rw [Nat.mul_comm bs]; apply Nat.mul_le_mul_right; omega
          rw [← hfin]; split <;> omega
        have hne : List.range' (s.base + s.srcPos) m ≠ [] := by simp [hm]
        cases hch : chunks final (List.range' (s.base + s.srcPos) m) with
        | nil => exact absurd ((chunks_eq_nil_iff _ _).mp hch) hne
        | cons tasks rest =>
          have hfl := chunks_flatten final (List.range' (s.base + s.srcPos) m)
          have hnn := chunks_ne_nil final (List.range' (s.base + s.srcPos) m)
          have hll := chunks_len_le final (List.range' (s.base + s.srcPos) m)
          rw [hch] at hfl hnn hll
          refine ⟨tasks, rest, hnn tasks (by simp), fun b hb => hnn b (by simp [hb]), by simpa using hfl,
            fun b hb => by have := hll b hb; omega, ?_⟩
          have : tasks.length ≠ 0 := by simpa using hnn tasks (by simp)
          simp [this]

end JoblibModel.ParallelProto
