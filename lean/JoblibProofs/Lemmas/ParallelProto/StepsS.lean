import JoblibProofs.Lemmas.ParallelProto.StepsT
/-!
Preservation of `InvS` (source / conservation / counters), `InvL` (liveness bookkeeping) and `IterPend` by the
elementary updates of the protocol.
-/
namespace JoblibModel.ParallelProto

theorem InvS_frame {c : Cfg} {t0 : Nat} {s s' : St} (h : InvS c t0 s)
    (htrk : s'.trk = s.trk) (hready : s'.ready = s.ready) (hpos : s'.srcPos = s.srcPos)
    (hdead : s'.srcDead = s.srcDead) (hab : s'.aborting = s.aborting)
    (hnd : s'.nDispTasks = s.nDispTasks) (hnc : s'.nCompleted = s.nCompleted)
    (h2 : s'.base = s.base) (h3 : s'.spec = s.spec) : InvS c t0 s' := by
  have hg : ∀ j, getTrk s' j = getTrk s j := getTrk_same htrk
  have hown : own t0 s' = own t0 s := by simp [own, htrk]
  have hdi : dispItems t0 s' = dispItems t0 s := by simp [dispItems, hown]
  obtain ⟨a1, a2, a3, a4, a5, a6, a7, a8, a9⟩ := h
  constructor
  · rw [hpos, h3]; exact a1
  · rw [hpos, h3]; exact a2
  · rw [hab, hdead, hpos, h3]; exact a3
  · rw [hab, hdi, hready, h2, hpos]; exact a4
  · rw [hready]; exact a5
  · rw [hready, h2, h3]; exact a6
  · intro i hi hi'; rw [hg, h2, h3]; rw [htrk] at hi'; exact a7 i hi hi'
  · rw [hab, hnd, hdi]; exact a8
  · rw [hab, hnc, hnd, hown]; exact a9

/-- A batch is dispatched, either from the look-ahead queue (`m = 0`) or after slicing `m` new items. -/
theorem InvS_dispatch {c : Cfg} {t0 : Nat} {s s' : St} (h : InvS c t0 s) (ht0 : t0 ≤ s.trk.length)
    {tasks : List Nat} {rest : List (List Nat)} {m : Nat}
    (hna : s.aborting = false)
    (hsplit : tasks ++ rest.flatten = s.ready.flatten ++ List.range' (s.base + s.srcPos) m)
    (hrest : ∀ b ∈ rest, b ≠ [])
    (hle : s.srcPos + m ≤ s.spec.n)
    (hiter : 0 ≤ s.spec.iterfail → ((s.srcPos + m : Nat) : Int) ≤ s.spec.iterfail)
    (hdead : s'.srcDead = true → s.srcPos + m = s.spec.n ∧ ((s.srcPos + m : Nat) : Int) ≠ s.spec.iterfail)
    (htrk : s'.trk = s.trk ++ [newTrk s tasks]) (hready : s'.ready = rest)
    (hpos : s'.srcPos = s.srcPos + m)
    (hnd : s'.nDispTasks = s.nDispTasks + tasks.length) (hnc : s'.nCompleted = s.nCompleted)
    (h2 : s'.base = s.base) (h3 : s'.spec = s.spec) : InvS c t0 s' := by
  have hg := getTrk_push htrk
  have hown : own t0 s' = own t0 s ++ [newTrk s tasks] := own_push htrk ht0
  have hdi : dispItems t0 s' = dispItems t0 s ++ tasks := by
    rw [dispItems_push htrk ht0]; rfl
  obtain ⟨a1, a2, a3, a4, a5, a6, a7, a8, a9⟩ := h
  have hall : ∀ id, id ∈ tasks ++ rest.flatten → s.base ≤ id ∧ id < s.base + s.spec.n := by
    intro id hid
    rw [hsplit, List.mem_append] at hid
    rcases hid with hid | hid
    · obtain ⟨b, hb, hidb⟩ := List.mem_flatten.mp hid
      exact a6 b hb id hidb
    · rw [List.mem_range'_1] at hid; omega
  constructor
  · rw [hpos, h3]; exact hle
  · rw [hpos, h3]; exact hiter
  · intro _ hd; rw [hpos, h3]; exact hdead hd
  · intro _
    rw [hdi, hready, h2, hpos, List.append_assoc, hsplit, ← List.append_assoc, a4 hna]
    rw [← List.range'_append]; simp
  · rw [hready]; exact hrest
  · intro b hb id hid; rw [h2, h3]; rw [hready] at hb
    exact hall id (List.mem_append_right _ (List.mem_flatten.mpr ⟨b, hb, hid⟩))
  · intro i hi hi'; rw [hg, h2, h3]
    by_cases hlt : i < s.trk.length
    · simp only [hlt, if_true]; exact a7 i hi hlt
    · have : i = s.trk.length := by simp [htrk] at hi'; omega
      subst this
      simp only [Nat.lt_irrefl, if_false, if_true, newTrk]
      intro id hid; exact hall id (List.mem_append_left _ hid)
  · intro _; rw [hnd, hdi, a8 hna]; simp
  · intro _; rw [hnc, hnd, hown, pendSum_append, ← a9 hna]
    simp [pendSum, newTrk]; omega

/-- Only the source state moved, and no item was taken (the slice came back empty, or nothing was sliced). -/
theorem InvS_src {c : Cfg} {t0 : Nat} {s s' : St} (h : InvS c t0 s)
    (hdead : s'.aborting = false → s'.srcDead = true →
      s.srcPos = s.spec.n ∧ (s.srcPos : Int) ≠ s.spec.iterfail)
    (htrk : s'.trk = s.trk) (hready : s'.ready = s.ready) (hpos : s'.srcPos = s.srcPos)
    (hab : s'.aborting = s.aborting)
    (hnd : s'.nDispTasks = s.nDispTasks) (hnc : s'.nCompleted = s.nCompleted)
    (h2 : s'.base = s.base) (h3 : s'.spec = s.spec) : InvS c t0 s' := by
  have hg : ∀ j, getTrk s' j = getTrk s j := getTrk_same htrk
  have hown : own t0 s' = own t0 s := by simp [own, htrk]
  have hdi : dispItems t0 s' = dispItems t0 s := by simp [dispItems, hown]
  obtain ⟨a1, a2, a3, a4, a5, a6, a7, a8, a9⟩ := h
  constructor
  · rw [hpos, h3]; exact a1
  · rw [hpos, h3]; exact a2
  · rw [hpos, h3]; exact hdead
  · rw [hab, hdi, hready, h2, hpos]; exact a4
  · rw [hready]; exact a5
  · rw [hready, h2, h3]; exact a6
  · intro i hi hi'; rw [hg, h2, h3]; rw [htrk] at hi'; exact a7 i hi hi'
  · rw [hab, hnd, hdi]; exact a8
  · rw [hab, hnc, hnd, hown]; exact a9

/-- The state after the step is aborting: only the unconditional part of `InvS` has to be re-established. -/
theorem InvS_aborted {c : Cfg} {t0 : Nat} {s s' : St} (h : InvS c t0 s)
    (hab : s'.aborting = true)
    (hle : s'.srcPos ≤ s.spec.n)
    (hiter : 0 ≤ s.spec.iterfail → (s'.srcPos : Int) ≤ s.spec.iterfail)
    (hitems : ∀ i, t0 ≤ i → i < s'.trk.length →
      (i < s.trk.length ∧ (getTrk s' i).items = (getTrk s i).items) ∨ (getTrk s' i).items = [])
    (hready : s'.ready = s.ready)
    (h2 : s'.base = s.base) (h3 : s'.spec = s.spec) : InvS c t0 s' := by
  obtain ⟨a1, a2, a3, a4, a5, a6, a7, a8, a9⟩ := h
  constructor
  · rw [h3]; exact hle
  · rw [h3]; exact hiter
  · intro hab'; rw [hab] at hab'; simp at hab'
  · intro hab'; rw [hab] at hab'; simp at hab'
  · rw [hready]; exact a5
  · rw [hready, h2, h3]; exact a6
  · intro i hi hi'; rw [h2, h3]
    rcases hitems i hi hi' with ⟨hlt, he⟩ | he
    · rw [he]; exact a7 i hi hlt
    · rw [he]; simp
  · intro hab'; rw [hab] at hab'; simp at hab'
  · intro hab'; rw [hab] at hab'; simp at hab'

/-- The completion callback of the pending tracker `i` registers success and counts its tasks. -/
theorem InvS_complete {c : Cfg} {t0 : Nat} {s s' : St} {i : Nat} {t : Tracker} (h : InvS c t0 s)
    (hi0 : t0 ≤ i) (hi1 : i < s.trk.length) (hp : (getTrk s i).status = .pending)
    (ht : t.items = (getTrk s i).items) (hts : t.status ≠ .pending)
    (htrk : s'.trk = s.trk.set i t) (hready : s'.ready = s.ready) (hpos : s'.srcPos = s.srcPos)
    (hdead : s'.srcDead = s.srcDead) (hab : s'.aborting = s.aborting)
    (hnd : s'.nDispTasks = s.nDispTasks) (hnc : s'.nCompleted = s.nCompleted + (getTrk s i).bsize)
    (h2 : s'.base = s.base) (h3 : s'.spec = s.spec) : InvS c t0 s' := by
  have hg := getTrk_set htrk
  have hdi : dispItems t0 s' = dispItems t0 s := dispItems_set htrk ht
  have hps := pendSum_own_set_complete (t0 := t0) htrk hi0 hi1 hp hts
  obtain ⟨a1, a2, a3, a4, a5, a6, a7, a8, a9⟩ := h
  constructor
  · rw [hpos, h3]; exact a1
  · rw [hpos, h3]; exact a2
  · rw [hab, hdead, hpos, h3]; exact a3
  · rw [hab, hdi, hready, h2, hpos]; exact a4
  · rw [hready]; exact a5
  · rw [hready, h2, h3]; exact a6
  · intro j hj hj'; rw [h2, h3]; simp [htrk] at hj'
    have : (getTrk s' j).items = (getTrk s j).items := by rw [hg]; grind
    rw [this]; exact a7 j hj hj'
  · rw [hab, hnd, hdi]; exact a8
  · intro hab'; rw [hab] at hab'; rw [hnc, hnd, ← a9 hab']; omega

/-- Tracker `i` is replaced by one with the same items, status and size. -/
theorem InvS_set_same {c : Cfg} {t0 : Nat} {s s' : St} {i : Nat} {t : Tracker} (h : InvS c t0 s)
    (ht : t.items = (getTrk s i).items) (hts : t.status = (getTrk s i).status)
    (htb : t.bsize = (getTrk s i).bsize)
    (htrk : s'.trk = s.trk.set i t) (hready : s'.ready = s.ready) (hpos : s'.srcPos = s.srcPos)
    (hdead : s'.srcDead = s.srcDead) (hab : s'.aborting = s.aborting)
    (hnd : s'.nDispTasks = s.nDispTasks) (hnc : s'.nCompleted = s.nCompleted)
    (h2 : s'.base = s.base) (h3 : s'.spec = s.spec) : InvS c t0 s' := by
  have hg := getTrk_set htrk
  have hdi : dispItems t0 s' = dispItems t0 s := dispItems_set htrk ht
  have hps := pendSum_own_set_same (t0 := t0) htrk hts htb
  obtain ⟨a1, a2, a3, a4, a5, a6, a7, a8, a9⟩ := h
  constructor
  · rw [hpos, h3]; exact a1
  · rw [hpos, h3]; exact a2
  · rw [hab, hdead, hpos, h3]; exact a3
  · rw [hab, hdi, hready, h2, hpos]; exact a4
  · rw [hready]; exact a5
  · rw [hready, h2, h3]; exact a6
  · intro j hj hj'; rw [h2, h3]; simp [htrk] at hj'
    have : (getTrk s' j).items = (getTrk s j).items := by rw [hg]; grind
    rw [this]; exact a7 j hj hj'
  · rw [hab, hnd, hdi]; exact a8
  · rw [hab, hnc, hnd, hps]; exact a9

/-! ### `InvL`, `IterPend` -/

theorem InvL_of {c : Cfg} {t0 : Nat} {s s' : St} (h : InvL c t0 s)
    (hit : s'.iterating = true → s.iterating = true)
    (hor : s'.origAlive = s.origAlive)
    (hpre : s.preLeft = none → s'.preLeft = none)
    (hexh : c.pdMode ≠ 1 → s'.origAlive = false → s'.aborting = false →
      s'.ready = [] ∧ s'.srcDead = true) : InvL c t0 s' := by
  obtain ⟨a1, a2, a3, a4⟩ := h
  constructor
  · intro hi; rw [hor]; exact a1 (hit hi)
  · rw [hor]; exact a2
  · intro hm; exact hpre (a3 hm)
  · exact hexh

/-- A completion callback found nothing more to dispatch: `_iterating = False; _original_iterator = None`. -/
theorem InvL_clear {c : Cfg} {t0 : Nat} {s s' : St} (h : InvL c t0 s)
    (hit : s'.iterating = false) (hor : s'.origAlive = false) (hpre : s'.preLeft = s.preLeft)
    (hexh : s'.aborting = false → s'.ready = [] ∧ s'.srcDead = true) : InvL c t0 s' := by
  obtain ⟨a1, a2, a3, a4⟩ := h
  constructor
  · rw [hit]; simp
  · rw [hor]; simp
  · rw [hpre]; exact a3
  · intro _ _ hab; exact hexh hab

theorem IterPend_of {t0 : Nat} {s s' : St} (h : IterPend t0 s)
    (hab : s'.aborting = false → s.aborting = false)
    (hit : s'.iterating = true → s.iterating = true)
    (hlen : s.trk.length ≤ s'.trk.length)
    (hst : s'.aborting = false → ∀ i, i < s.trk.length → (getTrk s' i).status = (getTrk s i).status) :
    IterPend t0 s' := by
  intro ha hi
  obtain ⟨i, i0, i1, i2⟩ := h (hab ha) (hit hi)
  exact ⟨i, i0, by omega, by rw [hst ha i i1]; exact i2⟩

end JoblibModel.ParallelProto
