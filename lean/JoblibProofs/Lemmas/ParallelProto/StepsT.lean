import JoblibProofs.Lemmas.ParallelProto.Inv
/-!
Preservation of `InvT` (trackers and queues) by the elementary updates of the protocol. The lemmas are relational:
they only constrain the fields `InvT` reads, so they apply whatever happens to the log, the clock, the schedule.
-/
namespace JoblibModel.ParallelProto

theorem mem_eraseIdx_of_nodup {l : List Nat} {k i : Nat} (hn : l.Nodup) (hk : l[k]? = some i) (j : Nat) :
    (j ∈ l ↔ (j ∈ l.eraseIdx k ∨ j = i)) ∧ i ∉ l.eraseIdx k := by
  have hkl : k < l.length := by
    rcases Nat.lt_or_ge k l.length with h | h
    · exact h
    · rw [List.getElem?_eq_none h] at hk; simp at hk
  constructor
  · constructor
    · intro hj
      obtain ⟨a, ha⟩ := List.mem_iff_getElem?.mp hj
      by_cases hak : a = k
      · subst hak; rw [hk] at ha; right; simpa using ha.symm
      · left; exact List.mem_eraseIdx_iff_getElem?.mpr ⟨a, hak, ha⟩
    · rintro (hj | hj)
      · exact (List.eraseIdx_sublist l k).subset hj
      · subst hj; exact List.mem_of_getElem? hk
  · intro hi
    obtain ⟨a, hak, ha⟩ := List.mem_eraseIdx_iff_getElem?.mp hi
    have hal : a < l.length := by
      rcases Nat.lt_or_ge a l.length with h | h
      · exact h
      · rw [List.getElem?_eq_none h] at ha; simp at ha
    have h1 : l[a] = i := by simpa [List.getElem?_eq_getElem hal] using ha
    have h2 : l[k] = i := by simpa [List.getElem?_eq_getElem hkl] using hk
    exact hak ((List.getElem_inj hn).mp (h1.trans h2.symm))

/-- Nothing `InvT` reads has changed. -/
theorem InvT_frame {c : Cfg} {t0 : Nat} {hole : Option Nat} {s s' : St} (h : InvT c t0 hole s)
    (htrk : s'.trk = s.trk) (hjobs : s'.jobs = s.jobs) (hparked : s'.parked = s.parked)
    (hcid : s'.callId = s.callId) (hab : s'.aborting = s.aborting) (hexc : s'.exception = s.exception)
    (h1 : s'.failIds = s.failIds) (h2 : s'.base = s.base) (h3 : s'.spec = s.spec) :
    InvT c t0 hole s' := by
  have hg : ∀ j, getTrk s' j = getTrk s j := getTrk_same htrk
  obtain ⟨a1, a2, a3, a4, a5, a6, a7, a8, a9, a10, a11, a12, a13, a14, a15⟩ := h
  constructor
  · rw [htrk]; exact a1
  · rw [hcid]; exact a2
  · intro i hi; rw [hg, hcid]; exact a3 i hi
  · intro i hi hi'; rw [hg, hcid]; rw [htrk] at hi'; exact a4 i hi hi'
  · intro i hi; rw [htrk]; rw [hparked] at hi; exact a5 i hi
  · rw [hparked]; exact a6
  · intro x hx; rw [hparked]; exact a7 x hx
  · intro hab' i hi hi'; rw [hg, hparked]; rw [htrk] at hi'; rw [hab] at hab'; exact a8 hab' i hi hi'
  · intro i hi hi'; rw [hg]; rw [htrk] at hi'; exact a9 i hi hi'
  · intro hab' i hi hi'; rw [hg]; rw [htrk] at hi'; rw [hab] at hab'; exact a10 hab' i hi hi'
  · rw [hexc, hab]; exact a11
  · intro hab'; rw [hab] at hab'; obtain ⟨i, hi, hs⟩ := a12 hab'
    exact ⟨i, by rw [hjobs]; exact hi, by rw [hg]; exact hs⟩
  · intro i hi; rw [hjobs] at hi; rw [TOK_congr (hg i) h1 h2 h3]; exact a13 i hi
  · intro i hi; rw [hjobs] at hi; rw [htrk]; exact a14 i hi
  · intro ho; obtain ⟨p, p1, p2, p3, p4⟩ := a15 ho
    exact ⟨p, p1, by rw [htrk]; exact p2, by rw [hjobs, htrk]; exact p3,
      fun i hi hi' => by rw [hg]; exact p4 i hi hi'⟩

/-- `_dispatch`: a new pending tracker is registered and parked. -/
theorem InvT_push {c : Cfg} {t0 : Nat} {s s' : St} (h : InvT c t0 none s) {b : List Nat} (hb : b ≠ [])
    (hna : s.aborting = false)
    (htrk : s'.trk = s.trk ++ [newTrk s b])
    (hjobs : s'.jobs = if ordered c then s.jobs ++ [s.trk.length] else s.jobs)
    (hparked : s'.parked = s.parked ++ [s.trk.length])
    (hcid : s'.callId = s.callId) (hab : s'.aborting = s.aborting) (hexc : s'.exception = s.exception)
    (h1 : s'.failIds = s.failIds) (h2 : s'.base = s.base) (h3 : s'.spec = s.spec) :
    InvT c t0 none s' := by
  have hlen : s'.trk.length = s.trk.length + 1 := by simp [htrk]
  have hg := getTrk_push htrk
  obtain ⟨a1, a2, a3, a4, a5, a6, a7, a8, a9, a10, a11, a12, a13, a14, a15⟩ := h
  have hjm : ∀ i ∈ s'.jobs, i ∈ s.jobs ∨ i = s.trk.length := by
    intro i hi; rw [hjobs] at hi; split at hi <;> simp_all
  constructor
  · omega
  · omega
  · intro i hi; rw [hg, hcid]; have := a3 i hi; grind
  · intro i hi hi'; rw [hg, hcid]; have := a4 i hi; grind [newTrk]
  · intro i hi; rw [hparked] at hi; grind
  · rw [hparked]; grind
  · simp
  · intro hab' i hi hi'; rw [hg, hparked]; have := a8 hna i hi; grind [newTrk]
  · intro i hi hi'; rw [hg]; have := a9 i hi; grind [newTrk]
  · intro hab' i hi hi'; rw [hg]; have := a10 hna i hi; grind [newTrk]
  · rw [hexc, hab]; exact a11
  · rw [hab, hna]; simp
  · intro i hi
    rcases hjm i hi with hi | hi
    · have hlt := (a14 i hi).2
      rw [TOK_congr (by rw [hg]; simp [hlt]) h1 h2 h3]; exact a13 i hi
    · subst hi; simp [TOK, hg, newTrk]
  · intro i hi
    rcases hjm i hi with hi | hi
    · have := a14 i hi; omega
    · omega
  · intro ho
    obtain ⟨p, p1, p2, p3, p4⟩ := a15 ho
    refine ⟨p, p1, by omega, ?_, ?_⟩
    · rw [hjobs, hlen, p3]; simp only [ho, if_true]
      have : s.trk.length + 1 - p = (s.trk.length - p) + 1 := by omega
      rw [this, List.range'_concat]; simp; omega
    · intro i hi hi'; rw [hg]; have := p4 i hi hi'; grind

/-- The input iterable raised: a tracker carrying the error is registered (`items = []`), the call aborts. -/
theorem InvT_pushErr {c : Cfg} {t0 : Nat} {s s' : St} (h : InvT c t0 none s) {bs : Nat} {e : Exc}
    (he : Legit c s e)
    (htrk : s'.trk = s.trk ++ [{ errTrk s bs with status := .error, result := .exc e }])
    (hjobs : s'.jobs = s.jobs ++ [s.trk.length])
    (hparked : s'.parked = s.parked)
    (hcid : s'.callId = s.callId) (hab : s'.aborting = true) (hexc : s'.exception = true)
    (h1 : s'.failIds = s.failIds) (h2 : s'.base = s.base) (h3 : s'.spec = s.spec) :
    InvT c t0 none s' := by
  have hlen : s'.trk.length = s.trk.length + 1 := by simp [htrk]
  have hg := getTrk_push htrk
  obtain ⟨a1, a2, a3, a4, a5, a6, a7, a8, a9, a10, a11, a12, a13, a14, a15⟩ := h
  have hjm : ∀ i ∈ s'.jobs, i ∈ s.jobs ∨ i = s.trk.length := by
    intro i hi; rw [hjobs] at hi; simp_all
  constructor
  · omega
  · omega
  · intro i hi; rw [hg, hcid]; have := a3 i hi; grind
  · intro i hi hi'; rw [hg, hcid]; have := a4 i hi; grind [errTrk]
  · intro i hi; rw [hparked] at hi; have := a5 i hi; omega
  · rw [hparked]; exact a6
  · simp
  · intro hab'; rw [hab] at hab'; simp at hab'
  · intro i hi hi'; rw [hg]; have := a9 i hi; grind [errTrk]
  · intro hab'; rw [hab] at hab'; simp at hab'
  · rw [hexc, hab]
  · intro _; refine ⟨s.trk.length, by rw [hjobs]; simp, ?_⟩
    rw [hg]; simp
  · intro i hi
    rcases hjm i hi with hi | hi
    · have hlt := (a14 i hi).2
      rw [TOK_congr (by rw [hg]; simp [hlt]) h1 h2 h3]; exact a13 i hi
    · subst hi
      refine ⟨by simp [hg], fun _ => ⟨e, by simp [hg], (Legit_congr h1 h2 h3 e).mpr he⟩⟩
  · intro i hi
    rcases hjm i hi with hi | hi
    · have := a14 i hi; omega
    · omega
  · intro ho
    obtain ⟨p, p1, p2, p3, p4⟩ := a15 ho
    refine ⟨p, p1, by omega, ?_, ?_⟩
    · rw [hjobs, hlen, p3]
      have : s.trk.length + 1 - p = (s.trk.length - p) + 1 := by omega
      rw [this, List.range'_concat]; simp; omega
    · intro i hi hi'; rw [hg]; have := p4 i hi hi'; grind

/-- The backend takes parked batch number `k` (tracker `i`) to complete it. -/
theorem InvT_erase {c : Cfg} {t0 : Nat} {s s' : St} {k i : Nat} (h : InvT c t0 none s)
    (hk : s.parked[k]? = some i)
    (htrk : s'.trk = s.trk) (hjobs : s'.jobs = s.jobs) (hparked : s'.parked = s.parked.eraseIdx k)
    (hcid : s'.callId = s.callId) (hab : s'.aborting = s.aborting) (hexc : s'.exception = s.exception)
    (h1 : s'.failIds = s.failIds) (h2 : s'.base = s.base) (h3 : s'.spec = s.spec) :
    InvT c t0 (some i) s' := by
  have hg : ∀ j, getTrk s' j = getTrk s j := getTrk_same htrk
  obtain ⟨a1, a2, a3, a4, a5, a6, a7, a8, a9, a10, a11, a12, a13, a14, a15⟩ := h
  have hm := mem_eraseIdx_of_nodup a6 hk
  constructor
  · rw [htrk]; exact a1
  · rw [hcid]; exact a2
  · intro i hi; rw [hg, hcid]; exact a3 i hi
  · intro i hi hi'; rw [hg, hcid]; rw [htrk] at hi'; exact a4 i hi hi'
  · intro j hj; rw [htrk]; rw [hparked] at hj; exact a5 j ((hm j).1.mpr (Or.inl hj))
  · rw [hparked]; exact a6.eraseIdx k
  · intro x hx; rw [hparked]; simp only [Option.some.injEq] at hx; subst hx; exact (hm 0).2
  · intro hab' j hj hj'; rw [hg, hparked]; rw [htrk] at hj'; rw [hab] at hab'
    rw [a8 hab' j hj hj', (hm j).1]; simp [eq_comm]
  · intro i hi hi'; rw [hg]; rw [htrk] at hi'; exact a9 i hi hi'
  · intro hab' i hi hi'; rw [hg]; rw [htrk] at hi'; rw [hab] at hab'; exact a10 hab' i hi hi'
  · rw [hexc, hab]; exact a11
  · intro hab'; rw [hab] at hab'; obtain ⟨i, hi, hs⟩ := a12 hab'
    exact ⟨i, by rw [hjobs]; exact hi, by rw [hg]; exact hs⟩
  · intro i hi; rw [hjobs] at hi; rw [TOK_congr (hg i) h1 h2 h3]; exact a13 i hi
  · intro i hi; rw [hjobs] at hi; rw [htrk]; exact a14 i hi
  · intro ho; obtain ⟨p, p1, p2, p3, p4⟩ := a15 ho
    exact ⟨p, p1, by rw [htrk]; exact p2, by rw [hjobs, htrk]; exact p3,
      fun i hi hi' => by rw [hg]; exact p4 i hi hi'⟩

/-- A stale callback, or a callback arriving while the call is aborting, returns at its guard. -/
theorem InvT_hole_drop {c : Cfg} {t0 : Nat} {s : St} {i : Nat} (h : InvT c t0 (some i) s)
    (hs : s.aborting = true ∨ ¬ (t0 ≤ i ∧ i < s.trk.length)) : InvT c t0 none s := by
  obtain ⟨a1, a2, a3, a4, a5, a6, a7, a8, a9, a10, a11, a12, a13, a14, a15⟩ := h
  refine ⟨a1, a2, a3, a4, a5, a6, by simp, ?_, a9, a10, a11, a12, a13, a14, a15⟩
  intro hab j hj hj'
  rw [a8 hab j hj hj']
  rcases hs with hs | hs
  · rw [hab] at hs; simp at hs
  · have : i ≠ j := by intro hij; subst hij; exact hs ⟨hj, hj'⟩
    simp [this]

/-- The completion callback of tracker `i` registers a successful outcome. -/
theorem InvT_complete {c : Cfg} {t0 : Nat} {s s' : St} {i : Nat} (h : InvT c t0 (some i) s)
    (hi0 : t0 ≤ i) (hi1 : i < s.trk.length) (hna : s.aborting = false)
    (htrk : s'.trk = s.trk.set i { getTrk s i with status := .done, result := .vals (getTrk s i).items })
    (hjobs : s'.jobs = if ordered c then s.jobs else s.jobs ++ [i])
    (hparked : s'.parked = s.parked)
    (hcid : s'.callId = s.callId) (hab : s'.aborting = s.aborting) (hexc : s'.exception = s.exception)
    (h1 : s'.failIds = s.failIds) (h2 : s'.base = s.base) (h3 : s'.spec = s.spec) :
    InvT c t0 none s' := by
  have hlen : s'.trk.length = s.trk.length := by simp [htrk]
  have hg := getTrk_set htrk
  obtain ⟨a1, a2, a3, a4, a5, a6, a7, a8, a9, a10, a11, a12, a13, a14, a15⟩ := h
  have hjm : ∀ j ∈ s'.jobs, j ∈ s.jobs ∨ j = i := by
    intro j hj; rw [hjobs] at hj; split at hj <;> simp_all
  have hnp : i ∉ s.parked := a7 i rfl
  constructor
  · omega
  · omega
  · intro j hj; rw [hg, hcid]; have := a3 j hj; grind
  · intro j hj hj'; rw [hg, hcid]; have := a4 j hj; grind
  · intro j hj; rw [hparked] at hj; have := a5 j hj; omega
  · rw [hparked]; exact a6
  · simp
  · intro hab' j hj hj'; rw [hg, hparked]; have := a8 hna j hj; grind
  · intro j hj hj'; rw [hg]; have := a9 j hj; have := a10 hna i hi0 hi1; grind
  · intro hab' j hj hj'; rw [hg]; have := a10 hna j hj; grind
  · rw [hexc, hab]; exact a11
  · rw [hab, hna]; simp
  · intro j hj
    by_cases hji : j = i
    · subst hji; simp [TOK, hg, hi1]
    · rcases hjm j hj with hj | hj
      · rw [TOK_congr (by rw [hg]; simp [Ne.symm hji]) h1 h2 h3]; exact a13 j hj
      · exact absurd hj hji
  · intro j hj
    rcases hjm j hj with hj | hj
    · have := a14 j hj; omega
    · omega
  · intro ho
    obtain ⟨p, p1, p2, p3, p4⟩ := a15 ho
    refine ⟨p, p1, by omega, ?_, ?_⟩
    · rw [hjobs, hlen, p3]; simp [ho]
    · intro j hj hj'; rw [hg]; have := p4 j hj hj'; grind

/-- An error is registered on the pending tracker `i` of this call (a task raised, or the caller's timeout
expired): the call becomes aborting. -/
theorem InvT_fail {c : Cfg} {t0 : Nat} {hole : Option Nat} {s s' : St} {i : Nat} {e : Exc}
    (h : InvT c t0 hole s)
    (hi0 : t0 ≤ i) (hi1 : i < s.trk.length) (hp : (getTrk s i).status = .pending) (he : Legit c s e)
    (htrk : s'.trk = s.trk.set i { getTrk s i with status := .error, result := .exc e })
    (hjobs : s'.jobs = if ordered c then s.jobs else s.jobs ++ [i])
    (hparked : s'.parked = s.parked)
    (hcid : s'.callId = s.callId) (hab : s'.aborting = true) (hexc : s'.exception = true)
    (h1 : s'.failIds = s.failIds) (h2 : s'.base = s.base) (h3 : s'.spec = s.spec) :
    InvT c t0 none s' := by
  have hlen : s'.trk.length = s.trk.length := by simp [htrk]
  have hg := getTrk_set htrk
  obtain ⟨a1, a2, a3, a4, a5, a6, a7, a8, a9, a10, a11, a12, a13, a14, a15⟩ := h
  have hjm : ∀ j ∈ s'.jobs, j ∈ s.jobs ∨ j = i := by
    intro j hj; rw [hjobs] at hj; split at hj <;> simp_all
  constructor
  · omega
  · omega
  · intro j hj; rw [hg, hcid]; have := a3 j hj; grind
  · intro j hj hj'; rw [hg, hcid]; have := a4 j hj; grind
  · intro j hj; rw [hparked] at hj; have := a5 j hj; omega
  · rw [hparked]; exact a6
  · simp
  · intro hab'; rw [hab] at hab'; simp at hab'
  · intro j hj hj'; rw [hg]; have := a9 j hj; grind
  · intro hab'; rw [hab] at hab'; simp at hab'
  · rw [hexc, hab]
  · intro _
    refine ⟨i, ?_, by rw [hg]; simp [hi1]⟩
    rw [hjobs]
    by_cases ho : ordered c = true
    · obtain ⟨p, p1, p2, p3, p4⟩ := a15 ho
      simp only [ho, if_true]; rw [p3, List.mem_range'_1]
      have : ¬ i < p := fun hlt => p4 i hi0 hlt hp
      omega
    · simp [ho]
  · intro j hj
    by_cases hji : j = i
    · subst hji
      refine ⟨by simp [hg, hi1], fun _ => ⟨e, by simp [hg, hi1], (Legit_congr h1 h2 h3 e).mpr he⟩⟩
    · rcases hjm j hj with hj | hj
      · rw [TOK_congr (by rw [hg]; simp [Ne.symm hji]) h1 h2 h3]; exact a13 j hj
      · exact absurd hj hji
  · intro j hj
    rcases hjm j hj with hj | hj
    · have := a14 j hj; omega
    · omega
  · intro ho
    obtain ⟨p, p1, p2, p3, p4⟩ := a15 ho
    refine ⟨p, p1, by omega, ?_, ?_⟩
    · rw [hjobs, hlen, p3]; simp [ho]
    · intro j hj hj'; rw [hg]; have := p4 j hj hj'; grind

/-- Tracker `i` is replaced by one that differs only in fields the invariant does not read (`toCounter`). -/
theorem InvT_set_aux {c : Cfg} {t0 : Nat} {hole : Option Nat} {s s' : St} {i : Nat} {t : Tracker}
    (h : InvT c t0 hole s)
    (ht : t.items = (getTrk s i).items ∧ t.bsize = (getTrk s i).bsize ∧ t.callId = (getTrk s i).callId ∧
          t.status = (getTrk s i).status ∧ t.result = (getTrk s i).result)
    (htrk : s'.trk = s.trk.set i t)
    (hjobs : s'.jobs = s.jobs) (hparked : s'.parked = s.parked)
    (hcid : s'.callId = s.callId) (hab : s'.aborting = s.aborting) (hexc : s'.exception = s.exception)
    (h1 : s'.failIds = s.failIds) (h2 : s'.base = s.base) (h3 : s'.spec = s.spec) :
    InvT c t0 hole s' := by
  have hlen : s'.trk.length = s.trk.length := by simp [htrk]
  have hg := getTrk_set htrk
  obtain ⟨t1, t2, t3, t4, t5⟩ := ht
  have hgi : ∀ j, (getTrk s' j).items = (getTrk s j).items := by intro j; rw [hg]; grind
  have hgb : ∀ j, (getTrk s' j).bsize = (getTrk s j).bsize := by intro j; rw [hg]; grind
  have hgc : ∀ j, (getTrk s' j).callId = (getTrk s j).callId := by intro j; rw [hg]; grind
  have hgs : ∀ j, (getTrk s' j).status = (getTrk s j).status := by intro j; rw [hg]; grind
  have hgr : ∀ j, (getTrk s' j).result = (getTrk s j).result := by intro j; rw [hg]; grind
  obtain ⟨a1, a2, a3, a4, a5, a6, a7, a8, a9, a10, a11, a12, a13, a14, a15⟩ := h
  constructor
  · omega
  · omega
  · intro j hj; rw [hgc, hcid]; exact a3 j hj
  · intro j hj hj'; rw [hgc, hcid]; exact a4 j hj (by omega)
  · intro j hj; rw [hparked] at hj; have := a5 j hj; omega
  · rw [hparked]; exact a6
  · intro x hx; rw [hparked]; exact a7 x hx
  · intro hab' j hj hj'; rw [hgs, hparked]; rw [hab] at hab'; exact a8 hab' j hj (by omega)
  · intro j hj hj'; rw [hgs, hgi, hgb]; exact a9 j hj (by omega)
  · intro hab' j hj hj'; rw [hgs]; rw [hab] at hab'; exact a10 hab' j hj (by omega)
  · rw [hexc, hab]; exact a11
  · intro hab'; rw [hab] at hab'; obtain ⟨j, hj, hs⟩ := a12 hab'
    exact ⟨j, by rw [hjobs]; exact hj, by rw [hgs]; exact hs⟩
  · intro j hj; rw [hjobs] at hj
    have := a13 j hj
    simp only [TOK, hgs, hgr, hgi, Legit_congr h1 h2 h3] at this ⊢
    exact this
  · intro j hj; rw [hjobs] at hj; rw [hlen]; exact a14 j hj
  · intro ho; obtain ⟨p, p1, p2, p3, p4⟩ := a15 ho
    exact ⟨p, p1, by omega, by rw [hjobs, hlen]; exact p3,
      fun j hj hj' => by rw [hgs]; exact p4 j hj hj'⟩

/-- `_jobs.popleft()` of a tracker that is no longer pending (the call is not aborting). -/
theorem InvT_pop {c : Cfg} {t0 : Nat} {s s' : St} {i : Nat} {rest : List Nat}
    (h : InvT c t0 none s) (hj : s.jobs = i :: rest) (hnp : (getTrk s i).status ≠ .pending)
    (hna : s.aborting = false)
    (htrk : s'.trk = s.trk) (hjobs : s'.jobs = rest) (hparked : s'.parked = s.parked)
    (hcid : s'.callId = s.callId) (hab : s'.aborting = s.aborting) (hexc : s'.exception = s.exception)
    (h1 : s'.failIds = s.failIds) (h2 : s'.base = s.base) (h3 : s'.spec = s.spec) :
    InvT c t0 none s' ∧ (ordered c = true → i ∉ rest) := by
  have hg : ∀ j, getTrk s' j = getTrk s j := getTrk_same htrk
  obtain ⟨a1, a2, a3, a4, a5, a6, a7, a8, a9, a10, a11, a12, a13, a14, a15⟩ := h
  have hsub : ∀ j ∈ rest, j ∈ s.jobs := by intro j hj'; rw [hj]; exact List.mem_cons_of_mem _ hj'
  refine ⟨?_, ?_⟩
  constructor
  · rw [htrk]; exact a1
  · rw [hcid]; exact a2
  · intro i hi; rw [hg, hcid]; exact a3 i hi
  · intro i hi hi'; rw [hg, hcid]; rw [htrk] at hi'; exact a4 i hi hi'
  · intro i hi; rw [htrk]; rw [hparked] at hi; exact a5 i hi
  · rw [hparked]; exact a6
  · simp
  · intro hab' i hi hi'; rw [hg, hparked]; rw [htrk] at hi'; rw [hab] at hab'; exact a8 hab' i hi hi'
  · intro i hi hi'; rw [hg]; rw [htrk] at hi'; exact a9 i hi hi'
  · intro hab' i hi hi'; rw [hg]; rw [htrk] at hi'; rw [hab] at hab'; exact a10 hab' i hi hi'
  · rw [hexc, hab]; exact a11
  · rw [hab, hna]; simp
  · intro j hj'; rw [hjobs] at hj'; rw [TOK_congr (hg j) h1 h2 h3]; exact a13 j (hsub j hj')
  · intro j hj'; rw [hjobs] at hj'; rw [htrk]; exact a14 j (hsub j hj')
  · intro ho; obtain ⟨p, p1, p2, p3, p4⟩ := a15 ho
    rw [hj] at p3
    have hpl : p < s.trk.length := by
      rcases Nat.lt_or_ge p s.trk.length with hlt | hge
      · exact hlt
      · have : s.trk.length - p = 0 := by omega
        rw [this] at p3; simp at p3
    have hsplit : s.trk.length - p = (s.trk.length - (p + 1)) + 1 := by omega
    rw [hsplit, List.range'_succ] at p3
    simp only [List.cons.injEq] at p3
    obtain ⟨q1, q2⟩ := p3
    refine ⟨p + 1, by omega, by rw [htrk]; omega, by rw [hjobs, htrk]; exact q2, ?_⟩
    intro j hj0 hj1
    rw [hg]
    by_cases hjp : j < p
    · exact p4 j hj0 hjp
    · have : j = i := by omega
      subst this; exact hnp
  · intro ho; obtain ⟨p, p1, p2, p3, p4⟩ := a15 ho
    rw [hj] at p3
    have hpl : p < s.trk.length := by
      rcases Nat.lt_or_ge p s.trk.length with hlt | hge
      · exact hlt
      · have : s.trk.length - p = 0 := by omega
        rw [this] at p3; simp at p3
    have hsplit : s.trk.length - p = (s.trk.length - (p + 1)) + 1 := by omega
    rw [hsplit, List.range'_succ] at p3
    simp only [List.cons.injEq] at p3
    obtain ⟨q1, q2⟩ := p3
    rw [q2, List.mem_range'_1]; omega

/-- `get_result()` of a popped tracker deletes its `_result`. -/
theorem InvT_consume {c : Cfg} {t0 : Nat} {s s' : St} {i : Nat}
    (h : InvT c t0 none s) (hni : i ∉ s.jobs)
    (htrk : s'.trk = s.trk.set i { getTrk s i with result := .none })
    (hjobs : s'.jobs = s.jobs) (hparked : s'.parked = s.parked)
    (hcid : s'.callId = s.callId) (hab : s'.aborting = s.aborting) (hexc : s'.exception = s.exception)
    (h1 : s'.failIds = s.failIds) (h2 : s'.base = s.base) (h3 : s'.spec = s.spec) :
    InvT c t0 none s' := by
  have hlen : s'.trk.length = s.trk.length := by simp [htrk]
  have hg := getTrk_set htrk
  have hgi : ∀ j, (getTrk s' j).items = (getTrk s j).items := by intro j; rw [hg]; grind
  have hgb : ∀ j, (getTrk s' j).bsize = (getTrk s j).bsize := by intro j; rw [hg]; grind
  have hgc : ∀ j, (getTrk s' j).callId = (getTrk s j).callId := by intro j; rw [hg]; grind
  have hgs : ∀ j, (getTrk s' j).status = (getTrk s j).status := by intro j; rw [hg]; grind
  obtain ⟨a1, a2, a3, a4, a5, a6, a7, a8, a9, a10, a11, a12, a13, a14, a15⟩ := h
  constructor
  · omega
  · omega
  · intro j hj; rw [hgc, hcid]; exact a3 j hj
  · intro j hj hj'; rw [hgc, hcid]; exact a4 j hj (by omega)
  · intro j hj; rw [hparked] at hj; have := a5 j hj; omega
  · rw [hparked]; exact a6
  · intro x hx; rw [hparked]; exact a7 x hx
  · intro hab' j hj hj'; rw [hgs, hparked]; rw [hab] at hab'; exact a8 hab' j hj (by omega)
  · intro j hj hj'; rw [hgs, hgi, hgb]; exact a9 j hj (by omega)
  · intro hab' j hj hj'; rw [hgs]; rw [hab] at hab'; exact a10 hab' j hj (by omega)
  · rw [hexc, hab]; exact a11
  · intro hab'; rw [hab] at hab'; obtain ⟨j, hj, hs⟩ := a12 hab'
    exact ⟨j, by rw [hjobs]; exact hj, by rw [hgs]; exact hs⟩
  · intro j hj; rw [hjobs] at hj
    have hji : i ≠ j := fun e => hni (e ▸ hj)
    rw [TOK_congr (by rw [hg]; simp [hji]) h1 h2 h3]; exact a13 j hj
  · intro j hj; rw [hjobs] at hj; rw [hlen]; exact a14 j hj
  · intro ho; obtain ⟨p, p1, p2, p3, p4⟩ := a15 ho
    exact ⟨p, p1, by omega, by rw [hjobs, hlen]; exact p3,
      fun j hj hj' => by rw [hgs]; exact p4 j hj hj'⟩

end JoblibModel.ParallelProto
