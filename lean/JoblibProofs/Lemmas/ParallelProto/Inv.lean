import JoblibProofs.Lemmas.ParallelProto.Prims
/-!
The invariant of a `Parallel` call in progress (M1), split by topic:
`InvT` trackers and queues, `InvS` input source / conservation / counters, `InvL` liveness bookkeeping.
`t0` is the number of trackers that existed when the call started: the call's own trackers are `s.trk.drop t0`.
-/
namespace JoblibModel.ParallelProto

/-- The configurations of the model's domain: at least one worker slot, scripted batch sizes ≥ 1. -/
structure CfgOK (c : Cfg) : Prop where
  nj : 1 ≤ c.nj
  bs : ∀ b ∈ c.bs, 1 ≤ b

/-- The largest batch size the script can return (1 if the script is empty). -/
def bmax (c : Cfg) : Nat := c.bs.foldr max 1

theorem le_foldr_max {b : Nat} : ∀ {l : List Nat}, b ∈ l → b ≤ l.foldr max 1 := by
  intro l
  induction l with
  | nil => intro h; simp at h
  | cons x xs ih =>
    intro h
    simp only [List.mem_cons] at h
    simp only [List.foldr_cons]
    rcases h with h | h
    · subst h; omega
    · have := ih h; omega

theorem le_bmax_of_mem {c : Cfg} {b : Nat} (h : b ∈ c.bs) : b ≤ bmax c := le_foldr_max h

theorem one_le_foldr_max : ∀ (l : List Nat), 1 ≤ l.foldr max 1 := by
  intro l
  induction l with
  | nil => simp
  | cons x xs ih => simp only [List.foldr_cons]; omega

theorem one_le_bmax (c : Cfg) : 1 ≤ bmax c := one_le_foldr_max _

theorem scriptedBs_pos {c : Cfg} (hc : CfgOK c) (s : St) : 1 ≤ scriptedBs c s := by
  unfold scriptedBs
  rw [List.getD_eq_getElem?_getD]
  cases h : c.bs[min s.bsI (c.bs.length - 1)]? with
  | none => simp
  | some b => simpa using hc.bs b (List.mem_of_getElem? h)

theorem scriptedBs_le_bmax (c : Cfg) (s : St) : scriptedBs c s ≤ bmax c := by
  unfold scriptedBs
  rw [List.getD_eq_getElem?_getD]
  cases h : c.bs[min s.bsI (c.bs.length - 1)]? with
  | none => simpa using one_le_bmax c
  | some b => simpa using le_bmax_of_mem (List.mem_of_getElem? h)

/-- The trackers created by the running call, in creation order. -/
def own (t0 : Nat) (s : St) : List Tracker := s.trk.drop t0

/-- The task ids dispatched by the running call, in dispatch order. -/
def dispItems (t0 : Nat) (s : St) : List Nat := ((own t0 s).map (·.items)).flatten

/-- Total size of the pending trackers of a table. -/
def pendSum (l : List Tracker) : Nat := ((l.filter (fun t => t.status == .pending)).map (·.bsize)).sum

/-- The exceptions a call may legitimately raise to its caller. -/
def Legit (c : Cfg) (s : St) : Exc → Prop
  | .task id => id ∈ s.failIds ∧ s.base ≤ id ∧ id < s.base + s.spec.n
  | .iter pos => 0 ≤ s.spec.iterfail ∧ ((pos : Nat) : Int) = (s.base : Int) + s.spec.iterfail
  | .timeout => 0 ≤ c.timeout
  | _ => False

/-- Tracker `i`'s registered outcome is intact. -/
def TOK (c : Cfg) (s : St) (i : Nat) : Prop :=
  ((getTrk s i).status = .done → (getTrk s i).result = .vals (getTrk s i).items) ∧
  ((getTrk s i).status = .error → ∃ e, (getTrk s i).result = .exc e ∧ Legit c s e)

/-- Trackers and queues. `hole = some i`: tracker `i` has just been taken out of `parked` by the backend and its
completion callback has not yet registered the outcome (the only moment a pending tracker is not parked). -/
structure InvT (c : Cfg) (t0 : Nat) (hole : Option Nat) (s : St) : Prop where
  t0_le : t0 ≤ s.trk.length
  callId_pos : 0 < s.callId
  stale : ∀ i, i < t0 → (getTrk s i).callId < s.callId
  ownId : ∀ i, t0 ≤ i → i < s.trk.length → (getTrk s i).callId = s.callId
  parked_lt : ∀ i ∈ s.parked, i < s.trk.length
  parked_nodup : s.parked.Nodup
  hole_notin : ∀ h, hole = some h → h ∉ s.parked
  parked_pending : s.aborting = false → ∀ i, t0 ≤ i → i < s.trk.length →
    ((getTrk s i).status = .pending ↔ (i ∈ s.parked ∨ hole = some i))
  items_ok : ∀ i, t0 ≤ i → i < s.trk.length → (getTrk s i).status ≠ .error →
    (getTrk s i).items ≠ [] ∧ (getTrk s i).bsize = (getTrk s i).items.length
  no_error : s.aborting = false → ∀ i, t0 ≤ i → i < s.trk.length → (getTrk s i).status ≠ .error
  abort_exc : s.exception = s.aborting
  abort_err : s.aborting = true → ∃ i ∈ s.jobs, (getTrk s i).status = .error
  tok : ∀ i ∈ s.jobs, TOK c s i
  jobs_own : ∀ i ∈ s.jobs, t0 ≤ i ∧ i < s.trk.length
  ord_jobs : ordered c = true → ∃ p, t0 ≤ p ∧ p ≤ s.trk.length ∧
    s.jobs = List.range' p (s.trk.length - p) ∧
    ∀ i, t0 ≤ i → i < p → (getTrk s i).status ≠ .pending

/-- Input source, conservation, counters. -/
structure InvS (c : Cfg) (t0 : Nat) (s : St) : Prop where
  src_le : s.srcPos ≤ s.spec.n
  src_iter : 0 ≤ s.spec.iterfail → (s.srcPos : Int) ≤ s.spec.iterfail
  dead : s.aborting = false → s.srcDead = true →
    s.srcPos = s.spec.n ∧ (s.srcPos : Int) ≠ s.spec.iterfail
  cons : s.aborting = false → dispItems t0 s ++ s.ready.flatten = List.range' s.base s.srcPos
  ready_ne : ∀ b ∈ s.ready, b ≠ []
  ready_range : ∀ b ∈ s.ready, ∀ id ∈ b, s.base ≤ id ∧ id < s.base + s.spec.n
  items_range : ∀ i, t0 ≤ i → i < s.trk.length → ∀ id ∈ (getTrk s i).items,
    s.base ≤ id ∧ id < s.base + s.spec.n
  ndisp : s.aborting = false → s.nDispTasks = (dispItems t0 s).length
  ncomp : s.aborting = false → s.nCompleted + pendSum (own t0 s) = s.nDispTasks

/-- Liveness bookkeeping. -/
structure InvL (c : Cfg) (t0 : Nat) (s : St) : Prop where
  iter_orig : s.iterating = true → s.origAlive = true
  orig_mode : s.origAlive = true → c.pdMode ≠ 1
  pre_mode : c.pdMode = 1 → s.preLeft = none
  orig_exh : c.pdMode ≠ 1 → s.origAlive = false → s.aborting = false →
    s.ready = [] ∧ s.srcDead = true

/-- Number of parked (submitted, not completed) batches of the running call. -/
def ownParked (t0 : Nat) (s : St) : Nat := (s.parked.filter (fun i => decide (t0 ≤ i))).length

/-- Size bounds (C09): every batch is at most `bmax` long, the look-ahead queue holds at most `n_jobs · bmax`
tasks, and the input position is paid for by `pre_dispatch` plus `n_jobs · bmax` per completed task. -/
structure InvB (c : Cfg) (t0 : Nat) (s : St) : Prop where
  items_le : ∀ i, t0 ≤ i → i < s.trk.length → (getTrk s i).items.length ≤ bmax c
  ready_le : ∀ b ∈ s.ready, b.length ≤ bmax c
  ready_tot : s.ready.flatten.length ≤ c.nj * bmax c
  budget : c.pdMode ≠ 1 → ∃ r, s.preLeft = some r ∧
    s.srcPos + r ≤ c.pd + s.nCompleted * (c.nj * bmax c)

/-- While `_iterating` is set (and the call is not aborting) some batch of this call is still pending: the
completion callback that will either dispatch more or clear the flag is yet to come. -/
def IterPend (t0 : Nat) (s : St) : Prop :=
  s.aborting = false → s.iterating = true →
    ∃ i, t0 ≤ i ∧ i < s.trk.length ∧ (getTrk s i).status = .pending

/-- The invariant of a call in progress (`_start` has begun; `finally` has not run). -/
structure Inv (c : Cfg) (t0 : Nat) (s : St) : Prop where
  T : InvT c t0 none s
  S : InvS c t0 s
  L : InvL c t0 s
  P : IterPend t0 s

/-! ### list helpers for `own`, `dispItems`, `pendSum` -/

theorem pendSum_append (l₁ l₂ : List Tracker) : pendSum (l₁ ++ l₂) = pendSum l₁ + pendSum l₂ := by
  simp [pendSum, List.filter_append, List.sum_append]

theorem pendSum_set_same {l : List Tracker} {i : Nat} {t : Tracker} (hi : i < l.length)
    (hs : t.status = l[i].status) (hb : t.bsize = l[i].bsize) : pendSum (l.set i t) = pendSum l := by
  induction l generalizing i with
  | nil => simp at hi
  | cons x xs ih =>
    cases i with
    | zero =>
      simp only [List.getElem_cons_zero] at hs hb
      simp only [pendSum, List.set_cons_zero, List.filter_cons, hs]
      split <;> simp [hb]
    | succ j =>
      simp only [List.length_cons, Nat.add_lt_add_iff_right] at hi
      simp only [List.getElem_cons_succ] at hs hb
      have := ih hi hs hb
      simp only [pendSum, List.set_cons_succ, List.filter_cons] at this ⊢
      split <;> simp [this]

theorem pendSum_set_complete {l : List Tracker} {i : Nat} {t : Tracker} (hi : i < l.length)
    (hp : l[i].status = .pending) (hs : t.status ≠ .pending) :
    pendSum (l.set i t) + l[i].bsize = pendSum l := by
  induction l generalizing i with
  | nil => simp at hi
  | cons x xs ih =>
    cases i with
    | zero =>
      simp only [List.getElem_cons_zero] at hp
      simp [pendSum, hp, hs]
      omega
    | succ j =>
      simp only [List.length_cons, Nat.add_lt_add_iff_right] at hi
      simp only [List.getElem_cons_succ] at hp
      have := ih hi hp
      simp only [pendSum, List.set_cons_succ, List.filter_cons, List.getElem_cons_succ] at this ⊢
      split
      · simp only [List.map_cons, List.sum_cons]; omega
      · exact this

theorem pendSum_pos_iff (l : List Tracker) :
    0 < pendSum l ↔ ∃ t ∈ l, t.status = .pending ∧ 0 < t.bsize := by
  induction l with
  | nil => simp [pendSum]
  | cons x xs ih =>
    simp only [pendSum, List.filter_cons] at ih ⊢
    by_cases h : x.status = .pending
    · simp only [h, beq_self_eq_true, if_true, List.map_cons, List.sum_cons, List.mem_cons, exists_eq_or_imp,
        true_and]
      constructor
      · intro hp
        by_cases hx : 0 < x.bsize
        · exact Or.inl hx
        · right; apply ih.mp; omega
      · rintro (hx | hx)
        · omega
        · have := ih.mpr hx; omega
    · have : (x.status == Status.pending) = false := by simpa using h
      simp only [this, Bool.false_eq_true, if_false, List.mem_cons, exists_eq_or_imp, h, false_and, false_or]
      exact ih

theorem items_map_set {l : List Tracker} {i : Nat} {t : Tracker} (hi : i < l.length)
    (h : t.items = l[i].items) : (l.set i t).map (·.items) = l.map (·.items) := by
  rw [List.map_set, h]
  apply List.ext_getElem?
  intro j
  simp only [List.getElem?_set, List.length_map, List.getElem?_map]
  by_cases hij : i = j
  · subst hij; simp [hi]
  · simp [hij]

/-! ### access to a modified tracker table -/

theorem getTrk_push {s s' : St} {t : Tracker} (h : s'.trk = s.trk ++ [t]) (i : Nat) :
    getTrk s' i = if i < s.trk.length then getTrk s i else if i = s.trk.length then t else default := by
  simp only [getTrk, h, List.getD_eq_getElem?_getD]
  by_cases h1 : i < s.trk.length
  · simp [h1, List.getElem?_append_left h1]
  · by_cases h2 : i = s.trk.length
    · subst h2; simp
    · have : s.trk.length + 1 ≤ i := by omega
      simp [h1, h2]
      rw [List.getElem?_eq_none]; simp; simp; omega

theorem getTrk_set {s s' : St} {i : Nat} {t : Tracker} (h : s'.trk = s.trk.set i t) (j : Nat) :
    getTrk s' j = if i = j ∧ i < s.trk.length then t else getTrk s j := by
  have := getTrk_setTrk s i j t
  simp only [getTrk, setTrk] at this ⊢
  rw [h]; exact this

theorem getTrk_same {s s' : St} (h : s'.trk = s.trk) (j : Nat) : getTrk s' j = getTrk s j := by
  simp [getTrk, h]

theorem own_push {t0 : Nat} {s s' : St} {t : Tracker} (h : s'.trk = s.trk ++ [t]) (h0 : t0 ≤ s.trk.length) :
    own t0 s' = own t0 s ++ [t] := by
  simp [own, h, List.drop_append_of_le_length h0]

theorem dispItems_push {t0 : Nat} {s s' : St} {t : Tracker} (h : s'.trk = s.trk ++ [t])
    (h0 : t0 ≤ s.trk.length) : dispItems t0 s' = dispItems t0 s ++ t.items := by
  simp [dispItems, own_push h h0]

theorem own_set {t0 : Nat} {s s' : St} {i : Nat} {t : Tracker} (h : s'.trk = s.trk.set i t) (h0 : t0 ≤ i) :
    own t0 s' = (own t0 s).set (i - t0) t := by
  simp only [own, h, List.drop_set]
  rw [if_neg (by omega)]

theorem own_getElem {t0 : Nat} {s : St} {i : Nat} (h0 : t0 ≤ i) (h1 : i < s.trk.length) :
    ∃ h : i - t0 < (own t0 s).length, (own t0 s)[i - t0] = getTrk s i := by
  have : i - t0 < (own t0 s).length := by simp [own]; omega
  refine ⟨this, ?_⟩
  simp only [own, List.getElem_drop, getTrk_lt h1]
  congr 1; omega

theorem dispItems_set {t0 : Nat} {s s' : St} {i : Nat} {t : Tracker} (h : s'.trk = s.trk.set i t)
    (hi : t.items = (getTrk s i).items) : dispItems t0 s' = dispItems t0 s := by
  by_cases h1 : i < s.trk.length
  · by_cases h0 : t0 ≤ i
    · obtain ⟨hl, he⟩ := own_getElem h0 h1
      simp only [dispItems, own_set h h0]
      rw [items_map_set hl (by rw [he]; exact hi)]
    · simp only [dispItems, own, h, List.drop_set]
      rw [if_pos (by omega)]
  · have : s'.trk = s.trk := by rw [h]; exact List.set_eq_of_length_le (by omega)
    simp [dispItems, own, this]

theorem pendSum_own_set_same {t0 : Nat} {s s' : St} {i : Nat} {t : Tracker} (h : s'.trk = s.trk.set i t)
    (hs : t.status = (getTrk s i).status) (hb : t.bsize = (getTrk s i).bsize) :
    pendSum (own t0 s') = pendSum (own t0 s) := by
  by_cases h1 : i < s.trk.length
  · by_cases h0 : t0 ≤ i
    · obtain ⟨hl, he⟩ := own_getElem h0 h1
      rw [own_set h h0]
      exact pendSum_set_same hl (by rw [he]; exact hs) (by rw [he]; exact hb)
    · simp only [own, h, List.drop_set]
      rw [if_pos (by omega)]
  · have : s'.trk = s.trk := by rw [h]; exact List.set_eq_of_length_le (by omega)
    simp [own, this]

theorem pendSum_own_set_complete {t0 : Nat} {s s' : St} {i : Nat} {t : Tracker} (h : s'.trk = s.trk.set i t)
    (h0 : t0 ≤ i) (h1 : i < s.trk.length)
    (hp : (getTrk s i).status = .pending) (hs : t.status ≠ .pending) :
    pendSum (own t0 s') + (getTrk s i).bsize = pendSum (own t0 s) := by
  obtain ⟨hl, he⟩ := own_getElem h0 h1
  rw [own_set h h0, ← he]
  exact pendSum_set_complete hl (by rw [he]; exact hp) hs

theorem Legit_congr {c : Cfg} {s s' : St} (h1 : s'.failIds = s.failIds) (h2 : s'.base = s.base)
    (h3 : s'.spec = s.spec) (e : Exc) : Legit c s' e ↔ Legit c s e := by
  cases e <;> simp [Legit, h1, h2, h3]

theorem TOK_congr {c : Cfg} {s s' : St} {i : Nat} (h0 : getTrk s' i = getTrk s i)
    (h1 : s'.failIds = s.failIds) (h2 : s'.base = s.base)
    (h3 : s'.spec = s.spec) : TOK c s' i ↔ TOK c s i := by
  simp only [TOK, h0, Legit_congr h1 h2 h3]

end JoblibModel.ParallelProto
