import JoblibProofs.Lemmas.ParallelProto.Call
/-!
The output generator seen by its consumer: `genNext`, pauses (`hook c false`), `genClose`; one-step facts used by
C04 / C09 / C16 (promptness, timeout, failing batch, abort makes dispatch a no-op).
-/
namespace JoblibModel.ParallelProto

/-- Outcome of one `next()` on a well-formed generator (ordered modes). -/
def GNPost (c : Cfg) (t0 : Nat) (fuel : Nat) (s : St) (g : Gen) : St × Gen × Out → Prop
  | (s', g', .value v) => GenGood c t0 fuel s' g' ∧
      ((g'.phase = .tail ∨ s'.aborting = false) → restG s g = v :: restG s' g') ∧
      yieldsLeft s' g' + 1 ≤ yieldsLeft s g
  | (s', g', .stop) => g'.phase = .done ∧ Idle s' ∧ Clean s' ∧ s'.exception = false ∧ restG s g = [] ∧
      s'.hung = false
  | (s', g', .raise e) => g'.phase = .done ∧ Idle s' ∧ Clean s' ∧ s'.exception = true ∧ Legit c s e ∧
      s'.hung = false
  | (_, _, .hang) => False

theorem genNext_spec {c : Cfg} (hc : CfgOK c) {t0 : Nat} (ho : ordered c = true) {fuel : Nat} {s : St} {g : Gen}
    (hg : GenGood c t0 fuel s g) : GNPost c t0 fuel s g (genNext c fuel s g) := by
  rcases hg with ⟨hph, hgr, hf1, hfb⟩ | ⟨hph, hgt, hft⟩
  · have hnt : g.phase ≠ .tail := by rcases hph with h | h <;> rw [h] <;> simp
    have hrG : restG s g = g.buf ++ restS s := by simp [restG, hnt]
    have hyl : yieldsLeft s g = g.buf.length + (restS s).length := by simp [yieldsLeft, hnt]
    have key : ∃ g0 : Gen, genNext c fuel s g = retrieveLoop c fuel s g0 ∧ g0.buf = g.buf := by
      unfold genNext
      rcases hph with h | h
      · rw [h]; exact ⟨_, rfl, rfl⟩
      · rw [h]; exact ⟨_, rfl, rfl⟩
    obtain ⟨g0, hgn, hg0⟩ := key
    rw [hgn]
    have hp := retrieveLoop_spec hc ho fuel s g0 hgr hf1 hfb
    generalize retrieveLoop c fuel s g0 = res at hp
    obtain ⟨s1, g1, o⟩ := res
    cases o with
    | value v =>
      obtain ⟨a1, a2⟩ := hp
      rcases a2 with ⟨b1, b2, bf, b3, b4, b6⟩ | ⟨b1, b2, b3, b4, b5, b7, _⟩
      · have hg1 : GenGood c t0 fuel s1 g1 := Or.inl ⟨Or.inr b1, b2, hf1, fun ha1 => by
          have hna : s.aborting = false := by
            cases hx : s.aborting with
            | false => rfl
            | true => rw [a1 hx] at ha1; simp at ha1
          have := b4 ha1; have := hfb hna; omega⟩
        have hrG1 : restG s1 g1 = g1.buf ++ restS s1 := by simp [restG, b1]
        have hyl1 : yieldsLeft s1 g1 = g1.buf.length + (restS s1).length := by simp [yieldsLeft, b1]
        refine ⟨hg1, ?_, by rw [hyl, hyl1, ← hg0]; exact b6⟩
        intro hor
        rcases hor with hor | hor
        · rw [b1] at hor; cases hor
        · rw [hrG, hrG1, ← hg0]; exact b3 hor
      · have hg1 : GenGood c t0 fuel s1 g1 := Or.inr ⟨b1, b2, by have := hfb b3; omega⟩
        have hrG1 : restG s1 g1 = restT s1 g1 := by simp [restG, b1]
        have hyl1 : yieldsLeft s1 g1 = (restT s1 g1).length := by simp [yieldsLeft, b1]
        rw [hg0] at b4
        refine ⟨hg1, fun _ => by rw [hrG, hrG1]; exact b4, ?_⟩
        rw [hyl, hyl1]
        have : (g.buf ++ restS s).length = (restT s1 g1).length + 1 := by rw [b4]; simp
        simp only [List.length_append] at this; omega
    | stop =>
      obtain ⟨a1, a2, a3, a4, _, a6, a7, _, _⟩ := hp
      exact ⟨a1, a2, a3, a4, by rw [hrG, ← hg0]; exact a6, a7⟩
    | raise e =>
      obtain ⟨a1, a2, a3, a4, a5, a6, _⟩ := hp
      exact ⟨a1, a2, a3, a4, a5, a6⟩
    | hang => exact hp
  · have hrG : restG s g = restT s g := by simp [restG, hph]
    have hyl : yieldsLeft s g = (restT s g).length := by simp [yieldsLeft, hph]
    have hgn : genNext c fuel s g = tailLoop fuel s g := by unfold genNext; rw [hph]
    rw [hgn]
    have hp := tailLoop_spec fuel s g hgt hft
    generalize tailLoop fuel s g = res at hp
    obtain ⟨s1, g1, o⟩ := res
    cases o with
    | value v =>
      obtain ⟨a1, a2, a3, a4, _⟩ := hp
      have hrG1 : restG s1 g1 = restT s1 g1 := by simp [restG, a1]
      have hyl1 : yieldsLeft s1 g1 = (restT s1 g1).length := by simp [yieldsLeft, a1]
      refine ⟨Or.inr ⟨a1, a2, by omega⟩, fun _ => by rw [hrG, hrG1]; exact a3, ?_⟩
      rw [hyl, hyl1, a3]; simp
    | stop =>
      obtain ⟨a1, a2, a3, a4, a5, _, _, a8, _, _⟩ := hp
      exact ⟨a1, a2, a3, a4, by rw [hrG]; exact a5, by rw [a8]; exact hgt.hung⟩
    | raise e => exact hp.elim
    | hang => exact hp.elim

/-- A pause of the consumer (a hook point at which completions may arrive) keeps the generator well formed and
does not change what it is going to yield (while the call is not aborting). -/
theorem pause_spec {c : Cfg} (hc : CfgOK c) {t0 : Nat} (ho : ordered c = true) {fuel : Nat} {s : St} {g : Gen}
    (hg : GenGood c t0 fuel s g) :
    GenGood c t0 fuel (hook c false s) g ∧
    ((g.phase = .tail ∨ (hook c false s).aborting = false) → restG (hook c false s) g = restG s g) := by
  rcases hg with ⟨hph, hgr, hf1, hfb⟩ | ⟨hph, hgt, hft⟩
  · have hnt : g.phase ≠ .tail := by rcases hph with h | h <;> rw [h] <;> simp
    have hk := hook_spec hc false hgr.inv
    have hf := hk.later.frame
    refine ⟨Or.inl ⟨hph, ⟨hk.inv, hk.later.post hgr.post, by rw [hk.hung_nosleep rfl]; exact hgr.hung,
      by rw [hf.callId, hf.callCtr]; exact hgr.cid⟩, hf1, fun ha => ?_⟩, ?_⟩
    · have hna : s.aborting = false := by
        cases hx : s.aborting with
        | false => rfl
        | true => rw [hf.abort_mono hx] at ha; simp at ha
      have := hk.later.meas_le ha
      have := hk.sched_le
      have := hfb hna
      simp only [boundR] at *; omega
    · intro hor
      rcases hor with hor | hor
      · exact absurd hor hnt
      · simp only [restG, hnt, if_false]; rw [hk.later.restS ho hor]
  · have hst := hook_nosleep_stale c hgt.stale
    obtain ⟨lg, pk, sc, ib, e, hsub, _⟩ := hst
    rw [e]
    refine ⟨Or.inr ⟨hph, ⟨⟨hgt.idle.running, hgt.idle.jobs, hgt.idle.jobsSet, hgt.idle.callId_le,
        fun i hi => hgt.idle.parked_lt i (hsub.subset hi), hgt.idle.parked_nodup.sublist hsub,
        Or.inr (fun i hi => hgt.stale i (hsub.subset hi))⟩,
      ⟨hgt.clean.running, hgt.clean.jobs, hgt.clean.jobsSet, hgt.clean.calling⟩, hgt.noexc, hgt.rem, hgt.nodup,
      hgt.hung, hgt.noiter, fun i hi => hgt.stale i (hsub.subset hi)⟩, hft⟩, ?_⟩
    intro _
    simp only [restG, hph, if_true]
    rfl

/-- PROMPTNESS (ordered modes). If the generator's buffer is empty, the call is not aborting and the head of the
job queue has completed, `next()` yields the first result of that batch without consuming a schedule entry, i.e.
without waiting for any further completion (no hook point, no clock tick). -/
theorem promptness_step {c : Cfg} {t0 : Nat} (ho : ordered c = true) (fuel : Nat) {s : St} {g : Gen} {i : Nat}
    {rest : List Nat} (h : Inv c t0 s) (hph : g.phase = .start ∨ g.phase = .retrieve) (hb : g.buf = [])
    (hna : s.aborting = false) (hj : s.jobs = i :: rest) (hd : (getTrk s i).status = .done) :
    ∃ s' g' v r, genNext c (fuel + 2) s g = (s', g', .value v) ∧ (getTrk s i).items = v :: r ∧ g'.buf = r ∧
      s'.sched = s.sched ∧ s'.now = s.now ∧ s'.parked = s.parked ∧ s'.hung = s.hung := by
  have hmem : i ∈ s.jobs := by rw [hj]; simp
  obtain ⟨hi0, hi1⟩ := h.T.jobs_own i hmem
  have hne : (getTrk s i).status ≠ .error := by rw [hd]; simp
  obtain ⟨hitems, _⟩ := h.T.items_ok i hi0 hi1 hne
  obtain ⟨v, r, hvr⟩ : ∃ v r, (getTrk s i).items = v :: r := by
    cases hx : (getTrk s i).items with
    | nil => exact absurd hx hitems
    | cons v r => exact ⟨v, r, rfl⟩
  have htok := (h.T.tok i hmem).1 hd
  obtain ⟨gph, gbuf, grem, gtcj⟩ := g
  simp only at hb hph
  subst hb
  have hgn : genNext c (fuel + 2) s ⟨gph, [], grem, gtcj⟩ =
      retrieveLoop c (fuel + 2) s ⟨.retrieve, [], grem, gtcj⟩ := by
    unfold genNext
    rcases hph with hp | hp <;> subst hp <;> rfl
  rw [hgn]
  unfold retrieveLoop
  simp only
  by_cases hw : (!(s.aborting || s.iterating || decide (s.nCompleted < s.nDispTasks))) = true
  · -- the loop exits: `finally`, then the tail loop starts with the head batch
    rw [if_pos hw]
    obtain ⟨lg, hfb⟩ := finallyBlock_eq s
    have hexc : s.exception = false := by rw [h.T.abort_exc]; exact hna
    have hfb2 : (finallyBlock s).2 = i :: rest := by rw [hfb]; simp [hexc, hj]
    have hfb1 : (finallyBlock s).1 =
        { s with log := lg, jobs := [], jobsSet := [], running := false, calling := false } := by rw [hfb]
    rw [hfb1, hfb2]
    unfold tailLoop
    simp only
    rw [getResult_vals (s := { s with log := lg, jobs := [], jobsSet := [], running := false, calling := false })
      (l := (getTrk s i).items) htok (by show (getTrk s i).status ≠ .error; exact hne)]
    simp only
    have e : fuel + 1 + (i :: rest).length = (fuel + 1 + rest.length) + 1 := by
      simp only [List.length_cons]; omega
    rw [e]
    unfold tailLoop
    simp only
    show ∃ s' g' v' r', (match (getTrk s i).items with
      | v :: r => _
      | [] => _) = (s', g', Out.value v') ∧ _
    rw [hvr]
    exact ⟨_, _, v, r, rfl, rfl, rfl, rfl, rfl, rfl, rfl⟩
  · rw [if_neg hw, if_neg (by simp [hna]), if_pos ho]
    rw [hj]
    simp only
    obtain ⟨_, _, gs3, _, _, _, _, _, _, gs10⟩ := getStatus_spec (c := c) h hi0 hi1
    have hs1 : (getStatus c s i).1 = s := gs10 (by rw [hd]; simp)
    have hst : (getStatus c s i).2 = .done := by rw [gs3, hs1]; exact hd
    generalize hgs : getStatus c s i = r0 at hs1 hst
    obtain ⟨s1, st⟩ := r0
    simp only at hs1 hst
    subst hs1; subst hst
    have : ((Status.done == Status.pending) = true) = False := by simp
    simp only [this, if_false]
    obtain ⟨s3, hres, _, _, _, _, _, _, hsc3, hh3, hn3, _, _, hp3, _⟩ := pop_done ho h hna hj hd
    rw [hres]
    simp only
    unfold retrieveLoop
    simp only
    rw [hvr]
    exact ⟨_, _, v, r, rfl, rfl, rfl, hsc3, hn3, hp3, hh3⟩

/-- TIMEOUT. If the awaited tracker (the head of the job queue, ordered modes) is still pending and more than
`timeout` ticks have passed since the caller started waiting for it, `next()` raises `TimeoutError`. -/
theorem timeout_step {c : Cfg} {t0 : Nat} (ho : ordered c = true) (fuel : Nat) {s : St} {g : Gen} {i : Nat}
    {rest : List Nat} {ctr : Int} (h : GoodR c t0 s) (hph : g.phase = .start ∨ g.phase = .retrieve) (hb : g.buf = [])
    (hna : s.aborting = false) (hj : s.jobs = i :: rest) (hp : (getTrk s i).status = .pending)
    (hto : 0 ≤ c.timeout) (hctr : (getTrk s i).toCounter = some ctr) (hlate : s.now - ctr > c.timeout) :
    ∃ s' g', genNext c (fuel + 1) s g = (s', g', .raise .timeout) ∧ Idle s' ∧ Clean s' ∧ s'.exception = true := by
  have hmem : i ∈ s.jobs := by rw [hj]; simp
  obtain ⟨hi0, hi1⟩ := h.inv.T.jobs_own i hmem
  -- the call cannot be over: a pending tracker of the call exists
  have hwait : s.iterating = true ∨ s.nCompleted < s.nDispTasks := by
    right
    have hnc := h.inv.S.ncomp hna
    have hok := h.inv.T.items_ok i hi0 hi1 (by rw [hp]; simp)
    have hpos : 0 < pendSum (own t0 s) := by
      rw [pendSum_pos_iff]
      obtain ⟨hl, he⟩ := own_getElem hi0 hi1
      refine ⟨(own t0 s)[i - t0], List.getElem_mem hl, by rw [he]; exact hp, ?_⟩
      rw [he, hok.2]
      exact List.length_pos_iff.mpr hok.1
    omega
  obtain ⟨gph, gbuf, grem, gtcj⟩ := g
  simp only at hb hph
  subst hb
  have hgn : genNext c (fuel + 1) s ⟨gph, [], grem, gtcj⟩ =
      retrieveLoop c (fuel + 1) s ⟨.retrieve, [], grem, gtcj⟩ := by
    unfold genNext
    rcases hph with hp' | hp' <;> subst hp' <;> rfl
  rw [hgn]
  unfold retrieveLoop
  simp only
  have hw : ¬ (!(s.aborting || s.iterating || decide (s.nCompleted < s.nDispTasks))) = true := by
    rcases hwait with hw | hw <;> simp [hna, hw]
  rw [if_neg hw, if_neg (by simp [hna]), if_pos ho, hj]
  simp only
  -- `get_status` registers the timeout
  obtain ⟨gs1, gs2, gs3, gs4, gs5, gs6, gs7, _, _, _⟩ := getStatus_spec (c := c) h.inv hi0 hi1
  have hst : (getStatus c s i).2 = .error := by
    unfold getStatus
    simp only
    have hc1 : ¬ (decide (c.timeout < 0) || (getTrk s i).status != Status.pending) = true := by
      simp [hp]; omega
    rw [if_neg hc1]
    simp only [hctr, Option.getD_some]
    have hg1 : getTrk (setTrk s i { getTrk s i with toCounter := some ctr }) i =
        { getTrk s i with toCounter := some ctr } := by
      rw [getTrk_setTrk]; simp [hi1]
    have hp1 : (getTrk (setTrk s i { getTrk s i with toCounter := some ctr }) i).status = .pending := by
      rw [hg1]; exact hp
    rw [if_pos (by show (setTrk s i { getTrk s i with toCounter := some ctr }).now - ctr > c.timeout; exact hlate)]
    rw [registerOutcome_error hp1]
    simp only
    rw [getTrk_set (s := setTrk s i { getTrk s i with toCounter := some ctr }) rfl]
    simp [setTrk, hi1]
  generalize hgs : getStatus c s i = r0 at gs1 gs2 gs3 gs4 gs5 gs6 gs7 hst
  obtain ⟨s1, st⟩ := r0
  simp only at gs1 gs2 gs3 gs4 gs5 gs6 gs7 hst ⊢
  subst hst
  have : ((Status.error == Status.pending) = true) = False := by simp
  simp only [this, if_false]
  have hj1 : s1.jobs = i :: rest := by rw [gs7 ho]; exact hj
  have hg1 : GoodR c t0 s1 := ⟨gs1, gs2.post h.post, by rw [gs5]; exact h.hung,
    by rw [gs2.frame.callId, gs2.frame.callCtr]; exact h.cid⟩
  -- which exception does the tracker carry? `TimeoutError`
  have hres : (getTrk s1 i).result = .exc .timeout := by
    have hgs' : s1 = (getStatus c s i).1 := by rw [hgs]
    rw [hgs']
    unfold getStatus
    simp only
    have hc1 : ¬ (decide (c.timeout < 0) || (getTrk s i).status != Status.pending) = true := by
      simp [hp]; omega
    rw [if_neg hc1]
    simp only [hctr, Option.getD_some]
    have hg1' : getTrk (setTrk s i { getTrk s i with toCounter := some ctr }) i =
        { getTrk s i with toCounter := some ctr } := by
      rw [getTrk_setTrk]; simp [hi1]
    have hp1 : (getTrk (setTrk s i { getTrk s i with toCounter := some ctr }) i).status = .pending := by
      rw [hg1']; exact hp
    rw [if_pos (by show (setTrk s i { getTrk s i with toCounter := some ctr }).now - ctr > c.timeout; exact hlate)]
    rw [registerOutcome_error hp1]
    rw [getTrk_set (s := setTrk s i { getTrk s i with toCounter := some ctr }) rfl]
    simp [setTrk, hi1]
  have hgi : getTrk { s1 with jobs := rest } i = getTrk s1 i := rfl
  rw [getResult_exc (s := { s1 with jobs := rest }) (e := .timeout) hres gs3.symm]
  simp only
  obtain ⟨x, y, z, _⟩ := raise_end (c := c) (s3 := setTrk { s1 with jobs := rest } i { getTrk { s1 with jobs := rest } i with result := .none }) hg1
    (by intro j; rw [getTrk_set (s := s1) rfl]; grind) (by simp [setTrk]) rfl rfl rfl rfl
  exact ⟨_, _, rfl, x, y, z⟩

/-! ### once the call is aborting nothing is dispatched or pulled -/

theorem dispatchLocked_aborting (c : Cfg) (fo : Bool) (bs : Nat) {s : St} (h : s.aborting = true) :
    dispatchLocked c fo bs s = (s, false) := by
  unfold dispatchLocked; rw [if_pos h]

theorem dispatchOneCb_aborting (c : Cfg) {s : St} (h : s.aborting = true) : dispatchOneCb c s = (s, false) := by
  unfold dispatchOneCb; rw [if_pos h]

theorem dispatchOneMain_aborting (c : Cfg) {s : St} (h : s.aborting = true) :
    dispatchOneMain c s = (s, false) := by
  unfold dispatchOneMain; rw [if_pos h]

theorem dispatch_aborting (c : Cfg) (b : List Nat) {s : St} (h : s.aborting = true) : dispatch c s b = s := by
  unfold dispatch; rw [if_pos h]

/-- While the call is aborting, the completion of any parked batch changes neither the input position nor the
tracker table nor the queues: only the backend's bookkeeping (`parked`, log). -/
theorem deliver_aborting (c : Cfg) (k : Nat) {s : St} (h : s.aborting = true) :
    ∃ lg pk ib, deliver c k s = { s with log := lg, parked := pk, inCb := ib } := by
  unfold deliver
  cases hk : s.parked[k]? with
  | none => exact ⟨s.log, s.parked, s.inCb, rfl⟩
  | some i =>
    simp only
    obtain ⟨lg, hex, _, _⟩ := execBatch_spec (getTrk { s with parked := s.parked.eraseIdx k } i).items
      (ev { s with parked := s.parked.eraseIdx k } ("complete " ++ idsStr (getTrk { s with parked := s.parked.eraseIdx k } i).items))
    generalize hres : execBatch (ev { s with parked := s.parked.eraseIdx k } ("complete " ++ idsStr (getTrk { s with parked := s.parked.eraseIdx k } i).items)) (getTrk { s with parked := s.parked.eraseIdx k } i).items = res at hex
    obtain ⟨s3, failed⟩ := res
    simp only at hex ⊢
    simp only [ev] at hex
    rw [aborting_callback_noop c _ i failed (by rw [hex]; exact h)]
    exact ⟨lg, s.parked.eraseIdx k, false, by rw [hex]⟩

/-! ### the input position moves only inside `dispatchLocked` -/

theorem registerOutcome_srcPos (c : Cfg) (s : St) (i : Nat) (st : Status) (r : Res) :
    (registerOutcome c s i st r).srcPos = s.srcPos ∧ (registerOutcome c s i st r).ready = s.ready ∧
    (registerOutcome c s i st r).parked = s.parked ∧ (registerOutcome c s i st r).origAlive = s.origAlive := by
  unfold registerOutcome
  simp only
  split
  · exact ⟨rfl, rfl, rfl, rfl⟩
  · split <;> split <;> exact ⟨rfl, rfl, rfl, rfl⟩

theorem dispatch_srcPos (c : Cfg) (s : St) (b : List Nat) : (dispatch c s b).srcPos = s.srcPos := by
  unfold dispatch
  split
  · rfl
  · simp only; split <;> rfl

theorem getStatus_srcPos (c : Cfg) (s : St) (i : Nat) : (getStatus c s i).1.srcPos = s.srcPos := by
  unfold getStatus
  simp only
  split
  · rfl
  · split
    · rw [(registerOutcome_srcPos c _ i _ _).1]; rfl
    · rfl

theorem getResult_srcPos (s : St) (i : Nat) : (getResult s i).1.srcPos = s.srcPos := by
  unfold getResult
  simp only
  split
  · rfl
  · split <;> rfl
  · split <;> rfl

theorem abort_srcPos (c : Cfg) (s : St) : (abort c s).srcPos = s.srcPos := by
  obtain ⟨lg, pk, sc, ib, h, _, _⟩ := abort_eq c s; rw [h]

theorem finallyBlock_srcPos (s : St) : (finallyBlock s).1.srcPos = s.srcPos := by
  obtain ⟨lg, h⟩ := finallyBlock_eq s; rw [h]

theorem handleException_srcPos (c : Cfg) (s : St) : (handleException c s).srcPos = s.srcPos := by
  obtain ⟨lg, pk, sc, ib, h, _, _⟩ := handleException_eq c s; rw [h]

/-- `dispatch_one_batch` called from a callback moves the input position only inside its locked region. -/
theorem dispatchOneCb_srcPos (c : Cfg) (s : St) :
    (dispatchOneCb c s).1.srcPos = s.srcPos ∨
    ∃ bs s1, s1.srcPos = s.srcPos ∧ (dispatchOneCb c s).1 = (dispatchLocked c true bs s1).1 := by
  unfold dispatchOneCb
  split
  · exact Or.inl rfl
  · right
    simp only
    split
    · exact ⟨scriptedBs c s, { s with bsI := s.bsI + 1 }, rfl, rfl⟩
    · exact ⟨scriptedBs c s, s, rfl, rfl⟩

/-- A completion callback moves the input position only through `dispatch_one_batch(self._original_iterator)`,
hence only inside the locked region, and only while `_original_iterator` is still set. -/
theorem callback_srcPos (c : Cfg) (s : St) (i : Nat) (failed : Option Nat) :
    (callback c s i failed).srcPos = s.srcPos ∨
    (s.origAlive = true ∧ ∃ s1, s1.srcPos = s.srcPos ∧
      (callback c s i failed).srcPos = (dispatchOneCb c s1).1.srcPos) := by
  unfold callback
  simp only
  split
  · exact Or.inl rfl
  · split
    · exact Or.inl rfl
    · cases failed with
      | some id => simp only; exact Or.inl (registerOutcome_srcPos c s i _ _).1
      | none =>
        simp only
        split
        · rename_i hor
          right
          have hor' : s.origAlive = true := by
            rw [← (registerOutcome_srcPos c s i .done (.vals (getTrk s i).items)).2.2.2]; exact hor
          refine ⟨hor', { registerOutcome c s i .done (.vals (getTrk s i).items) with nCompleted := (registerOutcome c s i .done (.vals (getTrk s i).items)).nCompleted + (getTrk s i).bsize }, (registerOutcome_srcPos c s i .done _).1, ?_⟩
          split <;> rfl
        · exact Or.inl (registerOutcome_srcPos c s i _ _).1

/-! ### closing the generator -/

theorem genClose_active (c : Cfg) (s : St) {g : Gen} (h : g.phase = .start ∨ g.phase = .retrieve) :
    genClose c s g = (handleException c s, { g with phase := .done }) := by
  unfold genClose handleException
  rcases h with h | h <;> rw [h]

theorem genClose_inactive (c : Cfg) (s : St) {g : Gen} (h : g.phase = .tail ∨ g.phase = .done) :
    genClose c s g = (s, { g with phase := .done }) := by
  unfold genClose
  rcases h with h | h <;> rw [h]

/-! ### leaving the `with` block while the generator is alive (`Parallel.__exit__`, consumer op 6) -/

/-- What `__exit__` changes: `managed`, `calling`, the abort flags, and the backend's bookkeeping (completions that
arrive inside `abort_everything` are no-ops). In particular `running`, the job queues, the tracker table, the input
position and the look-ahead queue are untouched. In a generator mode with the call still in progress (`calling`) the
object is aborting afterwards. -/
theorem exitBlock_eq (c : Cfg) (s : St) : ∃ lg pk sc ib ab abd,
    exitBlock c s = { s with log := lg, parked := pk, sched := sc, inCb := ib, managed := false, calling := false, aborting := ab, aborted := abd } ∧
    pk.Sublist s.parked ∧ sc.length ≤ s.sched.length ∧ (s.aborting = true → ab = true) ∧
    (isGen c = true → s.calling = true → ab = true) := by
  unfold exitBlock
  dsimp only
  by_cases hg : (isGen c && s.calling) = true
  · rw [if_pos hg]
    obtain ⟨lg1, pk, sc, ib, h1, hpk, hsc⟩ := abort_eq c { s with managed := false }
    obtain ⟨lg2, h2⟩ := terminateAndReset_eq (abort c { s with managed := false })
    rw [h2, h1]
    exact ⟨_, pk, sc, ib, true, true, rfl, hpk, hsc, fun _ => rfl, fun _ _ => rfl⟩
  · rw [if_neg hg]
    obtain ⟨lg2, h2⟩ := terminateAndReset_eq { s with managed := false }
    rw [h2]
    refine ⟨_, s.parked, s.sched, s.inCb, s.aborting, s.aborted, rfl, List.Sublist.refl _, Nat.le_refl _,
      fun h => h, fun h1 h2 => ?_⟩
    simp [h1, h2] at hg

/-! ### a failing batch -/

/-- When the backend completes a parked batch of the running call that contains a failing task, the call is
aborting afterwards and the `_exception` flag is set (the error was registered on that tracker, or another error
had been registered before). -/
theorem deliver_failing {c : Cfg} (hc : CfgOK c) {t0 : Nat} {s : St} {k i : Nat} (h : Inv c t0 s)
    (hk : s.parked[k]? = some i) (hi0 : t0 ≤ i) (hi1 : i < s.trk.length)
    (hfail : ∃ id ∈ (getTrk s i).items, id ∈ s.failIds) :
    (deliver c k s).aborting = true ∧ (deliver c k s).exception = true := by
  have hinv := (deliver_spec hc k h).1.inv
  suffices hab : (deliver c k s).aborting = true from ⟨hab, by rw [hinv.T.abort_exc]; exact hab⟩
  by_cases hab0 : s.aborting = true
  · exact (deliver_spec hc k h).1.later.frame.abort_mono hab0
  have hna : s.aborting = false := by simpa using hab0
  unfold deliver
  rw [hk]
  simp only
  obtain ⟨lg, hex, hf1, hf2⟩ := execBatch_spec (getTrk { s with parked := s.parked.eraseIdx k } i).items
    (ev { s with parked := s.parked.eraseIdx k } ("complete " ++ idsStr (getTrk { s with parked := s.parked.eraseIdx k } i).items))
  generalize hres : execBatch (ev { s with parked := s.parked.eraseIdx k } ("complete " ++ idsStr (getTrk { s with parked := s.parked.eraseIdx k } i).items)) (getTrk { s with parked := s.parked.eraseIdx k } i).items = res at hex hf1 hf2
  obtain ⟨s3, failed⟩ := res
  simp only at hex hf1 hf2 ⊢
  simp only [ev] at hex
  cases failed with
  | none =>
    obtain ⟨id, hid1, hid2⟩ := hfail
    exact absurd hid2 (hf2 rfl id hid1)
  | some id =>
    have hp : (getTrk s i).status = .pending := (h.T.parked_pending hna i hi0 hi1).mpr (Or.inl (List.mem_of_getElem? hk))
    have hcid : (getTrk s i).callId = s.callId := h.T.ownId i hi0 hi1
    unfold callback
    simp only
    have e1 : getTrk { s3 with inCb := true } i = getTrk s i := by rw [hex]; rfl
    have e2 : ({ s3 with inCb := true } : St).callId = s.callId := by rw [hex]
    have e3 : ({ s3 with inCb := true } : St).aborting = false := by rw [hex]; exact hna
    rw [if_neg (by rw [e1, e2, hcid]; simp), if_neg (by rw [e3]; simp)]
    rw [registerOutcome_error (by rw [e1]; exact hp)]

/-- Without `_original_iterator` a completion callback never touches the input. -/
theorem deliver_srcPos_of_not_orig (c : Cfg) (k : Nat) {s : St} (h : s.origAlive = false) :
    (deliver c k s).srcPos = s.srcPos := by
  unfold deliver
  cases hk : s.parked[k]? with
  | none => rfl
  | some i =>
    simp only
    obtain ⟨lg, hex, _, _⟩ := execBatch_spec (getTrk { s with parked := s.parked.eraseIdx k } i).items
      (ev { s with parked := s.parked.eraseIdx k } ("complete " ++ idsStr (getTrk { s with parked := s.parked.eraseIdx k } i).items))
    generalize hres : execBatch (ev { s with parked := s.parked.eraseIdx k } ("complete " ++ idsStr (getTrk { s with parked := s.parked.eraseIdx k } i).items)) (getTrk { s with parked := s.parked.eraseIdx k } i).items = res at hex
    obtain ⟨s3, failed⟩ := res
    simp only at hex ⊢
    simp only [ev] at hex
    rcases callback_srcPos c { s3 with inCb := true } i failed with h1 | ⟨h1, _⟩
    · show (callback c { s3 with inCb := true } i failed).srcPos = _
      rw [h1, hex]
    · have : ({ s3 with inCb := true } : St).origAlive = s.origAlive := by rw [hex]
      rw [this, h] at h1; cases h1

end JoblibModel.ParallelProto
