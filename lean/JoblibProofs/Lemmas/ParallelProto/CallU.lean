import JoblibProofs.Lemmas.ParallelProto.LoopU
import JoblibProofs.Lemmas.ParallelProto.Call
/-!
Whole calls in unordered mode (`return_as='generator_unordered'`), and the mode-independent statement of how a
call ends.
-/
namespace JoblibModel.ParallelProto

/-- The generator object between two `next()` calls, unordered mode. -/
def GenGoodU (c : Cfg) (t0 : Nat) (fuel : Nat) (s : St) (g : Gen) : Prop :=
  ((g.phase = .start ∨ g.phase = .retrieve) ∧ GoodR c t0 s ∧ InvU t0 s ∧ GOwn t0 s g ∧ 1 ≤ fuel ∧
      (s.aborting = false → boundR c s ≤ fuel)) ∨
  (g.phase = .tail ∧ GoodT s g ∧ g.remaining.length + 1 ≤ fuel)

/-- What the generator is still going to yield (as a multiset), unordered mode. -/
def restGU (s : St) (g : Gen) : List Nat := if g.phase = .tail then restT s g else g.buf ++ restU s

def yieldsLeftU (s : St) (g : Gen) : Nat :=
  if g.phase = .tail then (restT s g).length else g.buf.length + (restU s).length

theorem genNextU_key {c : Cfg} {fuel : Nat} {s : St} {g : Gen} (hph : g.phase = .start ∨ g.phase = .retrieve) :
    ∃ g0 : Gen, genNext c fuel s g = retrieveLoop c fuel s g0 ∧ g0.buf = g.buf ∧ g0.tcj = g.tcj := by
  unfold genNext
  rcases hph with h | h
  · rw [h]; exact ⟨_, rfl, rfl, rfl⟩
  · rw [h]; exact ⟨_, rfl, rfl, rfl⟩

/-- `list(output)` in unordered mode when nothing fails: the values collected are a rearrangement of what was
expected, then the generator stops and the object is left clean. -/
theorem drain_nofail_u {c : Cfg} (hc : CfgOK c) {t0 : Nat} (ho : ordered c = false) (fuel : Nat) :
    ∀ (n : Nat) (s : St) (g : Gen) (acc : List Nat), GenGoodU c t0 fuel s g →
      (g.phase ≠ .tail → NoFail c s) → (restGU s g).length + 1 ≤ n →
      ∃ s' g' out, drain c n fuel s g acc = (s', g', out, .stop) ∧ out.Perm (acc ++ restGU s g) ∧ Idle s' ∧ Clean s' ∧
        s'.exception = false ∧ s'.hung = false := by
  intro n
  induction n with
  | zero => intro s g acc _ _ hn; omega
  | succ n ih =>
    intro s g acc hg hnf hn
    rcases hg with ⟨hph, hgr, hU, hG, hf1, hfb⟩ | ⟨hph, hgt, hft⟩
    · have hnt : g.phase ≠ .tail := by rcases hph with h | h <;> rw [h] <;> simp
      have hnofail := hnf hnt
      have hna := hnofail.not_aborting hgr.inv
      have hrG : restGU s g = g.buf ++ restU s := by simp [restGU, hnt]
      obtain ⟨g0, hgn, hg0, hg0t⟩ := genNextU_key (c := c) (fuel := fuel) (s := s) hph
      unfold drain
      rw [hgn]
      have hG0 : GOwn t0 s g0 := by intro j hj; rw [hg0t] at hj; exact hG j hj
      have hp := retrieveLoopU_spec hc ho fuel s g0 hgr hU hG0 hf1 hfb
      generalize retrieveLoop c fuel s g0 = res at hp
      obtain ⟨s1, g1, o⟩ := res
      cases o with
      | value v =>
        simp only
        obtain ⟨_, a2⟩ := hp
        rcases a2 with ⟨b1, b2, bu, bg, bf, b3, b4, _⟩ | ⟨b1, b2, b3, b4, b5, _, _⟩
        · have hnf1 := hnofail.frame bf
          have hna1 := hnf1.not_aborting b2.inv
          have hr := b3 hna1
          rw [hg0] at hr
          have hg1 : GenGoodU c t0 fuel s1 g1 := Or.inl ⟨Or.inr b1, b2, bu, bg, hf1, fun _ => by
            have := b4 hna1; have := hfb hna; omega⟩
          have hrG1 : restGU s1 g1 = g1.buf ++ restU s1 := by simp [restGU, b1]
          have hlen := hr.length_eq
          obtain ⟨s', g', out, e, hperm, r⟩ := ih s1 g1 (acc ++ [v]) hg1 (fun _ => hnf1)
            (by rw [hrG1]; rw [hrG] at hn; simp only [List.length_cons] at hlen; omega)
          refine ⟨s', g', out, e, hperm.trans ?_, r⟩
          rw [hrG, hrG1, List.append_assoc]
          exact List.Perm.append_left _ (by simpa using hr.symm)
        · rw [hg0] at b4
          have hrG1 : restGU s1 g1 = restT s1 g1 := by simp [restGU, b1]
          have hlen := b4.length_eq
          obtain ⟨s', g', e, r1, r2, r3, r4, _⟩ := drain_tail c fuel n s1 g1 (acc ++ [v]) b1 b2
            (by have := hfb hna; omega)
            (by rw [hrG] at hn; simp only [List.length_cons] at hlen; omega)
          refine ⟨s', g', _, e, ?_, r1, r2, r3, r4⟩
          rw [hrG, List.append_assoc]
          exact List.Perm.append_left _ (by simpa using b4.symm)
      | stop =>
        simp only
        obtain ⟨_, a2, a3, a4, _, a6, a7, _, _⟩ := hp
        rw [hg0] at a6
        exact ⟨s1, g1, acc, rfl, by rw [hrG, a6]; simp, a2, a3, a4, a7⟩
      | raise e =>
        obtain ⟨_, _, _, _, a5, _, _⟩ := hp
        exact absurd a5 (hnofail.not_legit e)
      | hang => exact hp.elim
    · have hrG : restGU s g = restT s g := by simp [restGU, hph]
      obtain ⟨s', g', e, r1, r2, r3, r4, _⟩ := drain_tail c fuel (n + 1) s g acc hph hgt hft
        (by rw [hrG] at hn; exact hn)
      exact ⟨s', g', _, e, by rw [hrG], r1, r2, r3, r4⟩

/-- How a drained call can end, unordered mode (anything may fail). -/
theorem drain_general_u {c : Cfg} (hc : CfgOK c) {t0 : Nat} (ho : ordered c = false) (fuel : Nat) :
    ∀ (n : Nat) (s : St) (g : Gen) (acc : List Nat), GenGoodU c t0 fuel s g →
      yieldsLeftU s g + 1 ≤ n → DrainPost c s (drain c n fuel s g acc) := by
  intro n
  induction n with
  | zero => intro s g acc _ hn; omega
  | succ n ih =>
    intro s g acc hg hn
    rcases hg with ⟨hph, hgr, hU, hG, hf1, hfb⟩ | ⟨hph, hgt, hft⟩
    · have hnt : g.phase ≠ .tail := by rcases hph with h | h <;> rw [h] <;> simp
      have hyl : yieldsLeftU s g = g.buf.length + (restU s).length := by simp [yieldsLeftU, hnt]
      obtain ⟨g0, hgn, hg0, hg0t⟩ := genNextU_key (c := c) (fuel := fuel) (s := s) hph
      unfold drain
      rw [hgn]
      have hG0 : GOwn t0 s g0 := by intro j hj; rw [hg0t] at hj; exact hG j hj
      have hp := retrieveLoopU_spec hc ho fuel s g0 hgr hU hG0 hf1 hfb
      generalize retrieveLoop c fuel s g0 = res at hp
      obtain ⟨s1, g1, o⟩ := res
      cases o with
      | value v =>
        simp only
        obtain ⟨a1, a2⟩ := hp
        rcases a2 with ⟨b1, b2, bu, bg, bf, b3, b4, b6⟩ | ⟨b1, b2, b3, b4, b5, b7, b8⟩
        · have hg1 : GenGoodU c t0 fuel s1 g1 := Or.inl ⟨Or.inr b1, b2, bu, bg, hf1, fun ha1 => by
            have hna : s.aborting = false := by
              cases hx : s.aborting with
              | false => rfl
              | true => rw [a1 hx] at ha1; simp at ha1
            have := b4 ha1; have := hfb hna; omega⟩
          have hyl1 : yieldsLeftU s1 g1 = g1.buf.length + (restU s1).length := by simp [yieldsLeftU, b1]
          have := ih s1 g1 (acc ++ [v]) hg1 (by rw [hyl1]; rw [hg0] at b6; omega)
          generalize drain c n fuel s1 g1 (acc ++ [v]) = res at this
          obtain ⟨s', g', acc', o'⟩ := res
          cases o' with
          | stop =>
            obtain ⟨x1, x2, x3, x4, x5, x6⟩ := this
            exact ⟨x1, x2, x3, x4, by rw [← bf.spec]; exact x5, x6.trans bf.failIds⟩
          | raise e =>
            obtain ⟨x1, x2, x3, x4, x5, x6⟩ := this
            exact ⟨x1, x2, x3, x4, (Legit_congr bf.failIds bf.base bf.spec e).mp x5, x6.trans bf.failIds⟩
          | value _ => exact this
          | hang => exact this
        · rw [hg0] at b4
          have hlen := b4.length_eq
          obtain ⟨s', g', e, r1, r2, r3, r4, r5, r6⟩ := drain_tail c fuel n s1 g1 (acc ++ [v]) b1 b2
            (by have := hfb b3; omega) (by simp only [List.length_append, List.length_cons] at hlen; omega)
          rw [e]
          exact ⟨r1, r2, r3, r4, by rw [← b7]; exact r5, r6.trans b8⟩
      | stop =>
        obtain ⟨_, a2, a3, a4, _, _, a7, a8, a9⟩ := hp
        exact ⟨a2, a3, a4, a7, a8, a9⟩
      | raise e =>
        obtain ⟨_, a2, a3, a4, a5, a6, a7⟩ := hp
        exact ⟨a2, a3, a4, a6, a5, a7⟩
      | hang => exact hp.elim
    · have hyl : yieldsLeftU s g = (restT s g).length := by simp [yieldsLeftU, hph]
      obtain ⟨s', g', e, r⟩ := drain_tail c fuel (n + 1) s g acc hph hgt hft (by omega)
      rw [e]
      exact r

/-- `Parallel.__call__` in unordered mode on an idle object, when nothing can fail: it returns a rearrangement of
the sequential results (each value exactly once), for every schedule, and leaves the object idle and clean. -/
theorem callList_nofail_u {c : Cfg} (hc : CfgOK c) (ho : ordered c = false) {fuel base : Nat} {spec : CallSpec}
    {s : St} (hi : Idle s) (hh : s.hung = false) (hpd : c.pdMode = 1 ∨ 1 ≤ c.pd)
    (hnf1 : ∀ id ∈ s.failIds, ¬ (base ≤ id ∧ id < base + spec.n)) (hnf2 : spec.iterfail < 0)
    (hnf3 : c.timeout < 0)
    (hfuel : 2 * spec.n + s.sched.length + s.parked.length + 2 ≤ fuel) :
    ∃ s' out, callList c fuel base spec s = (s', .ret out) ∧ out.Perm (List.range' base spec.n) ∧ Idle s' ∧
      Clean s' ∧ s'.hung = false ∧ s'.exception = false := by
  obtain ⟨s1, he, hS⟩ := callStart_started hc fuel base spec hi hh
  unfold callList
  rw [he]
  simp only
  rw [if_neg (by rw [hS.hung, hh]; simp)]
  obtain ⟨f1, f2, f3, f4, f5, _, _, _⟩ := hS.frame
  have hnf : NoFail c s1 := ⟨by rw [f3, f1, f2]; exact hnf1, by rw [f2]; exact hnf2, hnf3⟩
  have hna := hnf.not_aborting hS.inv
  obtain ⟨hU, hrU, _⟩ := hS.U ho
  have hgr : GoodR c s.trk.length s1 :=
    ⟨hS.inv, hS.post (by omega) hh hpd, by rw [hS.hung]; exact hh, by rw [f4, f5]⟩
  have hgg : GenGoodU c s.trk.length fuel s1 {} := by
    left
    have hG0 : GOwn s.trk.length s1 {} := by intro j hj; cases hj
    refine ⟨Or.inl rfl, hgr, hU, hG0, by omega, fun _ => ?_⟩
    have := hS.meas_le hna
    have := hS.sched_le
    simp only [boundR]; omega
  have hrest : restGU s1 {} = List.range' base spec.n := by
    simp only [restGU]
    rw [if_neg (by simp)]
    simp only [List.nil_append]
    exact hrU hna
  obtain ⟨s', g', out, e, hperm, r1, r2, r3, r4⟩ := drain_nofail_u hc ho fuel fuel s1 {} [] hgg (fun _ => hnf)
    (by rw [hrest]; simp; omega)
  rw [e]
  exact ⟨s', out, rfl, by rw [hrest] at hperm; simpa using hperm, r1, r2, r4, r3⟩

/-- How a list-mode call on an idle object can end — ALL three `return_as` modes, anything may fail. -/
theorem callList_general_all {c : Cfg} (hc : CfgOK c) {fuel base : Nat} {spec : CallSpec}
    {s : St} (hi : Idle s) (hh : s.hung = false) (hpd : c.pdMode = 1 ∨ 1 ≤ c.pd)
    (hfuel : 2 * spec.n + s.sched.length + s.parked.length + 2 ≤ fuel) :
    CallPost c base spec s (callList c fuel base spec s) := by
  cases ho : ordered c with
  | true => exact callList_general hc ho hi hh hpd hfuel
  | false =>
    obtain ⟨s1, he, hS⟩ := callStart_started hc fuel base spec hi hh
    unfold callList
    rw [he]
    simp only
    rw [if_neg (by rw [hS.hung, hh]; simp)]
    obtain ⟨f1, f2, f3, f4, f5, _, _, _⟩ := hS.frame
    obtain ⟨hU, _, hlU⟩ := hS.U ho
    have hgr : GoodR c s.trk.length s1 :=
      ⟨hS.inv, hS.post (by omega) hh hpd, by rw [hS.hung]; exact hh, by rw [f4, f5]⟩
    have hgg : GenGoodU c s.trk.length fuel s1 {} := by
      left
      have hG0 : GOwn s.trk.length s1 {} := by intro j hj; cases hj
      refine ⟨Or.inl rfl, hgr, hU, hG0, by omega, fun hna => ?_⟩
      have := hS.meas_le hna
      have := hS.sched_le
      simp only [boundR]; omega
    have hyl : yieldsLeftU s1 {} ≤ spec.n := by
      simp only [yieldsLeftU]
      rw [if_neg (by simp)]
      simp only [List.length_nil, Nat.zero_add]
      exact hlU
    have hp := drain_general_u hc ho fuel fuel s1 {} [] hgg (by omega)
    generalize drain c fuel fuel s1 {} [] = res at hp
    obtain ⟨s', g', acc, o⟩ := res
    cases o with
    | stop => exact ⟨hp.1, hp.2.1, hp.2.2.2.1, hp.2.2.1, by rw [← f2]; exact hp.2.2.2.2.1, hp.2.2.2.2.2.trans f3⟩
    | raise e =>
      obtain ⟨x1, x2, x3, x4, x5, x6⟩ := hp
      exact ⟨x1, x2, x4, x3, by
        have : Legit c s1 e ↔ Legit c { s with base := base, spec := spec } e :=
          Legit_congr (s := { s with base := base, spec := spec }) (s' := s1) f3 f1 f2 e
        exact this.mp x5, x6.trans f3⟩
    | value _ => exact hp.elim
    | hang => exact hp.elim

/-- Outcome of one `next()` on a well-formed generator, unordered mode. -/
def GNPostU (c : Cfg) (t0 : Nat) (fuel : Nat) (s : St) (g : Gen) : St × Gen × Out → Prop
  | (s', g', .value v) => GenGoodU c t0 fuel s' g' ∧
      ((g'.phase = .tail ∨ s'.aborting = false) → (restGU s g).Perm (v :: restGU s' g')) ∧
      yieldsLeftU s' g' + 1 ≤ yieldsLeftU s g
  | (s', g', .stop) => g'.phase = .done ∧ Idle s' ∧ Clean s' ∧ s'.exception = false ∧ restGU s g = [] ∧
      s'.hung = false
  | (s', g', .raise e) => g'.phase = .done ∧ Idle s' ∧ Clean s' ∧ s'.exception = true ∧ Legit c s e ∧
      s'.hung = false
  | (_, _, .hang) => False

theorem genNextU_spec {c : Cfg} (hc : CfgOK c) {t0 : Nat} (ho : ordered c = false) {fuel : Nat} {s : St} {g : Gen}
    (hg : GenGoodU c t0 fuel s g) : GNPostU c t0 fuel s g (genNext c fuel s g) := by
  rcases hg with ⟨hph, hgr, hU, hG, hf1, hfb⟩ | ⟨hph, hgt, hft⟩
  · have hnt : g.phase ≠ .tail := by rcases hph with h | h <;> rw [h] <;> simp
    have hrG : restGU s g = g.buf ++ restU s := by simp [restGU, hnt]
    have hyl : yieldsLeftU s g = g.buf.length + (restU s).length := by simp [yieldsLeftU, hnt]
    obtain ⟨g0, hgn, hg0, hg0t⟩ := genNextU_key (c := c) (fuel := fuel) (s := s) hph
    rw [hgn]
    have hG0 : GOwn t0 s g0 := by intro j hj; rw [hg0t] at hj; exact hG j hj
    have hp := retrieveLoopU_spec hc ho fuel s g0 hgr hU hG0 hf1 hfb
    generalize retrieveLoop c fuel s g0 = res at hp
    obtain ⟨s1, g1, o⟩ := res
    cases o with
    | value v =>
      obtain ⟨a1, a2⟩ := hp
      rcases a2 with ⟨b1, b2, bu, bg, bf, b3, b4, b6⟩ | ⟨b1, b2, b3, b4, b5, b7, _⟩
      · have hg1 : GenGoodU c t0 fuel s1 g1 := Or.inl ⟨Or.inr b1, b2, bu, bg, hf1, fun ha1 => by
          have hna : s.aborting = false := by
            cases hx : s.aborting with
            | false => rfl
            | true => rw [a1 hx] at ha1; simp at ha1
          have := b4 ha1; have := hfb hna; omega⟩
        have hrG1 : restGU s1 g1 = g1.buf ++ restU s1 := by simp [restGU, b1]
        have hyl1 : yieldsLeftU s1 g1 = g1.buf.length + (restU s1).length := by simp [yieldsLeftU, b1]
        refine ⟨hg1, ?_, by rw [hyl, hyl1, ← hg0]; exact b6⟩
        intro hor
        rcases hor with hor | hor
        · rw [b1] at hor; cases hor
        · rw [hrG, hrG1, ← hg0]; exact b3 hor
      · have hg1 : GenGoodU c t0 fuel s1 g1 := Or.inr ⟨b1, b2, by have := hfb b3; omega⟩
        have hrG1 : restGU s1 g1 = restT s1 g1 := by simp [restGU, b1]
        have hyl1 : yieldsLeftU s1 g1 = (restT s1 g1).length := by simp [yieldsLeftU, b1]
        rw [hg0] at b4
        refine ⟨hg1, fun _ => by rw [hrG, hrG1]; exact b4, ?_⟩
        rw [hyl, hyl1]
        have := b4.length_eq
        simp only [List.length_append, List.length_cons] at this; omega
    | stop =>
      obtain ⟨a1, a2, a3, a4, _, a6, a7, _, _⟩ := hp
      exact ⟨a1, a2, a3, a4, by rw [hrG, ← hg0]; exact a6, a7⟩
    | raise e =>
      obtain ⟨a1, a2, a3, a4, a5, a6, _⟩ := hp
      exact ⟨a1, a2, a3, a4, a5, a6⟩
    | hang => exact hp
  · have hrG : restGU s g = restT s g := by simp [restGU, hph]
    have hyl : yieldsLeftU s g = (restT s g).length := by simp [yieldsLeftU, hph]
    have hgn : genNext c fuel s g = tailLoop fuel s g := by unfold genNext; rw [hph]
    rw [hgn]
    have hp := tailLoop_spec fuel s g hgt hft
    generalize tailLoop fuel s g = res at hp
    obtain ⟨s1, g1, o⟩ := res
    cases o with
    | value v =>
      obtain ⟨a1, a2, a3, a4, _⟩ := hp
      have hrG1 : restGU s1 g1 = restT s1 g1 := by simp [restGU, a1]
      have hyl1 : yieldsLeftU s1 g1 = (restT s1 g1).length := by simp [yieldsLeftU, a1]
      refine ⟨Or.inr ⟨a1, a2, by omega⟩, fun _ => by rw [hrG, hrG1, a3], ?_⟩
      rw [hyl, hyl1, a3]; simp
    | stop =>
      obtain ⟨a1, a2, a3, a4, a5, _, _, a8, _, _⟩ := hp
      exact ⟨a1, a2, a3, a4, by rw [hrG]; exact a5, by rw [a8]; exact hgt.hung⟩
    | raise e => exact hp.elim
    | hang => exact hp.elim

/-- A pause of the consumer in unordered mode. -/
theorem pause_spec_u {c : Cfg} (hc : CfgOK c) {t0 : Nat} (ho : ordered c = false) {fuel : Nat} {s : St} {g : Gen}
    (hg : GenGoodU c t0 fuel s g) :
    GenGoodU c t0 fuel (hook c false s) g ∧
    ((g.phase = .tail ∨ (hook c false s).aborting = false) → restGU (hook c false s) g = restGU s g) := by
  rcases hg with ⟨hph, hgr, hU, hG, hf1, hfb⟩ | ⟨hph, hgt, hft⟩
  · have hnt : g.phase ≠ .tail := by rcases hph with h | h <;> rw [h] <;> simp
    have hk := hook_spec hc false hgr.inv
    have hf := hk.later.frame
    have hu := hk.U ho hU
    refine ⟨Or.inl ⟨hph, ⟨hk.inv, hk.later.post hgr.post, by rw [hk.hung_nosleep rfl]; exact hgr.hung,
      by rw [hf.callId, hf.callCtr]; exact hgr.cid⟩, hu.inv, ?_, hf1, fun ha => ?_⟩, ?_⟩
    · intro j hj
      obtain ⟨x, y⟩ := hG j hj
      exact ⟨x, Nat.lt_of_lt_of_le y hk.later.len⟩
    · have hna : s.aborting = false := by
        cases hx : s.aborting with
        | false => rfl
        | true => rw [hf.abort_mono hx] at ha; simp at ha
      have := hk.later.meas_le ha
      have := hk.sched_le
      have := hfb hna
      simp only [boundR] at *; omega
    · intro hor
      rcases hor with hor | hor
      · exact absurd hor hnt
      · simp only [restGU, hnt, if_false]; rw [hu.rest hor]
  · have hst := hook_nosleep_stale c hgt.stale
    obtain ⟨lg, pk, sc, ib, e, hsub, _⟩ := hst
    rw [e]
    refine ⟨Or.inr ⟨hph, ⟨⟨hgt.idle.running, hgt.idle.jobs, hgt.idle.jobsSet, hgt.idle.callId_le,
        fun i hi => hgt.idle.parked_lt i (hsub.subset hi), hgt.idle.parked_nodup.sublist hsub,
        Or.inr (fun i hi => hgt.stale i (hsub.subset hi))⟩,
      ⟨hgt.clean.running, hgt.clean.jobs, hgt.clean.jobsSet, hgt.clean.calling⟩, hgt.noexc, hgt.rem, hgt.nodup,
      hgt.hung, hgt.noiter, fun i hi => hgt.stale i (hsub.subset hi)⟩, hft⟩, ?_⟩
    intro _
    simp only [restGU, hph, if_true]
    rfl

end JoblibModel.ParallelProto
