import JoblibProofs.Lemmas.ParallelProto.Deliver
/-!
The caller's pre-dispatch phase: `dispatchOneMain`, `startLoop`, `start` (`Parallel._start`), and `callStart`
(`_reset_run_tracking` + the set-up in `__call__`) which establishes the invariant.
-/
namespace JoblibModel.ParallelProto

/-- What one `dispatch_one_batch(iterator)` of the caller guarantees. -/
structure DMSpec (c : Cfg) (t0 : Nat) (s s' : St) (more : Bool) : Prop where
  inv : Inv c t0 s'
  later : Later c s s'
  hung : s'.hung = s.hung
  sched_le : s'.sched.length ≤ s.sched.length
  exh : more = false → s'.aborting = false → s'.hung = false →
    s'.ready = [] ∧ (s'.srcDead = true ∨ s'.preLeft = some 0)
  pend : more = true → s'.aborting = false →
    ∃ i, t0 ≤ i ∧ i < s'.trk.length ∧ (getTrk s' i).status = .pending
  work_lt : more = true → s'.aborting = false → work s' < work s
  pre_nomore : more = false → s'.preLeft = s.preLeft
  exh_stable : s.aborting = false → s.ready = [] → s.srcDead = true → more = false

theorem dispatchOneMain_spec {c : Cfg} (hc : CfgOK c) {t0 : Nat} {s : St} (h : Inv c t0 s) :
    DMSpec c t0 s (dispatchOneMain c s).1 (dispatchOneMain c s).2 := by
  unfold dispatchOneMain
  by_cases hab : s.aborting = true
  · rw [if_pos hab]
    refine ⟨h, Later.refl c s, rfl, Nat.le_refl _, ?_, by simp, by simp, fun _ => rfl, ?_⟩
    · intro _ ha; rw [hab] at ha; simp at ha
    · intro ha; rw [hab] at ha; simp at ha
  rw [if_neg hab]
  simp only
  have hbs := scriptedBs_pos hc s
  -- the hook point `compute_batch_size()`
  have hhook : ∃ s1, (if c.bsAuto = true then hook c false { s with bsI := s.bsI + 1 } else s) = s1 ∧
      Inv c t0 s1 ∧ Later c s s1 ∧ s1.hung = s.hung ∧ s1.sched.length ≤ s.sched.length ∧
      s1.preLeft = s.preLeft := by
    by_cases hau : c.bsAuto = true
    · rw [if_pos hau]
      have h0 : Inv c t0 { s with bsI := s.bsI + 1 } :=
        h.frame rfl rfl rfl rfl rfl rfl rfl rfl rfl rfl rfl rfl rfl ⟨rfl, rfl, rfl, rfl, rfl, rfl, rfl, rfl, id⟩
      have hl0 : Later c s { s with bsI := s.bsI + 1 } :=
        Later.of_same rfl rfl rfl (Nat.le_refl _) rfl rfl rfl rfl rfl rfl rfl rfl rfl
          ⟨rfl, rfl, rfl, rfl, rfl, rfl, rfl, rfl, id⟩
      have hk := hook_spec hc false h0
      exact ⟨_, rfl, hk.inv, hl0.trans hk.later, hk.hung_nosleep rfl, hk.sched_le, hk.pre⟩
    · rw [if_neg hau]
      exact ⟨s, rfl, h, Later.refl c s, rfl, Nat.le_refl _, rfl⟩
  obtain ⟨s1, he, h1, hl1, hh1, hs1, hp1⟩ := hhook
  rw [he]
  have hstab1 : s.ready = [] → s.srcDead = true → s1.ready = [] ∧ s1.srcDead = true := hl1.exh
  by_cases hh : s1.hung = true
  · rw [if_pos hh]
    refine ⟨h1, hl1, hh1, hs1, ?_, by simp, by simp, fun _ => hp1, ?_⟩
    · intro _ _ hf; rw [hh] at hf; simp at hf
    · intro _ _ _; rfl
  rw [if_neg hh]
  by_cases hab1 : s1.aborting = true
  · have : dispatchLocked c false (scriptedBs c s) s1 = (s1, false) := by
      unfold dispatchLocked; rw [if_pos hab1]
    rw [this]
    refine ⟨h1, hl1, hh1, hs1, ?_, by simp, by simp, fun _ => hp1, ?_⟩
    · intro _ ha; rw [hab1] at ha; simp at ha
    · intro _ _ _; rfl
  have hna1 : s1.aborting = false := by simpa using hab1
  have hd := dispatchLocked_dlspec hc (fo := false) hbs h1.T h1.S h1.L hna1
  refine ⟨⟨hd.T, hd.S, hd.L, hd.iterp h1.P⟩, hl1.trans (Later.of_dlspec hna1 hd), hd.same.2.2.1.trans hh1,
    by rw [hd.same.1]; exact hs1, ?_, hd.pend, ?_, fun hm => (hd.pre_nomore hm).trans hp1, ?_⟩
  · intro hm ha _
    obtain ⟨x, y⟩ := hd.exh hm ha
    refine ⟨x, ?_⟩
    rcases y with y | y
    · exact Or.inl y
    · exact Or.inr y.2
  · intro hm ha
    have := hd.work_lt hm ha
    have := hl1.work_le
    omega
  · intro _ b d
    obtain ⟨x, y⟩ := hstab1 b d
    exact (hd.exh_stable x y).2.2

end JoblibModel.ParallelProto
