import JoblibProofs.Lemmas.ParallelProto.Deliver
/-!
The caller's pre-dispatch phase: `dispatchOneMain`, `startLoop`, `start` (`Parallel._start`), and `callStart`
(`_reset_run_tracking` + the set-up in `__call__`) which establishes the invariant.
-/
namespace JoblibModel.ParallelProto

/-- What one `dispatch_one_batch(iterator)` of the caller guarantees. -/
structure DMSpec (c : Cfg) (t0 : Nat) (s s' : St) (more : Bool) : Prop where
  inv : Inv c t0 s'
  later : Later c s s'
  hung : s'.hung = s.hung
  sched_le : s'.sched.length ≤ s.sched.length
  exh : more = false → s'.aborting = false → s'.hung = false →
    s'.ready = [] ∧ (s'.srcDead = true ∨ s'.preLeft = some 0)
  pend : more = true → s'.aborting = false →
    ∃ i, t0 ≤ i ∧ i < s'.trk.length ∧ (getTrk s' i).status = .pending
  work_lt : more = true → s'.aborting = false → work s' < work s
  pre_nomore : more = false → s'.preLeft = s.preLeft
  exh_stable : s.aborting = false → s.ready = [] → s.srcDead = true → more = false
  B : InvB c t0 s → InvB c t0 s'
  U : ordered c = false → InvU t0 s → UStep t0 s s'

theorem dispatchOneMain_spec {c : Cfg} (hc : CfgOK c) {t0 : Nat} {s : St} (h : Inv c t0 s) :
    DMSpec c t0 s (dispatchOneMain c s).1 (dispatchOneMain c s).2 := by
  unfold dispatchOneMain
  by_cases hab : s.aborting = true
  · rw [if_pos hab]
    refine ⟨h, Later.refl c s, rfl, Nat.le_refl _, ?_, by simp, by simp, fun _ => rfl, ?_, id,
      fun _ hU => UStep.refl hU⟩
    · intro _ ha; rw [hab] at ha; simp at ha
    · intro ha; rw [hab] at ha; simp at ha
  rw [if_neg hab]
  simp only
  have hbs := scriptedBs_pos hc s
  -- the hook point `compute_batch_size()`
  have hhook : ∃ s1, (if c.bsAuto = true then hook c false { s with bsI := s.bsI + 1 } else s) = s1 ∧
      Inv c t0 s1 ∧ Later c s s1 ∧ s1.hung = s.hung ∧ s1.sched.length ≤ s.sched.length ∧
      s1.preLeft = s.preLeft ∧ (InvB c t0 s → InvB c t0 s1) ∧
      (ordered c = false → InvU t0 s → UStep t0 s s1) := by
    by_cases hau : c.bsAuto = true
    · rw [if_pos hau]
      have h0 : Inv c t0 { s with bsI := s.bsI + 1 } :=
        h.frame rfl rfl rfl rfl rfl rfl rfl rfl rfl rfl rfl rfl rfl ⟨rfl, rfl, rfl, rfl, rfl, rfl, rfl, rfl, id⟩
      have hl0 : Later c s { s with bsI := s.bsI + 1 } :=
        Later.of_same rfl rfl rfl (Nat.le_refl _) rfl rfl rfl rfl rfl rfl rfl rfl rfl
          ⟨rfl, rfl, rfl, rfl, rfl, rfl, rfl, rfl, id⟩
      have hk := hook_spec hc false h0
      have hU0 : InvU t0 s → UStep t0 s { s with bsI := s.bsI + 1 } :=
        fun hU => UStep.of_same (InvU_frame hU rfl rfl rfl) (fun _ => rfl) rfl rfl rfl rfl rfl
      exact ⟨_, rfl, hk.inv, hl0.trans hk.later, hk.hung_nosleep rfl, hk.sched_le, hk.pre,
        fun hB => hk.B (InvB_mono hB rfl (fun _ => rfl) rfl rfl rfl (Nat.le_refl _)),
        fun ho hU => (hU0 hU).trans (hk.U ho (hU0 hU).inv) hk.later.frame.abort_mono⟩
    · rw [if_neg hau]
      exact ⟨s, rfl, h, Later.refl c s, rfl, Nat.le_refl _, rfl, id, fun _ hU => UStep.refl hU⟩
  obtain ⟨s1, he, h1, hl1, hh1, hs1, hp1, hB1, hU1⟩ := hhook
  rw [he]
  have hstab1 : s.ready = [] → s.srcDead = true → s1.ready = [] ∧ s1.srcDead = true := hl1.exh
  by_cases hh : s1.hung = true
  · rw [if_pos hh]
    refine ⟨h1, hl1, hh1, hs1, ?_, by simp, by simp, fun _ => hp1, ?_, hB1, hU1⟩
    · intro _ _ hf; rw [hh] at hf; simp at hf
    · intro _ _ _; rfl
  rw [if_neg hh]
  by_cases hab1 : s1.aborting = true
  · have : dispatchLocked c false (scriptedBs c s) s1 = (s1, false) := by
      unfold dispatchLocked; rw [if_pos hab1]
    rw [this]
    refine ⟨h1, hl1, hh1, hs1, ?_, by simp, by simp, fun _ => hp1, ?_, hB1, hU1⟩
    · intro _ ha; rw [hab1] at ha; simp at ha
    · intro _ _ _; rfl
  have hna1 : s1.aborting = false := by simpa using hab1
  have hd := dispatchLocked_dlspec hc (fo := false) hbs h1.T h1.S h1.L hna1
  refine ⟨⟨hd.T, hd.S, hd.L, hd.iterp h1.P⟩, hl1.trans (Later.of_dlspec hna1 hd), hd.same.2.2.1.trans hh1,
    by rw [hd.same.1]; exact hs1, ?_, hd.pend, ?_, fun hm => (hd.pre_nomore hm).trans hp1, ?_,
    fun hB => (dispatchLocked_B (fo := false) (scriptedBs_le_bmax c s) h1.S hna1 (hB1 hB)
      (fun _ hf => by cases hf)).1,
    fun ho hU => (hU1 ho hU).trans (dispatchLocked_U (fo := false) (bs := scriptedBs c s) ho h1.T h1.S hna1
      (hU1 ho hU).inv) hd.frame.abort_mono⟩
  · intro hm ha _
    obtain ⟨x, y⟩ := hd.exh hm ha
    refine ⟨x, ?_⟩
    rcases y with y | y
    · exact Or.inl y
    · exact Or.inr y.2
  · intro hm ha
    have := hd.work_lt hm ha
    have := hl1.work_le
    omega
  · intro _ b d
    obtain ⟨x, y⟩ := hstab1 b d
    exact (hd.exh_stable x y).2.2

/-- What `while self.dispatch_one_batch(iterator): pass` guarantees. -/
structure SLSpec (c : Cfg) (t0 : Nat) (fuel : Nat) (s s' : St) : Prop where
  inv : Inv c t0 s'
  later : Later c s s'
  hung : s'.hung = s.hung
  sched_le : s'.sched.length ≤ s.sched.length
  exh : work s + 2 ≤ fuel → s'.aborting = false → s'.hung = false →
    s'.ready = [] ∧ (s'.srcDead = true ∨ s'.preLeft = some 0)
  B : InvB c t0 s → InvB c t0 s'
  U : ordered c = false → InvU t0 s → UStep t0 s s'

theorem startLoop_spec {c : Cfg} (hc : CfgOK c) {t0 : Nat} : ∀ (fuel : Nat) (s : St), Inv c t0 s →
    SLSpec c t0 fuel s (startLoop c fuel s) := by
  intro fuel
  induction fuel with
  | zero =>
    intro s h
    unfold startLoop
    refine ⟨h.frame rfl rfl rfl rfl rfl rfl rfl rfl rfl rfl rfl rfl rfl ⟨rfl, rfl, rfl, rfl, rfl, rfl, rfl, rfl, id⟩,
      Later.of_same rfl rfl rfl (Nat.le_refl _) rfl rfl rfl rfl rfl rfl rfl rfl rfl
        ⟨rfl, rfl, rfl, rfl, rfl, rfl, rfl, rfl, id⟩, rfl, Nat.le_refl _, ?_,
      fun hB => InvB_mono hB rfl (fun _ => rfl) rfl rfl rfl (Nat.le_refl _),
      fun _ hU => UStep.of_same (InvU_frame hU rfl rfl rfl) (fun _ => rfl) rfl rfl rfl rfl rfl⟩
    intro hf; omega
  | succ fuel ih =>
    intro s h
    unfold startLoop
    have hd := dispatchOneMain_spec hc h
    generalize dispatchOneMain c s = res at hd
    obtain ⟨s1, more⟩ := res
    simp only at hd ⊢
    by_cases hcont : (more && !s1.hung) = true
    · rw [if_pos hcont]
      simp only [Bool.and_eq_true, Bool.not_eq_eq_eq_not, Bool.not_true] at hcont
      obtain ⟨hm, hh⟩ := hcont
      have hi := ih s1 hd.inv
      refine ⟨hi.inv, hd.later.trans hi.later, hi.hung.trans hd.hung, Nat.le_trans hi.sched_le hd.sched_le, ?_,
        fun hB => hi.B (hd.B hB),
        fun ho hU => (hd.U ho hU).trans (hi.U ho (hd.U ho hU).inv) hi.later.frame.abort_mono⟩
      intro hf ha hhu
      have ha1 : s1.aborting = false := by
        cases hx : s1.aborting with
        | false => rfl
        | true => rw [hi.later.frame.abort_mono hx] at ha; simp at ha
      have := hd.work_lt hm ha1
      exact hi.exh (by omega) ha hhu
    · rw [if_neg hcont]
      refine ⟨hd.inv, hd.later, hd.hung, hd.sched_le, ?_, hd.B, hd.U⟩
      intro _ ha hhu
      cases more with
      | false => exact hd.exh rfl ha hhu
      | true => simp [hhu] at hcont

/-- What `Parallel._start` guarantees. `s0` is the state with `_iterating` already cleared. -/
structure STSpec (c : Cfg) (t0 : Nat) (fuel : Nat) (s s' : St) : Prop where
  inv : Inv c t0 s'
  later : Later c { s with iterating := false } s'
  hung : s'.hung = s.hung
  sched_le : s'.sched.length ≤ s.sched.length
  post : work s + 2 ≤ fuel → s.hung = false →
    (c.pdMode = 1 ∨ (s.origAlive = true ∧ ∃ q, s.preLeft = some q ∧ 1 ≤ q)) → Post s'
  B : InvB c t0 { s with iterating := false } → InvB c t0 s'
  U : ordered c = false → InvU t0 { s with iterating := false } → UStep t0 { s with iterating := false } s'

theorem start_spec {c : Cfg} (hc : CfgOK c) {t0 : Nat} {fuel : Nat} {s : St}
    (h : Inv c t0 { s with iterating := false }) : STSpec c t0 fuel s (start c fuel s) := by
  unfold start
  simp only
  have hd := dispatchOneMain_spec hc h
  generalize dispatchOneMain c { s with iterating := false } = res at hd
  obtain ⟨s1, more⟩ := res
  simp only at hd ⊢
  by_cases hh1 : s1.hung = true
  · rw [if_pos hh1]
    refine ⟨hd.inv, hd.later, hd.hung, hd.sched_le, ?_, hd.B, hd.U⟩
    intro _ hh _
    have : s1.hung = false := hd.hung.trans hh
    rw [hh1] at this; simp at this
  rw [if_neg hh1]
  -- `self._iterating = self._original_iterator is not None`
  have h2 : ∃ s2, (if more = true then { s1 with iterating := s1.origAlive } else s1) = s2 ∧ Inv c t0 s2 ∧
      Later c s1 s2 ∧ s2.hung = s1.hung ∧ s2.sched = s1.sched ∧ work s2 = work s1 ∧ s2.preLeft = s1.preLeft ∧
      s2.aborting = s1.aborting ∧ s2.ready = s1.ready ∧ s2.srcDead = s1.srcDead ∧
      (more = true → s2.iterating = s2.origAlive) ∧ (more = false → s2 = s1) ∧
      (InvB c t0 s1 → InvB c t0 s2) ∧ (InvU t0 s1 → UStep t0 s1 s2) := by
    cases more with
    | false =>
      exact ⟨s1, rfl, hd.inv, Later.refl c s1, rfl, rfl, rfl, rfl, rfl, rfl, rfl, by simp, fun _ => rfl, id,
        fun hU => UStep.refl hU⟩
    | true =>
      refine ⟨_, rfl, ?_, ?_, rfl, rfl, rfl, rfl, rfl, rfl, rfl, fun _ => rfl, by simp,
        fun hB => InvB_mono hB rfl (fun _ => rfl) rfl rfl rfl (Nat.le_refl _),
        fun hU => UStep.of_same (InvU_frame hU rfl rfl rfl) (fun _ => rfl) rfl rfl rfl rfl rfl⟩
      · refine ⟨InvT_frame hd.inv.T rfl rfl rfl rfl rfl rfl rfl rfl rfl,
          InvS_frame hd.inv.S rfl rfl rfl rfl rfl rfl rfl rfl rfl, ?_, ?_⟩
        · exact ⟨fun hi => hi, hd.inv.L.orig_mode, hd.inv.L.pre_mode, hd.inv.L.orig_exh⟩
        · intro ha _; exact hd.pend rfl ha
      · have hg : ∀ j, getTrk { s1 with iterating := s1.origAlive } j = getTrk s1 j := fun _ => rfl
        refine ⟨⟨rfl, rfl, rfl, rfl, rfl, rfl, rfl, rfl, id⟩, Nat.le_refl _, fun j _ => ⟨rfl, rfl, rfl⟩,
          fun j _ _ => ⟨rfl, rfl⟩, fun _ => Nat.le_refl _, fun _ _ => rfl, fun _ => ⟨[], by simp⟩, ?_, rfl, rfl,
          Nat.le_refl _, Nat.le_refl _, Nat.le_refl _, fun _ => rfl, fun a b => ⟨a, b⟩, fun _ => Nat.le_refl _⟩
        intro hp ha hi
        have hi1 : s1.iterating = false := by
          have := hd.inv.L.iter_orig
          cases hx : s1.iterating with
          | false => rfl
          | true => have := this hx; simp only at hi; rw [this] at hi; simp at hi
        exact hp ha hi1
  obtain ⟨s2, he2, hi2, hl2, hh2, hs2, hw2, hp2, ha2, hr2, hdd2, hio2, hsame2, hB2, hU2⟩ := h2
  rw [he2]
  have hl := startLoop_spec hc fuel s2 hi2
  generalize startLoop c fuel s2 = s3 at hl
  have hw0 : work { s with iterating := false } = work s := rfl
  have hU3 : ordered c = false → InvU t0 { s with iterating := false } →
      UStep t0 { s with iterating := false } s3 := fun ho hU =>
    ((hd.U ho hU).trans (hU2 (hd.U ho hU).inv) (by rw [ha2]; exact id)).trans
      (hl.U ho (hU2 (hd.U ho hU).inv).inv) hl.later.frame.abort_mono
  -- the `Post` statement for `s3`
  have hpost3 : work s + 2 ≤ fuel → s.hung = false →
      (c.pdMode = 1 ∨ (s.origAlive = true ∧ ∃ q, s.preLeft = some q ∧ 1 ≤ q)) →
      s3.aborting = false → (c.pdMode = 1 ∨ s3.iterating = false) → s3.ready = [] ∧ s3.srcDead = true := by
    intro hf hhu hmode ha3 hit3
    have hh3 : s3.hung = false := by rw [hl.hung, hh2, hd.hung]; exact hhu
    have hwl : work s2 + 2 ≤ fuel := by
      have := hd.later.work_le
      rw [hw2]; omega
    by_cases hm1 : c.pdMode = 1
    · obtain ⟨x, y⟩ := hl.exh hwl ha3 hh3
      refine ⟨x, ?_⟩
      rcases y with y | y
      · exact y
      · rw [hl.inv.L.pre_mode hm1] at y; simp at y
    · rcases hmode with hmode | ⟨hor, q, hq, hq1⟩
      · exact absurd hmode hm1
      rcases hit3 with hit3 | hit3
      · exact absurd hit3 hm1
      cases more with
      | true =>
        have hio3 := hl.later.io (hio2 rfl)
        exact hl.inv.L.orig_exh hm1 (by rw [← hio3]; exact hit3) ha3
      | false =>
        have e21 := hsame2 rfl
        subst e21
        have ha1 : s2.aborting = false := by
          cases hx : s2.aborting with
          | false => rfl
          | true => rw [hl.later.frame.abort_mono hx] at ha3; simp at ha3
        have hh1' : s2.hung = false := by simpa using hh1
        obtain ⟨x, y⟩ := hd.exh rfl ha1 hh1'
        have hpl : s2.preLeft = some q := (hd.pre_nomore rfl).trans hq
        have yd : s2.srcDead = true := by
          rcases y with y | y
          · exact y
          · rw [hpl] at y; simp only [Option.some.injEq] at y; omega
        exact hl.later.exh x yd
  by_cases hh3 : s3.hung = true
  · rw [if_pos hh3]
    refine ⟨hl.inv, (hd.later.trans hl2).trans hl.later, by rw [hl.hung, hh2, hd.hung],
      Nat.le_trans hl.sched_le (by rw [hs2]; exact hd.sched_le), ?_, fun hB => hl.B (hB2 (hd.B hB)), hU3⟩
    intro _ hhu _
    have : s3.hung = false := by rw [hl.hung, hh2, hd.hung]; exact hhu
    rw [hh3] at this; simp at this
  rw [if_neg hh3]
  by_cases hm1 : (c.pdMode == 1) = true
  · rw [if_pos hm1]
    have hm1' : c.pdMode = 1 := by simpa using hm1
    have hit3 : s3.iterating = false := by
      cases hx : s3.iterating with
      | false => rfl
      | true => exact absurd hm1' (hl.inv.L.orig_mode (hl.inv.L.iter_orig hx))
    have hi4 : Inv c t0 { s3 with iterating := false } :=
      hl.inv.frame rfl rfl rfl rfl rfl rfl rfl rfl rfl rfl hit3.symm rfl rfl
        ⟨rfl, rfl, rfl, rfl, rfl, rfl, rfl, rfl, id⟩
    have hl4 : Later c s3 { s3 with iterating := false } :=
      Later.of_same rfl rfl rfl (Nat.le_refl _) rfl rfl rfl rfl hit3.symm rfl rfl rfl rfl
        ⟨rfl, rfl, rfl, rfl, rfl, rfl, rfl, rfl, id⟩
    refine ⟨hi4, ((hd.later.trans hl2).trans hl.later).trans hl4, by show s3.hung = _; rw [hl.hung, hh2, hd.hung],
      Nat.le_trans hl.sched_le (by rw [hs2]; exact hd.sched_le), ?_,
      fun hB => InvB_mono (hl.B (hB2 (hd.B hB))) rfl (fun _ => rfl) rfl rfl rfl (Nat.le_refl _),
      fun ho hU => (hU3 ho hU).trans (UStep.of_same (InvU_frame (hU3 ho hU).inv rfl rfl rfl) (fun _ => rfl) rfl rfl
        rfl rfl rfl) (fun h => h)⟩
    intro hf hhu hmode ha _
    exact hpost3 hf hhu hmode ha (Or.inl hm1')
  · rw [if_neg hm1]
    refine ⟨hl.inv, (hd.later.trans hl2).trans hl.later, by rw [hl.hung, hh2, hd.hung],
      Nat.le_trans hl.sched_le (by rw [hs2]; exact hd.sched_le), ?_, fun hB => hl.B (hB2 (hd.B hB)), hU3⟩
    intro hf hhu hmode ha hit
    exact hpost3 hf hhu hmode ha (Or.inr hit)

end JoblibModel.ParallelProto
