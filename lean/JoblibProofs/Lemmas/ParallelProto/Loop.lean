import JoblibProofs.Lemmas.ParallelProto.Retrieve
/-!
The retrieval loop and the tail loop of `_get_outputs`, ordered modes (`return_as` = list / generator).
-/
namespace JoblibModel.ParallelProto

/-- The generator is suspended in the tail loop (after `finally`). -/
structure GoodT (s : St) (g : Gen) : Prop where
  idle : Idle s
  clean : Clean s
  noexc : s.exception = false
  rem : ∀ i ∈ g.remaining, (getTrk s i).status = .done ∧ (getTrk s i).result = .vals (getTrk s i).items
  nodup : g.remaining.Nodup
  hung : s.hung = false
  noiter : ¬ (0 ≤ s.spec.iterfail ∧ s.spec.iterfail ≤ s.spec.n)
  stale : AllStale s

/-- What the tail loop is still going to yield. -/
def restT (s : St) (g : Gen) : List Nat := g.buf ++ (g.remaining.map (fun i => (getTrk s i).items)).flatten

def TLPost (s : St) (g : Gen) : St × Gen × Out → Prop
  | (s', g', .value v) => g'.phase = .tail ∧ GoodT s' g' ∧ restT s g = v :: restT s' g' ∧
      g'.remaining.length ≤ g.remaining.length ∧ s'.sched = s.sched ∧ s'.now = s.now ∧ s'.hung = s.hung ∧
      s'.parked = s.parked ∧ s'.spec = s.spec ∧ s'.failIds = s.failIds
  | (s', g', .stop) => g'.phase = .done ∧ Idle s' ∧ Clean s' ∧ s'.exception = false ∧ restT s g = [] ∧
      s'.sched = s.sched ∧ s'.now = s.now ∧ s'.hung = s.hung ∧ s'.parked = s.parked ∧ s'.failIds = s.failIds
  | (_, _, .raise _) => False
  | (_, _, .hang) => False

theorem tailLoop_spec : ∀ (fuel : Nat) (s : St) (g : Gen), GoodT s g → g.remaining.length + 1 ≤ fuel →
    TLPost s g (tailLoop fuel s g) := by
  intro fuel
  induction fuel with
  | zero => intro s g _ hf; omega
  | succ fuel ih =>
    intro s g hg hf
    unfold tailLoop
    cases hb : g.buf with
    | cons v r =>
      simp only
      refine ⟨rfl, ⟨hg.idle, hg.clean, hg.noexc, hg.rem, hg.nodup, hg.hung, hg.noiter, hg.stale⟩, ?_, Nat.le_refl _,
        rfl, rfl, rfl, rfl, rfl, rfl⟩
      simp [restT, hb]
    | nil =>
      simp only
      cases hr : g.remaining with
      | nil =>
        simp only
        exact ⟨rfl, hg.idle, hg.clean, hg.noexc, by simp [restT, hb, hr], rfl, rfl, rfl, rfl, rfl⟩
      | cons i rest =>
        simp only
        obtain ⟨hd, hres⟩ := hg.rem i (by rw [hr]; simp)
        rw [getResult_vals hres (by rw [hd]; simp)]
        simp only
        have hnd := hg.nodup
        rw [hr, List.nodup_cons] at hnd
        have hgs := getTrk_set (s := s) (s' := setTrk s i { getTrk s i with result := .none }) rfl
        have hg' : GoodT (setTrk s i { getTrk s i with result := .none })
            { g with buf := (getTrk s i).items, remaining := rest } := by
          refine ⟨⟨hg.idle.running, hg.idle.jobs, hg.idle.jobsSet, ?_, ?_, hg.idle.parked_nodup, ?_⟩,
            ⟨hg.clean.running, hg.clean.jobs, hg.clean.jobsSet, hg.clean.calling⟩, hg.noexc, ?_, hnd.2, hg.hung,
            hg.noiter, ?_⟩
          · intro j
            have := hg.idle.callId_le j
            rw [hgs]; show _ ≤ s.callCtr; grind
          · intro j hj; have := hg.idle.parked_lt j hj; simpa [setTrk] using this
          · refine Or.inr ?_
            intro j hj
            have := hg.stale j hj
            rw [hgs]; show _ ≠ s.callId; grind
          · intro j hj
            have hji : i ≠ j := fun e => hnd.1 (e ▸ hj)
            rw [hgs]; simp only [hji, false_and, if_false]
            exact hg.rem j (by rw [hr]; simp [hj])
          · intro j hj
            have := hg.stale j hj
            rw [hgs]; show _ ≠ s.callId; grind
        have := ih _ _ hg' (by simp only; rw [hr] at hf; simp only [List.length_cons] at hf; omega)
        generalize tailLoop fuel (setTrk s i { getTrk s i with result := .none })
          { g with buf := (getTrk s i).items, remaining := rest } = res at this
        obtain ⟨s', g', o⟩ := res
        have hrt : restT s g = restT (setTrk s i { getTrk s i with result := .none })
            { g with buf := (getTrk s i).items, remaining := rest } := by
          simp only [restT, hb, hr, List.map_cons, List.flatten_cons, List.nil_append]
          congr 2
          apply List.map_congr_left
          intro j _
          rw [hgs]; grind
        cases o with
        | value v =>
          obtain ⟨a1, a2, a3, a4, a5, a6, a7, a8, a9, a10⟩ := this
          refine ⟨a1, a2, by rw [hrt]; exact a3, ?_, a5, a6, a7, a8, a9, a10⟩
          rw [hr]; simp only [List.length_cons] at a4 ⊢; omega
        | stop =>
          obtain ⟨a1, a2, a3, a4, a5, a6, a7, a8, a9, a10⟩ := this
          exact ⟨a1, a2, a3, a4, by rw [hrt]; exact a5, a6, a7, a8, a9, a10⟩
        | raise e => exact this
        | hang => exact this

/-- The generator is suspended inside the retrieval loop. -/
structure GoodR (c : Cfg) (t0 : Nat) (s : St) : Prop where
  inv : Inv c t0 s
  post : Post s
  hung : s.hung = false
  cid : s.callId = s.callCtr

/-- Fuel that suffices for one `next()` from a non-aborting state. -/
def boundR (c : Cfg) (s : St) : Nat := meas c s + s.sched.length + 2

/-- Outcome of one `next()` in the retrieval phase. -/
def RLPost (c : Cfg) (t0 : Nat) (s : St) (g : Gen) : St × Gen × Out → Prop
  | (s', g', .value v) =>
      (s.aborting = true → s'.aborting = true) ∧
      ((g'.phase = .retrieve ∧ GoodR c t0 s' ∧ Frame s s' ∧
          (s'.aborting = false → g.buf ++ restS s = v :: (g'.buf ++ restS s')) ∧
          (s'.aborting = false → boundR c s' ≤ boundR c s) ∧
          g'.buf.length + (restS s').length + 1 ≤ g.buf.length + (restS s).length) ∨
       (g'.phase = .tail ∧ GoodT s' g' ∧ s.aborting = false ∧ g.buf ++ restS s = v :: restT s' g' ∧
          g'.remaining.length + 1 ≤ boundR c s ∧ s'.spec = s.spec ∧ s'.failIds = s.failIds))
  | (s', g', .stop) => g'.phase = .done ∧ Idle s' ∧ Clean s' ∧ s'.exception = false ∧ s.aborting = false ∧
      g.buf ++ restS s = [] ∧ s'.hung = false ∧ ¬ (0 ≤ s.spec.iterfail ∧ s.spec.iterfail ≤ s.spec.n) ∧
      s'.failIds = s.failIds
  | (s', g', .raise e) => g'.phase = .done ∧ Idle s' ∧ Clean s' ∧ s'.exception = true ∧ Legit c s e ∧
      s'.hung = false ∧ s'.failIds = s.failIds
  | (_, _, .hang) => False

/-- Move the outcome statement from a later loop state back to the state the iteration started from. -/
theorem RLPost.transfer {c : Cfg} {t0 : Nat} {s s1 : St} {g g1 : Gen} {res : St × Gen × Out}
    (h : RLPost c t0 s1 g1 res) (hf : Frame s s1)
    (hrest : s1.aborting = false → g.buf ++ restS s = g1.buf ++ restS s1)
    (hb : s1.aborting = false → boundR c s1 ≤ boundR c s)
    (hlen : g1.buf.length + (restS s1).length ≤ g.buf.length + (restS s).length) :
    RLPost c t0 s g res := by
  have hna : s1.aborting = false → s.aborting = false := by
    intro h1
    cases hx : s.aborting with
    | false => rfl
    | true => rw [hf.abort_mono hx] at h1; simp at h1
  obtain ⟨s', g', o⟩ := res
  cases o with
  | value v =>
    obtain ⟨a1, a2⟩ := h
    refine ⟨fun hx => a1 (hf.abort_mono hx), ?_⟩
    rcases a2 with ⟨b1, b2, bf, b3, b4, b6⟩ | ⟨b1, b2, b3, b4, b5, b7, b8⟩
    · left
      have hna1 : s'.aborting = false → s1.aborting = false := by
        intro h1
        cases hx : s1.aborting with
        | false => rfl
        | true => rw [a1 hx] at h1; simp at h1
      exact ⟨b1, b2, hf.trans bf, fun hx => by rw [hrest (hna1 hx)]; exact b3 hx,
        fun hx => Nat.le_trans (b4 hx) (hb (hna1 hx)), by omega⟩
    · right
      exact ⟨b1, b2, hna b3, by rw [hrest b3]; exact b4, Nat.le_trans b5 (hb b3), b7.trans hf.spec,
        b8.trans hf.failIds⟩
  | stop =>
    obtain ⟨a1, a2, a3, a4, a5, a6, a7, a8, a9⟩ := h
    exact ⟨a1, a2, a3, a4, hna a5, by rw [hrest a5]; exact a6, a7, by rw [← hf.spec]; exact a8,
      a9.trans hf.failIds⟩
  | raise e =>
    obtain ⟨a1, a2, a3, a4, a5, a6, a7⟩ := h
    exact ⟨a1, a2, a3, a4, (Legit_congr hf.failIds hf.base hf.spec e).mp a5, a6, a7.trans hf.failIds⟩
  | hang => exact h

/-- While the retrieval loop has to wait (and the call is not aborting) some batch of the call is parked. -/
theorem pending_exists {c : Cfg} {t0 : Nat} {s : St} (h : Inv c t0 s) (hna : s.aborting = false)
    (hw : s.iterating = true ∨ s.nCompleted < s.nDispTasks) :
    ∃ i, t0 ≤ i ∧ i < s.trk.length ∧ (getTrk s i).status = .pending ∧ i ∈ s.parked := by
  have key : ∃ i, t0 ≤ i ∧ i < s.trk.length ∧ (getTrk s i).status = .pending := by
    rcases hw with hw | hw
    · exact h.P hna hw
    · have := h.S.ncomp hna
      have hpos : 0 < pendSum (own t0 s) := by omega
      obtain ⟨t, ht, hp, _⟩ := (pendSum_pos_iff _).mp hpos
      obtain ⟨k, hk⟩ := List.mem_iff_getElem?.mp ht
      have hkl : k < (own t0 s).length := by
        rcases Nat.lt_or_ge k (own t0 s).length with hlt | hge
        · exact hlt
        · rw [List.getElem?_eq_none hge] at hk; simp at hk
      have hlen : (own t0 s).length = s.trk.length - t0 := by simp [own]
      have h1 : t0 + k < s.trk.length := by omega
      obtain ⟨_, he⟩ := own_getElem (t0 := t0) (s := s) (i := t0 + k) (by omega) h1
      have hk' : (own t0 s)[k] = t := by simpa [List.getElem?_eq_getElem hkl] using hk
      refine ⟨t0 + k, by omega, h1, ?_⟩
      rw [← he]
      have : t0 + k - t0 = k := by omega
      simp only [this, hk', hp]
  obtain ⟨i, i0, i1, i2⟩ := key
  exact ⟨i, i0, i1, i2, by
    have := (h.T.parked_pending hna i i0 i1).mp i2
    simpa using this⟩

/-- At the loop's normal exit every batch still queued has completed and its result is intact. -/
theorem exit_all_done {c : Cfg} {t0 : Nat} {s : St} (h : Inv c t0 s) (hna : s.aborting = false)
    (hw : ¬ s.nCompleted < s.nDispTasks) :
    ∀ i ∈ s.jobs, (getTrk s i).status = .done ∧ (getTrk s i).result = .vals (getTrk s i).items := by
  intro i hi
  obtain ⟨i0, i1⟩ := h.T.jobs_own i hi
  have hne := h.T.no_error hna i i0 i1
  have hnp : (getTrk s i).status ≠ .pending := by
    intro hp
    have hok := h.T.items_ok i i0 i1 hne
    have hpos : 0 < pendSum (own t0 s) := by
      rw [pendSum_pos_iff]
      obtain ⟨hl, he⟩ := own_getElem i0 i1
      refine ⟨(own t0 s)[i - t0], List.getElem_mem hl, by rw [he]; exact hp, ?_⟩
      rw [he, hok.2]
      exact List.length_pos_iff.mpr hok.1
    have := h.S.ncomp hna
    omega
  have hd : (getTrk s i).status = .done := by
    cases hst : (getTrk s i).status with
    | pending => exact absurd hst hnp
    | done => rfl
    | error => exact absurd hst hne
  exact ⟨hd, (h.T.tok i hi).1 hd⟩

theorem GoodR.frame {c : Cfg} {t0 : Nat} {s s' : St} (h : GoodR c t0 s)
    (htrk : s'.trk = s.trk) (hjobs : s'.jobs = s.jobs) (hparked : s'.parked = s.parked)
    (hab : s'.aborting = s.aborting) (hexc : s'.exception = s.exception)
    (hready : s'.ready = s.ready) (hpos : s'.srcPos = s.srcPos) (hdead : s'.srcDead = s.srcDead)
    (hnd : s'.nDispTasks = s.nDispTasks) (hnc : s'.nCompleted = s.nCompleted)
    (hit : s'.iterating = s.iterating) (hor : s'.origAlive = s.origAlive) (hpre : s'.preLeft = s.preLeft)
    (hhung : s'.hung = s.hung) (hf : Frame s s') : GoodR c t0 s' :=
  ⟨h.inv.frame htrk hjobs hparked hab hexc hready hpos hdead hnd hnc hit hor hpre hf,
   by have := h.post; simp only [Post, hab, hit, hready, hdead] at this ⊢; exact this,
   by rw [hhung]; exact h.hung, by rw [hf.callId, hf.callCtr]; exact h.cid⟩

/-- The exception leaves the call: `except BaseException` + `finally`. -/
theorem raise_end {c : Cfg} {t0 : Nat} {s s3 : St} (h : GoodR c t0 s)
    (hg : ∀ j, (getTrk s3 j).callId = (getTrk s j).callId) (hlen : s3.trk.length = s.trk.length)
    (hctr : s3.callCtr = s.callCtr) (hpk : s3.parked = s.parked) (hhu : s3.hung = s.hung)
    (hfi : s3.failIds = s.failIds) :
    Idle (handleException c s3) ∧ Clean (handleException c s3) ∧ (handleException c s3).exception = true ∧
    (handleException c s3).hung = false ∧ (handleException c s3).failIds = s.failIds := by
  obtain ⟨lg, pk, sc, ib, he, hpk', _⟩ := handleException_eq c s3
  rw [he]
  refine ⟨idle_of_end h.inv.T h.cid hg hlen hctr ?_ (Or.inl rfl) rfl rfl rfl, ⟨rfl, rfl, rfl, rfl⟩, rfl,
    by show s3.hung = false; rw [hhu]; exact h.hung, hfi⟩
  show pk.Sublist s.parked
  rw [← hpk]; exact hpk'

/-- Normal exit of the retrieval loop: `finally`, then the tail loop over what is still queued. -/
theorem rl_exit {c : Cfg} {t0 : Nat} {s : St} {g : Gen} (fuel : Nat) (ho : ordered c = true)
    (h : GoodR c t0 s) (hb : g.buf = [])
    (hna : s.aborting = false) (hit : s.iterating = false) (hw : ¬ s.nCompleted < s.nDispTasks) :
    RLPost c t0 s g
      (tailLoop (fuel + (finallyBlock s).2.length + 1) (finallyBlock s).1
        { g with phase := .tail, remaining := (finallyBlock s).2 }) := by
  obtain ⟨lg, hfb⟩ := finallyBlock_eq s
  have hexc : s.exception = false := by rw [h.inv.T.abort_exc]; exact hna
  have hfb2 : (finallyBlock s).2 = s.jobs := by rw [hfb]; simp [hexc]
  have hfb1 : (finallyBlock s).1 =
      { s with log := lg, jobs := [], jobsSet := [], running := false, calling := false } := by rw [hfb]
  rw [hfb1, hfb2]
  have hdone := exit_all_done h.inv hna hw
  obtain ⟨p, p1, p2, p3, p4⟩ := h.inv.T.ord_jobs ho
  have hpost := h.post hna hit
  have hn : s.srcPos = s.spec.n := (h.inv.S.dead hna hpost.2).1
  have hnoit : ¬ (0 ≤ s.spec.iterfail ∧ s.spec.iterfail ≤ s.spec.n) := by
    intro ⟨x, y⟩
    have h1 := h.inv.S.src_iter x
    have h2 := (h.inv.S.dead hna hpost.2).2
    omega
  have hstale : AllStale { s with log := lg, jobs := [], jobsSet := [], running := false, calling := false } := by
    intro i hi hcid
    have hcid' : (getTrk s i).callId = s.callId := hcid
    obtain ⟨i0, i1⟩ := own_of_callId h.inv.T hcid'
    have hpend : (getTrk s i).status = .pending :=
      (h.inv.T.parked_pending hna i i0 i1).mpr (Or.inl hi)
    rcases Nat.lt_or_ge i p with hlt | hge
    · exact p4 i i0 hlt hpend
    · have hmem : i ∈ s.jobs := by rw [p3, List.mem_range'_1]; omega
      rw [(hdone i hmem).1] at hpend; cases hpend
  have hgt : GoodT { s with log := lg, jobs := [], jobsSet := [], running := false, calling := false }
      { g with phase := .tail, remaining := s.jobs } := by
    refine ⟨idle_of_end h.inv.T h.cid (fun _ => rfl) rfl rfl (List.Sublist.refl _) (Or.inr hstale) rfl rfl rfl,
      ⟨rfl, rfl, rfl, rfl⟩, hexc, hdone, ?_, h.hung, hnoit, hstale⟩
    show s.jobs.Nodup
    rw [p3]; exact List.nodup_range' (step := 1) (by omega)
  have hrest : g.buf ++ restS s =
      restT { s with log := lg, jobs := [], jobsSet := [], running := false, calling := false }
        { g with phase := .tail, remaining := s.jobs } := by
    simp only [restT, restS, hb, hpost.1, hn, Nat.sub_self, List.range'_zero, List.flatten_nil, List.append_nil,
      List.nil_append]
    rfl
  have ht := tailLoop_spec (fuel + s.jobs.length + 1) _ _ hgt (by simp only; omega)
  generalize tailLoop (fuel + s.jobs.length + 1)
    { s with log := lg, jobs := [], jobsSet := [], running := false, calling := false }
    { g with phase := .tail, remaining := s.jobs } = res at ht
  obtain ⟨s', g', o⟩ := res
  cases o with
  | value v =>
    obtain ⟨a1, a2, a3, a4, _, _, _, _, hsp, hfi⟩ := ht
    refine ⟨fun hx => by rw [hna] at hx; simp at hx, Or.inr ⟨a1, a2, hna, by rw [hrest]; exact a3, ?_, ?_, hfi⟩⟩
    · simp only [boundR, meas, unpopped, ho, if_true] at a4 ⊢
      omega
    · exact hsp
  | stop =>
    obtain ⟨a1, a2, a3, a4, a5, _, _, a8, _, a10⟩ := ht
    exact ⟨a1, a2, a3, a4, hna, by rw [hrest]; exact a5, by rw [a8]; exact h.hung, hnoit, a10⟩
  | raise e => exact ht.elim
  | hang => exact ht.elim

/-- `_raise_error_fast` when the loop finds the call aborting. -/
theorem rl_abort {c : Cfg} {t0 : Nat} {s : St} {g : Gen} (fuel : Nat)
    (h : GoodR c t0 s) (hab : s.aborting = true) :
    RLPost c t0 s g
      (match firstErrorJob s s.jobs with
        | some i =>
          match getResult s i with
          | (s, .error e) => (handleException c s, { g with phase := .done }, .raise e)
          | (s, .ok _) =>
            let (s, rem) := finallyBlock s
            tailLoop (fuel + rem.length + 1) s { g with phase := .tail, remaining := rem }
        | none =>
          let (s, rem) := finallyBlock s
          tailLoop (fuel + rem.length + 1) s { g with phase := .tail, remaining := rem }) := by
  obtain ⟨i, hfe, hmem, hst⟩ := firstErrorJob_some (h.inv.T.abort_err hab)
  rw [hfe]
  simp only
  obtain ⟨s3, e, hres, hleg, hcid, hlen, hs3⟩ := pop_error (rest := s.jobs) h.inv hmem hst
  have : getResult s i = (s3, .error e) := hres
  rw [this]
  simp only
  obtain ⟨x, y, z, w, u⟩ := raise_end (c := c) h hcid hlen (by rw [hs3]) (by rw [hs3]) (by rw [hs3]) (by rw [hs3])
  exact ⟨rfl, x, y, z, hleg, w, u⟩

/-- The `time.sleep` of the retrieval loop (a hook point), from a state in which some batch is parked. -/
theorem rl_sleep {c : Cfg} (hc : CfgOK c) {t0 : Nat} {s : St} (ho : ordered c = true) (h : GoodR c t0 s)
    (hpk : s.parked ≠ []) :
    GoodR c t0 (hook c true { s with now := s.now + 1 }) ∧
    Frame s (hook c true { s with now := s.now + 1 }) ∧
    ((hook c true { s with now := s.now + 1 }).aborting = false →
      restS (hook c true { s with now := s.now + 1 }) = restS s) ∧
    ((hook c true { s with now := s.now + 1 }).aborting = false →
      boundR c (hook c true { s with now := s.now + 1 }) + 1 ≤ boundR c s) ∧
    (restS (hook c true { s with now := s.now + 1 })).length ≤ (restS s).length := by
  have h0 : GoodR c t0 { s with now := s.now + 1 } :=
    h.frame rfl rfl rfl rfl rfl rfl rfl rfl rfl rfl rfl rfl rfl rfl ⟨rfl, rfl, rfl, rfl, rfl, rfl, rfl, rfl, id⟩
  have hk := hook_spec hc true h0.inv
  have hf := hk.later.frame
  refine ⟨⟨hk.inv, hk.later.post h0.post, ?_, ?_⟩,
    ⟨hf.base, hf.spec, hf.callId, hf.callCtr, hf.failIds, hf.managed, hf.running, hf.calling, hf.abort_mono⟩,
    fun ha => hk.later.restS ho ha, ?_, hk.later.rlen ho⟩
  · rw [hk.hung_sleep (Or.inl hpk)]; exact h.hung
  · rw [hf.callId, hf.callCtr]; exact h.cid
  · intro ha
    have := hk.prog rfl (Or.inl hpk) ha
    simp only [boundR]
    show _ ≤ meas c s + s.sched.length + 2
    have e1 : meas c { s with now := s.now + 1 } = meas c s := rfl
    have e2 : ({ s with now := s.now + 1 } : St).sched = s.sched := rfl
    rw [e1, e2] at this
    omega

/-- One `next()` on the output generator while it is inside the retrieval loop (ordered modes): it yields the
next expected value, or ends the call cleanly; it never hangs and never runs out of fuel. -/
theorem retrieveLoop_spec {c : Cfg} (hc : CfgOK c) {t0 : Nat} (ho : ordered c = true) :
    ∀ (fuel : Nat) (s : St) (g : Gen), GoodR c t0 s → 1 ≤ fuel → (s.aborting = false → boundR c s ≤ fuel) →
      RLPost c t0 s g (retrieveLoop c fuel s g) := by
  intro fuel
  induction fuel with
  | zero => intro s g _ hf; omega
  | succ fuel ih =>
    intro s g h _ hfuel
    unfold retrieveLoop
    obtain ⟨gph, gbuf, grem, gtcj⟩ := g
    cases gbuf with
    | cons v r =>
      simp only
      refine ⟨fun hx => hx, Or.inl ⟨rfl, ?_, ⟨rfl, rfl, rfl, rfl, rfl, rfl, rfl, rfl, id⟩, ?_, ?_, ?_⟩⟩
      · exact h.frame rfl rfl rfl rfl rfl rfl rfl rfl rfl rfl rfl rfl rfl rfl
          ⟨rfl, rfl, rfl, rfl, rfl, rfl, rfl, rfl, id⟩
      · intro _; simp only [List.cons_append]; rfl
      · intro _; exact Nat.le_refl _
      · simp only [List.length_cons]
        show r.length + (restS s).length + 1 ≤ _
        omega
    | nil =>
      simp only
      have hb : ({ phase := gph, buf := [], remaining := grem, tcj := gtcj } : Gen).buf = [] := rfl
      by_cases hw : (!(s.aborting || s.iterating || decide (s.nCompleted < s.nDispTasks))) = true
      · -- normal exit
        rw [if_pos hw]
        simp only [Bool.not_eq_eq_eq_not, Bool.not_true, Bool.or_eq_false_iff, decide_eq_false_iff_not] at hw
        exact rl_exit (g := { phase := gph, buf := [], remaining := grem, tcj := gtcj }) fuel ho h hb hw.1.1 hw.1.2 hw.2
      rw [if_neg hw]
      by_cases hab : s.aborting = true
      · rw [if_pos hab]
        exact rl_abort (g := { phase := gph, buf := [], remaining := grem, tcj := gtcj }) fuel h hab
      rw [if_neg hab]
      have hna : s.aborting = false := by simpa using hab
      have hwait : s.iterating = true ∨ s.nCompleted < s.nDispTasks := by
        simp only [hna, Bool.false_or, Bool.not_eq_eq_eq_not, Bool.not_true, Bool.or_eq_false_iff,
          decide_eq_false_iff_not, not_and, Decidable.not_not] at hw
        by_cases hi : s.iterating = true
        · exact Or.inl hi
        · exact Or.inr (hw (by simpa using hi))
      have hbound := hfuel hna
      rw [if_pos ho]
      -- what sleeping and looping again gives
      have hloop : ∀ s0 : St, GoodR c t0 s0 → Frame s s0 → s0.parked ≠ [] → s0.aborting = false →
          (restS s0 = restS s) → boundR c s0 ≤ boundR c s →
          RLPost c t0 s { phase := gph, buf := [], remaining := grem, tcj := gtcj }
            (if (hook c true { s0 with now := s0.now + 1 }).hung = true
              then (hook c true { s0 with now := s0.now + 1 }, { phase := gph, buf := [], remaining := grem, tcj := gtcj }, Out.hang)
              else retrieveLoop c fuel (hook c true { s0 with now := s0.now + 1 }) { phase := gph, buf := [], remaining := grem, tcj := gtcj }) := by
        intro s0 h0 hf0 hpk0 hna0 hr0 hb0
        obtain ⟨hg1, hf1, hr1, hb1, hl1⟩ := rl_sleep hc ho h0 hpk0
        rw [if_neg (by rw [hg1.hung]; simp)]
        have := ih _ { phase := gph, buf := [], remaining := grem, tcj := gtcj } hg1
          (by simp only [boundR] at hbound hb0; omega) (fun ha => by have := hb1 ha; omega)
        exact this.transfer (hf0.trans hf1) (fun ha => by rw [hr1 ha, hr0]) (fun ha => by have := hb1 ha; omega)
          (by rw [← hr0]; simp only [List.length_nil]; omega)
      cases hj : s.jobs with
      | nil =>
        simp only
        obtain ⟨i, _, _, _, hip⟩ := pending_exists h.inv hna hwait
        have h' : GoodR c t0 { s with jobs := [] } :=
          h.frame rfl hj.symm rfl rfl rfl rfl rfl rfl rfl rfl rfl rfl rfl rfl
            ⟨rfl, rfl, rfl, rfl, rfl, rfl, rfl, rfl, id⟩
        refine hloop { s with jobs := [] } h' ⟨rfl, rfl, rfl, rfl, rfl, rfl, rfl, rfl, id⟩
          (by intro hx; exact absurd hip (by rw [show s.parked = [] from hx]; simp)) hna ?_ ?_
        · simp only [restS, hj, List.map_nil]
        · simp only [boundR, meas, unpopped, ho, if_true, hj, work]; exact Nat.le_refl _
      | cons i rest =>
        simp only
        have hmem : i ∈ s.jobs := by rw [hj]; simp
        obtain ⟨hi0, hi1⟩ := h.inv.T.jobs_own i hmem
        obtain ⟨gs1, gs2, gs3, gs4, gs5, gs6, gs7, gs8, gs9, gs10⟩ := getStatus_spec (c := c) h.inv hi0 hi1
        generalize hgs : getStatus c s i = r at gs1 gs2 gs3 gs4 gs5 gs6 gs7 gs8 gs9 gs10
        obtain ⟨s1, st⟩ := r
        simp only at gs1 gs2 gs3 gs4 gs5 gs6 gs7 gs8 gs9 gs10 ⊢
        have hg1 : GoodR c t0 s1 := ⟨gs1, gs2.post h.post, by rw [gs5]; exact h.hung,
          by rw [gs2.frame.callId, gs2.frame.callCtr]; exact h.cid⟩
        cases st with
        | pending =>
          simp only [beq_self_eq_true, if_true]
          have hna1 : s1.aborting = false := by rw [gs8 rfl]; exact hna
          have hip : i ∈ s1.parked := by
            have := (gs1.T.parked_pending hna1 i hi0 (Nat.lt_of_lt_of_le hi1 gs2.len)).mp gs3.symm
            simpa using this
          refine hloop s1 hg1 gs2.frame (by intro hx; rw [hx] at hip; simp at hip) hna1
            (gs2.restS ho hna1) ?_
          have := gs2.meas_le hna1
          simp only [boundR, gs4]; omega
        | done =>
          have hs1 : s1 = s := gs9 rfl
          subst hs1
          have : ((Status.done == Status.pending) = true) = False := by simp
          simp only [this, if_false]
          obtain ⟨s3, hres, hi3, hp3, hr3, hm3, hf3, hna3, hsc3, hh3, _, _, _, _, _⟩ :=
            pop_done ho h.inv hna hj gs3.symm
          rw [hres]
          simp only
          have hg3 : GoodR c t0 s3 := ⟨hi3, hp3 h.post, by rw [hh3]; exact h.hung,
            by rw [hf3.callId, hf3.callCtr]; exact h.cid⟩
          have := ih s3 { phase := gph, buf := (getTrk s1 i).items, remaining := grem, tcj := gtcj } hg3
            (by simp only [boundR] at hbound; omega)
            (fun _ => by simp only [boundR, hsc3] at hbound ⊢; omega)
          exact this.transfer hf3 (fun _ => by simp only [List.nil_append]; exact hr3)
            (fun _ => by simp only [boundR, hsc3]; omega)
            (by rw [hr3]; simp only [List.length_nil, List.length_append]; omega)
        | error =>
          have : ((Status.error == Status.pending) = true) = False := by simp
          simp only [this, if_false]
          have hj1 : s1.jobs = i :: rest := by rw [gs7 ho]; exact hj
          obtain ⟨s3, e, hres, hleg, hcid, hlen, hs3⟩ :=
            pop_error (rest := rest) gs1 (by rw [hj1]; simp) gs3.symm
          rw [hres]
          simp only
          obtain ⟨x, y, z, w, u⟩ := raise_end (c := c) hg1 hcid hlen (by rw [hs3]) (by rw [hs3]) (by rw [hs3])
            (by rw [hs3])
          exact ⟨rfl, x, y, z, (Legit_congr gs2.frame.failIds gs2.frame.base gs2.frame.spec e).mp hleg, w,
            u.trans gs2.frame.failIds⟩

end JoblibModel.ParallelProto
