import JoblibProofs.Lemmas.ParallelProto.Dispatch
/-!
Completion callbacks (`callback`, `deliver`, `deliverAll`, `hook`) preserve the invariant. `Later c s s'` collects the
relational facts that every dispatch / completion step guarantees and that compose transitively.
-/
namespace JoblibModel.ParallelProto

/-- After `_start`: once `_iterating` is cleared (and the call is not aborting) the input is exhausted and
nothing is queued. -/
def Post (s : St) : Prop := s.aborting = false → s.iterating = false → s.ready = [] ∧ s.srcDead = true

/-- `s'` is a later state of the same call, reached by dispatch and completion steps only (the retrieving thread
did not pop or time out in between). -/
structure Later (c : Cfg) (s s' : St) : Prop where
  frame : Frame s s'
  len : s.trk.length ≤ s'.trk.length
  old : ∀ i, i < s.trk.length → (getTrk s' i).items = (getTrk s i).items ∧
    (getTrk s' i).callId = (getTrk s i).callId ∧ (getTrk s' i).bsize = (getTrk s i).bsize
  settled : ∀ i, i < s.trk.length → (getTrk s i).status ≠ .pending →
    (getTrk s' i).status = (getTrk s i).status ∧ (getTrk s' i).result = (getTrk s i).result
  meas_le : s'.aborting = false → meas c s' ≤ meas c s
  restS : ordered c = true → s'.aborting = false → restS s' = restS s
  jobs_pre : ordered c = true → ∃ l, s'.jobs = s.jobs ++ l
  post : Post s → Post s'
  now : s'.now = s.now
  nbc : s'.nbConsumed = s.nbConsumed
  ncomp : s.nCompleted ≤ s'.nCompleted
  pos : s.srcPos ≤ s'.srcPos
  work_le : work s' ≤ work s
  io : s.iterating = s.origAlive → s'.iterating = s'.origAlive
  exh : s.ready = [] → s.srcDead = true → s'.ready = [] ∧ s'.srcDead = true
  rlen : ordered c = true →
    (JoblibModel.ParallelProto.restS s').length ≤ (JoblibModel.ParallelProto.restS s).length

theorem Later.refl (c : Cfg) (s : St) : Later c s s :=
  ⟨Frame.refl s, Nat.le_refl _, fun _ _ => ⟨rfl, rfl, rfl⟩, fun _ _ _ => ⟨rfl, rfl⟩, fun _ => Nat.le_refl _,
   fun _ _ => rfl, fun _ => ⟨[], by simp⟩, id, rfl, rfl, Nat.le_refl _, Nat.le_refl _, Nat.le_refl _, id,
   fun a b => ⟨a, b⟩, fun _ => Nat.le_refl _⟩

theorem Later.trans {c : Cfg} {a b d : St} (h1 : Later c a b) (h2 : Later c b d) : Later c a d := by
  have hab : d.aborting = false → b.aborting = false := by
    intro hd
    cases hb : b.aborting with
    | false => rfl
    | true => rw [h2.frame.abort_mono hb] at hd; simp at hd
  refine ⟨h1.frame.trans h2.frame, Nat.le_trans h1.len h2.len, ?_, ?_, ?_, ?_, ?_, fun hp => h2.post (h1.post hp),
    h2.now.trans h1.now, h2.nbc.trans h1.nbc, Nat.le_trans h1.ncomp h2.ncomp, Nat.le_trans h1.pos h2.pos,
    Nat.le_trans h2.work_le h1.work_le, fun h => h2.io (h1.io h),
    fun a b => h2.exh (h1.exh a b).1 (h1.exh a b).2, fun ho => Nat.le_trans (h2.rlen ho) (h1.rlen ho)⟩
  · intro i hi
    have x := h1.old i hi
    have y := h2.old i (Nat.lt_of_lt_of_le hi h1.len)
    exact ⟨y.1.trans x.1, y.2.1.trans x.2.1, y.2.2.trans x.2.2⟩
  · intro i hi hs
    have x := h1.settled i hi hs
    have y := h2.settled i (Nat.lt_of_lt_of_le hi h1.len) (by rw [x.1]; exact hs)
    exact ⟨y.1.trans x.1, y.2.trans x.2⟩
  · intro hd; exact Nat.le_trans (h2.meas_le hd) (h1.meas_le (hab hd))
  · intro ho hd; exact (h2.restS ho hd).trans (h1.restS ho (hab hd))
  · intro ho
    obtain ⟨l1, e1⟩ := h1.jobs_pre ho
    obtain ⟨l2, e2⟩ := h2.jobs_pre ho
    exact ⟨l1 ++ l2, by rw [e2, e1, List.append_assoc]⟩

/-- Steps that change nothing the relations read (log, `bsI`, `inCb`, `idle`, `sched`, `hung`). -/
theorem Later.of_same {c : Cfg} {s s' : St}
    (htrk : s'.trk = s.trk) (hjobs : s'.jobs = s.jobs) (hjs : s'.jobsSet = s.jobsSet)
    (hparked : s'.parked.length ≤ s.parked.length) (hready : s'.ready = s.ready) (hpos : s'.srcPos = s.srcPos)
    (hdead : s'.srcDead = s.srcDead) (hab : s'.aborting = s.aborting) (hit : s'.iterating = s.iterating)
    (hnow : s'.now = s.now) (hnbc : s'.nbConsumed = s.nbConsumed) (hnc : s'.nCompleted = s.nCompleted)
    (hor : s'.origAlive = s.origAlive)
    (hf : Frame s s') : Later c s s' := by
  have hg : ∀ j, getTrk s' j = getTrk s j := getTrk_same htrk
  refine ⟨hf, by rw [htrk]; exact Nat.le_refl _, fun i _ => by rw [hg]; exact ⟨rfl, rfl, rfl⟩,
    fun i _ _ => by rw [hg]; exact ⟨rfl, rfl⟩, ?_, ?_, fun _ => ⟨[], by simp [hjobs]⟩, ?_, hnow, hnbc,
    by rw [hnc]; exact Nat.le_refl _, by rw [hpos]; exact Nat.le_refl _,
    by simp only [work, hready, hpos, hf.spec]; exact Nat.le_refl _, by rw [hit, hor]; exact id,
    by rw [hready, hdead]; exact fun a b => ⟨a, b⟩, ?_⟩
  · intro _; simp only [meas, unpopped, work, hjobs, hjs, hready, hpos, hf.spec]; omega
  · intro _ _; simp only [JoblibModel.ParallelProto.restS, hjobs, hready, hpos, hf.spec, hf.base, hg]
  · intro hp; simp only [Post, hab, hit, hready, hdead] at hp ⊢; exact hp
  · intro _; simp only [JoblibModel.ParallelProto.restS, hjobs, hready, hpos, hf.spec, hf.base, hg]
    exact Nat.le_refl _

theorem Later.of_dlspec {c : Cfg} {t0 : Nat} {fo : Bool} {s s' : St} {more : Bool}
    (hna : s.aborting = false) (h : DLSpec c t0 fo s s' more) : Later c s s' := by
  refine ⟨h.frame, h.len, fun i hi => by rw [h.old i hi]; exact ⟨rfl, rfl, rfl⟩,
    fun i hi _ => by rw [h.old i hi]; exact ⟨rfl, rfl⟩, h.meas_le, h.restS, h.jobs_pre, ?_, h.same.2.1,
    h.same.2.2.2.2.2.2.2.2.2.1, by rw [h.same.2.2.2.1]; exact Nat.le_refl _, ?_, h.work_le,
    by rw [h.same.2.2.2.2.1, h.same.2.2.2.2.2.1]; exact id,
    fun a b => ⟨(h.exh_stable a b).1, (h.exh_stable a b).2.1⟩, h.rlen⟩
  · intro hp ha hi
    rw [h.same.2.2.2.2.1] at hi
    obtain ⟨h1, h2⟩ := hp hna hi
    have := h.exh_stable h1 h2
    exact ⟨this.1, this.2.1⟩
  · exact h.pos_le

/-- What a `dispatch_one_batch` from a completion callback guarantees. -/
structure DCSpec (c : Cfg) (t0 : Nat) (s s' : St) (more : Bool) : Prop where
  T : InvT c t0 none s'
  S : InvS c t0 s'
  L : InvL c t0 s'
  iterp : IterPend t0 s → IterPend t0 s'
  later : Later c s s'
  exh : more = false → s'.aborting = false → s'.ready = [] ∧ s'.srcDead = true
  pend : more = true → s'.aborting = false →
    ∃ i, t0 ≤ i ∧ i < s'.trk.length ∧ (getTrk s' i).status = .pending
  work_lt : more = true → s'.aborting = false → work s' < work s
  same : s'.sched = s.sched ∧ s'.hung = s.hung ∧ s'.idle = s.idle ∧ s'.iterating = s.iterating ∧
    s'.origAlive = s.origAlive ∧ s'.nCompleted = s.nCompleted ∧ s'.inCb = s.inCb ∧ s'.preLeft = s.preLeft
  meas_lt : more = false → meas c s' ≤ meas c s
  B : InvB c t0 s → (c.pdMode ≠ 1 → ∃ r, s.preLeft = some r ∧
      s.srcPos + r + c.nj * bmax c ≤ c.pd + s.nCompleted * (c.nj * bmax c)) → InvB c t0 s'
  opk : ownParked t0 s' ≤ ownParked t0 s + 1
  U : ordered c = false → InvU t0 s → UStep t0 s s'

theorem dispatchOneCb_spec {c : Cfg} (hc : CfgOK c) {t0 : Nat} {s : St}
    (hT : InvT c t0 none s) (hS : InvS c t0 s) (hL : InvL c t0 s) (hna : s.aborting = false) :
    DCSpec c t0 s (dispatchOneCb c s).1 (dispatchOneCb c s).2 := by
  unfold dispatchOneCb
  rw [if_neg (by simp [hna])]
  simp only
  have hbs := scriptedBs_pos hc s
  by_cases hau : c.bsAuto = true
  · simp only [hau, if_true]
    have hT0 : InvT c t0 none { s with bsI := s.bsI + 1 } := InvT_frame hT rfl rfl rfl rfl rfl rfl rfl rfl rfl
    have hS0 : InvS c t0 { s with bsI := s.bsI + 1 } := InvS_frame hS rfl rfl rfl rfl rfl rfl rfl rfl rfl
    have hL0 : InvL c t0 { s with bsI := s.bsI + 1 } := InvL_of hL id rfl id hL.orig_exh
    have hd := dispatchLocked_dlspec hc (fo := true) hbs hT0 hS0 hL0 hna
    have hl0 : Later c s { s with bsI := s.bsI + 1 } :=
      Later.of_same rfl rfl rfl (Nat.le_refl _) rfl rfl rfl rfl rfl rfl rfl rfl rfl
        ⟨rfl, rfl, rfl, rfl, rfl, rfl, rfl, rfl, id⟩
    refine ⟨hd.T, hd.S, hd.L, fun hp => hd.iterp (fun a b => hp a b), hl0.trans (Later.of_dlspec hna hd), ?_, hd.pend,
      hd.work_lt, ⟨hd.same.1, hd.same.2.2.1, hd.same.2.2.2.2.2.2.1, hd.same.2.2.2.2.1, hd.same.2.2.2.2.2.1,
        hd.same.2.2.2.1, hd.same.2.2.2.2.2.2.2.2.1, hd.pre_orig rfl⟩, fun hm => hd.meas_le (hd.more_abort hm),
      ?_, ?_, ?_⟩
    · intro hm ha
      obtain ⟨h1, h2⟩ := hd.exh hm ha
      exact ⟨h1, by simpa using h2⟩
    · intro hB hsl
      have hB0 : InvB c t0 { s with bsI := s.bsI + 1 } :=
        InvB_mono hB rfl (fun _ => rfl) rfl rfl rfl (Nat.le_refl _)
      exact (dispatchLocked_B (fo := true) (scriptedBs_le_bmax c s) hS0 hna hB0 (fun hm _ => hsl hm)).1
    · have hB0 : ownParked t0 { s with bsI := s.bsI + 1 } = ownParked t0 s := rfl
      -- `ownParked` does not depend on `InvB`
      have := ownParked_dispatchLocked (c := c) (t0 := t0) (fo := true) (bs := scriptedBs c s) hS0 hna
      rw [hB0] at this; exact this
    · intro ho hU
      have hU0 : InvU t0 { s with bsI := s.bsI + 1 } := InvU_frame hU rfl rfl rfl
      have := dispatchLocked_U (fo := true) (bs := scriptedBs c s) ho hT0 hS0 hna hU0
      exact ⟨this.inv, this.rest, this.rlen⟩
  · simp only [hau, Bool.false_eq_true, if_false]
    have hd := dispatchLocked_dlspec hc (fo := true) hbs hT hS hL hna
    refine ⟨hd.T, hd.S, hd.L, hd.iterp, Later.of_dlspec hna hd, ?_, hd.pend,
      hd.work_lt, ⟨hd.same.1, hd.same.2.2.1, hd.same.2.2.2.2.2.2.1, hd.same.2.2.2.2.1, hd.same.2.2.2.2.2.1,
        hd.same.2.2.2.1, hd.same.2.2.2.2.2.2.2.2.1, hd.pre_orig rfl⟩, fun hm => hd.meas_le (hd.more_abort hm),
      ?_, ?_, ?_⟩
    · intro hm ha
      obtain ⟨h1, h2⟩ := hd.exh hm ha
      exact ⟨h1, by simpa using h2⟩
    · intro hB hsl
      exact (dispatchLocked_B (fo := true) (scriptedBs_le_bmax c s) hS hna hB (fun hm _ => hsl hm)).1
    · exact ownParked_dispatchLocked (c := c) (t0 := t0) (fo := true) (bs := scriptedBs c s) hS hna
    · intro ho hU
      exact dispatchLocked_U (fo := true) (bs := scriptedBs c s) ho hT hS hna hU

/-- What a completion step guarantees. -/
structure CBSpec (c : Cfg) (t0 : Nat) (s s' : St) : Prop where
  inv : Inv c t0 s'
  later : Later c s s'
  sched : s'.sched = s.sched
  hung : s'.hung = s.hung
  idle : s'.idle = s.idle
  pre : s'.preLeft = s.preLeft
  B : InvB c t0 s → InvB c t0 s'
  U : ordered c = false → InvU t0 s → UStep t0 s s'

theorem own_of_callId {c : Cfg} {t0 : Nat} {hole : Option Nat} {s : St} {i : Nat} (hT : InvT c t0 hole s)
    (h : (getTrk s i).callId = s.callId) : t0 ≤ i ∧ i < s.trk.length := by
  constructor
  · rcases Nat.lt_or_ge i t0 with hlt | hge
    · exact absurd h (Nat.ne_of_lt (hT.stale i hlt))
    · exact hge
  · rcases Nat.lt_or_ge i s.trk.length with hlt | hge
    · exact hlt
    · rw [getTrk_ge hge] at h
      have := hT.callId_pos
      simp at h; omega

/-- Trackers of other calls: the completion callback returns at its call-id guard. -/
theorem stale_callback_noop (c : Cfg) (s : St) (i : Nat) (failed : Option Nat)
    (h : (getTrk s i).callId ≠ s.callId) : callback c s i failed = s := by
  unfold callback
  simp only
  rw [if_pos (by simpa using fun e => h e.symm)]

/-- A callback arriving while the call is aborting returns at its abort guard. -/
theorem aborting_callback_noop (c : Cfg) (s : St) (i : Nat) (failed : Option Nat)
    (h : s.aborting = true) : callback c s i failed = s := by
  unfold callback
  simp only [h, if_true]
  split <;> rfl

theorem callback_spec {c : Cfg} (hc : CfgOK c) {t0 : Nat} {s : St} {i : Nat} {failed : Option Nat}
    (hT : InvT c t0 (some i) s) (hS : InvS c t0 s) (hL : InvL c t0 s) (hP : IterPend t0 s)
    (hfail : ∀ id, failed = some id → id ∈ (getTrk s i).items ∧ id ∈ s.failIds) :
    CBSpec c t0 s (callback c s i failed) := by
  by_cases hst' : (getTrk s i).callId ≠ s.callId
  · rw [stale_callback_noop c s i failed hst']
    refine ⟨⟨InvT_hole_drop hT (Or.inr ?_), hS, hL, hP⟩, Later.refl c s, rfl, rfl, rfl, rfl, id,
      fun _ hU => UStep.refl hU⟩
    intro ⟨h0, h1⟩; exact hst' (hT.ownId i h0 h1)
  have hst : (getTrk s i).callId = s.callId := by simpa using hst'
  obtain ⟨hi0, hi1⟩ := own_of_callId hT hst
  by_cases hab : s.aborting = true
  · rw [aborting_callback_noop c s i failed hab]
    exact ⟨⟨InvT_hole_drop hT (Or.inl hab), hS, hL, hP⟩, Later.refl c s, rfl, rfl, rfl, rfl, id,
      fun _ hU => UStep.refl hU⟩
  have hna : s.aborting = false := by simpa using hab
  have hp : (getTrk s i).status = .pending := (hT.parked_pending hna i hi0 hi1).mpr (Or.inr rfl)
  unfold callback
  simp only
  rw [if_neg (by simp [hst]), if_neg hab]
  cases failed with
  | some id =>
    simp only
    rw [registerOutcome_error hp]
    obtain ⟨hid1, hid2⟩ := hfail id rfl
    have hleg : Legit c s (.task id) := ⟨hid2, hS.items_range i hi0 hi1 id hid1⟩
    have hT' := InvT_fail (s' := { s with trk := s.trk.set i { getTrk s i with status := .error, result := .exc (.task id) }, exception := true, aborting := true, jobs := if ordered c then s.jobs else s.jobs ++ [i] })
      hT hi0 hi1 hp hleg rfl rfl rfl rfl rfl rfl rfl rfl rfl
    have hg := getTrk_set (s := s) (s' := { s with trk := s.trk.set i { getTrk s i with status := .error, result := .exc (.task id) }, exception := true, aborting := true, jobs := if ordered c then s.jobs else s.jobs ++ [i] }) rfl
    have hS' := InvS_aborted (s' := { s with trk := s.trk.set i { getTrk s i with status := .error, result := .exc (.task id) }, exception := true, aborting := true, jobs := if ordered c then s.jobs else s.jobs ++ [i] })
      hS rfl hS.src_le hS.src_iter (by
        intro j hj hj'
        simp only [List.length_set] at hj'
        left; refine ⟨hj', ?_⟩
        rw [hg]; grind) rfl rfl rfl
    have hL' := InvL_of (s' := { s with trk := s.trk.set i { getTrk s i with status := .error, result := .exc (.task id) }, exception := true, aborting := true, jobs := if ordered c then s.jobs else s.jobs ++ [i] })
      hL (fun h => h) rfl (fun h => h) (by intro _ _ h3; simp at h3)
    refine ⟨⟨hT', hS', hL', by intro h3; simp at h3⟩, ?_, rfl, rfl, rfl, rfl,
      fun hB => InvB_mono hB (by simp) (fun j => by rw [hg]; grind) rfl rfl rfl (Nat.le_refl _),
      fun ho hU => UStep.of_same (InvU_register (t := { getTrk s i with status := .error, result := .exc (.task id) })
        hU hi0 hi1 hp (by simp) rfl (by simp [ho]) rfl) (fun j => by rw [hg]; grind) rfl rfl rfl rfl rfl⟩
    refine ⟨⟨rfl, rfl, rfl, rfl, rfl, rfl, rfl, rfl, fun _ => rfl⟩, by simp, ?_, ?_, by simp, by simp, ?_,
      by intro _ h3; simp at h3, rfl, rfl, Nat.le_refl _, Nat.le_refl _, Nat.le_refl _, fun h => h,
      fun a b => ⟨a, b⟩, ?_⟩
    · intro j _; rw [hg]; grind
    · intro j _ hs; rw [hg]; grind
    · intro ho; exact ⟨[], by simp [ho]⟩
    · intro ho
      apply Nat.le_of_eq
      congr 1
      simp only [restS, ho, if_true]
      have : ∀ j, (getTrk { s with trk := s.trk.set i { getTrk s i with status := .error, result := .exc (.task id) }, exception := true, aborting := true, jobs := s.jobs } j).items = (getTrk s j).items := by
        intro j; rw [getTrk_set (s := s) rfl]; grind
      simp only [this]
  | none =>
    simp only
    rw [registerOutcome_done hp]
    simp only
    -- the state after registering the outcome and counting the tasks
    have hT2 := InvT_complete (s' := { s with trk := s.trk.set i { getTrk s i with status := .done, result := .vals (getTrk s i).items }, jobs := if ordered c then s.jobs else s.jobs ++ [i], nCompleted := s.nCompleted + (getTrk s i).bsize })
      hT hi0 hi1 hna rfl rfl rfl rfl rfl rfl rfl rfl rfl
    have hg := getTrk_set (s := s) (s' := { s with trk := s.trk.set i { getTrk s i with status := .done, result := .vals (getTrk s i).items }, jobs := if ordered c then s.jobs else s.jobs ++ [i], nCompleted := s.nCompleted + (getTrk s i).bsize }) rfl
    have hS2 := InvS_complete (s' := { s with trk := s.trk.set i { getTrk s i with status := .done, result := .vals (getTrk s i).items }, jobs := if ordered c then s.jobs else s.jobs ++ [i], nCompleted := s.nCompleted + (getTrk s i).bsize })
      (t := { getTrk s i with status := .done, result := .vals (getTrk s i).items })
      hS hi0 hi1 hp rfl (by simp) rfl rfl rfl rfl rfl rfl rfl rfl rfl
    have hL2 := InvL_of (s' := { s with trk := s.trk.set i { getTrk s i with status := .done, result := .vals (getTrk s i).items }, jobs := if ordered c then s.jobs else s.jobs ++ [i], nCompleted := s.nCompleted + (getTrk s i).bsize })
      hL id rfl id hL.orig_exh
    have hl2 : Later c s { s with trk := s.trk.set i { getTrk s i with status := .done, result := .vals (getTrk s i).items }, jobs := if ordered c then s.jobs else s.jobs ++ [i], nCompleted := s.nCompleted + (getTrk s i).bsize } := by
      refine ⟨⟨rfl, rfl, rfl, rfl, rfl, rfl, rfl, rfl, id⟩, by simp, ?_, ?_, ?_, ?_, ?_, ?_, rfl, rfl,
        Nat.le_add_right _ _, Nat.le_refl _, Nat.le_refl _, id, fun a b => ⟨a, b⟩, ?_⟩
      · intro j _; rw [hg]; grind
      · intro j _ hs; rw [hg]; grind
      · intro _
        simp only [meas, unpopped, work]
        by_cases ho : ordered c = true <;> simp [ho]
      · intro ho _
        simp only [restS, ho, if_true]
        have : ∀ j, (getTrk { s with trk := s.trk.set i { getTrk s i with status := .done, result := .vals (getTrk s i).items }, jobs := s.jobs, nCompleted := s.nCompleted + (getTrk s i).bsize } j).items = (getTrk s j).items := by
          intro j; rw [getTrk_set (s := s) rfl]; grind
        simp only [this]
      · intro ho; exact ⟨[], by simp [ho]⟩
      · intro hp'; exact hp'
      · intro ho
        apply Nat.le_of_eq
        congr 1
        simp only [restS, ho, if_true]
        have : ∀ j, (getTrk { s with trk := s.trk.set i { getTrk s i with status := .done, result := .vals (getTrk s i).items }, jobs := s.jobs, nCompleted := s.nCompleted + (getTrk s i).bsize } j).items = (getTrk s j).items := by
          intro j; rw [getTrk_set (s := s) rfl]; grind
        simp only [this]
    have hB2 : InvB c t0 s → InvB c t0 { s with trk := s.trk.set i { getTrk s i with status := .done, result := .vals (getTrk s i).items }, jobs := if ordered c then s.jobs else s.jobs ++ [i], nCompleted := s.nCompleted + (getTrk s i).bsize } :=
      fun hB => InvB_mono hB (by simp) (fun j => by rw [hg]; grind) rfl rfl rfl (Nat.le_add_right _ _)
    have hU2 : ordered c = false → InvU t0 s → UStep t0 s { s with trk := s.trk.set i { getTrk s i with status := .done, result := .vals (getTrk s i).items }, jobs := if ordered c then s.jobs else s.jobs ++ [i], nCompleted := s.nCompleted + (getTrk s i).bsize } :=
      fun ho hU => UStep.of_same (InvU_register (t := { getTrk s i with status := .done, result := .vals (getTrk s i).items })
        hU hi0 hi1 hp (by simp) rfl (by simp [ho]) rfl) (fun j => by rw [hg]; grind) rfl rfl rfl rfl rfl
    have hbpos : 1 ≤ (getTrk s i).bsize := by
      have hok := hT.items_ok i hi0 hi1 (by rw [hp]; simp)
      rw [hok.2]; exact List.length_pos_iff.mpr hok.1
    have hslack : InvB c t0 s → c.pdMode ≠ 1 → ∃ r, s.preLeft = some r ∧
        s.srcPos + r + c.nj * bmax c ≤ c.pd + (s.nCompleted + (getTrk s i).bsize) * (c.nj * bmax c) := by
      intro hB hm
      obtain ⟨r, h1, h2⟩ := hB.budget hm
      refine ⟨r, h1, ?_⟩
      have : (s.nCompleted + 1) * (c.nj * bmax c) ≤ (s.nCompleted + (getTrk s i).bsize) * (c.nj * bmax c) :=
        Nat.mul_le_mul_right _ (by omega)
      rw [Nat.add_mul, Nat.one_mul] at this
      omega
    by_cases hor : s.origAlive = true
    · rw [if_pos hor]
      have hd := dispatchOneCb_spec hc hT2 hS2 hL2 hna
      generalize hres : dispatchOneCb c { s with trk := s.trk.set i { getTrk s i with status := .done, result := .vals (getTrk s i).items }, jobs := if ordered c then s.jobs else s.jobs ++ [i], nCompleted := s.nCompleted + (getTrk s i).bsize } = res at hd
      obtain ⟨s3, more⟩ := res
      simp only at hd ⊢
      cases more with
      | true =>
        refine ⟨⟨hd.T, hd.S, hd.L, ?_⟩, hl2.trans hd.later, hd.same.1, hd.same.2.1, hd.same.2.2.1,
          hd.same.2.2.2.2.2.2.2, fun hB => hd.B (hB2 hB) (hslack hB),
          fun ho hU => (hU2 ho hU).trans (hd.U ho (hU2 ho hU).inv) hd.later.frame.abort_mono⟩
        intro ha _; exact hd.pend rfl ha
      | false =>
        have hT4 : InvT c t0 none { s3 with iterating := false, origAlive := false } :=
          InvT_frame hd.T rfl rfl rfl rfl rfl rfl rfl rfl rfl
        have hS4 : InvS c t0 { s3 with iterating := false, origAlive := false } :=
          InvS_frame hd.S rfl rfl rfl rfl rfl rfl rfl rfl rfl
        have hL4 : InvL c t0 { s3 with iterating := false, origAlive := false } :=
          InvL_clear hd.L rfl rfl rfl (fun ha => hd.exh rfl ha)
        refine ⟨⟨hT4, hS4, hL4, by intro _ h3; simp at h3⟩, (hl2.trans hd.later).trans ?_, hd.same.1, hd.same.2.1,
          hd.same.2.2.1, hd.same.2.2.2.2.2.2.2,
          fun hB => InvB_mono (hd.B (hB2 hB) (hslack hB)) rfl (fun _ => rfl) rfl rfl rfl (Nat.le_refl _),
          fun ho hU => ((hU2 ho hU).trans (hd.U ho (hU2 ho hU).inv) hd.later.frame.abort_mono).trans
            (UStep.of_same (InvU_frame (hd.U ho (hU2 ho hU).inv).inv rfl rfl rfl) (fun _ => rfl) rfl rfl rfl rfl rfl)
            (fun h => h)⟩
        have hg3 : ∀ j, getTrk { s3 with iterating := false, origAlive := false } j = getTrk s3 j := fun j => rfl
        refine ⟨⟨rfl, rfl, rfl, rfl, rfl, rfl, rfl, rfl, id⟩, Nat.le_refl _, fun j _ => ⟨rfl, rfl, rfl⟩,
          fun j _ _ => ⟨rfl, rfl⟩, fun _ => Nat.le_refl _, fun _ _ => rfl, fun _ => ⟨[], by simp⟩, ?_, rfl, rfl,
          Nat.le_refl _, Nat.le_refl _, Nat.le_refl _, fun _ => rfl, fun a b => ⟨a, b⟩, fun _ => Nat.le_refl _⟩
        intro _ ha _; exact hd.exh rfl ha
    · have hor' : s.origAlive = false := by simpa using hor
      rw [if_neg hor]
      refine ⟨⟨hT2, hS2, hL2, ?_⟩, hl2, rfl, rfl, rfl, rfl, hB2, hU2⟩
      intro _ hit
      have := hL.iter_orig hit
      rw [hor'] at this; simp at this

theorem Inv.frame {c : Cfg} {t0 : Nat} {s s' : St} (h : Inv c t0 s)
    (htrk : s'.trk = s.trk) (hjobs : s'.jobs = s.jobs) (hparked : s'.parked = s.parked)
    (hab : s'.aborting = s.aborting) (hexc : s'.exception = s.exception)
    (hready : s'.ready = s.ready) (hpos : s'.srcPos = s.srcPos) (hdead : s'.srcDead = s.srcDead)
    (hnd : s'.nDispTasks = s.nDispTasks) (hnc : s'.nCompleted = s.nCompleted)
    (hit : s'.iterating = s.iterating) (hor : s'.origAlive = s.origAlive) (hpre : s'.preLeft = s.preLeft)
    (hf : Frame s s') : Inv c t0 s' := by
  refine ⟨InvT_frame h.T htrk hjobs hparked hf.callId hab hexc hf.failIds hf.base hf.spec,
    InvS_frame h.S htrk hready hpos hdead hab hnd hnc hf.base hf.spec,
    InvL_of h.L (by rw [hit]; exact id) hor (by rw [hpre]; exact id)
      (by rw [hor, hab, hready, hdead]; exact h.L.orig_exh),
    IterPend_of h.P (by rw [hab]; exact id) (by rw [hit]; exact id) (by rw [htrk]; exact Nat.le_refl _)
      (by intro _ i _; rw [getTrk_same htrk])⟩

theorem deliver_spec {c : Cfg} (hc : CfgOK c) {t0 : Nat} {s : St} (k : Nat) (h : Inv c t0 s) :
    CBSpec c t0 s (deliver c k s) ∧
    (k < s.parked.length → (deliver c k s).aborting = false → meas c (deliver c k s) + 1 ≤ meas c s) := by
  unfold deliver
  cases hk : s.parked[k]? with
  | none =>
    simp only
    refine ⟨⟨h, Later.refl c s, rfl, rfl, rfl, rfl, id, fun _ hU => UStep.refl hU⟩, ?_⟩
    intro hlt; rw [List.getElem?_eq_getElem hlt] at hk; simp at hk
  | some i =>
    simp only
    obtain ⟨lg, hex, hf1, hf2⟩ := execBatch_spec (getTrk { s with parked := s.parked.eraseIdx k } i).items
      (ev { s with parked := s.parked.eraseIdx k } ("complete " ++ idsStr (getTrk { s with parked := s.parked.eraseIdx k } i).items))
    generalize hres : execBatch (ev { s with parked := s.parked.eraseIdx k } ("complete " ++ idsStr (getTrk { s with parked := s.parked.eraseIdx k } i).items)) (getTrk { s with parked := s.parked.eraseIdx k } i).items = res at hex hf1 hf2
    obtain ⟨s3, failed⟩ := res
    simp only at hex hf1 hf2 ⊢
    simp only [ev] at hex
    have hTA : InvT c t0 (some i) { s3 with inCb := true } :=
      InvT_erase h.T hk (by rw [hex]) (by rw [hex]) (by rw [hex]) (by rw [hex]) (by rw [hex]) (by rw [hex])
        (by rw [hex]) (by rw [hex]) (by rw [hex])
    have hSA : InvS c t0 { s3 with inCb := true } :=
      InvS_frame h.S (by rw [hex]) (by rw [hex]) (by rw [hex]) (by rw [hex]) (by rw [hex]) (by rw [hex])
        (by rw [hex]) (by rw [hex]) (by rw [hex])
    have hLA : InvL c t0 { s3 with inCb := true } :=
      InvL_of h.L (by rw [hex]; exact id) (by rw [hex]) (by rw [hex]; exact id) (by rw [hex]; exact h.L.orig_exh)
    have hPA : IterPend t0 { s3 with inCb := true } :=
      IterPend_of h.P (by rw [hex]; exact id) (by rw [hex]; exact id) (by rw [hex]; exact Nat.le_refl _)
        (by rw [hex]; exact fun _ _ _ => rfl)
    have hklt : k < s.parked.length := by
      rcases Nat.lt_or_ge k s.parked.length with hlt | hge
      · exact hlt
      · rw [List.getElem?_eq_none hge] at hk; simp at hk
    have hlA : Later c s { s3 with inCb := true } :=
      Later.of_same (by rw [hex]) (by rw [hex]) (by rw [hex])
        (by rw [hex]; simp [List.length_eraseIdx, hklt])
        (by rw [hex]) (by rw [hex]) (by rw [hex]) (by rw [hex]) (by rw [hex]) (by rw [hex]) (by rw [hex])
        (by rw [hex]) (by rw [hex]) (by rw [hex]; exact ⟨rfl, rfl, rfl, rfl, rfl, rfl, rfl, rfl, id⟩)
    have hmA : meas c { s3 with inCb := true } + 1 = meas c s := by
      rw [hex]
      simp only [meas, unpopped, work, List.length_eraseIdx, hklt, if_true]; omega
    have hcb := callback_spec (failed := failed) hc hTA hSA hLA hPA (by
      intro id hid
      obtain ⟨x, y⟩ := hf1 id hid
      refine ⟨?_, ?_⟩
      · have : getTrk { s3 with inCb := true } i = getTrk s i := by rw [hex]; rfl
        rw [this]; exact x
      · have : ({ s3 with inCb := true } : St).failIds = s.failIds := by rw [hex]
        rw [this]; exact y)
    generalize callback c { s3 with inCb := true } i failed = sB at hcb
    have hlC : Later c sB { sB with inCb := false } :=
      Later.of_same rfl rfl rfl (Nat.le_refl _) rfl rfl rfl rfl rfl rfl rfl rfl rfl
        ⟨rfl, rfl, rfl, rfl, rfl, rfl, rfl, rfl, id⟩
    have hIC : Inv c t0 { sB with inCb := false } :=
      hcb.inv.frame rfl rfl rfl rfl rfl rfl rfl rfl rfl rfl rfl rfl rfl ⟨rfl, rfl, rfl, rfl, rfl, rfl, rfl, rfl, id⟩
    refine ⟨⟨hIC, (hlA.trans hcb.later).trans hlC, ?_, ?_, ?_, ?_, ?_, ?_⟩, ?_⟩
    · show sB.sched = s.sched
      rw [hcb.sched, hex]
    · show sB.hung = s.hung
      rw [hcb.hung, hex]
    · show sB.idle = s.idle
      rw [hcb.idle, hex]
    · show sB.preLeft = s.preLeft
      rw [hcb.pre, hex]
    · intro hB
      have hBA : InvB c t0 { s3 with inCb := true } :=
        InvB_mono hB (by rw [hex]) (fun j => by rw [hex]; rfl) (by rw [hex]) (by rw [hex]) (by rw [hex])
          (by rw [hex]; exact Nat.le_refl _)
      exact InvB_mono (hcb.B hBA) rfl (fun _ => rfl) rfl rfl rfl (Nat.le_refl _)
    · intro ho hU
      have hUA : InvU t0 { s3 with inCb := true } :=
        InvU_frame hU (by rw [hex]) (by rw [hex]) (by rw [hex])
      have h1 : UStep t0 s { s3 with inCb := true } :=
        UStep.of_same hUA (fun j => by rw [hex]; rfl) (by rw [hex]) (by rw [hex]) (by rw [hex]) (by rw [hex])
          (by rw [hex])
      have h2 := hcb.U ho hUA
      have h3 : UStep t0 sB { sB with inCb := false } :=
        UStep.of_same (InvU_frame h2.inv rfl rfl rfl) (fun _ => rfl) rfl rfl rfl rfl rfl
      exact (h1.trans h2 hcb.later.frame.abort_mono).trans h3 (fun h => h)
    · intro _ ha
      have := hcb.later.meas_le ha
      have h2 : meas c { sB with inCb := false } = meas c sB := rfl
      omega

theorem CBSpec.refl {c : Cfg} {t0 : Nat} {s : St} (h : Inv c t0 s) : CBSpec c t0 s s :=
  ⟨h, Later.refl c s, rfl, rfl, rfl, rfl, id, fun _ hU => UStep.refl hU⟩

theorem CBSpec.trans {c : Cfg} {t0 : Nat} {a b d : St} (h1 : CBSpec c t0 a b) (h2 : CBSpec c t0 b d) :
    CBSpec c t0 a d :=
  ⟨h2.inv, h1.later.trans h2.later, h2.sched.trans h1.sched, h2.hung.trans h1.hung, h2.idle.trans h1.idle,
   h2.pre.trans h1.pre, fun hB => h2.B (h1.B hB),
   fun ho hU => (h1.U ho hU).trans (h2.U ho (h1.U ho hU).inv) h2.later.frame.abort_mono⟩

theorem deliverAll_spec {c : Cfg} (hc : CfgOK c) {t0 : Nat} : ∀ (l : List Nat) (s : St), Inv c t0 s →
    CBSpec c t0 s (deliverAll c s l) := by
  intro l
  induction l with
  | nil => intro s h; exact CBSpec.refl h
  | cons idx r ih =>
    intro s h
    unfold deliverAll
    simp only
    by_cases hp : s.parked.length = 0
    · rw [if_pos hp]; exact ih s h
    · rw [if_neg hp]
      have h1 := (deliver_spec hc (idx % s.parked.length) h).1
      exact h1.trans (ih _ h1.inv)

/-- What a hook point (a moment at which the backend may complete parked batches) guarantees. -/
structure HookSpec (c : Cfg) (t0 : Nat) (sleep : Bool) (s s' : St) : Prop where
  inv : Inv c t0 s'
  later : Later c s s'
  hung_nosleep : sleep = false → s'.hung = s.hung
  hung_sleep : (s.parked ≠ [] ∨ s.sched ≠ []) → s'.hung = s.hung
  sched_le : s'.sched.length ≤ s.sched.length
  prog : sleep = true → (s.parked ≠ [] ∨ s.sched ≠ []) → s'.aborting = false →
    meas c s' + s'.sched.length + 1 ≤ meas c s + s.sched.length
  pre : s'.preLeft = s.preLeft
  B : InvB c t0 s → InvB c t0 s'
  U : ordered c = false → InvU t0 s → UStep t0 s s'

theorem hook_spec {c : Cfg} (hc : CfgOK c) {t0 : Nat} (sleep : Bool) {s : St} (h : Inv c t0 s) :
    HookSpec c t0 sleep s (hook c sleep s) := by
  have fr : ∀ x : St, Frame x x := Frame.refl
  unfold hook
  cases hs : s.sched with
  | cons entry rest =>
    simp only
    have h1 : Inv c t0 { s with sched := rest } :=
      h.frame rfl rfl rfl rfl rfl rfl rfl rfl rfl rfl rfl rfl rfl ⟨rfl, rfl, rfl, rfl, rfl, rfl, rfl, rfl, id⟩
    have hl1 : Later c s { s with sched := rest } :=
      Later.of_same rfl rfl rfl (Nat.le_refl _) rfl rfl rfl rfl rfl rfl rfl rfl rfl
        ⟨rfl, rfl, rfl, rfl, rfl, rfl, rfl, rfl, id⟩
    have hd := deliverAll_spec hc entry _ h1
    generalize deliverAll c { s with sched := rest } entry = s2 at hd
    have hsch : s2.sched = rest := hd.sched
    have hm1 : meas c { s with sched := rest } = meas c s := rfl
    have hU1 : InvU t0 s → UStep t0 s { s with sched := rest } :=
      fun hU => UStep.of_same (InvU_frame hU rfl rfl rfl) (fun _ => rfl) rfl rfl rfl rfl rfl
    cases sleep with
    | false =>
      refine ⟨hd.inv, hl1.trans hd.later, fun _ => hd.hung, fun _ => hd.hung, ?_, ?_, hd.pre,
        fun hB => hd.B (InvB_mono hB rfl (fun _ => rfl) rfl rfl rfl (Nat.le_refl _)),
        fun ho hU => (hU1 hU).trans (hd.U ho (hU1 hU).inv) hd.later.frame.abort_mono⟩
      · show s2.sched.length ≤ _; rw [hsch, hs]; simp
      · intro hh; cases hh
    | true =>
      have h3 : Inv c t0 { s2 with idle := 0 } :=
        hd.inv.frame rfl rfl rfl rfl rfl rfl rfl rfl rfl rfl rfl rfl rfl ⟨rfl, rfl, rfl, rfl, rfl, rfl, rfl, rfl, id⟩
      have hl3 : Later c s2 { s2 with idle := 0 } :=
        Later.of_same rfl rfl rfl (Nat.le_refl _) rfl rfl rfl rfl rfl rfl rfl rfl rfl
          ⟨rfl, rfl, rfl, rfl, rfl, rfl, rfl, rfl, id⟩
      have hU3 : InvU t0 s2 → UStep t0 s2 { s2 with idle := 0 } :=
        fun hU => UStep.of_same (InvU_frame hU rfl rfl rfl) (fun _ => rfl) rfl rfl rfl rfl rfl
      refine ⟨h3, (hl1.trans hd.later).trans hl3, fun _ => hd.hung, fun _ => hd.hung, ?_, ?_, hd.pre,
        fun hB => InvB_mono (hd.B (InvB_mono hB rfl (fun _ => rfl) rfl rfl rfl (Nat.le_refl _))) rfl (fun _ => rfl)
          rfl rfl rfl (Nat.le_refl _),
        fun ho hU => ((hU1 hU).trans (hd.U ho (hU1 hU).inv) hd.later.frame.abort_mono).trans
          (hU3 (hd.U ho (hU1 hU).inv).inv) (fun h => h)⟩
      · show s2.sched.length ≤ _; rw [hsch, hs]; simp
      · intro _ _ ha
        have := hd.later.meas_le ha
        show meas c s2 + s2.sched.length + 1 ≤ _
        rw [hsch, hs]; simp only [List.length_cons]; omega
  | nil =>
    simp only
    cases sleep with
    | false =>
      refine ⟨h, Later.refl c s, fun _ => rfl, fun _ => rfl, Nat.le_refl _, ?_, rfl, id,
        fun _ hU => UStep.refl hU⟩
      intro hh; cases hh
    | true =>
      simp only [if_true]
      by_cases hp : s.parked.length > 0
      · rw [if_pos hp]
        have h1 : Inv c t0 { s with idle := 0, sched := [] } :=
          h.frame rfl rfl rfl rfl rfl rfl rfl rfl rfl rfl rfl rfl rfl ⟨rfl, rfl, rfl, rfl, rfl, rfl, rfl, rfl, id⟩
        have hl1 : Later c s { s with idle := 0, sched := [] } :=
          Later.of_same rfl rfl rfl (Nat.le_refl _) rfl rfl rfl rfl rfl rfl rfl rfl rfl
            ⟨rfl, rfl, rfl, rfl, rfl, rfl, rfl, rfl, id⟩
        obtain ⟨hd, hm⟩ := deliver_spec hc 0 h1
        have hU1 : InvU t0 s → UStep t0 s { s with idle := 0, sched := [] } :=
          fun hU => UStep.of_same (InvU_frame hU rfl rfl rfl) (fun _ => rfl) rfl rfl rfl rfl rfl
        refine ⟨hd.inv, hl1.trans hd.later, fun _ => hd.hung, fun _ => hd.hung, ?_, ?_, hd.pre,
          fun hB => hd.B (InvB_mono hB rfl (fun _ => rfl) rfl rfl rfl (Nat.le_refl _)),
          fun ho hU => (hU1 hU).trans (hd.U ho (hU1 hU).inv) hd.later.frame.abort_mono⟩
        · rw [hd.sched]; simp
        · intro _ _ ha
          have := hm hp ha
          have hm1 : meas c { s with idle := 0, sched := [] } = meas c s := rfl
          rw [hd.sched, hs]
          simp only [List.length_nil]
          omega
      · rw [if_neg hp]
        have hpn : s.parked = [] := by
          cases hpp : s.parked with
          | nil => rfl
          | cons a b => rw [hpp] at hp; simp at hp
        have h1 : Inv c t0 { s with idle := s.idle + 1, sched := [] } :=
          h.frame rfl rfl rfl rfl rfl rfl rfl rfl rfl rfl rfl rfl rfl ⟨rfl, rfl, rfl, rfl, rfl, rfl, rfl, rfl, id⟩
        have hl1 : Later c s { s with idle := s.idle + 1, sched := [] } :=
          Later.of_same rfl rfl rfl (Nat.le_refl _) rfl rfl rfl rfl rfl rfl rfl rfl rfl
            ⟨rfl, rfl, rfl, rfl, rfl, rfl, rfl, rfl, id⟩
        have hno : ¬ (s.parked ≠ [] ∨ ([] : List (List Nat)) ≠ []) := by
          intro hor; rcases hor with hor | hor
          · exact hor hpn
          · exact hor rfl
        split
        · refine ⟨h1.frame rfl rfl rfl rfl rfl rfl rfl rfl rfl rfl rfl rfl rfl
              ⟨rfl, rfl, rfl, rfl, rfl, rfl, rfl, rfl, id⟩,
            hl1.trans (Later.of_same rfl rfl rfl (Nat.le_refl _) rfl rfl rfl rfl rfl rfl rfl rfl rfl
              ⟨rfl, rfl, rfl, rfl, rfl, rfl, rfl, rfl, id⟩), ?_, ?_, by simp, ?_, rfl,
            fun hB => InvB_mono hB rfl (fun _ => rfl) rfl rfl rfl (Nat.le_refl _),
            fun _ hU => UStep.of_same (InvU_frame hU rfl rfl rfl) (fun _ => rfl) rfl rfl rfl rfl rfl⟩
          · intro hh; cases hh
          · intro hor; rw [hs] at hor; exact absurd hor hno
          · intro _ hor; rw [hs] at hor; exact absurd hor hno
        · refine ⟨h1, hl1, fun _ => rfl, fun _ => rfl, by simp, ?_, rfl,
            fun hB => InvB_mono hB rfl (fun _ => rfl) rfl rfl rfl (Nat.le_refl _),
            fun _ hU => UStep.of_same (InvU_frame hU rfl rfl rfl) (fun _ => rfl) rfl rfl rfl rfl rfl⟩
          intro _ hor; rw [hs] at hor; exact absurd hor hno

end JoblibModel.ParallelProto
