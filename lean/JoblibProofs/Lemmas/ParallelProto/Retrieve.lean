import JoblibProofs.Lemmas.ParallelProto.CallStart
/-!
The retrieval loop (`_retrieve` / `_get_outputs`) and how a call ends.
-/
namespace JoblibModel.ParallelProto

/-- The `Parallel` object after `finally`: not running, no job queue, no `_calling`. -/
structure Clean (s : St) : Prop where
  running : s.running = false
  jobs : s.jobs = []
  jobsSet : s.jobsSet = []
  calling : s.calling = false

/-! ### end of a call -/

theorem terminateAndReset_eq (s : St) : ∃ lg, terminateAndReset s = { s with log := lg, calling := false } := by
  unfold terminateAndReset
  by_cases h1 : s.calling = true <;> by_cases h2 : s.managed = true <;> simp [h1, h2, ev] <;> exact ⟨_, rfl⟩

theorem finallyBlock_eq (s : St) : ∃ lg,
    finallyBlock s = ({ s with log := lg, jobs := [], jobsSet := [], running := false, calling := false },
      if s.exception then [] else s.jobs) := by
  unfold finallyBlock
  obtain ⟨lg, h⟩ := terminateAndReset_eq { s with jobs := [], jobsSet := [], running := false }
  exact ⟨lg, by simp only [h]⟩

/-- `_abort`: whatever completes while `backend.abort_everything` runs (a hook point) finds `_aborting` already
set and is a no-op: only the flags and the backend's bookkeeping change. -/
theorem abort_eq (c : Cfg) (s : St) : ∃ lg pk sc ib,
    abort c s = { s with log := lg, parked := pk, sched := sc, inCb := ib, aborting := true, aborted := true } ∧
    pk.Sublist s.parked ∧ sc.length ≤ s.sched.length := by
  unfold abort
  dsimp only
  by_cases h1 : s.aborted = true
  · refine ⟨s.log, s.parked, s.sched, s.inCb, ?_, List.Sublist.refl _, Nat.le_refl _⟩
    rw [if_neg (by simp [h1])]
  · have h1' : s.aborted = false := by simpa using h1
    have hq : Quiet (ev { s with aborting := true } ("abort " ++ (if s.managed then "1" else "0"))) := Or.inl rfl
    obtain ⟨lg, pk, sc, ib, e, hsub, hsc⟩ := hook_nosleep_quiet c hq
    rw [if_pos (by simp [h1'])]
    rw [e]
    by_cases h2 : c.abortDrops = true
    · refine ⟨lg, [], sc, ib, ?_, List.nil_sublist _, hsc⟩
      rw [if_pos h2]; rfl
    · refine ⟨lg, pk, sc, ib, ?_, hsub, hsc⟩
      rw [if_neg h2]; rfl

theorem handleException_eq (c : Cfg) (s : St) : ∃ lg pk sc ib,
    handleException c s = { s with log := lg, parked := pk, sched := sc, inCb := ib, exception := true, aborting := true, aborted := true, jobs := [], jobsSet := [], running := false, calling := false } ∧ pk.Sublist s.parked ∧ sc.length ≤ s.sched.length := by
  show ∃ lg pk sc ib, (finallyBlock (abort c { s with exception := true })).1 = _ ∧ _
  obtain ⟨lg1, pk, sc, ib, h1, hpk, hsc⟩ := abort_eq c { s with exception := true }
  obtain ⟨lg2, h2⟩ := finallyBlock_eq (abort c { s with exception := true })
  rw [h2]
  simp only
  rw [h1]
  exact ⟨lg2, pk, sc, ib, rfl, hpk, hsc⟩

/-! ### steps of the retrieving thread -/

/-- Tracker `i` is replaced by one that differs only in `toCounter`: a `Later` step. -/
theorem Later.of_set_aux {c : Cfg} {s s' : St} {i : Nat} {t : Tracker}
    (ht : t.items = (getTrk s i).items ∧ t.bsize = (getTrk s i).bsize ∧ t.callId = (getTrk s i).callId ∧
          t.status = (getTrk s i).status ∧ t.result = (getTrk s i).result)
    (htrk : s'.trk = s.trk.set i t) (hjobs : s'.jobs = s.jobs) (hjs : s'.jobsSet = s.jobsSet)
    (hparked : s'.parked = s.parked) (hready : s'.ready = s.ready) (hpos : s'.srcPos = s.srcPos)
    (hdead : s'.srcDead = s.srcDead) (hab : s'.aborting = s.aborting) (hit : s'.iterating = s.iterating)
    (hnow : s'.now = s.now) (hnbc : s'.nbConsumed = s.nbConsumed) (hnc : s'.nCompleted = s.nCompleted)
    (hor : s'.origAlive = s.origAlive)
    (hf : Frame s s') : Later c s s' := by
  have hg := getTrk_set htrk
  obtain ⟨t1, t2, t3, t4, t5⟩ := ht
  have hgi : ∀ j, (getTrk s' j).items = (getTrk s j).items := by intro j; rw [hg]; grind
  have hgb : ∀ j, (getTrk s' j).bsize = (getTrk s j).bsize := by intro j; rw [hg]; grind
  have hgc : ∀ j, (getTrk s' j).callId = (getTrk s j).callId := by intro j; rw [hg]; grind
  have hgs : ∀ j, (getTrk s' j).status = (getTrk s j).status := by intro j; rw [hg]; grind
  have hgr : ∀ j, (getTrk s' j).result = (getTrk s j).result := by intro j; rw [hg]; grind
  refine ⟨hf, by rw [htrk]; simp, fun j _ => ⟨hgi j, hgc j, hgb j⟩, fun j _ _ => ⟨hgs j, hgr j⟩, ?_, ?_,
    fun _ => ⟨[], by simp [hjobs]⟩, ?_, hnow, hnbc, by rw [hnc]; exact Nat.le_refl _,
    by rw [hpos]; exact Nat.le_refl _, by simp only [work, hready, hpos, hf.spec]; exact Nat.le_refl _,
    by rw [hit, hor]; exact id, by rw [hready, hdead]; exact fun a b => ⟨a, b⟩, ?_⟩
  · intro _; simp only [meas, unpopped, work, hjobs, hjs, hparked, hready, hpos, hf.spec]; exact Nat.le_refl _
  · intro _ _; simp only [JoblibModel.ParallelProto.restS, hjobs, hready, hpos, hf.spec, hf.base, hgi]
  · intro hp; simp only [Post, hab, hit, hready, hdead] at hp ⊢; exact hp
  · intro _; simp only [JoblibModel.ParallelProto.restS, hjobs, hready, hpos, hf.spec, hf.base, hgi]
    exact Nat.le_refl _

/-- An error is registered on the pending tracker `i`: a `Later` step. -/
theorem Later.of_fail {c : Cfg} {s s' : St} {i : Nat} {r : Res}
    (hp : (getTrk s i).status = .pending)
    (htrk : s'.trk = s.trk.set i { getTrk s i with status := .error, result := r })
    (hjobs : s'.jobs = if ordered c then s.jobs else s.jobs ++ [i])
    (hab : s'.aborting = true) (hnow : s'.now = s.now) (hnbc : s'.nbConsumed = s.nbConsumed)
    (hnc : s'.nCompleted = s.nCompleted) (hpos : s'.srcPos = s.srcPos) (hready : s'.ready = s.ready)
    (hdead : s'.srcDead = s.srcDead) (hit : s'.iterating = s.iterating) (hor : s'.origAlive = s.origAlive)
    (hf : Frame s s') : Later c s s' := by
  have hg := getTrk_set htrk
  refine ⟨hf, by rw [htrk]; simp, ?_, ?_, by rw [hab]; simp, by rw [hab]; simp, ?_,
    by intro _ h3; rw [hab] at h3; simp at h3, hnow, hnbc, by rw [hnc]; exact Nat.le_refl _,
    by rw [hpos]; exact Nat.le_refl _, by simp only [work, hready, hpos, hf.spec]; exact Nat.le_refl _,
    by rw [hit, hor]; exact id, by rw [hready, hdead]; exact fun a b => ⟨a, b⟩, ?_⟩
  · intro j _; rw [hg]; grind
  · intro j _ hs; rw [hg]; grind
  · intro ho; exact ⟨[], by simp [hjobs, ho]⟩
  · intro ho
    have hgi : ∀ j, (getTrk s' j).items = (getTrk s j).items := by intro j; rw [hg]; grind
    simp only [JoblibModel.ParallelProto.restS, hjobs, ho, if_true, hready, hpos, hf.spec, hf.base, hgi]
    exact Nat.le_refl _

theorem Inv.set_aux {c : Cfg} {t0 : Nat} {s s' : St} {i : Nat} {t : Tracker} (h : Inv c t0 s)
    (ht : t.items = (getTrk s i).items ∧ t.bsize = (getTrk s i).bsize ∧ t.callId = (getTrk s i).callId ∧
          t.status = (getTrk s i).status ∧ t.result = (getTrk s i).result)
    (htrk : s'.trk = s.trk.set i t) (hjobs : s'.jobs = s.jobs) (hparked : s'.parked = s.parked)
    (hab : s'.aborting = s.aborting) (hexc : s'.exception = s.exception)
    (hready : s'.ready = s.ready) (hpos : s'.srcPos = s.srcPos) (hdead : s'.srcDead = s.srcDead)
    (hnd : s'.nDispTasks = s.nDispTasks) (hnc : s'.nCompleted = s.nCompleted)
    (hit : s'.iterating = s.iterating) (hor : s'.origAlive = s.origAlive) (hpre : s'.preLeft = s.preLeft)
    (hf : Frame s s') : Inv c t0 s' := by
  have hg := getTrk_set htrk
  refine ⟨InvT_set_aux h.T ht htrk hjobs hparked hf.callId hab hexc hf.failIds hf.base hf.spec,
    InvS_set_same h.S ht.1 ht.2.2.2.1 ht.2.1 htrk hready hpos hdead hab hnd hnc hf.base hf.spec,
    InvL_of h.L (by rw [hit]; exact id) hor (by rw [hpre]; exact id)
      (by rw [hor, hab, hready, hdead]; exact h.L.orig_exh),
    IterPend_of h.P (by rw [hab]; exact id) (by rw [hit]; exact id) (by rw [htrk]; simp)
      (by intro _ j _; rw [hg]; obtain ⟨_, _, _, t4, _⟩ := ht; grind)⟩

/-- Registering an error on the pending tracker `i` of this call keeps the invariant. -/
theorem Inv.fail {c : Cfg} {t0 : Nat} {s s' : St} {i : Nat} {e : Exc} (h : Inv c t0 s)
    (hi0 : t0 ≤ i) (hi1 : i < s.trk.length) (hp : (getTrk s i).status = .pending) (he : Legit c s e)
    (htrk : s'.trk = s.trk.set i { getTrk s i with status := .error, result := .exc e })
    (hjobs : s'.jobs = if ordered c then s.jobs else s.jobs ++ [i])
    (hparked : s'.parked = s.parked) (hab : s'.aborting = true) (hexc : s'.exception = true)
    (hready : s'.ready = s.ready) (hpos : s'.srcPos = s.srcPos)
    (hit : s'.iterating = s.iterating) (hor : s'.origAlive = s.origAlive) (hpre : s'.preLeft = s.preLeft)
    (hf : Frame s s') : Inv c t0 s' := by
  have hg := getTrk_set htrk
  refine ⟨InvT_fail h.T hi0 hi1 hp he htrk hjobs hparked hf.callId hab hexc hf.failIds hf.base hf.spec,
    InvS_aborted h.S hab (by rw [hpos]; exact h.S.src_le) (by rw [hpos]; exact h.S.src_iter) ?_ hready hf.base
      hf.spec,
    InvL_of h.L (by rw [hit]; exact id) hor (by rw [hpre]; exact id) (by intro _ _ h3; rw [hab] at h3; simp at h3),
    by intro h3; rw [hab] at h3; simp at h3⟩
  intro j hj hj'
  rw [htrk] at hj'; simp only [List.length_set] at hj'
  left; refine ⟨hj', ?_⟩
  rw [hg]; grind

/-- `tracker.get_status(timeout)` of a tracker of this call. -/
theorem getStatus_spec {c : Cfg} {t0 : Nat} {s : St} {i : Nat} (h : Inv c t0 s)
    (hi0 : t0 ≤ i) (hi1 : i < s.trk.length) :
    Inv c t0 (getStatus c s i).1 ∧ Later c s (getStatus c s i).1 ∧
    (getStatus c s i).2 = (getTrk (getStatus c s i).1 i).status ∧
    (getStatus c s i).1.sched = s.sched ∧ (getStatus c s i).1.hung = s.hung ∧
    (getStatus c s i).1.parked = s.parked ∧
    (ordered c = true → (getStatus c s i).1.jobs = s.jobs) ∧
    ((getStatus c s i).2 = .pending → (getStatus c s i).1.aborting = s.aborting) ∧
    ((getStatus c s i).2 = .done → (getStatus c s i).1 = s) ∧
    ((getTrk s i).status ≠ .pending → (getStatus c s i).1 = s) := by
  unfold getStatus
  simp only
  by_cases hc1 : (decide (c.timeout < 0) || (getTrk s i).status != Status.pending) = true
  · rw [if_pos hc1]
    exact ⟨h, Later.refl c s, rfl, rfl, rfl, rfl, fun _ => rfl, fun _ => rfl, fun _ => rfl, fun _ => rfl⟩
  rw [if_neg hc1]
  simp only [Bool.or_eq_true, decide_eq_true_eq, bne_iff_ne, ne_eq, not_or, Decidable.not_not] at hc1
  obtain ⟨hto, hp⟩ := hc1
  generalize hs1 : setTrk s i { getTrk s i with toCounter := some ((getTrk s i).toCounter.getD s.now) } = s1
  have htrk1 : s1.trk = s.trk.set i { getTrk s i with toCounter := some ((getTrk s i).toCounter.getD s.now) } := by
    rw [← hs1]; rfl
  have e1 : s1 = { s with trk := s1.trk } := by rw [← hs1]; rfl
  have h1 : Inv c t0 s1 :=
    h.set_aux (i := i) (t := { getTrk s i with toCounter := some ((getTrk s i).toCounter.getD s.now) })
      ⟨rfl, rfl, rfl, rfl, rfl⟩ htrk1 (by rw [e1]) (by rw [e1]) (by rw [e1]) (by rw [e1]) (by rw [e1]) (by rw [e1])
      (by rw [e1]) (by rw [e1]) (by rw [e1]) (by rw [e1]) (by rw [e1]) (by rw [e1])
      (by rw [e1]; exact ⟨rfl, rfl, rfl, rfl, rfl, rfl, rfl, rfl, id⟩)
  have hl1 : Later c s s1 :=
    Later.of_set_aux (i := i) (t := { getTrk s i with toCounter := some ((getTrk s i).toCounter.getD s.now) })
      ⟨rfl, rfl, rfl, rfl, rfl⟩ htrk1 (by rw [e1]) (by rw [e1]) (by rw [e1]) (by rw [e1]) (by rw [e1]) (by rw [e1])
      (by rw [e1]) (by rw [e1]) (by rw [e1]) (by rw [e1]) (by rw [e1]) (by rw [e1])
      (by rw [e1]; exact ⟨rfl, rfl, rfl, rfl, rfl, rfl, rfl, rfl, id⟩)
  have hgi : getTrk s1 i = { getTrk s i with toCounter := some ((getTrk s i).toCounter.getD s.now) } := by
    rw [getTrk_set htrk1]; simp [hi1]
  have hlen1 : s1.trk.length = s.trk.length := by rw [htrk1]; simp
  have hp1 : (getTrk s1 i).status = .pending := by rw [hgi]; exact hp
  have hsame1 : s1.sched = s.sched ∧ s1.hung = s.hung ∧ s1.parked = s.parked ∧ s1.jobs = s.jobs ∧
      s1.aborting = s.aborting ∧ s1.now = s.now := by
    rw [e1]; exact ⟨rfl, rfl, rfl, rfl, rfl, rfl⟩
  split
  · rw [registerOutcome_error hp1]
    have hleg : Legit c s1 .timeout := by show 0 ≤ c.timeout; omega
    have hgf := getTrk_set (s := s1) (s' := { s1 with trk := s1.trk.set i { getTrk s1 i with status := .error, result := .exc .timeout }, exception := true, aborting := true, jobs := if ordered c then s1.jobs else s1.jobs ++ [i] }) rfl
    refine ⟨h1.fail hi0 (by omega) hp1 hleg rfl rfl rfl rfl rfl rfl rfl rfl rfl rfl
        ⟨rfl, rfl, rfl, rfl, rfl, rfl, rfl, rfl, fun _ => rfl⟩,
      hl1.trans (Later.of_fail hp1 rfl rfl rfl rfl rfl rfl rfl rfl rfl rfl rfl
        ⟨rfl, rfl, rfl, rfl, rfl, rfl, rfl, rfl, fun _ => rfl⟩), rfl, hsame1.1, hsame1.2.1, hsame1.2.2.1, ?_, ?_, ?_, ?_⟩
    · intro ho; simp only [ho, if_true]; exact hsame1.2.2.2.1
    · intro hst
      simp only at hst
      rw [hgf] at hst
      simp [hlen1, hi1] at hst
    · intro hst
      simp only at hst
      rw [hgf] at hst
      simp [hlen1, hi1] at hst
    · intro hnp; exact absurd hp hnp
  · refine ⟨h1, hl1, rfl, hsame1.1, hsame1.2.1, hsame1.2.2.1, fun _ => hsame1.2.2.2.1, fun _ => hsame1.2.2.2.2.1, ?_,
      fun hnp => absurd hp hnp⟩
    intro hst
    simp only at hst
    rw [hp1] at hst; cases hst

theorem registerOutcome_core (c : Cfg) (s : St) (i : Nat) (st : Status) (r : Res) :
    (registerOutcome c s i st r).trk.length = s.trk.length ∧
    (∀ j, (getTrk (registerOutcome c s i st r) j).items = (getTrk s j).items) ∧
    (registerOutcome c s i st r).ready = s.ready ∧ (registerOutcome c s i st r).srcPos = s.srcPos ∧
    (registerOutcome c s i st r).preLeft = s.preLeft ∧ (registerOutcome c s i st r).nCompleted = s.nCompleted ∧
    (registerOutcome c s i st r).parked = s.parked := by
  by_cases hp : (getTrk s i).status = .pending
  · have key : ∃ s', registerOutcome c s i st r = s' ∧ s'.trk = s.trk.set i { getTrk s i with status := st, result := r } ∧
        s'.ready = s.ready ∧ s'.srcPos = s.srcPos ∧ s'.preLeft = s.preLeft ∧ s'.nCompleted = s.nCompleted ∧
        s'.parked = s.parked := by
      unfold registerOutcome
      simp only
      rw [if_neg (by simp [hp])]
      refine ⟨_, rfl, ?_⟩
      split <;> split <;> exact ⟨rfl, rfl, rfl, rfl, rfl, rfl⟩
    obtain ⟨s', e, h1, h2, h3, h4, h5, h6⟩ := key
    rw [e]
    refine ⟨by rw [h1]; simp, fun j => ?_, h2, h3, h4, h5, h6⟩
    rw [getTrk_set h1]; grind
  · rw [registerOutcome_nonpending hp]
    exact ⟨rfl, fun _ => rfl, rfl, rfl, rfl, rfl, rfl⟩

theorem getStatus_core (c : Cfg) (s : St) (i : Nat) :
    (getStatus c s i).1.trk.length = s.trk.length ∧
    (∀ j, (getTrk (getStatus c s i).1 j).items = (getTrk s j).items) ∧
    (getStatus c s i).1.ready = s.ready ∧ (getStatus c s i).1.srcPos = s.srcPos ∧
    (getStatus c s i).1.preLeft = s.preLeft ∧ (getStatus c s i).1.nCompleted = s.nCompleted ∧
    (getStatus c s i).1.parked = s.parked := by
  unfold getStatus
  simp only
  split
  · exact ⟨rfl, fun _ => rfl, rfl, rfl, rfl, rfl, rfl⟩
  · have h1 : ∀ t, (setTrk s i { getTrk s i with toCounter := t }).trk.length = s.trk.length := by
      intro t; simp [setTrk]
    have h2 : ∀ t j, (getTrk (setTrk s i { getTrk s i with toCounter := t }) j).items = (getTrk s j).items := by
      intro t j; rw [getTrk_setTrk]; grind
    split
    · obtain ⟨a1, a2, a3, a4, a5, a6, a7⟩ := registerOutcome_core c
        (setTrk s i { getTrk s i with toCounter := some ((getTrk s i).toCounter.getD s.now) }) i .error
        (.exc .timeout)
      exact ⟨a1.trans (h1 _), fun j => (a2 j).trans (h2 _ j), a3, a4, a5, a6, a7⟩
    · exact ⟨h1 _, h2 _, rfl, rfl, rfl, rfl, rfl⟩

theorem getStatus_B {c : Cfg} {t0 : Nat} {s : St} (i : Nat) (h : InvB c t0 s) : InvB c t0 (getStatus c s i).1 := by
  obtain ⟨a1, a2, a3, a4, a5, a6, _⟩ := getStatus_core c s i
  exact InvB_mono h a1 a2 a3 a4 a5 (by rw [a6]; exact Nat.le_refl _)

theorem getStatus_ownParked (c : Cfg) (t0 : Nat) (s : St) (i : Nat) :
    ownParked t0 (getStatus c s i).1 = ownParked t0 s := by
  simp only [ownParked, (getStatus_core c s i).2.2.2.2.2.2]

/-- `get_status` in unordered mode. -/
theorem getStatus_U {c : Cfg} {t0 : Nat} {s : St} {i : Nat} (ho : ordered c = false) (hU : InvU t0 s)
    (hi0 : t0 ≤ i) (hi1 : i < s.trk.length) : UStep t0 s (getStatus c s i).1 := by
  obtain ⟨a1, a2, a3, a4, a5, a6, a7⟩ := getStatus_core c s i
  have hjs : (getStatus c s i).1.jobsSet = s.jobsSet := by
    unfold getStatus
    simp only
    split
    · rfl
    · split
      · unfold registerOutcome; simp only; split
        · rfl
        · split <;> split <;> rfl
      · rfl
  have hbs : (getStatus c s i).1.base = s.base ∧ (getStatus c s i).1.spec = s.spec := by
    unfold getStatus
    simp only
    split
    · exact ⟨rfl, rfl⟩
    · split
      · unfold registerOutcome; simp only; split
        · exact ⟨rfl, rfl⟩
        · split <;> split <;> exact ⟨rfl, rfl⟩
      · exact ⟨rfl, rfl⟩
  refine UStep.of_same ?_ a2 hjs a3 a4 hbs.1 hbs.2
  -- the queue invariant
  unfold getStatus
  simp only
  split
  · exact hU
  · rename_i hc1
    simp only [Bool.or_eq_true, decide_eq_true_eq, bne_iff_ne, ne_eq, not_or, Decidable.not_not] at hc1
    obtain ⟨_, hp⟩ := hc1
    have hU1 : InvU t0 (setTrk s i { getTrk s i with toCounter := some ((getTrk s i).toCounter.getD s.now) }) :=
      InvU_set_aux (t := { getTrk s i with toCounter := some ((getTrk s i).toCounter.getD s.now) }) hU rfl rfl rfl rfl
    split
    · have hg1 : getTrk (setTrk s i { getTrk s i with toCounter := some ((getTrk s i).toCounter.getD s.now) }) i =
          { getTrk s i with toCounter := some ((getTrk s i).toCounter.getD s.now) } := by
        rw [getTrk_setTrk]; simp [hi1]
      have hp1 : (getTrk (setTrk s i { getTrk s i with toCounter := some ((getTrk s i).toCounter.getD s.now) }) i).status = .pending := by
        rw [hg1]; exact hp
      rw [registerOutcome_error hp1]
      exact InvU_register (t := { getTrk (setTrk s i { getTrk s i with toCounter := some ((getTrk s i).toCounter.getD s.now) }) i with status := .error, result := .exc .timeout })
        hU1 hi0 (by simpa [setTrk] using hi1) hp1 (by simp) rfl (by simp [ho]) rfl
    · exact hU1

theorem firstErrorJob_some {s : St} : ∀ {l : List Nat}, (∃ i ∈ l, (getTrk s i).status = .error) →
    ∃ i, firstErrorJob s l = some i ∧ i ∈ l ∧ (getTrk s i).status = .error := by
  intro l
  induction l with
  | nil => intro h; obtain ⟨i, hi, _⟩ := h; simp at hi
  | cons a r ih =>
    intro h
    unfold firstErrorJob
    by_cases ha : (getTrk s a).status = .error
    · exact ⟨a, by simp [ha], by simp, ha⟩
    · have : ((getTrk s a).status == Status.error) = false := by simpa using ha
      rw [if_neg (by simp [this])]
      obtain ⟨i, hi, hs⟩ := h
      simp only [List.mem_cons] at hi
      rcases hi with hi | hi
      · subst hi; exact absurd hs ha
      · obtain ⟨j, j1, j2, j3⟩ := ih ⟨i, hi, hs⟩
        exact ⟨j, j1, List.mem_cons_of_mem _ j2, j3⟩

/-- How the object is left when a call has ended. -/
theorem idle_of_end {c : Cfg} {t0 : Nat} {s s' : St} (hT : InvT c t0 none s) (hcid : s.callId = s.callCtr)
    (hg : ∀ j, (getTrk s' j).callId = (getTrk s j).callId) (hlen : s'.trk.length = s.trk.length)
    (hctr : s'.callCtr = s.callCtr) (hpk : s'.parked.Sublist s.parked) (hq : Quiet s')
    (hrun : s'.running = false) (hj : s'.jobs = []) (hjs : s'.jobsSet = []) : Idle s' := by
  refine ⟨hrun, hj, hjs, ?_, ?_, ?_, hq⟩
  · intro j
    rw [hg, hctr, ← hcid]
    rcases Nat.lt_or_ge j t0 with h0 | h0
    · exact Nat.le_of_lt (hT.stale j h0)
    · rcases Nat.lt_or_ge j s.trk.length with h1 | h1
      · exact Nat.le_of_eq (hT.ownId j h0 h1)
      · rw [getTrk_ge h1]; simp
  · intro j hj'
    rw [hlen]; exact hT.parked_lt j (hpk.subset hj')
  · exact hT.parked_nodup.sublist hpk

theorem getResult_vals {s : St} {i : Nat} {l : List Nat} (hr : (getTrk s i).result = .vals l)
    (hs : (getTrk s i).status ≠ .error) :
    getResult s i = (setTrk s i { getTrk s i with result := .none }, .ok l) := by
  unfold getResult
  have : ((getTrk s i).status == Status.error) = false := by simpa using hs
  simp only [hr, this, Bool.false_eq_true, if_false]

theorem getResult_exc {s : St} {i : Nat} {e : Exc} (hr : (getTrk s i).result = .exc e)
    (hs : (getTrk s i).status = .error) :
    getResult s i = (setTrk s i { getTrk s i with result := .none }, .error e) := by
  unfold getResult
  have : ((getTrk s i).status == Status.error) = true := by simpa using hs
  simp only [hr, this, if_true]

/-- `_jobs.popleft()` + `get_result()` of a completed head (ordered modes). -/
theorem pop_done {c : Cfg} {t0 : Nat} {s : St} {i : Nat} {rest : List Nat} (ho : ordered c = true)
    (h : Inv c t0 s) (hna : s.aborting = false) (hj : s.jobs = i :: rest)
    (hd : (getTrk s i).status = .done) :
    ∃ s3, getResult { s with jobs := rest } i = (s3, .ok (getTrk s i).items) ∧ Inv c t0 s3 ∧
      (Post s → Post s3) ∧ restS s = (getTrk s i).items ++ restS s3 ∧ meas c s3 + 1 = meas c s ∧
      Frame s s3 ∧ s3.aborting = false ∧ s3.sched = s.sched ∧ s3.hung = s.hung ∧ s3.now = s.now ∧
      s3.nbConsumed = s.nbConsumed ∧ s3.jobs = rest ∧ s3.parked = s.parked ∧ (InvB c t0 s → InvB c t0 s3) := by
  have hmem : i ∈ s.jobs := by rw [hj]; simp
  have htok := (h.T.tok i hmem).1 hd
  obtain ⟨hi0, hi1⟩ := h.T.jobs_own i hmem
  have hgi : getTrk { s with jobs := rest } i = getTrk s i := rfl
  rw [getResult_vals (s := { s with jobs := rest }) (l := (getTrk s i).items) htok (by rw [hgi, hd]; simp), hgi]
  refine ⟨_, rfl, ?_, ?_, ?_, ?_, ⟨rfl, rfl, rfl, rfl, rfl, rfl, rfl, rfl, id⟩, hna, rfl, rfl, rfl, rfl, rfl, rfl,
    ?_⟩
  rotate_left 4
  · intro hB
    refine InvB_mono hB (by simp [setTrk]) (fun j => ?_) rfl rfl rfl (Nat.le_refl _)
    rw [getTrk_set (s := s) (s' := setTrk { s with jobs := rest } i { getTrk s i with result := .none }) rfl]
    grind
  · -- the invariant
    obtain ⟨hT2, hni⟩ := InvT_pop (s' := { s with jobs := rest }) h.T hj (by rw [hd]; simp) hna rfl rfl rfl rfl rfl
      rfl rfl rfl rfl
    have hT3 := InvT_consume (s' := setTrk { s with jobs := rest } i { getTrk s i with result := .none }) hT2
      (hni ho) rfl rfl rfl rfl rfl rfl rfl rfl rfl
    have hS3 := InvS_set_same (s' := setTrk { s with jobs := rest } i { getTrk s i with result := .none })
      (t := { getTrk s i with result := .none }) h.S rfl rfl rfl rfl rfl rfl rfl rfl rfl rfl rfl rfl
    have hg3 := getTrk_set (s := s) (s' := setTrk { s with jobs := rest } i { getTrk s i with result := .none }) rfl
    refine ⟨hT3, hS3, InvL_of h.L id rfl id h.L.orig_exh,
      IterPend_of h.P id id (by simp [setTrk]) (by intro _ j _; rw [hg3]; grind)⟩
  · intro hp; exact hp
  · have hg3 := getTrk_set (s := s) (s' := setTrk { s with jobs := rest } i { getTrk s i with result := .none }) rfl
    have hit : ∀ j, (getTrk (setTrk { s with jobs := rest } i { getTrk s i with result := .none }) j).items =
        (getTrk s j).items := by intro j; rw [hg3]; grind
    simp only [restS, hj, List.map_cons, List.flatten_cons, hit, List.append_assoc]
    rfl
  · simp only [meas, unpopped, ho, if_true, hj, List.length_cons, work]
    show rest.length + s.parked.length + 2 * (s.ready.length + (s.spec.n - s.srcPos)) + 1 = _
    omega

/-- `_jobs.popleft()` + `get_result()` of a head that carries an error: the exception it raises. -/
theorem pop_error {c : Cfg} {t0 : Nat} {s : St} {i : Nat} {rest : List Nat}
    (h : Inv c t0 s) (hmem : i ∈ s.jobs)
    (hd : (getTrk s i).status = .error) :
    ∃ s3 e, getResult { s with jobs := rest } i = (s3, .error e) ∧ Legit c s e ∧
      (∀ j, (getTrk s3 j).callId = (getTrk s j).callId) ∧ s3.trk.length = s.trk.length ∧
      s3 = { s with jobs := rest, trk := s3.trk } := by
  obtain ⟨e, hres, hleg⟩ := (h.T.tok i hmem).2 hd
  have hgi : getTrk { s with jobs := rest } i = getTrk s i := rfl
  rw [getResult_exc (s := { s with jobs := rest }) hres hd, hgi]
  refine ⟨_, e, rfl, hleg, ?_, by simp [setTrk], rfl⟩
  intro j
  rw [getTrk_set (s := s) (s' := setTrk { s with jobs := rest } i { getTrk s i with result := .none }) rfl]
  grind

theorem perm_removeFirst_flatten (f : Nat → List Nat) (i : Nat) : ∀ (l : List Nat), i ∈ l →
    (f i ++ ((removeFirst i l).map f).flatten).Perm ((l.map f).flatten) := by
  intro l
  induction l with
  | nil => intro hm; simp at hm
  | cons a t ih =>
    intro hm
    simp only [removeFirst]
    by_cases hia : i = a
    · subst hia; simp
    · rw [if_neg hia]
      simp only [List.mem_cons] at hm
      have hm' : i ∈ t := by
        rcases hm with hm | hm
        · exact absurd hm hia
        · exact hm
      have h1 := ih hm'
      simp only [List.map_cons, List.flatten_cons]
      have h2 : (f i ++ (f a ++ ((removeFirst i t).map f).flatten)).Perm
          (f a ++ (f i ++ ((removeFirst i t).map f).flatten)) := by
        rw [← List.append_assoc, ← List.append_assoc]
        exact List.Perm.append_right _ List.perm_append_comm
      exact h2.trans (List.Perm.append_left _ h1)

/-- `_jobs.popleft()`, `_jobs_set.remove(job)`, `get_result()` of a completed batch (unordered mode). -/
theorem pop_done_u {c : Cfg} {t0 : Nat} {s : St} {i : Nat} {rest : List Nat} (ho : ordered c = false)
    (h : Inv c t0 s) (hU : InvU t0 s) (hna : s.aborting = false) (hj : s.jobs = i :: rest)
    (hd : (getTrk s i).status = .done) :
    ∃ s3, getResult { s with jobs := rest, jobsSet := removeFirst i s.jobsSet } i = (s3, .ok (getTrk s i).items) ∧
      Inv c t0 s3 ∧ InvU t0 s3 ∧ (Post s → Post s3) ∧
      ((getTrk s i).items ++ restU s3).Perm (restU s) ∧ meas c s3 + 1 = meas c s ∧
      Frame s s3 ∧ s3.aborting = false ∧ s3.sched = s.sched ∧ s3.hung = s.hung ∧ s3.now = s.now ∧
      s3.parked = s.parked ∧ s3.trk.length = s.trk.length ∧ (InvB c t0 s → InvB c t0 s3) := by
  have hmem : i ∈ s.jobs := by rw [hj]; simp
  have htok := (h.T.tok i hmem).1 hd
  obtain ⟨hi0, hi1⟩ := h.T.jobs_own i hmem
  have hgi : getTrk { s with jobs := rest, jobsSet := removeFirst i s.jobsSet } i = getTrk s i := rfl
  rw [getResult_vals (s := { s with jobs := rest, jobsSet := removeFirst i s.jobsSet }) (l := (getTrk s i).items)
    htok (by rw [hgi, hd]; simp), hgi]
  obtain ⟨hU2, hni, hset⟩ := InvU_pop (s' := { s with jobs := rest, jobsSet := removeFirst i s.jobsSet }) hU hj rfl rfl rfl
  have hg3 := getTrk_set (s := s) (s' := setTrk { s with jobs := rest, jobsSet := removeFirst i s.jobsSet } i { getTrk s i with result := .none }) rfl
  have hit : ∀ j, (getTrk (setTrk { s with jobs := rest, jobsSet := removeFirst i s.jobsSet } i { getTrk s i with result := .none }) j).items =
      (getTrk s j).items := by intro j; rw [hg3]; grind
  refine ⟨_, rfl, ?_, ?_, fun hp => hp, ?_, ?_, ⟨rfl, rfl, rfl, rfl, rfl, rfl, rfl, rfl, id⟩, hna, rfl, rfl, rfl, rfl,
    by simp [setTrk], ?_⟩
  · -- the invariant
    obtain ⟨hT2, _⟩ := InvT_pop (s' := { s with jobs := rest, jobsSet := removeFirst i s.jobsSet }) h.T hj
      (by rw [hd]; simp) hna rfl rfl rfl rfl rfl rfl rfl rfl rfl
    have hT3 := InvT_consume (s' := setTrk { s with jobs := rest, jobsSet := removeFirst i s.jobsSet } i { getTrk s i with result := .none }) hT2
      hni rfl rfl rfl rfl rfl rfl rfl rfl rfl
    have hS3 := InvS_set_same (s' := setTrk { s with jobs := rest, jobsSet := removeFirst i s.jobsSet } i { getTrk s i with result := .none })
      (t := { getTrk s i with result := .none }) h.S rfl rfl rfl rfl rfl rfl rfl rfl rfl rfl rfl rfl
    refine ⟨hT3, hS3, InvL_of h.L id rfl id h.L.orig_exh,
      IterPend_of h.P id id (by simp [setTrk]) (by intro _ j _; rw [hg3]; grind)⟩
  · exact InvU_set_aux (t := { getTrk s i with result := .none }) hU2 rfl rfl rfl rfl
  · -- the multiset of what remains
    simp only [restU, hit]
    show ((getTrk s i).items ++ ((List.map (fun j => (getTrk s j).items) (removeFirst i s.jobsSet)).flatten ++
      s.ready.flatten ++ List.range' (s.base + s.srcPos) (s.spec.n - s.srcPos))).Perm _
    have key := perm_removeFirst_flatten (fun j => (getTrk s j).items) i s.jobsSet hset
    simp only [← List.append_assoc]
    exact List.Perm.append_right _ (List.Perm.append_right _ key)
  · simp only [meas, unpopped, ho, Bool.false_eq_true, if_false, work]
    have := removeFirst_length hset
    show (removeFirst i s.jobsSet).length + s.parked.length + 2 * (s.ready.length + (s.spec.n - s.srcPos)) + 1 = _
    omega
  · intro hB
    exact InvB_mono hB (by simp [setTrk]) hit rfl rfl rfl (Nat.le_refl _)

end JoblibModel.ParallelProto
