import JoblibProofs.Lemmas.ParallelProto.Loop
/-!
The retrieval loop for `return_as='generator_unordered'`.
-/
namespace JoblibModel.ParallelProto

/-- The generator's timeout control job (unordered mode) is a tracker of the running call. -/
def GOwn (t0 : Nat) (s : St) (g : Gen) : Prop := ∀ j, g.tcj = some j → t0 ≤ j ∧ j < s.trk.length

/-- Outcome of one `next()` in the retrieval phase, unordered mode: as `RLPost`, with the remaining output tracked
as a multiset (`List.Perm`). -/
def RUPost (c : Cfg) (t0 : Nat) (s : St) (g : Gen) : St × Gen × Out → Prop
  | (s', g', .value v) =>
      (s.aborting = true → s'.aborting = true) ∧
      ((g'.phase = .retrieve ∧ GoodR c t0 s' ∧ InvU t0 s' ∧ GOwn t0 s' g' ∧ Frame s s' ∧
          (s'.aborting = false → (g.buf ++ restU s).Perm (v :: (g'.buf ++ restU s'))) ∧
          (s'.aborting = false → boundR c s' ≤ boundR c s) ∧
          g'.buf.length + (restU s').length + 1 ≤ g.buf.length + (restU s).length) ∨
       (g'.phase = .tail ∧ GoodT s' g' ∧ s.aborting = false ∧ (g.buf ++ restU s).Perm (v :: restT s' g') ∧
          g'.remaining.length + 1 ≤ boundR c s ∧ s'.spec = s.spec ∧ s'.failIds = s.failIds))
  | (s', g', .stop) => g'.phase = .done ∧ Idle s' ∧ Clean s' ∧ s'.exception = false ∧ s.aborting = false ∧
      g.buf ++ restU s = [] ∧ s'.hung = false ∧ ¬ (0 ≤ s.spec.iterfail ∧ s.spec.iterfail ≤ s.spec.n) ∧
      s'.failIds = s.failIds
  | (s', g', .raise e) => g'.phase = .done ∧ Idle s' ∧ Clean s' ∧ s'.exception = true ∧ Legit c s e ∧
      s'.hung = false ∧ s'.failIds = s.failIds
  | (_, _, .hang) => False

theorem RUPost.transfer {c : Cfg} {t0 : Nat} {s s1 : St} {g g1 : Gen} {res : St × Gen × Out}
    (h : RUPost c t0 s1 g1 res) (hf : Frame s s1)
    (hrest : s1.aborting = false → (g.buf ++ restU s).Perm (g1.buf ++ restU s1))
    (hb : s1.aborting = false → boundR c s1 ≤ boundR c s)
    (hlen : g1.buf.length + (restU s1).length ≤ g.buf.length + (restU s).length) :
    RUPost c t0 s g res := by
  have hna : s1.aborting = false → s.aborting = false := by
    intro h1
    cases hx : s.aborting with
    | false => rfl
    | true => rw [hf.abort_mono hx] at h1; simp at h1
  obtain ⟨s', g', o⟩ := res
  cases o with
  | value v =>
    obtain ⟨a1, a2⟩ := h
    refine ⟨fun hx => a1 (hf.abort_mono hx), ?_⟩
    rcases a2 with ⟨b1, b2, bu, bg, bf, b3, b4, b6⟩ | ⟨b1, b2, b3, b4, b5, b7, b8⟩
    · left
      have hna1 : s'.aborting = false → s1.aborting = false := by
        intro h1
        cases hx : s1.aborting with
        | false => rfl
        | true => rw [a1 hx] at h1; simp at h1
      exact ⟨b1, b2, bu, bg, hf.trans bf, fun hx => (hrest (hna1 hx)).trans (b3 hx),
        fun hx => Nat.le_trans (b4 hx) (hb (hna1 hx)), by omega⟩
    · right
      exact ⟨b1, b2, hna b3, (hrest b3).trans b4, Nat.le_trans b5 (hb b3), b7.trans hf.spec,
        b8.trans hf.failIds⟩
  | stop =>
    obtain ⟨a1, a2, a3, a4, a5, a6, a7, a8, a9⟩ := h
    refine ⟨a1, a2, a3, a4, hna a5, ?_, a7, by rw [← hf.spec]; exact a8, a9.trans hf.failIds⟩
    have := hrest a5
    rw [a6] at this
    exact List.Perm.eq_nil this
  | raise e =>
    obtain ⟨a1, a2, a3, a4, a5, a6, a7⟩ := h
    exact ⟨a1, a2, a3, a4, (Legit_congr hf.failIds hf.base hf.spec e).mp a5, a6, a7.trans hf.failIds⟩
  | hang => exact h

/-- At the loop's normal exit no batch of the call is pending any more. -/
theorem exit_no_pending {c : Cfg} {t0 : Nat} {s : St} (h : Inv c t0 s) (hna : s.aborting = false)
    (hw : ¬ s.nCompleted < s.nDispTasks) :
    ∀ i, t0 ≤ i → i < s.trk.length → (getTrk s i).status = .done := by
  intro i i0 i1
  have hne := h.T.no_error hna i i0 i1
  have hnp : (getTrk s i).status ≠ .pending := by
    intro hp
    have hok := h.T.items_ok i i0 i1 hne
    have hpos : 0 < pendSum (own t0 s) := by
      rw [pendSum_pos_iff]
      obtain ⟨hl, he⟩ := own_getElem i0 i1
      refine ⟨(own t0 s)[i - t0], List.getElem_mem hl, by rw [he]; exact hp, ?_⟩
      rw [he, hok.2]
      exact List.length_pos_iff.mpr hok.1
    have := h.S.ncomp hna
    omega
  cases hst : (getTrk s i).status with
  | pending => exact absurd hst hnp
  | done => rfl
  | error => exact absurd hst hne

theorem perm_of_nodup_of_mem_iff {l₁ l₂ : List Nat} (h1 : l₁.Nodup) (h2 : l₂.Nodup)
    (h : ∀ x, x ∈ l₁ ↔ x ∈ l₂) : l₁.Perm l₂ := by
  rw [List.perm_iff_count]
  intro a
  rw [h1.count, h2.count]
  by_cases ha : a ∈ l₁
  · simp [ha, (h a).mp ha]
  · have : a ∉ l₂ := fun hx => ha ((h a).mpr hx)
    simp [ha, this]

/-- Normal exit of the retrieval loop (unordered mode). -/
theorem rl_exit_u {c : Cfg} {t0 : Nat} {s : St} {g : Gen} (fuel : Nat) (ho : ordered c = false)
    (h : GoodR c t0 s) (hU : InvU t0 s) (hb : g.buf = [])
    (hna : s.aborting = false) (hit : s.iterating = false) (hw : ¬ s.nCompleted < s.nDispTasks) :
    RUPost c t0 s g
      (tailLoop (fuel + (finallyBlock s).2.length + 1) (finallyBlock s).1
        { g with phase := .tail, remaining := (finallyBlock s).2 }) := by
  obtain ⟨lg, hfb⟩ := finallyBlock_eq s
  have hexc : s.exception = false := by rw [h.inv.T.abort_exc]; exact hna
  have hfb2 : (finallyBlock s).2 = s.jobs := by rw [hfb]; simp [hexc]
  have hfb1 : (finallyBlock s).1 =
      { s with log := lg, jobs := [], jobsSet := [], running := false, calling := false } := by rw [hfb]
  rw [hfb1, hfb2]
  have hdone := exit_all_done h.inv hna hw
  have hnp := exit_no_pending h.inv hna hw
  have hpost := h.post hna hit
  have hn : s.srcPos = s.spec.n := (h.inv.S.dead hna hpost.2).1
  have hnoit : ¬ (0 ≤ s.spec.iterfail ∧ s.spec.iterfail ≤ s.spec.n) := by
    intro ⟨x, y⟩
    have h1 := h.inv.S.src_iter x
    have h2 := (h.inv.S.dead hna hpost.2).2
    omega
  have hstale : AllStale { s with log := lg, jobs := [], jobsSet := [], running := false, calling := false } := by
    intro i hi hcid
    have hcid' : (getTrk s i).callId = s.callId := hcid
    obtain ⟨i0, i1⟩ := own_of_callId h.inv.T hcid'
    have hpend : (getTrk s i).status = .pending :=
      (h.inv.T.parked_pending hna i i0 i1).mpr (Or.inl hi)
    rw [hnp i i0 i1] at hpend; cases hpend
  have hgt : GoodT { s with log := lg, jobs := [], jobsSet := [], running := false, calling := false }
      { g with phase := .tail, remaining := s.jobs } :=
    ⟨idle_of_end h.inv.T h.cid (fun _ => rfl) rfl rfl (List.Sublist.refl _) (Or.inr hstale) rfl rfl rfl,
      ⟨rfl, rfl, rfl, rfl⟩, hexc, hdone, hU.jobs_nodup, h.hung, hnoit, hstale⟩
  have hperm : s.jobsSet.Perm s.jobs := by
    apply perm_of_nodup_of_mem_iff hU.set_nodup hU.jobs_nodup
    intro x
    constructor
    · intro hx
      obtain ⟨x0, x1⟩ := hU.set_own x hx
      exact hU.set_done x hx (by rw [hnp x x0 x1]; simp)
    · intro hx; exact (hU.jobs_set x hx).1
  have hrest : (g.buf ++ restU s).Perm
      (restT { s with log := lg, jobs := [], jobsSet := [], running := false, calling := false }
        { g with phase := .tail, remaining := s.jobs }) := by
    simp only [restT, restU, hb, hpost.1, hn, Nat.sub_self, List.range'_zero, List.flatten_nil, List.append_nil,
      List.nil_append]
    exact (hperm.map _).flatten
  have ht := tailLoop_spec (fuel + s.jobs.length + 1) _ _ hgt (by simp only; omega)
  generalize tailLoop (fuel + s.jobs.length + 1)
    { s with log := lg, jobs := [], jobsSet := [], running := false, calling := false }
    { g with phase := .tail, remaining := s.jobs } = res at ht
  obtain ⟨s', g', o⟩ := res
  have hjl : s.jobs.length ≤ s.jobsSet.length := by rw [hperm.length_eq]; exact Nat.le_refl _
  cases o with
  | value v =>
    obtain ⟨a1, a2, a3, a4, _, _, _, _, hsp, hfi⟩ := ht
    refine ⟨fun hx => by rw [hna] at hx; simp at hx, Or.inr ⟨a1, a2, hna, ?_, ?_, hsp, hfi⟩⟩
    · rw [← a3]; exact hrest
    · simp only [boundR, meas, unpopped, ho, Bool.false_eq_true, if_false] at a4 ⊢
      omega
  | stop =>
    obtain ⟨a1, a2, a3, a4, a5, _, _, a8, _, a10⟩ := ht
    refine ⟨a1, a2, a3, a4, hna, ?_, by rw [a8]; exact h.hung, hnoit, a10⟩
    rw [a5] at hrest
    exact List.Perm.eq_nil hrest
  | raise e => exact ht.elim
  | hang => exact ht.elim

/-- `_raise_error_fast` when the loop finds the call aborting (any mode). -/
theorem rl_abort_u {c : Cfg} {t0 : Nat} {s : St} {g : Gen} (fuel : Nat)
    (h : GoodR c t0 s) (hab : s.aborting = true) :
    RUPost c t0 s g
      (match firstErrorJob s s.jobs with
        | some i =>
          match getResult s i with
          | (s, .error e) => (handleException c s, { g with phase := .done }, .raise e)
          | (s, .ok _) =>
            let (s, rem) := finallyBlock s
            tailLoop (fuel + rem.length + 1) s { g with phase := .tail, remaining := rem }
        | none =>
          let (s, rem) := finallyBlock s
          tailLoop (fuel + rem.length + 1) s { g with phase := .tail, remaining := rem }) := by
  obtain ⟨i, hfe, hmem, hst⟩ := firstErrorJob_some (h.inv.T.abort_err hab)
  rw [hfe]
  simp only
  obtain ⟨s3, e, hres, hleg, hcid, hlen, hs3⟩ := pop_error (rest := s.jobs) h.inv hmem hst
  have : getResult s i = (s3, .error e) := hres
  rw [this]
  simp only
  obtain ⟨x, y, z, w, u⟩ := raise_end (c := c) h hcid hlen (by rw [hs3]) (by rw [hs3]) (by rw [hs3]) (by rw [hs3])
  exact ⟨rfl, x, y, z, hleg, w, u⟩

/-- The `time.sleep` of the retrieval loop (a hook point), unordered mode. -/
theorem rl_sleep_u {c : Cfg} (hc : CfgOK c) {t0 : Nat} {s : St} (ho : ordered c = false) (h : GoodR c t0 s)
    (hU : InvU t0 s) (hpk : s.parked ≠ []) :
    GoodR c t0 (hook c true { s with now := s.now + 1 }) ∧ InvU t0 (hook c true { s with now := s.now + 1 }) ∧
    Frame s (hook c true { s with now := s.now + 1 }) ∧
    ((hook c true { s with now := s.now + 1 }).aborting = false →
      restU (hook c true { s with now := s.now + 1 }) = restU s) ∧
    ((hook c true { s with now := s.now + 1 }).aborting = false →
      boundR c (hook c true { s with now := s.now + 1 }) + 1 ≤ boundR c s) ∧
    (restU (hook c true { s with now := s.now + 1 })).length ≤ (restU s).length ∧
    s.trk.length ≤ (hook c true { s with now := s.now + 1 }).trk.length := by
  have h0 : GoodR c t0 { s with now := s.now + 1 } :=
    h.frame rfl rfl rfl rfl rfl rfl rfl rfl rfl rfl rfl rfl rfl rfl ⟨rfl, rfl, rfl, rfl, rfl, rfl, rfl, rfl, id⟩
  have hU0 : InvU t0 { s with now := s.now + 1 } := InvU_frame hU rfl rfl rfl
  have hk := hook_spec hc true h0.inv
  have hf := hk.later.frame
  have hu := hk.U ho hU0
  refine ⟨⟨hk.inv, hk.later.post h0.post, ?_, ?_⟩, hu.inv,
    ⟨hf.base, hf.spec, hf.callId, hf.callCtr, hf.failIds, hf.managed, hf.running, hf.calling, hf.abort_mono⟩,
    fun ha => hu.rest ha, ?_, hu.rlen, hk.later.len⟩
  · rw [hk.hung_sleep (Or.inl hpk)]; exact h.hung
  · rw [hf.callId, hf.callCtr]; exact h.cid
  · intro ha
    have := hk.prog rfl (Or.inl hpk) ha
    simp only [boundR]
    show _ ≤ meas c s + s.sched.length + 2
    have e1 : meas c { s with now := s.now + 1 } = meas c s := rfl
    have e2 : ({ s with now := s.now + 1 } : St).sched = s.sched := rfl
    rw [e1, e2] at this
    omega

/-- One `next()` on the output generator while it is inside the retrieval loop, unordered mode. -/
theorem retrieveLoopU_spec {c : Cfg} (hc : CfgOK c) {t0 : Nat} (ho : ordered c = false) :
    ∀ (fuel : Nat) (s : St) (g : Gen), GoodR c t0 s → InvU t0 s → GOwn t0 s g → 1 ≤ fuel →
      (s.aborting = false → boundR c s ≤ fuel) → RUPost c t0 s g (retrieveLoop c fuel s g) := by
  intro fuel
  induction fuel with
  | zero => intro s g _ _ _ hf; omega
  | succ fuel ih =>
    intro s g h hU hG _ hfuel
    unfold retrieveLoop
    obtain ⟨gph, gbuf, grem, gtcj⟩ := g
    cases gbuf with
    | cons v r =>
      simp only
      refine ⟨fun hx => hx, Or.inl ⟨rfl, ?_, InvU_frame hU rfl rfl rfl, hG,
        ⟨rfl, rfl, rfl, rfl, rfl, rfl, rfl, rfl, id⟩, ?_, ?_, ?_⟩⟩
      · exact h.frame rfl rfl rfl rfl rfl rfl rfl rfl rfl rfl rfl rfl rfl rfl
          ⟨rfl, rfl, rfl, rfl, rfl, rfl, rfl, rfl, id⟩
      · intro _; simp only [List.cons_append]; exact List.Perm.refl _
      · intro _; exact Nat.le_refl _
      · simp only [List.length_cons]
        show r.length + (restU s).length + 1 ≤ _
        omega
    | nil =>
      simp only
      have hb : ({ phase := gph, buf := [], remaining := grem, tcj := gtcj } : Gen).buf = [] := rfl
      by_cases hw : (!(s.aborting || s.iterating || decide (s.nCompleted < s.nDispTasks))) = true
      · rw [if_pos hw]
        simp only [Bool.not_eq_eq_eq_not, Bool.not_true, Bool.or_eq_false_iff, decide_eq_false_iff_not] at hw
        exact rl_exit_u (g := { phase := gph, buf := [], remaining := grem, tcj := gtcj }) fuel ho h hU hb
          hw.1.1 hw.1.2 hw.2
      rw [if_neg hw]
      by_cases hab : s.aborting = true
      · rw [if_pos hab]
        exact rl_abort_u (g := { phase := gph, buf := [], remaining := grem, tcj := gtcj }) fuel h hab
      rw [if_neg hab]
      have hna : s.aborting = false := by simpa using hab
      have hwait : s.iterating = true ∨ s.nCompleted < s.nDispTasks := by
        simp only [hna, Bool.false_or, Bool.not_eq_eq_eq_not, Bool.not_true, Bool.or_eq_false_iff,
          decide_eq_false_iff_not, not_and, Decidable.not_not] at hw
        by_cases hi : s.iterating = true
        · exact Or.inl hi
        · exact Or.inr (hw (by simpa using hi))
      have hbound := hfuel hna
      rw [if_neg (by simp [ho])]
      obtain ⟨ip, _, _, _, hipk⟩ := pending_exists h.inv hna hwait
      have hpk : s.parked ≠ [] := by intro hx; rw [hx] at hipk; simp at hipk
      cases hj : s.jobs with
      | nil =>
        simp only
        -- sleeping from a state `s1` (after `get_status` of the control job, if any) and looping again
        have body : ∀ (tcj : Option Nat) (s1 : St), (∀ j, tcj = some j → t0 ≤ j ∧ j < s.trk.length) →
            GoodR c t0 s1 → InvU t0 s1 → Frame s s1 → (s1.aborting = false → restU s1 = restU s) →
            (s1.aborting = false → boundR c s1 ≤ boundR c s) → (restU s1).length ≤ (restU s).length →
            s1.parked = s.parked → s.trk.length ≤ s1.trk.length →
            RUPost c t0 s { phase := gph, buf := [], remaining := grem, tcj := gtcj }
              (if (hook c true { s1 with now := s1.now + 1 }).hung = true
                then (hook c true { s1 with now := s1.now + 1 }, { phase := gph, buf := [], remaining := grem, tcj := tcj }, Out.hang)
                else retrieveLoop c fuel (hook c true { s1 with now := s1.now + 1 }) { phase := gph, buf := [], remaining := grem, tcj := tcj }) := by
          intro tcj s1 htown hg1 hU1 hf1 hr1 hb1 hl1 hp1 hlen1
          obtain ⟨hg2, hU2, hf2, hr2, hb2, hl2, hlen2⟩ := rl_sleep_u hc ho hg1 hU1 (by rw [hp1]; exact hpk)
          rw [if_neg (by rw [hg2.hung]; simp)]
          have hG2 : GOwn t0 (hook c true { s1 with now := s1.now + 1 })
              { phase := gph, buf := [], remaining := grem, tcj := tcj } := by
            intro j hj'
            obtain ⟨x, y⟩ := htown j hj'
            exact ⟨x, by omega⟩
          have hna1 : (hook c true { s1 with now := s1.now + 1 }).aborting = false → s1.aborting = false := by
            intro hx
            cases hy : s1.aborting with
            | false => rfl
            | true => rw [hf2.abort_mono hy] at hx; simp at hx
          have := ih _ { phase := gph, buf := [], remaining := grem, tcj := tcj } hg2 hU2 hG2
            (by simp only [boundR] at hbound; omega)
            (fun ha => by have := hb2 ha; have := hb1 (hna1 ha); omega)
          exact this.transfer (hf1.trans hf2) (fun ha => by rw [hr2 ha, hr1 (hna1 ha)])
            (fun ha => by have := hb2 ha; have := hb1 (hna1 ha); omega)
            (by simp only [List.length_nil]; omega)
        -- `get_status` of a tracker of the call
        have hgs : ∀ j, t0 ≤ j → j < s.trk.length →
            GoodR c t0 (getStatus c s j).1 ∧ InvU t0 (getStatus c s j).1 ∧ Frame s (getStatus c s j).1 ∧
            ((getStatus c s j).1.aborting = false → restU (getStatus c s j).1 = restU s) ∧
            ((getStatus c s j).1.aborting = false → boundR c (getStatus c s j).1 ≤ boundR c s) ∧
            (restU (getStatus c s j).1).length ≤ (restU s).length ∧ (getStatus c s j).1.parked = s.parked ∧
            s.trk.length ≤ (getStatus c s j).1.trk.length := by
          intro j j0 j1
          obtain ⟨gs1, gs2, _, gs4, gs5, gs6, _⟩ := getStatus_spec (c := c) (i := j) h.inv j0 j1
          have hu := getStatus_U (c := c) (i := j) ho hU j0 j1
          refine ⟨⟨gs1, gs2.post h.post, by rw [gs5]; exact h.hung,
            by rw [gs2.frame.callId, gs2.frame.callCtr]; exact h.cid⟩, hu.inv, gs2.frame,
            fun ha => hu.rest ha, fun ha => ?_, hu.rlen, gs6, gs2.len⟩
          have := gs2.meas_le ha
          simp only [boundR, gs4]
          omega
        cases gtcj with
        | some j0 =>
          simp only
          obtain ⟨x0, x1⟩ := hG j0 rfl
          obtain ⟨a1, a2, a3, a4, a5, a6, a7, a8⟩ := hgs j0 x0 x1
          exact body (some j0) _ (fun j hj' => by simp only [Option.some.injEq] at hj'; subst hj'; exact ⟨x0, x1⟩)
            a1 a2 a3 a4 a5 a6 a7 a8
        | none =>
          simp only
          cases hh : s.jobsSet.head? with
          | none =>
            simp only
            exact body none s (fun j hj' => by cases hj') h hU (Frame.refl s) (fun _ => rfl)
              (fun _ => Nat.le_refl _) (Nat.le_refl _) rfl (Nat.le_refl _)
          | some j =>
            simp only
            obtain ⟨x0, x1⟩ := hU.set_own j (List.mem_of_mem_head? hh)
            obtain ⟨a1, a2, a3, a4, a5, a6, a7, a8⟩ := hgs j x0 x1
            exact body (some j) _ (fun j' hj' => by simp only [Option.some.injEq] at hj'; subst hj'; exact ⟨x0, x1⟩)
              a1 a2 a3 a4 a5 a6 a7 a8
      | cons i rest =>
        simp only
        -- popping the head of `_jobs` from a state `s0` (the control job's timeout counter cleared)
        have body2 : ∀ s0 : St, GoodR c t0 s0 → InvU t0 s0 → Frame s s0 → restU s0 = restU s →
            boundR c s0 = boundR c s → s0.jobs = s.jobs → s0.aborting = s.aborting →
            RUPost c t0 s { phase := gph, buf := [], remaining := grem, tcj := gtcj }
              (if (!s0.jobsSet.contains i) = true then
                (handleException c { s0 with jobs := rest }, { phase := Phase.done, buf := [], remaining := grem, tcj := none }, Out.raise Exc.key)
              else
                match getResult { s0 with jobs := rest, jobsSet := removeFirst i s0.jobsSet } i with
                | (s, Except.error e) => (handleException c s, { phase := Phase.done, buf := [], remaining := grem, tcj := none }, Out.raise e)
                | (s, Except.ok l) => retrieveLoop c fuel s { phase := gph, buf := l, remaining := grem, tcj := none }) := by
          intro s0 hg0 hU0 hf0 hr0 hb0 hj0 ha0
          have hj0' : s0.jobs = i :: rest := by rw [hj0, hj]
          have hmem0 : i ∈ s0.jobs := by rw [hj0']; simp
          have hset0 : i ∈ s0.jobsSet := (hU0.jobs_set i hmem0).1
          rw [if_neg (by simp [hset0])]
          have hna0 : s0.aborting = false := by rw [ha0]; exact hna
          obtain ⟨i0, i1⟩ := hg0.inv.T.jobs_own i hmem0
          have hd : (getTrk s0 i).status = .done := by
            have hnp := (hU0.jobs_set i hmem0).2
            have hne := hg0.inv.T.no_error hna0 i i0 i1
            cases hst : (getTrk s0 i).status with
            | pending => exact absurd hst hnp
            | done => rfl
            | error => exact absurd hst hne
          obtain ⟨s3, hres, hi3, hU3, hp3, hr3, hm3, hf3, hna3, hsc3, hh3, _, _, hlen3, _⟩ :=
            pop_done_u ho hg0.inv hU0 hna0 hj0' hd
          rw [hres]
          simp only
          have hg3 : GoodR c t0 s3 := ⟨hi3, hp3 hg0.post, by rw [hh3]; exact hg0.hung,
            by rw [hf3.callId, hf3.callCtr]; exact hg0.cid⟩
          have hG3 : GOwn t0 s3 { phase := gph, buf := (getTrk s0 i).items, remaining := grem, tcj := none } := by
            intro j hj'; cases hj'
          have := ih s3 { phase := gph, buf := (getTrk s0 i).items, remaining := grem, tcj := none } hg3 hU3 hG3
            (by simp only [boundR] at hbound; omega)
            (fun _ => by simp only [boundR, hsc3] at hbound hb0 ⊢; omega)
          refine this.transfer (hf0.trans hf3) (fun _ => ?_) (fun _ => by simp only [boundR, hsc3] at hb0 ⊢; omega) ?_
          · simp only [List.nil_append]
            rw [← hr0]; exact hr3.symm
          · have := hr3.length_eq
            simp only [List.length_append, List.length_nil] at this ⊢
            rw [← hr0]; omega
        cases gtcj with
        | none =>
          simp only
          exact body2 s h hU (Frame.refl s) rfl rfl rfl rfl
        | some j =>
          simp only
          refine body2 (setTrk s j { getTrk s j with toCounter := none }) ?_
            (InvU_set_aux (t := { getTrk s j with toCounter := none }) hU rfl rfl rfl rfl)
            ⟨rfl, rfl, rfl, rfl, rfl, rfl, rfl, rfl, id⟩ ?_ rfl rfl rfl
          · exact ⟨h.inv.set_aux (i := j) (t := { getTrk s j with toCounter := none }) ⟨rfl, rfl, rfl, rfl, rfl⟩ rfl
              rfl rfl rfl rfl rfl rfl rfl rfl rfl rfl rfl rfl ⟨rfl, rfl, rfl, rfl, rfl, rfl, rfl, rfl, id⟩,
              h.post, h.hung, h.cid⟩
          · have hit : ∀ k, (getTrk (setTrk s j { getTrk s j with toCounter := none }) k).items =
                (getTrk s k).items := by intro k; rw [getTrk_setTrk]; grind
            simp only [restU, hit]
            rfl

end JoblibModel.ParallelProto
