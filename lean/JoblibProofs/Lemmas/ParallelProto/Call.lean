import JoblibProofs.Lemmas.ParallelProto.Loop
/-!
Whole calls: `genNext`, `drain` (`list(output)`), `callList` — ordered modes.
-/
namespace JoblibModel.ParallelProto

/-- Nothing in this call can fail: no failing task among its ids, no failing iterator step, no timeout. -/
structure NoFail (c : Cfg) (s : St) : Prop where
  tasks : ∀ id ∈ s.failIds, ¬ (s.base ≤ id ∧ id < s.base + s.spec.n)
  iter : s.spec.iterfail < 0
  timeout : c.timeout < 0

theorem NoFail.not_legit {c : Cfg} {s : St} (h : NoFail c s) (e : Exc) : ¬ Legit c s e := by
  intro hl
  cases e with
  | task id => exact h.tasks id hl.1 hl.2
  | iter pos => have := hl.1; have := h.iter; omega
  | timeout => have : 0 ≤ c.timeout := hl; have := h.timeout; omega
  | runtime => exact hl
  | attr => exact hl
  | key => exact hl

theorem NoFail.frame {c : Cfg} {s s' : St} (h : NoFail c s) (hf : Frame s s') : NoFail c s' :=
  ⟨by rw [hf.failIds, hf.base, hf.spec]; exact h.tasks, by rw [hf.spec]; exact h.iter, h.timeout⟩

theorem NoFail.not_aborting {c : Cfg} {t0 : Nat} {s : St} (h : NoFail c s) (hi : Inv c t0 s) :
    s.aborting = false := by
  cases hx : s.aborting with
  | false => rfl
  | true =>
    obtain ⟨i, hi', hs⟩ := hi.T.abort_err hx
    obtain ⟨e, _, hl⟩ := (hi.T.tok i hi').2 hs
    exact absurd hl (h.not_legit e)

/-- The generator object between two `next()` calls. -/
def GenGood (c : Cfg) (t0 : Nat) (fuel : Nat) (s : St) (g : Gen) : Prop :=
  ((g.phase = .start ∨ g.phase = .retrieve) ∧ GoodR c t0 s ∧ 1 ≤ fuel ∧
      (s.aborting = false → boundR c s ≤ fuel)) ∨
  (g.phase = .tail ∧ GoodT s g ∧ g.remaining.length + 1 ≤ fuel)

/-- What the generator is still going to yield. -/
def restG (s : St) (g : Gen) : List Nat := if g.phase = .tail then restT s g else g.buf ++ restS s

/-- `list(output)` of a call in which nothing fails: the values come out in the expected order, then the
generator stops and the object is left clean. -/
theorem drain_nofail {c : Cfg} (hc : CfgOK c) {t0 : Nat} (ho : ordered c = true) (fuel : Nat) :
    ∀ (n : Nat) (s : St) (g : Gen) (acc : List Nat), GenGood c t0 fuel s g →
      (g.phase ≠ .tail → NoFail c s) → (restG s g).length + 1 ≤ n →
      ∃ s' g', drain c n fuel s g acc = (s', g', acc ++ restG s g, .stop) ∧ Idle s' ∧ Clean s' ∧
        s'.exception = false ∧ s'.hung = false := by
  intro n
  induction n with
  | zero => intro s g acc _ _ hn; omega
  | succ n ih =>
    intro s g acc hg hnf hn
    unfold drain
    rcases hg with ⟨hph, hgr, hf1, hfb⟩ | ⟨hph, hgt, hft⟩
    · -- in the retrieval loop
      have hnt : g.phase ≠ .tail := by rcases hph with h | h <;> rw [h] <;> simp
      have hnofail := hnf hnt
      have hna := hnofail.not_aborting hgr.inv
      have hrG : restG s g = g.buf ++ restS s := by simp [restG, hnt]
      have key : ∃ g0 : Gen, genNext c fuel s g = retrieveLoop c fuel s g0 ∧ g0.buf = g.buf := by
        unfold genNext
        rcases hph with h | h
        · rw [h]; exact ⟨_, rfl, rfl⟩
        · rw [h]; exact ⟨_, rfl, rfl⟩
      obtain ⟨g0, hgn, hg0⟩ := key
      rw [hgn]
      have hp := retrieveLoop_spec hc ho fuel s g0 hgr hf1 hfb
      generalize retrieveLoop c fuel s g0 = res at hp
      obtain ⟨s1, g1, o⟩ := res
      cases o with
      | value v =>
        simp only
        obtain ⟨_, a2⟩ := hp
        rcases a2 with ⟨b1, b2, bf, b3, b4, _⟩ | ⟨b1, b2, b3, b4, b5, _, _⟩
        · have hnf1 := hnofail.frame bf
          have hna1 := hnf1.not_aborting b2.inv
          have hr := b3 hna1
          rw [hg0] at hr
          have hg1 : GenGood c t0 fuel s1 g1 := Or.inl ⟨Or.inr b1, b2, hf1, fun _ => by
            have := b4 hna1; have := hfb hna; omega⟩
          have hrG1 : restG s1 g1 = g1.buf ++ restS s1 := by simp [restG, b1]
          obtain ⟨s', g', e, r⟩ := ih s1 g1 (acc ++ [v]) hg1 (fun _ => hnf1)
            (by rw [hrG1]; rw [hrG, hr] at hn; simp only [List.length_cons] at hn; omega)
          exact ⟨s', g', by rw [e, hrG, hr, hrG1]; simp, r⟩
        · rw [hg0] at b4
          have hg1 : GenGood c t0 fuel s1 g1 := Or.inr ⟨b1, b2, by have := hfb hna; omega⟩
          have hrG1 : restG s1 g1 = restT s1 g1 := by simp [restG, b1]
          obtain ⟨s', g', e, r⟩ := ih s1 g1 (acc ++ [v]) hg1 (fun hx => absurd b1 hx)
            (by rw [hrG1]; rw [hrG, b4] at hn; simp only [List.length_cons] at hn; omega)
          exact ⟨s', g', by rw [e, hrG, b4, hrG1]; simp, r⟩
      | stop =>
        simp only
        obtain ⟨_, a2, a3, a4, _, a6, a7, _, _⟩ := hp
        rw [hg0] at a6
        exact ⟨s1, g1, by rw [hrG, a6]; simp, a2, a3, a4, a7⟩
      | raise e =>
        obtain ⟨_, _, _, _, a5, _, _⟩ := hp
        exact absurd a5 (hnofail.not_legit e)
      | hang => exact hp.elim
    · -- in the tail loop
      have hrG : restG s g = restT s g := by simp [restG, hph]
      have hgn : genNext c fuel s g = tailLoop fuel s g := by unfold genNext; rw [hph]
      rw [hgn]
      have hp := tailLoop_spec fuel s g hgt hft
      generalize tailLoop fuel s g = res at hp
      obtain ⟨s1, g1, o⟩ := res
      cases o with
      | value v =>
        simp only
        obtain ⟨a1, a2, a3, a4, _⟩ := hp
        have hg1 : GenGood c t0 fuel s1 g1 := Or.inr ⟨a1, a2, by omega⟩
        have hrG1 : restG s1 g1 = restT s1 g1 := by simp [restG, a1]
        obtain ⟨s', g', e, r⟩ := ih s1 g1 (acc ++ [v]) hg1 (fun hx => absurd a1 hx)
          (by rw [hrG1]; rw [hrG, a3] at hn; simp only [List.length_cons] at hn; omega)
        exact ⟨s', g', by rw [e, hrG, a3, hrG1]; simp, r⟩
      | stop =>
        simp only
        obtain ⟨_, a2, a3, a4, a5, _, _, a8, _, _⟩ := hp
        exact ⟨s1, g1, by rw [hrG, a5]; simp, a2, a3, a4, by rw [a8]; exact hgt.hung⟩
      | raise e => exact hp.elim
      | hang => exact hp.elim

/-- An upper bound on the number of values the generator can still yield. -/
def yieldsLeft (s : St) (g : Gen) : Nat :=
  if g.phase = .tail then (restT s g).length else g.buf.length + (restS s).length

/-- How a drained call can end (ordered modes, any failures): it returns the values collected, or raises a
legitimate exception; in both cases the object is left idle and clean, and it never hangs. -/
def DrainPost (c : Cfg) (s : St) : St × Gen × List Nat × Out → Prop
  | (s', _, _, .stop) => Idle s' ∧ Clean s' ∧ s'.exception = false ∧ s'.hung = false ∧
      ¬ (0 ≤ s.spec.iterfail ∧ s.spec.iterfail ≤ s.spec.n) ∧ s'.failIds = s.failIds
  | (s', _, _, .raise e) => Idle s' ∧ Clean s' ∧ s'.exception = true ∧ s'.hung = false ∧ Legit c s e ∧
      s'.failIds = s.failIds
  | (_, _, _, .value _) => False
  | (_, _, _, .hang) => False

/-- Draining a generator that is in its tail loop: it yields what is left and stops. -/
theorem drain_tail (c : Cfg) (fuel : Nat) : ∀ (n : Nat) (s : St) (g : Gen) (acc : List Nat),
    g.phase = .tail → GoodT s g → g.remaining.length + 1 ≤ fuel → (restT s g).length + 1 ≤ n →
    ∃ s' g', drain c n fuel s g acc = (s', g', acc ++ restT s g, .stop) ∧ Idle s' ∧ Clean s' ∧
      s'.exception = false ∧ s'.hung = false ∧ ¬ (0 ≤ s.spec.iterfail ∧ s.spec.iterfail ≤ s.spec.n) ∧
      s'.failIds = s.failIds := by
  intro n
  induction n with
  | zero => intro s g acc _ _ _ hn; omega
  | succ n ih =>
    intro s g acc hph hgt hft hn
    unfold drain
    have hgn : genNext c fuel s g = tailLoop fuel s g := by unfold genNext; rw [hph]
    rw [hgn]
    have hp := tailLoop_spec fuel s g hgt hft
    generalize tailLoop fuel s g = res at hp
    obtain ⟨s1, g1, o⟩ := res
    cases o with
    | value v =>
      simp only
      obtain ⟨a1, a2, a3, a4, _, _, _, _, _, a10⟩ := hp
      obtain ⟨s', g', e, r1, r2, r3, r4, _, r6⟩ := ih s1 g1 (acc ++ [v]) a1 a2 (by omega)
        (by rw [a3] at hn; simp only [List.length_cons] at hn; omega)
      exact ⟨s', g', by rw [e, a3]; simp, r1, r2, r3, r4, hgt.noiter, r6.trans a10⟩
    | stop =>
      simp only
      obtain ⟨_, a2, a3, a4, a5, _, _, a8, _, a10⟩ := hp
      exact ⟨s1, g1, by rw [a5]; simp, a2, a3, a4, by rw [a8]; exact hgt.hung, hgt.noiter, a10⟩
    | raise e => exact hp.elim
    | hang => exact hp.elim

theorem drain_general {c : Cfg} (hc : CfgOK c) {t0 : Nat} (ho : ordered c = true) (fuel : Nat) :
    ∀ (n : Nat) (s : St) (g : Gen) (acc : List Nat), GenGood c t0 fuel s g →
      yieldsLeft s g + 1 ≤ n → DrainPost c s (drain c n fuel s g acc) := by
  intro n
  induction n with
  | zero => intro s g acc _ hn; omega
  | succ n ih =>
    intro s g acc hg hn
    unfold drain
    rcases hg with ⟨hph, hgr, hf1, hfb⟩ | ⟨hph, hgt, hft⟩
    · have hnt : g.phase ≠ .tail := by rcases hph with h | h <;> rw [h] <;> simp
      have hyl : yieldsLeft s g = g.buf.length + (restS s).length := by simp [yieldsLeft, hnt]
      have key : ∃ g0 : Gen, genNext c fuel s g = retrieveLoop c fuel s g0 ∧ g0.buf = g.buf := by
        unfold genNext
        rcases hph with h | h
        · rw [h]; exact ⟨_, rfl, rfl⟩
        · rw [h]; exact ⟨_, rfl, rfl⟩
      obtain ⟨g0, hgn, hg0⟩ := key
      rw [hgn]
      have hp := retrieveLoop_spec hc ho fuel s g0 hgr hf1 hfb
      generalize retrieveLoop c fuel s g0 = res at hp
      obtain ⟨s1, g1, o⟩ := res
      cases o with
      | value v =>
        simp only
        obtain ⟨a1, a2⟩ := hp
        rcases a2 with ⟨b1, b2, bf, b3, b4, b6⟩ | ⟨b1, b2, b3, b4, b5, b7, b8⟩
        · have hg1 : GenGood c t0 fuel s1 g1 := Or.inl ⟨Or.inr b1, b2, hf1, fun ha1 => by
            have hna : s.aborting = false := by
              cases hx : s.aborting with
              | false => rfl
              | true => rw [a1 hx] at ha1; simp at ha1
            have := b4 ha1; have := hfb hna; omega⟩
          have hyl1 : yieldsLeft s1 g1 = g1.buf.length + (restS s1).length := by simp [yieldsLeft, b1]
          have := ih s1 g1 (acc ++ [v]) hg1 (by rw [hyl1]; rw [hg0] at b6; omega)
          generalize drain c n fuel s1 g1 (acc ++ [v]) = res at this
          obtain ⟨s', g', acc', o'⟩ := res
          cases o' with
          | stop =>
            obtain ⟨x1, x2, x3, x4, x5, x6⟩ := this
            exact ⟨x1, x2, x3, x4, by rw [← bf.spec]; exact x5, x6.trans bf.failIds⟩
          | raise e =>
            obtain ⟨x1, x2, x3, x4, x5, x6⟩ := this
            exact ⟨x1, x2, x3, x4, (Legit_congr bf.failIds bf.base bf.spec e).mp x5, x6.trans bf.failIds⟩
          | value _ => exact this
          | hang => exact this
        · rw [hg0] at b4
          have hlen : (g.buf ++ restS s).length = (restT s1 g1).length + 1 := by rw [b4]; simp
          obtain ⟨s', g', e, r1, r2, r3, r4, r5, r6⟩ := drain_tail c fuel n s1 g1 (acc ++ [v]) b1 b2
            (by have := hfb b3; omega) (by simp only [List.length_append] at hlen; omega)
          rw [e]
          exact ⟨r1, r2, r3, r4, by rw [← b7]; exact r5, r6.trans b8⟩
      | stop =>
        obtain ⟨_, a2, a3, a4, _, _, a7, a8, a9⟩ := hp
        exact ⟨a2, a3, a4, a7, a8, a9⟩
      | raise e =>
        obtain ⟨_, a2, a3, a4, a5, a6, a7⟩ := hp
        exact ⟨a2, a3, a4, a6, a5, a7⟩
      | hang => exact hp.elim
    · have hyl : yieldsLeft s g = (restT s g).length := by simp [yieldsLeft, hph]
      obtain ⟨s', g', e, r⟩ := drain_tail c fuel (n + 1) s g acc hph hgt hft (by omega)
      have : drain c (n + 1) fuel s g acc = (s', g', acc ++ restT s g, .stop) := e
      unfold drain at this
      rw [this]
      exact r

/-- Facts about the state in which `callStart` leaves a call that was accepted (no overlap). -/
structure Started (c : Cfg) (fuel base : Nat) (spec : CallSpec) (s s1 : St) : Prop where
  inv : Inv c s.trk.length s1
  frame : s1.base = base ∧ s1.spec = spec ∧ s1.failIds = s.failIds ∧ s1.callId = s.callCtr + 1 ∧
    s1.callCtr = s.callCtr + 1 ∧ s1.managed = s.managed ∧ s1.running = true ∧ s1.calling = true
  hung : s1.hung = s.hung
  sched_le : s1.sched.length ≤ s.sched.length
  meas_le : s1.aborting = false → meas c s1 ≤ s.parked.length + 2 * spec.n
  restS : ordered c = true → s1.aborting = false → restS s1 = List.range' base spec.n
  post : spec.n + 2 ≤ fuel → s.hung = false → (c.pdMode = 1 ∨ 1 ≤ c.pd) → Post s1
  nbc : s1.nbConsumed = 0
  invB : InvB c s.trk.length s1
  U : ordered c = false → InvU s.trk.length s1 ∧ (s1.aborting = false → restU s1 = List.range' base spec.n) ∧
    (JoblibModel.ParallelProto.restU s1).length ≤ spec.n
  rlen : ordered c = true → (JoblibModel.ParallelProto.restS s1).length ≤ spec.n

theorem callStart_started {c : Cfg} (hc : CfgOK c) (fuel base : Nat) (spec : CallSpec) {s : St} (hi : Idle s)
    (hh : s.hung = false) :
    ∃ s1, callStart c fuel base spec s = (s1, none) ∧ Started c fuel base spec s s1 := by
  obtain ⟨sF, he, hF⟩ := callStart_fresh c fuel base spec hi hh
  rw [he]
  refine ⟨_, rfl, ?_⟩
  have hs := start_spec hc (fuel := fuel) hF.inv
  have hf := hs.later.frame
  obtain ⟨z1, z2, z3, z4, z5, z6, z7, z8, z9, z10⟩ := hF.zero
  have hsub : sF.parked.length ≤ s.parked.length := hF.parked.length_le
  refine ⟨hs.inv, ⟨hf.base.trans hF.base, hf.spec.trans hF.spec, hf.failIds.trans hF.failIds,
      hf.callId.trans hF.callId, hf.callCtr.trans hF.callCtr, hf.managed.trans hF.managed,
      hf.running.trans hF.running, hf.calling.trans hF.calling⟩, hs.hung.trans hF.hung,
    Nat.le_trans hs.sched_le hF.sched, ?_, ?_, ?_, hs.later.nbc.trans z5, hs.B hF.invB, ?_, ?_⟩
  · intro ha
    have := hs.later.meas_le ha
    have e : meas c { sF with iterating := false } = sF.parked.length + 2 * spec.n := by
      simp only [meas, unpopped, work, z1, z2, z3, z4, hF.spec]
      by_cases ho : ordered c = true <;> simp [ho]
    omega
  · intro ho ha
    rw [hs.later.restS ho ha]
    simp only [restS, z1, z2, z3, hF.base, hF.spec]
    simp
  · intro hfu hhu hpd
    apply hs.post
    · simp only [work, z1, z2, hF.spec]; simp; omega
    · rw [hF.hung]; exact hhu
    · by_cases hm : c.pdMode = 1
      · exact Or.inl hm
      · right
        obtain ⟨x, y⟩ := hF.mode.2 hm
        refine ⟨x, c.pd, y, ?_⟩
        rcases hpd with hpd | hpd
        · exact absurd hpd hm
        · exact hpd
  · intro ho
    have hu := hs.U ho hF.invU
    have e : restU { sF with iterating := false } = List.range' base spec.n := by
      simp only [restU, z1, z2, z4, hF.base, hF.spec]
      simp
    refine ⟨hu.inv, fun ha => by rw [hu.rest ha, e], ?_⟩
    have := hu.rlen
    rw [e] at this
    simpa using this
  · intro ho
    have := hs.later.rlen ho
    have e : (JoblibModel.ParallelProto.restS { sF with iterating := false }).length = spec.n := by
      simp only [JoblibModel.ParallelProto.restS, z1, z2, z3, hF.spec]
      simp
    omega

/-- `Parallel.__call__` with `return_as='list'` on an idle object, when nothing can fail: it returns the
results of all tasks in submission order, for every schedule, and leaves the object idle and clean. -/
theorem callList_nofail {c : Cfg} (hc : CfgOK c) (ho : ordered c = true) {fuel base : Nat} {spec : CallSpec}
    {s : St} (hi : Idle s) (hh : s.hung = false) (hpd : c.pdMode = 1 ∨ 1 ≤ c.pd)
    (hnf1 : ∀ id ∈ s.failIds, ¬ (base ≤ id ∧ id < base + spec.n)) (hnf2 : spec.iterfail < 0)
    (hnf3 : c.timeout < 0)
    (hfuel : 2 * spec.n + s.sched.length + s.parked.length + 2 ≤ fuel) :
    ∃ s', callList c fuel base spec s = (s', .ret (List.range' base spec.n)) ∧ Idle s' ∧ Clean s' ∧
      s'.hung = false ∧ s'.exception = false := by
  obtain ⟨s1, he, hS⟩ := callStart_started hc fuel base spec hi hh
  unfold callList
  rw [he]
  simp only
  rw [if_neg (by rw [hS.hung, hh]; simp)]
  obtain ⟨f1, f2, f3, f4, f5, _, _, _⟩ := hS.frame
  have hnf : NoFail c s1 := ⟨by rw [f3, f1, f2]; exact hnf1, by rw [f2]; exact hnf2, hnf3⟩
  have hna := hnf.not_aborting hS.inv
  have hgr : GoodR c s.trk.length s1 :=
    ⟨hS.inv, hS.post (by omega) hh hpd, by rw [hS.hung]; exact hh, by rw [f4, f5]⟩
  have hgg : GenGood c s.trk.length fuel s1 {} := by
    left
    refine ⟨Or.inl rfl, hgr, by omega, fun _ => ?_⟩
    have := hS.meas_le hna
    have := hS.sched_le
    simp only [boundR]; omega
  have hrest : restG s1 {} = List.range' base spec.n := by
    simp only [restG]
    rw [if_neg (by simp)]
    simp only [List.nil_append]
    exact hS.restS ho hna
  obtain ⟨s', g', e, r1, r2, r3, r4⟩ := drain_nofail hc ho fuel fuel s1 {} [] hgg (fun _ => hnf)
    (by rw [hrest]; simp; omega)
  rw [e]
  simp only [List.nil_append, hrest]
  exact ⟨s', rfl, r1, r2, r4, r3⟩

/-- How a list-mode call on an idle object can end (ordered modes, anything may fail): it returns, or raises an
exception that one of its own tasks / its input iterable / the caller's timeout legitimately produced; the
object is left idle and clean either way; it never hangs (given enough fuel). -/
def CallPost (c : Cfg) (base : Nat) (spec : CallSpec) (s : St) : St × CallOutcome → Prop
  | (s', .ret _) => Idle s' ∧ Clean s' ∧ s'.hung = false ∧ s'.exception = false ∧
      ¬ (0 ≤ spec.iterfail ∧ spec.iterfail ≤ spec.n) ∧ s'.failIds = s.failIds
  | (s', .raised e) => Idle s' ∧ Clean s' ∧ s'.hung = false ∧ s'.exception = true ∧
      Legit c { s with base := base, spec := spec } e ∧ s'.failIds = s.failIds
  | (_, .hung) => False

theorem callList_general {c : Cfg} (hc : CfgOK c) (ho : ordered c = true) {fuel base : Nat} {spec : CallSpec}
    {s : St} (hi : Idle s) (hh : s.hung = false) (hpd : c.pdMode = 1 ∨ 1 ≤ c.pd)
    (hfuel : 2 * spec.n + s.sched.length + s.parked.length + 2 ≤ fuel) :
    CallPost c base spec s (callList c fuel base spec s) := by
  obtain ⟨s1, he, hS⟩ := callStart_started hc fuel base spec hi hh
  unfold callList
  rw [he]
  simp only
  rw [if_neg (by rw [hS.hung, hh]; simp)]
  obtain ⟨f1, f2, f3, f4, f5, _, _, _⟩ := hS.frame
  have hgr : GoodR c s.trk.length s1 :=
    ⟨hS.inv, hS.post (by omega) hh hpd, by rw [hS.hung]; exact hh, by rw [f4, f5]⟩
  have hgg : GenGood c s.trk.length fuel s1 {} := by
    left
    refine ⟨Or.inl rfl, hgr, by omega, fun hna => ?_⟩
    have := hS.meas_le hna
    have := hS.sched_le
    simp only [boundR]; omega
  have hyl : yieldsLeft s1 {} ≤ spec.n := by
    simp only [yieldsLeft]
    rw [if_neg (by simp)]
    simp only [List.length_nil, Nat.zero_add]
    exact hS.rlen ho
  have hp := drain_general hc ho fuel fuel s1 {} [] hgg (by omega)
  generalize drain c fuel fuel s1 {} [] = res at hp
  obtain ⟨s', g', acc, o⟩ := res
  cases o with
  | stop => exact ⟨hp.1, hp.2.1, hp.2.2.2.1, hp.2.2.1, by rw [← f2]; exact hp.2.2.2.2.1, hp.2.2.2.2.2.trans f3⟩
  | raise e =>
    obtain ⟨x1, x2, x3, x4, x5, x6⟩ := hp
    exact ⟨x1, x2, x4, x3, by
      have : Legit c s1 e ↔ Legit c { s with base := base, spec := spec } e :=
        Legit_congr (s := { s with base := base, spec := spec }) (s' := s1) f3 f1 f2 e
      exact this.mp x5, x6.trans f3⟩
  | value _ => exact hp.elim
  | hang => exact hp.elim

end JoblibModel.ParallelProto
