import JoblibModel.ParallelStartup
import JoblibProofs.Lemmas.ParallelProto
import JoblibProofs.Lemmas.ParallelSeq
/-!
Start-up failures of a `Parallel` call (F52): what `failedStart` leaves behind, with and without the guard of
`Parallel.__call__`; the extended scenario runners coincide with the old ones when no fault is placed.
-/
namespace JoblibModel.ParallelStartup
open JoblibModel.ParallelProto JoblibModel.ParallelSeq

theorem resetRun_eq (s : St) : resetRun s = resetState s := rfl

/-- `failedStart` branch by branch, in terms of the `resetState` / `configured` of the `callStart` lemmas. -/
theorem failedStart_eq (c : Cfg) (guard : Bool) (f : Fault) (base : Nat) (spec : CallSpec) (s : St) :
    failedStart c guard f base spec s =
      if f.kind == 1 then guardCleanup guard (resetState s)
      else if f.kind == 2 then guardCleanup guard (configured c (resetState s))
      else if f.kind == 3 then guardCleanup guard { configured c (resetState s) with ready := [] }
      else if f.kind == 4 then guardCleanup guard (ev { configured c (resetState s) with ready := [] } "start_call")
      else if f.kind == 5 then
        guardCleanup guard { ev { configured c (resetState s) with ready := [] } "start_call" with calling := true }
      else guardCleanup guard
        { ev { configured c (resetState s) with ready := [] } "start_call" with
          calling := true, base := base, spec := spec, srcPos := 0, srcDead := false, origAlive := true } := rfl

/-- The guard: `_running = False`, then `_terminate_and_reset` (`stop_call` if `_calling`, `_calling = False`,
`terminate` unless managed) — nothing else of the object is touched. -/
theorem guardCleanup_true (X : St) (hr : X.running = true) :
    ∃ lg, guardCleanup true X = { X with running := false, calling := false, log := lg } ∧
      lg = (if X.managed then [] else ["terminate"]) ++ (if X.calling then ["stop_call"] else []) ++ X.log := by
  unfold guardCleanup terminateAndReset ev
  simp only [hr, Bool.and_self, if_true]
  cases hc : X.calling <;> cases hm : X.managed <;> simp

theorem guardCleanup_false (X : St) : guardCleanup false X = X := by
  simp [guardCleanup]

/-- The state in which the failing statement of `_start_call` is reached (before the guard), relative to the idle
state `s` the call started from: a new call id was drawn, the counters and flags were reset, `_running` is set;
nothing was dispatched (tracker table, job queues untouched), the backend only lost parked batches of earlier calls
(completed as no-ops during `configure`). -/
structure Pre (s X : St) : Prop where
  running : X.running = true
  jobs : X.jobs = s.jobs
  jobsSet : X.jobsSet = s.jobsSet
  trk : X.trk = s.trk
  failIds : X.failIds = s.failIds
  hung : X.hung = s.hung
  managed : X.managed = s.managed
  now : X.now = s.now
  callId : X.callId = s.callCtr + 1
  callCtr : X.callCtr = s.callCtr + 1
  parked : X.parked.Sublist s.parked
  sched : X.sched.length ≤ s.sched.length
  zero : X.nDispTasks = 0 ∧ X.nDispBatches = 0 ∧ X.nCompleted = 0 ∧ X.nbConsumed = 0
  flags : X.aborting = false ∧ X.exception = false ∧ X.aborted = false

/-- The state a failed start-up leaves (with the guard). -/
structure Post (s s' : St) : Prop where
  running : s'.running = false
  calling : s'.calling = false
  jobs : s'.jobs = s.jobs
  jobsSet : s'.jobsSet = s.jobsSet
  trk : s'.trk = s.trk
  failIds : s'.failIds = s.failIds
  hung : s'.hung = s.hung
  managed : s'.managed = s.managed
  now : s'.now = s.now
  callId : s'.callId = s.callCtr + 1
  callCtr : s'.callCtr = s.callCtr + 1
  parked : s'.parked.Sublist s.parked
  sched : s'.sched.length ≤ s.sched.length
  zero : s'.nDispTasks = 0 ∧ s'.nDispBatches = 0 ∧ s'.nCompleted = 0 ∧ s'.nbConsumed = 0
  flags : s'.aborting = false ∧ s'.exception = false ∧ s'.aborted = false

theorem Pre.post {s X : St} (h : Pre s X) : Post s (guardCleanup true X) := by
  obtain ⟨lg, e, _⟩ := guardCleanup_true X h.running
  rw [e]
  exact ⟨rfl, rfl, h.jobs, h.jobsSet, h.trk, h.failIds, h.hung, h.managed, h.now, h.callId, h.callCtr, h.parked,
    h.sched, h.zero, h.flags⟩

/-- Whatever the fault, the statement it breaks is reached in a `Pre` state; from `iter(iterable)` on (kinds 5–7)
`_calling` is set there, and `start_call` was the last thing the backend was told. -/
theorem failedStart_pre (c : Cfg) (guard : Bool) (f : Fault) (base : Nat) (spec : CallSpec) {s : St} (hi : Idle s) :
    ∃ X, failedStart c guard f base spec s = guardCleanup guard X ∧ Pre s X ∧
      (5 ≤ f.kind → X.calling = true ∧ X.log.head? = some "start_call") := by
  have hstale : AllStale (resetState s) := by
    intro i _
    have := hi.callId_le i
    show (getTrk s i).callId ≠ s.callCtr + 1
    omega
  obtain ⟨lg, pk, sc, ib, eC, hpk, hsc⟩ := configured_stale c hstale
  rw [failedStart_eq]
  by_cases h1 : (f.kind == 1) = true
  · rw [if_pos h1]
    have hk : f.kind = 1 := by simpa using h1
    exact ⟨_, rfl, ⟨rfl, rfl, rfl, rfl, rfl, rfl, rfl, rfl, rfl, rfl, List.Sublist.refl _, Nat.le_refl _,
      ⟨rfl, rfl, rfl, rfl⟩, ⟨rfl, rfl, rfl⟩⟩, fun h => by omega⟩
  rw [if_neg h1]
  by_cases h2 : (f.kind == 2) = true
  · rw [if_pos h2]
    have hk : f.kind = 2 := by simpa using h2
    refine ⟨_, rfl, ?_, fun h => by omega⟩
    rw [eC]
    exact ⟨rfl, rfl, rfl, rfl, rfl, rfl, rfl, rfl, rfl, rfl, hpk, hsc, ⟨rfl, rfl, rfl, rfl⟩, ⟨rfl, rfl, rfl⟩⟩
  rw [if_neg h2]
  by_cases h3 : (f.kind == 3) = true
  · rw [if_pos h3]
    have hk : f.kind = 3 := by simpa using h3
    refine ⟨_, rfl, ?_, fun h => by omega⟩
    rw [eC]
    exact ⟨rfl, rfl, rfl, rfl, rfl, rfl, rfl, rfl, rfl, rfl, hpk, hsc, ⟨rfl, rfl, rfl, rfl⟩, ⟨rfl, rfl, rfl⟩⟩
  rw [if_neg h3]
  by_cases h4 : (f.kind == 4) = true
  · rw [if_pos h4]
    have hk : f.kind = 4 := by simpa using h4
    refine ⟨_, rfl, ?_, fun h => by omega⟩
    rw [eC]
    exact ⟨rfl, rfl, rfl, rfl, rfl, rfl, rfl, rfl, rfl, rfl, hpk, hsc, ⟨rfl, rfl, rfl, rfl⟩, ⟨rfl, rfl, rfl⟩⟩
  rw [if_neg h4]
  by_cases h5 : (f.kind == 5) = true
  · rw [if_pos h5]
    refine ⟨_, rfl, ?_, fun _ => ⟨rfl, rfl⟩⟩
    rw [eC]
    exact ⟨rfl, rfl, rfl, rfl, rfl, rfl, rfl, rfl, rfl, rfl, hpk, hsc, ⟨rfl, rfl, rfl, rfl⟩, ⟨rfl, rfl, rfl⟩⟩
  rw [if_neg h5]
  refine ⟨_, rfl, ?_, fun _ => ⟨rfl, rfl⟩⟩
  rw [eC]
  exact ⟨rfl, rfl, rfl, rfl, rfl, rfl, rfl, rfl, rfl, rfl, hpk, hsc, ⟨rfl, rfl, rfl, rfl⟩, ⟨rfl, rfl, rfl⟩⟩

/-- A `Post` state reached from an idle state is idle and clean. -/
theorem Post.idle {s s' : St} (h : Post s s') (hi : Idle s) : Idle s' := by
  have hg : ∀ j, getTrk s' j = getTrk s j := fun j => getTrk_same h.trk j
  refine ⟨h.running, by rw [h.jobs]; exact hi.jobs, by rw [h.jobsSet]; exact hi.jobsSet, ?_, ?_, ?_, ?_⟩
  · intro j; rw [hg, h.callCtr]; have := hi.callId_le j; omega
  · intro j hj; rw [h.trk]; exact hi.parked_lt j (h.parked.subset hj)
  · exact hi.parked_nodup.sublist h.parked
  · refine Or.inr ?_
    intro j _
    rw [hg, h.callId]
    have := hi.callId_le j
    omega

theorem Post.clean {s s' : St} (h : Post s s') (hi : Idle s) : Clean s' :=
  ⟨h.running, by rw [h.jobs]; exact hi.jobs, by rw [h.jobsSet]; exact hi.jobsSet, h.calling⟩

/-- FAILED START, with the guard: the object is left as `Post` describes. -/
theorem failedStart_post (c : Cfg) (f : Fault) (base : Nat) (spec : CallSpec) {s : St} (hi : Idle s) :
    Post s (failedStart c true f base spec s) := by
  obtain ⟨X, e, hP, _⟩ := failedStart_pre c true f base spec hi
  rw [e]
  exact hP.post

/-- FAILED START, without the guard (the code before the F52 repair): `_running` stays set. -/
theorem failedStart_unguarded_running (c : Cfg) (f : Fault) (base : Nat) (spec : CallSpec) {s : St} (hi : Idle s) :
    (failedStart c false f base spec s).running = true := by
  obtain ⟨X, e, hP, _⟩ := failedStart_pre c false f base spec hi
  rw [e, guardCleanup_false]
  exact hP.running

/-! ### conservativity: without faults the extended runners are the old ones -/

theorem reached_none (s : St) : reached {} s = false := by
  simp [reached, reachedCommon]

theorem reachedCommon_none (s : St) : reachedCommon {} s = false := by
  simp [reachedCommon]

theorem runCallF_nofault (c : Cfg) (guard : Bool) (fuel base : Nat) (spec : CallSpec) (s : St) :
    runCallF c guard fuel base spec {} s =
      if isGen c then runCallGen c fuel base spec s else runCallList c fuel base spec s := by
  unfold runCallF
  rw [reached_none]
  simp

theorem runCallsF_nofault (c : Cfg) (guard : Bool) (fuel : Nat) :
    ∀ (calls : List CallSpec) (k base : Nat) (s : St),
      runCallsF c guard fuel k base (calls.map (fun cs => (cs, ({} : Fault)))) s = runCalls c fuel k base calls s := by
  intro calls
  induction calls with
  | nil => intro k base s; rfl
  | cons spec rest ih =>
    intro k base s
    simp only [List.map_cons, runCallsF, runCalls]
    by_cases hh : s.hung = true
    · simp [hh]
    · simp only [hh, if_false, Bool.false_eq_true]
      rw [runCallF_nofault, ih]

theorem map_fst_nofault (calls : List CallSpec) :
    (calls.map (fun cs => (cs, ({} : Fault)))).map (·.1) = calls := by
  induction calls with
  | nil => rfl
  | cons a r ih => simp only [List.map_cons, ih]

/-- CONSERVATIVE EXTENSION. A scenario without start-up faults (and the guard switch in either position: the guard
is only ever entered by a failing start-up... of which there is none) has exactly the event log of the old `runScenario`. -/
theorem runScenarioF_nofault (c : Cfg) (guard : Bool) (calls : List CallSpec) (sched : List (List Nat)) :
    runScenarioF c guard {} (calls.map (fun cs => (cs, ({} : Fault)))) sched = runScenario c calls sched := by
  unfold runScenarioF runScenario enterBlock
  simp only [map_fst_nofault, runCallsF_nofault]
  simp

theorem seqRunCallF_nofault (c : Cfg) (guard : Bool) (fuel base : Nat) (spec : CallSpec) (s : St) :
    seqRunCallF c guard fuel base spec {} s =
      if isGen c then seqRunCallGen c fuel base spec s else seqRunCallList c fuel base spec s := by
  unfold seqRunCallF
  rw [reachedCommon_none]
  simp

theorem seqRunCallsF_nofault (c : Cfg) (guard : Bool) (fuel : Nat) :
    ∀ (calls : List CallSpec) (k base : Nat) (s : St),
      seqRunCallsF c guard fuel k base (calls.map (fun cs => (cs, ({} : Fault)))) s = seqRunCalls c fuel k base calls s := by
  intro calls
  induction calls with
  | nil => intro k base s; rfl
  | cons spec rest ih =>
    intro k base s
    simp only [List.map_cons, seqRunCallsF, seqRunCalls]
    rw [seqRunCallF_nofault, ih]

theorem runScenarioSeqF_nofault (c : Cfg) (guard : Bool) (calls : List CallSpec) (sched : List (List Nat)) :
    runScenarioSeqF c guard {} (calls.map (fun cs => (cs, ({} : Fault)))) sched = runScenarioSeq c calls sched := by
  unfold runScenarioSeqF runScenarioSeq enterBlock
  simp only [map_fst_nofault, seqRunCallsF_nofault]
  simp

/-! ### histories: calls, failed start-ups and between-calls hook points in any order -/

/-- The states a `Parallel` object can be in after any history, starting from `s₀`, of list-mode calls (any input:
failing tasks, failing iterator step, timeout, any schedule; the call may return or raise), failed start-ups (any fault,
code with the guard) and hook points between calls (late completions of earlier calls). -/
inductive Reach (c : Cfg) (s₀ : St) : St → Prop
  | start : Reach c s₀ s₀
  | call {s : St} (fuel base : Nat) (spec : CallSpec) : Reach c s₀ s →
      2 * spec.n + s.sched.length + s.parked.length + 2 ≤ fuel → Reach c s₀ (callList c fuel base spec s).1
  | failed {s : St} (f : Fault) (base : Nat) (spec : CallSpec) : Reach c s₀ s →
      Reach c s₀ (failedStart c true f base spec s)
  | between {s : St} : Reach c s₀ s → Reach c s₀ (hook c false s)

/-- Every history ends in an idle object (nothing hung, same table of failing task ids). -/
theorem Reach.idle {c : Cfg} (hc : CfgOK c) (hpd : c.pdMode = 1 ∨ 1 ≤ c.pd) {s₀ s : St} (hi : Idle s₀)
    (hh : s₀.hung = false) (hr : Reach c s₀ s) : Idle s ∧ s.hung = false ∧ s.failIds = s₀.failIds := by
  induction hr with
  | start => exact ⟨hi, hh, rfl⟩
  | call fuel base spec _ hfuel ih =>
    have h := callList_general_all hc (base := base) (spec := spec) ih.1 ih.2.1 hpd hfuel
    generalize callList c fuel base spec _ = r at h
    obtain ⟨s', o⟩ := r
    cases o with
    | ret v => exact ⟨h.1, h.2.2.1, h.2.2.2.2.2.trans ih.2.2⟩
    | raised e => exact ⟨h.1, h.2.2.1, h.2.2.2.2.2.trans ih.2.2⟩
    | hung => exact h.elim
  | failed f base spec _ ih =>
    have hP := failedStart_post c f base spec ih.1
    exact ⟨hP.idle ih.1, hP.hung.trans ih.2.1, hP.failIds.trans ih.2.2⟩
  | between _ ih =>
    obtain ⟨⟨lg, pk, sc, ib, e, _, _⟩, h2⟩ := between_calls_noop c ih.1
    exact ⟨h2, by rw [e]; exact ih.2.1, by rw [e]; exact ih.2.2⟩

/-- The sequential path: `iter(iterable)` raising inside the output generator (`failed`) leaves the object idle. -/
theorem seq_iter_fault_idle (c : Cfg) (base : Nat) (spec : CallSpec) {s : St} (hi : Idle s) :
    ∃ s1 bs, seqStart c base spec s = (s1, { bs := bs }, none) ∧ Idle (failed s1) ∧ (failed s1).exception = true ∧
      (failed s1).trk = s.trk ∧ (failed s1).nCompleted = 0 ∧ (failed s1).hung = s.hung ∧
      (failed s1).failIds = s.failIds ∧ (failed s1).calling = s.calling := by
  obtain ⟨s1, bs, he, hI, hS⟩ := seqStart_spec c base spec hi
  refine ⟨s1, bs, he, ?_, rfl, hS.trk, hS.zero.1, hS.hung, hS.failIds, hS.calling⟩
  exact idle_after hi hS ⟨rfl, rfl, rfl, rfl, rfl, rfl, rfl, rfl, rfl, rfl, rfl, rfl, rfl, rfl⟩ rfl

end JoblibModel.ParallelStartup
