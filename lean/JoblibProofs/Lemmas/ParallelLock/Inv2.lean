import JoblibProofs.Lemmas.ParallelLock.Abort
/-!
M1L proofs — the second invariant `Inv2 c s` (functional correctness of the retrieval protocol): error flags vs tracker
statuses, registered results, the popped prefix and the output, `_iterating` / `_original_iterator`, the facts the
caller has established at each point of `_wait_retrieval`, the exit of the retrieval loop, and the outcome of the call.
Preserved by every step (`step_inv2`), assuming the core invariant `Inv`.
-/
namespace JoblibModel.ParallelLock

/-- The code variants for which the full statements hold: the repaired `_wait_retrieval` (`recheck`), or an input
iterable that never raises. -/
def Safe (c : Cfg) : Prop := c.recheck = true ∨ c.iterfail = none

/-- Domain of the functional theorems: `pre_dispatch` is `'all'` or evaluates to at least 1 (0 is finding F11). -/
def PdOK (c : Cfg) : Prop := c.pdMode = 1 ∨ 1 ≤ c.pd

/-- An exception the call may legitimately raise: the one of a failing task, or the input iterable's. -/
def LegitErr (c : Cfg) (e : Exc) : Prop :=
  (∃ id, e = .task id ∧ id ∈ c.fails) ∨ (∃ p, e = .iter p ∧ c.iterfail = some p)

/-- The caller is past `backend.abort_everything` / re-raising (or has finished). -/
def Pc.inAbort : Pc → Bool
  | .abortCall _ | .finExc (some _) | .finJobsR (some _) | .finJobsW (some _) _ | .done => true
  | _ => false

/-- The caller itself has set `_exception`. -/
def Pc.inExc : Pc → Bool
  | .abortW _ => true
  | p => p.inAbort

/-- The caller is handling an exception (or has finished). -/
def Pc.excPath : Pc → Bool
  | .excW _ => true
  | p => p.inExc

/-- The first `dispatch_one_batch` of `_start` has not reached the lock yet. -/
def Pc.firstPhase : Pc → Bool
  | .dPre .first | .dBs .first | .dAcq .first _ => true
  | _ => false

/-- After the first `dispatch_one_batch` returned False, or after `self._iterating = … is not None` was executed. -/
def Pc.afterFirst : Pc → Bool
  | .dIn _ | .dSubmit .first _ | .dRel .first true | .itAcq => false
  | p => !(p.preDispatch || p.firstPhase)

/-- After `self._original_iterator = …` in `__call__`. -/
def Pc.pastWOrig : Pc → Bool
  | .resetAcq | .resetRel | .wNDisp | .wNComp | .wExc0 | .wAbort0 | .readyAcq | .readyRel | .wOrig => false
  | _ => true

/-- After the `while self.dispatch_one_batch(iterator)` loop of `_start`. -/
def Pc.postLoop : Pc → Bool
  | .dPre _ | .dBs _ | .dAcq _ _ | .dIn _ | .dSubmit _ _ | .dRel .first _ | .dRel .loop true | .itAcq | .itRel => false
  | p => !p.preDispatch

/-- The callback thread is inside `dispatch_next` (it owns the lock and saw `_original_iterator is not None`). -/
def CbPc.inNext : CbPc → Bool
  | .bsC | .submitC _ => true
  | _ => false

/-- The normal exit of the retrieval loop has been taken. -/
def Pc.exiting : Pc → Bool
  | .finExc none | .finJobsR none | .finJobsW none _ | .tailStatus _ _ => true
  | _ => false

/-- `self._jobs` has not been rebound yet. -/
def Pc.beforeFinW : Pc → Bool
  | .finJobsW _ _ | .tailStatus _ _ | .done => false
  | _ => true

/-- Number of trackers whose results the consumer has received (all of them are below this index). -/
def unread (s : St) : Nat :=
  match s.pc with
  | .popRel _ | .resStatus _ => s.nPop - 1
  | .tailStatus i _ => i
  | _ => s.nPop

/-- Nothing was ever dispatched and nothing ever will be: the input was empty. -/
def Stuck (s : St) : Prop := allItems s = [] ∧ s.ready = [] ∧ s.srcDead = true

/-- Every batch has been counted as completed and its callback is past `dispatch_next`. -/
def Quiet (s : St) : Prop := ∀ t ∈ s.trk, t.items ≠ [] → t.pc = .relC ∨ t.pc = .done true

/-- The retrieval loop has been left normally and nothing can be dispatched any more. -/
def Exited (s : St) : Prop := Quiet s ∧ (s.origAlive = false ∨ Stuck s)

/-- No tracker for an error of the input iterable. -/
def NoErr (s : St) : Prop := ∀ t ∈ s.trk, t.items ≠ []

/-- Error flags versus tracker statuses. -/
structure FlagInv (s : St) : Prop where
  errFlags : ∀ t ∈ s.trk, t.status = .error → s.aborting = true ∧ s.exception = true
  aborting : s.aborting = true → (∃ t ∈ s.trk, t.status = .error) ∨ s.pc.inAbort = true
  exception : s.exception = true → (∃ t ∈ s.trk, t.status = .error) ∨ s.pc.inExc = true
  raised : s.srcRaised = true → ∃ t ∈ s.trk, t.items = []

/-- Registered results. -/
structure ResInv (c : Cfg) (s : St) : Prop where
  done : s.pc.excPath = false → ∀ j, unread s ≤ j → j < s.trk.length → (getT s.trk j).status = .done →
    (getT s.trk j).result = .vals (getT s.trk j).items
  error : s.pc.excPath = false → ∀ j, unread s ≤ j → j < s.trk.length → (getT s.trk j).status = .error →
    ∃ e, (getT s.trk j).result = .exc e ∧ LegitErr c e

/-- The popped prefix, the output and `_jobs`. -/
structure ReadInv (s : St) : Prop where
  prefixDone : s.pc.excPath = false → ∀ j, j < unread s → j < s.trk.length → (getT s.trk j).status = .done
  out : s.pc.excPath = false → s.out = ((s.trk.take (unread s)).map (·.items)).flatten
  nPopLe : s.nPop ≤ s.trk.length
  jobs : s.pc.beforeFinW = true → s.jobs = List.range' s.nPop (s.trk.length - s.nPop)

/-- `_iterating` and `_original_iterator`. -/
structure IterInv (c : Cfg) (s : St) : Prop where
  allMode : c.pdMode = 1 → s.origAlive = false
  allPre : c.pdMode = 1 → s.pc.pastWOrig = true → s.preLeft = none
  afterFirst : s.pc.afterFirst = true → s.iterating = false → s.origAlive = false ∨ Stuck s
  origDead : s.aborting = false → s.pc.pastWOrig = true → c.pdMode ≠ 1 → s.origAlive = false →
    s.ready = [] ∧ s.srcDead = true
  allDead : s.aborting = false → c.pdMode = 1 → s.pc.postLoop = true → s.ready = [] ∧ s.srcDead = true
  bsC : ∀ t ∈ s.trk, t.pc.inNext = true → s.origAlive = true

/-- The set-up of `__call__` has run up to the first `dispatch_one_batch`. -/
def Pre0 (c : Cfg) (s : St) : Prop :=
  (c.pdMode = 1 → s.preLeft = none) ∧ (c.pdMode ≠ 1 → s.origAlive = true ∧ s.preLeft = some c.pd)

def First (c : Cfg) (s : St) : Prop :=
  Fresh s ∧ s.iterating = false ∧ s.aborting = false ∧ s.exception = false ∧ Pre0 c s

/-- What the caller knows at its current program point (facts about its locals and about what it has observed). -/
def LocOK (c : Cfg) (s : St) : Prop :=
  match s.pc with
  | .resetAcq => s.running = false
  | .wAbort0 => s.exception = false
  | .readyAcq | .readyRel | .wOrig => s.aborting = false ∧ s.exception = false
  | .wIter0 => s.aborting = false ∧ s.exception = false ∧ Pre0 c s
  | .dPre .first | .dBs .first => First c s
  | .dAcq .first bs => First c s ∧ 1 ≤ bs
  | .dAcq .loop bs => 1 ≤ bs
  | .wIterAll => c.pdMode = 1
  | .refAcq => s.aborting = true
  | .wtNComp => s.origAlive = false ∨ Stuck s
  | .wtNDisp nc => (s.origAlive = false ∨ Stuck s) ∧ nc ≤ s.nCompleted
  | .wtAbort2 => Exited s
  | .rtHead => s.nPop < s.trk.length
  | .rtStatus i => i = s.nPop ∧ i < s.trk.length
  | .popAcq => s.nPop < s.trk.length ∧ (getT s.trk s.nPop).status ≠ .pending
  | .popRel i | .resStatus i => i + 1 = s.nPop ∧ i < s.trk.length ∧ (getT s.trk i).status ≠ .pending
  | .refRel none => False
  | .refRel (some i) | .refStatus i => s.nPop ≤ i ∧ i < s.trk.length ∧ (getT s.trk i).status = .error
  | .excW e | .abortW e | .abortCall e | .finExc (some e) | .finJobsR (some e) | .finJobsW (some e) _ => LegitErr c e
  | .finExc none | .finJobsR none => Exited s ∧ (Safe c → NoErr s)
  | .finJobsW none rem => Exited s ∧ (Safe c → NoErr s) ∧
      (rem = [] ∨ rem = List.range' s.nPop (s.trk.length - s.nPop)) ∧
      (Safe c → rem = List.range' s.nPop (s.trk.length - s.nPop))
  | .tailStatus i rem => Exited s ∧ (Safe c → NoErr s) ∧ i :: rem = List.range' i (s.trk.length - i)
  | _ => True

/-- What holds once the call has returned the list `l` (stable under the remaining steps of the other threads). -/
def Final (c : Cfg) (s : St) (l : List Nat) : Prop :=
  Exited s ∧ (Safe c → l = List.range' 0 c.n ∧ NoErr s ∧ allItems s = List.range' 0 c.n ∧
    s.srcDead = true ∧ s.srcRaised = false)

/-- The outcome of the call. -/
structure OutInv (c : Cfg) (s : St) : Prop where
  ret : ∀ l, s.outcome = some (.ret l) → Final c s l
  raised : ∀ e, s.outcome = some (.raised e) → LegitErr c e
  noOutcome : s.pc ≠ .done → s.outcome = none

structure Inv2 (c : Cfg) (s : St) : Prop where
  F : FlagInv s
  R : ResInv c s
  D : ReadInv s
  I : IterInv c s
  L : LocOK c s
  O : OutInv c s

theorem inv2_init (c : Cfg) : Inv2 c init := by
  refine ⟨⟨?_, ?_, ?_, ?_⟩, ⟨?_, ?_⟩, ⟨?_, ?_, ?_, ?_⟩, ⟨?_, ?_, ?_, ?_, ?_, ?_⟩, ?_, ⟨?_, ?_, ?_⟩⟩ <;>
    simp [init, unread, LocOK, Pc.excPath, Pc.inExc, Pc.inAbort, Pc.afterFirst, Pc.preDispatch, Pc.firstPhase,
      Pc.pastWOrig, Pc.postLoop, Pc.beforeFinW]

end JoblibModel.ParallelLock
