import JoblibProofs.Lemmas.ParallelLock.Inv
/-!
M1L proofs — `pull` and the locked region of `dispatch_one_batch`: an exhaustive case characterisation
(`dispatchLocked_cases`) with explicit post-states, from which every invariant is derived by case analysis.
-/
namespace JoblibModel.ParallelLock

/-- The state after `_dispatch(tasks)` up to `backend.submit` (lock held). -/
def mkDisp (s : St) (tasks : List Nat) : St :=
  { s with nDispTasks := s.nDispTasks + tasks.length,
           trk := s.trk ++ [{ items := tasks, bsize := tasks.length, callId := s.callId }],
           jobs := s.jobs ++ [s.trk.length] }

/-- `self._ready_batches` after a `get` / the `put`s. -/
def setReady (s : St) (r : List (List Nat)) : St := { s with ready := r }

/-- The state after one `pull`. -/
def mkPull (s : St) (m : Nat) (evs : List Ev) (dead raised : Bool) (pl : Option Nat) : St :=
  { s with log := evs ++ s.log, srcPos := s.srcPos + m, srcDead := dead, srcRaised := raised, preLeft := pl }

/-- Facts about one `list(islice(iterator, k))`. -/
structure PullFacts (c : Cfg) (t : Tid) (fo : Bool) (k : Nat) (s : St) (m : Nat) (evs : List Ev) (dead raised : Bool)
    (pl : Option Nat) (ret : Bool) : Prop where
  le : s.srcPos + m ≤ stopAt c
  mle : m ≤ pullLim fo k s
  deadAt : dead = true → s.srcPos + m = stopAt c
  raisedDead : raised = true → dead = true
  raisedAt : raised = true → c.iterfail = some (s.srcPos + m)
  exhausted : dead = true → raised = false → s.srcPos + m = c.n ∧ ∀ f, c.iterfail = some f → c.n < f
  evs : ∀ e ∈ evs, e = Ev.pullraise t ∨ ∃ id, e = Ev.pull t id (s.lockOwner == some t)
  short : m < pullLim fo k s → dead = true
  keepDead : s.srcDead = true → dead = true ∧ m = 0
  retRaised : ret = true → raised = true
  raisedRet : raised = true → ret = true ∨ s.srcRaised = true
  plOrig : fo = true → pl = s.preLeft
  plNone : s.preLeft = none → pl = none

/-- With `ret = false` the state's `srcRaised` can only be inherited. -/
theorem PullFacts.raisedRet' {c : Cfg} {t : Tid} {fo : Bool} {k : Nat} {s : St} {m : Nat} {evs : List Ev}
    {dead raised : Bool} {pl : Option Nat} (hf : PullFacts c t fo k s m evs dead raised pl false)
    (h : raised = true) : s.srcRaised = true ∨ False := by
  rcases hf.raisedRet h with h1 | h1
  · cases h1
  · exact Or.inl h1

theorem pull_spec {c : Cfg} {s : St} (hS : SrcInv c s) (t : Tid) (fo : Bool) (k : Nat) :
    ∃ m evs dead raised pl ret,
      pull c t fo k s = (mkPull s m evs dead raised pl, List.range' s.srcPos m, ret)
      ∧ PullFacts c t fo k s m evs dead raised pl ret := by
  unfold pull
  simp only
  by_cases h0 : pullLim fo k s = 0 ∨ s.srcDead = true
  · rw [if_pos h0]
    refine ⟨0, [], s.srcDead, s.srcRaised, s.preLeft, false, ?_, ?_⟩
    · cases s; simp [mkPull]
    · have := hS.le
      refine ⟨by simpa using hS.le, by omega, ?_, hS.raisedDead, ?_, ?_, by simp, ?_, ?_, by simp, ?_, fun _ => rfl, ?_⟩
      · intro h; simpa using hS.deadAt h
      · intro h; simpa using hS.raisedAt h
      · intro h1 h2; simpa using hS.exhausted h1 h2
      · intro h; rcases h0 with h0 | h0
        · omega
        · exact h0
      · intro h; exact ⟨h, rfl⟩
      · intro h; exact Or.inr h
      · exact id
  · rw [if_neg h0]
    simp only [not_or, Bool.not_eq_true] at h0
    obtain ⟨h0, hd⟩ := h0
    have hle := hS.le
    refine ⟨min (pullLim fo k s) (stopAt c - s.srcPos), _, _, _, _, _, rfl, ?_⟩
    refine ⟨by omega, by omega, ?_, ?_, ?_, ?_, ?_, ?_, ?_, ?_, ?_, ?_, ?_⟩
    · intro h; simp only [decide_eq_true_eq] at h; omega
    · intro h; simp only [Bool.and_eq_true, decide_eq_true_eq] at h; simpa using h.1
    · intro h; simp only [Bool.and_eq_true, beq_iff_eq] at h; exact h.2
    · intro h1 h2
      simp only [decide_eq_true_eq] at h1
      have hm : s.srcPos + min (pullLim fo k s) (stopAt c - s.srcPos) = stopAt c := by omega
      have hne : c.iterfail ≠ some (stopAt c) := by
        intro he
        rw [hm] at h2
        simp [h1, he] at h2
      rw [hm]
      unfold stopAt at hne ⊢
      cases hf : c.iterfail with
      | none => simp
      | some f =>
        simp only [hf] at hne ⊢
        have : ¬ (f ≤ c.n) := by
          intro hfn
          apply hne
          simp [Nat.min_eq_left hfn]
        refine ⟨by omega, ?_⟩
        intro f' hf'; cases hf'; omega
    · intro e he
      split at he
      · simp only [List.mem_cons, List.mem_reverse, List.mem_map] at he
        rcases he with he | ⟨id, _, he⟩
        · exact Or.inl he
        · exact Or.inr ⟨id, he.symm⟩
      · simp only [List.mem_reverse, List.mem_map] at he
        obtain ⟨id, _, he⟩ := he
        exact Or.inr ⟨id, he.symm⟩
    · intro h; simpa using h
    · intro h; simp [hd] at h
    · intro h; exact h
    · intro h; exact Or.inl h
    · intro h; simp [h]
    · intro h; simp [h]


/-- All the ways the locked region of `dispatch_one_batch` can go, with explicit post-states. -/
inductive DLCase (c : Cfg) (t : Tid) (fo : Bool) (bs : Nat) (s : St) : St → DRes → Prop
  | aborting : s.aborting = true → DLCase c t fo bs s s (.ret false)
  | ready (tasks : List Nat) (rest : List (List Nat)) : s.aborting = false → s.ready = tasks :: rest → tasks ≠ [] →
      DLCase c t fo bs s (mkDisp (setReady s rest) tasks) (.submit s.trk.length)
  | raised (m : Nat) (evs : List Ev) (dead : Bool) (pl : Option Nat) : s.aborting = false → s.ready = [] →
      PullFacts c t fo (bs * c.nj) s m evs dead true pl true → s.srcDead = false →
      DLCase c t fo bs s (registerIterError bs (mkPull s m evs dead true pl)) (.ret true)
  | empty (evs : List Ev) (dead raised : Bool) (pl : Option Nat) : s.aborting = false → s.ready = [] →
      PullFacts c t fo (bs * c.nj) s 0 evs dead raised pl false →
      DLCase c t fo bs s (mkPull s 0 evs dead raised pl) (.ret false)
  | pulled (m : Nat) (evs : List Ev) (dead raised : Bool) (pl : Option Nat) (tasks : List Nat) (rest : List (List Nat)) :
      s.aborting = false → s.ready = [] → PullFacts c t fo (bs * c.nj) s m evs dead raised pl false → 0 < m →
      tasks ≠ [] → (∀ b ∈ rest, b ≠ []) → tasks ++ rest.flatten = List.range' s.srcPos m →
      DLCase c t fo bs s (mkDisp (setReady (mkPull s m evs dead raised pl) rest) tasks) (.submit s.trk.length)

theorem dispatchTasks_ne {s : St} {tasks : List Nat} (h : tasks ≠ []) (ha : s.aborting = false) :
    dispatchTasks s tasks = (mkDisp s tasks, .submit s.trk.length) := by
  unfold dispatchTasks mkDisp
  have : tasks.length ≠ 0 := by simpa using h
  simp [this, ha]

theorem dispatchLocked_cases {c : Cfg} {s : St} (hS : SrcInv c s) (hne : ∀ b ∈ s.ready, b ≠ []) (t : Tid) (fo : Bool)
    (bs : Nat) : ∃ s' r, dispatchLocked c t fo bs s = (s', r) ∧ DLCase c t fo bs s s' r := by
  unfold dispatchLocked
  by_cases ha : s.aborting = true
  · rw [if_pos ha]; exact ⟨_, _, rfl, .aborting ha⟩
  · have ha' : s.aborting = false := by simpa using ha
    rw [if_neg ha]
    cases hr : s.ready with
    | cons tasks rest =>
      simp only
      have htn : tasks ≠ [] := hne tasks (by simp [hr])
      rw [dispatchTasks_ne htn (by exact ha')]
      exact ⟨_, _, rfl, .ready tasks rest ha' hr htn⟩
    | nil =>
      simp only
      obtain ⟨m, evs, dead, raised, pl, ret, hp, hf⟩ := pull_spec hS t fo (bs * c.nj)
      rw [hp]
      simp only
      cases hret : ret with
      | true =>
        simp only [if_true]
        have hra : raised = true := hf.retRaised hret
        subst hra; subst hret
        have hd : s.srcDead = false := by
          cases hsd : s.srcDead with
          | false => rfl
          | true =>
            exfalso
            have := hp
            unfold pull at this
            simp [hsd] at this
        exact ⟨_, _, rfl, .raised m evs dead pl ha' hr hf hd⟩
      | false =>
        subst hret
        simp only [Bool.false_eq_true, if_false, List.length_range']
        by_cases hm : m = 0
        · subst hm
          simp only [if_true]
          exact ⟨_, _, rfl, .empty evs dead raised pl ha' hr hf⟩
        · simp only [hm, if_false]
          have hnil : List.range' s.srcPos m ≠ [] := by simp [hm]
          generalize hfin : (if (fo && decide (m < bs * c.nj)) = true then max 1 (m / (10 * c.nj)) else max 1 (m / c.nj)) = final
          cases hc : chunks final (List.range' s.srcPos m) with
          | nil => exact absurd ((chunks_eq_nil_iff _ _).mp hc) hnil
          | cons tasks rest =>
            simp only
            have hmem := chunks_ne_nil final (List.range' s.srcPos m)
            rw [hc] at hmem
            have htn : tasks ≠ [] := hmem tasks (by simp)
            have hfl := chunks_flatten final (List.range' s.srcPos m)
            rw [hc] at hfl
            rw [dispatchTasks_ne htn (by simp [mkPull, ha'])]
            exact ⟨_, _, rfl, .pulled m evs dead raised pl tasks rest ha' hr hf (by omega) htn
              (fun b hb => hmem b (by simp [hb])) (by simpa using hfl)⟩

end JoblibModel.ParallelLock
