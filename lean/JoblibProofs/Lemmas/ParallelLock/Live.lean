import JoblibProofs.Lemmas.ParallelLock.Steps2Cb
/-!
M1L proofs — progress facts (the part of liveness that is proved): no deadlock, the lock holder is always runnable,
every step of a callback thread strictly decreases its rank (so a callback thread finishes within 8 of its own steps).
-/
namespace JoblibModel.ParallelLock

/-- Number of steps the callback thread has at most left. -/
def CbPc.rank : CbPc → Nat
  | .idle | .parked | .dropped | .done _ => 0
  | .relC => 1
  | .submitC _ => 2
  | .bsC => 3
  | .acqC => 4
  | .stats => 5
  | .relA _ => 6
  | .retr => 7
  | .acqA => 8

theorem holder_enabled {c : Cfg} {s : St} (h : Inv c s) :
    (s.lockOwner = some 0 → callerEnabled s = true) ∧
    (∀ i, s.lockOwner = some (i + 1) → cbEnabled s i = true) := by
  refine ⟨fun ho => ?_, fun i ho => ?_⟩
  · have hh := h.L.own0 ho
    unfold callerEnabled
    cases hp : s.pc <;> simp_all [Pc.holding, Pc.isAcq]
  · obtain ⟨_, hh⟩ := h.L.ownCb i ho
    unfold cbEnabled
    cases hp : (getTrk s i).pc <;> simp_all [CbPc.holding]

/-- NO DEADLOCK. While the caller has not finished some action is enabled: the caller itself, or — when it is blocked
at a lock acquisition — the thread that owns the lock. -/
theorem not_done_enabled {c : Cfg} {s : St} (h : Inv c s) (hnd : s.pc ≠ .done) :
    callerEnabled s = true ∨ ∃ i, s.lockOwner = some (i + 1) ∧ cbEnabled s i = true := by
  by_cases he : callerEnabled s = true
  · exact Or.inl he
  · right
    have hacq : s.pc.isAcq = true ∧ s.lockOwner ≠ none := by
      unfold callerEnabled at he
      cases hl : s.lockOwner with
      | none => simp_all
      | some t =>
        refine ⟨?_, by simp⟩
        cases hq : s.pc.isAcq with
        | true => rfl
        | false => simp_all
    cases hl : s.lockOwner with
    | none => exact absurd hl hacq.2
    | some t =>
      cases t with
      | zero =>
        have := (holder_enabled h).1 hl
        exact absurd this he
      | succ i => exact ⟨i, rfl, (holder_enabled h).2 i hl⟩

theorem getT_cbAfterDispatch (i : Nat) (s : St) (r : Bool) (hi : i < s.trk.length) :
    (getT (cbAfterDispatch i s r).trk i).pc = .relC := by
  unfold cbAfterDispatch
  cases r <;> simp [hi]

/-- CALLBACK PROGRESS. Every enabled step of a callback thread strictly decreases its rank. -/
theorem stepCb_rank {c : Cfg} {s : St} {i : Nat} (h : Inv c s) (he : cbEnabled s i = true) :
    (getT (stepCb c i s).trk i).pc.rank < (getT s.trk i).pc.rank := by
  have hi := cbEnabled_lt he
  unfold stepCb
  simp only
  have hgt : getTrk s i = getT s.trk i := rfl
  have hdisp : ∀ (s1 : St) (bs : Nat), i < s1.trk.length → Inv c s1 →
      (getT (cbDispatchResult i (dispatchLocked c (i + 1) true bs s1)).trk i).pc.rank < 3 := by
    intro s1 bs hi1 h1
    obtain ⟨s', r, hd, hcase⟩ := dispatchLocked_cases h1.S h1.C.readyNe (i + 1) true bs
    rw [hd]
    obtain ⟨new, hnew⟩ := hcase.trk_append
    have hi2 : i < s'.trk.length := by rw [hnew]; simp; omega
    cases r with
    | submit j => simp [cbDispatchResult, hi2, CbPc.rank]
    | ret b => simp only [cbDispatchResult]; rw [getT_cbAfterDispatch _ _ _ hi2]; simp [CbPc.rank]
  cases hpc : (getTrk s i).pc with
  | acqA =>
    rw [hgt] at hpc; rw [hpc]
    simp only
    split
    · simp [hi, CbPc.rank]
    · split <;> simp [hi, CbPc.rank]
  | retr =>
    rw [hgt] at hpc; rw [hpc]
    simp only
    split
    · simp [hi, CbPc.rank]
    · split <;> simp [hi, CbPc.rank]
  | relA ok => rw [hgt] at hpc; rw [hpc]; cases ok <;> simp [hi, CbPc.rank]
  | stats => rw [hgt] at hpc; rw [hpc]; simp [hi, CbPc.rank]
  | acqC =>
    have hlk : s.lockOwner = none := by
      unfold cbEnabled at he; rw [hpc] at he; simpa using he
    rw [hgt] at hpc; rw [hpc]
    have h0 := h.T _ (getT_mem _ _ hi)
    have hst : (getT s.trk i).status = .done := by have := h0.pcst; rw [hpc] at this; exact this
    have hnorm := trk_normal h0 (by rw [hpc]; simp)
    simp only
    split
    · have h1 : Inv c (setCb { s with lockOwner := some (i + 1), nCompleted := s.nCompleted + (getTrk s i).bsize } i .bsC) :=
        h.movePc hi .bsC rfl ⟨rfl, rfl, rfl, rfl, rfl, rfl, rfl⟩ id (by simp [hpc]) hst
          (by simp [hpc, CbPc.started]) (by simp) (by simp [CbPc.holding]) (fun _ _ => hlk)
          (by simp [hpc, CbPc.counted, hnorm.2]) (by simp)
      split
      · rw [getT_cbAfterDispatch _ _ _ (by simpa using hi)]; simp [CbPc.rank]
      · split
        · simp [hi, CbPc.rank]
        · have := hdisp _ (scriptedBs c (setCb { s with lockOwner := some (i + 1), nCompleted := s.nCompleted + (getTrk s i).bsize } i .bsC))
            (by simpa using hi) h1
          exact Nat.lt_trans this (by decide)
    · simp [hi, CbPc.rank]
  | bsC =>
    rw [hgt] at hpc; rw [hpc]
    simp only
    have h1 : Inv c { s with bsI := s.bsI + 1 } := h.congr rfl rfl rfl rfl rfl rfl rfl rfl rfl rfl rfl rfl rfl rfl
    exact hdisp { s with bsI := s.bsI + 1 } (scriptedBs c s) hi h1
  | submitC j =>
    rw [hgt] at hpc; rw [hpc]
    simp only
    rw [getT_cbAfterDispatch _ _ _ (by simpa using hi)]; simp [CbPc.rank]
  | relC => rw [hgt] at hpc; rw [hpc]; simp [hi, CbPc.rank]
  | idle => unfold cbEnabled at he; rw [hpc] at he; cases he
  | parked => unfold cbEnabled at he; rw [hpc] at he; cases he
  | dropped => unfold cbEnabled at he; rw [hpc] at he; cases he
  | done b => unfold cbEnabled at he; rw [hpc] at he; cases he

end JoblibModel.ParallelLock
