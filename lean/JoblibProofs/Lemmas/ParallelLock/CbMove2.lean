import JoblibProofs.Lemmas.ParallelLock.Guar2
/-!
M1L proofs — the general transfer lemma for steps of a CALLBACK thread that do not dispatch (`Inv2.cbMove`).
-/
namespace JoblibModel.ParallelLock

/-- How a (non-dispatching) step of the callback thread of tracker `i` may change the state. -/
structure CbRel (c : Cfg) (s s' : St) (i : Nat) : Prop where
  hi : i < s.trk.length
  pc : s'.pc = s.pc
  out : s'.out = s.out
  outcome : s'.outcome = s.outcome
  srcDead : s'.srcDead = s.srcDead
  srcRaised : s'.srcRaised = s.srcRaised
  ready : s'.ready = s.ready
  jobs : s'.jobs = s.jobs
  nPop : s'.nPop = s.nPop
  preLeft : s'.preLeft = s.preLeft
  running : s'.running = s.running
  len : s'.trk.length = s.trk.length
  other : ∀ j, j ≠ i → getT s'.trk j = getT s.trk j
  items : (getT s'.trk i).items = (getT s.trk i).items
  normal : (getT s.trk i).items ≠ []
  status :
    ((getT s'.trk i).status = (getT s.trk i).status ∧ (getT s'.trk i).result = (getT s.trk i).result ∧
      s'.aborting = s.aborting ∧ s'.exception = s.exception) ∨
    ((getT s.trk i).status = .pending ∧ (getT s'.trk i).status = .done ∧
      (getT s'.trk i).result = .vals (getT s.trk i).items ∧ s'.aborting = s.aborting ∧ s'.exception = s.exception) ∨
    ((getT s.trk i).status = .pending ∧ (getT s'.trk i).status = .error ∧
      (∃ e, (getT s'.trk i).result = .exc e ∧ LegitErr c e) ∧ s'.aborting = true ∧ s'.exception = true)
  ncomp : s.nCompleted ≤ s'.nCompleted
  origIter : (s'.origAlive = s.origAlive ∧ s'.iterating = s.iterating) ∨
    (s'.origAlive = false ∧ s'.iterating = false ∧ (∀ j, j ≠ i → j < s.trk.length → (getT s.trk j).pc.inNext = false) ∧
      (s'.aborting = false → c.pdMode ≠ 1 → s.ready = [] ∧ s.srcDead = true))
  quietKeep : ((getT s.trk i).pc = .relC ∨ (getT s.trk i).pc = .done true) →
    ((getT s'.trk i).pc = .relC ∨ (getT s'.trk i).pc = .done true)
  bsC : (getT s'.trk i).pc.inNext = true → s'.origAlive = true

namespace CbRel
variable {c : Cfg} {s s' : St} {i : Nat}

theorem get (r : CbRel c s s' i) (j : Nat) : j = i ∨ getT s'.trk j = getT s.trk j := by
  by_cases h : j = i
  · exact Or.inl h
  · exact Or.inr (r.other j h)

theorem items' (r : CbRel c s s' i) (j : Nat) : (getT s'.trk j).items = (getT s.trk j).items := by
  rcases r.get j with h | h
  · subst h; exact r.items
  · rw [h]

theorem mapItems (r : CbRel c s s' i) : s'.trk.map (·.items) = s.trk.map (·.items) := by
  apply List.ext_getElem
  · simp [r.len]
  · intro j h1 h2
    simp only [List.length_map] at h1 h2
    have := r.items' j
    simp only [getT, List.getD_eq_getElem?_getD, List.getElem?_eq_getElem h1, List.getElem?_eq_getElem h2,
      Option.getD_some] at this
    simpa using this

theorem allItems (r : CbRel c s s' i) : allItems s' = allItems s := by
  simp only [JoblibModel.ParallelLock.allItems, r.mapItems]

theorem notStuck (r : CbRel c s s' i) : ¬ Stuck s := fun h =>
  allItems_ne_nil (getT_mem _ _ r.hi) r.normal h.1

/-- Statuses only move away from `pending`. -/
theorem stKeep (r : CbRel c s s' i) (j : Nat) (h : (getT s.trk j).status ≠ .pending) :
    (getT s'.trk j).status = (getT s.trk j).status := by
  rcases r.get j with e | e
  · subst e
    rcases r.status with h1 | h1 | h1
    · exact h1.1
    · exact absurd h1.1 h
    · exact absurd h1.1 h
  · rw [e]

theorem abUp (r : CbRel c s s' i) (h : s.aborting = true) : s'.aborting = true := by
  rcases r.status with h1 | h1 | h1
  · rw [h1.2.2.1]; exact h
  · rw [h1.2.2.2.1]; exact h
  · exact h1.2.2.2.1

theorem exUp (r : CbRel c s s' i) (h : s.exception = true) : s'.exception = true := by
  rcases r.status with h1 | h1 | h1
  · rw [h1.2.2.2]; exact h
  · rw [h1.2.2.2.2]; exact h
  · exact h1.2.2.2.2

theorem origDown (r : CbRel c s s' i) (h : s.origAlive = false) : s'.origAlive = false := by
  rcases r.origIter with h1 | h1
  · rw [h1.1]; exact h
  · exact h1.1

theorem mem (r : CbRel c s s' i) {t' : Tracker} (h : t' ∈ s'.trk) :
    ∃ j, j < s.trk.length ∧ getT s'.trk j = t' := by
  obtain ⟨j, hj, e⟩ := (mem_iff_getT _ _).mp h
  exact ⟨j, by rw [← r.len]; exact hj, e⟩

theorem mem' (r : CbRel c s s' i) {j : Nat} (hj : j < s.trk.length) : getT s'.trk j ∈ s'.trk :=
  getT_mem _ _ (by rw [r.len]; exact hj)

theorem quiet (r : CbRel c s s' i) (h : Quiet s) : Quiet s' := by
  intro t' ht' hne
  obtain ⟨j, hj, e⟩ := r.mem ht'
  subst e
  rw [r.items'] at hne
  have := h _ (getT_mem _ _ hj) hne
  rcases r.get j with e | e
  · subst e; exact r.quietKeep this
  · rw [e]; exact this

theorem exited (r : CbRel c s s' i) (h : Exited s) : Exited s' := by
  refine ⟨r.quiet h.1, ?_⟩
  rcases h.2 with h1 | h1
  · exact Or.inl (r.origDown h1)
  · exact absurd h1 r.notStuck

theorem noErr (r : CbRel c s s' i) (h : NoErr s) : NoErr s' := by
  intro t' ht'
  obtain ⟨j, hj, e⟩ := r.mem ht'
  subst e
  rw [r.items']; exact h _ (getT_mem _ _ hj)

theorem guar (r : CbRel c s s' i) : Guar s s' :=
  ⟨r.pc, r.nPop, r.running, by rw [r.len]; exact Nat.le_refl _, fun j _ h => r.stKeep j h, r.ncomp, r.origDown,
    fun h => absurd h r.notStuck, fun h => ⟨r.exited h, r.len, r.noErr⟩, r.abUp⟩

theorem errPersist (r : CbRel c s s' i) (h : ∃ t ∈ s.trk, t.status = .error) : ∃ t ∈ s'.trk, t.status = .error := by
  obtain ⟨t, ht, hs⟩ := h
  obtain ⟨j, hj, e⟩ := (mem_iff_getT _ _).mp ht
  subst e
  exact ⟨_, r.mem' hj, by rw [r.stKeep j (by rw [hs]; simp)]; exact hs⟩

end CbRel

/-- The general transfer lemma for non-dispatching steps of a callback thread. -/
theorem Inv2.cbMove {c : Cfg} {s s' : St} {i : Nat} (h : Inv c s) (h2 : Inv2 c s) (r : CbRel c s s' i) :
    Inv2 c s' := by
  have hne : s.trk ≠ [] := by intro e; have := r.hi; rw [e] at this; cases this
  have hun : unread s' = unread s := by simp only [unread, r.pc, r.nPop]
  refine ⟨⟨?_, ?_, ?_, ?_⟩, ⟨?_, ?_⟩, ⟨?_, ?_, ?_, ?_⟩, ⟨?_, ?_, ?_, ?_, ?_, ?_⟩,
    LocOK.stable h h2.L r.guar hne, ⟨?_, ?_, ?_⟩⟩
  · -- errFlags
    intro t' ht' hs
    obtain ⟨j, hj, e⟩ := r.mem ht'
    subst e
    rcases r.get j with e | e
    · subst e
      rcases r.status with h1 | h1 | h1
      · rw [h1.1] at hs
        obtain ⟨a, b⟩ := h2.F.errFlags _ (getT_mem _ _ hj) hs
        exact ⟨r.abUp a, r.exUp b⟩
      · rw [h1.2.1] at hs; cases hs
      · exact ⟨h1.2.2.2.1, h1.2.2.2.2⟩
    · rw [e] at hs
      obtain ⟨a, b⟩ := h2.F.errFlags _ (getT_mem _ _ hj) hs
      exact ⟨r.abUp a, r.exUp b⟩
  · -- aborting
    intro ha
    rw [r.pc]
    rcases r.status with h1 | h1 | h1
    · rw [h1.2.2.1] at ha
      rcases h2.F.aborting ha with h3 | h3
      · exact Or.inl (r.errPersist h3)
      · exact Or.inr h3
    · rw [h1.2.2.2.1] at ha
      rcases h2.F.aborting ha with h3 | h3
      · exact Or.inl (r.errPersist h3)
      · exact Or.inr h3
    · exact Or.inl ⟨_, r.mem' r.hi, h1.2.1⟩
  · -- exception
    intro ha
    rw [r.pc]
    rcases r.status with h1 | h1 | h1
    · rw [h1.2.2.2] at ha
      rcases h2.F.exception ha with h3 | h3
      · exact Or.inl (r.errPersist h3)
      · exact Or.inr h3
    · rw [h1.2.2.2.2] at ha
      rcases h2.F.exception ha with h3 | h3
      · exact Or.inl (r.errPersist h3)
      · exact Or.inr h3
    · exact Or.inl ⟨_, r.mem' r.hi, h1.2.1⟩
  · -- raised
    rw [r.srcRaised]; intro hr
    obtain ⟨t, ht, hs⟩ := h2.F.raised hr
    obtain ⟨j, hj, e⟩ := (mem_iff_getT _ _).mp ht
    subst e
    exact ⟨_, r.mem' hj, by rw [r.items']; exact hs⟩
  · -- R.done
    intro hp j hj hl hs
    rw [r.pc] at hp; rw [hun] at hj; rw [r.len] at hl
    rw [r.items']
    rcases r.get j with e | e
    · subst e
      rcases r.status with h1 | h1 | h1
      · rw [h1.1] at hs; rw [h1.2.1]; exact h2.R.done hp j hj hl hs
      · exact h1.2.2.1
      · rw [h1.2.1] at hs; cases hs
    · rw [e] at hs ⊢; exact h2.R.done hp j hj hl hs
  · -- R.error
    intro hp j hj hl hs
    rw [r.pc] at hp; rw [hun] at hj; rw [r.len] at hl
    rcases r.get j with e | e
    · subst e
      rcases r.status with h1 | h1 | h1
      · rw [h1.1] at hs; rw [h1.2.1]; exact h2.R.error hp j hj hl hs
      · rw [h1.2.1] at hs; cases hs
      · exact h1.2.2.1
    · rw [e] at hs ⊢; exact h2.R.error hp j hj hl hs
  · -- prefixDone
    intro hp j hj hl
    rw [r.pc] at hp; rw [hun] at hj; rw [r.len] at hl
    have := h2.D.prefixDone hp j hj hl
    rw [r.stKeep j (by rw [this]; simp)]; exact this
  · -- out
    intro hp
    rw [r.pc] at hp
    rw [hun, r.out, List.map_take, r.mapItems, h2.D.out hp, List.map_take]
  · rw [r.nPop, r.len]; exact h2.D.nPopLe
  · intro hp; rw [r.pc] at hp; rw [r.jobs, r.nPop, r.len]; exact h2.D.jobs hp
  · intro hm; exact r.origDown (h2.I.allMode hm)
  · intro hm hp; rw [r.pc] at hp; rw [r.preLeft]; exact h2.I.allPre hm hp
  · -- afterFirst
    intro hp hi
    rw [r.pc] at hp
    rcases r.origIter with h1 | h1
    · rw [h1.2] at hi; rw [h1.1]
      rcases h2.I.afterFirst hp hi with h3 | h3
      · exact Or.inl h3
      · exact absurd h3 r.notStuck
    · exact Or.inl h1.1
  · -- origDead
    intro ha hp hm ho
    rw [r.pc] at hp; rw [r.ready, r.srcDead]
    have ha0 : s.aborting = false := by
      cases hh : s.aborting with
      | false => rfl
      | true => rw [r.abUp hh] at ha; cases ha
    rcases r.origIter with h1 | h1
    · rw [h1.1] at ho; exact h2.I.origDead ha0 hp hm ho
    · exact h1.2.2.2 ha hm
  · -- allDead
    intro ha hm hp
    rw [r.pc] at hp; rw [r.ready, r.srcDead]
    have ha0 : s.aborting = false := by
      cases hh : s.aborting with
      | false => rfl
      | true => rw [r.abUp hh] at ha; cases ha
    exact h2.I.allDead ha0 hm hp
  · -- bsC
    intro t' ht' hb
    obtain ⟨j, hj, e⟩ := r.mem ht'
    subst e
    rcases r.get j with e | e
    · subst e; exact r.bsC hb
    · rw [e] at hb
      have ho := h2.I.bsC _ (getT_mem _ _ hj) hb
      rcases r.origIter with h1 | h1
      · rw [h1.1]; exact ho
      · by_cases hji : j = i
        · subst hji; exact r.bsC (by rw [e]; exact hb)
        · have := h1.2.2.1 j hji hj; rw [this] at hb; cases hb
  · -- ret
    intro l hl
    rw [r.outcome] at hl
    obtain ⟨hx, hs⟩ := h2.O.ret l hl
    refine ⟨r.exited hx, fun hsafe => ?_⟩
    obtain ⟨g1, g2, g3, g4, g5⟩ := hs hsafe
    exact ⟨g1, r.noErr g2, by rw [r.allItems]; exact g3, by rw [r.srcDead]; exact g4, by rw [r.srcRaised]; exact g5⟩
  · intro x hx; rw [r.outcome] at hx; exact h2.O.raised x hx
  · intro hp; rw [r.pc] at hp; rw [r.outcome]; exact h2.O.noOutcome hp

end JoblibModel.ParallelLock
