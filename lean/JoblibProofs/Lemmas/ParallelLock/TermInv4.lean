import JoblibProofs.Lemmas.ParallelLock.Steps3
/-!
M1L proofs — the fourth invariant `Inv4` (needed for termination under the drain schedule): the marker pc `dIn` is
never a parking point of the caller, and every tracker that waits for its `backend.submit` (pc `idle`, non-empty batch)
is pointed to by the thread that is parked at that `submit` (the caller at `dSubmit _ j` or a callback at `submitC j`).
Consequence: while no thread is parked at a `submit`, no batch is waiting for one.
-/
namespace JoblibModel.ParallelLock

/-- Tracker `j` is waiting for its `backend.submit`. -/
def IdleNe (s : St) (j : Nat) : Prop :=
  j < s.trk.length ∧ (getT s.trk j).pc = .idle ∧ (getT s.trk j).items ≠ []

/-- Some thread is parked at `backend.submit` of tracker `j`. -/
def Submitter (s : St) (j : Nat) : Prop :=
  (∃ k, s.pc = .dSubmit k j) ∨ ∃ i, i < s.trk.length ∧ (getT s.trk i).pc = .submitC j

structure Inv4 (s : St) : Prop where
  noIn : ∀ k, s.pc ≠ .dIn k
  idle : ∀ j, IdleNe s j → Submitter s j

/-- No batch is waiting for its `submit`. -/
def NoIdle (s : St) : Prop := ∀ j, ¬ IdleNe s j

theorem inv4_init : Inv4 init := by
  refine ⟨fun k h => (by cases h), fun j hj => ?_⟩
  have := hj.1
  simp [init] at this

theorem Inv4.ofNoIdle {s : St} (hn : ∀ k, s.pc ≠ .dIn k) (h : NoIdle s) : Inv4 s :=
  ⟨hn, fun j hj => absurd hj (h j)⟩

/-- Nobody is parked at a `submit`. -/
def NoSubmit (s : St) : Prop :=
  (∀ k j, s.pc ≠ .dSubmit k j) ∧ ∀ i j, i < s.trk.length → (getT s.trk i).pc ≠ .submitC j

theorem Inv4.noIdle {s : St} (h4 : Inv4 s) (hs : NoSubmit s) : NoIdle s := by
  intro j hj
  rcases h4.idle j hj with ⟨k, hk⟩ | ⟨i, hi, hp⟩
  · exact hs.1 k j hk
  · exact hs.2 i j hi hp

theorem noSubmit_of_free {c : Cfg} {s : St} (h : Inv c s) (hl : s.lockOwner = none) : NoSubmit s := by
  refine ⟨fun k j hp => ?_, fun i j hi hp => ?_⟩
  · have := h.L.caller (by rw [hp]; rfl)
    rw [hl] at this; cases this
  · have := h.L.cb i hi (by rw [getTrk_def, hp]; rfl)
    rw [hl] at this; cases this

theorem noSubmit_of_owner {c : Cfg} {s : St} {i : Nat} (h : Inv c s) (hl : s.lockOwner = some (i + 1))
    (hpc : ∀ j, (getT s.trk i).pc ≠ .submitC j) : NoSubmit s := by
  refine ⟨fun k j hp => ?_, fun i' j hi hp => ?_⟩
  · have := h.L.caller (by rw [hp]; rfl)
    rw [hl] at this; cases this
  · have := h.L.cb i' hi (by rw [getTrk_def, hp]; rfl)
    rw [hl] at this
    have e : i = i' := by simpa using this
    subst e
    exact hpc j hp

theorem noSubmit_of_caller {c : Cfg} {s : St} (h : Inv c s) (hl : s.lockOwner = some 0)
    (hpc : ∀ k j, s.pc ≠ .dSubmit k j) : NoSubmit s := by
  refine ⟨hpc, fun i' j hi hp => ?_⟩
  have := h.L.cb i' hi (by rw [getTrk_def, hp]; rfl)
  rw [hl] at this; cases this

/-! ### index-wise reading of the key map -/

theorem key_getT {l l' : List Tracker} (h : l'.map trkKey = l.map trkKey) :
    l'.length = l.length ∧ ∀ j, (getT l' j).pc = (getT l j).pc ∧ (getT l' j).items = (getT l j).items := by
  refine ⟨by simpa using congrArg List.length h, fun j => ?_⟩
  have hj := congrArg (fun x => x[j]?) h
  simp only [List.getElem?_map] at hj
  simp only [getT, List.getD_eq_getElem?_getD]
  cases h1 : l'[j]? with
  | none =>
    cases h2 : l[j]? with
    | none => exact ⟨rfl, rfl⟩
    | some b => rw [h1, h2] at hj; cases hj
  | some a =>
    cases h2 : l[j]? with
    | none => rw [h1, h2] at hj; cases hj
    | some b =>
      rw [h1, h2] at hj
      simp only [Option.map_some, Option.some.injEq, trkKey, Prod.mk.injEq] at hj
      exact ⟨hj.2.1, hj.2.2⟩

theorem IdleNe.of_key {s s' : St} (hkey : s'.trk.map trkKey = s.trk.map trkKey) {j : Nat} (h : IdleNe s' j) :
    IdleNe s j := by
  obtain ⟨hl, hg⟩ := key_getT hkey
  obtain ⟨h1, h2, h3⟩ := h
  exact ⟨by rw [← hl]; exact h1, by rw [← (hg j).1]; exact h2, by rw [← (hg j).2]; exact h3⟩

/-- Steps of the caller that leave pc / items of every tracker unchanged and do not start at a `submit`. -/
theorem Inv4.sameKeys {s s' : St} (h4 : Inv4 s) (hkey : s'.trk.map trkKey = s.trk.map trkKey)
    (hn : ∀ k, s'.pc ≠ .dIn k) (hp : ∀ k j, s.pc ≠ .dSubmit k j) : Inv4 s' := by
  refine ⟨hn, fun j hj => ?_⟩
  obtain ⟨hl, hg⟩ := key_getT hkey
  rcases h4.idle j (hj.of_key hkey) with ⟨k, hk⟩ | ⟨i, hi, hpi⟩
  · exact absurd hk (hp k j)
  · exact Or.inr ⟨i, by rw [hl]; exact hi, by rw [(hg i).1]; exact hpi⟩

theorem IdleNe.of_set {s s' : St} {i : Nat} {t' : Tracker} (htrk : s'.trk = s.trk.set i t') (hnew : t'.pc ≠ .idle)
    {j : Nat} (h : IdleNe s' j) : IdleNe s j ∧ j ≠ i := by
  obtain ⟨h1, h2, h3⟩ := h
  rw [htrk] at h1 h2 h3
  have hji : j ≠ i := by
    intro e; subst e
    rw [getT_set_self _ _ _ (by simpa using h1)] at h2
    exact hnew h2
  rw [getT_set_ne _ _ _ _ hji] at h2 h3
  exact ⟨⟨by simpa using h1, h2, h3⟩, hji⟩

/-- Tracker `i` (neither waiting for a submit nor parked at one) moves to a pc other than `idle`. -/
theorem Inv4.setPc {s s' : St} (h4 : Inv4 s) {i : Nat} {t' : Tracker}
    (htrk : s'.trk = s.trk.set i t') (hpc : s'.pc = s.pc)
    (hold : ∀ j, (getT s.trk i).pc ≠ .submitC j) (hnew : t'.pc ≠ .idle) : Inv4 s' := by
  refine ⟨fun k => by rw [hpc]; exact h4.noIn k, fun j hj => ?_⟩
  obtain ⟨hj0, hji⟩ := hj.of_set htrk hnew
  rcases h4.idle j hj0 with ⟨k, hk⟩ | ⟨i', hi', hpi⟩
  · exact Or.inl ⟨k, by rw [hpc]; exact hk⟩
  · have hne : i' ≠ i := by
      intro e; subst e; exact hold j hpi
    exact Or.inr ⟨i', by rw [htrk]; simpa using hi', by rw [htrk, getT_set_ne _ _ _ _ hne]; exact hpi⟩

/-- The locked region of `dispatch_one_batch`: the only batch that may wait for a submit afterwards is the new one. -/
theorem DLCase.idle {c : Cfg} {t : Tid} {fo : Bool} {bs : Nat} {s s' : St} {r : DRes}
    (hcase : DLCase c t fo bs s s' r) (hn : NoIdle s) : ∀ j, IdleNe s' j → r = .submit j := by
  have happ : ∀ (x : Tracker) (s1 : St), s1.trk = s.trk ++ [x] → ∀ j, IdleNe s1 j → j = s.trk.length ∧ x.items ≠ [] := by
    intro x s1 h1 j hj
    obtain ⟨g1, g2, g3⟩ := hj
    rw [h1] at g1 g2 g3
    by_cases hlt : j < s.trk.length
    · rw [getT_append_left _ _ _ hlt] at g2 g3
      exact absurd ⟨hlt, g2, g3⟩ (hn j)
    · have e : j = s.trk.length := by simp at g1; omega
      subst e
      rw [getT_append_length] at g3
      exact ⟨rfl, g3⟩
  cases hcase with
  | aborting ha => intro j hj; exact absurd hj (hn j)
  | ready tasks rest ha hr htn =>
    intro j hj
    obtain ⟨e, _⟩ := happ _ _ rfl j hj
    rw [e]
  | raised m evs dead pl ha hr hf hsd =>
    intro j hj
    obtain ⟨_, e⟩ := happ _ _ rfl j hj
    exact absurd rfl e
  | empty evs dead raised pl ha hr hf => intro j hj; exact absurd hj (hn j)
  | pulled m evs dead raised pl tasks rest ha hr hf hm htn hrest hfl =>
    intro j hj
    obtain ⟨e, _⟩ := happ _ _ rfl j hj
    rw [e]

theorem DLCase.pc {c : Cfg} {t : Tid} {fo : Bool} {bs : Nat} {s s' : St} {r : DRes}
    (hcase : DLCase c t fo bs s s' r) : s'.pc = s.pc := by
  cases hcase <;> rfl

/-! ### the caller -/

macro "s4move" h4:ident hpc:ident : tactic => `(tactic|
  (apply Inv4.sameKeys $h4 <;>
   first
   | rfl
   | (intros; simp [$hpc:ident])
   | (intros; simp [afterDispatch]; (repeat' split) <;> simp)))

theorem stepCaller_inv4 {c : Cfg} {s : St} (h : Inv c s) (h4 : Inv4 s)
    (he : callerEnabled s = true) : Inv4 (stepCaller c s) := by
  cases hpc : s.pc with
  | resetAcq => unfold stepCaller; simp only [hpc]; split <;> s4move h4 hpc
  | resetRel => unfold stepCaller; simp only [hpc]; s4move h4 hpc
  | wNDisp => unfold stepCaller; simp only [hpc]; s4move h4 hpc
  | wNComp => unfold stepCaller; simp only [hpc]; s4move h4 hpc
  | wExc0 => unfold stepCaller; simp only [hpc]; s4move h4 hpc
  | wAbort0 => unfold stepCaller; simp only [hpc]; s4move h4 hpc
  | readyAcq => unfold stepCaller; simp only [hpc]; s4move h4 hpc
  | readyRel => unfold stepCaller; simp only [hpc]; s4move h4 hpc
  | wOrig => unfold stepCaller; simp only [hpc]; split <;> s4move h4 hpc
  | wIter0 => unfold stepCaller; simp only [hpc]; s4move h4 hpc
  | dPre k =>
    unfold stepCaller; simp only [hpc]
    cases k <;> simp only [afterDispatch] <;> (repeat' split) <;> s4move h4 hpc
  | dBs k => unfold stepCaller; simp only [hpc]; s4move h4 hpc
  | dAcq k bs =>
    unfold stepCaller; simp only [hpc]
    have hlk : s.lockOwner = none := by simpa [callerEnabled, hpc, Pc.isAcq] using he
    have hni : NoIdle s := h4.noIdle (noSubmit_of_free h hlk)
    have h0 : Inv c { s with lockOwner := some 0, pc := .dIn k } := by
      apply h.callerStep <;> first | rfl | simp [hpc, Pc.holding, Pc.preDispatch, hlk]
    obtain ⟨s', r, hd, hcase⟩ := dispatchLocked_cases h0.S h0.C.readyNe 0 false bs
    rw [hd]
    have hid := hcase.idle (s := { s with lockOwner := some 0, pc := .dIn k }) hni
    cases r with
    | submit j =>
      simp only
      refine ⟨fun k' hh => (by cases hh), fun j' hj' => ?_⟩
      have := hid j' hj'
      simp only [DRes.submit.injEq] at this
      exact Or.inl ⟨k, by rw [this]⟩
    | ret b =>
      simp only
      refine ⟨fun k' hh => (by cases hh), fun j' hj' => ?_⟩
      have := hid j' hj'
      cases this
  | dIn k => exact absurd hpc (h4.noIn k)
  | dSubmit k j =>
    unfold stepCaller; simp only [hpc]
    have hlk : s.lockOwner = some 0 := h.L.caller (by rw [hpc]; rfl)
    refine Inv4.ofNoIdle (fun k' hh => by cases hh) (fun j' hj' => ?_)
    have htrk : ({ doSubmit 0 j { s with pc := .dIn k } with lockOwner := none, pc := Pc.dRel k true } : St).trk =
        s.trk.set j { getT s.trk j with pc := .parked } := rfl
    obtain ⟨hj0, hne⟩ := hj'.of_set htrk (by simp)
    rcases h4.idle j' hj0 with ⟨k', hk'⟩ | ⟨i', hi', hpi⟩
    · rw [hpc] at hk'
      simp only [Pc.dSubmit.injEq] at hk'
      exact hne hk'.2.symm
    · have := h.L.cb i' hi' (by rw [getTrk_def, hpi]; rfl)
      rw [hlk] at this; cases this
  | dRel k r =>
    unfold stepCaller; simp only [hpc]
    cases k <;> cases r <;> simp only [afterDispatch] <;> (repeat' split) <;> s4move h4 hpc
  | itAcq => unfold stepCaller; simp only [hpc]; s4move h4 hpc
  | itRel => unfold stepCaller; simp only [hpc]; s4move h4 hpc
  | wIterAll => unfold stepCaller; simp only [hpc]; s4move h4 hpc
  | wtAbort => unfold stepCaller; simp only [hpc]; split <;> s4move h4 hpc
  | wtIter => unfold stepCaller; simp only [hpc]; split <;> s4move h4 hpc
  | wtNComp => unfold stepCaller; simp only [hpc]; s4move h4 hpc
  | wtNDisp nc => unfold stepCaller; simp only [hpc]; (repeat' split) <;> s4move h4 hpc
  | wtAbort2 => unfold stepCaller; simp only [hpc]; split <;> s4move h4 hpc
  | rtAbort => unfold stepCaller; simp only [hpc]; split <;> s4move h4 hpc
  | rtLen => unfold stepCaller; simp only [hpc]; split <;> s4move h4 hpc
  | rtHead => unfold stepCaller; simp only [hpc]; split <;> s4move h4 hpc
  | rtStatus i => unfold stepCaller; simp only [hpc]; split <;> s4move h4 hpc
  | sleep => unfold stepCaller; simp only [hpc]; s4move h4 hpc
  | popAcq => unfold stepCaller; simp only [hpc]; split <;> s4move h4 hpc
  | popRel i => unfold stepCaller; simp only [hpc]; s4move h4 hpc
  | refAcq => unfold stepCaller; simp only [hpc]; s4move h4 hpc
  | refRel e => cases e <;> (unfold stepCaller; simp only [hpc]; s4move h4 hpc)
  | excW e => unfold stepCaller; simp only [hpc]; s4move h4 hpc
  | abortW e => unfold stepCaller; simp only [hpc]; split <;> s4move h4 hpc
  | finExc e => unfold stepCaller; simp only [hpc]; split <;> s4move h4 hpc
  | finJobsR e => unfold stepCaller; simp only [hpc]; s4move h4 hpc
  | done => unfold stepCaller; simp only [hpc]; exact h4
  | resStatus i =>
    unfold stepCaller; simp only [hpc]
    have hk := key_returnOrRaise s i
    generalize returnOrRaise s i = x at hk ⊢
    obtain ⟨s', r⟩ := x
    simp only at hk
    cases r with
    | error e => simp only; exact h4.sameKeys hk (by intro _ hh; cases hh) (by intros; simp [hpc])
    | ok l =>
      simp only
      exact h4.sameKeys (by simpa using hk) (by intro _ hh; cases hh) (by intros; simp [hpc])
  | refStatus i =>
    unfold stepCaller; simp only [hpc]
    have hk := key_returnOrRaise s i
    generalize returnOrRaise s i = x at hk ⊢
    obtain ⟨s', r⟩ := x
    simp only at hk
    cases r with
    | error e => simp only; exact h4.sameKeys hk (by intro _ hh; cases hh) (by intros; simp [hpc])
    | ok l => simp only; exact h4.sameKeys hk (by intro _ hh; cases hh) (by intros; simp [hpc])
  | tailStatus i rem =>
    unfold stepCaller; simp only [hpc]
    have hk := key_returnOrRaise s i
    generalize returnOrRaise s i = x at hk ⊢
    obtain ⟨s', r⟩ := x
    simp only at hk
    cases r with
    | error e =>
      simp only
      exact h4.sameKeys (by simpa using hk) (by intro _ hh; simp at hh) (by intros; simp [hpc])
    | ok l =>
      simp only
      cases rem with
      | nil =>
        simp only [tailNext]
        exact h4.sameKeys (by simpa using hk) (by intro _ hh; simp at hh) (by intros; simp [hpc])
      | cons i' rest =>
        simp only [tailNext]
        exact h4.sameKeys (by simpa using hk) (by intro _ hh; cases hh) (by intros; simp [hpc])
  | finJobsW e rem =>
    unfold stepCaller; simp only [hpc]
    cases e with
    | some e =>
      simp only
      exact h4.sameKeys rfl (by intro _ hh; simp at hh) (by intros; simp [hpc])
    | none =>
      simp only
      cases rem with
      | nil =>
        simp only [tailNext]
        exact h4.sameKeys (by simp) (by intro _ hh; simp at hh) (by intros; simp [hpc])
      | cons i' rest =>
        simp only [tailNext]
        exact h4.sameKeys rfl (by intro _ hh; cases hh) (by intros; simp [hpc])
  | abortCall e =>
    unfold stepCaller; simp only [hpc]
    have hX : ∀ (X : St), X = (if c.abortDrops = true then dropParked (ev s .abort) else ev s .abort) →
        ∀ (Y : St), Y.trk = X.trk → (∀ k, Y.pc ≠ .dIn k) → Inv4 Y := by
      intro X hX Y hY hn
      subst hX
      split at hY
      · refine ⟨hn, fun j hj => ?_⟩
        obtain ⟨g1, g2, g3⟩ := hj
        rw [hY] at g1 g2 g3
        simp only [dropParked_trk, ev_trk, List.length_map] at g1 g2 g3
        rw [getT_map _ _ _ g1] at g2 g3
        have hj0 : IdleNe s j := by
          refine ⟨g1, ?_, ?_⟩
          · split at g2
            · cases g2
            · exact g2
          · split at g3 <;> exact g3
        rcases h4.idle j hj0 with ⟨k, hk⟩ | ⟨i', hi', hpi⟩
        · rw [hpc] at hk; cases hk
        · refine Or.inr ⟨i', by rw [hY]; simpa using hi', ?_⟩
          rw [hY]
          simp only [dropParked_trk, ev_trk]
          rw [getT_map _ _ _ hi']
          have : ¬ ((getT s.trk i').pc == CbPc.parked) = true := by rw [hpi]; simp
          rw [if_neg this]; exact hpi
      · exact h4.sameKeys (s' := Y) (by rw [hY]; rfl) hn (by intros; simp [hpc])
    exact hX _ rfl _ rfl (by intro _ hh; cases hh)

/-! ### callbacks and the environment -/

theorem cbDispatch_inv4 {c : Cfg} {s : St} {i : Nat} (h : Inv c s) (h4 : Inv4 s) (hi : i < s.trk.length)
    (hpc : (getT s.trk i).pc = .bsC) (hl : s.lockOwner = some (i + 1)) (bs : Nat) :
    Inv4 (cbDispatchResult i (dispatchLocked c (i + 1) true bs s)) := by
  have hni : NoIdle s := h4.noIdle (noSubmit_of_owner h hl (by intro j hh; rw [hpc] at hh; cases hh))
  obtain ⟨s', r, hd, hcase⟩ := dispatchLocked_cases h.S h.C.readyNe (i + 1) true bs
  rw [hd]
  have hid := hcase.idle hni
  have hp := hcase.pc
  obtain ⟨new, hnew⟩ := hcase.trk_append
  have hi2 : i < s'.trk.length := by rw [hnew]; simp; omega
  cases r with
  | submit j =>
    simp only [cbDispatchResult]
    refine ⟨fun k => by show s'.pc ≠ _; rw [hp]; exact h4.noIn k, fun j' hj' => ?_⟩
    obtain ⟨hj0, _⟩ := hj'.of_set (s := s') (t' := { getT s'.trk i with pc := .submitC j }) rfl (by simp)
    have := hid j' hj0
    simp only [DRes.submit.injEq] at this
    refine Or.inr ⟨i, by simpa using hi2, ?_⟩
    simp [hi2, this]
  | ret b =>
    simp only [cbDispatchResult]
    refine Inv4.ofNoIdle (fun k => ?_) (fun j' hj' => ?_)
    · have : (cbAfterDispatch i s' b).pc = s'.pc := by unfold cbAfterDispatch; cases b <;> rfl
      rw [this, hp]; exact h4.noIn k
    · have htrk : (cbAfterDispatch i s' b).trk = s'.trk.set i { getT s'.trk i with pc := .relC } := by
        unfold cbAfterDispatch; cases b <;> rfl
      obtain ⟨hj0, _⟩ := hj'.of_set htrk (by simp)
      have := hid j' hj0
      cases this

theorem pull_pc (c : Cfg) (t : Tid) (fo : Bool) (k : Nat) (s : St) : (pull c t fo k s).1.pc = s.pc := by
  unfold pull; simp only; split <;> rfl

theorem dispatchTasks_pc (s : St) (tasks : List Nat) : (dispatchTasks s tasks).1.pc = s.pc := by
  unfold dispatchTasks; split
  · rfl
  · split <;> rfl

theorem dispatchLocked_pc (c : Cfg) (t : Tid) (fo : Bool) (bs : Nat) (s : St) :
    (dispatchLocked c t fo bs s).1.pc = s.pc := by
  unfold dispatchLocked
  split
  · rfl
  · split
    · exact dispatchTasks_pc _ _
    · have hp := pull_pc c t fo (bs * c.nj) s
      simp only
      generalize pull c t fo (bs * c.nj) s = x at hp ⊢
      obtain ⟨s1, islice, raised⟩ := x
      simp only at hp ⊢
      split
      · exact hp
      · split
        · exact hp
        · split
          · exact hp
          · rw [dispatchTasks_pc]; exact hp

@[simp] theorem cbAfterDispatch_trk (i : Nat) (s : St) (r : Bool) :
    (cbAfterDispatch i s r).trk = s.trk.set i { getT s.trk i with pc := .relC } := by
  unfold cbAfterDispatch; cases r <;> rfl

@[simp] theorem cbAfterDispatch_pc (i : Nat) (s : St) (r : Bool) : (cbAfterDispatch i s r).pc = s.pc := by
  unfold cbAfterDispatch; cases r <;> rfl

theorem cbDispatchResult_pc (i : Nat) (x : St × DRes) : (cbDispatchResult i x).pc = x.1.pc := by
  obtain ⟨s', r⟩ := x
  cases r with
  | submit j => rfl
  | ret b => simp [cbDispatchResult]

theorem stepCb_pc (c : Cfg) (i : Nat) (s : St) : (stepCb c i s).pc = s.pc := by
  unfold stepCb
  simp only
  split
  · split
    · rfl
    · split <;> rfl
  · split
    · rfl
    · split <;> rfl
  · rfl
  · rfl
  · split
    · split
      · simp
      · split
        · rfl
        · rw [cbDispatchResult_pc, dispatchLocked_pc]; rfl
    · rfl
  · rw [cbDispatchResult_pc, dispatchLocked_pc]
  · simp
  · rfl
  · rfl

theorem complete_pc (c : Cfg) (i : Nat) (s : St) : (complete c i s).pc = s.pc := rfl

theorem step_pc_done {c : Cfg} {s : St} (a : Act) (h : s.pc = .done) : (step c s a).pc = .done := by
  cases a with
  | thread t =>
    cases t with
    | zero =>
      have : callerEnabled s = false := by simp [callerEnabled, h]
      simp [step, this, h]
    | succ i =>
      simp only [step]
      split
      · rw [stepCb_pc]; exact h
      · exact h
  | complete k =>
    simp only [step]
    split
    · rw [complete_pc]; exact h
    · exact h

theorem stepCb_inv4 {c : Cfg} {s : St} {i : Nat} (h : Inv c s) (h4 : Inv4 s) (he : cbEnabled s i = true) :
    Inv4 (stepCb c i s) := by
  have hi := cbEnabled_lt he
  have hmem := getT_mem _ _ hi
  have h0 := h.T _ hmem
  unfold stepCb
  simp only
  have hgt : getTrk s i = getT s.trk i := rfl
  cases hpc : (getTrk s i).pc with
  | acqA =>
    rw [hgt] at hpc
    have hold : ∀ j, (getT s.trk i).pc ≠ .submitC j := by intro j hh; rw [hpc] at hh; cases hh
    simp only
    split
    · exact h4.setPc (t' := { getT s.trk i with pc := .relA false }) rfl rfl hold (by simp)
    · split
      · exact h4.setPc (t' := { getT s.trk i with pc := .relA false }) rfl rfl hold (by simp)
      · exact h4.setPc (t' := { getT s.trk i with pc := .retr }) rfl rfl hold (by simp)
  | retr =>
    rw [hgt] at hpc
    have hold : ∀ j, (getT s.trk i).pc ≠ .submitC j := by intro j hh; rw [hpc] at hh; cases hh
    simp only
    split
    · exact h4.setPc (t' := { getT s.trk i with pc := .relA ((getT s.trk i).failed == none) }) rfl rfl hold (by simp)
    · split
      · exact h4.setPc (i := i) rfl rfl hold (by simp)
      · exact h4.setPc (i := i) rfl rfl hold (by simp)
  | relA ok =>
    rw [hgt] at hpc
    have hold : ∀ j, (getT s.trk i).pc ≠ .submitC j := by intro j hh; rw [hpc] at hh; cases hh
    exact h4.setPc (t' := { getT s.trk i with pc := if ok then .stats else .done false }) rfl rfl hold
      (by cases ok <;> simp)
  | stats =>
    rw [hgt] at hpc
    have hold : ∀ j, (getT s.trk i).pc ≠ .submitC j := by intro j hh; rw [hpc] at hh; cases hh
    exact h4.setPc (t' := { getT s.trk i with pc := .acqC }) rfl rfl hold (by simp)
  | acqC =>
    have hlk : s.lockOwner = none := by
      unfold cbEnabled at he; rw [hpc] at he; simpa using he
    rw [hgt] at hpc
    have hold : ∀ j, (getT s.trk i).pc ≠ .submitC j := by intro j hh; rw [hpc] at hh; cases hh
    have hst : (getT s.trk i).status = .done := by have := h0.pcst; rw [hpc] at this; exact this
    have hnorm := trk_normal h0 (by rw [hpc]; simp)
    simp only
    by_cases ho : s.origAlive = true
    · rw [if_pos ho]
      have h1 : Inv c (setCb { s with lockOwner := some (i + 1), nCompleted := s.nCompleted + (getTrk s i).bsize } i .bsC) :=
        h.movePc hi .bsC rfl ⟨rfl, rfl, rfl, rfl, rfl, rfl, rfl⟩ id (by simp [hpc]) hst
          (by simp [hpc, CbPc.started]) (by simp) (by simp [CbPc.holding]) (fun _ _ => hlk)
          (by simp [hpc, CbPc.counted, hnorm.2]) (by simp)
      have h41 : Inv4 (setCb { s with lockOwner := some (i + 1), nCompleted := s.nCompleted + (getTrk s i).bsize } i .bsC) :=
        h4.setPc (t' := { getT s.trk i with pc := .bsC }) rfl rfl hold (by simp)
      have hi1 : i < (setCb { s with lockOwner := some (i + 1), nCompleted := s.nCompleted + (getTrk s i).bsize } i .bsC).trk.length := by
        simpa using hi
      have hpc1 : (getT (setCb { s with lockOwner := some (i + 1), nCompleted := s.nCompleted + (getTrk s i).bsize } i .bsC).trk i).pc = .bsC := by
        simp [hi]
      have hl1 : (setCb { s with lockOwner := some (i + 1), nCompleted := s.nCompleted + (getTrk s i).bsize } i .bsC).lockOwner = some (i + 1) := rfl
      generalize setCb { s with lockOwner := some (i + 1), nCompleted := s.nCompleted + (getTrk s i).bsize } i .bsC = s1 at *
      have hold1 : ∀ j, (getT s1.trk i).pc ≠ .submitC j := by intro j hh; rw [hpc1] at hh; cases hh
      by_cases hab : s1.aborting = true
      · rw [if_pos hab]
        exact h41.setPc (cbAfterDispatch_trk i s1 false) (cbAfterDispatch_pc i s1 false) hold1 (by simp)
      · rw [if_neg hab]
        by_cases hau : c.bsAuto = true
        · rw [if_pos hau]; exact h41
        · rw [if_neg hau]; exact cbDispatch_inv4 h1 h41 hi1 hpc1 hl1 _
    · rw [if_neg ho]
      exact h4.setPc (t' := { getT s.trk i with pc := .relC }) rfl rfl hold (by simp)
  | bsC =>
    rw [hgt] at hpc
    have hl : s.lockOwner = some (i + 1) := h.L.cb i hi (by rw [hgt, hpc]; rfl)
    simp only
    have h1 : Inv c { s with bsI := s.bsI + 1 } := h.congr rfl rfl rfl rfl rfl rfl rfl rfl rfl rfl rfl rfl rfl rfl
    have h41 : Inv4 { s with bsI := s.bsI + 1 } := ⟨h4.noIn, h4.idle⟩
    exact cbDispatch_inv4 h1 h41 hi hpc hl _
  | submitC j =>
    rw [hgt] at hpc
    have hl : s.lockOwner = some (i + 1) := h.L.cb i hi (by rw [hgt, hpc]; rfl)
    simp only
    refine Inv4.ofNoIdle (fun k => ?_) (fun j' hj' => ?_)
    · simp only [cbAfterDispatch_pc, doSubmit_pc, setCb_pc]; exact h4.noIn k
    · obtain ⟨hj1, _⟩ := hj'.of_set (cbAfterDispatch_trk i _ true) (by simp)
      obtain ⟨hj2, hne2⟩ := hj1.of_set (doSubmit_trk (i + 1) j (setCb s i .bsC)) (by simp)
      obtain ⟨hj3, _⟩ := hj2.of_set (setCb_trk s i .bsC) (by simp)
      rcases h4.idle j' hj3 with ⟨k', hk'⟩ | ⟨i', hi', hpi⟩
      · have := h.L.caller (by rw [hk']; rfl)
        rw [hl] at this; cases this
      · have := h.L.cb i' hi' (by rw [getTrk_def, hpi]; rfl)
        rw [hl] at this
        have e : i = i' := by simpa using this
        subst e
        rw [hpc] at hpi
        simp only [CbPc.submitC.injEq] at hpi
        exact hne2 hpi.symm
  | relC =>
    rw [hgt] at hpc
    have hold : ∀ j, (getT s.trk i).pc ≠ .submitC j := by intro j hh; rw [hpc] at hh; cases hh
    exact h4.setPc (t' := { getT s.trk i with pc := .done true }) rfl rfl hold (by simp)
  | idle => exact h4
  | parked => exact h4
  | dropped => exact h4
  | done b => exact h4

theorem complete_inv4 {c : Cfg} {s : St} {i : Nat} (h4 : Inv4 s)
    (hpc : (getTrk s i).pc = .parked) : Inv4 (complete c i s) := by
  unfold complete
  simp only
  exact h4.setPc (i := i) rfl rfl (by intro j hh; rw [getTrk_def] at hpc; rw [hpc] at hh; cases hh) (by simp)

theorem step_inv4 {c : Cfg} {s : St} (h : Inv c s) (h4 : Inv4 s) (a : Act) : Inv4 (step c s a) := by
  cases a with
  | thread t =>
    cases t with
    | zero =>
      simp only [step]
      split
      · rename_i he; exact stepCaller_inv4 h h4 he
      · exact h4
    | succ i =>
      simp only [step]
      split
      · rename_i he; exact stepCb_inv4 h h4 he
      · exact h4
  | complete k =>
    simp only [step]
    split
    · rename_i i hk
      obtain ⟨hi, hp⟩ := parkedIds_spec hk
      exact complete_inv4 h4 hp
    · exact h4

theorem run_inv4 {c : Cfg} (sched : List Act) :
    ∀ {s : St}, Inv c s → Inv4 s → Inv4 (run c s sched) := by
  induction sched with
  | nil => intro s _ h4; exact h4
  | cons a r ih =>
    intro s h h4
    exact ih (step_inv h a) (step_inv4 h h4 a)

end JoblibModel.ParallelLock
