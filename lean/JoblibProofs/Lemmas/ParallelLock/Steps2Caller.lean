import JoblibProofs.Lemmas.ParallelLock.Move2
/-!
M1L proofs — `Inv2` is preserved by every step of the caller thread.
-/
namespace JoblibModel.ParallelLock

/-- `s'` agrees with `s` on every field the generic parts of `Inv2` mention, except the caller's pc. -/
structure Core2Eq (s s' : St) : Prop where
  out : s'.out = s.out
  outcome : s'.outcome = s.outcome
  srcDead : s'.srcDead = s.srcDead
  srcRaised : s'.srcRaised = s.srcRaised
  origAlive : s'.origAlive = s.origAlive
  ready : s'.ready = s.ready
  jobs : s'.jobs = s.jobs
  trk : s'.trk = s.trk
  nPop : s'.nPop = s.nPop
  preLeft : s'.preLeft = s.preLeft

theorem Stuck.congr {s s' : St} (h : Stuck s) (e1 : s'.trk = s.trk) (e2 : s'.ready = s.ready)
    (e3 : s'.srcDead = s.srcDead) : Stuck s' := by
  unfold Stuck at *
  rw [allItems_of_trk e1, e2, e3]; exact h

/-- A move of the caller that only changes its pc (and fields `Inv2` does not mention, or flags going up). -/
theorem Inv2.pcMove {c : Cfg} {s s' : St} (h2 : Inv2 c s) (e : Core2Eq s s')
    (a_up : s.aborting = true → s'.aborting = true)
    (a_new : s'.aborting = true → s.aborting = true ∨ s'.pc.inAbort = true)
    (x_up : s.exception = true → s'.exception = true)
    (x_new : s'.exception = true → s.exception = true ∨ s'.pc.inExc = true)
    (c_abort : s.pc.inAbort = true → s'.pc.inAbort = true)
    (c_exc : s.pc.inExc = true → s'.pc.inExc = true)
    (c_path : s'.pc.excPath = false → s.pc.excPath = false)
    (c_unread : s'.pc.excPath = false → unread s' = unread s)
    (c_fin : s'.pc.beforeFinW = true → s.pc.beforeFinW = true)
    (c_first : s'.pc.afterFirst = true → s'.iterating = false →
      (s.pc.afterFirst = true ∧ s.iterating = false) ∨ s.origAlive = false ∨ Stuck s)
    (c_orig : s'.pc.pastWOrig = true → s.pc.pastWOrig = true)
    (c_loop : s'.pc.postLoop = true → s.aborting = false → c.pdMode = 1 →
      s.pc.postLoop = true ∨ (s.ready = [] ∧ s.srcDead = true))
    (c_done : s.pc ≠ .done)
    (hloc : LocOK c s') : Inv2 c s' := by
  obtain ⟨e1, e2, e3, e4, e5, e6, e7, e8, e12, e13⟩ := e
  refine h2.move (TrkRel.of_eq e8) e3 e4 e6 e5 e13 (fun _ j _ => by rw [e8]) a_up a_new x_up x_new c_abort c_exc c_path
    (fun hp => by rw [c_unread hp]; exact Nat.le_refl _) ?_ ?_ ?_ ?_ c_first c_orig c_loop ?_ ?_ ?_ hloc
  · intro hp j h1 h3; rw [c_unread hp] at h3; omega
  · intro hp; rw [e1, c_unread hp]; exact h2.D.out (c_path hp)
  · rw [e12]; exact h2.D.nPopLe
  · intro hp; rw [e7, e12]; exact h2.D.jobs (c_fin hp)
  · intro l hl; rw [e2] at hl; exact Or.inl hl
  · intro x hx; rw [e2] at hx; exact Or.inl hx
  · intro _; rw [e2]; exact h2.O.noOutcome c_done

/-- Before anything was dispatched (`Fresh`) `Inv2` only says what the set-up of `__call__` has done. -/
theorem Inv2.ofFresh {c : Cfg} {s : St} (hf : Fresh s) (hp : s.pc.preDispatch = true ∨ s.pc.firstPhase = true)
    (ha : s.aborting = false) (hx : s.exception = false) (ho : s.outcome = none)
    (hm : c.pdMode = 1 → s.origAlive = false)
    (hpre : c.pdMode = 1 → s.pc.pastWOrig = true → s.preLeft = none)
    (hor : s.pc.pastWOrig = true → c.pdMode ≠ 1 → s.origAlive = true)
    (hloc : LocOK c s) : Inv2 c s := by
  have hne : s.pc.excPath = false := by
    cases hpc : s.pc <;> simp_all [Pc.excPath, Pc.inExc, Pc.inAbort, Pc.preDispatch, Pc.firstPhase]
  have hun : unread s = s.nPop := by
    cases hpc : s.pc <;> simp_all [unread, Pc.preDispatch, Pc.firstPhase]
  have hnaf : s.pc.afterFirst = false := by
    cases hpc : s.pc <;> simp_all [Pc.afterFirst, Pc.preDispatch, Pc.firstPhase]
  have hnpl : s.pc.postLoop = false := by
    cases hpc : s.pc <;> simp_all [Pc.postLoop, Pc.preDispatch, Pc.firstPhase]
  have hnd : s.pc ≠ .done := by
    intro hd; rw [hd] at hp; simp [Pc.preDispatch, Pc.firstPhase] at hp
  refine ⟨⟨?_, ?_, ?_, ?_⟩, ⟨?_, ?_⟩, ⟨?_, ?_, ?_, ?_⟩, ⟨hm, hpre, ?_, ?_, ?_, ?_⟩, hloc, ⟨?_, ?_, ?_⟩⟩
  · rw [hf.trk]; simp
  · rw [ha]; simp
  · rw [hx]; simp
  · rw [hf.src.2.2]; simp
  · intro _ j _ hj; rw [hf.trk] at hj; simp at hj
  · intro _ j _ hj; rw [hf.trk] at hj; simp at hj
  · intro _ j _ hj; rw [hf.trk] at hj; simp at hj
  · intro _; rw [hun, hf.jobs.2.1, hf.jobs.2.2, hf.trk]; rfl
  · rw [hf.jobs.2.1]; exact Nat.zero_le _
  · intro _; rw [hf.jobs.1, hf.jobs.2.1, hf.trk]; rfl
  · intro h; rw [hnaf] at h; cases h
  · intro _ h1 h2 h3; rw [hor h1 h2] at h3; cases h3
  · intro _ _ h; rw [hnpl] at h; cases h
  · rw [hf.trk]; simp
  · intro l hl; rw [ho] at hl; cases hl
  · intro e hl; rw [ho] at hl; cases hl
  · intro _; exact ho

end JoblibModel.ParallelLock
