import JoblibProofs.Lemmas.ParallelLock.Append2
/-!
M1L proofs — the caller's `dispatch_one_batch` step from the lock acquisition (`Pc.dAcq`) preserves `Inv2`.
-/
namespace JoblibModel.ParallelLock

theorem scriptedBs_pos {c : Cfg} (hc : CfgOK c) (s : St) : 1 ≤ scriptedBs c s := by
  unfold scriptedBs
  rw [List.getD_eq_getElem?_getD]
  cases h : c.bs[min s.bsI (c.bs.length - 1)]? with
  | none => simp
  | some b => simp; exact hc.bs b (List.mem_of_getElem? h)

/-- `dispatch_one_batch` returned False although no error was flagged: the input is exhausted. -/
theorem DLCase.ret_false {c : Cfg} {t : Tid} {fo : Bool} {bs : Nat} {s s' : St}
    (hcase : DLCase c t fo bs s s' (.ret false)) (hlim : 1 ≤ pullLim fo (bs * c.nj) s) (ha : s'.aborting = false) :
    s'.ready = [] ∧ s'.srcDead = true ∧ s'.trk = s.trk := by
  cases hcase with
  | aborting ha' => rw [ha'] at ha; cases ha
  | empty evs dead raised pl ha' hr hf =>
    exact ⟨hr, hf.short (by omega), rfl⟩

theorem mul_pos_of {a b : Nat} (ha : 1 ≤ a) (hb : 1 ≤ b) : 1 ≤ a * b := Nat.mul_le_mul ha hb

theorem dAcq_inv2 {c : Cfg} {s : St} (hc : CfgOK c) (hpd : PdOK c) (h : Inv c s) (h2 : Inv2 c s)
    (he : callerEnabled s = true) {k : DK} {bs : Nat} (hpc : s.pc = .dAcq k bs) : Inv2 c (stepCaller c s) := by
  have hL := h2.L
  have hnd : s.pc ≠ .done := by rw [hpc]; intro hh; cases hh
  have hlk : s.lockOwner = none := by simpa [callerEnabled, hpc, Pc.isAcq] using he
  have hbs : 1 ≤ bs := by
    simp only [LocOK, hpc] at hL
    cases k with
    | first => exact hL.2
    | loop => exact hL
  unfold stepCaller; simp only [hpc]
  have h0 : Inv c { s with lockOwner := some 0, pc := .dIn k } := by
    apply h.callerStep <;> first | rfl | simp [hpc, Pc.holding, Pc.preDispatch, hlk]
  have h20 : Inv2 c { s with lockOwner := some 0, pc := .dIn k } := by
    apply Inv2.pcMove h2 <;> first
      | exact ⟨rfl, rfl, rfl, rfl, rfl, rfl, rfl, rfl, rfl, rfl⟩
      | simp [hpc, unread, LocOK, Pc.inAbort, Pc.inExc, Pc.excPath, Pc.beforeFinW, Pc.afterFirst, Pc.preDispatch,
          Pc.firstPhase, Pc.pastWOrig, Pc.postLoop]
  obtain ⟨s', r, hd, hcase⟩ := dispatchLocked_cases h0.S h0.C.readyNe 0 false bs
  rw [hd]
  obtain ⟨h1, hsub, hlo, hp⟩ := hcase.inv h0 rfl
  obtain ⟨h21, K⟩ := hcase.inv2 h0 h20 (Or.inl ⟨rfl, k, rfl⟩)
  have hp' : s'.pc = .dIn k := hp
  have hnd' : s'.pc ≠ .done := by rw [hp']; intro hh; cases hh
  -- `_iterating` cleared ⇒ nothing can be dispatched any more, carried across the marker pc (loop case)
  have Kloop : k = .loop → s'.iterating = false → s'.origAlive = false ∨ Stuck s' := by
    intro hk
    subst hk
    apply K
    intro hi
    have := h2.I.afterFirst (by rw [hpc]; rfl) hi
    rcases this with h3 | h3
    · exact Or.inl h3
    · exact Or.inr (h3.congr rfl rfl rfl)
  cases r with
  | submit j =>
    simp only
    apply Inv2.pcMove h21 <;> first
      | exact ⟨rfl, rfl, rfl, rfl, rfl, rfl, rfl, rfl, rfl, rfl⟩
      | simp [hp', unread, LocOK, Pc.inAbort, Pc.inExc, Pc.excPath, Pc.beforeFinW, Pc.preDispatch,
          Pc.firstPhase, Pc.pastWOrig, Pc.postLoop]
    case c_first =>
      cases k with
      | first => simp [Pc.afterFirst]
      | loop => intro _ hi; exact Or.inr (Kloop rfl hi)
  | ret b =>
    simp only
    apply Inv2.pcMove h21 <;> first
      | exact ⟨rfl, rfl, rfl, rfl, rfl, rfl, rfl, rfl, rfl, rfl⟩
      | simp [hp', unread, LocOK, Pc.inAbort, Pc.inExc, Pc.excPath, Pc.beforeFinW, Pc.preDispatch,
          Pc.firstPhase, Pc.pastWOrig]
    case c_first =>
      cases k with
      | loop => intro _ hi; exact Or.inr (Kloop rfl hi)
      | first =>
        cases b with
        | true => simp [Pc.afterFirst]
        | false =>
          intro _ _
          -- the very first `dispatch_one_batch` found nothing: the input is empty
          simp only [LocOK, hpc] at hL
          obtain ⟨⟨f, hit, ha, hx, hp0⟩, _⟩ := hL
          have hlim : 1 ≤ pullLim false (bs * c.nj) { s with lockOwner := some 0, pc := .dIn DK.first } := by
            unfold pullLim
            simp only [Bool.false_eq_true, if_false]
            by_cases hm : c.pdMode = 1
            · rw [hp0.1 hm]; exact mul_pos_of hbs hc.nj
            · rw [(hp0.2 hm).2]
              have : 1 ≤ c.pd := by
                rcases hpd with h3 | h3
                · exact absurd h3 hm
                · exact h3
              exact Nat.le_min.mpr ⟨mul_pos_of hbs hc.nj, this⟩
          have hab' : s'.aborting = false := by
            cases hcase with
            | aborting ha' => exact absurd ha' (by simp [ha])
            | empty evs dead raised pl ha' hr hf => exact ha
          obtain ⟨g1, g2, g3⟩ := hcase.ret_false hlim hab'
          refine Or.inr (Or.inr ⟨?_, g1, g2⟩)
          simp only [allItems, g3, f.trk]; rfl
    case c_loop =>
      intro hpl ha' hm
      cases k with
      | first => simp [Pc.postLoop] at hpl
      | loop =>
        cases b with
        | true => simp [Pc.postLoop] at hpl
        | false =>
          have hpre : s.preLeft = none := h2.I.allPre hm (by rw [hpc]; rfl)
          have hlim : 1 ≤ pullLim false (bs * c.nj) { s with lockOwner := some 0, pc := .dIn DK.loop } := by
            unfold pullLim
            simp only [Bool.false_eq_true, if_false, hpre]
            exact mul_pos_of hbs hc.nj
          obtain ⟨g1, g2, _⟩ := hcase.ret_false hlim ha'
          exact Or.inr ⟨g1, g2⟩

end JoblibModel.ParallelLock
