import JoblibProofs.Lemmas.ParallelLock.Steps2CallerB
/-!
M1L proofs — `Inv2` is preserved by every step of a callback thread and by the environment action `complete`;
`step_inv2`, `run_inv2`.
-/
namespace JoblibModel.ParallelLock

/-- Repackaging: `Inv2` does not mention `bsI`. -/
theorem Inv2.bsI {c : Cfg} {s : St} (h : Inv c s) (h2 : Inv2 c s) (hne : s.trk ≠ []) (b : Nat) :
    Inv2 c { s with bsI := b } := by
  have g : Guar s { s with bsI := b } :=
    ⟨rfl, rfl, rfl, Nat.le_refl _, fun _ _ _ => rfl, Nat.le_refl _, id, fun x => ⟨x.1, x.2.1, x.2.2⟩,
      fun x => ⟨⟨x.1, x.2.imp id (fun y => ⟨y.1, y.2.1, y.2.2⟩)⟩, rfl, id⟩, id⟩
  exact ⟨⟨h2.F.errFlags, h2.F.aborting, h2.F.exception, h2.F.raised⟩, ⟨h2.R.done, h2.R.error⟩,
    ⟨h2.D.prefixDone, h2.D.out, h2.D.nPopLe, h2.D.jobs⟩,
    ⟨h2.I.allMode, h2.I.allPre,
      fun hp hi => (h2.I.afterFirst hp hi).imp id (fun y => ⟨y.1, y.2.1, y.2.2⟩),
      h2.I.origDead, h2.I.allDead, h2.I.bsC⟩,
    LocOK.stable h h2.L g hne,
    ⟨fun l hl => ⟨⟨(h2.O.ret l hl).1.1, (h2.O.ret l hl).1.2.imp id (fun y => ⟨y.1, y.2.1, y.2.2⟩)⟩,
        fun hs => (h2.O.ret l hl).2 hs⟩,
      h2.O.raised, h2.O.noOutcome⟩⟩

/-- `CbRel` for a state whose table is `s.trk` with tracker `i` replaced by `t'`. -/
theorem CbRel.ofSet {c : Cfg} {s s' : St} {i : Nat} (hi : i < s.trk.length) (t' : Tracker)
    (htrk : s'.trk = s.trk.set i t')
    (fr : s'.pc = s.pc ∧ s'.out = s.out ∧ s'.outcome = s.outcome ∧ s'.srcDead = s.srcDead ∧
      s'.srcRaised = s.srcRaised ∧ s'.ready = s.ready ∧ s'.jobs = s.jobs ∧ s'.nPop = s.nPop ∧
      s'.preLeft = s.preLeft ∧ s'.running = s.running)
    (hit : t'.items = (getT s.trk i).items) (hnorm : (getT s.trk i).items ≠ [])
    (status :
      (t'.status = (getT s.trk i).status ∧ t'.result = (getT s.trk i).result ∧
        s'.aborting = s.aborting ∧ s'.exception = s.exception) ∨
      ((getT s.trk i).status = .pending ∧ t'.status = .done ∧
        t'.result = .vals (getT s.trk i).items ∧ s'.aborting = s.aborting ∧ s'.exception = s.exception) ∨
      ((getT s.trk i).status = .pending ∧ t'.status = .error ∧
        (∃ e, t'.result = .exc e ∧ LegitErr c e) ∧ s'.aborting = true ∧ s'.exception = true))
    (ncomp : s.nCompleted ≤ s'.nCompleted)
    (origIter : (s'.origAlive = s.origAlive ∧ s'.iterating = s.iterating) ∨
      (s'.origAlive = false ∧ s'.iterating = false ∧
        (∀ j, j ≠ i → j < s.trk.length → (getT s.trk j).pc.inNext = false) ∧
        (s'.aborting = false → c.pdMode ≠ 1 → s.ready = [] ∧ s.srcDead = true)))
    (quietKeep : ((getT s.trk i).pc = .relC ∨ (getT s.trk i).pc = .done true) → (t'.pc = .relC ∨ t'.pc = .done true))
    (bsC : t'.pc.inNext = true → s'.origAlive = true) : CbRel c s s' i := by
  obtain ⟨f1, f2, f3, f4, f5, f6, f7, f8, f9, f10⟩ := fr
  have hg : getT s'.trk i = t' := by rw [htrk]; exact getT_set_self _ _ _ hi
  refine ⟨hi, f1, f2, f3, f4, f5, f6, f7, f8, f9, f10, by rw [htrk]; simp, ?_, by rw [hg]; exact hit, hnorm,
    by rw [hg]; exact status, ncomp, origIter, by rw [hg]; exact quietKeep, by rw [hg]; exact bsC⟩
  intro j hj; rw [htrk]; exact getT_set_ne _ _ _ _ hj


macro "fr10" : term => `(⟨rfl, rfl, rfl, rfl, rfl, rfl, rfl, rfl, rfl, rfl⟩)

/-- A pc-only move of the callback thread of tracker `i` (status, result, flags unchanged). -/
theorem Inv2.cbPc {c : Cfg} {s s' : St} {i : Nat} (h : Inv c s) (h2 : Inv2 c s) (hi : i < s.trk.length) (p : CbPc)
    (htrk : s'.trk = s.trk.set i { getT s.trk i with pc := p })
    (fr : s'.pc = s.pc ∧ s'.out = s.out ∧ s'.outcome = s.outcome ∧ s'.srcDead = s.srcDead ∧
      s'.srcRaised = s.srcRaised ∧ s'.ready = s.ready ∧ s'.jobs = s.jobs ∧ s'.nPop = s.nPop ∧
      s'.preLeft = s.preLeft ∧ s'.running = s.running)
    (fl : s'.aborting = s.aborting ∧ s'.exception = s.exception ∧ s'.origAlive = s.origAlive ∧
      s'.iterating = s.iterating)
    (hact : (getT s.trk i).pc ≠ .idle) (ncomp : s.nCompleted ≤ s'.nCompleted)
    (quietKeep : ((getT s.trk i).pc = .relC ∨ (getT s.trk i).pc = .done true) → (p = .relC ∨ p = .done true))
    (bsC : p.inNext = true → s.origAlive = true) : Inv2 c s' := by
  have h0 := h.T _ (getT_mem _ _ hi)
  exact h2.cbMove h (CbRel.ofSet hi _ htrk fr rfl (trk_normal h0 hact).1 (Or.inl ⟨rfl, rfl, fl.1, fl.2.1⟩) ncomp
    (Or.inl ⟨fl.2.2.1, fl.2.2.2⟩) quietKeep (fun hb => by rw [fl.2.2.1]; exact bsC hb))

/-- End of `dispatch_next` (from the marker pc `bsC`, owning the lock). -/
theorem cbFinish_inv2 {c : Cfg} {s : St} {i : Nat} (h : Inv c s) (h2 : Inv2 c s) (hi : i < s.trk.length)
    (hpc : (getT s.trk i).pc = .bsC) (r : Bool)
    (hclear : r = false → s.aborting = false → c.pdMode ≠ 1 → s.ready = [] ∧ s.srcDead = true) :
    Inv2 c (cbAfterDispatch i s r) := by
  have h0 := h.T _ (getT_mem _ _ hi)
  have hl : s.lockOwner = some (i + 1) := h.L.cb i hi (by rw [getTrk_def, hpc]; rfl)
  unfold cbAfterDispatch
  cases r with
  | true =>
    exact h2.cbPc h hi .relC rfl fr10 ⟨rfl, rfl, rfl, rfl⟩ (by rw [hpc]; simp) (Nat.le_refl _)
      (by rw [hpc]; simp) (by simp [CbPc.inNext])
  | false =>
    refine h2.cbMove h (CbRel.ofSet hi { getT s.trk i with pc := .relC } rfl fr10 rfl
      (trk_normal h0 (by rw [hpc]; simp)).1 (Or.inl ⟨rfl, rfl, rfl, rfl⟩) (Nat.le_refl _)
      (Or.inr ⟨rfl, rfl, ?_, hclear rfl⟩) (by rw [hpc]; simp) (by simp [CbPc.inNext]))
    intro j hji hj
    cases hn : (getT s.trk j).pc.inNext with
    | false => rfl
    | true =>
      exfalso
      have hh : (getTrk s j).pc.holding = true := by
        rw [getTrk_def]
        cases hp : (getT s.trk j).pc <;> simp_all [CbPc.inNext, CbPc.holding]
      have := h.L.cb j hj hh
      rw [hl] at this
      exact hji (by simpa using this.symm)


theorem DLCase.origAlive {c : Cfg} {t : Tid} {fo : Bool} {bs : Nat} {s s' : St} {r : DRes}
    (hc : DLCase c t fo bs s s' r) : s'.origAlive = s.origAlive := by
  cases hc <;> rfl

/-- `dispatch_one_batch(self._original_iterator)` inside `dispatch_next` for the thread of tracker `i`. -/
theorem cbDispatch_inv2 {c : Cfg} {s : St} {i : Nat} (hc : CfgOK c) (h : Inv c s) (h2 : Inv2 c s)
    (hi : i < s.trk.length) (hpc : (getT s.trk i).pc = .bsC) (hl : s.lockOwner = some (i + 1)) (bs : Nat)
    (hbs : 1 ≤ bs) : Inv2 c (cbDispatchResult i (dispatchLocked c (i + 1) true bs s)) := by
  obtain ⟨s', r, hd, hcase⟩ := dispatchLocked_cases h.S h.C.readyNe (i + 1) true bs
  rw [hd]
  obtain ⟨h1, hsub, hlo, hp⟩ := hcase.inv h hl
  have hmem := getT_mem _ _ hi
  have ho : s.origAlive = true := h2.I.bsC _ hmem (by rw [hpc]; rfl)
  have hnorm := trk_normal (h.T _ hmem) (by rw [hpc]; simp)
  obtain ⟨h21, _⟩ := hcase.inv2 h h2 (Or.inr ⟨rfl, ho, i, hi, hnorm.1⟩)
  obtain ⟨new, hnew⟩ := hcase.trk_append
  have hi2 : i < s'.trk.length := by rw [hnew]; simp; omega
  have hg : getT s'.trk i = getT s.trk i := by rw [hnew]; exact getT_append_left _ _ _ hi
  have hpc2 : (getT s'.trk i).pc = .bsC := by rw [hg]; exact hpc
  cases r with
  | submit j =>
    simp only [cbDispatchResult]
    exact h21.cbPc h1 hi2 (.submitC j) rfl fr10 ⟨rfl, rfl, rfl, rfl⟩ (by rw [hpc2]; simp) (Nat.le_refl _)
      (by rw [hpc2]; simp) (fun _ => by rw [hcase.origAlive]; exact ho)
  | ret b =>
    simp only [cbDispatchResult]
    refine cbFinish_inv2 h1 h21 hi2 hpc2 b ?_
    intro hb ha _
    subst hb
    have hlim : 1 ≤ pullLim true (bs * c.nj) s := by
      unfold pullLim; simp only [if_true]; exact mul_pos_of hbs hc.nj
    obtain ⟨g1, g2, _⟩ := hcase.ret_false hlim ha
    exact ⟨g1, g2⟩

theorem find?_mem_fails {c : Cfg} {l : List Nat} {id : Nat}
    (h : l.find? (fun x => c.fails.contains x) = some id) : id ∈ c.fails := by
  have := List.find?_some h
  simpa using this

theorem complete_inv2 {c : Cfg} {s : St} {i : Nat} (h : Inv c s) (h2 : Inv2 c s) (hi : i < s.trk.length)
    (hpc : (getTrk s i).pc = .parked) : Inv2 c (complete c i s) := by
  have hpc' : (getT s.trk i).pc = .parked := hpc
  unfold complete
  simp only
  have h0 := h.T _ (getT_mem _ _ hi)
  exact h2.cbMove h (CbRel.ofSet hi _ rfl fr10 rfl (trk_normal h0 (by rw [hpc']; simp)).1
    (Or.inl ⟨rfl, rfl, rfl, rfl⟩) (Nat.le_refl _) (Or.inl ⟨rfl, rfl⟩) (by rw [hpc']; simp) (by simp [CbPc.inNext]))

theorem stepCb_inv2 {c : Cfg} {s : St} {i : Nat} (hc : CfgOK c) (h : Inv c s) (h2 : Inv2 c s)
    (he : cbEnabled s i = true) : Inv2 c (stepCb c i s) := by
  have hi := cbEnabled_lt he
  have hmem := getT_mem _ _ hi
  have h0 := h.T _ hmem
  unfold stepCb
  simp only
  have hgt : getTrk s i = getT s.trk i := rfl
  cases hpc : (getTrk s i).pc with
  | acqA =>
    rw [hgt] at hpc
    have hrel : Inv2 c (setCb s i (.relA false)) :=
      h2.cbPc h hi _ rfl fr10 ⟨rfl, rfl, rfl, rfl⟩ (by rw [hpc]; simp) (Nat.le_refl _) (by rw [hpc]; simp)
        (by simp [CbPc.inNext])
    simp only
    by_cases hcid : (s.callId != (getTrk s i).callId) = true
    · rw [if_pos hcid]; exact hrel
    · rw [if_neg hcid]
      by_cases hab : s.aborting = true
      · rw [if_pos hab]; exact hrel
      · rw [if_neg hab]
        exact h2.cbPc h hi .retr rfl fr10 ⟨rfl, rfl, rfl, rfl⟩ (by rw [hpc]; simp) (Nat.le_refl _)
          (by rw [hpc]; simp) (by simp [CbPc.inNext])
  | retr =>
    rw [hgt] at hpc
    have hst : (getT s.trk i).status = .pending := by have := h0.pcst; rw [hpc] at this; exact this
    have hnorm := trk_normal h0 (by rw [hpc]; simp)
    have hfl := h0.failed (by simp [hpc, CbPc.started])
    simp only
    have hne : ¬ ((getTrk s i).status != Status.pending) = true := by rw [hgt, hst]; decide
    rw [if_neg hne]
    cases hf : (getTrk s i).failed with
    | some id =>
      simp only
      have hid : id ∈ c.fails := by
        rw [hgt] at hf; rw [hf] at hfl; exact find?_mem_fails hfl.symm
      exact h2.cbMove h (CbRel.ofSet hi _ rfl fr10 rfl hnorm.1
        (Or.inr (Or.inr ⟨hst, rfl, ⟨_, rfl, Or.inl ⟨id, rfl, hid⟩⟩, rfl, rfl⟩)) (Nat.le_refl _) (Or.inl ⟨rfl, rfl⟩)
        (by rw [hpc]; simp) (by simp [CbPc.inNext]))
    | none =>
      simp only
      exact h2.cbMove h (CbRel.ofSet hi _ rfl fr10 rfl hnorm.1
        (Or.inr (Or.inl ⟨hst, rfl, rfl, rfl, rfl⟩)) (Nat.le_refl _) (Or.inl ⟨rfl, rfl⟩)
        (by rw [hpc]; simp) (by simp [CbPc.inNext]))
  | relA ok =>
    rw [hgt] at hpc
    simp only
    cases ok with
    | true =>
      exact h2.cbPc h hi .stats rfl fr10 ⟨rfl, rfl, rfl, rfl⟩ (by rw [hpc]; simp) (Nat.le_refl _)
        (by rw [hpc]; simp) (by simp [CbPc.inNext])
    | false =>
      exact h2.cbPc h hi (.done false) rfl fr10 ⟨rfl, rfl, rfl, rfl⟩ (by rw [hpc]; simp) (Nat.le_refl _)
        (by rw [hpc]; simp) (by simp [CbPc.inNext])
  | stats =>
    rw [hgt] at hpc
    exact h2.cbPc h hi .acqC rfl fr10 ⟨rfl, rfl, rfl, rfl⟩ (by rw [hpc]; simp) (Nat.le_refl _)
      (by rw [hpc]; simp) (by simp [CbPc.inNext])
  | acqC =>
    have hlk : s.lockOwner = none := by
      unfold cbEnabled at he; rw [hpc] at he; simpa using he
    rw [hgt] at hpc
    have hst : (getT s.trk i).status = .done := by have := h0.pcst; rw [hpc] at this; exact this
    have hnorm := trk_normal h0 (by rw [hpc]; simp)
    simp only
    by_cases ho : s.origAlive = true
    · rw [if_pos ho]
      have h1 : Inv c (setCb { s with lockOwner := some (i + 1), nCompleted := s.nCompleted + (getTrk s i).bsize } i .bsC) :=
        h.movePc hi .bsC rfl ⟨rfl, rfl, rfl, rfl, rfl, rfl, rfl⟩ id (by simp [hpc]) hst
          (by simp [hpc, CbPc.started]) (by simp) (by simp [CbPc.holding]) (fun _ _ => hlk)
          (by simp [hpc, CbPc.counted, hnorm.2]) (by simp)
      have h21 : Inv2 c (setCb { s with lockOwner := some (i + 1), nCompleted := s.nCompleted + (getTrk s i).bsize } i .bsC) :=
        h2.cbPc h hi .bsC rfl fr10 ⟨rfl, rfl, rfl, rfl⟩ (by rw [hpc]; simp) (Nat.le_add_right _ _)
          (by rw [hpc]; simp) (fun _ => ho)
      have hi1 : i < (setCb { s with lockOwner := some (i + 1), nCompleted := s.nCompleted + (getTrk s i).bsize } i .bsC).trk.length := by
        simpa using hi
      have hpc1 : (getT (setCb { s with lockOwner := some (i + 1), nCompleted := s.nCompleted + (getTrk s i).bsize } i .bsC).trk i).pc = .bsC := by
        simp [hi]
      have hl1 : (setCb { s with lockOwner := some (i + 1), nCompleted := s.nCompleted + (getTrk s i).bsize } i .bsC).lockOwner = some (i + 1) := rfl
      generalize setCb { s with lockOwner := some (i + 1), nCompleted := s.nCompleted + (getTrk s i).bsize } i .bsC = s1 at *
      by_cases hab : s1.aborting = true
      · rw [if_pos hab]
        exact cbFinish_inv2 h1 h21 hi1 hpc1 false (fun _ ha => by rw [hab] at ha; cases ha)
      · rw [if_neg hab]
        by_cases hau : c.bsAuto = true
        · rw [if_pos hau]; exact h21
        · rw [if_neg hau]; exact cbDispatch_inv2 hc h1 h21 hi1 hpc1 hl1 _ (scriptedBs_pos hc _)
    · rw [if_neg ho]
      exact h2.cbPc h hi .relC rfl fr10 ⟨rfl, rfl, rfl, rfl⟩ (by rw [hpc]; simp) (Nat.le_add_right _ _)
        (by rw [hpc]; simp) (by simp [CbPc.inNext])
  | bsC =>
    rw [hgt] at hpc
    have hl : s.lockOwner = some (i + 1) := h.L.cb i hi (by rw [hgt, hpc]; rfl)
    have hne : s.trk ≠ [] := by intro e; rw [e] at hi; cases hi
    simp only
    have h1 : Inv c { s with bsI := s.bsI + 1 } := h.congr rfl rfl rfl rfl rfl rfl rfl rfl rfl rfl rfl rfl rfl rfl
    exact cbDispatch_inv2 hc h1 (h2.bsI h hne _) hi hpc hl _ (scriptedBs_pos hc _)
  | submitC j =>
    rw [hgt] at hpc
    have hl : s.lockOwner = some (i + 1) := h.L.cb i hi (by rw [hgt, hpc]; rfl)
    have hst : (getT s.trk i).status = .done := by have := h0.pcst; rw [hpc] at this; exact this
    have hpend := h.U.cb i j hi (by rw [hgt]; exact hpc)
    have hji : j ≠ i := by
      intro e; subst e
      have := hpend.2.1; rw [hgt, hpc] at this; cases this
    have ho : s.origAlive = true := h2.I.bsC _ hmem (by rw [hpc]; rfl)
    simp only
    have h1 : Inv c (setCb s i .bsC) :=
      h.movePc hi .bsC rfl ⟨rfl, rfl, rfl, rfl, rfl, rfl, rfl⟩ id (by simp [hpc]) hst
        (by simp [hpc, CbPc.started]) (by simp) (by simp [CbPc.holding, hl]) (by simp [hpc, CbPc.holding])
        (by simp [hpc, CbPc.counted]) (by simp)
    have h21 : Inv2 c (setCb s i .bsC) :=
      h2.cbPc h hi .bsC rfl fr10 ⟨rfl, rfl, rfl, rfl⟩ (by rw [hpc]; simp) (Nat.le_refl _) (by rw [hpc]; simp)
        (fun _ => ho)
    have hpend1 : PendingSubmit (setCb s i .bsC) j := by
      unfold PendingSubmit at hpend ⊢
      simp only [getTrk_def, setCb_trk, List.length_set, getT_set_ne _ _ _ _ hji]
      exact hpend
    have h2s : Inv c (doSubmit (i + 1) j (setCb s i .bsC)) := by
      apply h1.submit hpend1 hl
      · intro k j' e
        have hh : s.pc.holding = true := by
          have : s.pc = .dSubmit k j' := e
          rw [this]; rfl
        have := h.L.caller hh
        rw [hl] at this; cases this
      · intro i' e j'
        have : i' = i := (Nat.succ.inj e).symm
        subst this
        simp [hi]
    have hi1 : i < (setCb s i .bsC).trk.length := by simpa using hi
    have hj1 : j < (setCb s i .bsC).trk.length := by simpa using hpend.1
    -- the submitted tracker `j` goes `idle → parked`: `cbMove` on tracker `j` itself
    have hjnorm : (getT (setCb s i .bsC).trk j).items ≠ [] := hpend1.2.2.2
    have hjidle : (getT (setCb s i .bsC).trk j).pc = .idle := hpend1.2.1
    have h22 : Inv2 c (doSubmit (i + 1) j (setCb s i .bsC)) :=
      h21.cbMove h1 (CbRel.ofSet hj1 { getT (setCb s i .bsC).trk j with pc := .parked } rfl fr10 rfl hjnorm
        (Or.inl ⟨rfl, rfl, rfl, rfl⟩) (Nat.le_refl _) (Or.inl ⟨rfl, rfl⟩) (by rw [hjidle]; simp)
        (by simp [CbPc.inNext]))
    have hi2 : i < (doSubmit (i + 1) j (setCb s i .bsC)).trk.length := by simpa using hi
    have hpc2 : (getT (doSubmit (i + 1) j (setCb s i .bsC)).trk i).pc = .bsC := by
      simp [getT_set_ne _ _ _ _ (Ne.symm hji), hi]
    exact cbFinish_inv2 h2s h22 hi2 hpc2 true (fun hb => by cases hb)
  | relC =>
    rw [hgt] at hpc
    exact h2.cbPc h hi (.done true) rfl fr10 ⟨rfl, rfl, rfl, rfl⟩ (by rw [hpc]; simp) (Nat.le_refl _)
      (fun _ => Or.inr rfl) (by simp [CbPc.inNext])
  | idle => exact h2
  | parked => exact h2
  | dropped => exact h2
  | done b => exact h2


/-- `Inv2` (with `Inv`) is preserved by every action of every thread and of the environment. -/
theorem step_inv2 {c : Cfg} {s : St} (hc : CfgOK c) (hpd : PdOK c) (h : Inv c s) (h2 : Inv2 c s) (a : Act) :
    Inv2 c (step c s a) := by
  cases a with
  | thread t =>
    cases t with
    | zero =>
      simp only [step]
      split
      · rename_i he; exact stepCaller_inv2 hc hpd h h2 he
      · exact h2
    | succ i =>
      simp only [step]
      split
      · rename_i he; exact stepCb_inv2 hc h h2 he
      · exact h2
  | complete k =>
    simp only [step]
    split
    · rename_i i hk
      obtain ⟨hi, hp⟩ := parkedIds_spec hk
      exact complete_inv2 h h2 hi hp
    · exact h2

theorem run_inv2 {c : Cfg} (hc : CfgOK c) (hpd : PdOK c) (sched : List Act) :
    ∀ {s : St}, Inv c s → Inv2 c s → Inv c (run c s sched) ∧ Inv2 c (run c s sched) := by
  induction sched with
  | nil => intro s h h2; exact ⟨h, h2⟩
  | cons a r ih => intro s h h2; exact ih (step_inv h a) (step_inv2 hc hpd h h2 a)

end JoblibModel.ParallelLock
