import JoblibProofs.Lemmas.ParallelLock.Proj
/-!
M1L proofs — the locked region of `dispatch_one_batch` preserves the data part of the invariant.
-/
namespace JoblibModel.ParallelLock

@[simp] theorem allItems_mkDisp (s : St) (tasks : List Nat) : allItems (mkDisp s tasks) = allItems s ++ tasks := by
  simp [allItems]

@[simp] theorem allItems_mkPull (s : St) (m : Nat) (evs : List Ev) (d r : Bool) (pl : Option Nat) :
    allItems (mkPull s m evs d r pl) = allItems s := rfl

@[simp] theorem allItems_registerIterError (bs : Nat) (s : St) : allItems (registerIterError bs s) = allItems s := by
  simp [allItems, registerIterError]

@[simp] theorem allItems_setReady (s : St) (r : List (List Nat)) : allItems (setReady s r) = allItems s := rfl

/-- The part of the invariant that does not mention program counters or the lock. -/
structure DataInv (c : Cfg) (s : St) : Prop where
  S : SrcInv c s
  T : ∀ t ∈ s.trk, TrkOK c t
  C : ConsInv s
  Nd : s.nDispTasks = (allItems s).length
  logLocked : ∀ t id l, Ev.pull t id l ∈ s.log → l = true

theorem Inv.data {c : Cfg} {s : St} (h : Inv c s) : DataInv c s := ⟨h.S, h.T, h.C, h.N.disp, h.logLocked⟩

theorem trkOK_new (c : Cfg) (tasks : List Nat) (cid : Nat) (h : tasks ≠ []) :
    TrkOK c { items := tasks, bsize := tasks.length, callId := cid } := by
  refine ⟨Or.inl ⟨h, rfl⟩, ?_, ?_, ?_, ?_, ?_⟩ <;> simp [pcStatusOK, CbPc.started]

theorem pairwise_append_range {l : List Nat} {p m : Nat} (h1 : List.Pairwise (· < ·) l) (h2 : ∀ x ∈ l, x < p) :
    List.Pairwise (· < ·) (l ++ List.range' p m) := by
  rw [List.pairwise_append]
  refine ⟨h1, ?_, ?_⟩
  · exact List.pairwise_lt_range'
  · intro a ha b hb
    have := h2 a ha
    rw [List.mem_range'_1] at hb
    omega

theorem DLCase.data {c : Cfg} {t : Tid} {fo : Bool} {bs : Nat} {s s' : St} {r : DRes}
    (h : DLCase c t fo bs s s' r) (hd : DataInv c s) (hl : s.lockOwner = some t) : DataInv c s' := by
  have hsrc (m : Nat) (evs : List Ev) (dead raised : Bool) (pl : Option Nat) (ret : Bool)
      (hf : PullFacts c t fo (bs * c.nj) s m evs dead raised pl ret) : SrcInv c (mkPull s m evs dead raised pl) :=
    ⟨hf.le, hf.raisedDead, hf.deadAt, hf.raisedAt, hf.exhausted⟩
  have hlog (m : Nat) (evs : List Ev) (dead raised : Bool) (pl : Option Nat) (ret : Bool)
      (hf : PullFacts c t fo (bs * c.nj) s m evs dead raised pl ret) :
      ∀ t' id l, Ev.pull t' id l ∈ evs ++ s.log → l = true := by
    intro t' id l hm
    rw [List.mem_append] at hm
    rcases hm with hm | hm
    · rcases hf.evs _ hm with he | ⟨id', he⟩
      · cases he
      · cases he; simp [hl]
    · exact hd.logLocked _ _ _ hm
  cases h with
  | aborting ha => exact hd
  | ready tasks rest ha hr htn =>
    have e : allItems s ++ tasks ++ rest.flatten = allItems s ++ s.ready.flatten := by simp [hr]
    refine ⟨⟨hd.S.le, hd.S.raisedDead, hd.S.deadAt, hd.S.raisedAt, hd.S.exhausted⟩, ?_, ⟨?_, ?_, ?_, ?_⟩, ?_, hd.logLocked⟩
    · intro x hx
      simp only [mkDisp_trk, setReady_trk, List.mem_append, List.mem_singleton] at hx
      rcases hx with hx | hx
      · exact hd.T x hx
      · subst hx; exact trkOK_new c tasks _ htn
    · simp only [allItems_mkDisp, allItems_setReady, mkDisp_ready, setReady_ready, e]; exact hd.C.sorted
    · simp only [allItems_mkDisp, allItems_setReady, mkDisp_ready, setReady_ready, mkDisp_srcPos, setReady_srcPos, e]; exact hd.C.bound
    · simp only [allItems_mkDisp, allItems_setReady, mkDisp_ready, setReady_ready, mkDisp_srcPos, setReady_srcPos, mkDisp_aborting, e]; exact hd.C.full
    · intro b hb; exact hd.C.readyNe b (by simp only [mkDisp_ready, setReady_ready] at hb; simp [hr, hb])
    · simp only [mkDisp_nDispTasks, setReady_nDispTasks, allItems_mkDisp, allItems_setReady, List.length_append, hd.Nd]
  | raised m evs dead pl ha hr hf hsd =>
    have hs := hsrc m evs dead true pl true hf
    refine ⟨⟨hs.le, hs.raisedDead, hs.deadAt, hs.raisedAt, hs.exhausted⟩, ?_, ⟨?_, ?_, ?_, ?_⟩, ?_, ?_⟩
    · intro x hx
      simp only [registerIterError_trk, mkPull_trk, List.mem_append, List.mem_singleton] at hx
      rcases hx with hx | hx
      · exact hd.T x hx
      · subst hx
        have he : IsErr c (Tracker.mk [] bs (mkPull s m evs dead true pl).callId Status.error
            (Res.exc (Exc.iter (mkPull s m evs dead true pl).srcPos)) CbPc.idle none) :=
          ⟨rfl, rfl, rfl, by simp [hf.raisedAt rfl]⟩
        exact ⟨Or.inr he, by simp [pcStatusOK], fun _ _ => he, by simp [CbPc.started], by simp, by simp⟩
    · simp only [allItems_registerIterError, allItems_mkPull, registerIterError_ready, mkPull_ready]; exact hd.C.sorted
    · intro x hx
      simp only [allItems_registerIterError, allItems_mkPull, registerIterError_ready, mkPull_ready] at hx
      have := hd.C.bound x hx
      simp only [registerIterError_srcPos, mkPull_srcPos]; omega
    · intro h; simp at h
    · intro b hb; exact hd.C.readyNe b (by simpa using hb)
    · simp [hd.Nd]
    · simpa using hlog m evs dead true pl true hf
  | empty evs dead raised pl ha hr hf =>
    refine ⟨hsrc 0 evs dead raised pl false hf, hd.T, ⟨?_, ?_, ?_, ?_⟩, hd.Nd, ?_⟩
    · simp only [allItems_mkPull, mkPull_ready]; exact hd.C.sorted
    · simp only [allItems_mkPull, mkPull_ready, mkPull_srcPos, Nat.add_zero]; exact hd.C.bound
    · simp only [allItems_mkPull, mkPull_ready, mkPull_srcPos, Nat.add_zero, mkPull_aborting]; exact hd.C.full
    · exact hd.C.readyNe
    · simpa using hlog 0 evs dead raised pl false hf
  | pulled m evs dead raised pl tasks rest ha hr hf hm htn hrest hfl =>
    have hsorted := hd.C.sorted
    have hbound := hd.C.bound
    rw [hr] at hsorted hbound
    simp only [List.flatten_nil, List.append_nil] at hsorted hbound
    have e : allItems s ++ tasks ++ rest.flatten = allItems s ++ List.range' s.srcPos m := by
      rw [List.append_assoc, hfl]
    have hs := hsrc m evs dead raised pl false hf
    refine ⟨⟨hs.le, hs.raisedDead, hs.deadAt, hs.raisedAt, hs.exhausted⟩, ?_, ⟨?_, ?_, ?_, ?_⟩, ?_, ?_⟩
    · intro x hx
      simp only [mkDisp_trk, setReady_trk, mkPull_trk, List.mem_append, List.mem_singleton] at hx
      rcases hx with hx | hx
      · exact hd.T x hx
      · subst hx; exact trkOK_new c tasks _ htn
    · simp only [allItems_mkDisp, allItems_setReady, allItems_mkPull, mkDisp_ready, setReady_ready, e]
      exact pairwise_append_range hsorted hbound
    · intro x hx
      simp only [allItems_mkDisp, allItems_setReady, allItems_mkPull, mkDisp_ready, setReady_ready, e, List.mem_append] at hx
      simp only [mkDisp_srcPos, setReady_srcPos, mkPull_srcPos]
      rcases hx with hx | hx
      · have := hbound x hx; omega
      · rw [List.mem_range'_1] at hx; omega
    · intro _
      simp only [allItems_mkDisp, allItems_setReady, allItems_mkPull, mkDisp_ready, setReady_ready, e, mkDisp_srcPos, setReady_srcPos, mkPull_srcPos]
      have := hd.C.full ha
      rw [hr] at this
      simp only [List.flatten_nil, List.append_nil] at this
      rw [this]
      have := List.range'_append (s := 0) (m := s.srcPos) (n := m) (step := 1)
      simpa using this
    · intro b hb; exact hrest b (by simpa using hb)
    · simp only [mkDisp_nDispTasks, setReady_nDispTasks, mkPull_nDispTasks, allItems_mkDisp, allItems_setReady, allItems_mkPull, List.length_append, hd.Nd]
    · simpa using hlog m evs dead raised pl false hf

end JoblibModel.ParallelLock
