import JoblibProofs.Lemmas.ParallelLock.Inv2
/-!
M1L proofs — the general transfer lemma for steps of the CALLER (`Inv2.move`): the tracker table keeps its length,
statuses and items; program counters of callbacks change at most `parked → dropped` (abort_everything) or
`idle → parked` (submit); results change only below the `unread` mark.
-/
namespace JoblibModel.ParallelLock

/-- How a caller step may change the tracker table. -/
structure TrkRel (s s' : St) : Prop where
  len : s'.trk.length = s.trk.length
  st : ∀ j, (getT s'.trk j).status = (getT s.trk j).status
  it : ∀ j, (getT s'.trk j).items = (getT s.trk j).items
  pc : ∀ j, (getT s'.trk j).pc = (getT s.trk j).pc ∨
    ((getT s.trk j).pc = .parked ∧ (getT s'.trk j).pc = .dropped) ∨
    ((getT s.trk j).pc = .idle ∧ (getT s'.trk j).pc = .parked)

theorem TrkRel.refl (s : St) : TrkRel s s := ⟨rfl, fun _ => rfl, fun _ => rfl, fun _ => Or.inl rfl⟩

theorem TrkRel.of_eq {s s' : St} (h : s'.trk = s.trk) : TrkRel s s' :=
  ⟨by rw [h], fun _ => by rw [h], fun _ => by rw [h], fun _ => Or.inl (by rw [h])⟩

theorem TrkRel.mapItems {s s' : St} (r : TrkRel s s') : s'.trk.map (·.items) = s.trk.map (·.items) := by
  apply List.ext_getElem
  · simp [r.len]
  · intro j h1 h2
    simp only [List.length_map] at h1 h2
    have := r.it j
    simp only [getT, List.getD_eq_getElem?_getD, List.getElem?_eq_getElem h1, List.getElem?_eq_getElem h2,
      Option.getD_some] at this
    simpa using this

theorem TrkRel.allItems {s s' : St} (r : TrkRel s s') : allItems s' = allItems s := by
  simp only [JoblibModel.ParallelLock.allItems, r.mapItems]

theorem TrkRel.mem {s s' : St} (r : TrkRel s s') {t' : Tracker} (h : t' ∈ s'.trk) :
    ∃ j, j < s.trk.length ∧ getT s'.trk j = t' ∧ getT s.trk j ∈ s.trk := by
  obtain ⟨j, hj, e⟩ := (mem_iff_getT _ _).mp h
  rw [r.len] at hj
  exact ⟨j, hj, e, getT_mem _ _ hj⟩

theorem TrkRel.mem' {s s' : St} (r : TrkRel s s') {t : Tracker} (h : t ∈ s.trk) :
    ∃ j, j < s.trk.length ∧ getT s.trk j = t ∧ getT s'.trk j ∈ s'.trk := by
  obtain ⟨j, hj, e⟩ := (mem_iff_getT _ _).mp h
  exact ⟨j, hj, e, getT_mem _ _ (by rw [r.len]; exact hj)⟩

theorem TrkRel.quiet {s s' : St} (r : TrkRel s s') (h : Quiet s) : Quiet s' := by
  intro t' ht' hne
  obtain ⟨j, hj, e, hm⟩ := r.mem ht'
  subst e
  rw [r.it] at hne
  rcases h _ hm hne with h1 | h1
  · rcases r.pc j with h3 | ⟨h3, _⟩ | ⟨h3, _⟩
    · exact Or.inl (by rw [h3]; exact h1)
    · rw [h1] at h3; cases h3
    · rw [h1] at h3; cases h3
  · rcases r.pc j with h3 | ⟨h3, _⟩ | ⟨h3, _⟩
    · exact Or.inr (by rw [h3]; exact h1)
    · rw [h1] at h3; cases h3
    · rw [h1] at h3; cases h3

theorem TrkRel.noErr {s s' : St} (r : TrkRel s s') (h : NoErr s) : NoErr s' := by
  intro t' ht'
  obtain ⟨j, hj, e, hm⟩ := r.mem ht'
  subst e
  rw [r.it]; exact h _ hm

theorem TrkRel.stuck {s s' : St} (r : TrkRel s s') (e2 : s'.ready = s.ready) (e3 : s'.srcDead = s.srcDead)
    (h : Stuck s) : Stuck s' := by
  unfold Stuck at *
  rw [r.allItems, e2, e3]; exact h

theorem TrkRel.exited {s s' : St} (r : TrkRel s s') (e2 : s'.ready = s.ready) (e3 : s'.srcDead = s.srcDead)
    (e4 : s'.origAlive = s.origAlive) (h : Exited s) : Exited s' := by
  refine ⟨r.quiet h.1, ?_⟩
  rw [e4]
  rcases h.2 with h1 | h1
  · exact Or.inl h1
  · exact Or.inr (r.stuck e2 e3 h1)

/-- The general transfer lemma for caller steps. -/
theorem Inv2.move {c : Cfg} {s s' : St} (h2 : Inv2 c s) (r : TrkRel s s')
    (e_dead : s'.srcDead = s.srcDead) (e_raised : s'.srcRaised = s.srcRaised) (e_ready : s'.ready = s.ready)
    (e_orig : s'.origAlive = s.origAlive) (e_pre : s'.preLeft = s.preLeft)
    (t_res : s'.pc.excPath = false → ∀ j, unread s' ≤ j → (getT s'.trk j).result = (getT s.trk j).result)
    (a_up : s.aborting = true → s'.aborting = true)
    (a_new : s'.aborting = true → s.aborting = true ∨ s'.pc.inAbort = true)
    (x_up : s.exception = true → s'.exception = true)
    (x_new : s'.exception = true → s.exception = true ∨ s'.pc.inExc = true)
    (c_abort : s.pc.inAbort = true → s'.pc.inAbort = true)
    (c_exc : s.pc.inExc = true → s'.pc.inExc = true)
    (c_path : s'.pc.excPath = false → s.pc.excPath = false)
    (c_unread : s'.pc.excPath = false → unread s ≤ unread s')
    (r_prefix : s'.pc.excPath = false → ∀ j, unread s ≤ j → j < unread s' → j < s.trk.length →
      (getT s.trk j).status = .done)
    (r_out : s'.pc.excPath = false → s'.out = ((s.trk.take (unread s')).map (·.items)).flatten)
    (r_npop : s'.nPop ≤ s.trk.length)
    (r_jobs : s'.pc.beforeFinW = true → s'.jobs = List.range' s'.nPop (s.trk.length - s'.nPop))
    (c_first : s'.pc.afterFirst = true → s'.iterating = false →
      (s.pc.afterFirst = true ∧ s.iterating = false) ∨ s.origAlive = false ∨ Stuck s)
    (c_orig : s'.pc.pastWOrig = true → s.pc.pastWOrig = true)
    (c_loop : s'.pc.postLoop = true → s.aborting = false → c.pdMode = 1 →
      s.pc.postLoop = true ∨ (s.ready = [] ∧ s.srcDead = true))
    (o_ret : ∀ l, s'.outcome = some (.ret l) → s.outcome = some (.ret l) ∨ Final c s l)
    (o_raised : ∀ e, s'.outcome = some (.raised e) → s.outcome = some (.raised e) ∨ LegitErr c e)
    (o_none : s'.pc ≠ .done → s'.outcome = none)
    (hloc : LocOK c s') : Inv2 c s' := by
  have a_dn : s'.aborting = false → s.aborting = false := by
    intro h1; cases h3 : s.aborting with
    | false => rfl
    | true => rw [a_up h3] at h1; cases h1
  have herr : (∃ t ∈ s.trk, t.status = .error) → ∃ t ∈ s'.trk, t.status = .error := by
    rintro ⟨t, ht, hs⟩
    obtain ⟨j, hj, e, hm⟩ := r.mem' ht
    exact ⟨_, hm, by rw [r.st, e]; exact hs⟩
  refine ⟨⟨?_, ?_, ?_, ?_⟩, ⟨?_, ?_⟩, ⟨?_, ?_, ?_, ?_⟩, ⟨?_, ?_, ?_, ?_, ?_, ?_⟩, hloc, ⟨?_, ?_, o_none⟩⟩
  · intro t' ht' hs
    obtain ⟨j, hj, e, hm⟩ := r.mem ht'
    subst e
    rw [r.st] at hs
    obtain ⟨h1, h3⟩ := h2.F.errFlags _ hm hs
    exact ⟨a_up h1, x_up h3⟩
  · intro ha
    rcases a_new ha with ha | ha
    · rcases h2.F.aborting ha with h | h
      · exact Or.inl (herr h)
      · exact Or.inr (c_abort h)
    · exact Or.inr ha
  · intro ha
    rcases x_new ha with ha | ha
    · rcases h2.F.exception ha with h | h
      · exact Or.inl (herr h)
      · exact Or.inr (c_exc h)
    · exact Or.inr ha
  · rw [e_raised]; intro hr
    obtain ⟨t, ht, hs⟩ := h2.F.raised hr
    obtain ⟨j, hj, e, hm⟩ := r.mem' ht
    exact ⟨_, hm, by rw [r.it, e]; exact hs⟩
  · intro hp j hj hl hs
    rw [r.len] at hl; rw [r.st] at hs
    rw [t_res hp j hj, r.it]
    exact h2.R.done (c_path hp) j (Nat.le_trans (c_unread hp) hj) hl hs
  · intro hp j hj hl hs
    rw [r.len] at hl; rw [r.st] at hs
    rw [t_res hp j hj]
    exact h2.R.error (c_path hp) j (Nat.le_trans (c_unread hp) hj) hl hs
  · intro hp j hj hl
    rw [r.len] at hl; rw [r.st]
    by_cases hju : j < unread s
    · exact h2.D.prefixDone (c_path hp) j hju hl
    · exact r_prefix hp j (Nat.le_of_not_lt hju) hj hl
  · intro hp
    rw [r_out hp, List.map_take, List.map_take, r.mapItems]
  · rw [r.len]; exact r_npop
  · intro hp; rw [r.len]; exact r_jobs hp
  · rw [e_orig]; exact h2.I.allMode
  · intro hm hp; rw [e_pre]; exact h2.I.allPre hm (c_orig hp)
  · intro hp hi
    rw [e_orig]
    rcases c_first hp hi with h | h | h
    · rcases h2.I.afterFirst h.1 h.2 with h' | h'
      · exact Or.inl h'
      · exact Or.inr (r.stuck e_ready e_dead h')
    · exact Or.inl h
    · exact Or.inr (r.stuck e_ready e_dead h)
  · intro ha hp hm ho
    rw [e_orig] at ho; rw [e_ready, e_dead]
    exact h2.I.origDead (a_dn ha) (c_orig hp) hm ho
  · intro ha hm hp
    rw [e_ready, e_dead]
    rcases c_loop hp (a_dn ha) hm with h | h
    · exact h2.I.allDead (a_dn ha) hm h
    · exact h
  · intro t' ht' hb
    obtain ⟨j, hj, e, hm⟩ := r.mem ht'
    subst e
    rw [e_orig]
    rcases r.pc j with h3 | ⟨_, h3⟩ | ⟨_, h3⟩
    · exact h2.I.bsC _ hm (by rw [← h3]; exact hb)
    · rw [h3] at hb; cases hb
    · rw [h3] at hb; cases hb
  · intro l hl
    have hfin : Final c s l := by
      rcases o_ret l hl with h | h
      · exact h2.O.ret l h
      · exact h
    refine ⟨r.exited e_ready e_dead e_orig hfin.1, fun hs => ?_⟩
    obtain ⟨g1, g2, g3, g4, g5⟩ := hfin.2 hs
    exact ⟨g1, r.noErr g2, by rw [r.allItems]; exact g3, by rw [e_dead]; exact g4, by rw [e_raised]; exact g5⟩
  · intro x hx
    rcases o_raised x hx with h | h
    · exact h2.O.raised x h
    · exact h

end JoblibModel.ParallelLock
