import JoblibProofs.Lemmas.ParallelLock.Inv3
/-!
M1L proofs — `Inv3` is preserved by every step (`step_inv3`).
-/
namespace JoblibModel.ParallelLock

macro "s3move" h3:ident hpc:ident : tactic => `(tactic|
  (apply Inv3.sameKeys $h3 <;>
   first
   | rfl
   | exact id
   | exact ($h3).iterOrig
   | (intro a b; exact Or.inl ⟨a, by simpa [TorchNeeded, $hpc:ident] using b⟩)
   | (simp [TorchNeeded, $hpc:ident, Pc.pastWOrig])))

theorem key_setResult (s : St) (i : Nat) (r : Res) :
    (setTrk s i { getTrk s i with result := r }).trk.map trkKey = s.trk.map trkKey := by
  simp only [setTrk_trk]
  exact map_set_same trkKey _ _ _ (fun _ => rfl)

theorem key_returnOrRaise (s : St) (i : Nat) : (returnOrRaise s i).1.trk.map trkKey = s.trk.map trkKey := by
  unfold returnOrRaise
  simp only
  split
  · rfl
  · split <;> exact key_setResult s i .none
  · split <;> exact key_setResult s i .none

theorem frame_returnOrRaise (s : St) (i : Nat) :
    (returnOrRaise s i).1.callId = s.callId ∧ (returnOrRaise s i).1.aborting = s.aborting ∧
    (returnOrRaise s i).1.iterating = s.iterating ∧ (returnOrRaise s i).1.origAlive = s.origAlive ∧
    (returnOrRaise s i).1.pc = s.pc := by
  unfold returnOrRaise
  simp only
  split
  · exact ⟨rfl, rfl, rfl, rfl, rfl⟩
  · split <;> exact ⟨rfl, rfl, rfl, rfl, rfl⟩
  · split <;> exact ⟨rfl, rfl, rfl, rfl, rfl⟩


theorem HasTorch.append {s s' : St} {new : List Tracker} (h : s'.trk = s.trk ++ new) (ht : HasTorch s) : HasTorch s' := by
  obtain ⟨t, hm, h1, h2⟩ := ht
  exact ⟨t, by rw [h]; exact List.mem_append_left _ hm, h1, h2⟩

/-- The locked region of `dispatch_one_batch` and `Inv3` (the new trackers carry the current call id and are idle). -/
theorem DLCase.inv3 {c : Cfg} {t : Tid} {fo : Bool} {bs : Nat} {s s' : St} {r : DRes}
    (hcase : DLCase c t fo bs s s' r) (h3 : Inv3 s) :
    (∀ x ∈ s'.trk, x.callId = s'.callId) ∧ (∀ x ∈ s'.trk, x.pc = .dropped → s'.aborting = true) ∧
    (∀ x ∈ s'.trk, (x.pc = .relA false ∨ x.pc = .done false) → s'.aborting = true) ∧
    (s.aborting = true → s'.aborting = true) ∧ s'.pc = s.pc ∧ s'.iterating = s.iterating ∧ s'.origAlive = s.origAlive ∧
    (HasTorch s → HasTorch s') ∧
    (∀ j, r = .submit j → HasTorch s') ∧ (r = .ret true → s.aborting = false → s'.aborting = true) := by
  have key : ∀ (new : List Tracker) (ab : Bool), (∀ x ∈ new, x.callId = s.callId ∧ x.pc = .idle) →
      (s.aborting = true → ab = true) →
      (∀ x ∈ s.trk ++ new, x.callId = s.callId) ∧ (∀ x ∈ s.trk ++ new, x.pc = .dropped → ab = true) ∧
      (∀ x ∈ s.trk ++ new, (x.pc = .relA false ∨ x.pc = .done false) → ab = true) := by
    intro new ab hn ha
    refine ⟨?_, ?_, ?_⟩
    · intro x hx
      rcases List.mem_append.mp hx with h | h
      · exact h3.callId x h
      · exact (hn x h).1
    · intro x hx hp
      rcases List.mem_append.mp hx with h | h
      · exact ha (h3.dropped x h hp)
      · rw [(hn x h).2] at hp; cases hp
    · intro x hx hp
      rcases List.mem_append.mp hx with h | h
      · exact ha (h3.failedCb x h hp)
      · rw [(hn x h).2] at hp; rcases hp with hp | hp <;> cases hp
  cases hcase with
  | aborting ha =>
    exact ⟨h3.callId, h3.dropped, h3.failedCb, id, rfl, rfl, rfl, id, (by intro j hj; cases hj), (by intro hr; cases hr)⟩
  | ready tasks rest ha hr htn =>
    obtain ⟨k1, k2, k3⟩ := key [{ items := tasks, bsize := tasks.length, callId := s.callId }] s.aborting
      (by intro x hx; rw [List.mem_singleton] at hx; subst hx; exact ⟨rfl, rfl⟩) id
    refine ⟨k1, k2, k3, id, rfl, rfl, rfl, fun ht => ht.append rfl, fun j _ => ?_, (by intro hh; cases hh)⟩
    exact ⟨_, List.mem_append_right _ (List.mem_singleton.mpr rfl), htn, rfl⟩
  | raised m evs dead pl ha hr hf hsd =>
    obtain ⟨k1, k2, k3⟩ := key
      [{ items := [], bsize := bs, callId := s.callId, status := .error, result := .exc (.iter (s.srcPos + m)) }] true
      (by intro x hx; rw [List.mem_singleton] at hx; subst hx; exact ⟨rfl, rfl⟩) (fun _ => rfl)
    exact ⟨k1, k2, k3, fun _ => rfl, rfl, rfl, rfl, fun ht => ht.append rfl, (by intro j hj; cases hj), fun _ _ => rfl⟩
  | empty evs dead raised pl ha hr hf =>
    exact ⟨h3.callId, h3.dropped, h3.failedCb, id, rfl, rfl, rfl, fun ht => ⟨ht.choose, ht.choose_spec.1, ht.choose_spec.2⟩,
      (by intro j hj; cases hj), (by intro hh; cases hh)⟩
  | pulled m evs dead raised pl tasks rest ha hr hf hm htn hrest hfl =>
    obtain ⟨k1, k2, k3⟩ := key [{ items := tasks, bsize := tasks.length, callId := s.callId }] s.aborting
      (by intro x hx; rw [List.mem_singleton] at hx; subst hx; exact ⟨rfl, rfl⟩) id
    refine ⟨k1, k2, k3, id, rfl, rfl, rfl, fun ht => ht.append rfl, fun j _ => ?_, (by intro hh; cases hh)⟩
    exact ⟨_, List.mem_append_right _ (List.mem_singleton.mpr rfl), htn, rfl⟩

/-- Keys and flags unchanged, new pc in the retrieval / exception / final phase. -/
theorem Inv3.plain {s s' : St} (h3 : Inv3 s) (hkey : s'.trk.map trkKey = s.trk.map trkKey)
    (hcid : s'.callId = s.callId) (hab : s'.aborting = s.aborting) (hit : s'.iterating = s.iterating)
    (hor : s'.origAlive = s.origAlive) (hp1 : s'.pc.pastWOrig = true) (hp2 : ∀ e, s'.pc ≠ .abortCall e)
    (hp3 : s'.pc ≠ .dRel .first true ∧ s'.pc ≠ .itAcq ∧ ∀ j, s'.pc ≠ .dSubmit .first j) : Inv3 s' := by
  apply h3.sameKeys hkey hcid (fun hh => by rw [hab]; exact hh) (fun e he => absurd he (hp2 e))
    (by rw [hit, hor]; exact h3.iterOrig) (fun hh => by rw [hp1] at hh; cases hh)
  intro ho hn
  rcases hn with hn | hn | hn | ⟨j, hn⟩
  · exact Or.inl ⟨by rw [← hor]; exact ho, Or.inl (by rw [← hit]; exact hn)⟩
  · exact absurd hn hp3.1
  · exact absurd hn hp3.2.1
  · exact absurd hn (hp3.2.2 j)

theorem stepCaller_inv3 {c : Cfg} {s : St} (h : Inv c s) (h2 : Inv2 c s) (h3 : Inv3 s)
    (he : callerEnabled s = true) : Inv3 (stepCaller c s) := by
  have hL := h2.L
  cases hpc : s.pc with
  | resetAcq =>
    have f := h.P (by rw [hpc]; rfl)
    have hp := h3.preOrig (by rw [hpc]; rfl)
    unfold stepCaller; simp only [hpc]
    split
    · simp only [finishRaise]
      refine ⟨?_, ?_, ?_, ?_, h3.iterOrig, ?_, ?_⟩ <;> simp [f.trk, hp.1, Pc.pastWOrig]
    · refine ⟨?_, ?_, ?_, ?_, h3.iterOrig, ?_, ?_⟩ <;> simp [f.trk, hp.1, hp.2, Pc.pastWOrig]
  | resetRel =>
    have hp := h3.preOrig (by rw [hpc]; rfl)
    unfold stepCaller; simp only [hpc]
    s3move h3 hpc
    case hpre => exact hp
  | wNDisp =>
    have hp := h3.preOrig (by rw [hpc]; rfl)
    unfold stepCaller; simp only [hpc]
    s3move h3 hpc
    case hpre => exact hp
  | wNComp =>
    have hp := h3.preOrig (by rw [hpc]; rfl)
    unfold stepCaller; simp only [hpc]
    s3move h3 hpc
    case hpre => exact hp
  | wExc0 =>
    have hp := h3.preOrig (by rw [hpc]; rfl)
    unfold stepCaller; simp only [hpc]
    s3move h3 hpc
    case hpre => exact hp
  | wAbort0 =>
    have f := h.P (by rw [hpc]; rfl)
    have hp := h3.preOrig (by rw [hpc]; rfl)
    unfold stepCaller; simp only [hpc]
    refine ⟨?_, ?_, ?_, ?_, h3.iterOrig, ?_, ?_⟩ <;> simp [f.trk, hp.1, hp.2, Pc.pastWOrig]
  | readyAcq =>
    have hp := h3.preOrig (by rw [hpc]; rfl)
    unfold stepCaller; simp only [hpc]
    s3move h3 hpc
    case hpre => exact hp
  | readyRel =>
    have hp := h3.preOrig (by rw [hpc]; rfl)
    unfold stepCaller; simp only [hpc]
    s3move h3 hpc
    case hpre => exact hp
  | wOrig =>
    have hp := h3.preOrig (by rw [hpc]; rfl)
    unfold stepCaller; simp only [hpc]
    split <;> (s3move h3 hpc <;> simp [hp.2, TorchNeeded])
  | wIter0 => unfold stepCaller; simp only [hpc]; s3move h3 hpc
  | dPre k =>
    unfold stepCaller; simp only [hpc]
    cases k <;> simp only [afterDispatch] <;> (repeat' split) <;> s3move h3 hpc
  | dBs k => unfold stepCaller; simp only [hpc]; s3move h3 hpc
  | dAcq k bs =>
    unfold stepCaller; simp only [hpc]
    have hlk : s.lockOwner = none := by simpa [callerEnabled, hpc, Pc.isAcq] using he
    have h0 : Inv c { s with lockOwner := some 0, pc := .dIn k } := by
      apply h.callerStep <;> first | rfl | simp [hpc, Pc.holding, Pc.preDispatch, hlk]
    have h30 : Inv3 { s with lockOwner := some 0, pc := .dIn k } := by
      s3move h3 hpc
    obtain ⟨s', r, hd, hcase⟩ := dispatchLocked_cases h0.S h0.C.readyNe 0 false bs
    rw [hd]
    obtain ⟨g1, g2, g3, g4, g5, g6, g7, g8, g9, g10⟩ := hcase.inv3 h30
    have hio : s'.iterating = true → s'.origAlive = true := by rw [g6, g7]; exact h3.iterOrig
    have hab0 : k = .first → s.aborting = false := by
      intro hk; subst hk
      simp only [LocOK, hpc] at hL
      exact hL.1.2.2.1
    have hit0 : k = .first → s.iterating = false := by
      intro hk; subst hk
      simp only [LocOK, hpc] at hL
      exact hL.1.2.1
    cases r with
    | submit j =>
      simp only
      refine ⟨g1, g2, g3, by simp, hio, by simp [Pc.pastWOrig], fun _ _ => Or.inr (g9 j rfl)⟩
    | ret b =>
      simp only
      refine ⟨g1, g2, g3, by simp, hio, by simp [Pc.pastWOrig], ?_⟩
      intro ho hn
      simp only [TorchNeeded] at hn
      rcases hn with hn | hn | hn | ⟨j, hn⟩
      · -- `_iterating` already set: the torch of the pre-state survives the dispatch
        have hn' : s.iterating = true := by rw [← g6]; exact hn
        rcases h3.torch (by rw [← g7]; exact ho) (Or.inl hn') with h4 | h4
        · exact Or.inl (g4 h4)
        · exact Or.inr (g8 ⟨h4.choose, h4.choose_spec.1, h4.choose_spec.2⟩)
      · -- `dRel first true` without a submit: the iterable raised
        simp only [Pc.dRel.injEq] at hn
        obtain ⟨hk, hb⟩ := hn
        subst hb
        exact Or.inl (g10 rfl (hab0 hk))
      · cases hn
      · cases hn
  | dIn k => unfold stepCaller; simp only [hpc]; exact h3
  | dSubmit k j =>
    have hpend := h.U.caller k j hpc
    unfold stepCaller; simp only [hpc]
    have hnew : ({ getT s.trk j with pc := CbPc.parked } : Tracker) ∈ s.trk.set j { getT s.trk j with pc := .parked } :=
      List.mem_set hpend.1 _
    refine ⟨?_, ?_, ?_, by simp, h3.iterOrig, by simp [Pc.pastWOrig], fun _ _ => Or.inr ⟨_, hnew, hpend.2.2.2, rfl⟩⟩
    · intro t ht
      rcases List.mem_or_eq_of_mem_set ht with h1 | h1
      · exact h3.callId t h1
      · rw [h1]; show (getT s.trk j).callId = s.callId; exact h3.callId _ (getT_mem _ _ hpend.1)
    · intro t ht hp
      rcases List.mem_or_eq_of_mem_set ht with h1 | h1
      · exact h3.dropped t h1 hp
      · rw [h1] at hp; cases hp
    · intro t ht hp
      rcases List.mem_or_eq_of_mem_set ht with h1 | h1
      · exact h3.failedCb t h1 hp
      · rw [h1] at hp; rcases hp with hp | hp <;> cases hp
  | dRel k r =>
    unfold stepCaller; simp only [hpc]
    cases k <;> cases r <;> simp only [afterDispatch] <;> (repeat' split) <;> s3move h3 hpc
  | itAcq => unfold stepCaller; simp only [hpc]; s3move h3 hpc
  | itRel => unfold stepCaller; simp only [hpc]; s3move h3 hpc
  | wIterAll => unfold stepCaller; simp only [hpc]; s3move h3 hpc
  | wtAbort => unfold stepCaller; simp only [hpc]; split <;> s3move h3 hpc
  | wtIter => unfold stepCaller; simp only [hpc]; split <;> s3move h3 hpc
  | wtNComp => unfold stepCaller; simp only [hpc]; s3move h3 hpc
  | wtNDisp nc => unfold stepCaller; simp only [hpc]; (repeat' split) <;> s3move h3 hpc
  | wtAbort2 => unfold stepCaller; simp only [hpc]; split <;> s3move h3 hpc
  | rtAbort => unfold stepCaller; simp only [hpc]; split <;> s3move h3 hpc
  | rtLen => unfold stepCaller; simp only [hpc]; split <;> s3move h3 hpc
  | rtHead => unfold stepCaller; simp only [hpc]; split <;> s3move h3 hpc
  | rtStatus i => unfold stepCaller; simp only [hpc]; split <;> s3move h3 hpc
  | sleep => unfold stepCaller; simp only [hpc]; s3move h3 hpc
  | popAcq => unfold stepCaller; simp only [hpc]; split <;> s3move h3 hpc
  | popRel i => unfold stepCaller; simp only [hpc]; s3move h3 hpc
  | refAcq => unfold stepCaller; simp only [hpc]; s3move h3 hpc
  | refRel e => cases e <;> (unfold stepCaller; simp only [hpc]; s3move h3 hpc)
  | excW e => unfold stepCaller; simp only [hpc]; s3move h3 hpc
  | abortW e => unfold stepCaller; simp only [hpc]; split <;> s3move h3 hpc
  | finExc e => unfold stepCaller; simp only [hpc]; split <;> s3move h3 hpc
  | finJobsR e => unfold stepCaller; simp only [hpc]; s3move h3 hpc
  | done => unfold stepCaller; simp only [hpc]; exact h3
  | resStatus i =>
    unfold stepCaller; simp only [hpc]
    have hk := key_returnOrRaise s i
    have hf := frame_returnOrRaise s i
    generalize returnOrRaise s i = x at hk hf ⊢
    obtain ⟨s', r⟩ := x
    simp only at hk hf
    cases r with
    | error e =>
      simp only
      exact h3.plain hk hf.1 hf.2.1 hf.2.2.1 hf.2.2.2.1 rfl (by intro _ hh; simp at hh)
        (by refine ⟨?_, ?_, ?_⟩ <;> (intros; simp))
    | ok l =>
      simp only
      exact h3.plain (by simpa using hk) (by simpa using hf.1) (by simpa using hf.2.1) (by simpa using hf.2.2.1)
        (by simpa using hf.2.2.2.1) rfl (by intro _ hh; simp at hh)
        (by refine ⟨?_, ?_, ?_⟩ <;> (intros; simp))
  | refStatus i =>
    unfold stepCaller; simp only [hpc]
    have hk := key_returnOrRaise s i
    have hf := frame_returnOrRaise s i
    generalize returnOrRaise s i = x at hk hf ⊢
    obtain ⟨s', r⟩ := x
    simp only at hk hf
    cases r with
    | error e =>
      simp only
      exact h3.plain hk hf.1 hf.2.1 hf.2.2.1 hf.2.2.2.1 rfl (by intro _ hh; simp at hh)
        (by refine ⟨?_, ?_, ?_⟩ <;> (intros; simp))
    | ok l =>
      simp only
      exact h3.plain hk hf.1 hf.2.1 hf.2.2.1 hf.2.2.2.1 rfl (by intro _ hh; simp at hh)
        (by refine ⟨?_, ?_, ?_⟩ <;> (intros; simp))
  | tailStatus i rem =>
    unfold stepCaller; simp only [hpc]
    have hk := key_returnOrRaise s i
    have hf := frame_returnOrRaise s i
    generalize returnOrRaise s i = x at hk hf ⊢
    obtain ⟨s', r⟩ := x
    simp only at hk hf
    cases r with
    | error e =>
      simp only
      exact h3.plain (by simpa using hk) (by simpa using hf.1) (by simpa using hf.2.1) (by simpa using hf.2.2.1)
        (by simpa using hf.2.2.2.1) rfl (by intro _ hh; simp at hh)
        (by refine ⟨?_, ?_, ?_⟩ <;> (intros; simp))
    | ok l =>
      simp only
      cases rem with
      | nil =>
        simp only [tailNext]
        exact h3.plain (by simpa using hk) (by simpa using hf.1) (by simpa using hf.2.1) (by simpa using hf.2.2.1)
          (by simpa using hf.2.2.2.1) (by simp [Pc.pastWOrig]) (by intro _ hh; simp at hh)
          (by refine ⟨?_, ?_, ?_⟩ <;> (intros; simp))
      | cons i' rest =>
        simp only [tailNext]
        exact h3.plain (by simpa using hk) (by simpa using hf.1) (by simpa using hf.2.1) (by simpa using hf.2.2.1)
          (by simpa using hf.2.2.2.1) rfl (by intro _ hh; simp at hh)
          (by refine ⟨?_, ?_, ?_⟩ <;> (intros; simp))
  | finJobsW e rem =>
    unfold stepCaller; simp only [hpc]
    cases e with
    | some e =>
      simp only
      exact h3.plain rfl rfl rfl rfl rfl rfl (by intro _ hh; simp at hh)
        (by refine ⟨?_, ?_, ?_⟩ <;> (intros; simp))
    | none =>
      simp only
      cases rem with
      | nil =>
        simp only [tailNext]
        exact h3.plain (by simp) (by simp) (by simp) (by simp) (by simp) (by simp [Pc.pastWOrig])
          (by intro _ hh; simp at hh) (by refine ⟨?_, ?_, ?_⟩ <;> (intros; simp))
      | cons i' rest =>
        simp only [tailNext]
        exact h3.plain rfl rfl rfl rfl rfl rfl (by intro _ hh; simp at hh)
          (by refine ⟨?_, ?_, ?_⟩ <;> (intros; simp))
  | abortCall e =>
    have hab := h3.abortCall e hpc
    unfold stepCaller; simp only [hpc]
    have hX : ∀ (X : St), X = (if c.abortDrops = true then dropParked (ev s .abort) else ev s .abort) →
        X.aborting = true ∧ X.callId = s.callId ∧ X.iterating = s.iterating ∧ X.origAlive = s.origAlive ∧
        (∀ t ∈ X.trk, t.callId = s.callId) := by
      intro X hX; subst hX
      split
      · refine ⟨hab, rfl, rfl, rfl, ?_⟩
        intro t ht
        simp only [dropParked_trk, ev_trk, List.mem_map] at ht
        obtain ⟨t0, ht0, rfl⟩ := ht
        split <;> exact h3.callId t0 ht0
      · exact ⟨hab, rfl, rfl, rfl, h3.callId⟩
    generalize (if c.abortDrops = true then dropParked (ev s .abort) else ev s .abort) = X at hX
    obtain ⟨x1, x2, x3, x4, x5⟩ := hX X rfl
    refine ⟨?_, fun _ _ _ => x1, fun _ _ _ => x1, fun _ _ => x1, ?_, by simp [Pc.pastWOrig], fun _ _ => Or.inl x1⟩
    · intro t ht; rw [x5 t ht]; exact x2.symm
    · show X.iterating = true → X.origAlive = true
      rw [x3, x4]; exact h3.iterOrig


/-- Tracker `i` replaced by `t'` (same call id and items): transfer of `Inv3`. -/
theorem Inv3.setT {s s' : St} (h3 : Inv3 s) {i : Nat} (hi : i < s.trk.length) (t' : Tracker)
    (htrk : s'.trk = s.trk.set i t') (hcid : t'.callId = (getT s.trk i).callId) (hit : t'.items = (getT s.trk i).items)
    (e_pc : s'.pc = s.pc) (e_cid : s'.callId = s.callId) (a_up : s.aborting = true → s'.aborting = true)
    (hflag : (s'.origAlive = s.origAlive ∧ s'.iterating = s.iterating) ∨ (s'.origAlive = false ∧ s'.iterating = false))
    (hbad : (t'.pc = .dropped ∨ t'.pc = .relA false ∨ t'.pc = .done false) → s'.aborting = true)
    (hkeep : (getT s.trk i).pc.torch = true → s'.origAlive = true →
      t'.pc.torch = true ∨ s'.aborting = true ∨ HasTorch s') : Inv3 s' := by
  have hmem : ∀ x ∈ s'.trk, x ∈ s.trk ∨ x = t' := fun x hx => by
    rw [htrk] at hx; exact List.mem_or_eq_of_mem_set hx
  have hnew : t' ∈ s'.trk := by rw [htrk]; exact List.mem_set hi _
  refine ⟨?_, ?_, ?_, ?_, ?_, ?_, ?_⟩
  · intro x hx
    rcases hmem x hx with h1 | h1
    · rw [e_cid]; exact h3.callId x h1
    · rw [h1, hcid, e_cid]; exact h3.callId _ (getT_mem _ _ hi)
  · intro x hx hp
    rcases hmem x hx with h1 | h1
    · exact a_up (h3.dropped x h1 hp)
    · exact hbad (Or.inl (by rw [← h1]; exact hp))
  · intro x hx hp
    rcases hmem x hx with h1 | h1
    · exact a_up (h3.failedCb x h1 hp)
    · exact hbad (Or.inr (by rw [← h1]; exact hp))
  · intro e he; rw [e_pc] at he; exact a_up (h3.abortCall e he)
  · rcases hflag with h1 | h1
    · rw [h1.1, h1.2]; exact h3.iterOrig
    · intro hh; rw [h1.2] at hh; cases hh
  · intro hp; rw [e_pc] at hp
    have := h3.preOrig hp
    rcases hflag with h1 | h1
    · rw [h1.1, h1.2]; exact this
    · exact h1
  · intro ho hn
    rcases hflag with h1 | h1
    · have hn0 : TorchNeeded s := by
        unfold TorchNeeded at hn ⊢
        rw [h1.2, e_pc] at hn; exact hn
      rcases h3.torch (by rw [← h1.1]; exact ho) hn0 with h4 | ⟨x, hx, hx1, hx2⟩
      · exact Or.inl (a_up h4)
      · obtain ⟨k, hk, e⟩ := (mem_iff_getT _ _).mp hx
        by_cases hki : k = i
        · subst hki
          subst e
          rcases hkeep hx2 ho with h5 | h5 | h5
          · exact Or.inr ⟨t', hnew, by rw [hit]; exact hx1, h5⟩
          · exact Or.inl h5
          · exact Or.inr h5
        · refine Or.inr ⟨x, ?_, hx1, hx2⟩
          rw [htrk, ← e, ← getT_set_ne s.trk i k t' hki]
          exact getT_mem _ _ (by simpa using hk)
    · rw [h1.1] at ho; cases ho


theorem DLCase.inv3' {c : Cfg} {t : Tid} {fo : Bool} {bs : Nat} {s s' : St} {r : DRes}
    (hcase : DLCase c t fo bs s s' r) (h3 : Inv3 s) : Inv3 s' := by
  obtain ⟨g1, g2, g3, g4, g5, g6, g7, g8, g9, g10⟩ := hcase.inv3 h3
  refine ⟨g1, g2, g3, ?_, by rw [g6, g7]; exact h3.iterOrig, by rw [g5, g6, g7]; exact h3.preOrig, ?_⟩
  · intro e he; rw [g5] at he; exact g4 (h3.abortCall e he)
  · intro ho hn
    have hn0 : TorchNeeded s := by unfold TorchNeeded at hn ⊢; rw [g6, g5] at hn; exact hn
    rcases h3.torch (by rw [← g7]; exact ho) hn0 with h4 | h4
    · exact Or.inl (g4 h4)
    · exact Or.inr (g8 h4)

macro "fl_same" : term => `(Or.inl ⟨rfl, rfl⟩)

/-- End of `dispatch_next`, for `Inv3`. `htorch`: when the thread leaves with `_original_iterator` still alive, either
an error was flagged or somebody else carries the torch. -/
theorem cbFinish_inv3 {s : St} {i : Nat} (h3 : Inv3 s) (hi : i < s.trk.length) (hpc : (getT s.trk i).pc = .bsC)
    (r : Bool) (htorch : r = true → s.origAlive = true → s.aborting = true ∨
      ∃ k, k ≠ i ∧ k < s.trk.length ∧ (getT s.trk k).items ≠ [] ∧ (getT s.trk k).pc.torch = true) :
    Inv3 (cbAfterDispatch i s r) := by
  unfold cbAfterDispatch
  cases r with
  | true =>
    refine h3.setT hi { getT s.trk i with pc := .relC } rfl rfl rfl rfl rfl id fl_same (by simp) ?_
    intro _ ho
    rcases htorch rfl ho with h1 | ⟨k, hk1, hk2, hk3, hk4⟩
    · exact Or.inr (Or.inl h1)
    · refine Or.inr (Or.inr ⟨getT s.trk k, ?_, hk3, hk4⟩)
      show getT s.trk k ∈ s.trk.set i _
      rw [← getT_set_ne s.trk i k _ hk1]
      exact getT_mem _ _ (by simpa using hk2)
  | false =>
    exact h3.setT hi { getT s.trk i with pc := .relC } rfl rfl rfl rfl rfl id (Or.inr ⟨rfl, rfl⟩) (by simp)
      (fun _ ho => by cases ho)

theorem cbDispatch_inv3 {c : Cfg} {s : St} {i : Nat} (h : Inv c s) (h3 : Inv3 s) (hi : i < s.trk.length)
    (hpc : (getT s.trk i).pc = .bsC) (hl : s.lockOwner = some (i + 1)) (bs : Nat) :
    Inv3 (cbDispatchResult i (dispatchLocked c (i + 1) true bs s)) := by
  obtain ⟨s', r, hd, hcase⟩ := dispatchLocked_cases h.S h.C.readyNe (i + 1) true bs
  rw [hd]
  obtain ⟨h1, hsub, hlo, hp⟩ := hcase.inv h hl
  have h31 := hcase.inv3' h3
  obtain ⟨g1, g2, g3, g4, g5, g6, g7, g8, g9, g10⟩ := hcase.inv3 h3
  obtain ⟨new, hnew⟩ := hcase.trk_append
  have hi2 : i < s'.trk.length := by rw [hnew]; simp; omega
  have hg : getT s'.trk i = getT s.trk i := by rw [hnew]; exact getT_append_left _ _ _ hi
  have hpc2 : (getT s'.trk i).pc = .bsC := by rw [hg]; exact hpc
  cases r with
  | submit j =>
    simp only [cbDispatchResult]
    have hpj := hsub j rfl
    have hji : j ≠ i := by
      intro e; subst e
      have := hpj.2.1; rw [getTrk_def, hpc2] at this; cases this
    refine h31.setT hi2 { getT s'.trk i with pc := .submitC j } rfl rfl rfl rfl rfl id fl_same (by simp) ?_
    intro _ _
    refine Or.inr (Or.inr ⟨getT s'.trk j, ?_, hpj.2.2.2, by rw [show (getT s'.trk j).pc = .idle from hpj.2.1]; rfl⟩)
    show getT s'.trk j ∈ s'.trk.set i _
    rw [← getT_set_ne s'.trk i j _ hji]
    exact getT_mem _ _ (by simpa using hpj.1)
  | ret b =>
    simp only [cbDispatchResult]
    refine cbFinish_inv3 h31 hi2 hpc2 b ?_
    intro hb ho
    subst hb
    by_cases ha : s.aborting = true
    · exact Or.inl (g4 ha)
    · exact Or.inl (g10 rfl (by simpa using ha))

theorem stepCb_inv3 {c : Cfg} {s : St} {i : Nat} (h : Inv c s) (h3 : Inv3 s) (he : cbEnabled s i = true) :
    Inv3 (stepCb c i s) := by
  have hi := cbEnabled_lt he
  have hmem := getT_mem _ _ hi
  have h0 := h.T _ hmem
  unfold stepCb
  simp only
  have hgt : getTrk s i = getT s.trk i := rfl
  cases hpc : (getTrk s i).pc with
  | acqA =>
    rw [hgt] at hpc
    simp only
    by_cases hcid : (s.callId != (getTrk s i).callId) = true
    · exfalso
      have := h3.callId _ hmem
      rw [hgt, this] at hcid
      simp at hcid
    · rw [if_neg hcid]
      by_cases hab : s.aborting = true
      · rw [if_pos hab]
        exact h3.setT hi { getT s.trk i with pc := .relA false } rfl rfl rfl rfl rfl id fl_same (fun _ => hab)
          (fun _ _ => Or.inr (Or.inl hab))
      · rw [if_neg hab]
        exact h3.setT hi { getT s.trk i with pc := .retr } rfl rfl rfl rfl rfl id fl_same (by simp)
          (fun _ _ => Or.inl rfl)
  | retr =>
    rw [hgt] at hpc
    have hst : (getT s.trk i).status = .pending := by have := h0.pcst; rw [hpc] at this; exact this
    simp only
    have hne : ¬ ((getTrk s i).status != Status.pending) = true := by rw [hgt, hst]; decide
    rw [if_neg hne]
    cases hf : (getTrk s i).failed with
    | some id =>
      simp only
      exact h3.setT hi _ rfl rfl rfl rfl rfl (fun _ => rfl) fl_same (fun _ => rfl) (fun _ _ => Or.inr (Or.inl rfl))
    | none =>
      simp only
      exact h3.setT hi _ rfl rfl rfl rfl rfl id fl_same (by simp) (fun _ _ => Or.inl rfl)
  | relA ok =>
    rw [hgt] at hpc
    simp only
    cases ok with
    | true =>
      exact h3.setT hi { getT s.trk i with pc := .stats } rfl rfl rfl rfl rfl id fl_same (by simp)
        (fun _ _ => Or.inl rfl)
    | false =>
      have hab := h3.failedCb _ hmem (Or.inl hpc)
      exact h3.setT hi { getT s.trk i with pc := .done false } rfl rfl rfl rfl rfl id fl_same (fun _ => hab)
        (fun _ _ => Or.inr (Or.inl hab))
  | stats =>
    rw [hgt] at hpc
    exact h3.setT hi { getT s.trk i with pc := .acqC } rfl rfl rfl rfl rfl id fl_same (by simp)
      (fun _ _ => Or.inl rfl)
  | acqC =>
    have hlk : s.lockOwner = none := by
      unfold cbEnabled at he; rw [hpc] at he; simpa using he
    rw [hgt] at hpc
    have hst : (getT s.trk i).status = .done := by have := h0.pcst; rw [hpc] at this; exact this
    have hnorm := trk_normal h0 (by rw [hpc]; simp)
    simp only
    by_cases ho : s.origAlive = true
    · rw [if_pos ho]
      have h1 : Inv c (setCb { s with lockOwner := some (i + 1), nCompleted := s.nCompleted + (getTrk s i).bsize } i .bsC) :=
        h.movePc hi .bsC rfl ⟨rfl, rfl, rfl, rfl, rfl, rfl, rfl⟩ id (by simp [hpc]) hst
          (by simp [hpc, CbPc.started]) (by simp) (by simp [CbPc.holding]) (fun _ _ => hlk)
          (by simp [hpc, CbPc.counted, hnorm.2]) (by simp)
      have h31 : Inv3 (setCb { s with lockOwner := some (i + 1), nCompleted := s.nCompleted + (getTrk s i).bsize } i .bsC) :=
        h3.setT hi { getT s.trk i with pc := .bsC } rfl rfl rfl rfl rfl id fl_same (by simp) (fun _ _ => Or.inl rfl)
      have hi1 : i < (setCb { s with lockOwner := some (i + 1), nCompleted := s.nCompleted + (getTrk s i).bsize } i .bsC).trk.length := by
        simpa using hi
      have hpc1 : (getT (setCb { s with lockOwner := some (i + 1), nCompleted := s.nCompleted + (getTrk s i).bsize } i .bsC).trk i).pc = .bsC := by
        simp [hi]
      have hl1 : (setCb { s with lockOwner := some (i + 1), nCompleted := s.nCompleted + (getTrk s i).bsize } i .bsC).lockOwner = some (i + 1) := rfl
      generalize setCb { s with lockOwner := some (i + 1), nCompleted := s.nCompleted + (getTrk s i).bsize } i .bsC = s1 at *
      by_cases hab : s1.aborting = true
      · rw [if_pos hab]
        exact cbFinish_inv3 h31 hi1 hpc1 false (fun hh => by cases hh)
      · rw [if_neg hab]
        by_cases hau : c.bsAuto = true
        · rw [if_pos hau]; exact h31
        · rw [if_neg hau]; exact cbDispatch_inv3 h1 h31 hi1 hpc1 hl1 _
    · rw [if_neg ho]
      refine h3.setT hi { getT s.trk i with pc := .relC } rfl rfl rfl rfl rfl id fl_same (by simp) ?_
      intro _ ho'
      exact absurd ho' ho
  | bsC =>
    rw [hgt] at hpc
    have hl : s.lockOwner = some (i + 1) := h.L.cb i hi (by rw [hgt, hpc]; rfl)
    simp only
    have h1 : Inv c { s with bsI := s.bsI + 1 } := h.congr rfl rfl rfl rfl rfl rfl rfl rfl rfl rfl rfl rfl rfl rfl
    have h31 : Inv3 { s with bsI := s.bsI + 1 } :=
      ⟨h3.callId, h3.dropped, h3.failedCb, h3.abortCall, h3.iterOrig, h3.preOrig, fun a b =>
        (h3.torch a b).imp id (fun x => ⟨x.choose, x.choose_spec.1, x.choose_spec.2⟩)⟩
    exact cbDispatch_inv3 h1 h31 hi hpc hl _
  | submitC j =>
    rw [hgt] at hpc
    have hl : s.lockOwner = some (i + 1) := h.L.cb i hi (by rw [hgt, hpc]; rfl)
    have hst : (getT s.trk i).status = .done := by have := h0.pcst; rw [hpc] at this; exact this
    have hpend := h.U.cb i j hi (by rw [hgt]; exact hpc)
    have hji : j ≠ i := by
      intro e; subst e
      have := hpend.2.1; rw [hgt, hpc] at this; cases this
    simp only
    have h31 : Inv3 (setCb s i .bsC) :=
      h3.setT hi { getT s.trk i with pc := .bsC } rfl rfl rfl rfl rfl id fl_same (by simp) (fun _ _ => Or.inl rfl)
    have hj1 : j < (setCb s i .bsC).trk.length := by simpa using hpend.1
    have hgj : getT (setCb s i .bsC).trk j = getT s.trk j := by
      simp only [setCb_trk]; exact getT_set_ne _ _ _ _ hji
    have hjidle : (getT s.trk j).pc = .idle := hpend.2.1
    have h32 : Inv3 (doSubmit (i + 1) j (setCb s i .bsC)) :=
      h31.setT hj1 { getT (setCb s i .bsC).trk j with pc := .parked } rfl rfl rfl rfl rfl id fl_same (by simp)
        (fun _ _ => Or.inl rfl)
    have hi2 : i < (doSubmit (i + 1) j (setCb s i .bsC)).trk.length := by simpa using hi
    have hpc2 : (getT (doSubmit (i + 1) j (setCb s i .bsC)).trk i).pc = .bsC := by
      simp [getT_set_ne _ _ _ _ (Ne.symm hji), hi]
    refine cbFinish_inv3 h32 hi2 hpc2 true ?_
    intro _ _
    refine Or.inr ⟨j, hji, by simpa using hpend.1, ?_, ?_⟩
    · simp only [doSubmit_trk, getTrk_def, getT_set_self _ _ _ hj1, hgj]
      exact hpend.2.2.2
    · simp only [doSubmit_trk, getTrk_def, getT_set_self _ _ _ hj1]
      rfl
  | relC =>
    rw [hgt] at hpc
    exact h3.setT hi { getT s.trk i with pc := .done true } rfl rfl rfl rfl rfl id fl_same (by simp)
      (fun ht _ => by rw [hpc] at ht; cases ht)
  | idle => exact h3
  | parked => exact h3
  | dropped => exact h3
  | done b => exact h3

theorem complete_inv3 {c : Cfg} {s : St} {i : Nat} (h3 : Inv3 s) (hi : i < s.trk.length)
    (hpc : (getTrk s i).pc = .parked) : Inv3 (complete c i s) := by
  unfold complete
  simp only
  exact h3.setT hi _ rfl rfl rfl rfl rfl id fl_same (by simp) (fun _ _ => Or.inl rfl)

theorem step_inv3 {c : Cfg} {s : St} (h : Inv c s) (h2 : Inv2 c s) (h3 : Inv3 s) (a : Act) : Inv3 (step c s a) := by
  cases a with
  | thread t =>
    cases t with
    | zero =>
      simp only [step]
      split
      · rename_i he; exact stepCaller_inv3 h h2 h3 he
      · exact h3
    | succ i =>
      simp only [step]
      split
      · rename_i he; exact stepCb_inv3 h h3 he
      · exact h3
  | complete k =>
    simp only [step]
    split
    · rename_i i hk
      obtain ⟨hi, hp⟩ := parkedIds_spec hk
      exact complete_inv3 h3 hi hp
    · exact h3

theorem run_inv3 {c : Cfg} (hc : CfgOK c) (hpd : PdOK c) (sched : List Act) :
    ∀ {s : St}, Inv c s → Inv2 c s → Inv3 s → Inv3 (run c s sched) := by
  induction sched with
  | nil => intro s _ _ h3; exact h3
  | cons a r ih =>
    intro s h h2 h3
    exact ih (step_inv h a) (step_inv2 hc hpd h h2 a) (step_inv3 h h2 h3 a)


/-- The batch is still on its way: waiting for `submit`, in the backend, or its callback is running. -/
def CbPc.live : CbPc → Bool
  | .dropped | .done _ => false
  | _ => true

theorem countedSum_eq_of_all : ∀ (l : List Tracker), (∀ t ∈ l, t.items ≠ [] → t.pc.counted = true) →
    countedSum l = ((l.map (·.items)).flatten).length := by
  intro l
  induction l with
  | nil => intro _; simp [countedSum]
  | cons a r ih =>
    intro hall
    have := ih (fun t ht => hall t (List.mem_cons_of_mem _ ht))
    simp only [countedSum, List.map_cons, List.sum_cons, List.flatten_cons, List.length_append] at this ⊢
    by_cases hne : a.items = []
    · simp [hne, this]
    · rw [hall a (by simp) hne]; simp [this]

/-- NO LOST WAKE-UP (invariant form). While no error is flagged, if the caller's loop condition would still make it
wait (`_iterating`, or `n_completed_tasks < n_dispatched_tasks`) then some batch is still live. -/
theorem waiting_live {c : Cfg} {s : St} (h : Inv c s) (h3 : Inv3 s) (hna : s.aborting = false)
    (hw : s.iterating = true ∨ s.nCompleted < s.nDispTasks) : ∃ t ∈ s.trk, t.items ≠ [] ∧ t.pc.live = true := by
  rcases hw with hw | hw
  · have ho := h3.iterOrig hw
    rcases h3.torch ho (Or.inl hw) with h1 | ⟨t, ht, h1, h2⟩
    · rw [hna] at h1; cases h1
    · refine ⟨t, ht, h1, ?_⟩
      cases hp : t.pc <;> simp_all [CbPc.torch, CbPc.live]
  · have hex : ∃ t ∈ s.trk, t.items ≠ [] ∧ t.pc.counted = false := by
      apply Classical.byContradiction
      intro hno
      have hall : ∀ t ∈ s.trk, t.items ≠ [] → t.pc.counted = true := by
        intro t ht hne
        cases hc : t.pc.counted with
        | true => rfl
        | false => exact absurd ⟨t, ht, hne, hc⟩ hno
      have := countedSum_eq_of_all s.trk hall
      have e1 := h.N.disp
      have e2 := h.N.comp
      simp only [allItems] at e1
      omega
    obtain ⟨t, ht, h1, h2⟩ := hex
    refine ⟨t, ht, h1, ?_⟩
    cases hp : t.pc with
    | dropped => have := h3.dropped t ht hp; rw [hna] at this; cases this
    | done b =>
      cases b with
      | true => rw [hp] at h2; cases h2
      | false => have := h3.failedCb t ht (Or.inr hp); rw [hna] at this; cases this
    | _ => rfl

end JoblibModel.ParallelLock
