import JoblibProofs.Lemmas.ParallelLock.Exit2
/-!
M1L proofs — rely/guarantee: what every step of a thread OTHER than the caller guarantees (`Guar`), and the stability of
the caller's local assertions `LocOK` under it.
-/
namespace JoblibModel.ParallelLock

/-- What a step of a callback thread / of the environment guarantees to the caller. -/
structure Guar (s s' : St) : Prop where
  pc : s'.pc = s.pc
  nPop : s'.nPop = s.nPop
  running : s'.running = s.running
  len : s.trk.length ≤ s'.trk.length
  st : ∀ j, j < s.trk.length → (getT s.trk j).status ≠ .pending → (getT s'.trk j).status = (getT s.trk j).status
  ncomp : s.nCompleted ≤ s'.nCompleted
  orig : s.origAlive = false → s'.origAlive = false
  stuck : Stuck s → Stuck s'
  exited : Exited s → Exited s' ∧ s'.trk.length = s.trk.length ∧ (NoErr s → NoErr s')
  ab : s.aborting = true → s'.aborting = true

/-- The caller's local assertions are stable under the steps of the other threads (which exist only once something
has been dispatched: `s.trk ≠ []`). -/
theorem LocOK.stable {c : Cfg} {s s' : St} (h : Inv c s) (hL : LocOK c s) (g : Guar s s') (hne : s.trk ≠ []) :
    LocOK c s' := by
  have hpc := g.pc
  have hnf : ¬ Fresh s := fun f => hne f.trk
  have hnpre : s.pc.preDispatch = true → False := fun hp => hnf (h.P hp)
  unfold LocOK at hL ⊢
  rw [hpc]
  cases hp : s.pc with
  | resetAcq => exact (hnpre (by rw [hp]; rfl)).elim
  | wAbort0 => exact (hnpre (by rw [hp]; rfl)).elim
  | readyAcq => exact (hnpre (by rw [hp]; rfl)).elim
  | readyRel => exact (hnpre (by rw [hp]; rfl)).elim
  | wOrig => exact (hnpre (by rw [hp]; rfl)).elim
  | wIter0 => exact (hnpre (by rw [hp]; rfl)).elim
  | dPre k =>
    cases k with
    | first => rw [hp] at hL; exact (hnf hL.1).elim
    | loop => trivial
  | dBs k =>
    cases k with
    | first => rw [hp] at hL; exact (hnf hL.1).elim
    | loop => trivial
  | dAcq k bs =>
    cases k with
    | first => rw [hp] at hL; exact (hnf hL.1.1).elim
    | loop => rw [hp] at hL; exact hL
  | wIterAll => rw [hp] at hL; exact hL
  | refAcq => rw [hp] at hL; exact g.ab hL
  | wtNComp =>
    rw [hp] at hL
    rcases hL with h1 | h1
    · exact Or.inl (g.orig h1)
    · exact Or.inr (g.stuck h1)
  | wtNDisp nc =>
    rw [hp] at hL
    refine ⟨?_, Nat.le_trans hL.2 g.ncomp⟩
    rcases hL.1 with h1 | h1
    · exact Or.inl (g.orig h1)
    · exact Or.inr (g.stuck h1)
  | wtAbort2 => rw [hp] at hL; exact (g.exited hL).1
  | rtHead => rw [hp] at hL; simp only at hL ⊢; rw [g.nPop]; exact Nat.lt_of_lt_of_le hL g.len
  | rtStatus i => rw [hp] at hL; simp only at hL ⊢; rw [g.nPop]; exact ⟨hL.1, Nat.lt_of_lt_of_le hL.2 g.len⟩
  | popAcq =>
    rw [hp] at hL; simp only at hL ⊢; rw [g.nPop]
    exact ⟨Nat.lt_of_lt_of_le hL.1 g.len, by rw [g.st _ hL.1 hL.2]; exact hL.2⟩
  | popRel i =>
    rw [hp] at hL; simp only at hL ⊢; rw [g.nPop]
    exact ⟨hL.1, Nat.lt_of_lt_of_le hL.2.1 g.len, by rw [g.st _ hL.2.1 hL.2.2]; exact hL.2.2⟩
  | resStatus i =>
    rw [hp] at hL; simp only at hL ⊢; rw [g.nPop]
    exact ⟨hL.1, Nat.lt_of_lt_of_le hL.2.1 g.len, by rw [g.st _ hL.2.1 hL.2.2]; exact hL.2.2⟩
  | refRel e =>
    cases e with
    | none => rw [hp] at hL; exact hL
    | some i =>
      rw [hp] at hL; simp only at hL ⊢; rw [g.nPop]
      exact ⟨hL.1, Nat.lt_of_lt_of_le hL.2.1 g.len, by rw [g.st _ hL.2.1 (by rw [hL.2.2]; simp)]; exact hL.2.2⟩
  | refStatus i =>
    rw [hp] at hL; simp only at hL ⊢; rw [g.nPop]
    exact ⟨hL.1, Nat.lt_of_lt_of_le hL.2.1 g.len, by rw [g.st _ hL.2.1 (by rw [hL.2.2]; simp)]; exact hL.2.2⟩
  | excW e => rw [hp] at hL; exact hL
  | abortW e => rw [hp] at hL; exact hL
  | abortCall e => rw [hp] at hL; exact hL
  | finExc e =>
    cases e with
    | some e => rw [hp] at hL; exact hL
    | none =>
      rw [hp] at hL; simp only at hL ⊢
      obtain ⟨g1, g2, g3⟩ := g.exited hL.1
      exact ⟨g1, fun hs => g3 (hL.2 hs)⟩
  | finJobsR e =>
    cases e with
    | some e => rw [hp] at hL; exact hL
    | none =>
      rw [hp] at hL; simp only at hL ⊢
      obtain ⟨g1, g2, g3⟩ := g.exited hL.1
      exact ⟨g1, fun hs => g3 (hL.2 hs)⟩
  | finJobsW e rem =>
    cases e with
    | some e => rw [hp] at hL; exact hL
    | none =>
      rw [hp] at hL; simp only at hL ⊢
      obtain ⟨g1, g2, g3⟩ := g.exited hL.1
      rw [g2, g.nPop]
      exact ⟨g1, fun hs => g3 (hL.2.1 hs), hL.2.2.1, hL.2.2.2⟩
  | tailStatus i rem =>
    rw [hp] at hL; simp only at hL ⊢
    obtain ⟨g1, g2, g3⟩ := g.exited hL.1
    rw [g2]
    exact ⟨g1, fun hs => g3 (hL.2.1 hs), hL.2.2⟩
  | resetRel => trivial
  | wNDisp => trivial
  | wNComp => trivial
  | wExc0 => trivial
  | dIn k => trivial
  | dSubmit k j => trivial
  | dRel k r => trivial
  | itAcq => trivial
  | itRel => trivial
  | wtAbort => trivial
  | wtIter => trivial
  | rtAbort => trivial
  | rtLen => trivial
  | sleep => trivial
  | done => trivial

end JoblibModel.ParallelLock
