import JoblibProofs.Lemmas.ParallelLock.TermCb
/-!
M1L proofs — termination measure: every step the caller takes decreases the measure, PROVIDED that, when the caller
evaluates the loop condition of the retrieval loop without an error being flagged (`r:_iterating`,
`r:n_completed_tasks`), the condition is false (`hq`). Under the drain schedule the caller only runs when nothing else is
enabled, and then `hq` holds (`TermDrain.lean`).
-/
namespace JoblibModel.ParallelLock

theorem meas_returnOrRaise (c : Cfg) (s : St) (i : Nat) :
    W c (returnOrRaise s i).1 = W c s ∧ P (returnOrRaise s i).1 = P s ∧ (returnOrRaise s i).1.jobs = s.jobs ∧
    (returnOrRaise s i).1.pc = s.pc ∧ (returnOrRaise s i).1.aborting = s.aborting ∧
    (returnOrRaise s i).1.nDispTasks = s.nDispTasks := by
  refine ⟨?_, potSum_of_key (key_returnOrRaise s i), ?_⟩
  · unfold returnOrRaise
    simp only
    split
    · rfl
    · split <;> rfl
    · split <;> rfl
  · unfold returnOrRaise
    simp only
    split
    · exact ⟨rfl, rfl, rfl, rfl⟩
    · split <;> exact ⟨rfl, rfl, rfl, rfl⟩
    · split <;> exact ⟨rfl, rfl, rfl, rfl⟩

macro "cdec" hpc:ident : tactic => `(tactic|
  first
  | (refine Dec.r ?_ ?_ ?_ ?_ <;> (simp [W, P, L, R, Pc.rank, $hpc:ident, *]; done))
  | (refine Dec.l ?_ ?_ ?_ <;> (simp [W, P, L, R, Pc.rank, $hpc:ident, *]; done)))

theorem stepCaller_dec {c : Cfg} {s : St} (h : Inv c s) (h4 : Inv4 s) (he : callerEnabled s = true)
    (hq : s.aborting = false → (s.pc = .wtIter → s.iterating = false) ∧
      (s.pc = .wtNComp → ¬ s.nCompleted < s.nDispTasks)) : Dec c s (stepCaller c s) := by
  cases hpc : s.pc with
  | resetAcq => unfold stepCaller; simp only [hpc]; split <;> cdec hpc
  | resetRel => unfold stepCaller; simp only [hpc]; cdec hpc
  | wNDisp => unfold stepCaller; simp only [hpc]; cdec hpc
  | wNComp => unfold stepCaller; simp only [hpc]; cdec hpc
  | wExc0 => unfold stepCaller; simp only [hpc]; cdec hpc
  | wAbort0 => unfold stepCaller; simp only [hpc]; cdec hpc
  | readyAcq =>
    have fr := h.P (by rw [hpc]; rfl)
    unfold stepCaller; simp only [hpc]
    refine Dec.r ?_ ?_ ?_ ?_ <;> simp [W, P, L, R, Pc.rank, hpc, fr.ready]
  | readyRel => unfold stepCaller; simp only [hpc]; cdec hpc
  | wOrig => unfold stepCaller; simp only [hpc]; split <;> cdec hpc
  | wIter0 => unfold stepCaller; simp only [hpc]; cdec hpc
  | dPre k =>
    unfold stepCaller; simp only [hpc]
    cases k <;> simp only [afterDispatch] <;> (repeat' split) <;> cdec hpc
  | dBs k => unfold stepCaller; simp only [hpc]; cases k <;> cdec hpc
  | dAcq k bs =>
    unfold stepCaller; simp only [hpc]
    have hlk : s.lockOwner = none := by simpa [callerEnabled, hpc, Pc.isAcq] using he
    have h0 : Inv c { s with lockOwner := some 0, pc := .dIn k } := by
      apply h.callerStep <;> first | rfl | simp [hpc, Pc.holding, Pc.preDispatch, hlk]
    have hL0 : L { s with lockOwner := some 0, pc := .dIn k } = L s := by simp [L, hpc]
    obtain ⟨s', r, hd, hcase⟩ := dispatchLocked_cases h0.S h0.C.readyNe 0 false bs
    rw [hd]
    obtain ⟨hp, hm⟩ := hcase.meas h0.S
    have hW0 : W c { s with lockOwner := some 0, pc := .dIn k } = W c s := rfl
    have hP0 : P { s with lockOwner := some 0, pc := .dIn k } = P s := rfl
    rcases hm with ⟨e1, e2, e3, e4, e5⟩ | ⟨x, e1, e2, e3, e4⟩
    · cases r with
      | submit j => exact absurd rfl (e4 j)
      | ret b =>
        cases b with
        | true => exact absurd rfl e5
        | false =>
          simp only
          refine Dec.r ?_ ?_ ?_ ?_
          · exact e3
          · show potSum s'.trk ≤ _; rw [e1]; exact Nat.le_refl _
          · show L { s' with lockOwner := none, pc := Pc.dRel k false } ≤ L s
            simp [L, hpc, e2]
          · cases k <;> simp [R, Pc.rank, hpc]
    · have hP : P s' = P s + 10 := by
        show potSum s'.trk = _
        rw [e1, potSum_append]
        simp [potSum, e2, CbPc.pot, P]
      have hjl : s'.jobs.length = s.jobs.length + 1 := by rw [e3]; simp
      cases r with
      | submit j =>
        simp only
        refine Dec.w e4 (Nat.le_of_eq hP) ?_
        show L { s' with pc := Pc.dSubmit k j } ≤ L s + 1
        simp [L, hpc, hjl]
      | ret b =>
        simp only
        refine Dec.w e4 (Nat.le_of_eq hP) ?_
        show L { s' with lockOwner := none, pc := Pc.dRel k b } ≤ L s + 1
        simp [L, hpc, hjl]
  | dIn k => exact absurd hpc (h4.noIn k)
  | dSubmit k j =>
    unfold stepCaller; simp only [hpc]
    have hpend := h.U.caller k j hpc
    have hP := P_doSubmit 0 { s with pc := .dIn k } j hpend.1 hpend.2.1
    have hP0 : P { s with pc := .dIn k } = P s := rfl
    refine Dec.p (Nat.le_refl _) ?_ ?_
    · show P (doSubmit 0 j { s with pc := .dIn k }) < P s
      omega
    · simp [L, hpc]
  | dRel k r =>
    unfold stepCaller; simp only [hpc]
    cases k <;> cases r <;> simp only [afterDispatch] <;> (repeat' split) <;> cdec hpc
  | itAcq => unfold stepCaller; simp only [hpc]; cdec hpc
  | itRel => unfold stepCaller; simp only [hpc]; cdec hpc
  | wIterAll => unfold stepCaller; simp only [hpc]; cdec hpc
  | wtAbort => unfold stepCaller; simp only [hpc]; split <;> cdec hpc
  | wtIter =>
    unfold stepCaller; simp only [hpc]
    cases hab : s.aborting with
    | true => split <;> cdec hpc
    | false =>
      have := (hq hab).1 hpc
      simp only [this]
      cdec hpc
  | wtNComp =>
    unfold stepCaller; simp only [hpc]
    cases hab : s.aborting with
    | true => cdec hpc
    | false =>
      have := (hq hab).2 hpc
      cdec hpc
  | wtNDisp nc =>
    unfold stepCaller; simp only [hpc]
    cases hab : s.aborting <;> (repeat' split) <;> cdec hpc
  | wtAbort2 => unfold stepCaller; simp only [hpc]; split <;> cdec hpc
  | rtAbort => unfold stepCaller; simp only [hpc]; split <;> cdec hpc
  | rtLen => unfold stepCaller; simp only [hpc]; split <;> cdec hpc
  | rtHead => unfold stepCaller; simp only [hpc]; split <;> cdec hpc
  | rtStatus i => unfold stepCaller; simp only [hpc]; split <;> cdec hpc
  | sleep => unfold stepCaller; simp only [hpc]; cdec hpc
  | popAcq => unfold stepCaller; simp only [hpc]; split <;> cdec hpc
  | popRel i => unfold stepCaller; simp only [hpc]; cdec hpc
  | refAcq => unfold stepCaller; simp only [hpc]; cdec hpc
  | refRel e => cases e <;> (unfold stepCaller; simp only [hpc]; cdec hpc)
  | excW e => unfold stepCaller; simp only [hpc]; cdec hpc
  | abortW e => unfold stepCaller; simp only [hpc]; split <;> cdec hpc
  | finExc e => unfold stepCaller; simp only [hpc]; split <;> cdec hpc
  | finJobsR e => unfold stepCaller; simp only [hpc]; cdec hpc
  | done => simp [callerEnabled, hpc] at he
  | resStatus i =>
    unfold stepCaller; simp only [hpc]
    obtain ⟨m1, m2, m3, m4, m5, m6⟩ := meas_returnOrRaise c s i
    generalize returnOrRaise s i = x at m1 m2 m3 m4 m5 m6 ⊢
    obtain ⟨s', r⟩ := x
    simp only at m1 m2 m3 m4 m5 m6
    cases r with
    | error e =>
      simp only
      refine Dec.r (Nat.le_of_eq m1) (Nat.le_of_eq m2) ?_ ?_
      · show L { s' with pc := Pc.excW e } ≤ L s
        simp [L, hpc, m3]
      · show R { s' with pc := Pc.excW e } < R s
        simp [R, Pc.rank, hpc]
    | ok l =>
      simp only
      refine Dec.r ?_ ?_ ?_ ?_
      · show W c { deliverVals c s' l with pc := Pc.wtAbort } ≤ W c s
        rw [← m1]; simp [W]
      · show P { deliverVals c s' l with pc := Pc.wtAbort } ≤ P s
        rw [← m2]; simp [P]
      · show L { deliverVals c s' l with pc := Pc.wtAbort } ≤ L s
        simp [L, hpc, m3]
      · show R { deliverVals c s' l with pc := Pc.wtAbort } < R s
        simp [R, Pc.rank, hpc]
  | refStatus i =>
    unfold stepCaller; simp only [hpc]
    obtain ⟨m1, m2, m3, m4, m5, m6⟩ := meas_returnOrRaise c s i
    generalize returnOrRaise s i = x at m1 m2 m3 m4 m5 m6 ⊢
    obtain ⟨s', r⟩ := x
    simp only at m1 m2 m3 m4 m5 m6
    cases r with
    | error e =>
      simp only
      refine Dec.r (Nat.le_of_eq m1) (Nat.le_of_eq m2) ?_ ?_
      · show L { s' with pc := Pc.excW e } ≤ L s
        simp [L, hpc, m3]
      · show R { s' with pc := Pc.excW e } < R s
        simp [R, Pc.rank, hpc]
    | ok l =>
      simp only
      refine Dec.r (Nat.le_of_eq m1) (Nat.le_of_eq m2) ?_ ?_
      · show L { s' with pc := Pc.finExc none } ≤ L s
        simp [L, hpc, m3]
      · show R { s' with pc := Pc.finExc none } < R s
        simp [R, Pc.rank, hpc]
  | tailStatus i rem =>
    unfold stepCaller; simp only [hpc]
    obtain ⟨m1, m2, m3, m4, m5, m6⟩ := meas_returnOrRaise c s i
    generalize returnOrRaise s i = x at m1 m2 m3 m4 m5 m6 ⊢
    obtain ⟨s', r⟩ := x
    simp only at m1 m2 m3 m4 m5 m6
    cases r with
    | error e =>
      simp only
      refine Dec.l ?_ ?_ ?_
      · rw [← m1]; simp [W]
      · rw [← m2]; simp [P]
      · simp [L, hpc]
    | ok l =>
      simp only
      cases rem with
      | nil =>
        simp only [tailNext]
        refine Dec.l ?_ ?_ ?_
        · rw [← m1]; simp [W]
        · rw [← m2]; simp [P]
        · simp [L, hpc]
      | cons i' rest =>
        simp only [tailNext]
        refine Dec.l ?_ ?_ ?_
        · show W c { deliverVals c s' l with pc := Pc.tailStatus i' rest } ≤ W c s
          rw [← m1]; simp [W]
        · show P { deliverVals c s' l with pc := Pc.tailStatus i' rest } ≤ P s
          rw [← m2]; simp [P]
        · show L { deliverVals c s' l with pc := Pc.tailStatus i' rest } < L s
          simp [L, hpc]
  | finJobsW e rem =>
    unfold stepCaller; simp only [hpc]
    cases e with
    | some e => simp only; cdec hpc
    | none =>
      simp only
      cases rem with
      | nil => simp only [tailNext]; cdec hpc
      | cons i' rest => simp only [tailNext]; cdec hpc
  | abortCall e =>
    unfold stepCaller; simp only [hpc]
    have hX : ∀ (X : St), X = (if c.abortDrops = true then dropParked (ev s .abort) else ev s .abort) →
        W c X = W c s ∧ P X ≤ P s ∧ X.jobs = s.jobs := by
      intro X hX; subst hX
      split
      · exact ⟨rfl, potSum_drop s.trk, rfl⟩
      · exact ⟨rfl, Nat.le_refl _, rfl⟩
    generalize (if c.abortDrops = true then dropParked (ev s .abort) else ev s .abort) = X at hX
    obtain ⟨x1, x2, x3⟩ := hX X rfl
    refine Dec.r (Nat.le_of_eq x1) x2 ?_ ?_
    · show L { X with aborted := true, pc := Pc.finExc (some e) } ≤ L s
      simp [L, hpc, x3]
    · show R { X with aborted := true, pc := Pc.finExc (some e) } < R s
      simp [R, Pc.rank, hpc]

end JoblibModel.ParallelLock
