import JoblibModel.ParallelLock
/-!
M1L proofs — basic facts: `chunks`, tracker-table access (`getTrk`/`setTrk`/`setCb`), sums.
-/
namespace JoblibModel.ParallelLock

/-! ### `chunks` -/

theorem chunks_go_flatten (k : Nat) : ∀ (fuel : Nat) (l : List Nat), l.length ≤ fuel →
    (chunks.go k fuel l).flatten = l := by
  intro fuel
  induction fuel with
  | zero => intro l h; cases l <;> simp_all [chunks.go]
  | succ f ih =>
    intro l h
    cases l with
    | nil => simp [chunks.go]
    | cons a t =>
      simp only [chunks.go, List.flatten_cons]
      rw [ih]
      · simp
      · simp only [List.length_drop, List.length_cons] at *; omega

theorem chunks_flatten (k : Nat) (l : List Nat) : (chunks k l).flatten = l :=
  chunks_go_flatten k _ l (Nat.le_refl _)

theorem chunks_go_ne_nil (k : Nat) : ∀ (fuel : Nat) (l : List Nat), ∀ b ∈ chunks.go k fuel l, b ≠ [] := by
  intro fuel
  induction fuel with
  | zero => intro l b h; simp [chunks.go] at h
  | succ f ih =>
    intro l b h
    cases l with
    | nil => simp [chunks.go] at h
    | cons a t =>
      simp only [chunks.go, List.mem_cons] at h
      rcases h with h | h
      · subst h
        have : 0 < max k 1 := by omega
        cases hm : max k 1 with
        | zero => omega
        | succ m => simp
      · exact ih _ b h

theorem chunks_ne_nil (k : Nat) (l : List Nat) : ∀ b ∈ chunks k l, b ≠ [] :=
  chunks_go_ne_nil k _ l

theorem chunks_nil (k : Nat) : chunks k [] = [] := by simp [chunks, chunks.go]

theorem chunks_eq_nil_iff (k : Nat) (l : List Nat) : chunks k l = [] ↔ l = [] := by
  constructor
  · intro h
    have := chunks_flatten k l
    rw [h] at this; simpa using this.symm
  · rintro rfl; exact chunks_nil k

/-! ### the tracker table -/

/-- `getTrk` as a function of the table only (the simp-normal form of the proofs). -/
def getT (l : List Tracker) (i : Nat) : Tracker := l.getD i default

@[simp] theorem getTrk_def (s : St) (i : Nat) : getTrk s i = getT s.trk i := rfl

theorem getT_set (l : List Tracker) (i j : Nat) (t : Tracker) :
    getT (l.set i t) j = if j = i ∧ i < l.length then t else getT l j := by
  simp only [getT, List.getD_eq_getElem?_getD, List.getElem?_set]
  by_cases h : i = j
  · subst h
    by_cases h2 : i < l.length
    · simp [h2]
    · simp [h2]
  · have : ¬ (j = i) := fun e => h e.symm
    simp [h, this]

@[simp] theorem getT_set_self (l : List Tracker) (i : Nat) (t : Tracker) (h : i < l.length) :
    getT (l.set i t) i = t := by simp [getT_set, h]

theorem getT_set_ne (l : List Tracker) (i j : Nat) (t : Tracker) (h : j ≠ i) :
    getT (l.set i t) j = getT l j := by simp [getT_set, h]

theorem getT_append_left (l l' : List Tracker) (i : Nat) (h : i < l.length) : getT (l ++ l') i = getT l i := by
  simp [getT, List.getD_eq_getElem?_getD, List.getElem?_append_left h]

@[simp] theorem getT_append_length (l : List Tracker) (t : Tracker) : getT (l ++ [t]) l.length = t := by
  simp [getT, List.getD_eq_getElem?_getD]

theorem getT_of_ge (l : List Tracker) (i : Nat) (h : l.length ≤ i) : getT l i = default := by
  simp [getT, List.getD_eq_getElem?_getD, List.getElem?_eq_none h]

theorem getT_mem (l : List Tracker) (i : Nat) (h : i < l.length) : getT l i ∈ l := by
  simp [getT, List.getD_eq_getElem?_getD, List.getElem?_eq_getElem h]

theorem getT_map (l : List Tracker) (f : Tracker → Tracker) (i : Nat) (h : i < l.length) :
    getT (l.map f) i = f (getT l i) := by
  simp [getT, List.getD_eq_getElem?_getD, List.getElem?_eq_getElem h]

theorem mem_iff_getT (l : List Tracker) (t : Tracker) : t ∈ l ↔ ∃ i, i < l.length ∧ getT l i = t := by
  constructor
  · intro h
    obtain ⟨i, hi, e⟩ := List.getElem_of_mem h
    exact ⟨i, hi, by simp [getT, List.getD_eq_getElem?_getD, List.getElem?_eq_getElem hi, e]⟩
  · rintro ⟨i, hi, rfl⟩; exact getT_mem l i hi

end JoblibModel.ParallelLock
