import JoblibProofs.Lemmas.ParallelLock.CbMove2
/-!
M1L proofs — the locked region of `dispatch_one_batch` preserves `Inv2` (`DLCase.inv2`), whether it is run by the
caller (at the marker pc `dIn`) or by a callback thread (inside `dispatch_next`, `_original_iterator` alive).
-/
namespace JoblibModel.ParallelLock

theorem range'_append_len (a len k : Nat) (h : a ≤ len) :
    List.range' a (len - a) ++ List.range' len k = List.range' a (len + k - a) := by
  obtain ⟨d, rfl⟩ : ∃ d, len = a + d := ⟨len - a, by omega⟩
  have := List.range'_append (s := a) (m := d) (n := k) (step := 1)
  simp only [Nat.one_mul] at this
  rw [show a + d - a = d by omega, show a + d + k - a = d + k by omega]
  exact this

/-- A tracker appended by `dispatch_one_batch`. -/
def NewTrk (c : Cfg) (s' : St) (t : Tracker) : Prop :=
  (t.status = .pending ∧ t.pc = .idle ∧ t.items ≠ []) ∨
  (t.status = .error ∧ t.pc = .idle ∧ t.items = [] ∧ (∃ e, t.result = .exc e ∧ LegitErr c e) ∧
    s'.aborting = true ∧ s'.exception = true)

/-- Who runs the locked region. -/
def DispCtx (s : St) (fo : Bool) : Prop :=
  (fo = false ∧ ∃ k, s.pc = .dIn k) ∨
  (fo = true ∧ s.origAlive = true ∧ ∃ i, i < s.trk.length ∧ (getT s.trk i).items ≠ [])

theorem DispCtx.notExited {s : St} (h : DispCtx s true) : ¬ Exited s := by
  rcases h with ⟨h, _⟩ | ⟨_, ho, i, hi, hne⟩
  · cases h
  · rintro ⟨_, h1 | h1⟩
    · rw [ho] at h1; cases h1
    · exact allItems_ne_nil (getT_mem _ _ hi) hne h1.1

theorem DispCtx.notStuck {s : St} (h : DispCtx s true) : ¬ Stuck s := by
  rcases h with ⟨h, _⟩ | ⟨_, ho, i, hi, hne⟩
  · cases h
  · intro h1; exact allItems_ne_nil (getT_mem _ _ hi) hne h1.1

/-- The general transfer lemma for the locked region of `dispatch_one_batch`. -/
theorem Inv2.append {c : Cfg} {s s' : St} {fo : Bool} (h : Inv c s) (h2 : Inv2 c s) (ctx : DispCtx s fo)
    (new : List Tracker)
    (e_trk : s'.trk = s.trk ++ new) (e_jobs : s'.jobs = s.jobs ++ List.range' s.trk.length new.length)
    (e_pc : s'.pc = s.pc) (e_out : s'.out = s.out) (e_outcome : s'.outcome = s.outcome) (e_nPop : s'.nPop = s.nPop)
    (e_orig : s'.origAlive = s.origAlive) (e_iter : s'.iterating = s.iterating) (e_run : s'.running = s.running)
    (e_nc : s'.nCompleted = s.nCompleted)
    (hnew : ∀ t ∈ new, NewTrk c s' t)
    (a_up : s.aborting = true → s'.aborting = true)
    (a_new : s'.aborting = true → s.aborting = true ∨ ∃ t ∈ new, t.status = .error)
    (x_up : s.exception = true → s'.exception = true)
    (x_new : s'.exception = true → s.exception = true ∨ ∃ t ∈ new, t.status = .error)
    (r_new : s'.srcRaised = true → s.srcRaised = true ∨ ∃ t ∈ new, t.items = [])
    (p_none : s.preLeft = none → s'.preLeft = none)
    (d_orig : s'.aborting = false → s.pc.pastWOrig = true → c.pdMode ≠ 1 → s.origAlive = false →
      s'.ready = [] ∧ s'.srcDead = true)
    (d_all : s'.aborting = false → c.pdMode = 1 → s.pc.postLoop = true → s'.ready = [] ∧ s'.srcDead = true)
    (k_stuck : Stuck s → Stuck s') :
    Inv2 c s' ∧
      ((s.iterating = false → s.origAlive = false ∨ Stuck s) →
        (s'.iterating = false → s'.origAlive = false ∨ Stuck s')) := by
  have hlen : s.trk.length ≤ s'.trk.length := by rw [e_trk]; simp
  have hgl : ∀ j, j < s.trk.length → getT s'.trk j = getT s.trk j := fun j hj => by
    rw [e_trk]; exact getT_append_left _ _ _ hj
  have hmem : ∀ t' ∈ s'.trk, t' ∈ s.trk ∨ t' ∈ new := fun t' ht' => by
    rw [e_trk] at ht'; exact List.mem_append.mp ht'
  have hmemL : ∀ t ∈ s.trk, t ∈ s'.trk := fun t ht => by rw [e_trk]; exact List.mem_append_left _ ht
  have hmemR : ∀ t ∈ new, t ∈ s'.trk := fun t ht => by rw [e_trk]; exact List.mem_append_right _ ht
  have hgr : ∀ j, s.trk.length ≤ j → j < s'.trk.length → getT s'.trk j ∈ new := by
    intro j hj hj'
    have hk2 : j - s.trk.length < new.length := by rw [e_trk] at hj'; simp at hj'; omega
    have : getT s'.trk j = getT new (j - s.trk.length) := by
      simp [getT, e_trk, List.getD_eq_getElem?_getD, List.getElem?_append_right hj]
    rw [this]; exact getT_mem _ _ hk2
  have hun : unread s' = unread s := by simp only [unread, e_pc, e_nPop]
  have hunle : s.pc.excPath = false → unread s ≤ s.trk.length := by
    intro hp
    have h1 := h2.D.nPopLe
    simp only [unread]
    split
    · omega
    · omega
    · rename_i i rem hpc
      have := h2.L; simp only [LocOK, hpc] at this
      have := congrArg List.length this.2.2
      simp at this; omega
    · exact h1
  have K : (s.iterating = false → s.origAlive = false ∨ Stuck s) →
      (s'.iterating = false → s'.origAlive = false ∨ Stuck s') := by
    intro hk hi
    rw [e_iter] at hi; rw [e_orig]
    rcases hk hi with h1 | h1
    · exact Or.inl h1
    · exact Or.inr (k_stuck h1)
  refine ⟨⟨⟨?_, ?_, ?_, ?_⟩, ⟨?_, ?_⟩, ⟨?_, ?_, ?_, ?_⟩, ⟨?_, ?_, ?_, ?_, ?_, ?_⟩, ?_, ⟨?_, ?_, ?_⟩⟩, K⟩
  · -- errFlags
    intro t' ht' hs
    rcases hmem t' ht' with hm | hm
    · obtain ⟨a, b⟩ := h2.F.errFlags t' hm hs
      exact ⟨a_up a, x_up b⟩
    · rcases hnew t' hm with h1 | h1
      · rw [h1.1] at hs; cases hs
      · exact ⟨h1.2.2.2.2.1, h1.2.2.2.2.2⟩
  · intro ha
    rw [e_pc]
    rcases a_new ha with h1 | ⟨t, ht, hs⟩
    · rcases h2.F.aborting h1 with ⟨t, ht, hs⟩ | h3
      · exact Or.inl ⟨t, hmemL t ht, hs⟩
      · exact Or.inr h3
    · exact Or.inl ⟨t, hmemR t ht, hs⟩
  · intro ha
    rw [e_pc]
    rcases x_new ha with h1 | ⟨t, ht, hs⟩
    · rcases h2.F.exception h1 with ⟨t, ht, hs⟩ | h3
      · exact Or.inl ⟨t, hmemL t ht, hs⟩
      · exact Or.inr h3
    · exact Or.inl ⟨t, hmemR t ht, hs⟩
  · intro hr
    rcases r_new hr with h1 | ⟨t, ht, hs⟩
    · obtain ⟨t, ht, hs⟩ := h2.F.raised h1
      exact ⟨t, hmemL t ht, hs⟩
    · exact ⟨t, hmemR t ht, hs⟩
  · -- R.done
    intro hp j hj hl hs
    rw [e_pc] at hp; rw [hun] at hj
    by_cases hjl : j < s.trk.length
    · rw [hgl j hjl] at hs ⊢; exact h2.R.done hp j hj hjl hs
    · have hm := hgr j (Nat.le_of_not_lt hjl) hl
      rcases hnew _ hm with h1 | h1
      · rw [h1.1] at hs; cases hs
      · rw [h1.1] at hs; cases hs
  · intro hp j hj hl hs
    rw [e_pc] at hp; rw [hun] at hj
    by_cases hjl : j < s.trk.length
    · rw [hgl j hjl] at hs ⊢; exact h2.R.error hp j hj hjl hs
    · have hm := hgr j (Nat.le_of_not_lt hjl) hl
      rcases hnew _ hm with h1 | h1
      · rw [h1.1] at hs; cases hs
      · exact h1.2.2.2.1
  · -- prefixDone
    intro hp j hj hl
    rw [e_pc] at hp; rw [hun] at hj
    have hjl : j < s.trk.length := Nat.lt_of_lt_of_le hj (hunle hp)
    rw [hgl j hjl]; exact h2.D.prefixDone hp j hj hjl
  · -- out
    intro hp
    rw [e_pc] at hp
    rw [hun, e_out, e_trk, List.take_append_of_le_length (hunle hp)]
    exact h2.D.out hp
  · rw [e_nPop]; exact Nat.le_trans h2.D.nPopLe hlen
  · intro hp
    rw [e_pc] at hp
    have hj := h2.D.jobs hp
    have hn := h2.D.nPopLe
    rw [e_jobs, e_nPop, hj, e_trk, List.length_append]
    exact range'_append_len _ _ _ hn
  · intro hm; rw [e_orig]; exact h2.I.allMode hm
  · intro hm hp; rw [e_pc] at hp; exact p_none (h2.I.allPre hm hp)
  · -- afterFirst
    intro hp hi
    rw [e_pc] at hp
    exact K (fun hi' => h2.I.afterFirst hp hi') hi
  · intro ha hp hm ho
    rw [e_pc] at hp; rw [e_orig] at ho
    exact d_orig ha hp hm ho
  · intro ha hm hp
    rw [e_pc] at hp
    exact d_all ha hm hp
  · -- bsC
    intro t' ht' hb
    rw [e_orig]
    rcases hmem t' ht' with hm | hm
    · exact h2.I.bsC t' hm hb
    · rcases hnew t' hm with h1 | h1
      · rw [h1.2.1] at hb; cases hb
      · rw [h1.2.1] at hb; cases hb
  · -- LocOK
    rcases ctx with ⟨_, k, hk⟩ | hcb
    · unfold LocOK; rw [e_pc, hk]; trivial
    · have hcb' : DispCtx s true := by
        rcases hcb with ⟨_, b⟩; exact Or.inr ⟨rfl, b⟩
      have hne : s.trk ≠ [] := by
        obtain ⟨_, _, i, hi, _⟩ := hcb
        intro e; rw [e] at hi; cases hi
      refine LocOK.stable h h2.L ⟨e_pc, e_nPop, e_run, hlen, fun j hj _ => by rw [hgl j hj], by rw [e_nc]; exact Nat.le_refl _,
        fun ho => by rw [e_orig]; exact ho, k_stuck, fun hx => absurd hx hcb'.notExited, a_up⟩ hne
  · -- ret
    intro l hl
    rw [e_outcome] at hl
    rcases ctx with ⟨_, k, hk⟩ | hcb
    · have := h2.O.noOutcome (by rw [hk]; intro hh; cases hh)
      rw [this] at hl; cases hl
    · have hcb' : DispCtx s true := by
        rcases hcb with ⟨_, b⟩; exact Or.inr ⟨rfl, b⟩
      exact absurd (h2.O.ret l hl).1 hcb'.notExited
  · intro x hx; rw [e_outcome] at hx; exact h2.O.raised x hx
  · intro hp; rw [e_pc] at hp; rw [e_outcome]; exact h2.O.noOutcome hp


/-- The locked region of `dispatch_one_batch` preserves `Inv2`, and the fact "`_iterating` cleared ⇒ nothing can be
dispatched any more" across the marker pc. -/
theorem DLCase.inv2 {c : Cfg} {t : Tid} {fo : Bool} {bs : Nat} {s s' : St} {r : DRes}
    (hcase : DLCase c t fo bs s s' r) (h : Inv c s) (h2 : Inv2 c s) (ctx : DispCtx s fo) :
    Inv2 c s' ∧
      ((s.iterating = false → s.origAlive = false ∨ Stuck s) →
        (s'.iterating = false → s'.origAlive = false ∨ Stuck s')) := by
  cases hcase with
  | aborting ha => exact ⟨h2, id⟩
  | ready tasks rest ha hr htn =>
    refine Inv2.append h h2 ctx [{ items := tasks, bsize := tasks.length, callId := s.callId }] rfl rfl rfl rfl rfl rfl
      rfl rfl rfl rfl ?_ id Or.inl id Or.inl Or.inl id ?_ ?_ ?_
    · intro t ht; rw [List.mem_singleton] at ht; subst ht; exact Or.inl ⟨rfl, rfl, htn⟩
    · intro ha' hp hm ho
      have := (h2.I.origDead ha hp hm ho).1
      rw [hr] at this; cases this
    · intro ha' hm hp
      have := (h2.I.allDead ha hm hp).1
      rw [hr] at this; cases this
    · intro hs; have := hs.2.1; rw [hr] at this; cases this
  | raised m evs dead pl ha hr hf hsd =>
    refine Inv2.append h h2 ctx
      [{ items := [], bsize := bs, callId := s.callId, status := .error, result := .exc (.iter (s.srcPos + m)) }]
      rfl rfl rfl rfl rfl rfl rfl rfl rfl rfl ?_ (fun _ => rfl) (fun _ => Or.inr ⟨_, List.mem_singleton.mpr rfl, rfl⟩)
      (fun _ => rfl) (fun _ => Or.inr ⟨_, List.mem_singleton.mpr rfl, rfl⟩)
      (fun _ => Or.inr ⟨_, List.mem_singleton.mpr rfl, rfl⟩) hf.plNone (fun hh => by cases hh) (fun hh => by cases hh) ?_
    · intro t ht; rw [List.mem_singleton] at ht; subst ht
      exact Or.inr ⟨rfl, rfl, rfl, ⟨_, rfl, Or.inr ⟨_, rfl, hf.raisedAt rfl⟩⟩, rfl, rfl⟩
    · intro hs; have := hs.2.2; rw [hsd] at this; cases this
  | empty evs dead raised pl ha hr hf =>
    refine Inv2.append h h2 ctx [] (by simp) (by simp) rfl rfl rfl rfl rfl rfl rfl rfl (by simp) id Or.inl id Or.inl
      ?_ hf.plNone ?_ ?_ ?_
    · intro hrr
      rcases hf.raisedRet' hrr with h1 | h1
      · exact Or.inl h1
      · exact h1.elim
    · intro ha' hp hm ho
      have := h2.I.origDead ha hp hm ho
      exact ⟨this.1, (hf.keepDead this.2).1⟩
    · intro ha' hm hp
      have := h2.I.allDead ha hm hp
      exact ⟨this.1, (hf.keepDead this.2).1⟩
    · intro hs
      exact ⟨hs.1, hs.2.1, (hf.keepDead hs.2.2).1⟩
  | pulled m evs dead raised pl tasks rest ha hr hf hm htn hrest hfl =>
    refine Inv2.append h h2 ctx [{ items := tasks, bsize := tasks.length, callId := s.callId }] rfl rfl rfl rfl rfl rfl
      rfl rfl rfl rfl ?_ id Or.inl id Or.inl ?_ hf.plNone ?_ ?_ ?_
    · intro t ht; rw [List.mem_singleton] at ht; subst ht; exact Or.inl ⟨rfl, rfl, htn⟩
    · intro hrr
      rcases hf.raisedRet' hrr with h1 | h1
      · exact Or.inl h1
      · exact h1.elim
    · intro ha' hp hm' ho
      have := (hf.keepDead (h2.I.origDead ha hp hm' ho).2).2
      omega
    · intro ha' hm' hp
      have := (hf.keepDead (h2.I.allDead ha hm' hp).2).2
      omega
    · intro hs
      have := (hf.keepDead hs.2.2).2
      omega

end JoblibModel.ParallelLock
