import JoblibProofs.Lemmas.ParallelLock.StepsCb
/-!
M1L proofs — once `_aborting` is set no step takes anything from the input iterable (C09, the F14 repair at this
granularity): `step_src_aborting`.
-/
namespace JoblibModel.ParallelLock

theorem dispatchLocked_aborting {c : Cfg} {s : St} (t : Tid) (fo : Bool) (bs : Nat) (h : s.aborting = true) :
    dispatchLocked c t fo bs s = (s, .ret false) := by
  unfold dispatchLocked; rw [if_pos h]

/-- The state of the input iterator. -/
def srcOf (s : St) : Nat × Bool × Bool := (s.srcPos, s.srcDead, s.srcRaised)

theorem srcOf_finishRet (c : Cfg) (s : St) : srcOf (finishRet c s) = srcOf s := by
  unfold finishRet; split <;> rfl

theorem srcOf_tailNext (c : Cfg) (s : St) (l : List Nat) : srcOf (tailNext c s l) = srcOf s := by
  cases l with
  | nil => exact srcOf_finishRet c s
  | cons a r => rfl

theorem srcOf_deliverVals (c : Cfg) (s : St) (l : List Nat) : srcOf (deliverVals c s l) = srcOf s := by
  unfold deliverVals; simp only; split <;> rfl

theorem srcOf_returnOrRaise (s : St) (i : Nat) : srcOf (returnOrRaise s i).1 = srcOf s := by
  unfold returnOrRaise; simp only
  split
  · rfl
  · split <;> rfl
  · split <;> rfl

theorem stepCaller_src_aborting {c : Cfg} {s : St} (ha : s.aborting = true) : srcOf (stepCaller c s) = srcOf s := by
  unfold stepCaller
  split
  case h_13 k bs _ =>
    rw [dispatchLocked_aborting (s := { s with lockOwner := some 0, pc := Pc.dIn k }) 0 false bs ha]; rfl
  case h_23 => split <;> first | rfl | (split <;> rfl)
  case h_32 i _ =>
    have h := srcOf_returnOrRaise s i
    generalize returnOrRaise s i = x at h ⊢
    obtain ⟨s', r⟩ := x
    cases r with
    | error e => exact h
    | ok l => exact (srcOf_deliverVals c s' l).trans h
  case h_36 i _ =>
    have h := srcOf_returnOrRaise s i
    generalize returnOrRaise s i = x at h ⊢
    obtain ⟨s', r⟩ := x
    cases r <;> exact h
  case h_42 e rem _ =>
    cases e with
    | some e => rfl
    | none => exact srcOf_tailNext c _ rem
  case h_43 i rem _ =>
    have h := srcOf_returnOrRaise s i
    generalize returnOrRaise s i = x at h ⊢
    obtain ⟨s', r⟩ := x
    cases r with
    | error e => exact h
    | ok l => exact (srcOf_tailNext c _ rem).trans ((srcOf_deliverVals c s' l).trans h)
  all_goals first
    | rfl
    | (split <;> rfl)
    | (split <;> split <;> rfl)

theorem srcOf_cbAfterDispatch (i : Nat) (s : St) (r : Bool) : srcOf (cbAfterDispatch i s r) = srcOf s := by
  unfold cbAfterDispatch; cases r <;> rfl

theorem stepCb_src_aborting {c : Cfg} {s : St} (i : Nat) (ha : s.aborting = true) :
    srcOf (stepCb c i s) = srcOf s := by
  unfold stepCb
  simp only
  split
  · split <;> first | rfl | (split <;> rfl)
  · split
    · rfl
    · split <;> rfl
  · rfl
  · rfl
  · -- acqC
    split
    · rw [if_pos (by exact ha)]
      exact srcOf_cbAfterDispatch _ _ _
    · rfl
  · -- bsC
    rw [dispatchLocked_aborting (s := { s with bsI := s.bsI + 1 }) (i + 1) true _ ha]
    exact srcOf_cbAfterDispatch _ _ _
  · exact srcOf_cbAfterDispatch _ _ _
  · rfl
  · rfl

/-- NO PULL AFTER ABORT (step form). If `_aborting` is set when a step begins, that step — of any thread, or of the
environment — leaves the input iterator untouched: no item is taken, `__next__` is not even called. -/
theorem step_src_aborting {c : Cfg} {s : St} (ha : s.aborting = true) (a : Act) : srcOf (step c s a) = srcOf s := by
  cases a with
  | thread t =>
    cases t with
    | zero =>
      simp only [step]
      split
      · exact stepCaller_src_aborting ha
      · rfl
    | succ i =>
      simp only [step]
      split
      · exact stepCb_src_aborting i ha
      · rfl
  | complete k =>
    simp only [step]
    split <;> rfl

theorem countedSum_le (l : List Tracker) : countedSum l ≤ ((l.map (·.items)).flatten).length := by
  induction l with
  | nil => simp [countedSum]
  | cons a r ih =>
    simp only [countedSum, List.map_cons, List.sum_cons, List.flatten_cons, List.length_append] at ih ⊢
    split <;> omega

end JoblibModel.ParallelLock
