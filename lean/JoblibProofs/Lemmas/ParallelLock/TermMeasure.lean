import JoblibProofs.Lemmas.ParallelLock.TermInv4
/-!
M1L proofs — the termination measure of the drain schedule.

`M c s = 1300 * W + 100 * P + 100 * L + R` where
* `W` = work not yet dispatched: items the input iterable can still produce, items in the look-ahead queue, and 1 while
  the iterable has not signalled its end (never increases; decreases whenever a tracker is created);
* `P` = sum over the trackers of the number of stages the batch still has to go through
  (`idle 10 > parked 9 > acqA 8 > … > relC 1 > done/dropped 0`): decreases with every `submit`, every completion and
  every step of a callback thread; a new tracker adds 10;
* `L` = trackers the caller still has to pop / to read in the tail loop;
* `R` = rank of the caller's program point (≤ 70); in the retrieval loop it depends on `_aborting` and, at
  `r:n_dispatched_tasks`, on whether the comparison is going to fail.
`Dec c s s'` is the lexicographic decrease with the bounded increases that make the weighted sum decrease.
-/
namespace JoblibModel.ParallelLock

def wOf (c : Cfg) (srcPos : Nat) (ready : List (List Nat)) (dead : Bool) : Nat :=
  (stopAt c - srcPos) + ready.flatten.length + (if dead then 0 else 1)

/-- Work not yet dispatched. -/
def W (c : Cfg) (s : St) : Nat := wOf c s.srcPos s.ready s.srcDead

/-- Stages a batch still has to go through. -/
def CbPc.pot : CbPc → Nat
  | .idle => 10
  | .parked => 9
  | .acqA => 8
  | .retr => 7
  | .relA _ => 6
  | .stats => 5
  | .acqC => 4
  | .bsC => 3
  | .submitC _ => 2
  | .relC => 1
  | .dropped | .done _ => 0

def potSum (l : List Tracker) : Nat := (l.map (fun t => t.pc.pot)).sum

def P (s : St) : Nat := potSum s.trk

/-- Trackers the caller still has to go through. -/
def L (s : St) : Nat :=
  match s.pc with
  | .done => 0
  | .tailStatus _ rem => rem.length + 1
  | .finJobsW _ rem => rem.length + 2
  | _ => s.jobs.length + 3

/-- Rank of the caller's program point; `ab` = `_aborting`, `nd` = `n_dispatched_tasks`. -/
def Pc.rank (ab : Bool) (nd : Nat) : Pc → Nat
  | .resetAcq => 70
  | .resetRel => 69
  | .wNDisp => 68
  | .wNComp => 67
  | .wExc0 => 66
  | .wAbort0 => 65
  | .readyAcq => 64
  | .readyRel => 63
  | .wOrig => 62
  | .wIter0 => 61
  | .dPre .first => 60
  | .dBs .first => 59
  | .dAcq .first _ => 58
  | .dIn _ => 57
  | .dSubmit .first _ => 57
  | .dRel .first _ => 56
  | .itAcq => 55
  | .itRel => 54
  | .dSubmit .loop _ => 53
  | .dRel .loop true => 52
  | .dPre .loop => 51
  | .dBs .loop => 50
  | .dAcq .loop _ => 49
  | .dRel .loop false => 48
  | .wIterAll => 47
  | .wtNDisp nc => if !ab && decide (nc < nd) then 46 else 34
  | .rtAbort => if ab then 32 else 45
  | .rtLen => 44
  | .rtHead => 43
  | .rtStatus _ => 42
  | .popAcq => 41
  | .popRel _ => 40
  | .resStatus _ => 39
  | .sleep => 38
  | .wtAbort => 37
  | .wtIter => 36
  | .wtNComp => 35
  | .wtAbort2 => 33
  | .refAcq => 31
  | .refRel _ => 30
  | .refStatus _ => 29
  | .excW _ => 28
  | .abortW _ => 27
  | .abortCall _ => 26
  | .finExc _ => 25
  | .finJobsR _ => 24
  | .finJobsW _ _ => 0
  | .tailStatus _ _ => 0
  | .done => 0

def R (s : St) : Nat := s.pc.rank s.aborting s.nDispTasks

theorem Pc.rank_le (ab : Bool) (nd : Nat) (p : Pc) : p.rank ab nd ≤ 70 := by
  cases p with
  | dPre k => cases k <;> simp [Pc.rank]
  | dBs k => cases k <;> simp [Pc.rank]
  | dAcq k b => cases k <;> simp [Pc.rank]
  | dSubmit k j => cases k <;> simp [Pc.rank]
  | dRel k r => cases k <;> cases r <;> simp [Pc.rank]
  | wtNDisp nc => simp only [Pc.rank]; split <;> omega
  | rtAbort => simp only [Pc.rank]; split <;> omega
  | _ => simp [Pc.rank]

/-- The termination measure. -/
def M (c : Cfg) (s : St) : Nat := 1300 * W c s + 100 * P s + 100 * L s + R s

/-- Lexicographic decrease of `(W, P, L, R)` with bounded increases of the lower components. -/
def Dec (c : Cfg) (s s' : St) : Prop :=
  (W c s' < W c s ∧ P s' ≤ P s + 10 ∧ L s' ≤ L s + 1) ∨
  (W c s' ≤ W c s ∧ P s' < P s ∧ L s' ≤ L s) ∨
  (W c s' ≤ W c s ∧ P s' ≤ P s ∧ L s' < L s) ∨
  (W c s' ≤ W c s ∧ P s' ≤ P s ∧ L s' ≤ L s ∧ R s' < R s)

theorem Dec.w {c : Cfg} {s s' : St} (h1 : W c s' < W c s) (h2 : P s' ≤ P s + 10) (h3 : L s' ≤ L s + 1) : Dec c s s' :=
  Or.inl ⟨h1, h2, h3⟩

theorem Dec.p {c : Cfg} {s s' : St} (h1 : W c s' ≤ W c s) (h2 : P s' < P s) (h3 : L s' ≤ L s) : Dec c s s' :=
  Or.inr (Or.inl ⟨h1, h2, h3⟩)

theorem Dec.l {c : Cfg} {s s' : St} (h1 : W c s' ≤ W c s) (h2 : P s' ≤ P s) (h3 : L s' < L s) : Dec c s s' :=
  Or.inr (Or.inr (Or.inl ⟨h1, h2, h3⟩))

theorem Dec.r {c : Cfg} {s s' : St} (h1 : W c s' ≤ W c s) (h2 : P s' ≤ P s) (h3 : L s' ≤ L s) (h4 : R s' < R s) :
    Dec c s s' :=
  Or.inr (Or.inr (Or.inr ⟨h1, h2, h3, h4⟩))

theorem Dec.lt {c : Cfg} {s s' : St} (h : Dec c s s') : M c s' < M c s := by
  have hr : R s' ≤ 70 := Pc.rank_le _ _ _
  unfold M
  rcases h with ⟨h1, h2, h3⟩ | ⟨h1, h2, h3⟩ | ⟨h1, h2, h3⟩ | ⟨h1, h2, h3, h4⟩ <;> omega

theorem L_eq_zero {s : St} (h : L s = 0) : s.pc = .done := by
  unfold L at h
  split at h <;> first | rfl | omega

/-! ### `potSum` -/

theorem potSum_append (l l' : List Tracker) : potSum (l ++ l') = potSum l + potSum l' := by
  simp [potSum]

theorem potSum_set (l : List Tracker) (i : Nat) (t' : Tracker) (hi : i < l.length) :
    potSum (l.set i t') + (getT l i).pc.pot = potSum l + t'.pc.pot := by
  induction l generalizing i with
  | nil => simp at hi
  | cons a r ih =>
    cases i with
    | zero =>
      simp only [List.set_cons_zero, potSum, List.map_cons, List.sum_cons]
      simp only [getT, List.getD_cons_zero]
      omega
    | succ k =>
      have hk : k < r.length := by simpa using hi
      have hg : getT (a :: r) (k + 1) = getT r k := by simp [getT]
      rw [hg]
      have := ih k hk
      simp only [List.set_cons_succ, potSum, List.map_cons, List.sum_cons] at this ⊢
      omega

theorem potSum_of_key {l l' : List Tracker} (h : l'.map trkKey = l.map trkKey) : potSum l' = potSum l := by
  have e : ∀ (x : List Tracker), potSum x = ((x.map trkKey).map (fun k => k.2.1.pot)).sum := by
    intro x; simp [potSum, trkKey, Function.comp_def]
  rw [e, e, h]

theorem potSum_drop (l : List Tracker) :
    potSum (l.map (fun t => if t.pc == .parked then { t with pc := .dropped } else t)) ≤ potSum l := by
  induction l with
  | nil => simp [potSum]
  | cons a r ih =>
    simp only [potSum, List.map_cons, List.sum_cons] at ih ⊢
    have : (if a.pc == CbPc.parked then { a with pc := CbPc.dropped } else a).pc.pot ≤ a.pc.pot := by
      split
      · simp [CbPc.pot]
      · exact Nat.le_refl _
    omega

theorem P_setCb (s : St) (i : Nat) (p : CbPc) (hi : i < s.trk.length) :
    P (setCb s i p) + (getT s.trk i).pc.pot = P s + p.pot := by
  have := potSum_set s.trk i { getT s.trk i with pc := p } hi
  simpa [P] using this

theorem P_doSubmit (t : Tid) (s : St) (j : Nat) (hj : j < s.trk.length) (hp : (getT s.trk j).pc = .idle) :
    P (doSubmit t j s) + 1 = P s := by
  have := potSum_set s.trk j { getT s.trk j with pc := .parked } hj
  rw [hp] at this
  simp only [CbPc.pot] at this
  simp only [P, doSubmit_trk, getTrk_def]
  omega

theorem P_cbAfterDispatch (i : Nat) (s : St) (r : Bool) (hi : i < s.trk.length) :
    P (cbAfterDispatch i s r) + (getT s.trk i).pc.pot = P s + 1 := by
  have := potSum_set s.trk i { getT s.trk i with pc := .relC } hi
  simp only [P, cbAfterDispatch_trk]
  simpa [CbPc.pot] using this

@[simp] theorem W_setCb (c : Cfg) (s : St) (i : Nat) (p : CbPc) : W c (setCb s i p) = W c s := rfl
@[simp] theorem W_setTrk (c : Cfg) (s : St) (i : Nat) (t : Tracker) : W c (setTrk s i t) = W c s := rfl
@[simp] theorem W_doSubmit (c : Cfg) (t : Tid) (s : St) (j : Nat) : W c (doSubmit t j s) = W c s := rfl
@[simp] theorem W_cbAfterDispatch (c : Cfg) (i : Nat) (s : St) (r : Bool) : W c (cbAfterDispatch i s r) = W c s := by
  unfold cbAfterDispatch; cases r <;> rfl

@[simp] theorem jobs_cbAfterDispatch (i : Nat) (s : St) (r : Bool) : (cbAfterDispatch i s r).jobs = s.jobs := by
  unfold cbAfterDispatch; cases r <;> rfl

/-- `L` only reads the caller's pc and `_jobs`. -/
theorem L_congr {s s' : St} (h1 : s'.pc = s.pc) (h2 : s'.jobs = s.jobs) : L s' = L s := by
  unfold L; rw [h1, h2]

theorem L_le_of_jobs {s s' : St} (h1 : s'.pc = s.pc) (h2 : s'.jobs.length ≤ s.jobs.length + 1) : L s' ≤ L s + 1 := by
  unfold L; rw [h1]
  split <;> omega

/-! ### the locked region of `dispatch_one_batch` -/

/-- Either nothing was registered (and `W` did not increase), or one tracker was appended and `W` went down. -/
theorem DLCase.meas {c : Cfg} {t : Tid} {fo : Bool} {bs : Nat} {s s' : St} {r : DRes}
    (hcase : DLCase c t fo bs s s' r) (hS : SrcInv c s) :
    s'.pc = s.pc ∧
    ((s'.trk = s.trk ∧ s'.jobs = s.jobs ∧ W c s' ≤ W c s ∧ (∀ j, r ≠ .submit j) ∧ r ≠ .ret true) ∨
     (∃ x : Tracker, s'.trk = s.trk ++ [x] ∧ x.pc = .idle ∧ s'.jobs = s.jobs ++ [s.trk.length] ∧ W c s' < W c s)) := by
  have hle := hS.le
  cases hcase with
  | aborting ha => exact ⟨rfl, Or.inl ⟨rfl, rfl, Nat.le_refl _, by simp, by simp⟩⟩
  | ready tasks rest ha hr htn =>
    refine ⟨rfl, Or.inr ⟨_, rfl, rfl, rfl, ?_⟩⟩
    have : 0 < tasks.length := List.length_pos_iff.mpr htn
    show wOf c s.srcPos rest s.srcDead < wOf c s.srcPos s.ready s.srcDead
    rw [hr]
    unfold wOf
    simp only [List.flatten_cons, List.length_append]
    omega
  | raised m evs dead pl ha hr hf hsd =>
    refine ⟨rfl, Or.inr ⟨_, rfl, rfl, rfl, ?_⟩⟩
    have hd := hf.raisedDead rfl
    show wOf c (s.srcPos + m) s.ready dead < wOf c s.srcPos s.ready s.srcDead
    rw [hd, hsd]
    unfold wOf
    simp only [if_true, Bool.false_eq_true, if_false]
    omega
  | empty evs dead raised pl ha hr hf =>
    refine ⟨rfl, Or.inl ⟨rfl, rfl, ?_, by simp, by simp⟩⟩
    show wOf c (s.srcPos + 0) s.ready dead ≤ wOf c s.srcPos s.ready s.srcDead
    have := hf.keepDead
    unfold wOf
    cases hsd : s.srcDead with
    | true => rw [(this hsd).1]; simp
    | false => cases dead <;> simp
  | pulled m evs dead raised pl tasks rest ha hr hf hm htn hrest hfl =>
    refine ⟨rfl, Or.inr ⟨_, rfl, rfl, rfl, ?_⟩⟩
    have h1 : 0 < tasks.length := List.length_pos_iff.mpr htn
    have h2 : tasks.length + rest.flatten.length = m := by
      have := congrArg List.length hfl
      simpa using this
    have h3 := hf.le
    have hsd : s.srcDead = false := by
      cases hsd : s.srcDead with
      | false => rfl
      | true => have := (hf.keepDead hsd).2; omega
    show wOf c (s.srcPos + m) rest dead < wOf c s.srcPos s.ready s.srcDead
    rw [hr, hsd]
    unfold wOf
    simp only [List.flatten_nil, List.length_nil, Bool.false_eq_true, if_false]
    cases dead <;> simp only [if_true, Bool.false_eq_true, if_false] <;> omega

end JoblibModel.ParallelLock
