import JoblibProofs.Lemmas.ParallelLock.TermMeasure
/-!
M1L proofs — termination measure: every enabled step of a callback thread and every completion by the backend
decreases the measure (`stepCb_dec`, `complete_dec`), whatever the schedule.
-/
namespace JoblibModel.ParallelLock

/-- One tracker moves to a stage of smaller potential; nothing else the measure reads changes. -/
theorem Dec.ofSet {c : Cfg} {s s' : St} {i : Nat} {t' : Tracker} (hi : i < s.trk.length)
    (htrk : s'.trk = s.trk.set i t') (hpot : t'.pc.pot < (getT s.trk i).pc.pot)
    (hW : W c s' = W c s) (hpc : s'.pc = s.pc) (hjobs : s'.jobs = s.jobs) : Dec c s s' := by
  refine Dec.p (Nat.le_of_eq hW) ?_ (Nat.le_of_eq (L_congr hpc hjobs))
  have := potSum_set s.trk i t' hi
  simp only [P, htrk]
  omega

theorem Dec.trans_eq {c : Cfg} {s s1 s2 : St} (h : Dec c s1 s2) (hW : W c s1 = W c s) (hP : P s1 ≤ P s)
    (hL : L s1 = L s) (hR : R s1 = R s) : Dec c s s2 := by
  unfold Dec at h ⊢
  rw [hW, hL, hR] at h
  rcases h with ⟨h1, h2, h3⟩ | ⟨h1, h2, h3⟩ | ⟨h1, h2, h3⟩ | ⟨h1, h2, h3, h4⟩
  · exact Or.inl ⟨h1, by omega, h3⟩
  · exact Or.inr (Or.inl ⟨h1, by omega, h3⟩)
  · exact Or.inr (Or.inr (Or.inl ⟨h1, by omega, h3⟩))
  · exact Or.inr (Or.inr (Or.inr ⟨h1, by omega, h3, h4⟩))

theorem complete_dec {c : Cfg} {s : St} {i : Nat} (hi : i < s.trk.length) (hpc : (getTrk s i).pc = .parked) :
    Dec c s (complete c i s) := by
  rw [getTrk_def] at hpc
  unfold complete
  simp only
  exact Dec.ofSet (i := i) hi rfl (by rw [hpc]; simp [CbPc.pot]) rfl rfl rfl

/-- `dispatch_one_batch(self._original_iterator)` inside `dispatch_next` for the thread of tracker `i` (at `bsC`). -/
theorem cbDispatch_dec {c : Cfg} {s : St} {i : Nat} (h : Inv c s) (hi : i < s.trk.length)
    (hpc : (getT s.trk i).pc = .bsC) (bs : Nat) :
    Dec c s (cbDispatchResult i (dispatchLocked c (i + 1) true bs s)) := by
  obtain ⟨s', r, hd, hcase⟩ := dispatchLocked_cases h.S h.C.readyNe (i + 1) true bs
  rw [hd]
  obtain ⟨hp, hm⟩ := hcase.meas h.S
  rcases hm with ⟨e1, e2, e3, e4, e5⟩ | ⟨x, e1, e2, e3, e4⟩
  · -- nothing registered: the thread leaves `dispatch_next`
    cases r with
    | submit j => exact absurd rfl (e4 j)
    | ret b =>
      simp only [cbDispatchResult]
      have hi' : i < s'.trk.length := by rw [e1]; exact hi
      have hP := P_cbAfterDispatch i s' b hi'
      rw [e1, hpc] at hP
      simp only [CbPc.pot] at hP
      have hPs : P s' = P s := by simp [P, e1]
      refine Dec.p (by rw [W_cbAfterDispatch]; exact e3) (by omega) ?_
      exact Nat.le_of_eq (L_congr (by rw [cbAfterDispatch_pc]; exact hp) (by rw [jobs_cbAfterDispatch]; exact e2))
  · -- one tracker registered: `W` went down
    have hi' : i < s'.trk.length := by rw [e1]; simp; omega
    have hPs : P s' = P s + 10 := by
      simp only [P, e1, potSum_append]
      simp [potSum, e2, CbPc.pot]
    have hg : getT s'.trk i = getT s.trk i := by rw [e1]; exact getT_append_left _ _ _ hi
    have hjl : s'.jobs.length ≤ s.jobs.length + 1 := by rw [e3]; simp
    cases r with
    | submit j =>
      simp only [cbDispatchResult]
      have hP := P_setCb s' i (.submitC j) hi'
      rw [hg, hpc] at hP
      simp only [CbPc.pot] at hP
      exact Dec.w (by rw [W_setCb]; exact e4) (by omega) (L_le_of_jobs hp hjl)
    | ret b =>
      simp only [cbDispatchResult]
      have hP := P_cbAfterDispatch i s' b hi'
      rw [hg, hpc] at hP
      simp only [CbPc.pot] at hP
      exact Dec.w (by rw [W_cbAfterDispatch]; exact e4) (by omega)
        (L_le_of_jobs (by rw [cbAfterDispatch_pc]; exact hp) (by rw [jobs_cbAfterDispatch]; exact hjl))

/-- Every enabled step of a callback thread decreases the measure. -/
theorem stepCb_dec {c : Cfg} {s : St} {i : Nat} (h : Inv c s) (he : cbEnabled s i = true) :
    Dec c s (stepCb c i s) := by
  have hi := cbEnabled_lt he
  have hmem := getT_mem _ _ hi
  have h0 := h.T _ hmem
  unfold stepCb
  simp only
  have hgt : getTrk s i = getT s.trk i := rfl
  cases hpc : (getTrk s i).pc with
  | acqA =>
    rw [hgt] at hpc
    simp only
    split
    · exact Dec.ofSet (t' := { getT s.trk i with pc := .relA false }) hi rfl (by rw [hpc]; simp [CbPc.pot]) rfl rfl rfl
    · split
      · exact Dec.ofSet (t' := { getT s.trk i with pc := .relA false }) hi rfl (by rw [hpc]; simp [CbPc.pot]) rfl rfl rfl
      · exact Dec.ofSet (t' := { getT s.trk i with pc := .retr }) hi rfl (by rw [hpc]; simp [CbPc.pot]) rfl rfl rfl
  | retr =>
    rw [hgt] at hpc
    simp only
    split
    · exact Dec.ofSet (t' := { getT s.trk i with pc := .relA ((getT s.trk i).failed == none) }) hi rfl
        (by rw [hpc]; simp [CbPc.pot]) rfl rfl rfl
    · split
      · exact Dec.ofSet (i := i) hi rfl (by rw [hpc]; simp [CbPc.pot]) rfl rfl rfl
      · exact Dec.ofSet (i := i) hi rfl (by rw [hpc]; simp [CbPc.pot]) rfl rfl rfl
  | relA ok =>
    rw [hgt] at hpc
    exact Dec.ofSet (t' := { getT s.trk i with pc := if ok then .stats else .done false }) hi rfl
      (by rw [hpc]; cases ok <;> simp [CbPc.pot]) rfl rfl rfl
  | stats =>
    rw [hgt] at hpc
    exact Dec.ofSet (t' := { getT s.trk i with pc := .acqC }) hi rfl (by rw [hpc]; simp [CbPc.pot]) rfl rfl rfl
  | acqC =>
    have hlk : s.lockOwner = none := by
      unfold cbEnabled at he; rw [hpc] at he; simpa using he
    rw [hgt] at hpc
    have hst : (getT s.trk i).status = .done := by have := h0.pcst; rw [hpc] at this; exact this
    have hnorm := trk_normal h0 (by rw [hpc]; simp)
    simp only
    by_cases ho : s.origAlive = true
    · rw [if_pos ho]
      have h1 : Inv c (setCb { s with lockOwner := some (i + 1), nCompleted := s.nCompleted + (getTrk s i).bsize } i .bsC) :=
        h.movePc hi .bsC rfl ⟨rfl, rfl, rfl, rfl, rfl, rfl, rfl⟩ id (by simp [hpc]) hst
          (by simp [hpc, CbPc.started]) (by simp) (by simp [CbPc.holding]) (fun _ _ => hlk)
          (by simp [hpc, CbPc.counted, hnorm.2]) (by simp)
      have hP1 : P (setCb { s with lockOwner := some (i + 1), nCompleted := s.nCompleted + (getTrk s i).bsize } i .bsC) + 1 = P s := by
        have := P_setCb { s with lockOwner := some (i + 1), nCompleted := s.nCompleted + (getTrk s i).bsize } i .bsC hi
        simp only [hpc, CbPc.pot] at this
        have e : P { s with lockOwner := some (i + 1), nCompleted := s.nCompleted + (getTrk s i).bsize } = P s := rfl
        omega
      have hW1 : W c (setCb { s with lockOwner := some (i + 1), nCompleted := s.nCompleted + (getTrk s i).bsize } i .bsC) = W c s := rfl
      have hL1 : L (setCb { s with lockOwner := some (i + 1), nCompleted := s.nCompleted + (getTrk s i).bsize } i .bsC) = L s := rfl
      have hR1 : R (setCb { s with lockOwner := some (i + 1), nCompleted := s.nCompleted + (getTrk s i).bsize } i .bsC) = R s := rfl
      have hi1 : i < (setCb { s with lockOwner := some (i + 1), nCompleted := s.nCompleted + (getTrk s i).bsize } i .bsC).trk.length := by
        simpa using hi
      have hpc1 : (getT (setCb { s with lockOwner := some (i + 1), nCompleted := s.nCompleted + (getTrk s i).bsize } i .bsC).trk i).pc = .bsC := by
        simp [hi]
      generalize setCb { s with lockOwner := some (i + 1), nCompleted := s.nCompleted + (getTrk s i).bsize } i .bsC = s1 at *
      by_cases hab : s1.aborting = true
      · rw [if_pos hab]
        have hP2 := P_cbAfterDispatch i s1 false hi1
        rw [hpc1] at hP2
        simp only [CbPc.pot] at hP2
        refine Dec.p (by rw [W_cbAfterDispatch, hW1]; exact Nat.le_refl _) (by omega) ?_
        rw [L_congr (cbAfterDispatch_pc i s1 false) (jobs_cbAfterDispatch i s1 false), hL1]
        exact Nat.le_refl _
      · rw [if_neg hab]
        by_cases hau : c.bsAuto = true
        · rw [if_pos hau]
          exact Dec.p (Nat.le_of_eq hW1) (by omega) (Nat.le_of_eq hL1)
        · rw [if_neg hau]
          exact (cbDispatch_dec h1 hi1 hpc1 _).trans_eq hW1 (by omega) hL1 hR1
    · rw [if_neg ho]
      exact Dec.ofSet (t' := { getT s.trk i with pc := .relC }) hi rfl (by rw [hpc]; simp [CbPc.pot]) rfl rfl rfl
  | bsC =>
    rw [hgt] at hpc
    simp only
    have h1 : Inv c { s with bsI := s.bsI + 1 } := h.congr rfl rfl rfl rfl rfl rfl rfl rfl rfl rfl rfl rfl rfl rfl
    exact (cbDispatch_dec h1 hi hpc _).trans_eq rfl (Nat.le_refl _) rfl rfl
  | submitC j =>
    rw [hgt] at hpc
    have hpend := h.U.cb i j hi (by rw [hgt]; exact hpc)
    have hji : j ≠ i := by
      intro e; subst e
      have := hpend.2.1; rw [hgt, hpc] at this; cases this
    simp only
    have hP1 := P_setCb s i .bsC hi
    rw [hpc] at hP1
    simp only [CbPc.pot] at hP1
    have hj1 : j < (setCb s i .bsC).trk.length := by simpa using hpend.1
    have hgj : (getT (setCb s i .bsC).trk j).pc = .idle := by
      simp only [setCb_trk]; rw [getT_set_ne _ _ _ _ hji]; exact hpend.2.1
    have hP2 := P_doSubmit (i + 1) (setCb s i .bsC) j hj1 hgj
    have hi2 : i < (doSubmit (i + 1) j (setCb s i .bsC)).trk.length := by simpa using hi
    have hpc2 : (getT (doSubmit (i + 1) j (setCb s i .bsC)).trk i).pc = .bsC := by
      simp [getT_set_ne _ _ _ _ (Ne.symm hji), hi]
    have hP3 := P_cbAfterDispatch i (doSubmit (i + 1) j (setCb s i .bsC)) true hi2
    rw [hpc2] at hP3
    simp only [CbPc.pot] at hP3
    refine Dec.p (Nat.le_refl _) (by omega) ?_
    rw [L_congr (s := s) (by simp) (by simp)]
    exact Nat.le_refl _
  | relC =>
    rw [hgt] at hpc
    exact Dec.ofSet (t' := { getT s.trk i with pc := .done true }) hi rfl (by rw [hpc]; simp [CbPc.pot]) rfl rfl rfl
  | idle => unfold cbEnabled at he; rw [hpc] at he; cases he
  | parked => unfold cbEnabled at he; rw [hpc] at he; cases he
  | dropped => unfold cbEnabled at he; rw [hpc] at he; cases he
  | done b => unfold cbEnabled at he; rw [hpc] at he; cases he

end JoblibModel.ParallelLock
