import JoblibProofs.Lemmas.ParallelLock.TermCaller
/-!
M1L proofs — the drain rule `pickLast` (last enabled action: a completion if a batch is parked, else the
highest-numbered enabled callback thread, else the caller) and the measure: every drain step from a state satisfying the
invariants decreases the measure (`drain_dec`).
-/
namespace JoblibModel.ParallelLock

/-- What the drain rule picks. -/
theorem pickLast_cases (s : St) :
    (∃ k i, pickLast s = some (.complete k) ∧ (parkedIds s)[k]? = some i) ∨
    (parkedIds s = [] ∧ ∃ i, pickLast s = some (.thread (i + 1)) ∧ cbEnabled s i = true) ∨
    (parkedIds s = [] ∧ (∀ i, cbEnabled s i = false) ∧
      pickLast s = if callerEnabled s then some (.thread 0) else none) := by
  unfold pickLast enabledActs
  cases hn : (parkedIds s).length with
  | succ m =>
    left
    have hm : m < (parkedIds s).length := by omega
    refine ⟨m, (parkedIds s)[m], ?_, List.getElem?_eq_getElem hm⟩
    rw [List.range_succ, List.map_append, ← List.append_assoc]
    simp
  | zero =>
    right
    have hp : parkedIds s = [] := List.length_eq_zero_iff.mp hn
    simp only [List.range_zero, List.map_nil, List.append_nil]
    cases hF : (List.range s.trk.length).filter (cbEnabled s) with
    | nil =>
      right
      refine ⟨hp, fun i => ?_, ?_⟩
      · cases hi : cbEnabled s i with
        | false => rfl
        | true =>
          exfalso
          have : i ∈ (List.range s.trk.length).filter (cbEnabled s) :=
            List.mem_filter.mpr ⟨List.mem_range.mpr (cbEnabled_lt hi), hi⟩
          rw [hF] at this; cases this
      · simp only [List.map_nil, List.append_nil]
        split <;> rfl
    | cons a r =>
      left
      refine ⟨hp, ?_⟩
      have hne : (a :: r) ≠ [] := by simp
      refine ⟨(a :: r).getLast hne, ?_, ?_⟩
      · rw [List.getLast?_append]
        have e : (List.map (fun i => Act.thread (i + 1)) (a :: r)).getLast? =
            some (Act.thread ((a :: r).getLast hne + 1)) := by
          rw [List.getLast?_map, List.getLast?_eq_some_getLast hne]; rfl
        rw [e]; rfl
      · have hmem : (a :: r).getLast hne ∈ (List.range s.trk.length).filter (cbEnabled s) := by
          rw [hF]; exact List.getLast_mem hne
        exact (List.mem_filter.mp hmem).2

/-- When the drain rule lets the caller run outside a lock-protected segment, no batch is live any more. -/
theorem quiet_of_drain {c : Cfg} {s : St} (h : Inv c s) (h4 : Inv4 s) (hpark : parkedIds s = [])
    (hcb : ∀ i, cbEnabled s i = false) (hnh : s.pc.holding = false) :
    ∀ t ∈ s.trk, t.items ≠ [] → t.pc.live = false := by
  have hlk : s.lockOwner = none := by
    cases hl : s.lockOwner with
    | none => rfl
    | some t =>
      exfalso
      cases t with
      | zero => have := h.L.own0 hl; rw [hnh] at this; cases this
      | succ i => have := (holder_enabled h).2 i hl; rw [hcb i] at this; cases this
  intro t ht hne
  obtain ⟨i, hi, rfl⟩ := (mem_iff_getT _ _).mp ht
  have hd := hcb i
  unfold cbEnabled at hd
  rw [getTrk_def] at hd
  cases hp : (getT s.trk i).pc with
  | idle =>
    exfalso
    rcases h4.idle i ⟨hi, hp, hne⟩ with ⟨k, hk⟩ | ⟨i', hi', hpi⟩
    · rw [hk] at hnh; cases hnh
    · have := hcb i'
      unfold cbEnabled at this
      rw [getTrk_def, hpi] at this
      cases this
  | parked =>
    exfalso
    have : i ∈ parkedIds s := by
      unfold parkedIds
      exact List.mem_filter.mpr ⟨List.mem_range.mpr hi, by simp [hp]⟩
    rw [hpark] at this; cases this
  | dropped => rfl
  | done b => rfl
  | acqA => rw [hp] at hd; simp [hlk] at hd
  | acqC => rw [hp] at hd; simp [hlk] at hd
  | retr => rw [hp] at hd; cases hd
  | relA ok => rw [hp] at hd; cases hd
  | stats => rw [hp] at hd; cases hd
  | bsC => rw [hp] at hd; cases hd
  | submitC j => rw [hp] at hd; cases hd
  | relC => rw [hp] at hd; cases hd

/-- Under the drain rule the caller's step decreases the measure. -/
theorem drain_caller_dec {c : Cfg} {s : St} (h : Inv c s) (h3 : Inv3 s) (h4 : Inv4 s)
    (he : callerEnabled s = true) (hpark : parkedIds s = []) (hcb : ∀ i, cbEnabled s i = false) :
    Dec c s (stepCaller c s) := by
  have key : s.aborting = false → s.pc.holding = false →
      s.iterating = false ∧ ¬ s.nCompleted < s.nDispTasks := by
    intro hab hnh
    have hq := quiet_of_drain h h4 hpark hcb hnh
    have hno : ¬ (s.iterating = true ∨ s.nCompleted < s.nDispTasks) := by
      intro hw
      obtain ⟨t, ht, h1, h2⟩ := waiting_live h h3 hab hw
      rw [hq t ht h1] at h2; cases h2
    refine ⟨?_, fun hh => hno (Or.inr hh)⟩
    cases hi : s.iterating with
    | false => rfl
    | true => exact absurd (Or.inl hi) hno
  refine stepCaller_dec h h4 he (fun hab => ⟨fun hp => ?_, fun hp => ?_⟩)
  · exact (key hab (by rw [hp]; rfl)).1
  · exact (key hab (by rw [hp]; rfl)).2

/-- DRAIN PROGRESS. In a state satisfying the invariants in which the caller has not finished, the drain rule picks an
action and that action decreases the measure. -/
theorem drain_dec {c : Cfg} {s : St} (h : Inv c s) (h3 : Inv3 s) (h4 : Inv4 s) (hnd : s.pc ≠ .done) :
    ∃ a, pickLast s = some a ∧ Dec c s (step c s a) := by
  rcases pickLast_cases s with ⟨k, i, hk, hi⟩ | ⟨hp, i, hk, hi⟩ | ⟨hp, hcb, hk⟩
  · refine ⟨_, hk, ?_⟩
    obtain ⟨h1, h2⟩ := parkedIds_spec hi
    simp only [step, hi]
    exact complete_dec h1 h2
  · refine ⟨_, hk, ?_⟩
    simp only [step, hi, if_true]
    exact stepCb_dec h hi
  · have he : callerEnabled s = true := by
      rcases not_done_enabled h hnd with he | ⟨i, _, hi⟩
      · exact he
      · rw [hcb i] at hi; cases hi
    rw [he] at hk
    refine ⟨_, hk, ?_⟩
    simp only [step, he, if_true]
    exact drain_caller_dec h h3 h4 he hp hcb

/-- The measure of the fresh object: `1300 * (stopAt c + 1) + 370`. -/
theorem M_init (c : Cfg) : M c init = 1300 * (stopAt c + 1) + 370 := by
  simp [M, W, wOf, P, potSum, L, R, Pc.rank, init]

end JoblibModel.ParallelLock
