import JoblibProofs.Lemmas.ParallelLock.DispatchInv
/-!
M1L proofs — the micro-operations every atomic step is composed of, each preserving the core invariant `Inv`:
a pc-only move of the caller (`Inv.callerStep`), an update of one tracker (`Inv.setT`), the locked region of
`dispatch_one_batch` (`DLCase.inv`), `abort_everything` dropping the parked batches (`Inv.drop`).
-/
namespace JoblibModel.ParallelLock

theorem map_set_same {β : Type} (f : Tracker → β) (l : List Tracker) (i : Nat) (t' : Tracker)
    (h : i < l.length → f t' = f (getT l i)) : (l.set i t').map f = l.map f := by
  apply List.ext_getElem?
  intro k
  simp only [List.getElem?_map, List.getElem?_set]
  by_cases hk : i = k
  · subst hk
    by_cases hi : i < l.length
    · simp only [hi, if_true, Option.map_some]
      have := h hi
      simp [getT, List.getD_eq_getElem?_getD, List.getElem?_eq_getElem hi] at this
      simp [List.getElem?_eq_getElem hi, this]
    · simp [hi]
  · simp [hk]

theorem allItems_of_trk {s s' : St} (h : s'.trk = s.trk) : allItems s' = allItems s := by simp [allItems, h]

theorem allItems_set {s s' : St} {i : Nat} {t' : Tracker} (h : s'.trk = s.trk.set i t')
    (hit : t'.items = (getT s.trk i).items) : allItems s' = allItems s := by
  simp only [allItems, h]
  rw [map_set_same (·.items) _ _ _ (fun _ => hit)]

/-- `countedSum` after one tracker changed. -/
theorem countedSum_set (l : List Tracker) (i : Nat) (t' : Tracker) (hi : i < l.length)
    (hit : t'.items = (getT l i).items) :
    countedSum (l.set i t') + (if (getT l i).pc.counted then (getT l i).items.length else 0) =
      countedSum l + (if t'.pc.counted then (getT l i).items.length else 0) := by
  induction l generalizing i with
  | nil => simp at hi
  | cons a r ih =>
    cases i with
    | zero =>
      simp only [List.set_cons_zero, countedSum, List.map_cons, List.sum_cons]
      simp only [getT, List.getD_cons_zero] at hit ⊢
      rw [hit]; omega
    | succ k =>
      have hk : k < r.length := by simpa using hi
      have hg : getT (a :: r) (k + 1) = getT r k := by simp [getT]
      rw [hg] at hit ⊢
      have := ih k hk hit
      simp only [List.set_cons_succ, countedSum, List.map_cons, List.sum_cons] at this ⊢
      omega

theorem countedSum_append_idle (l new : List Tracker) (h : ∀ x ∈ new, x.pc = .idle) :
    countedSum (l ++ new) = countedSum l := by
  simp only [countedSum, List.map_append, List.sum_append]
  have : (new.map (fun t => if t.pc.counted then t.items.length else 0)).sum = 0 := by
    induction new with
    | nil => rfl
    | cons a r ih =>
      have ha := h a (by simp)
      have hc : a.pc.counted = false := by rw [ha]; rfl
      have := ih (fun x hx => h x (by simp [hx]))
      simp only [List.map_cons, List.sum_cons, hc, Bool.false_eq_true, if_false, this]
  omega

theorem DataInv.of_eq {c : Cfg} {s s' : St} (h : DataInv c s)
    (e1 : s'.srcPos = s.srcPos) (e2 : s'.srcDead = s.srcDead) (e3 : s'.srcRaised = s.srcRaised)
    (e4 : s'.trk = s.trk) (e5 : s'.ready = s.ready) (e6 : s'.aborting = false → s.aborting = false)
    (e7 : s'.nDispTasks = s.nDispTasks) (e8 : ∀ t id l, Ev.pull t id l ∈ s'.log → Ev.pull t id l ∈ s.log) :
    DataInv c s' := by
  have ha : allItems s' = allItems s := allItems_of_trk e4
  refine ⟨⟨?_, ?_, ?_, ?_, ?_⟩, ?_, ⟨?_, ?_, ?_, ?_⟩, ?_, ?_⟩
  · rw [e1]; exact h.S.le
  · rw [e2, e3]; exact h.S.raisedDead
  · rw [e1, e2]; exact h.S.deadAt
  · rw [e1, e3]; exact h.S.raisedAt
  · rw [e1, e2, e3]; exact h.S.exhausted
  · rw [e4]; exact h.T
  · rw [ha, e5]; exact h.C.sorted
  · rw [ha, e5, e1]; exact h.C.bound
  · intro hab; rw [ha, e5, e1]; exact h.C.full (e6 hab)
  · rw [e5]; exact h.C.readyNe
  · rw [ha, e7]; exact h.Nd
  · intro t id l hm; exact h.logLocked t id l (e8 t id l hm)

/-- One tracker replaced (same items): the data part. -/
theorem DataInv.setT {c : Cfg} {s s' : St} (h : DataInv c s) {i : Nat} {t' : Tracker}
    (htrk : s'.trk = s.trk.set i t') (hit : t'.items = (getT s.trk i).items) (hT : TrkOK c t')
    (e1 : s'.srcPos = s.srcPos) (e2 : s'.srcDead = s.srcDead) (e3 : s'.srcRaised = s.srcRaised)
    (e5 : s'.ready = s.ready) (e6 : s'.aborting = false → s.aborting = false)
    (e7 : s'.nDispTasks = s.nDispTasks) (e8 : ∀ t id l, Ev.pull t id l ∈ s'.log → Ev.pull t id l ∈ s.log) :
    DataInv c s' := by
  have ha : allItems s' = allItems s := allItems_set htrk hit
  refine ⟨⟨?_, ?_, ?_, ?_, ?_⟩, ?_, ⟨?_, ?_, ?_, ?_⟩, ?_, ?_⟩
  · rw [e1]; exact h.S.le
  · rw [e2, e3]; exact h.S.raisedDead
  · rw [e1, e2]; exact h.S.deadAt
  · rw [e1, e3]; exact h.S.raisedAt
  · rw [e1, e2, e3]; exact h.S.exhausted
  · rw [htrk]; intro x hx
    rcases List.mem_or_eq_of_mem_set hx with hx | hx
    · exact h.T x hx
    · rw [hx]; exact hT
  · rw [ha, e5]; exact h.C.sorted
  · rw [ha, e5, e1]; exact h.C.bound
  · intro hab; rw [ha, e5, e1]; exact h.C.full (e6 hab)
  · rw [e5]; exact h.C.readyNe
  · rw [ha, e7]; exact h.Nd
  · intro t id l hm; exact h.logLocked t id l (e8 t id l hm)


/-- A move of the caller that touches no tracker: pc (with the matching lock transfer) and fields outside the core
invariant. -/
theorem Inv.callerStep {c : Cfg} {s s' : St} (h : Inv c s)
    (e1 : s'.srcPos = s.srcPos) (e2 : s'.srcDead = s.srcDead) (e3 : s'.srcRaised = s.srcRaised)
    (e4 : s'.trk = s.trk) (e5 : s'.ready = s.ready)
    (e6 : s'.aborting = false → s.aborting = false ∨ s.pc.preDispatch = true)
    (e7 : s'.nDispTasks = s.nDispTasks) (e8 : ∀ t id l, Ev.pull t id l ∈ s'.log → Ev.pull t id l ∈ s.log)
    (e9 : s'.nCompleted = s.nCompleted)
    (hlock : s'.lockOwner = if s'.pc.holding then some 0 else if s.pc.holding then none else s.lockOwner)
    (hfree : s'.pc.holding = true → s.pc.holding = false → s.lockOwner = none)
    (hsub : ∀ k j, s'.pc = .dSubmit k j → PendingSubmit s j)
    (hpre : s'.pc.preDispatch = true → s.pc.preDispatch = true ∧ s'.jobs = s.jobs ∧ s'.nPop = s.nPop ∧ s'.out = s.out) :
    Inv c s' := by
  have hfresh : s.pc.preDispatch = true → allItems s ++ s.ready.flatten = List.range' 0 s.srcPos := by
    intro hp
    have f := h.P hp
    simp [allItems, f.trk, f.ready, f.src.1]
  have hd : DataInv c s' := by
    have ha : allItems s' = allItems s := allItems_of_trk e4
    refine ⟨⟨?_, ?_, ?_, ?_, ?_⟩, ?_, ⟨?_, ?_, ?_, ?_⟩, ?_, ?_⟩
    · rw [e1]; exact h.S.le
    · rw [e2, e3]; exact h.S.raisedDead
    · rw [e1, e2]; exact h.S.deadAt
    · rw [e1, e3]; exact h.S.raisedAt
    · rw [e1, e2, e3]; exact h.S.exhausted
    · rw [e4]; exact h.T
    · rw [ha, e5]; exact h.C.sorted
    · rw [ha, e5, e1]; exact h.C.bound
    · intro hab; rw [ha, e5, e1]
      rcases e6 hab with h1 | h1
      · exact h.C.full h1
      · exact hfresh h1
    · rw [e5]; exact h.C.readyNe
    · rw [ha, e7]; exact h.N.disp
    · intro t id l hm; exact h.logLocked t id l (e8 t id l hm)
  have hg : ∀ i, getTrk s' i = getTrk s i := fun i => by simp [e4]
  refine ⟨⟨?_, ?_, ?_, ?_⟩, ⟨?_, ?_⟩, hd.S, hd.T, hd.C, ⟨hd.Nd, ?_⟩, ?_, hd.logLocked⟩
  · intro hp; rw [hlock, hp]; rfl
  · intro i hi hh
    rw [e4] at hi; rw [hg] at hh
    have := h.L.cb i hi hh
    by_cases hp' : s'.pc.holding = true
    · by_cases hp : s.pc.holding = true
      · have := h.L.caller hp; simp_all
      · have := hfree hp' (by simpa using hp); simp_all
    · by_cases hp : s.pc.holding = true
      · have := h.L.caller hp; simp_all
      · rw [hlock]; simp [hp', hp, this]
  · intro ho
    by_cases hp' : s'.pc.holding = true
    · exact hp'
    · exfalso
      rw [hlock] at ho
      by_cases hp : s.pc.holding = true
      · simp [hp', hp] at ho
      · simp only [hp', hp] at ho
        exact hp (h.L.own0 (by simpa using ho))
  · intro i ho
    rw [e4, hg]
    by_cases hp' : s'.pc.holding = true
    · rw [hlock] at ho; simp [hp'] at ho
    · by_cases hp : s.pc.holding = true
      · rw [hlock] at ho; simp [hp', hp] at ho
      · rw [hlock] at ho; simp only [hp', hp] at ho
        exact h.L.ownCb i (by simpa using ho)
  · intro k j hk
    have := hsub k j hk
    unfold PendingSubmit at this ⊢
    rw [hg, e4]; exact this
  · intro i j hi hj
    rw [e4] at hi
    rw [hg] at hj
    have := h.U.cb i j hi hj
    unfold PendingSubmit at this ⊢
    rw [hg, e4]; exact this
  · rw [e9, e4]; exact h.N.comp
  · intro hp
    obtain ⟨hp0, hj, hn, ho⟩ := hpre hp
    have f := h.P hp0
    have hnh : s.pc.holding = false := by
      cases hh : s.pc.holding with
      | false => rfl
      | true => have := h.L.caller hh; rw [f.lock] at this; cases this
    have hnh' : s'.pc.holding = false := by
      cases hpc : s'.pc <;> simp_all [Pc.preDispatch, Pc.holding]
    refine ⟨by rw [e4]; exact f.trk, by rw [e5]; exact f.ready, by rw [e1, e2, e3]; exact f.src, ?_,
      by rw [hj, hn, ho]; exact f.jobs, by rw [e7, e9]; exact f.cnt⟩
    rw [hlock, hnh', hnh]; exact f.lock


/-- One tracker replaced (same items), with the matching lock transfer and counter update. -/
theorem Inv.setT {c : Cfg} {s s' : St} (h : Inv c s) {i : Nat} (hi : i < s.trk.length) {t' : Tracker}
    (htrk : s'.trk = s.trk.set i t') (hpc : s'.pc = s.pc)
    (hit : t'.items = (getT s.trk i).items) (hT : TrkOK c t')
    (e1 : s'.srcPos = s.srcPos) (e2 : s'.srcDead = s.srcDead) (e3 : s'.srcRaised = s.srcRaised)
    (e5 : s'.ready = s.ready) (e6 : s'.aborting = false → s.aborting = false)
    (e7 : s'.nDispTasks = s.nDispTasks) (e8 : ∀ t id l, Ev.pull t id l ∈ s'.log → Ev.pull t id l ∈ s.log)
    (hlock : s'.lockOwner = if t'.pc.holding then some (i + 1) else
      if (getT s.trk i).pc.holding then none else s.lockOwner)
    (hfree : t'.pc.holding = true → (getT s.trk i).pc.holding = false → s.lockOwner = none)
    (hcnt : s'.nCompleted + (if (getT s.trk i).pc.counted then (getT s.trk i).items.length else 0) =
      s.nCompleted + (if t'.pc.counted then (getT s.trk i).items.length else 0))
    (hptr : ∀ j, t'.pc = .submitC j → PendingSubmit s j ∧ j ≠ i)
    (hnoptr : (getT s.trk i).pc = .idle → (t'.pc = .idle ∧ t'.status = (getT s.trk i).status) ∨
      ((∀ k j, s.pc = .dSubmit k j → j ≠ i) ∧
       (∀ k j, k < s.trk.length → (getT s.trk k).pc = .submitC j → j ≠ i))) :
    Inv c s' := by
  have hd : DataInv c s' := h.data.setT htrk hit hT e1 e2 e3 e5 e6 e7 e8
  have hlen : s'.trk.length = s.trk.length := by simp [htrk]
  have hgi : getTrk s' i = t' := by simp [htrk, hi]
  have hgne : ∀ k, k ≠ i → getTrk s' k = getTrk s k := fun k hk => by simp [htrk, getT_set_ne _ _ _ _ hk]
  have hold : (getT s.trk i).pc.holding = true → s.lockOwner = some (i + 1) := h.L.cb i hi
  have hpend : ∀ j, PendingSubmit s j → j ≠ i → PendingSubmit s' j := by
    intro j hj hne
    unfold PendingSubmit at hj ⊢
    rw [hlen, hgne j hne]; exact hj
  have hpidle : ∀ j, PendingSubmit s j → (getT s.trk j).pc = .idle := fun j hj => hj.2.1
  have hpself : PendingSubmit s i → t'.pc = .idle → t'.status = (getT s.trk i).status → PendingSubmit s' i := by
    intro hj h1 h2
    unfold PendingSubmit at hj ⊢
    rw [hlen, hgi]
    exact ⟨hi, h1, by rw [h2]; exact hj.2.2.1, by rw [hit]; exact hj.2.2.2⟩
  refine ⟨⟨?_, ?_, ?_, ?_⟩, ⟨?_, ?_⟩, hd.S, hd.T, hd.C, ⟨hd.Nd, ?_⟩, ?_, hd.logLocked⟩
  · intro hp
    rw [hpc] at hp
    have h0 := h.L.caller hp
    have hno : (getT s.trk i).pc.holding = false := by
      cases hh : (getT s.trk i).pc.holding with
      | false => rfl
      | true => have := hold hh; rw [h0] at this; cases this
    have hnt : t'.pc.holding = false := by
      cases hh : t'.pc.holding with
      | false => rfl
      | true => have := hfree hh hno; rw [h0] at this; cases this
    rw [hlock, hnt, hno]; simpa using h0
  · intro k hk hh
    rw [hlen] at hk
    by_cases hki : k = i
    · subst hki; rw [hgi] at hh; rw [hlock, hh]; rfl
    · rw [hgne k hki] at hh
      have h0 := h.L.cb k hk hh
      have hno : (getT s.trk i).pc.holding = false := by
        cases hh' : (getT s.trk i).pc.holding with
        | false => rfl
        | true => have := hold hh'; rw [h0] at this; simp at this; exact absurd this.symm (fun e => hki e.symm)
      have hnt : t'.pc.holding = false := by
        cases hh' : t'.pc.holding with
        | false => rfl
        | true => have := hfree hh' hno; rw [h0] at this; cases this
      rw [hlock, hnt, hno]; simpa using h0
  · intro ho
    rw [hpc]
    rw [hlock] at ho
    by_cases hnt : t'.pc.holding = true
    · simp [hnt] at ho
    · by_cases hno : (getT s.trk i).pc.holding = true
      · simp [hnt, hno] at ho
      · simp only [hnt, hno] at ho
        exact h.L.own0 (by simpa using ho)
  · intro k ho
    rw [hlen]
    rw [hlock] at ho
    by_cases hnt : t'.pc.holding = true
    · simp only [hnt, if_true, Option.some.injEq] at ho
      have : k = i := by omega
      subst this
      exact ⟨hi, by rw [hgi]; exact hnt⟩
    · by_cases hno : (getT s.trk i).pc.holding = true
      · simp [hnt, hno] at ho
      · simp only [hnt, hno] at ho
        have := h.L.ownCb k (by simpa using ho)
        have hki : k ≠ i := by
          intro e; subst e; exact hno this.2
        exact ⟨this.1, by rw [hgne k hki]; exact this.2⟩
  · intro k j hk
    rw [hpc] at hk
    have hp := h.U.caller k j hk
    by_cases e : j = i
    · subst e
      rcases hnoptr (hpidle j hp) with h1 | h1
      · exact hpself hp h1.1 h1.2
      · exact absurd rfl (h1.1 k j hk)
    · exact hpend j hp e
  · intro k j hk hj
    rw [hlen] at hk
    by_cases hki : k = i
    · subst hki; rw [hgi] at hj
      obtain ⟨h1, h2⟩ := hptr j hj
      exact hpend j h1 h2
    · rw [hgne k hki] at hj
      have hp := h.U.cb k j hk hj
      by_cases e : j = i
      · subst e
        rcases hnoptr (hpidle j hp) with h1 | h1
        · exact hpself hp h1.1 h1.2
        · exact absurd rfl (h1.2 k j hk hj)
      · exact hpend j hp e
  · have := countedSum_set s.trk i t' hi hit
    rw [htrk]
    have := h.N.comp
    omega
  · intro hp
    rw [hpc] at hp
    have f := h.P hp
    rw [f.trk] at hi; simp at hi

/-- The locked region of `dispatch_one_batch`, run by the thread that owns the lock, preserves the invariant. -/
theorem DLCase.inv {c : Cfg} {t : Tid} {fo : Bool} {bs : Nat} {s s' : St} {r : DRes}
    (hc : DLCase c t fo bs s s' r) (h : Inv c s) (hl : s.lockOwner = some t) :
    Inv c s' ∧ (∀ j, r = .submit j → PendingSubmit s' j) ∧ s'.lockOwner = s.lockOwner ∧ s'.pc = s.pc := by
  have hd := hc.data h.data hl
  have hfr : s'.lockOwner = s.lockOwner ∧ s'.pc = s.pc ∧ s'.nCompleted = s.nCompleted ∧
      (∃ new, s'.trk = s.trk ++ new ∧ ∀ x ∈ new, x.pc = .idle) ∧
      (∀ j, r = .submit j → j = s.trk.length ∧ ∃ tk, tk ≠ [] ∧
        s'.trk = s.trk ++ [{ items := tk, bsize := tk.length, callId := s.callId }]) := by
    cases hc with
    | aborting ha => exact ⟨rfl, rfl, rfl, ⟨[], by simp, by simp⟩, by simp⟩
    | ready tasks rest ha hr htn =>
      exact ⟨rfl, rfl, rfl, ⟨[_], rfl, by simp⟩, fun j hj => ⟨by cases hj; rfl, tasks, htn, rfl⟩⟩
    | raised m evs dead pl ha hr hf hsd => exact ⟨rfl, rfl, rfl, ⟨[_], rfl, by simp⟩, by simp⟩
    | empty evs dead raised pl ha hr hf => exact ⟨rfl, rfl, rfl, ⟨[], by simp, by simp⟩, by simp⟩
    | pulled m evs dead raised pl tasks rest ha hr hf hm htn hrest hfl =>
      exact ⟨rfl, rfl, rfl, ⟨[_], rfl, by simp⟩, fun j hj => ⟨by cases hj; rfl, tasks, htn, rfl⟩⟩
  obtain ⟨e1, e2, e3, ⟨new, hnew, hidle⟩, hsub⟩ := hfr
  have hlen : s.trk.length ≤ s'.trk.length := by simp [hnew]
  have hgl : ∀ k, k < s.trk.length → getTrk s' k = getTrk s k := fun k hk => by
    simp [hnew, getT_append_left _ _ _ hk]
  have hgr : ∀ k, s.trk.length ≤ k → k < s'.trk.length → (getTrk s' k).pc = .idle := by
    intro k hk hk'
    have hm : getT s'.trk k ∈ s'.trk := getT_mem _ _ hk'
    have : getT s'.trk k ∈ new := by
      have hk2 : k - s.trk.length < new.length := by simp [hnew] at hk'; omega
      have : getT s'.trk k = getT new (k - s.trk.length) := by
        simp [getT, hnew, List.getD_eq_getElem?_getD, List.getElem?_append_right hk]
      rw [this]; exact getT_mem _ _ hk2
    exact hidle _ this
  have hpend : ∀ j, PendingSubmit s j → PendingSubmit s' j := by
    intro j hj
    unfold PendingSubmit at hj ⊢
    rw [hgl j hj.1]; exact ⟨by omega, hj.2⟩
  have hsubP : ∀ j, r = .submit j → PendingSubmit s' j := by
    intro j hj
    obtain ⟨rfl, tk, htk, hs'⟩ := hsub j hj
    unfold PendingSubmit
    simp [hs', htk]
  refine ⟨⟨⟨?_, ?_, ?_, ?_⟩, ⟨?_, ?_⟩, hd.S, hd.T, hd.C, ⟨hd.Nd, ?_⟩, ?_, hd.logLocked⟩, hsubP, e1, e2⟩
  · intro hp; rw [e2] at hp; rw [e1]; exact h.L.caller hp
  · intro k hk hh
    by_cases hks : k < s.trk.length
    · rw [hgl k hks] at hh; rw [e1]; exact h.L.cb k hks hh
    · have := hgr k (by omega) hk; rw [this] at hh; cases hh
  · intro ho; rw [e1] at ho; rw [e2]; exact h.L.own0 ho
  · intro k ho; rw [e1] at ho
    have := h.L.ownCb k ho
    exact ⟨by omega, by rw [hgl k this.1]; exact this.2⟩
  · intro k j hk; rw [e2] at hk; exact hpend j (h.U.caller k j hk)
  · intro k j hk hj
    by_cases hks : k < s.trk.length
    · rw [hgl k hks] at hj; exact hpend j (h.U.cb k j hks hj)
    · have := hgr k (by omega) hk; rw [this] at hj; cases hj
  · rw [e3, hnew, countedSum_append_idle _ _ hidle]; exact h.N.comp
  · intro hp; rw [e2] at hp
    have f := h.P hp
    rw [f.lock] at hl; cases hl


/-- `abort_everything` cancelling the batches the backend still holds. -/
theorem Inv.drop {c : Cfg} {s : St} (h : Inv c s) : Inv c (dropParked s) := by
  let f : Tracker → Tracker := fun t => if t.pc == .parked then { t with pc := .dropped } else t
  have htrk : (dropParked s).trk = s.trk.map f := rfl
  have hfi : ∀ t, (f t).items = t.items := fun t => by simp only [f]; split <;> rfl
  have hfst : ∀ t, (f t).status = t.status := fun t => by simp only [f]; split <;> rfl
  have hfh : ∀ t, (f t).pc.holding = t.pc.holding := fun t => by
    simp only [f]; split
    · rename_i hp; simp only [beq_iff_eq] at hp; simp [hp, CbPc.holding]
    · rfl
  have hfc : ∀ t, (f t).pc.counted = t.pc.counted := fun t => by
    simp only [f]; split
    · rename_i hp; simp only [beq_iff_eq] at hp; simp [hp, CbPc.counted]
    · rfl
  have hfs : ∀ t j, (f t).pc = .submitC j → t.pc = .submitC j := fun t j => by
    simp only [f]; split
    · intro hh; cases hh
    · exact id
  have hfidle : ∀ t, t.pc = .idle → (f t).pc = .idle := fun t ht => by simp [f, ht]
  have hg : ∀ k, k < s.trk.length → getTrk (dropParked s) k = f (getTrk s k) := fun k hk => by
    show getT (s.trk.map f) k = f (getT s.trk k)
    exact getT_map _ _ _ hk
  have hlen : (dropParked s).trk.length = s.trk.length := by rw [htrk]; simp
  have hitems : allItems (dropParked s) = allItems s := by
    simp only [allItems, htrk, List.map_map]
    congr 1
    apply List.map_congr_left
    intro t _; exact hfi t
  have hpend : ∀ j, PendingSubmit s j → PendingSubmit (dropParked s) j := by
    intro j hj
    unfold PendingSubmit at hj ⊢
    rw [hlen, hg j hj.1]
    exact ⟨hj.1, hfidle _ hj.2.1, by rw [hfst]; exact hj.2.2.1, by rw [hfi]; exact hj.2.2.2⟩
  refine ⟨⟨h.L.caller, ?_, h.L.own0, ?_⟩, ⟨?_, ?_⟩, ⟨h.S.le, h.S.raisedDead, h.S.deadAt, h.S.raisedAt, h.S.exhausted⟩, ?_, ⟨?_, ?_, ?_, h.C.readyNe⟩, ⟨?_, ?_⟩, ?_, h.logLocked⟩
  · intro k hk hh; rw [hlen] at hk; rw [hg k hk, hfh] at hh; exact h.L.cb k hk hh
  · intro k ho
    have := h.L.ownCb k ho
    exact ⟨by rw [hlen]; exact this.1, by rw [hg k this.1, hfh]; exact this.2⟩
  · intro k j hk; exact hpend j (h.U.caller k j hk)
  · intro k j hk hj; rw [hlen] at hk; rw [hg k hk] at hj
    exact hpend j (h.U.cb k j hk (hfs _ j hj))
  · intro t ht
    rw [htrk, List.mem_map] at ht
    obtain ⟨t0, ht0, rfl⟩ := ht
    have h0 := h.T t0 ht0
    simp only [f]
    split
    · rename_i hp
      simp only [beq_iff_eq] at hp
      have hst : t0.status = .pending := by have := h0.pcst; rw [hp] at this; exact this
      refine ⟨?_, ?_, ?_, ?_, ?_, ?_⟩
      · rcases h0.shape with h1 | h1
        · exact Or.inl h1
        · exfalso; have := h1.2.2.1; rw [hp] at this; cases this
      · exact hst
      · intro h1; cases h1
      · intro h1; cases h1
      · intro h1; rw [hst] at h1; cases h1
      · intro h1; rw [hst] at h1; cases h1
    · exact h0
  · show List.Pairwise _ (allItems (dropParked s) ++ s.ready.flatten); rw [hitems]; exact h.C.sorted
  · show ∀ x ∈ allItems (dropParked s) ++ s.ready.flatten, x < s.srcPos; rw [hitems]; exact h.C.bound
  · show s.aborting = false → allItems (dropParked s) ++ s.ready.flatten = _; rw [hitems]; exact h.C.full
  · show s.nDispTasks = (allItems (dropParked s)).length; rw [hitems]; exact h.N.disp
  · show s.nCompleted = countedSum (dropParked s).trk
    rw [htrk, h.N.comp]
    simp only [countedSum, List.map_map]
    congr 1
    apply List.map_congr_left
    intro t _
    simp only [Function.comp, hfc, hfi]
  · intro hp
    have fr := h.P hp
    exact ⟨by rw [htrk, fr.trk]; rfl, fr.ready, fr.src, fr.lock, fr.jobs, fr.cnt⟩

end JoblibModel.ParallelLock
