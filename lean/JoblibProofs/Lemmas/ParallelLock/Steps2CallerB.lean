import JoblibProofs.Lemmas.ParallelLock.Steps2Dispatch
/-!
M1L proofs — `Inv2` is preserved by every step of the caller thread (`stepCaller_inv2`); the locked region of
`dispatch_one_batch` entered by the caller is `dAcq_inv2` (file `Steps2Dispatch.lean`).
-/
namespace JoblibModel.ParallelLock

macro "pcmove" h2:ident hpc:ident : tactic => `(tactic|
  (apply Inv2.pcMove $h2 <;>
   first | exact ⟨rfl, rfl, rfl, rfl, rfl, rfl, rfl, rfl, rfl, rfl⟩ | simp [$hpc:ident, unread, LocOK, Pc.inAbort, Pc.inExc, Pc.excPath, Pc.beforeFinW, Pc.afterFirst, Pc.preDispatch,
     Pc.firstPhase, Pc.pastWOrig, Pc.postLoop] <;>
   try (first | (intro h1; exact Or.inl h1) | (intro h1 h2; exact Or.inl h2))))

theorem range'_cons_inv {a n i : Nat} {rest : List Nat} (h : List.range' a n = i :: rest) :
    i = a ∧ rest = List.range' (a + 1) (n - 1) ∧ 0 < n := by
  cases n with
  | zero => simp at h
  | succ m =>
    rw [List.range'_succ] at h
    simp only [List.cons.injEq] at h
    exact ⟨h.1.symm, by simpa using h.2.symm, Nat.succ_pos _⟩

theorem firstErrorJob_spec (s : St) : ∀ (l : List Nat), (∃ j ∈ l, (getTrk s j).status = .error) →
    ∃ i, firstErrorJob s l = some i ∧ i ∈ l ∧ (getTrk s i).status = .error := by
  intro l
  induction l with
  | nil => rintro ⟨j, hj, _⟩; cases hj
  | cons a r ih =>
    rintro ⟨j, hj, hs⟩
    unfold firstErrorJob
    by_cases ha : ((getTrk s a).status == Status.error) = true
    · rw [if_pos ha]; exact ⟨a, rfl, by simp, by simpa using ha⟩
    · rw [if_neg ha]
      have : j ∈ r := by
        rcases List.mem_cons.mp hj with e | e
        · subst e; rw [hs] at ha; simp at ha
        · exact e
      obtain ⟨i, h1, h2, h3⟩ := ih ⟨j, this, hs⟩
      exact ⟨i, h1, List.mem_cons_of_mem _ h2, h3⟩

theorem stepCaller_inv2 {c : Cfg} {s : St} (hc : CfgOK c) (hpd : PdOK c) (h : Inv c s) (h2 : Inv2 c s)
    (he : callerEnabled s = true) : Inv2 c (stepCaller c s) := by
  have hL := h2.L
  have hI := stepCaller_inv h he
  have hpre : s.pc.preDispatch = true → s.aborting = false ∧ s.exception = false ∧ s.outcome = none := by
    intro hp
    have f := h.P hp
    have hnd : s.pc ≠ .done := by intro hd; rw [hd] at hp; cases hp
    refine ⟨?_, ?_, h2.O.noOutcome hnd⟩
    · cases ha : s.aborting with
      | false => rfl
      | true =>
        rcases h2.F.aborting ha with ⟨t, ht, _⟩ | h3
        · rw [f.trk] at ht; cases ht
        · cases hpc : s.pc <;> simp_all [Pc.inAbort, Pc.preDispatch]
    · cases ha : s.exception with
      | false => rfl
      | true =>
        rcases h2.F.exception ha with ⟨t, ht, _⟩ | h3
        · rw [f.trk] at ht; cases ht
        · cases hpc : s.pc <;> simp_all [Pc.inAbort, Pc.inExc, Pc.preDispatch]
  cases hpc : s.pc with
  | resetAcq =>
    obtain ⟨ha, hx, ho⟩ := hpre (by rw [hpc]; rfl)
    unfold stepCaller at hI ⊢; simp only [hpc] at hI ⊢
    simp only [LocOK, hpc] at hL
    rw [if_neg (by simp [hL])] at hI ⊢
    exact Inv2.ofFresh (hI.P rfl) (Or.inl rfl) ha hx ho h2.I.allMode (by simp [Pc.pastWOrig]) (by simp [Pc.pastWOrig])
      (by simp [LocOK])
  | resetRel =>
    obtain ⟨ha, hx, ho⟩ := hpre (by rw [hpc]; rfl)
    unfold stepCaller at hI ⊢; simp only [hpc] at hI ⊢
    exact Inv2.ofFresh (hI.P rfl) (Or.inl rfl) ha hx ho h2.I.allMode (by simp [Pc.pastWOrig]) (by simp [Pc.pastWOrig])
      (by simp [LocOK])
  | wNDisp =>
    obtain ⟨ha, hx, ho⟩ := hpre (by rw [hpc]; rfl)
    unfold stepCaller at hI ⊢; simp only [hpc] at hI ⊢
    exact Inv2.ofFresh (hI.P rfl) (Or.inl rfl) ha hx ho h2.I.allMode (by simp [Pc.pastWOrig]) (by simp [Pc.pastWOrig])
      (by simp [LocOK])
  | wNComp =>
    obtain ⟨ha, hx, ho⟩ := hpre (by rw [hpc]; rfl)
    unfold stepCaller at hI ⊢; simp only [hpc] at hI ⊢
    exact Inv2.ofFresh (hI.P rfl) (Or.inl rfl) ha hx ho h2.I.allMode (by simp [Pc.pastWOrig]) (by simp [Pc.pastWOrig])
      (by simp [LocOK])
  | wExc0 =>
    obtain ⟨ha, hx, ho⟩ := hpre (by rw [hpc]; rfl)
    unfold stepCaller at hI ⊢; simp only [hpc] at hI ⊢
    exact Inv2.ofFresh (hI.P rfl) (Or.inl rfl) ha rfl ho h2.I.allMode (by simp [Pc.pastWOrig]) (by simp [Pc.pastWOrig])
      (by simp [LocOK])
  | wAbort0 =>
    obtain ⟨ha, hx, ho⟩ := hpre (by rw [hpc]; rfl)
    unfold stepCaller at hI ⊢; simp only [hpc] at hI ⊢
    exact Inv2.ofFresh (hI.P rfl) (Or.inl rfl) rfl hx ho h2.I.allMode (by simp [Pc.pastWOrig]) (by simp [Pc.pastWOrig])
      (by simp [LocOK, hx])
  | readyAcq =>
    obtain ⟨ha, hx, ho⟩ := hpre (by rw [hpc]; rfl)
    unfold stepCaller at hI ⊢; simp only [hpc] at hI ⊢
    exact Inv2.ofFresh (hI.P rfl) (Or.inl rfl) ha hx ho h2.I.allMode (by simp [Pc.pastWOrig]) (by simp [Pc.pastWOrig])
      (by simp [LocOK, ha, hx])
  | readyRel =>
    obtain ⟨ha, hx, ho⟩ := hpre (by rw [hpc]; rfl)
    unfold stepCaller at hI ⊢; simp only [hpc] at hI ⊢
    exact Inv2.ofFresh (hI.P rfl) (Or.inl rfl) ha hx ho h2.I.allMode (by simp [Pc.pastWOrig]) (by simp [Pc.pastWOrig])
      (by simp [LocOK, ha, hx])
  | wOrig =>
    obtain ⟨ha, hx, ho⟩ := hpre (by rw [hpc]; rfl)
    unfold stepCaller at hI ⊢; simp only [hpc] at hI ⊢
    by_cases hm : (c.pdMode == 1) = true
    · rw [if_pos hm] at hI ⊢
      have hm' : c.pdMode = 1 := by simpa using hm
      exact Inv2.ofFresh (hI.P rfl) (Or.inl rfl) ha hx ho (fun _ => rfl) (fun _ _ => rfl)
        (fun _ h1 => absurd hm' h1) (by simp [LocOK, ha, hx, Pre0, hm'])
    · rw [if_neg hm] at hI ⊢
      have hm' : c.pdMode ≠ 1 := by simpa using hm
      exact Inv2.ofFresh (hI.P rfl) (Or.inl rfl) ha hx ho (fun h1 => absurd h1 hm') (fun h1 => absurd h1 hm')
        (fun _ _ => rfl) (by simp [LocOK, ha, hx, Pre0, hm'])
  | wIter0 =>
    obtain ⟨ha, hx, ho⟩ := hpre (by rw [hpc]; rfl)
    have f := h.P (by rw [hpc]; rfl)
    unfold stepCaller at hI ⊢; simp only [hpc] at hI ⊢
    simp only [LocOK, hpc] at hL
    have f' : Fresh { s with iterating := false, pc := Pc.dPre DK.first } := ⟨f.trk, f.ready, f.src, f.lock, f.jobs, f.cnt⟩
    exact Inv2.ofFresh f' (Or.inr rfl) ha hx ho h2.I.allMode (fun h1 _ => hL.2.2.1 h1) (fun _ h1 => (hL.2.2.2 h1).1)
      (by simp only [LocOK]; exact ⟨f', rfl, ha, hx, hL.2.2⟩)
  | dPre k =>
    cases k with
    | first =>
      simp only [LocOK, hpc] at hL
      obtain ⟨f, hit, ha, hx, hp0⟩ := hL
      have ho := h2.O.noOutcome (by rw [hpc]; intro hh; cases hh)
      unfold stepCaller at hI ⊢; simp only [hpc] at hI ⊢
      rw [if_neg (by simp [ha])] at hI ⊢
      by_cases hau : c.bsAuto = true
      · rw [if_pos hau] at hI ⊢
        have f' : Fresh { s with pc := Pc.dBs DK.first } := ⟨f.trk, f.ready, f.src, f.lock, f.jobs, f.cnt⟩
        exact Inv2.ofFresh f' (Or.inr rfl) ha hx ho h2.I.allMode (fun h1 _ => hp0.1 h1) (fun _ h1 => (hp0.2 h1).1)
          (by simp only [LocOK]; exact ⟨f', hit, ha, hx, hp0⟩)
      · rw [if_neg hau] at hI ⊢
        have f' : Fresh { s with pc := Pc.dAcq DK.first (scriptedBs c s) } := ⟨f.trk, f.ready, f.src, f.lock, f.jobs, f.cnt⟩
        exact Inv2.ofFresh f' (Or.inr rfl) ha hx ho h2.I.allMode (fun h1 _ => hp0.1 h1) (fun _ h1 => (hp0.2 h1).1)
          (by simp only [LocOK]; exact ⟨⟨f', hit, ha, hx, hp0⟩, scriptedBs_pos hc s⟩)
    | loop =>
      unfold stepCaller; simp only [hpc, afterDispatch]
      by_cases ha : s.aborting = true
      · rw [if_pos ha]
        by_cases hm : (c.pdMode == 1) = true
        · rw [if_pos hm]; pcmove h2 hpc
          case c_loop => intro h1; rw [ha] at h1; cases h1
          case hloc => simpa using hm
        · rw [if_neg hm]; pcmove h2 hpc
          case c_loop => intro h1; rw [ha] at h1; cases h1
      · rw [if_neg ha]
        by_cases hau : c.bsAuto = true
        · rw [if_pos hau]; pcmove h2 hpc
        · rw [if_neg hau]; pcmove h2 hpc
          case hloc => exact scriptedBs_pos hc s
  | dBs k =>
    cases k with
    | first =>
      simp only [LocOK, hpc] at hL
      obtain ⟨f, hit, ha, hx, hp0⟩ := hL
      have ho := h2.O.noOutcome (by rw [hpc]; intro hh; cases hh)
      unfold stepCaller at hI ⊢; simp only [hpc] at hI ⊢
      have f' : Fresh { s with bsI := s.bsI + 1, pc := Pc.dAcq DK.first (scriptedBs c s) } :=
        ⟨f.trk, f.ready, f.src, f.lock, f.jobs, f.cnt⟩
      exact Inv2.ofFresh f' (Or.inr rfl) ha hx ho h2.I.allMode (fun h1 _ => hp0.1 h1) (fun _ h1 => (hp0.2 h1).1)
        (by simp only [LocOK]; exact ⟨⟨f', hit, ha, hx, hp0⟩, scriptedBs_pos hc s⟩)
    | loop =>
      unfold stepCaller; simp only [hpc]; pcmove h2 hpc
      case hloc => exact scriptedBs_pos hc s
  | dRel k r =>
    unfold stepCaller; simp only [hpc]
    cases k <;> cases r <;> simp only [afterDispatch]
    · pcmove h2 hpc
    · pcmove h2 hpc
    · by_cases hm : (c.pdMode == 1) = true
      · rw [if_pos hm]; pcmove h2 hpc
        case hloc => simpa using hm
      · rw [if_neg hm]; pcmove h2 hpc
    · pcmove h2 hpc
  | dIn k => unfold stepCaller; simp only [hpc]; exact h2
  | itAcq =>
    unfold stepCaller; simp only [hpc]; pcmove h2 hpc
  | itRel => unfold stepCaller; simp only [hpc]; pcmove h2 hpc
  | wIterAll =>
    simp only [LocOK, hpc] at hL
    unfold stepCaller; simp only [hpc]; pcmove h2 hpc
    case c_first => exact Or.inr (Or.inl (h2.I.allMode hL))
  | wtAbort => unfold stepCaller; simp only [hpc]; split <;> pcmove h2 hpc
  | wtIter =>
    unfold stepCaller; simp only [hpc]; split
    · pcmove h2 hpc
    · rename_i hit
      pcmove h2 hpc
      case hloc =>
        have := h2.I.afterFirst (by rw [hpc]; rfl) (by simpa using hit)
        rcases this with h1 | h1
        · exact Or.inl h1
        · exact Or.inr (h1.congr rfl rfl rfl)
  | wtNComp =>
    simp only [LocOK, hpc] at hL
    unfold stepCaller; simp only [hpc]; pcmove h2 hpc
    case hloc =>
      rcases hL with h1 | h1
      · exact Or.inl h1
      · exact Or.inr (h1.congr rfl rfl rfl)
  | rtAbort =>
    unfold stepCaller; simp only [hpc]; split
    · rename_i hab; pcmove h2 hpc
      case hloc => exact hab
    · pcmove h2 hpc
  | rtLen =>
    unfold stepCaller; simp only [hpc]; split
    · pcmove h2 hpc
    · rename_i hj
      pcmove h2 hpc
      case hloc =>
        have := h2.D.jobs (by rw [hpc]; rfl)
        rw [this] at hj
        simp only [List.length_range'] at hj
        omega
  | rtHead =>
    simp only [LocOK, hpc] at hL
    have hj := h2.D.jobs (by rw [hpc]; rfl)
    unfold stepCaller; simp only [hpc]
    cases hjj : s.jobs with
    | nil => rw [hjj] at hj; have := congrArg List.length hj; simp at this; omega
    | cons i rest =>
      rw [hjj] at hj
      obtain ⟨e1, _, _⟩ := range'_cons_inv hj.symm
      pcmove h2 hpc
      case e => exact ⟨rfl, rfl, rfl, rfl, rfl, rfl, hjj.symm, rfl, rfl, rfl⟩
      case hloc => exact ⟨e1, by omega⟩
  | rtStatus i =>
    simp only [LocOK, hpc] at hL
    unfold stepCaller; simp only [hpc]; split
    · pcmove h2 hpc
    · rename_i hst
      pcmove h2 hpc
      case hloc =>
        obtain ⟨e1, e2⟩ := hL
        subst e1
        exact ⟨e2, by simpa using hst⟩
  | sleep => unfold stepCaller; simp only [hpc]; pcmove h2 hpc
  | popRel i =>
    simp only [LocOK, hpc] at hL
    unfold stepCaller; simp only [hpc]; pcmove h2 hpc
    case hloc => exact hL
  | refAcq =>
    simp only [LocOK, hpc] at hL
    have hj := h2.D.jobs (by rw [hpc]; rfl)
    unfold stepCaller; simp only [hpc]
    pcmove h2 hpc
    case hloc =>
      -- `_aborting` was observed: some tracker carries an error, and it is still in `_jobs`
      have herr : ∃ j ∈ s.jobs, (getTrk s j).status = .error := by
        rcases h2.F.aborting hL with ⟨t, ht, hs⟩ | h3
        · obtain ⟨j, hjl, e⟩ := (mem_iff_getT _ _).mp ht
          refine ⟨j, ?_, by rw [getTrk_def, e]; exact hs⟩
          rw [hj, List.mem_range'_1]
          have hge : s.nPop ≤ j := by
            apply Nat.le_of_not_lt
            intro hlt
            have := h2.D.prefixDone (by rw [hpc]; rfl) j (by simpa [unread, hpc] using hlt) hjl
            rw [e, hs] at this; cases this
          omega
        · rw [hpc] at h3; cases h3
      obtain ⟨i, h1, h3, h4⟩ := firstErrorJob_spec s s.jobs herr
      rw [h1]
      simp only
      rw [hj, List.mem_range'_1] at h3
      exact ⟨h3.1, by omega, h4⟩
  | refRel e =>
    simp only [LocOK, hpc] at hL
    cases e with
    | none => exact absurd hL id
    | some i =>
      unfold stepCaller; simp only [hpc]; pcmove h2 hpc
      case hloc => exact hL
  | excW e =>
    simp only [LocOK, hpc] at hL
    unfold stepCaller; simp only [hpc]; pcmove h2 hpc
    case hloc => exact hL
  | abortW e =>
    simp only [LocOK, hpc] at hL
    unfold stepCaller; simp only [hpc]; split <;> (pcmove h2 hpc; case hloc => exact hL)
  | finJobsR e =>
    simp only [LocOK, hpc] at hL
    have hj := h2.D.jobs (by rw [hpc]; rfl)
    unfold stepCaller; simp only [hpc]
    cases e with
    | some e =>
      pcmove h2 hpc
      case hloc => exact hL
    | none =>
      pcmove h2 hpc
      case hloc => exact ⟨hL.1, hL.2, Or.inr hj, fun _ => hj⟩
  | done => rw [callerEnabled, hpc] at he; simp at he
  | wtNDisp nc =>
    simp only [LocOK, hpc] at hL
    unfold stepCaller; simp only [hpc]
    by_cases hlt : nc < s.nDispTasks
    · rw [if_pos hlt]; pcmove h2 hpc
    · rw [if_neg hlt]
      have hq := quiet_of_counts h h2 hL.2 hlt hL.1
      have hE : Exited s := ⟨hq, hL.1⟩
      by_cases hrc : c.recheck = true
      · rw [if_pos hrc]; pcmove h2 hpc
        case hloc => exact (TrkRel.of_eq rfl).exited rfl rfl rfl hE
      · rw [if_neg hrc]; pcmove h2 hpc
        case hloc =>
          refine ⟨(TrkRel.of_eq rfl).exited rfl rfl rfl hE, fun hs => ?_⟩
          have hif : c.iterfail = none := by
            rcases hs with h1 | h1
            · exact absurd h1 hrc
            · exact h1
          intro t ht hit
          rcases (h.T t ht).shape with h1 | h1
          · exact h1.1 hit
          · have := h1.2.2.2; rw [hif] at this; cases this
  | wtAbort2 =>
    simp only [LocOK, hpc] at hL
    unfold stepCaller; simp only [hpc]
    by_cases hab : s.aborting = true
    · rw [if_pos hab]; pcmove h2 hpc
    · rw [if_neg hab]; pcmove h2 hpc
      case hloc =>
        refine ⟨(TrkRel.of_eq rfl).exited rfl rfl rfl hL, fun _ => ?_⟩
        intro t ht hit
        rcases (h.T t ht).shape with h1 | h1
        · exact h1.1 hit
        · exact hab (h2.F.errFlags t ht h1.2.1).1
  | finExc e =>
    simp only [LocOK, hpc] at hL
    unfold stepCaller; simp only [hpc]
    cases e with
    | some e =>
      simp only at hL
      split <;> (pcmove h2 hpc; case hloc => exact hL)
    | none =>
      simp only at hL
      by_cases hx : s.exception = true
      · rw [if_pos hx]; pcmove h2 hpc
        case hloc =>
          refine ⟨(TrkRel.of_eq rfl).exited rfl rfl rfl hL.1, hL.2, fun hs => ?_⟩
          exfalso
          have := exit_allItems h h2 hL.1.1 (hL.2 hs) hL.1.2 (by rw [hpc]; rfl) (by rw [hpc]; rfl) (by rw [hpc]; rfl)
            (by rw [hpc]; rfl)
          rw [this.2.2.1] at hx; cases hx
      · rw [if_neg hx]; pcmove h2 hpc
        case hloc => exact ⟨(TrkRel.of_eq rfl).exited rfl rfl rfl hL.1, hL.2⟩
  | popAcq =>
    simp only [LocOK, hpc] at hL
    have hj := h2.D.jobs (by rw [hpc]; rfl)
    unfold stepCaller; simp only [hpc]
    cases hjj : s.jobs with
    | nil => rw [hjj] at hj; have := congrArg List.length hj; simp at this; omega
    | cons i rest =>
      rw [hjj] at hj
      obtain ⟨e1, e2, _⟩ := range'_cons_inv hj.symm
      simp only
      have hun : unread { s with jobs := rest, nPop := s.nPop + 1, pc := Pc.popRel i } = unread s := by
        simp [unread, hpc]
      refine h2.move (TrkRel.of_eq rfl) rfl rfl rfl rfl rfl (fun _ _ _ => rfl) id Or.inl id Or.inl
        (by simp [hpc, Pc.inAbort]) (by simp [hpc, Pc.inExc, Pc.inAbort]) (by simp [hpc, Pc.excPath, Pc.inExc, Pc.inAbort])
        (fun _ => by rw [hun]; exact Nat.le_refl _) (fun _ j h1 h3 => by rw [hun] at h3; omega)
        (fun hp => by rw [hun]; exact h2.D.out (by rw [hpc]; rfl)) (by show s.nPop + 1 ≤ _; omega) ?_
        (fun _ hi => Or.inl ⟨by rw [hpc]; rfl, hi⟩) (fun _ => by rw [hpc]; rfl) (fun _ _ _ => Or.inl (by rw [hpc]; rfl))
        (fun l hl => Or.inl hl) (fun x hx => Or.inl hx) (fun _ => h2.O.noOutcome (by rw [hpc]; intro hh; cases hh)) ?_
      · intro _; show rest = _; rw [e2]; congr 1
      · simp only [LocOK]; subst e1; exact ⟨rfl, hL.1, hL.2⟩
  | resStatus i =>
    simp only [LocOK, hpc] at hL
    obtain ⟨e1, hil, hnp⟩ := hL
    have hun : unread s = i := by simp only [unread, hpc]; omega
    have hnd : s.pc ≠ .done := by rw [hpc]; intro hh; cases hh
    unfold stepCaller; simp only [hpc]
    cases hst : (getT s.trk i).status with
    | pending => exact absurd hst hnp
    | done =>
      have hres := h2.R.done (by rw [hpc]; rfl) i (by rw [hun]; exact Nat.le_refl _) hil hst
      rw [returnOrRaise_done hst hres]
      simp only
      have hun' : unread { deliverVals c (setTrk s i { getTrk s i with result := .none }) (getT s.trk i).items with
          pc := Pc.wtAbort } = i + 1 := by simp [unread, e1]
      refine h2.move (r := (TrkRel.setResult s i .none).of_trk (by simp)) (e_dead := by simp) (e_raised := by simp)
        (e_ready := by simp) (e_orig := by simp) (e_pre := by simp) (t_res := ?_) (a_up := fun hh => by simpa using hh)
        (a_new := fun hh => Or.inl (by simpa using hh)) (x_up := fun hh => by simpa using hh)
        (x_new := fun hh => Or.inl (by simpa using hh)) (c_abort := by simp [hpc, Pc.inAbort])
        (c_exc := by simp [hpc, Pc.inExc, Pc.inAbort]) (c_path := by simp [hpc, Pc.excPath, Pc.inExc, Pc.inAbort])
        (c_unread := fun _ => by rw [hun, hun']; omega) (r_prefix := ?_) (r_out := ?_) (r_npop := by simpa using h2.D.nPopLe)
        (r_jobs := fun _ => by simpa using h2.D.jobs (by rw [hpc]; rfl))
        (c_first := fun _ hi => Or.inl ⟨by rw [hpc]; rfl, by simpa using hi⟩) (c_orig := fun _ => by rw [hpc]; rfl)
        (c_loop := fun _ _ _ => Or.inl (by rw [hpc]; rfl)) (o_ret := fun l hl => Or.inl (by simpa using hl))
        (o_raised := fun x hx => Or.inl (by simpa using hx)) (o_none := fun _ => by simpa using h2.O.noOutcome hnd)
        (hloc := by simp [LocOK])
      · intro _ j hj
        rw [hun'] at hj
        simp only [deliverVals_trk]
        exact setResult_result_ne s i j .none (by omega)
      · intro _ j h1 h3 _
        rw [hun] at h1; rw [hun'] at h3
        have : j = i := by omega
        subst this; exact hst
      · intro _
        rw [hun', flatten_take_succ _ _ hil]
        simp only [deliverVals_out, setTrk_out]
        rw [h2.D.out (by rw [hpc]; rfl), hun]
    | error =>
      obtain ⟨e, hres, hleg⟩ := h2.R.error (by rw [hpc]; rfl) i (by rw [hun]; exact Nat.le_refl _) hil hst
      rw [returnOrRaise_error hst hres]
      simp only
      refine h2.move (r := (TrkRel.setResult s i .none).of_trk rfl) (e_dead := rfl) (e_raised := rfl)
        (e_ready := rfl) (e_orig := rfl) (e_pre := rfl) (t_res := fun hp => by simp [Pc.excPath] at hp)
        (a_up := id) (a_new := Or.inl) (x_up := id) (x_new := Or.inl) (c_abort := by simp [hpc, Pc.inAbort])
        (c_exc := by simp [hpc, Pc.inExc, Pc.inAbort]) (c_path := fun hp => by simp [Pc.excPath] at hp)
        (c_unread := fun hp => by simp [Pc.excPath] at hp) (r_prefix := fun hp => by simp [Pc.excPath] at hp)
        (r_out := fun hp => by simp [Pc.excPath] at hp) (r_npop := h2.D.nPopLe)
        (r_jobs := fun _ => h2.D.jobs (by rw [hpc]; rfl))
        (c_first := fun _ hi => Or.inl ⟨by rw [hpc]; rfl, hi⟩) (c_orig := fun _ => by rw [hpc]; rfl)
        (c_loop := fun _ _ _ => Or.inl (by rw [hpc]; rfl)) (o_ret := fun l hl => Or.inl hl)
        (o_raised := fun x hx => Or.inl hx) (o_none := fun _ => h2.O.noOutcome hnd)
        (hloc := by simp only [LocOK]; exact hleg)
  | refStatus i =>
    simp only [LocOK, hpc] at hL
    obtain ⟨e1, hil, hst⟩ := hL
    have hun : unread s = s.nPop := by simp only [unread, hpc]
    have hnd : s.pc ≠ .done := by rw [hpc]; intro hh; cases hh
    unfold stepCaller; simp only [hpc]
    obtain ⟨e, hres, hleg⟩ := h2.R.error (by rw [hpc]; rfl) i (by rw [hun]; exact e1) hil hst
    rw [returnOrRaise_error hst hres]
    simp only
    refine h2.move (r := (TrkRel.setResult s i .none).of_trk rfl) (e_dead := rfl) (e_raised := rfl)
      (e_ready := rfl) (e_orig := rfl) (e_pre := rfl) (t_res := fun hp => by simp [Pc.excPath] at hp)
      (a_up := id) (a_new := Or.inl) (x_up := id) (x_new := Or.inl) (c_abort := by simp [hpc, Pc.inAbort])
      (c_exc := by simp [hpc, Pc.inExc, Pc.inAbort]) (c_path := fun hp => by simp [Pc.excPath] at hp)
      (c_unread := fun hp => by simp [Pc.excPath] at hp) (r_prefix := fun hp => by simp [Pc.excPath] at hp)
      (r_out := fun hp => by simp [Pc.excPath] at hp) (r_npop := h2.D.nPopLe)
      (r_jobs := fun _ => h2.D.jobs (by rw [hpc]; rfl))
      (c_first := fun _ hi => Or.inl ⟨by rw [hpc]; rfl, hi⟩) (c_orig := fun _ => by rw [hpc]; rfl)
      (c_loop := fun _ _ _ => Or.inl (by rw [hpc]; rfl)) (o_ret := fun l hl => Or.inl hl)
      (o_raised := fun x hx => Or.inl hx) (o_none := fun _ => h2.O.noOutcome hnd)
      (hloc := by simp only [LocOK]; exact hleg)
  | abortCall e =>
    simp only [LocOK, hpc] at hL
    have hnd : s.pc ≠ .done := by rw [hpc]; intro hh; cases hh
    unfold stepCaller; simp only [hpc]
    have hr : TrkRel s (if c.abortDrops = true then dropParked (ev s .abort) else ev s .abort) := by
      split
      · exact (TrkRel.drop (ev s .abort)).of_trk rfl |>.of_trk rfl |> fun r => ⟨r.len, r.st, r.it, r.pc⟩
      · exact TrkRel.of_eq rfl
    have hf : ∀ (x : St), x = (if c.abortDrops = true then dropParked (ev s .abort) else ev s .abort) →
        x.srcDead = s.srcDead ∧ x.srcRaised = s.srcRaised ∧ x.ready = s.ready ∧ x.origAlive = s.origAlive ∧
        x.preLeft = s.preLeft ∧ x.aborting = s.aborting ∧ x.exception = s.exception ∧ x.nPop = s.nPop ∧
        x.jobs = s.jobs ∧ x.iterating = s.iterating ∧ x.outcome = s.outcome := by
      intro x hx; subst hx; split <;> simp
    generalize hX : (if c.abortDrops = true then dropParked (ev s .abort) else ev s .abort) = X at hr
    obtain ⟨f1, f2, f3, f4, f5, f6, f7, f8, f9, f10, f11⟩ := hf X hX.symm
    refine h2.move (r := hr.of_trk rfl) (e_dead := f1) (e_raised := f2) (e_ready := f3) (e_orig := f4) (e_pre := f5)
      (t_res := fun hp => by simp [Pc.excPath, Pc.inExc, Pc.inAbort] at hp)
      (a_up := fun hh => by show X.aborting = true; rw [f6]; exact hh)
      (a_new := fun hh => Or.inl (by rw [← f6]; exact hh))
      (x_up := fun hh => by show X.exception = true; rw [f7]; exact hh)
      (x_new := fun hh => Or.inl (by rw [← f7]; exact hh)) (c_abort := fun _ => rfl) (c_exc := fun _ => rfl)
      (c_path := fun hp => by simp [Pc.excPath, Pc.inExc, Pc.inAbort] at hp)
      (c_unread := fun hp => by simp [Pc.excPath, Pc.inExc, Pc.inAbort] at hp)
      (r_prefix := fun hp => by simp [Pc.excPath, Pc.inExc, Pc.inAbort] at hp)
      (r_out := fun hp => by simp [Pc.excPath, Pc.inExc, Pc.inAbort] at hp)
      (r_npop := by show X.nPop ≤ _; rw [f8]; exact h2.D.nPopLe)
      (r_jobs := fun _ => by show X.jobs = List.range' X.nPop _; rw [f8, f9]; exact h2.D.jobs (by rw [hpc]; rfl))
      (c_first := fun _ hi => Or.inl ⟨by rw [hpc]; rfl, by rw [← f10]; exact hi⟩) (c_orig := fun _ => by rw [hpc]; rfl)
      (c_loop := fun _ _ _ => Or.inl (by rw [hpc]; rfl)) (o_ret := fun l hl => Or.inl (by rw [← f11]; exact hl))
      (o_raised := fun x hx => Or.inl (by rw [← f11]; exact hx))
      (o_none := fun _ => by show X.outcome = none; rw [f11]; exact h2.O.noOutcome hnd)
      (hloc := by simp only [LocOK]; exact hL)
  | dSubmit k j =>
    have hnd : s.pc ≠ .done := by rw [hpc]; intro hh; cases hh
    have hpend := h.U.caller k j hpc
    have hidle : (getT s.trk j).pc = .idle := hpend.2.1
    unfold stepCaller; simp only [hpc]
    have htrk : ({ doSubmit 0 j { s with pc := Pc.dIn k } with lockOwner := none, pc := Pc.dRel k true } : St).trk =
        s.trk.set j { getT s.trk j with pc := .parked } := rfl
    refine h2.move (r := TrkRel.submit hidle htrk) (e_dead := rfl) (e_raised := rfl) (e_ready := rfl) (e_orig := rfl)
      (e_pre := rfl) (t_res := fun _ i _ => submit_result htrk i) (a_up := id) (a_new := Or.inl) (x_up := id)
      (x_new := Or.inl) (c_abort := by simp [hpc, Pc.inAbort]) (c_exc := by simp [hpc, Pc.inExc, Pc.inAbort])
      (c_path := by simp [hpc, Pc.excPath, Pc.inExc, Pc.inAbort])
      (c_unread := fun _ => by simp [unread, hpc]) (r_prefix := fun _ i h1 h3 => by simp [unread, hpc] at h1 h3; omega)
      (r_out := fun _ => by simpa [unread, hpc] using h2.D.out (by rw [hpc]; rfl)) (r_npop := h2.D.nPopLe)
      (r_jobs := fun _ => h2.D.jobs (by rw [hpc]; rfl)) (c_first := ?cf) (c_orig := fun _ => by rw [hpc]; rfl)
      (c_loop := ?cl) (o_ret := fun l hl => Or.inl hl)
      (o_raised := fun x hx => Or.inl hx) (o_none := fun _ => h2.O.noOutcome hnd) (hloc := by simp [LocOK])
    case cf =>
      cases k with
      | first => simp [Pc.afterFirst]
      | loop => intro _ hi; exact Or.inl ⟨by rw [hpc]; rfl, hi⟩
    case cl => cases k <;> simp [Pc.postLoop]
  | finJobsW e rem =>
    simp only [LocOK, hpc] at hL
    have hnd : s.pc ≠ .done := by rw [hpc]; intro hh; cases hh
    have hun : unread s = s.nPop := by simp only [unread, hpc]
    unfold stepCaller; simp only [hpc]
    cases e with
    | some e =>
      simp only at hL ⊢
      refine h2.move (r := TrkRel.of_eq rfl) (e_dead := rfl) (e_raised := rfl) (e_ready := rfl) (e_orig := rfl)
        (e_pre := rfl) (t_res := fun hp => by simp [Pc.excPath, Pc.inExc, Pc.inAbort] at hp) (a_up := id)
        (a_new := Or.inl) (x_up := id) (x_new := Or.inl) (c_abort := fun _ => rfl) (c_exc := fun _ => rfl)
        (c_path := fun hp => by simp [Pc.excPath, Pc.inExc, Pc.inAbort] at hp)
        (c_unread := fun hp => by simp [Pc.excPath, Pc.inExc, Pc.inAbort] at hp)
        (r_prefix := fun hp => by simp [Pc.excPath, Pc.inExc, Pc.inAbort] at hp)
        (r_out := fun hp => by simp [Pc.excPath, Pc.inExc, Pc.inAbort] at hp) (r_npop := h2.D.nPopLe)
        (r_jobs := fun hp => by simp [Pc.beforeFinW] at hp)
        (c_first := fun _ hi => Or.inl ⟨by rw [hpc]; rfl, hi⟩) (c_orig := fun _ => by rw [hpc]; rfl)
        (c_loop := fun _ _ _ => Or.inl (by rw [hpc]; rfl)) (o_ret := fun l hl => by simp at hl)
        (o_raised := fun x hx => Or.inr (by simp at hx; subst hx; exact hL)) (o_none := fun hp => absurd rfl hp)
        (hloc := by simp [LocOK])
    | none =>
      simp only at hL ⊢
      obtain ⟨hE, hNE, hrem, hremS⟩ := hL
      cases rem with
      | nil =>
        simp only [tailNext]
        refine h2.move (r := TrkRel.of_eq (by simp)) (e_dead := by simp) (e_raised := by simp) (e_ready := by simp)
          (e_orig := by simp) (e_pre := by simp) (t_res := fun hp => by simp [Pc.excPath, Pc.inExc, Pc.inAbort] at hp)
          (a_up := fun hh => by simpa using hh) (a_new := fun hh => Or.inl (by simpa using hh))
          (x_up := fun hh => by simpa using hh) (x_new := fun hh => Or.inl (by simpa using hh))
          (c_abort := fun _ => by simp [Pc.inAbort]) (c_exc := fun _ => by simp [Pc.inExc, Pc.inAbort])
          (c_path := fun hp => by simp [Pc.excPath, Pc.inExc, Pc.inAbort] at hp)
          (c_unread := fun hp => by simp [Pc.excPath, Pc.inExc, Pc.inAbort] at hp)
          (r_prefix := fun hp => by simp [Pc.excPath, Pc.inExc, Pc.inAbort] at hp)
          (r_out := fun hp => by simp [Pc.excPath, Pc.inExc, Pc.inAbort] at hp)
          (r_npop := by simpa using h2.D.nPopLe) (r_jobs := fun hp => by simp [Pc.beforeFinW] at hp)
          (c_first := fun _ hi => Or.inl ⟨by rw [hpc]; rfl, by simpa using hi⟩) (c_orig := fun _ => by rw [hpc]; rfl)
          (c_loop := fun _ _ _ => Or.inl (by rw [hpc]; rfl)) (o_ret := ?_)
          (o_raised := fun x hx => by simp at hx) (o_none := fun hp => by simp at hp) (hloc := by simp [LocOK])
        intro l hl
        simp only [finishRet_outcome, Option.some.injEq, Outcome.ret.injEq] at hl
        refine Or.inr ⟨hE, fun hs => ?_⟩
        have h0 := hremS hs
        have hlen : s.trk.length ≤ s.nPop := by
          have := congrArg List.length h0
          simp at this; omega
        have hall := exit_allItems h h2 hE.1 (hNE hs) hE.2 (by rw [hpc]; rfl) (by rw [hpc]; rfl) (by rw [hpc]; rfl)
          (by rw [hpc]; rfl)
        refine ⟨?_, hNE hs, hall.1, hall.2.2.2.1, hall.2.2.2.2⟩
        rw [← hl, h2.D.out (by rw [hpc]; rfl), hun, flatten_take_all _ _ hlen]
        exact hall.1
      | cons i rest =>
        simp only [tailNext]
        have hrr : i :: rest = List.range' s.nPop (s.trk.length - s.nPop) := by
          rcases hrem with h1 | h1
          · cases h1
          · exact h1
        obtain ⟨ei, _, _⟩ := range'_cons_inv hrr.symm
        have hun' : unread { s with jobs := [], running := false, pc := Pc.tailStatus i rest } = s.nPop := by
          simp [unread, ei]
        refine h2.move (r := TrkRel.of_eq rfl) (e_dead := rfl) (e_raised := rfl) (e_ready := rfl) (e_orig := rfl)
          (e_pre := rfl) (t_res := fun _ _ _ => rfl) (a_up := id) (a_new := Or.inl) (x_up := id) (x_new := Or.inl)
          (c_abort := by simp [hpc, Pc.inAbort]) (c_exc := by simp [hpc, Pc.inExc, Pc.inAbort])
          (c_path := by simp [hpc, Pc.excPath, Pc.inExc, Pc.inAbort])
          (c_unread := fun _ => by rw [hun, hun']; exact Nat.le_refl _)
          (r_prefix := fun _ j h1 h3 => by rw [hun] at h1; rw [hun'] at h3; omega)
          (r_out := fun _ => by rw [hun', ← hun]; exact h2.D.out (by rw [hpc]; rfl)) (r_npop := h2.D.nPopLe)
          (r_jobs := fun hp => by simp [Pc.beforeFinW] at hp)
          (c_first := fun _ hi => Or.inl ⟨by rw [hpc]; rfl, hi⟩) (c_orig := fun _ => by rw [hpc]; rfl)
          (c_loop := fun _ _ _ => Or.inl (by rw [hpc]; rfl)) (o_ret := fun l hl => Or.inl hl)
          (o_raised := fun x hx => Or.inl hx) (o_none := fun _ => h2.O.noOutcome hnd) (hloc := ?_)
        simp only [LocOK]
        exact ⟨(TrkRel.of_eq rfl).exited rfl rfl rfl hE, hNE, by subst ei; exact hrr⟩
  | tailStatus i rem =>
    simp only [LocOK, hpc] at hL
    obtain ⟨hE, hNE, hrr⟩ := hL
    have hnd : s.pc ≠ .done := by rw [hpc]; intro hh; cases hh
    have hun : unread s = i := by simp only [unread, hpc]
    obtain ⟨_, erem, hpos⟩ := range'_cons_inv hrr.symm
    have hil : i < s.trk.length := by omega
    have hmem := getT_mem s.trk i hil
    unfold stepCaller; simp only [hpc]
    have hstat : (getT s.trk i).status = .done ∨ (getT s.trk i).status = .error := by
      by_cases hne : (getT s.trk i).items = []
      · rcases (h.T _ hmem).shape with h1 | h1
        · exact absurd hne h1.1
        · exact Or.inr h1.2.1
      · have h0 := (h.T _ hmem).pcst
        rcases hE.1 _ hmem hne with hp | hp <;> rw [hp] at h0 <;> exact Or.inl h0
    rcases hstat with hst | hst
    · have hres := h2.R.done (by rw [hpc]; rfl) i (by rw [hun]; exact Nat.le_refl _) hil hst
      rw [returnOrRaise_done hst hres]
      simp only
      have hout : s.out ++ (getT s.trk i).items = ((s.trk.take (i + 1)).map (·.items)).flatten := by
        rw [flatten_take_succ _ _ hil, h2.D.out (by rw [hpc]; rfl), hun]
      cases rem with
      | nil =>
        simp only [tailNext]
        refine h2.move (r := (TrkRel.setResult s i .none).of_trk (by simp)) (e_dead := by simp) (e_raised := by simp)
          (e_ready := by simp) (e_orig := by simp) (e_pre := by simp)
          (t_res := fun hp => by simp [Pc.excPath, Pc.inExc, Pc.inAbort] at hp)
          (a_up := fun hh => by simpa using hh) (a_new := fun hh => Or.inl (by simpa using hh))
          (x_up := fun hh => by simpa using hh) (x_new := fun hh => Or.inl (by simpa using hh))
          (c_abort := fun _ => by simp [Pc.inAbort]) (c_exc := fun _ => by simp [Pc.inExc, Pc.inAbort])
          (c_path := fun hp => by simp [Pc.excPath, Pc.inExc, Pc.inAbort] at hp)
          (c_unread := fun hp => by simp [Pc.excPath, Pc.inExc, Pc.inAbort] at hp)
          (r_prefix := fun hp => by simp [Pc.excPath, Pc.inExc, Pc.inAbort] at hp)
          (r_out := fun hp => by simp [Pc.excPath, Pc.inExc, Pc.inAbort] at hp)
          (r_npop := by simpa using h2.D.nPopLe) (r_jobs := fun hp => by simp [Pc.beforeFinW] at hp)
          (c_first := fun _ hi => Or.inl ⟨by rw [hpc]; rfl, by simpa using hi⟩) (c_orig := fun _ => by rw [hpc]; rfl)
          (c_loop := fun _ _ _ => Or.inl (by rw [hpc]; rfl)) (o_ret := ?_)
          (o_raised := fun x hx => by simp at hx) (o_none := fun hp => by simp at hp) (hloc := by simp [LocOK])
        intro l hl
        simp only [finishRet_outcome, deliverVals_out, setTrk_out, Option.some.injEq, Outcome.ret.injEq] at hl
        refine Or.inr ⟨hE, fun hs => ?_⟩
        have hlen : s.trk.length ≤ i + 1 := by
          have := congrArg List.length hrr
          simp at this; omega
        have hall := exit_allItems h h2 hE.1 (hNE hs) hE.2 (by rw [hpc]; rfl) (by rw [hpc]; rfl) (by rw [hpc]; rfl)
          (by rw [hpc]; rfl)
        refine ⟨?_, hNE hs, hall.1, hall.2.2.2.1, hall.2.2.2.2⟩
        rw [← hl, hout, flatten_take_all _ _ hlen]
        exact hall.1
      | cons i' rest =>
        simp only [tailNext]
        obtain ⟨ei, erest, _⟩ := range'_cons_inv erem.symm
        have hun' : unread { deliverVals c (setTrk s i { getTrk s i with result := .none }) (getT s.trk i).items with
            pc := Pc.tailStatus i' rest } = i + 1 := by simp [unread, ei]
        refine h2.move (r := (TrkRel.setResult s i .none).of_trk (by simp)) (e_dead := by simp) (e_raised := by simp)
          (e_ready := by simp) (e_orig := by simp) (e_pre := by simp) (t_res := ?_)
          (a_up := fun hh => by simpa using hh) (a_new := fun hh => Or.inl (by simpa using hh))
          (x_up := fun hh => by simpa using hh) (x_new := fun hh => Or.inl (by simpa using hh))
          (c_abort := by simp [hpc, Pc.inAbort]) (c_exc := by simp [hpc, Pc.inExc, Pc.inAbort])
          (c_path := by simp [hpc, Pc.excPath, Pc.inExc, Pc.inAbort])
          (c_unread := fun _ => by rw [hun, hun']; omega) (r_prefix := ?_) (r_out := ?_)
          (r_npop := by simpa using h2.D.nPopLe) (r_jobs := fun hp => by simp [Pc.beforeFinW] at hp)
          (c_first := fun _ hi => Or.inl ⟨by rw [hpc]; rfl, by simpa using hi⟩) (c_orig := fun _ => by rw [hpc]; rfl)
          (c_loop := fun _ _ _ => Or.inl (by rw [hpc]; rfl)) (o_ret := fun l hl => Or.inl (by simpa using hl))
          (o_raised := fun x hx => Or.inl (by simpa using hx)) (o_none := fun _ => by simpa using h2.O.noOutcome hnd)
          (hloc := ?_)
        · intro _ j hj
          rw [hun'] at hj
          simp only [deliverVals_trk]
          exact setResult_result_ne s i j .none (by omega)
        · intro _ j h1 h3 _
          rw [hun] at h1; rw [hun'] at h3
          have : j = i := by omega
          subst this; exact hst
        · intro _
          rw [hun']
          simp only [deliverVals_out, setTrk_out]
          exact hout
        · simp only [LocOK]
          refine ⟨((TrkRel.setResult s i .none).of_trk (by simp)).exited (by simp) (by simp) (by simp) hE, ?_, ?_⟩
          · intro hs; exact ((TrkRel.setResult s i .none).of_trk (by simp)).noErr (hNE hs)
          · simp only [deliverVals_trk, setTrk_trk, List.length_set]
            subst ei
            rw [erem]
            congr 1
    · obtain ⟨e, hres, hleg⟩ := h2.R.error (by rw [hpc]; rfl) i (by rw [hun]; exact Nat.le_refl _) hil hst
      rw [returnOrRaise_error hst hres]
      simp only
      refine h2.move (r := (TrkRel.setResult s i .none).of_trk rfl) (e_dead := rfl) (e_raised := rfl)
        (e_ready := rfl) (e_orig := rfl) (e_pre := rfl)
        (t_res := fun hp => by simp [Pc.excPath, Pc.inExc, Pc.inAbort] at hp)
        (a_up := id) (a_new := Or.inl) (x_up := id) (x_new := Or.inl) (c_abort := fun _ => rfl)
        (c_exc := fun _ => rfl) (c_path := fun hp => by simp [Pc.excPath, Pc.inExc, Pc.inAbort] at hp)
        (c_unread := fun hp => by simp [Pc.excPath, Pc.inExc, Pc.inAbort] at hp)
        (r_prefix := fun hp => by simp [Pc.excPath, Pc.inExc, Pc.inAbort] at hp)
        (r_out := fun hp => by simp [Pc.excPath, Pc.inExc, Pc.inAbort] at hp) (r_npop := h2.D.nPopLe)
        (r_jobs := fun hp => by simp [Pc.beforeFinW] at hp)
        (c_first := fun _ hi => Or.inl ⟨by rw [hpc]; rfl, hi⟩) (c_orig := fun _ => by rw [hpc]; rfl)
        (c_loop := fun _ _ _ => Or.inl (by rw [hpc]; rfl)) (o_ret := fun l hl => by simp at hl)
        (o_raised := fun x hx => Or.inr (by simp at hx; subst hx; exact hleg)) (o_none := fun hp => absurd rfl hp)
        (hloc := by simp [LocOK])
  | dAcq k bs => exact dAcq_inv2 hc hpd h h2 he hpc

end JoblibModel.ParallelLock
