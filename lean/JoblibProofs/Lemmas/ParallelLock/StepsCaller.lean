import JoblibProofs.Lemmas.ParallelLock.Frame
/-!
M1L proofs — every atomic step of the caller thread preserves the core invariant.
-/
namespace JoblibModel.ParallelLock

@[simp] theorem afterDispatch_holding (c : Cfg) (k : DK) (r : Bool) : (afterDispatch c k r).holding = false := by
  cases k <;> cases r <;> simp only [afterDispatch] <;> first | rfl | (split <;> rfl)

@[simp] theorem afterDispatch_pre (c : Cfg) (k : DK) (r : Bool) : (afterDispatch c k r).preDispatch = false := by
  cases k <;> cases r <;> simp only [afterDispatch] <;> first | rfl | (split <;> rfl)

@[simp] theorem afterDispatch_ne_submit (c : Cfg) (k : DK) (r : Bool) (k' : DK) (j : Nat) :
    afterDispatch c k r ≠ .dSubmit k' j := by
  cases k <;> cases r <;> simp only [afterDispatch] <;> first | (intro h; cases h) | (split <;> (intro h; cases h))

/-- Updating only the `result` of a tracker. -/
theorem Inv.setResult {c : Cfg} {s : St} (h : Inv c s) (i : Nat) (r : Res) :
    Inv c (setTrk s i { getTrk s i with result := r }) := by
  by_cases hi : i < s.trk.length
  · have h0 := h.T _ (getT_mem _ _ hi)
    apply h.setT hi (t' := { getTrk s i with result := r }) (s' := setTrk s i { getTrk s i with result := r })
    · rfl
    · rfl
    · rfl
    · exact ⟨h0.shape, h0.pcst, h0.idleErr, h0.failed, h0.doneOk, h0.errFail⟩
    · rfl
    · rfl
    · rfl
    · rfl
    · exact id
    · rfl
    · exact fun _ _ _ hm => hm
    · show s.lockOwner = _
      cases hh : (getT s.trk i).pc.holding with
      | true => simpa [hh] using h.L.cb i hi hh
      | false => simp [hh]
    · intro h1 h2; simp_all
    · show s.nCompleted + _ = s.nCompleted + _; rfl
    · intro j hj
      have hp := h.U.cb i j hi hj
      refine ⟨hp, fun e => ?_⟩
      subst e
      have := hp.2.1
      simp only [getTrk_def] at this hj
      rw [this] at hj; cases hj
    · intro _; exact Or.inl ⟨by assumption, rfl⟩
  · have e : (setTrk s i { getTrk s i with result := r }).trk = s.trk := by
      simp [List.set_eq_of_length_le (Nat.le_of_not_lt hi)]
    apply h.callerStep (s' := setTrk s i { getTrk s i with result := r }) <;> first | rfl | exact e | skip
    · exact fun ha => Or.inl ha
    · exact fun _ _ _ hm => hm
    · show s.lockOwner = _
      cases hh : s.pc.holding with
      | true => simpa [hh] using h.L.caller hh
      | false => simp [hh]
    · intro h1 h2; simp_all
    · intro k j hk; exact h.U.caller k j hk
    · intro hp; exact ⟨hp, rfl, rfl, rfl⟩

theorem Inv.ror {c : Cfg} {s : St} (h : Inv c s) (i : Nat) :
    Inv c (returnOrRaise s i).1 ∧ (returnOrRaise s i).1.pc = s.pc ∧ (returnOrRaise s i).1.lockOwner = s.lockOwner ∧
      (returnOrRaise s i).1.log = s.log := by
  unfold returnOrRaise
  simp only
  split
  · exact ⟨h, rfl, rfl, rfl⟩
  · split
    · exact ⟨h.setResult i .none, rfl, rfl, rfl⟩
    · exact ⟨h.setResult i .none, rfl, rfl, rfl⟩
  · split
    · exact ⟨h.setResult i .none, rfl, rfl, rfl⟩
    · exact ⟨h.setResult i .none, rfl, rfl, rfl⟩


macro "cstep" h:ident hpc:ident : tactic =>
  `(tactic| (apply Inv.callerStep $h <;>
      first | rfl | simp [$hpc:ident, Pc.holding, Pc.preDispatch, finishRaise, finishRet, tailNext, deliverVals]))

macro "csteps" h:ident hpc:ident : tactic => `(tactic| ((repeat' split) <;> cstep $h $hpc))

theorem trkOK_parked {c : Cfg} {t : Tracker} (h0 : TrkOK c t) (hne : t.items ≠ []) (hst : t.status = .pending) :
    TrkOK c { t with pc := .parked } := by
  refine ⟨?_, hst, ?_, ?_, ?_, ?_⟩
  · rcases h0.shape with h1 | h1
    · exact Or.inl h1
    · exact absurd h1.1 hne
  · intro h1; cases h1
  · intro h1; cases h1
  · intro h1; rw [hst] at h1; cases h1
  · intro h1; rw [hst] at h1; cases h1

/-- `backend.submit` of the pending tracker `j` by a thread `t` that owns the lock and is at a marker pc. -/
theorem Inv.submit {c : Cfg} {s : St} (h : Inv c s) {t : Tid} {j : Nat} (hp : PendingSubmit s j)
    (hl : s.lockOwner = some t) (hcaller : ∀ k j', s.pc ≠ .dSubmit k j')
    (hcb : ∀ i, t = i + 1 → ∀ j', (getT s.trk i).pc ≠ .submitC j') : Inv c (doSubmit t j s) := by
  obtain ⟨hj, hidle, hst, hne⟩ := hp
  simp only [getTrk_def] at hidle hst hne
  have h0 := h.T _ (getT_mem _ _ hj)
  apply h.setT hj (t' := { getT s.trk j with pc := .parked }) (s' := doSubmit t j s)
  · rfl
  · rfl
  · rfl
  · exact trkOK_parked h0 hne hst
  · rfl
  · rfl
  · rfl
  · rfl
  · exact id
  · rfl
  · intro t' id l hm; simpa using hm
  · simp [CbPc.holding, hidle]
  · intro h1; cases h1
  · simp [CbPc.counted, hidle]
  · intro j' h1; cases h1
  · intro _
    refine Or.inr ⟨fun k j' hk _ => hcaller k j' hk, fun k j' hk hk' e => ?_⟩
    have := h.L.cb k hk (by simp only [getTrk_def, hk']; rfl)
    rw [hl] at this
    exact hcb k (by simpa using this) j' hk'

theorem stepCaller_inv {c : Cfg} {s : St} (h : Inv c s) (he : callerEnabled s = true) :
    Inv c (stepCaller c s) := by
  cases hpc : s.pc with
  | resetAcq => unfold stepCaller; simp only [hpc]; csteps h hpc
  | resetRel => unfold stepCaller; simp only [hpc]; cstep h hpc
  | wNDisp =>
    have fr := h.P (by rw [hpc]; rfl)
    unfold stepCaller; simp only [hpc]
    apply h.callerStep <;> first | rfl | simp [hpc, Pc.holding, Pc.preDispatch, fr.cnt.1]
  | wNComp =>
    have fr := h.P (by rw [hpc]; rfl)
    unfold stepCaller; simp only [hpc]
    apply h.callerStep <;> first | rfl | simp [hpc, Pc.holding, Pc.preDispatch, fr.cnt.2]
  | wExc0 => unfold stepCaller; simp only [hpc]; cstep h hpc
  | wAbort0 => unfold stepCaller; simp only [hpc]; cstep h hpc
  | readyAcq =>
    have fr := h.P (by rw [hpc]; rfl)
    unfold stepCaller; simp only [hpc]
    apply h.callerStep <;> first | rfl | simp [hpc, Pc.holding, Pc.preDispatch, fr.ready]
  | readyRel => unfold stepCaller; simp only [hpc]; cstep h hpc
  | wOrig => unfold stepCaller; simp only [hpc]; csteps h hpc
  | wIter0 => unfold stepCaller; simp only [hpc]; cstep h hpc
  | dPre k => unfold stepCaller; simp only [hpc]; cases k <;> simp only [afterDispatch] <;> csteps h hpc
  | dBs k => unfold stepCaller; simp only [hpc]; cstep h hpc
  | dAcq k bs =>
    unfold stepCaller; simp only [hpc]
    have hlk : s.lockOwner = none := by simpa [callerEnabled, hpc, Pc.isAcq] using he
    have h1 : Inv c { s with lockOwner := some 0, pc := .dIn k } := by
      apply h.callerStep <;> first | rfl | simp [hpc, Pc.holding, Pc.preDispatch, hlk]
    obtain ⟨s', r, hd, hcase⟩ := dispatchLocked_cases h1.S h1.C.readyNe 0 false bs
    rw [hd]
    obtain ⟨h2, hsub, hlo, hp⟩ := hcase.inv h1 rfl
    cases r with
    | submit j =>
      simp only
      apply h2.callerStep <;> first | rfl | simp [hp, hlo, Pc.holding, Pc.preDispatch]
      exact hsub _ rfl
    | ret b =>
      simp only
      apply h2.callerStep <;> first | rfl | simp [hp, hlo, Pc.holding, Pc.preDispatch]
  | dIn k => unfold stepCaller; simp only [hpc]; exact h
  | dSubmit k j =>
    unfold stepCaller; simp only [hpc]
    have hlk : s.lockOwner = some 0 := h.L.caller (by rw [hpc]; rfl)
    have hpend := h.U.caller k j hpc
    have h1 : Inv c { s with pc := .dIn k } := by
      apply h.callerStep <;> first | rfl | simp [hpc, Pc.holding, Pc.preDispatch, hlk]
    have h2 : Inv c (doSubmit 0 j { s with pc := .dIn k }) := by
      apply h1.submit (t := 0) hpend hlk
      · intro k' j' e; cases e
      · intro i e; cases e
    apply h2.callerStep <;> first | rfl | simp [Pc.holding, Pc.preDispatch]
  | dRel k r => unfold stepCaller; simp only [hpc]; cases k <;> cases r <;> simp only [afterDispatch] <;> csteps h hpc
  | itAcq => unfold stepCaller; simp only [hpc]; cstep h hpc
  | itRel => unfold stepCaller; simp only [hpc]; cstep h hpc
  | wIterAll => unfold stepCaller; simp only [hpc]; cstep h hpc
  | wtAbort => unfold stepCaller; simp only [hpc]; csteps h hpc
  | wtIter => unfold stepCaller; simp only [hpc]; csteps h hpc
  | wtNComp => unfold stepCaller; simp only [hpc]; cstep h hpc
  | wtNDisp nc => unfold stepCaller; simp only [hpc]; csteps h hpc
  | wtAbort2 => unfold stepCaller; simp only [hpc]; csteps h hpc
  | rtAbort => unfold stepCaller; simp only [hpc]; csteps h hpc
  | rtLen => unfold stepCaller; simp only [hpc]; csteps h hpc
  | rtHead => unfold stepCaller; simp only [hpc]; csteps h hpc
  | rtStatus i => unfold stepCaller; simp only [hpc]; csteps h hpc
  | sleep => unfold stepCaller; simp only [hpc]; cstep h hpc
  | popAcq => unfold stepCaller; simp only [hpc]; csteps h hpc
  | popRel i => unfold stepCaller; simp only [hpc]; cstep h hpc
  | resStatus i =>
    unfold stepCaller; simp only [hpc]
    obtain ⟨h1, hp, hl, hlog⟩ := h.ror i
    rw [hpc] at hp
    generalize returnOrRaise s i = x at *
    obtain ⟨s', r⟩ := x
    simp only at h1 hp hl hlog
    cases r with
    | error e => simp only; cstep h1 hp
    | ok l =>
      simp only
      apply h1.callerStep <;> first | rfl | simp [hp, Pc.holding, Pc.preDispatch, deliverVals]
      all_goals (split <;> simp)
  | refAcq => unfold stepCaller; simp only [hpc]; cstep h hpc
  | refRel e =>
    cases e with
    | none => unfold stepCaller; simp only [hpc]; cstep h hpc
    | some i => unfold stepCaller; simp only [hpc]; cstep h hpc
  | refStatus i =>
    unfold stepCaller; simp only [hpc]
    obtain ⟨h1, hp, hl, hlog⟩ := h.ror i
    rw [hpc] at hp
    generalize returnOrRaise s i = x at *
    obtain ⟨s', r⟩ := x
    simp only at h1 hp hl hlog
    cases r with
    | error e => simp only; cstep h1 hp
    | ok l => simp only; cstep h1 hp
  | excW e => unfold stepCaller; simp only [hpc]; cstep h hpc
  | abortW e => unfold stepCaller; simp only [hpc]; csteps h hpc
  | abortCall e =>
    unfold stepCaller; simp only [hpc]
    have h1 : Inv c (ev s .abort) := by
      apply h.callerStep <;> first | rfl | simp [hpc, Pc.holding, Pc.preDispatch]
    have h2 : Inv c (if c.abortDrops = true then dropParked (ev s .abort) else ev s .abort) := by
      split
      · exact h1.drop
      · exact h1
    have hp2 : (if c.abortDrops = true then dropParked (ev s .abort) else ev s .abort).pc = .abortCall e := by
      split <;> simp [hpc]
    apply h2.callerStep <;> first | rfl | simp [hp2, Pc.holding, Pc.preDispatch]
  | finExc e => unfold stepCaller; simp only [hpc]; csteps h hpc
  | finJobsR e => unfold stepCaller; simp only [hpc]; cstep h hpc
  | finJobsW e rem =>
    unfold stepCaller; simp only [hpc]
    cases e with
    | some e => simp only; cstep h hpc
    | none =>
      simp only
      cases rem with
      | nil =>
        simp only [tailNext, finishRet]
        apply h.callerStep <;> first | rfl | simp [hpc, Pc.holding, Pc.preDispatch]
        all_goals (split <;> simp)
      | cons i rest => simp only [tailNext]; cstep h hpc
  | tailStatus i rem =>
    unfold stepCaller; simp only [hpc]
    obtain ⟨h1, hp, hl, hlog⟩ := h.ror i
    rw [hpc] at hp
    generalize returnOrRaise s i = x at *
    obtain ⟨s', r⟩ := x
    simp only at h1 hp hl hlog
    cases r with
    | error e => simp only; cstep h1 hp
    | ok l =>
      simp only
      cases rem with
      | nil =>
        simp only [tailNext, finishRet]
        apply h1.callerStep <;> first | rfl | simp [hp, Pc.holding, Pc.preDispatch, deliverVals]
        all_goals (repeat' split) <;> simp
      | cons i rest =>
        simp only [tailNext]
        apply h1.callerStep <;> first | rfl | simp [hp, Pc.holding, Pc.preDispatch, deliverVals]
        all_goals (repeat' split) <;> simp
  | done => unfold stepCaller; simp only [hpc]; exact h

end JoblibModel.ParallelLock
