import JoblibProofs.Lemmas.ParallelLock.Live
/-!
M1L proofs — the third invariant `Inv3` (no lost wake-up): a tracker whose callback gave up (`dropped`, `done false`)
implies `_aborting`; `_iterating` implies `_original_iterator` alive; and while `_original_iterator` is alive and the
caller counts on the callbacks to go on dispatching ("torch needed") either `_aborting` is set or some batch still
carries the torch (is waiting for `submit`, parked in the backend, or its callback has not yet left `dispatch_next`).
-/
namespace JoblibModel.ParallelLock

/-- The callback of this tracker will still go through `dispatch_next` (unless an error intervenes). -/
def CbPc.torch : CbPc → Bool
  | .idle | .parked | .acqA | .retr | .relA true | .stats | .acqC | .bsC => true
  | _ => false

/-- The caller relies on callbacks to continue dispatching / to clear `_iterating`. -/
def TorchNeeded (s : St) : Prop :=
  s.iterating = true ∨ s.pc = .dRel .first true ∨ s.pc = .itAcq ∨ ∃ j, s.pc = .dSubmit .first j

def HasTorch (s : St) : Prop := ∃ t ∈ s.trk, t.items ≠ [] ∧ t.pc.torch = true

structure Inv3 (s : St) : Prop where
  callId : ∀ t ∈ s.trk, t.callId = s.callId
  dropped : ∀ t ∈ s.trk, t.pc = .dropped → s.aborting = true
  failedCb : ∀ t ∈ s.trk, (t.pc = .relA false ∨ t.pc = .done false) → s.aborting = true
  abortCall : ∀ e, s.pc = .abortCall e → s.aborting = true
  iterOrig : s.iterating = true → s.origAlive = true
  preOrig : s.pc.pastWOrig = false → s.origAlive = false ∧ s.iterating = false
  torch : s.origAlive = true → TorchNeeded s → s.aborting = true ∨ HasTorch s

theorem inv3_init : Inv3 init := by
  refine ⟨?_, ?_, ?_, ?_, ?_, ?_, ?_⟩ <;> simp [init]

/-- What `Inv3` reads of a tracker. -/
def trkKey (t : Tracker) : Nat × CbPc × List Nat := (t.callId, t.pc, t.items)

theorem mem_of_key {l l' : List Tracker} (h : l'.map trkKey = l.map trkKey) {t' : Tracker} (ht : t' ∈ l') :
    ∃ t ∈ l, t.callId = t'.callId ∧ t.pc = t'.pc ∧ t.items = t'.items := by
  have : trkKey t' ∈ l.map trkKey := by rw [← h]; exact List.mem_map_of_mem ht
  obtain ⟨t, ht, e⟩ := List.mem_map.mp this
  simp only [trkKey, Prod.mk.injEq] at e
  exact ⟨t, ht, e.1, e.2.1, e.2.2⟩

theorem HasTorch.of_key {s s' : St} (h : s'.trk.map trkKey = s.trk.map trkKey) (ht : HasTorch s) : HasTorch s' := by
  obtain ⟨t, hm, h1, h2⟩ := ht
  obtain ⟨t', hm', e1, e2, e3⟩ := mem_of_key h.symm hm
  exact ⟨t', hm', by rw [e3]; exact h1, by rw [e2]; exact h2⟩

/-- Transfer lemma for steps that leave callId / pc / items of every tracker unchanged. -/
theorem Inv3.sameKeys {s s' : St} (h3 : Inv3 s) (hkey : s'.trk.map trkKey = s.trk.map trkKey)
    (hcid : s'.callId = s.callId) (a_up : s.aborting = true → s'.aborting = true)
    (hac : ∀ e, s'.pc = .abortCall e → s'.aborting = true)
    (hio : s'.iterating = true → s'.origAlive = true)
    (hpre : s'.pc.pastWOrig = false → s'.origAlive = false ∧ s'.iterating = false)
    (htorch : s'.origAlive = true → TorchNeeded s' →
      (s.origAlive = true ∧ TorchNeeded s) ∨ s'.aborting = true ∨ HasTorch s') : Inv3 s' := by
  refine ⟨?_, ?_, ?_, hac, hio, hpre, ?_⟩
  · intro t' ht'
    obtain ⟨t, ht, e1, _, _⟩ := mem_of_key hkey ht'
    rw [← e1, hcid]; exact h3.callId t ht
  · intro t' ht' hp
    obtain ⟨t, ht, _, e2, _⟩ := mem_of_key hkey ht'
    exact a_up (h3.dropped t ht (by rw [e2]; exact hp))
  · intro t' ht' hp
    obtain ⟨t, ht, _, e2, _⟩ := mem_of_key hkey ht'
    exact a_up (h3.failedCb t ht (by rw [e2]; exact hp))
  · intro ho hn
    rcases htorch ho hn with ⟨h1, h2⟩ | h1 | h1
    · rcases h3.torch h1 h2 with h4 | h4
      · exact Or.inl (a_up h4)
      · exact Or.inr (h4.of_key hkey)
    · exact Or.inl h1
    · exact Or.inr h1

end JoblibModel.ParallelLock
