import JoblibProofs.Lemmas.ParallelLock.Basic
/-!
M1L proofs — the core (safety) invariant `Inv c s`: lock discipline, input-iterator bookkeeping, per-tracker
coherence, conservation of task ids, the two counters.  Preserved by EVERY step of EVERY thread and by every
environment action (`Steps*.lean`, `step_inv`).
-/
namespace JoblibModel.ParallelLock

/-- Configurations of the model's domain. -/
structure CfgOK (c : Cfg) : Prop where
  nj : 1 ≤ c.nj
  bs : ∀ b ∈ c.bs, 1 ≤ b

/-- The callback thread is inside a lock-protected segment (parked at a backend call while owning the lock). -/
def CbPc.holding : CbPc → Bool
  | .retr | .bsC | .submitC _ => true
  | _ => false

/-- The caller is inside a lock-protected segment. -/
def Pc.holding : Pc → Bool
  | .dSubmit _ _ | .dIn _ => true
  | _ => false

/-- The callback went through `n_completed_tasks += batch_size`. -/
def CbPc.counted : CbPc → Bool
  | .bsC | .submitC _ | .relC | .done true => true
  | _ => false

/-- The backend has completed the batch (its callback thread exists or has finished). -/
def CbPc.started : CbPc → Bool
  | .idle | .parked | .dropped => false
  | _ => true

/-- Caller program points before `_start` (nothing dispatched yet). -/
def Pc.preDispatch : Pc → Bool
  | .resetAcq | .resetRel | .wNDisp | .wNComp | .wExc0 | .wAbort0 | .readyAcq | .readyRel | .wOrig | .wIter0 => true
  | _ => false

/-- All task ids in trackers, in creation order. -/
def allItems (s : St) : List Nat := (s.trk.map (·.items)).flatten

/-- `Σ batch sizes` of the trackers whose callback went through the counter increment. -/
def countedSum (l : List Tracker) : Nat := (l.map (fun t => if t.pc.counted then t.items.length else 0)).sum

/-- The tracker registered for an error of the input iterable. -/
def IsErr (c : Cfg) (t : Tracker) : Prop :=
  t.items = [] ∧ t.status = .error ∧ t.pc = .idle ∧ c.iterfail.isSome = true

/-- Allowed combinations of callback pc and tracker status. -/
def pcStatusOK : CbPc → Status → Prop
  | .idle, st => st = .pending ∨ st = .error
  | .parked, st | .dropped, st | .acqA, st | .retr, st => st = .pending
  | .relA true, st => st = .done
  | .relA false, st => st = .pending ∨ st = .error
  | .stats, st | .acqC, st | .bsC, st | .submitC _, st | .relC, st | .done true, st => st = .done
  | .done false, st => st = .pending ∨ st = .error

/-- Per-tracker coherence. -/
structure TrkOK (c : Cfg) (t : Tracker) : Prop where
  shape : (t.items ≠ [] ∧ t.bsize = t.items.length) ∨ IsErr c t
  pcst : pcStatusOK t.pc t.status
  idleErr : t.pc = .idle → t.status = .error → IsErr c t
  failed : t.pc.started = true → t.failed = t.items.find? (fun id => c.fails.contains id)
  doneOk : t.status = .done → t.failed = none
  errFail : t.status = .error → t.items ≠ [] → ∃ id, t.failed = some id

structure LockInv (s : St) : Prop where
  caller : s.pc.holding = true → s.lockOwner = some 0
  cb : ∀ i, i < s.trk.length → (getTrk s i).pc.holding = true → s.lockOwner = some (i + 1)
  own0 : s.lockOwner = some 0 → s.pc.holding = true
  ownCb : ∀ i, s.lockOwner = some (i + 1) → i < s.trk.length ∧ (getTrk s i).pc.holding = true

/-- A tracker waiting for its `backend.submit`. -/
def PendingSubmit (s : St) (j : Nat) : Prop :=
  j < s.trk.length ∧ (getTrk s j).pc = .idle ∧ (getTrk s j).status = .pending ∧ (getTrk s j).items ≠ []

structure SubmitInv (s : St) : Prop where
  caller : ∀ k j, s.pc = .dSubmit k j → PendingSubmit s j
  cb : ∀ i j, i < s.trk.length → (getTrk s i).pc = .submitC j → PendingSubmit s j

structure SrcInv (c : Cfg) (s : St) : Prop where
  le : s.srcPos ≤ stopAt c
  raisedDead : s.srcRaised = true → s.srcDead = true
  deadAt : s.srcDead = true → s.srcPos = stopAt c
  raisedAt : s.srcRaised = true → c.iterfail = some s.srcPos
  exhausted : s.srcDead = true → s.srcRaised = false → s.srcPos = c.n ∧ ∀ f, c.iterfail = some f → c.n < f

structure ConsInv (s : St) : Prop where
  sorted : List.Pairwise (· < ·) (allItems s ++ s.ready.flatten)
  bound : ∀ x ∈ allItems s ++ s.ready.flatten, x < s.srcPos
  full : s.aborting = false → allItems s ++ s.ready.flatten = List.range' 0 s.srcPos
  readyNe : ∀ b ∈ s.ready, b ≠ []

structure CntInv (s : St) : Prop where
  disp : s.nDispTasks = (allItems s).length
  comp : s.nCompleted = countedSum s.trk

/-- Before `_start`: nothing has happened to the object yet. -/
structure Fresh (s : St) : Prop where
  trk : s.trk = []
  ready : s.ready = []
  src : s.srcPos = 0 ∧ s.srcDead = false ∧ s.srcRaised = false
  lock : s.lockOwner = none
  jobs : s.jobs = [] ∧ s.nPop = 0 ∧ s.out = []
  cnt : s.nDispTasks = 0 ∧ s.nCompleted = 0

structure Inv (c : Cfg) (s : St) : Prop where
  L : LockInv s
  U : SubmitInv s
  S : SrcInv c s
  T : ∀ t ∈ s.trk, TrkOK c t
  C : ConsInv s
  N : CntInv s
  P : s.pc.preDispatch = true → Fresh s
  logLocked : ∀ t id l, Ev.pull t id l ∈ s.log → l = true

theorem inv_init (c : Cfg) : Inv c init := by
  refine ⟨⟨?_, ?_, ?_, ?_⟩, ⟨?_, ?_⟩, ⟨?_, ?_, ?_, ?_, ?_⟩, ?_, ⟨?_, ?_, ?_, ?_⟩, ⟨?_, ?_⟩, ?_, ?_⟩ <;>
    simp [init, Pc.holding, allItems, countedSum, Pc.preDispatch]
  exact ⟨rfl, rfl, ⟨rfl, rfl, rfl⟩, rfl, ⟨rfl, rfl, rfl⟩, rfl, rfl⟩

end JoblibModel.ParallelLock
