import JoblibProofs.Lemmas.ParallelLock.Steps2Caller
import JoblibProofs.Lemmas.ParallelLock.Proj2
/-!
M1L proofs — the counting argument behind the normal exit of the retrieval loop, what the exit implies, and the
cases of `_return_or_raise`.
-/
namespace JoblibModel.ParallelLock

theorem allCounted : ∀ (l : List Tracker), countedSum l = ((l.map (·.items)).flatten).length →
    ∀ t ∈ l, t.items ≠ [] → t.pc.counted = true := by
  intro l
  induction l with
  | nil => intro _ t ht; cases ht
  | cons a r ih =>
    intro h t ht hne
    have hr := countedSum_le r
    simp only [countedSum, List.map_cons, List.sum_cons, List.flatten_cons, List.length_append] at h hr
    rcases List.mem_cons.mp ht with e | e
    · subst e
      cases hc : t.pc.counted with
      | true => rfl
      | false =>
        simp only [hc, Bool.false_eq_true, if_false] at h
        have : 0 < t.items.length := List.length_pos_iff.mpr hne
        omega
    · apply ih _ t e hne
      simp only [countedSum]
      split at h <;> omega

theorem allItems_ne_nil {s : St} {t : Tracker} (ht : t ∈ s.trk) (hne : t.items ≠ []) : allItems s ≠ [] := by
  intro h
  simp only [allItems, List.flatten_eq_nil_iff, List.mem_map] at h
  exact hne (h _ ⟨t, ht, rfl⟩)

/-- The caller read `n_completed_tasks ≥ n_dispatched_tasks` (at different times) after `_iterating = False`: every
batch has been counted and no callback can dispatch any more. -/
theorem quiet_of_counts {c : Cfg} {s : St} (h : Inv c s) (h2 : Inv2 c s) {nc : Nat} (h1 : nc ≤ s.nCompleted)
    (h3 : ¬ nc < s.nDispTasks) (ho : s.origAlive = false ∨ Stuck s) : Quiet s := by
  have hle := countedSum_le s.trk
  have heq : countedSum s.trk = ((s.trk.map (·.items)).flatten).length := by
    have e1 := h.N.disp
    have e2 := h.N.comp
    simp only [allItems] at e1
    omega
  have hall := allCounted s.trk heq
  intro t ht hne
  have hc := hall t ht hne
  cases hp : t.pc with
  | bsC =>
    exfalso
    have hoa := h2.I.bsC t ht (by rw [hp]; rfl)
    rcases ho with ho | ho
    · rw [hoa] at ho; cases ho
    · exact allItems_ne_nil ht hne ho.1
  | submitC j =>
    exfalso
    obtain ⟨i, hi, e⟩ := (mem_iff_getT _ _).mp ht
    have hpend := h.U.cb i j hi (by rw [getTrk_def, e]; exact hp)
    have hm := getT_mem _ _ hpend.1
    have := hall _ hm hpend.2.2.2
    have e' : (getT s.trk j).pc = .idle := hpend.2.1
    rw [e'] at this
    cases this
  | relC => exact Or.inl rfl
  | done b =>
    cases b with
    | true => exact Or.inr rfl
    | false => rw [hp] at hc; cases hc
  | idle => rw [hp] at hc; cases hc
  | parked => rw [hp] at hc; cases hc
  | dropped => rw [hp] at hc; cases hc
  | acqA => rw [hp] at hc; cases hc
  | retr => rw [hp] at hc; cases hc
  | relA b => rw [hp] at hc; cases hc
  | stats => rw [hp] at hc; cases hc
  | acqC => rw [hp] at hc; cases hc

/-- Under `Quiet` and `NoErr` every tracker is done. -/
theorem quiet_done {c : Cfg} {s : St} (h : Inv c s) (hq : Quiet s) (hne : NoErr s) :
    ∀ t ∈ s.trk, t.status = .done := by
  intro t ht
  have h0 := (h.T t ht).pcst
  rcases hq t ht (hne t ht) with hp | hp <;> rw [hp] at h0 <;> exact h0

/-- After a normal exit of the retrieval loop in a `Safe` configuration all the tasks have been dispatched and
completed: the trackers hold exactly `0 … n-1`. -/
theorem exit_allItems {c : Cfg} {s : St} (h : Inv c s) (h2 : Inv2 c s) (hq : Quiet s) (hne : NoErr s)
    (ho : s.origAlive = false ∨ Stuck s) (hpw : s.pc.pastWOrig = true) (hpl : s.pc.postLoop = true)
    (hna : s.pc.inAbort = false) (hnx : s.pc.inExc = false) :
    allItems s = List.range' 0 c.n ∧ s.aborting = false ∧ s.exception = false ∧ s.srcDead = true ∧
      s.srcRaised = false := by
  have hdone := quiet_done h hq hne
  have hnoerr : ¬ ∃ t ∈ s.trk, t.status = .error := by
    rintro ⟨t, ht, hs⟩; rw [hdone t ht] at hs; cases hs
  have hab : s.aborting = false := by
    cases ha : s.aborting with
    | false => rfl
    | true =>
      rcases h2.F.aborting ha with h1 | h1
      · exact absurd h1 hnoerr
      · rw [hna] at h1; cases h1
  have hex : s.exception = false := by
    cases ha : s.exception with
    | false => rfl
    | true =>
      rcases h2.F.exception ha with h1 | h1
      · exact absurd h1 hnoerr
      · rw [hnx] at h1; cases h1
  have hrd : s.ready = [] ∧ s.srcDead = true := by
    rcases ho with ho | ho
    · by_cases hm : c.pdMode = 1
      · exact h2.I.allDead hab hm hpl
      · exact h2.I.origDead hab hpw hm ho
    · exact ⟨ho.2.1, ho.2.2⟩
  have hnr : s.srcRaised = false := by
    cases hr : s.srcRaised with
    | false => rfl
    | true =>
      obtain ⟨t, ht, hi⟩ := h2.F.raised hr
      exact absurd hi (hne t ht)
  have hfull := h.C.full hab
  rw [hrd.1] at hfull
  simp only [List.flatten_nil, List.append_nil] at hfull
  rw [hfull, (h.S.exhausted hrd.2 hnr).1]
  exact ⟨rfl, hab, hex, hrd.2, hnr⟩

theorem returnOrRaise_done {s : St} {i : Nat} {l : List Nat} (hst : (getT s.trk i).status = .done)
    (hres : (getT s.trk i).result = .vals l) :
    returnOrRaise s i = (setTrk s i { getTrk s i with result := .none }, .ok l) := by
  unfold returnOrRaise
  simp only [getTrk_def, hres, hst]
  rfl

theorem returnOrRaise_error {s : St} {i : Nat} {e : Exc} (hst : (getT s.trk i).status = .error)
    (hres : (getT s.trk i).result = .exc e) :
    returnOrRaise s i = (setTrk s i { getTrk s i with result := .none }, .error e) := by
  unfold returnOrRaise
  simp only [getTrk_def, hres, hst]
  rfl

/-- `_return_or_raise` only clears the `_result` of tracker `i`. -/
theorem TrkRel.setResult (s : St) (i : Nat) (r : Res) : TrkRel s (setTrk s i { getTrk s i with result := r }) := by
  refine ⟨by simp, fun j => ?_, fun j => ?_, fun j => Or.inl ?_⟩ <;>
  · simp only [setTrk_trk, getTrk_def, getT_set]
    split
    · rename_i hh; rw [hh.1]
    · rfl

theorem setResult_result_ne (s : St) (i j : Nat) (r : Res) (h : j ≠ i) :
    (getT (setTrk s i { getTrk s i with result := r }).trk j).result = (getT s.trk j).result := by
  simp [getT_set_ne _ _ _ _ h]

theorem TrkRel.of_trk {s s1 s' : St} (r : TrkRel s s1) (h : s'.trk = s1.trk) : TrkRel s s' :=
  ⟨by rw [h]; exact r.len, fun j => by rw [h]; exact r.st j, fun j => by rw [h]; exact r.it j,
    fun j => by rw [h]; exact r.pc j⟩

theorem flatten_take_succ (l : List Tracker) (i : Nat) (hi : i < l.length) :
    ((l.take (i + 1)).map (·.items)).flatten = ((l.take i).map (·.items)).flatten ++ (getT l i).items := by
  have hg : getT l i = l[i] := by simp [getT, List.getD_eq_getElem?_getD, List.getElem?_eq_getElem hi]
  have hi' : i < (l.map (·.items)).length := by simpa using hi
  rw [hg, List.map_take, List.map_take, List.take_add_one, List.getElem?_eq_getElem hi']
  simp

theorem flatten_take_all (l : List Tracker) (n : Nat) (h : l.length ≤ n) :
    ((l.take n).map (·.items)).flatten = (l.map (·.items)).flatten := by
  rw [List.take_of_length_le h]


theorem TrkRel.drop (s : St) : TrkRel s (dropParked s) := by
  have hlen : (dropParked s).trk.length = s.trk.length := by simp
  have hg : ∀ j, getT (dropParked s).trk j =
      (fun t : Tracker => if t.pc == .parked then { t with pc := .dropped } else t) (getT s.trk j) := by
    intro j
    by_cases hj : j < s.trk.length
    · simp only [dropParked_trk]; exact getT_map _ _ _ hj
    · have h1 := getT_of_ge s.trk j (Nat.le_of_not_lt hj)
      have h2 := getT_of_ge (dropParked s).trk j (by rw [hlen]; exact Nat.le_of_not_lt hj)
      rw [h1, h2]; rfl
  refine ⟨hlen, fun j => ?_, fun j => ?_, fun j => ?_⟩
  · rw [hg]; simp only; split <;> rfl
  · rw [hg]; simp only; split <;> rfl
  · rw [hg]; simp only
    split
    · rename_i hp; exact Or.inr (Or.inl ⟨by simpa using hp, rfl⟩)
    · exact Or.inl rfl

theorem TrkRel.submit {s s' : St} {j : Nat} (hidle : (getT s.trk j).pc = .idle)
    (h : s'.trk = s.trk.set j { getT s.trk j with pc := .parked }) : TrkRel s s' := by
  refine ⟨by rw [h]; simp, fun k => ?_, fun k => ?_, fun k => ?_⟩
  · rw [h, getT_set]; split
    · rename_i hh; rw [hh.1]
    · rfl
  · rw [h, getT_set]; split
    · rename_i hh; rw [hh.1]
    · rfl
  · rw [h, getT_set]; split
    · rename_i hh; rw [hh.1]; exact Or.inr (Or.inr ⟨hidle, rfl⟩)
    · exact Or.inl rfl

theorem submit_result {s s' : St} {j : Nat} (h : s'.trk = s.trk.set j { getT s.trk j with pc := .parked }) (k : Nat) :
    (getT s'.trk k).result = (getT s.trk k).result := by
  rw [h, getT_set]; split
  · rename_i hh; rw [hh.1]
  · rfl

theorem TrkRel.trans_eq {s s1 s' : St} (r : TrkRel s s1) (h : s'.trk = s1.trk) : TrkRel s s' := r.of_trk h

end JoblibModel.ParallelLock
