import JoblibProofs.Lemmas.ParallelLock.StepsCaller
/-!
M1L proofs — every atomic step of a callback thread and the environment action `complete` preserve the core
invariant; `step_inv`, `run_inv`.
-/
namespace JoblibModel.ParallelLock

theorem DLCase.trk_append {c : Cfg} {t : Tid} {fo : Bool} {bs : Nat} {s s' : St} {r : DRes}
    (hc : DLCase c t fo bs s s' r) : ∃ new, s'.trk = s.trk ++ new := by
  cases hc with
  | aborting ha => exact ⟨[], by simp⟩
  | ready tasks rest ha hr htn => exact ⟨[_], rfl⟩
  | raised m evs dead pl ha hr hf hsd => exact ⟨[_], rfl⟩
  | empty evs dead raised pl ha hr hf => exact ⟨[], by simp⟩
  | pulled m evs dead raised pl tasks rest ha hr hf hm htn hrest hfl => exact ⟨[_], rfl⟩

/-- A change of fields the core invariant does not mention. -/
theorem Inv.congr {c : Cfg} {s s' : St} (h : Inv c s)
    (e0 : s'.log = s.log) (e1 : s'.srcPos = s.srcPos) (e2 : s'.srcDead = s.srcDead) (e3 : s'.srcRaised = s.srcRaised)
    (e4 : s'.trk = s.trk) (e5 : s'.ready = s.ready) (e6 : s'.aborting = s.aborting)
    (e7 : s'.nDispTasks = s.nDispTasks) (e9 : s'.nCompleted = s.nCompleted) (e10 : s'.lockOwner = s.lockOwner)
    (e11 : s'.pc = s.pc) (e12 : s'.jobs = s.jobs) (e13 : s'.nPop = s.nPop) (e14 : s'.out = s.out) : Inv c s' := by
  apply h.callerStep e1 e2 e3 e4 e5 (fun ha => Or.inl (by rw [← e6]; exact ha)) e7 (fun _ _ _ hm => by rw [← e0]; exact hm) e9
  · rw [e10, e11]
    cases hh : s.pc.holding with
    | true => simpa [hh] using h.L.caller hh
    | false => simp
  · intro h1 h2; rw [e11] at h1; simp_all
  · intro k j hk; rw [e11] at hk; exact h.U.caller k j hk
  · intro hp; rw [e11] at hp; exact ⟨hp, e12, e13, e14⟩

theorem cbEnabled_lt {s : St} {i : Nat} (he : cbEnabled s i = true) : i < s.trk.length := by
  by_cases hi : i < s.trk.length
  · exact hi
  · exfalso
    have : getTrk s i = default := by simp [getT_of_ge _ _ (Nat.le_of_not_lt hi)]
    unfold cbEnabled at he
    rw [this] at he
    have hd : (default : Tracker).pc = CbPc.idle := rfl
    rw [hd] at he
    cases he

/-- Moving the pc of the (active, normal) tracker `i`, keeping status and `failed`. -/
theorem trkOK_pc {c : Cfg} {t : Tracker} (h0 : TrkOK c t) (p : CbPc) (hact : t.pc ≠ .idle)
    (hst : pcStatusOK p t.status) (hs : p.started = true → t.pc.started = true) (hp : p ≠ .idle) :
    TrkOK c { t with pc := p } := by
  refine ⟨?_, hst, fun h1 => absurd h1 hp, fun h1 => h0.failed (hs h1), h0.doneOk, h0.errFail⟩
  rcases h0.shape with h1 | h1
  · exact Or.inl h1
  · exact absurd h1.2.2.1 hact

theorem trk_normal {c : Cfg} {t : Tracker} (h0 : TrkOK c t) (hact : t.pc ≠ .idle) :
    t.items ≠ [] ∧ t.bsize = t.items.length := by
  rcases h0.shape with h1 | h1
  · exact h1
  · exact absurd h1.2.2.1 hact


/-- Moving the pc of the active tracker `i` (status, items, `failed` kept). -/
theorem Inv.movePc {c : Cfg} {s s' : St} (h : Inv c s) {i : Nat} (hi : i < s.trk.length) (p : CbPc)
    (htrk : s'.trk = s.trk.set i { getT s.trk i with pc := p })
    (hfr : s'.pc = s.pc ∧ s'.srcPos = s.srcPos ∧ s'.srcDead = s.srcDead ∧ s'.srcRaised = s.srcRaised ∧
      s'.ready = s.ready ∧ s'.nDispTasks = s.nDispTasks ∧ s'.log = s.log)
    (hab : s'.aborting = false → s.aborting = false)
    (hact : (getT s.trk i).pc ≠ .idle) (hst : pcStatusOK p (getT s.trk i).status)
    (hs : p.started = true → (getT s.trk i).pc.started = true) (hp : p ≠ .idle)
    (hlock : s'.lockOwner = if p.holding then some (i + 1) else
      if (getT s.trk i).pc.holding then none else s.lockOwner)
    (hfree : p.holding = true → (getT s.trk i).pc.holding = false → s.lockOwner = none)
    (hcnt : s'.nCompleted + (if (getT s.trk i).pc.counted then (getT s.trk i).items.length else 0) =
      s.nCompleted + (if p.counted then (getT s.trk i).items.length else 0))
    (hptr : ∀ j, p = .submitC j → PendingSubmit s j) : Inv c s' := by
  have h0 := h.T _ (getT_mem _ _ hi)
  obtain ⟨f1, f2, f3, f4, f5, f6, f7⟩ := hfr
  exact h.setT hi htrk f1 rfl (trkOK_pc h0 p hact hst hs hp) f2 f3 f4 f5 hab f6
    (fun _ _ _ hm => by rw [← f7]; exact hm) hlock hfree hcnt
    (fun j hj => by
      have hpj := hptr j hj
      refine ⟨hpj, fun e => ?_⟩
      subst e
      exact hact hpj.2.1)
    (fun hidle => absurd hidle hact)


/-- End of `dispatch_next` for the thread of tracker `i` (at the marker pc `bsC`, owning the lock). -/
theorem cbFinish_inv {c : Cfg} {s : St} {i : Nat} (h : Inv c s) (hi : i < s.trk.length)
    (hpc : (getT s.trk i).pc = .bsC) (r : Bool) : Inv c (cbAfterDispatch i s r) := by
  have h0 := h.T _ (getT_mem _ _ hi)
  have hst : (getT s.trk i).status = .done := by have := h0.pcst; rw [hpc] at this; exact this
  unfold cbAfterDispatch
  cases r with
  | true =>
    exact h.movePc hi .relC rfl ⟨rfl, rfl, rfl, rfl, rfl, rfl, rfl⟩ id (by simp [hpc]) hst
      (by simp [hpc, CbPc.started]) (by simp) (by simp [hpc, CbPc.holding]) (by simp [CbPc.holding])
      (by simp [hpc, CbPc.counted]) (by simp)
  | false =>
    exact h.movePc hi .relC rfl ⟨rfl, rfl, rfl, rfl, rfl, rfl, rfl⟩ id (by simp [hpc]) hst
      (by simp [hpc, CbPc.started]) (by simp) (by simp [hpc, CbPc.holding]) (by simp [CbPc.holding])
      (by simp [hpc, CbPc.counted]) (by simp)

/-- `dispatch_one_batch(self._original_iterator)` inside `dispatch_next` for the thread of tracker `i`. -/
theorem cbDispatch_inv {c : Cfg} {s : St} {i : Nat} (h : Inv c s) (hi : i < s.trk.length)
    (hpc : (getT s.trk i).pc = .bsC) (hl : s.lockOwner = some (i + 1)) (bs : Nat) :
    Inv c (cbDispatchResult i (dispatchLocked c (i + 1) true bs s)) := by
  obtain ⟨s', r, hd, hcase⟩ := dispatchLocked_cases h.S h.C.readyNe (i + 1) true bs
  rw [hd]
  obtain ⟨h2, hsub, hlo, hp⟩ := hcase.inv h hl
  obtain ⟨new, hnew⟩ := hcase.trk_append
  have hi2 : i < s'.trk.length := by rw [hnew]; simp; omega
  have hg : getT s'.trk i = getT s.trk i := by rw [hnew]; exact getT_append_left _ _ _ hi
  have hpc2 : (getT s'.trk i).pc = .bsC := by rw [hg]; exact hpc
  have h0 := h2.T _ (getT_mem _ _ hi2)
  have hst : (getT s'.trk i).status = .done := by have := h0.pcst; rw [hpc2] at this; exact this
  cases r with
  | submit j =>
    simp only [cbDispatchResult]
    exact h2.movePc hi2 (.submitC j) rfl ⟨rfl, rfl, rfl, rfl, rfl, rfl, rfl⟩ id (by simp [hpc2]) hst
      (by simp [hpc2, CbPc.started]) (by simp) (by simp [CbPc.holding, hlo, hl]) (by simp [hpc2, CbPc.holding])
      (by simp [hpc2, CbPc.counted]) (by intro j' e; cases e; exact hsub _ rfl)
  | ret b =>
    simp only [cbDispatchResult]
    exact cbFinish_inv h2 hi2 hpc2 b

theorem parkedIds_spec {s : St} {k i : Nat} (h : (parkedIds s)[k]? = some i) :
    i < s.trk.length ∧ (getTrk s i).pc = .parked := by
  have hm : i ∈ parkedIds s := List.mem_of_getElem? h
  unfold parkedIds at hm
  rw [List.mem_filter, List.mem_range] at hm
  exact ⟨hm.1, by simpa using hm.2⟩

theorem complete_inv {c : Cfg} {s : St} {i : Nat} (h : Inv c s) (hi : i < s.trk.length)
    (hpc : (getTrk s i).pc = .parked) : Inv c (complete c i s) := by
  have hgt : getTrk s i = getT s.trk i := rfl
  rw [hgt] at hpc
  have h0 := h.T _ (getT_mem _ _ hi)
  have hst : (getT s.trk i).status = .pending := by have := h0.pcst; rw [hpc] at this; exact this
  have hnorm := trk_normal h0 (by simp [hpc])
  unfold complete
  simp only
  refine h.setT hi (t' := { getTrk s i with pc := .acqA, failed := (getTrk s i).items.find? (fun id => c.fails.contains id) }) rfl rfl rfl ?_ rfl rfl rfl rfl id rfl
    (fun _ _ _ hm => by simpa using hm) (by simp [hpc, CbPc.holding]) (by simp [CbPc.holding])
    (by simp [hpc, CbPc.counted]) (by simp) (fun hh => by rw [hpc] at hh; cases hh)
  refine ⟨Or.inl hnorm, hst, (fun hh => by cases hh), fun _ => rfl, ?_, ?_⟩
  · intro hh; rw [hgt, hst] at hh; cases hh
  · intro hh; rw [hgt, hst] at hh; cases hh

theorem stepCb_inv {c : Cfg} {s : St} {i : Nat} (h : Inv c s) (he : cbEnabled s i = true) :
    Inv c (stepCb c i s) := by
  have hi := cbEnabled_lt he
  have h0 := h.T _ (getT_mem _ _ hi)
  unfold stepCb
  simp only
  have hgt : getTrk s i = getT s.trk i := rfl
  cases hpc : (getTrk s i).pc with
  | acqA =>
    have hlk : s.lockOwner = none := by
      unfold cbEnabled at he; rw [hpc] at he; simpa using he
    rw [hgt] at hpc
    have hst : (getT s.trk i).status = .pending := by have := h0.pcst; rw [hpc] at this; exact this
    have hrel : Inv c (setCb s i (.relA false)) :=
      h.movePc hi (.relA false) rfl ⟨rfl, rfl, rfl, rfl, rfl, rfl, rfl⟩ id (by simp [hpc]) (Or.inl hst)
        (by simp [hpc, CbPc.started]) (by simp) (by simp [hpc, CbPc.holding]) (by simp [CbPc.holding])
        (by simp [hpc, CbPc.counted]) (by simp)
    simp only
    by_cases hcid : (s.callId != (getTrk s i).callId) = true
    · rw [if_pos hcid]; exact hrel
    · rw [if_neg hcid]
      by_cases hab : s.aborting = true
      · rw [if_pos hab]; exact hrel
      · rw [if_neg hab]
        exact h.movePc hi .retr rfl ⟨rfl, rfl, rfl, rfl, rfl, rfl, rfl⟩ id (by simp [hpc]) hst
          (by simp [hpc, CbPc.started]) (by simp) (by simp [CbPc.holding]) (fun _ _ => hlk)
          (by simp [hpc, CbPc.counted]) (by simp)
  | retr =>
    rw [hgt] at hpc
    have hst : (getT s.trk i).status = .pending := by have := h0.pcst; rw [hpc] at this; exact this
    have hnorm := trk_normal h0 (by simp [hpc])
    have hfl := h0.failed (by simp [hpc, CbPc.started])
    simp only
    have hne : ¬ ((getTrk s i).status != Status.pending) = true := by rw [hgt, hst]; decide
    rw [if_neg hne]
    cases hf : (getTrk s i).failed with
    | some id =>
      simp only
      refine h.setT hi (t' := { getTrk s i with status := .error, result := .exc (.task id), pc := .relA false, failed := some id })
        rfl rfl rfl ?_ rfl rfl rfl rfl (fun hh => by cases hh) rfl (fun _ _ _ hm => hm)
        (by simp [hpc, CbPc.holding]) (by simp [CbPc.holding]) (by simp [hpc, CbPc.counted]) (by simp)
        (fun hh => by rw [hpc] at hh; cases hh)
      exact ⟨Or.inl hnorm, Or.inr rfl, (fun hh => by cases hh), (fun _ => by rw [← hf]; exact hfl),
        (fun hh => by cases hh), fun _ _ => ⟨id, rfl⟩⟩
    | none =>
      simp only
      refine h.setT hi (t' := { getTrk s i with status := .done, result := .vals (getTrk s i).items, pc := .relA true, failed := none })
        rfl rfl rfl ?_ rfl rfl rfl rfl id rfl (fun _ _ _ hm => hm)
        (by simp [hpc, CbPc.holding]) (by simp [CbPc.holding]) (by simp [hpc, CbPc.counted]) (by simp)
        (fun hh => by rw [hpc] at hh; cases hh)
      exact ⟨Or.inl hnorm, rfl, (fun hh => by cases hh), (fun _ => by rw [← hf]; exact hfl), (fun _ => rfl),
        (fun hh => by cases hh)⟩
  | relA ok =>
    rw [hgt] at hpc
    simp only
    cases ok with
    | true =>
      have hst : (getT s.trk i).status = .done := by have := h0.pcst; rw [hpc] at this; exact this
      exact h.movePc hi .stats rfl ⟨rfl, rfl, rfl, rfl, rfl, rfl, rfl⟩ id (by simp [hpc]) hst
        (by simp [hpc, CbPc.started]) (by simp) (by simp [hpc, CbPc.holding]) (by simp [CbPc.holding])
        (by simp [hpc, CbPc.counted]) (by simp)
    | false =>
      have hst : (getT s.trk i).status = .pending ∨ (getT s.trk i).status = .error := by
        have := h0.pcst; rw [hpc] at this; exact this
      exact h.movePc hi (.done false) rfl ⟨rfl, rfl, rfl, rfl, rfl, rfl, rfl⟩ id (by simp [hpc]) hst
        (by simp [hpc, CbPc.started]) (by simp) (by simp [hpc, CbPc.holding]) (by simp [CbPc.holding])
        (by simp [hpc, CbPc.counted]) (by simp)
  | stats =>
    rw [hgt] at hpc
    have hst : (getT s.trk i).status = .done := by have := h0.pcst; rw [hpc] at this; exact this
    exact h.movePc hi .acqC rfl ⟨rfl, rfl, rfl, rfl, rfl, rfl, rfl⟩ id (by simp [hpc]) hst
      (by simp [hpc, CbPc.started]) (by simp) (by simp [hpc, CbPc.holding]) (by simp [CbPc.holding])
      (by simp [hpc, CbPc.counted]) (by simp)
  | acqC =>
    have hlk : s.lockOwner = none := by
      unfold cbEnabled at he; rw [hpc] at he; simpa using he
    rw [hgt] at hpc
    have hst : (getT s.trk i).status = .done := by have := h0.pcst; rw [hpc] at this; exact this
    have hnorm := trk_normal h0 (by simp [hpc])
    simp only
    by_cases ho : s.origAlive = true
    · rw [if_pos ho]
      have h1 : Inv c (setCb { s with lockOwner := some (i + 1), nCompleted := s.nCompleted + (getTrk s i).bsize } i .bsC) :=
        h.movePc hi .bsC rfl ⟨rfl, rfl, rfl, rfl, rfl, rfl, rfl⟩ id (by simp [hpc]) hst
          (by simp [hpc, CbPc.started]) (by simp) (by simp [CbPc.holding]) (fun _ _ => hlk)
          (by simp [hpc, CbPc.counted, hnorm.2]) (by simp)
      have hi1 : i < (setCb { s with lockOwner := some (i + 1), nCompleted := s.nCompleted + (getTrk s i).bsize } i .bsC).trk.length := by
        simpa using hi
      have hpc1 : (getT (setCb { s with lockOwner := some (i + 1), nCompleted := s.nCompleted + (getTrk s i).bsize } i .bsC).trk i).pc = .bsC := by
        simp [hi]
      have hl1 : (setCb { s with lockOwner := some (i + 1), nCompleted := s.nCompleted + (getTrk s i).bsize } i .bsC).lockOwner = some (i + 1) := rfl
      generalize setCb { s with lockOwner := some (i + 1), nCompleted := s.nCompleted + (getTrk s i).bsize } i .bsC = s1 at *
      by_cases hab : s1.aborting = true
      · rw [if_pos hab]; exact cbFinish_inv h1 hi1 hpc1 false
      · rw [if_neg hab]
        by_cases hau : c.bsAuto = true
        · rw [if_pos hau]; exact h1
        · rw [if_neg hau]; exact cbDispatch_inv h1 hi1 hpc1 hl1 _
    · rw [if_neg ho]
      exact h.movePc hi .relC rfl ⟨rfl, rfl, rfl, rfl, rfl, rfl, rfl⟩ id (by simp [hpc]) hst
        (by simp [hpc, CbPc.started]) (by simp) (by simp [hpc, CbPc.holding]) (by simp [CbPc.holding])
        (by simp [hpc, CbPc.counted, hnorm.2]) (by simp)
  | bsC =>
    rw [hgt] at hpc
    have hl : s.lockOwner = some (i + 1) := h.L.cb i hi (by rw [hgt, hpc]; rfl)
    simp only
    have h1 : Inv c { s with bsI := s.bsI + 1 } := h.congr rfl rfl rfl rfl rfl rfl rfl rfl rfl rfl rfl rfl rfl rfl
    exact cbDispatch_inv h1 hi hpc hl _
  | submitC j =>
    rw [hgt] at hpc
    have hl : s.lockOwner = some (i + 1) := h.L.cb i hi (by rw [hgt, hpc]; rfl)
    have hst : (getT s.trk i).status = .done := by have := h0.pcst; rw [hpc] at this; exact this
    have hpend := h.U.cb i j hi (by rw [hgt]; exact hpc)
    have hji : j ≠ i := by
      intro e; subst e
      have := hpend.2.1; rw [hgt, hpc] at this; cases this
    simp only
    have h1 : Inv c (setCb s i .bsC) :=
      h.movePc hi .bsC rfl ⟨rfl, rfl, rfl, rfl, rfl, rfl, rfl⟩ id (by simp [hpc]) hst
        (by simp [hpc, CbPc.started]) (by simp) (by simp [CbPc.holding, hl]) (by simp [hpc, CbPc.holding])
        (by simp [hpc, CbPc.counted]) (by simp)
    have hpend1 : PendingSubmit (setCb s i .bsC) j := by
      unfold PendingSubmit at hpend ⊢
      simp only [getTrk_def, setCb_trk, List.length_set, getT_set_ne _ _ _ _ hji]
      exact hpend
    have h2 : Inv c (doSubmit (i + 1) j (setCb s i .bsC)) := by
      apply h1.submit hpend1 hl
      · intro k j' e
        have hh : s.pc.holding = true := by
          have : s.pc = .dSubmit k j' := e
          rw [this]; rfl
        have := h.L.caller hh
        rw [hl] at this; cases this
      · intro i' e j'
        have : i' = i := (Nat.succ.inj e).symm
        subst this
        simp [hi]
    have hi2 : i < (doSubmit (i + 1) j (setCb s i .bsC)).trk.length := by simpa using hi
    have hpc2 : (getT (doSubmit (i + 1) j (setCb s i .bsC)).trk i).pc = .bsC := by
      simp [getT_set_ne _ _ _ _ (Ne.symm hji), hi]
    exact cbFinish_inv h2 hi2 hpc2 true
  | relC =>
    rw [hgt] at hpc
    have hst : (getT s.trk i).status = .done := by have := h0.pcst; rw [hpc] at this; exact this
    exact h.movePc hi (.done true) rfl ⟨rfl, rfl, rfl, rfl, rfl, rfl, rfl⟩ id (by simp [hpc]) hst
      (by simp [hpc, CbPc.started]) (by simp) (by simp [hpc, CbPc.holding]) (by simp [CbPc.holding])
      (by simp [hpc, CbPc.counted]) (by simp)
  | idle => exact h
  | parked => exact h
  | dropped => exact h
  | done b => exact h

/-- The core invariant is preserved by every action (threads and environment). -/
theorem step_inv {c : Cfg} {s : St} (h : Inv c s) (a : Act) : Inv c (step c s a) := by
  cases a with
  | thread t =>
    cases t with
    | zero =>
      simp only [step]
      split
      · rename_i he; exact stepCaller_inv h he
      · exact h
    | succ i =>
      simp only [step]
      split
      · rename_i he; exact stepCb_inv h he
      · exact h
  | complete k =>
    simp only [step]
    split
    · rename_i i hk
      obtain ⟨hi, hp⟩ := parkedIds_spec hk
      exact complete_inv h hi hp
    · exact h

theorem run_inv {c : Cfg} (sched : List Act) : ∀ {s : St}, Inv c s → Inv c (run c s sched) := by
  induction sched with
  | nil => intro s h; exact h
  | cons a r ih => intro s h; exact ih (step_inv h a)

end JoblibModel.ParallelLock
