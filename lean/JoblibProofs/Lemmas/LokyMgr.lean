import JoblibModel.LokyMgr
/-! Helper lemmas for C10 (kept apart from the property theorems): the futures table, the invariant
`Inv` of the executor state and its preservation by every event. -/
namespace JoblibModel.LokyMgr

/-! ### The futures table -/

theorem getElem?_setFut (fs : List FutRec) (wid i : Nat) (st : Fut) :
    (setFut fs wid st)[i]? =
      if i = wid then (fs[i]?).map (fun r => { r with st := st }) else fs[i]? := by
  unfold setFut
  split
  · rename_i r h
    have hlt : wid < fs.length := (List.getElem?_eq_some_iff.mp h).1
    by_cases hi : i = wid
    · subst hi
      obtain ⟨hl, he⟩ := List.getElem?_eq_some_iff.mp h
      simp [hlt, he]
    · simp [hi, List.getElem?_set]; intro h'; omega
  · rename_i h
    by_cases hi : i = wid
    · subst hi; simp [h]
    · simp [hi]

@[simp] theorem length_setFut (fs : List FutRec) (wid : Nat) (st : Fut) :
    (setFut fs wid st).length = fs.length := by
  unfold setFut; split <;> simp

@[simp] theorem length_failAll (wids : List Nat) (e : Exc) (fs : List FutRec) :
    (failAll fs wids e).length = fs.length := by
  unfold failAll
  induction wids generalizing fs with
  | nil => rfl
  | cons w ws ih => simp [List.foldl_cons, ih]

theorem getElem?_failAll (wids : List Nat) (e : Exc) (fs : List FutRec) (i : Nat) :
    (failAll fs wids e)[i]? =
      if i ∈ wids then (fs[i]?).map (fun r => { r with st := .exception e }) else fs[i]? := by
  unfold failAll
  induction wids generalizing fs with
  | nil => simp
  | cons w ws ih =>
    simp only [List.foldl_cons, ih, getElem?_setFut, List.mem_cons]
    by_cases h1 : i ∈ ws <;> by_cases h2 : i = w <;> simp [h1, h2]
    all_goals (cases fs[w]? <;> simp)

/-! ### Processes -/

/-- The workers `_adjust_process_count` starts. -/
def newWorkers (p : Nat) : Nat → List Worker
  | 0 => []
  | n + 1 => ⟨p, true, none, false, false⟩ :: newWorkers (p + 1) n

theorem spawn_eq (n : Nat) (s : State) :
    spawn n s = { s with processes := s.processes ++ newWorkers s.next_pid n,
                         next_pid := s.next_pid + n } := by
  induction n generalizing s with
  | zero => simp [spawn, newWorkers]
  | succ n ih =>
    simp only [spawn, ih, newWorkers, List.append_assoc, List.singleton_append]
    congr 1
    omega

theorem newWorkers_fresh (p n : Nat) : ∀ w ∈ newWorkers p n, w.alive = true ∧ w.current = none := by
  induction n generalizing p with
  | zero => simp [newWorkers]
  | succ n ih =>
    intro w hw
    simp only [newWorkers, List.mem_cons] at hw
    rcases hw with rfl | hw
    · simp
    · exact ih _ w hw

/-- A dead process `p` is (still) in the executor's `_processes`: its sentinel is in the wait set. -/
def DeadIn (s : State) (p : Nat) : Prop := ∃ w ∈ s.processes, w.pid = p ∧ w.alive = false

theorem mem_deadPids {ps : List Worker} {p : Nat} :
    p ∈ deadPids ps ↔ ∃ w ∈ ps, w.pid = p ∧ w.alive = false := by
  simp [deadPids]
  constructor
  · rintro ⟨w, ⟨h1, h2⟩, h3⟩; exact ⟨w, h1, h3, h2⟩
  · rintro ⟨w, h1, h3, h2⟩; exact ⟨w, ⟨h1, h2⟩, h3⟩

theorem updWorker_dead (ps : List Worker) (pid : Nat) (f : Worker → Worker)
    (hf : ∀ w, (f w).pid = w.pid ∧ (w.alive = false → (f w).alive = false))
    (p : Nat) (h : ∃ w ∈ ps, w.pid = p ∧ w.alive = false) :
    ∃ w ∈ updWorker ps pid f, w.pid = p ∧ w.alive = false := by
  obtain ⟨w, hw, hp, ha⟩ := h
  unfold updWorker
  refine ⟨if w.pid == pid then f w else w, List.mem_map.mpr ⟨w, hw, rfl⟩, ?_, ?_⟩
  · split
    · rw [(hf w).1]; exact hp
    · exact hp
  · split
    · exact (hf w).2 ha
    · exact ha

/-! ### The invariant -/

/-- A call item on its way (call queue, a worker's hands) belongs to a future with the same argument and,
while that future's work item is pending, its id is in `running_work_items`. -/
def ItemOk (s : State) (it : CallItem) : Prop :=
  (∃ r, s.futures[it.wid]? = some r ∧ r.arg = it.arg) ∧
  (it.wid ∈ s.pending_work_items → it.wid ∈ s.running_work_items)

/-- A complete message in the result pipe carries the value computed from the argument of ITS work id. -/
def MsgOk (fn : Nat → Nat) (s : State) : Msg → Prop
  | .result wid v =>
    (∃ r, s.futures[wid]? = some r ∧ v = fn r.arg) ∧
    (wid ∈ s.pending_work_items → wid ∈ s.running_work_items)
  | .taskExc wid =>
    (∃ r, s.futures[wid]? = some r) ∧ (wid ∈ s.pending_work_items → wid ∈ s.running_work_items)
  | _ => True

structure Inv (fn : Nat → Nat) (s : State) : Prop where
  pend_lt : ∀ wid ∈ s.pending_work_items, wid < s.futures.length
  unres_pend : ∀ (wid : Nat) (r : FutRec), s.futures[wid]? = some r → r.st.unresolved = true → wid ∈ s.pending_work_items
  ids_pend : s.mgr = .running ∨ s.mgr = .notStarted →
    ∀ wid ∈ s.work_ids, wid ∈ s.pending_work_items ∧ wid ∉ s.running_work_items
  res_ok : ∀ (wid : Nat) (r : FutRec) (v : Nat), s.futures[wid]? = some r → r.st = Fut.result v → v = fn r.arg
  cq_ok : ∀ it ∈ s.call_queue, ItemOk s it
  cur_ok : ∀ w ∈ s.processes, ∀ it, w.current = some it → ItemOk s it
  pipe_ok : ∀ m ∈ s.result_pipe, MsgOk fn s m
  not_crashed : s.mgr ≠ .crashed
  ids_lt : ∀ wid ∈ s.work_ids, wid < s.futures.length
  ids_nodup : s.work_ids.Nodup
  run_lt : ∀ wid ∈ s.running_work_items, wid < s.futures.length

/-- What every event guarantees about the three containers `ItemOk`/`MsgOk` look at. -/
structure Frame (s s' : State) : Prop where
  fut : ∀ (i : Nat) (r : FutRec), s.futures[i]? = some r → ∃ r' : FutRec, s'.futures[i]? = some r' ∧ r'.arg = r.arg
  pend : ∀ wid, wid ∈ s'.pending_work_items → wid ∈ s.pending_work_items ∨ s.futures[wid]? = none
  runn : ∀ wid, wid ∈ s.running_work_items → wid ∈ s'.pending_work_items → wid ∈ s'.running_work_items

theorem Frame.refl' {s s' : State} (h1 : s'.futures = s.futures)
    (h2 : s'.pending_work_items = s.pending_work_items)
    (h3 : s'.running_work_items = s.running_work_items) : Frame s s' := by
  refine ⟨?_, ?_, ?_⟩
  · intro i r h; exact ⟨r, by rw [h1]; exact h, rfl⟩
  · intro wid h; left; rw [← h2]; exact h
  · intro wid h _; rw [h3]; exact h

theorem Frame.item {s s' : State} (hF : Frame s s') {it : CallItem} (h : ItemOk s it) : ItemOk s' it := by
  obtain ⟨⟨r, hr, ha⟩, hp⟩ := h
  obtain ⟨r', hr', ha'⟩ := hF.fut _ _ hr
  refine ⟨⟨r', hr', by rw [ha', ha]⟩, ?_⟩
  intro hm
  rcases hF.pend _ hm with h1 | h1
  · exact hF.runn _ (hp h1) hm
  · rw [hr] at h1; cases h1

theorem Frame.msg {fn : Nat → Nat} {s s' : State} (hF : Frame s s') {m : Msg} (h : MsgOk fn s m) :
    MsgOk fn s' m := by
  cases m with
  | result wid v =>
    obtain ⟨⟨r, hr, hv⟩, hp⟩ := h
    obtain ⟨r', hr', ha'⟩ := hF.fut _ _ hr
    refine ⟨⟨r', hr', by rw [ha', hv]⟩, ?_⟩
    intro hm
    rcases hF.pend _ hm with h1 | h1
    · exact hF.runn _ (hp h1) hm
    · rw [hr] at h1; cases h1
  | taskExc wid =>
    obtain ⟨⟨r, hr⟩, hp⟩ := h
    obtain ⟨r', hr', _⟩ := hF.fut _ _ hr
    refine ⟨⟨r', hr'⟩, ?_⟩
    intro hm
    rcases hF.pend _ hm with h1 | h1
    · exact hF.runn _ (hp h1) hm
    · rw [hr] at h1; cases h1
  | pid p => trivial
  | remoteTb => trivial
  | unpicklable => trivial

/-- Assemble `Inv s'` from `Inv s`, a frame, and the fields that are not item-wise. -/
theorem Inv.of_frame {fn : Nat → Nat} {s s' : State} (h : Inv fn s) (hF : Frame s s')
    (hcq : ∀ it ∈ s'.call_queue, it ∈ s.call_queue ∨ ItemOk s' it)
    (hcur : ∀ w ∈ s'.processes, ∀ it, w.current = some it →
      (∃ w0 ∈ s.processes, w0.current = some it) ∨ ItemOk s' it)
    (hpipe : ∀ m ∈ s'.result_pipe, m ∈ s.result_pipe ∨ MsgOk fn s' m)
    (h1 : ∀ wid ∈ s'.pending_work_items, wid < s'.futures.length)
    (h2 : ∀ (wid : Nat) (r : FutRec), s'.futures[wid]? = some r → r.st.unresolved = true → wid ∈ s'.pending_work_items)
    (h3 : s'.mgr = .running ∨ s'.mgr = .notStarted →
      ∀ wid ∈ s'.work_ids, wid ∈ s'.pending_work_items ∧ wid ∉ s'.running_work_items)
    (h4 : ∀ (wid : Nat) (r : FutRec) (v : Nat), s'.futures[wid]? = some r → r.st = Fut.result v → v = fn r.arg)
    (h5 : s'.mgr ≠ .crashed)
    (h6 : ∀ wid ∈ s'.work_ids, wid < s'.futures.length)
    (h7 : s'.work_ids.Nodup)
    (h8 : ∀ wid ∈ s'.running_work_items, wid < s'.futures.length) : Inv fn s' := by
  refine ⟨h1, h2, h3, h4, ?_, ?_, ?_, h5, h6, h7, h8⟩
  · intro it hit
    rcases hcq it hit with h' | h'
    · exact hF.item (h.cq_ok it h')
    · exact h'
  · intro w hw it hc
    rcases hcur w hw it hc with ⟨w0, hw0, hc0⟩ | h'
    · exact hF.item (h.cur_ok w0 hw0 it hc0)
    · exact h'
  · intro m hm
    rcases hpipe m hm with h' | h'
    · exact hF.msg (h.pipe_ok m h')
    · exact h'

theorem inv_init (fn : Nat → Nat) (mw qs fp : Nat) : Inv fn (State.init mw qs fp) := by
  refine ⟨?_, ?_, ?_, ?_, ?_, ?_, ?_, ?_, ?_, ?_, ?_⟩ <;> simp [State.init]

/-! ### Preservation -/


theorem setFut_fut (fs : List FutRec) (wid : Nat) (st : Fut) (i : Nat) (r : FutRec)
    (hi : fs[i]? = some r) : ∃ r' : FutRec, (setFut fs wid st)[i]? = some r' ∧ r'.arg = r.arg := by
  simp only [getElem?_setFut]
  split
  · exact ⟨{ r with st := st }, by simp [hi], rfl⟩
  · exact ⟨r, hi, rfl⟩

theorem failAll_fut (fs : List FutRec) (wids : List Nat) (e : Exc) (i : Nat) (r : FutRec)
    (hi : fs[i]? = some r) : ∃ r' : FutRec, (failAll fs wids e)[i]? = some r' ∧ r'.arg = r.arg := by
  simp only [getElem?_failAll]
  split
  · exact ⟨{ r with st := .exception e }, by simp [hi], rfl⟩
  · exact ⟨r, hi, rfl⟩

theorem inv_enqueue {fn : Nat → Nat} {s : State} {wid : Nat} {rest : List Nat} {r : FutRec}
    (h : Inv fn s) (hm : s.mgr = .running) (hids : s.work_ids = wid :: rest)
    (hwp : wid ∈ s.pending_work_items) (hr0 : s.futures[wid]? = some r) :
    Inv fn (enqueue s wid rest r) := by
  have hnd : (wid :: rest).Nodup := hids ▸ h.ids_nodup
  have hwr : wid ∉ rest := (List.nodup_cons.mp hnd).1
  apply h.of_frame
  · refine ⟨?_, ?_, ?_⟩
    · intro i r' hi; exact setFut_fut _ _ _ i r' hi
    · intro w hw; exact Or.inl hw
    · intro w hw _; simp [enqueue, hw]
  · intro it hit
    simp only [enqueue, List.mem_append, List.mem_singleton] at hit
    rcases hit with hit | rfl
    · exact Or.inl hit
    · right
      refine ⟨⟨{ r with st := .running }, ?_, rfl⟩, ?_⟩
      · simp [enqueue, getElem?_setFut, hr0]
      · intro _; simp [enqueue]
  · intro w hw it hc; exact Or.inl ⟨w, hw, hc⟩
  · intro m hm; exact Or.inl hm
  · intro w hw; simpa [enqueue] using h.pend_lt w hw
  · intro i r' hi hu
    simp only [enqueue, getElem?_setFut] at hi
    split at hi
    · rename_i heq; subst heq; exact hwp
    · exact h.unres_pend i r' hi hu
  · intro _ w hw
    simp only [enqueue] at hw
    have := h.ids_pend (Or.inl hm) w (by rw [hids]; simp [hw])
    refine ⟨this.1, ?_⟩
    simp only [enqueue, List.mem_append, List.mem_singleton, not_or]
    exact ⟨this.2, fun e => hwr (e ▸ hw)⟩
  · intro i r' v hi hv
    simp only [enqueue, getElem?_setFut] at hi
    split at hi
    · rename_i heq; subst heq; rw [hr0] at hi; simp at hi; subst hi; simp at hv
    · exact h.res_ok i r' v hi hv
  · exact h.not_crashed
  · intro w hw
    simp only [enqueue] at hw
    simpa [enqueue] using h.ids_lt w (by rw [hids]; simp [hw])
  · simpa [enqueue] using (List.nodup_cons.mp hnd).2
  · intro w hw
    simp only [enqueue, List.mem_append, List.mem_singleton] at hw
    rcases hw with hw | rfl
    · simpa [enqueue] using h.run_lt w hw
    · simpa [enqueue] using h.pend_lt _ hwp

/-- What `add_call_item_to_queue` never touches. -/
theorem addCallItemsLoop_same (ids : List Nat) (s : State) :
    (addCallItemsLoop ids s).processes = s.processes ∧
    (addCallItemsLoop ids s).result_pipe = s.result_pipe ∧
    (addCallItemsLoop ids s).partialMsg = s.partialMsg ∧
    (addCallItemsLoop ids s).wakeups = s.wakeups ∧
    (addCallItemsLoop ids s).flags = s.flags ∧
    (addCallItemsLoop ids s).pending_work_items = s.pending_work_items ∧
    (addCallItemsLoop ids s).max_workers = s.max_workers ∧
    (addCallItemsLoop ids s).next_pid = s.next_pid := by
  induction ids generalizing s with
  | nil => simp [addCallItemsLoop]
  | cons wid rest ih =>
    unfold addCallItemsLoop
    split
    · simp
    · split
      · split
        · rename_i r _
          simpa [enqueue] using ih (enqueue s wid rest r)
        · simp [crash]
      · simp [crash]

theorem inv_addCallItemsLoop (fn : Nat → Nat) (ids : List Nat) (s : State)
    (hids : s.work_ids = ids) (h : Inv fn s) (hr : s.mgr = .running) :
    Inv fn (addCallItemsLoop ids s) ∧ (addCallItemsLoop ids s).mgr = .running := by
  induction ids generalizing s with
  | nil => simp [addCallItemsLoop, h, hr]
  | cons wid rest ih =>
    have hwp : wid ∈ s.pending_work_items := (h.ids_pend (Or.inl hr) wid (by rw [hids]; simp)).1
    have hlt := h.pend_lt wid hwp
    obtain ⟨r, hr0⟩ : ∃ r, s.futures[wid]? = some r := ⟨s.futures[wid], by simp [hlt]⟩
    unfold addCallItemsLoop
    split
    · exact ⟨h, hr⟩
    · simp only [hr0]
      exact ih _ rfl (inv_enqueue h hr hids hwp hr0) hr

theorem inv_addCallItems {fn : Nat → Nat} {s : State} (h : Inv fn s) (hr : s.mgr = .running) :
    Inv fn (addCallItems s) ∧ (addCallItems s).mgr = .running :=
  inv_addCallItemsLoop fn s.work_ids s rfl h hr

/-- Through `add_call_item_to_queue` a future keeps its argument and its state, or is set running. -/
theorem addCallItemsLoop_futures (ids : List Nat) (s : State) (i : Nat) (r : FutRec)
    (hi : s.futures[i]? = some r) :
    ∃ r' : FutRec, (addCallItemsLoop ids s).futures[i]? = some r' ∧ r'.arg = r.arg ∧
      (r'.st = r.st ∨ r'.st = .running) := by
  induction ids generalizing s r with
  | nil => exact ⟨r, by simp [addCallItemsLoop, hi], rfl, Or.inl rfl⟩
  | cons wid rest ih =>
    unfold addCallItemsLoop
    split
    · exact ⟨r, hi, rfl, Or.inl rfl⟩
    · split
      · split
        · rename_i r0 hr0
          by_cases hiw : i = wid
          · subst hiw
            obtain ⟨r', h1, h2, h3⟩ := ih (enqueue s i rest r0) { r with st := .running }
              (by simp [enqueue, getElem?_setFut, hi])
            exact ⟨r', h1, h2, Or.inr (by rcases h3 with h3 | h3 <;> simpa using h3)⟩
          · exact ih (enqueue s wid rest r0) r (by simp [enqueue, getElem?_setFut, hiw, hi])
        · exact ⟨r, by simp [crash, hi], rfl, Or.inl rfl⟩
      · exact ⟨r, by simp [crash, hi], rfl, Or.inl rfl⟩


/-- Changing only containers `Inv` does not look at, or shrinking the pipe / call queue / processes. -/
theorem Inv.of_same {fn : Nat → Nat} {s s' : State} (h : Inv fn s)
    (e1 : s'.futures = s.futures) (e2 : s'.pending_work_items = s.pending_work_items)
    (e3 : s'.running_work_items = s.running_work_items) (e4 : s'.work_ids = s.work_ids)
    (hcq : ∀ it ∈ s'.call_queue, it ∈ s.call_queue ∨ ItemOk s' it)
    (hcur : ∀ w ∈ s'.processes, ∀ it, w.current = some it →
      (∃ w0 ∈ s.processes, w0.current = some it) ∨ ItemOk s' it)
    (hpipe : ∀ m ∈ s'.result_pipe, m ∈ s.result_pipe ∨ MsgOk fn s' m)
    (hm : s'.mgr = s.mgr ∨ s'.mgr = .exited ∨ (s.mgr = .notStarted ∧ s'.mgr = .running)) : Inv fn s' := by
  apply h.of_frame (Frame.refl' e1 e2 e3) hcq hcur hpipe
  · rw [e1, e2]; exact h.pend_lt
  · rw [e1, e2]; exact h.unres_pend
  · intro hm'
    rw [e2, e3, e4]
    apply h.ids_pend
    rcases hm with hm | hm | ⟨hm, _⟩
    · rw [← hm]; exact hm'
    · rw [hm] at hm'; rcases hm' with h' | h' <;> cases h'
    · exact Or.inr hm
  · rw [e1]; exact h.res_ok
  · rcases hm with hm | hm | ⟨_, hm⟩
    · rw [hm]; exact h.not_crashed
    · rw [hm]; intro h'; cases h'
    · rw [hm]; intro h'; cases h'
  · rw [e1, e4]; exact h.ids_lt
  · rw [e4]; exact h.ids_nodup
  · rw [e1, e3]; exact h.run_lt

theorem inv_received {fn : Nat → Nat} {s : State} (h : Inv fn s) (rest : List Msg)
    (hsub : ∀ m ∈ rest, m ∈ s.result_pipe) : Inv fn (received s rest) :=
  h.of_same rfl rfl rfl rfl (fun _ hit => Or.inl hit) (fun w hw _ hc => Or.inl ⟨w, hw, hc⟩)
    (fun m hm => Or.inl (hsub m hm)) (Or.inl rfl)

theorem inv_complete {fn : Nat → Nat} {s : State} {wid : Nat} {st : Fut} (h : Inv fn s)
    (hrun : wid ∈ s.running_work_items) (hres : st.unresolved = false)
    (hval : ∀ v r, st = .result v → s.futures[wid]? = some r → v = fn r.arg) :
    Inv fn (complete s wid st) := by
  apply h.of_frame
  · refine ⟨?_, ?_, ?_⟩
    · intro i r' hi; exact setFut_fut _ _ _ i r' hi
    · intro w hw; left; simp only [complete, List.mem_filter] at hw; exact hw.1
    · intro w hw hp
      simp only [complete, List.mem_filter, bne_iff_ne] at hp
      exact (List.mem_erase_of_ne hp.2).mpr hw
  · intro it hit; exact Or.inl hit
  · intro w hw it hc; exact Or.inl ⟨w, hw, hc⟩
  · intro m hm; exact Or.inl hm
  · intro w hw
    simp only [complete, List.mem_filter] at hw
    simpa [complete] using h.pend_lt w hw.1
  · intro i r' hi hu
    simp only [complete, getElem?_setFut] at hi
    split at hi
    · rename_i heq; subst heq
      cases hx : s.futures[i]? with
      | none => rw [hx] at hi; simp at hi
      | some r0 => rw [hx] at hi; simp at hi; subst hi; simp [hres] at hu
    · rename_i hne
      simp only [complete, List.mem_filter, bne_iff_ne]
      exact ⟨h.unres_pend i r' hi hu, hne⟩
  · intro hm w hw
    have := h.ids_pend hm w hw
    have hne : w ≠ wid := fun e => this.2 (e ▸ hrun)
    simp only [complete, List.mem_filter, bne_iff_ne]
    exact ⟨⟨this.1, hne⟩, fun hx => this.2 (List.mem_of_mem_erase hx)⟩
  · intro i r' v hi hv
    simp only [complete, getElem?_setFut] at hi
    split at hi
    · rename_i heq; subst heq
      cases hx : s.futures[i]? with
      | none => rw [hx] at hi; simp at hi
      | some r0 =>
        rw [hx] at hi; simp at hi; subst hi
        simp at hv
        exact hval v r0 hv hx
    · exact h.res_ok i r' v hi hv
  · exact h.not_crashed
  · intro w hw; simpa [complete] using h.ids_lt w hw
  · exact h.ids_nodup
  · intro w hw
    simp only [complete] at hw
    simpa [complete] using h.run_lt w (List.mem_of_mem_erase hw)


theorem inv_reapWorker {fn : Nat → Nat} {s : State} (h : Inv fn s) (p : Nat) : Inv fn (reapWorker s p) := by
  have hfilt : Inv fn { s with processes := s.processes.filter (fun w => w.pid != p) } :=
    h.of_same rfl rfl rfl rfl (fun _ hit => Or.inl hit)
      (fun w hw _ hc => Or.inl ⟨w, (List.mem_filter.mp hw).1, hc⟩) (fun m hm => Or.inl hm) (Or.inl rfl)
  unfold reapWorker
  simp only
  split
  · unfold adjustProcessCount
    rw [spawn_eq]
    refine hfilt.of_same rfl rfl rfl rfl (fun _ hit => Or.inl hit) ?_ (fun m hm => Or.inl hm) (Or.inl rfl)
    intro w hw it hc
    simp only [List.mem_append] at hw
    rcases hw with hw | hw
    · exact Or.inl ⟨w, hw, hc⟩
    · have := (newWorkers_fresh _ _ w hw).2
      rw [this] at hc; cases hc
  · exact hfilt

theorem inv_flags {fn : Nat → Nat} {s : State} (h : Inv fn s) (f : Flags) : Inv fn { s with flags := f } :=
  h.of_same rfl rfl rfl rfl (fun _ hit => Or.inl hit) (fun w hw _ hc => Or.inl ⟨w, hw, hc⟩)
    (fun _ hm => Or.inl hm) (Or.inl rfl)

/-- `pending_work_items` failed and cleared, workers killed, thread returned. -/
theorem inv_fail_join {fn : Nat → Nat} {s : State} (h : Inv fn s) (e : Exc) :
    Inv fn (joinExecutorInternals (killWorkers (failPending s e))) := by
  apply h.of_frame
  · refine ⟨?_, ?_, ?_⟩
    · intro i r' hi; exact failAll_fut _ _ _ i r' hi
    · intro w hw; simp [joinExecutorInternals, killWorkers, failPending] at hw
    · intro w _ hw; simp [joinExecutorInternals, killWorkers, failPending] at hw
  · intro it hit; exact Or.inl hit
  · intro w hw; simp [joinExecutorInternals, killWorkers, failPending] at hw
  · intro m hm; exact Or.inl hm
  · intro w hw; simp [joinExecutorInternals, killWorkers, failPending] at hw
  · intro i r' hi hu
    simp only [joinExecutorInternals, killWorkers, failPending, getElem?_failAll] at hi
    split at hi
    · cases hx : s.futures[i]? with
      | none => rw [hx] at hi; simp at hi
      | some r0 => rw [hx] at hi; simp at hi; subst hi; simp [Fut.unresolved] at hu
    · rename_i hni; exact absurd (h.unres_pend i r' hi hu) hni
  · intro hm; simp [joinExecutorInternals] at hm
  · intro i r' v hi hv
    simp only [joinExecutorInternals, killWorkers, failPending, getElem?_failAll] at hi
    split at hi
    · cases hx : s.futures[i]? with
      | none => rw [hx] at hi; simp at hi
      | some r0 => rw [hx] at hi; simp at hi; subst hi; simp at hv
    · exact h.res_ok i r' v hi hv
  · simp [joinExecutorInternals]
  · intro w hw; simpa [joinExecutorInternals, killWorkers, failPending] using h.ids_lt w hw
  · exact h.ids_nodup
  · intro w hw; simpa [joinExecutorInternals, killWorkers, failPending] using h.run_lt w hw

theorem inv_terminateBroken {fn : Nat → Nat} {s : State} (h : Inv fn s) (e : Exc) :
    Inv fn (terminateBroken s e) := by
  unfold terminateBroken flagAsBroken
  exact inv_fail_join (inv_flags h _) e

theorem inv_join {fn : Nat → Nat} {s : State} (h : Inv fn s) : Inv fn (joinExecutorInternals s) :=
  h.of_same rfl rfl rfl rfl (fun _ hit => Or.inl hit) (fun w hw _ _ => by simp [joinExecutorInternals] at hw)
    (fun _ hm => Or.inl hm) (Or.inr (Or.inl rfl))

theorem inv_processResultItem {fn : Nat → Nat} {s : State} (h : Inv fn s) (m : Msg) (hm : MsgOk fn s m) :
    Inv fn (processResultItem s m) := by
  cases m with
  | pid p => exact inv_reapWorker h p
  | result wid v =>
    simp only [processResultItem]
    split
    · rename_i hp
      have hr := hm.2 hp
      rw [if_pos hr]
      apply inv_complete h hr rfl
      intro v' r hv hr'
      obtain ⟨⟨r0, hr0, hv0⟩, _⟩ := hm
      rw [hr0] at hr'; cases hr'; cases hv; exact hv0
    · exact h
  | taskExc wid =>
    simp only [processResultItem]
    split
    · rename_i hp
      have hr := hm.2 hp
      rw [if_pos hr]
      apply inv_complete h hr rfl
      intro v' r hv; cases hv
    · exact h
  | remoteTb => exact h
  | unpicklable => exact h

theorem inv_finishIteration {fn : Nat → Nat} {s : State} (h : Inv fn s) : Inv fn (finishIteration s).1 := by
  unfold finishIteration
  split
  · exact h
  · split
    · unfold flagExecutorShuttingDown
      simp only
      split
      · -- kill_workers: everything pending fails, the thread returns
        have : (killWorkers (failPending { s with flags := { s.flags with shutdown := true } } .shutdownExecutor)).pending_work_items = [] := rfl
        simp only [this, List.isEmpty_nil, if_true]
        exact inv_fail_join (inv_flags h _) _
      · split
        · exact inv_join (inv_flags h _)
        · exact inv_flags h _
    · exact h


theorem inv_managerStep {fn : Nat → Nat} {s : State} (h : Inv fn s) : Inv fn (managerStep s).1 := by
  unfold managerStep
  split
  · exact h
  · rename_i hr
    have hr : s.mgr = .running := by simpa using hr
    obtain ⟨h1, hr1⟩ := inv_addCallItems h hr
    have hnc : ¬ (addCallItems s).mgr = .crashed := by rw [hr1]; intro e; cases e
    simp only [hnc, if_false]
    split
    · rename_i _ m rest hpipe
      have hmem : ∀ x ∈ rest, x ∈ (addCallItems s).result_pipe := by
        intro x hx; rw [hpipe]; exact List.mem_cons_of_mem _ hx
      have h2 := inv_received h1 rest hmem
      have hmok : MsgOk fn (received (addCallItems s) rest) m :=
        (Frame.refl' rfl rfl rfl : Frame (addCallItems s) (received (addCallItems s) rest)).msg
          (h1.pipe_ok m (by rw [hpipe]; simp))
      split
      · exact inv_terminateBroken h2 _
      · exact inv_terminateBroken h2 _
      · exact inv_finishIteration (inv_processResultItem h2 _ hmok)
    · split
      · exact h1
      · exact h1
    · split
      · exact inv_finishIteration (inv_received h1 [] (by simp))
      · split
        · exact h1
        · exact inv_terminateBroken h1 _


theorem inv_adjust {fn : Nat → Nat} {s : State} (h : Inv fn s) : Inv fn (adjustProcessCount s) := by
  unfold adjustProcessCount
  rw [spawn_eq]
  refine h.of_same rfl rfl rfl rfl (fun _ hit => Or.inl hit) ?_ (fun _ hm => Or.inl hm) (Or.inl rfl)
  intro w hw it hc
  simp only [List.mem_append] at hw
  rcases hw with hw | hw
  · exact Or.inl ⟨w, hw, hc⟩
  · have := (newWorkers_fresh _ _ w hw).2
    rw [this] at hc; cases hc

theorem inv_register {fn : Nat → Nat} {s : State} (h : Inv fn s) (arg : Nat) : Inv fn (register s arg) := by
  apply h.of_frame
  · refine ⟨?_, ?_, ?_⟩
    · intro i r hi
      have hlt : i < s.futures.length := (List.getElem?_eq_some_iff.mp hi).1
      exact ⟨r, by simp [register, List.getElem?_append_left hlt, hi], rfl⟩
    · intro w hw
      simp only [register, List.mem_append, List.mem_singleton] at hw
      rcases hw with hw | rfl
      · exact Or.inl hw
      · right; simp
    · intro w hw _; exact hw
  · intro it hit; exact Or.inl hit
  · intro w hw it hc; exact Or.inl ⟨w, hw, hc⟩
  · intro m hm; exact Or.inl hm
  · intro w hw
    simp only [register, List.mem_append, List.mem_singleton] at hw
    simp only [register, List.length_append, List.length_singleton]
    rcases hw with hw | rfl
    · have := h.pend_lt w hw; omega
    · omega
  · intro i r hi hu
    simp only [register, List.mem_append, List.mem_singleton]
    by_cases hlt : i < s.futures.length
    · left
      simp only [register, List.getElem?_append_left hlt] at hi
      exact h.unres_pend i r hi hu
    · right
      have := (List.getElem?_eq_some_iff.mp hi).1
      simp only [register, List.length_append, List.length_singleton] at this
      omega
  · intro hm w hw
    simp only [register, List.mem_append, List.mem_singleton] at hw ⊢
    rcases hw with hw | rfl
    · have := h.ids_pend hm w hw
      exact ⟨Or.inl this.1, this.2⟩
    · refine ⟨Or.inr rfl, fun hx => ?_⟩
      have := h.run_lt _ hx; omega
  · intro i r v hi hv
    by_cases hlt : i < s.futures.length
    · simp only [register, List.getElem?_append_left hlt] at hi
      exact h.res_ok i r v hi hv
    · have hl := (List.getElem?_eq_some_iff.mp hi).1
      simp only [register, List.length_append, List.length_singleton] at hl
      have : i = s.futures.length := by omega
      subst this
      simp [register] at hi
      subst hi; simp at hv
  · exact h.not_crashed
  · intro w hw
    simp only [register, List.mem_append, List.mem_singleton] at hw
    simp only [register, List.length_append, List.length_singleton]
    rcases hw with hw | rfl
    · have := h.ids_lt w hw; omega
    · omega
  · simp only [register]
    apply List.nodup_append.mpr
    refine ⟨h.ids_nodup, by simp, ?_⟩
    intro a ha b hb
    simp at hb; subst hb
    have := h.ids_lt a ha; omega
  · intro w hw
    simp only [register, List.length_append, List.length_singleton]
    have := h.run_lt w hw; omega

theorem inv_startManager {fn : Nat → Nat} {s : State} (h : Inv fn s) : Inv fn (startManager s) := by
  refine h.of_same rfl rfl rfl rfl (fun _ hit => Or.inl hit) (fun w hw _ hc => Or.inl ⟨w, hw, hc⟩)
    (fun _ hm => Or.inl hm) ?_
  simp only [startManager]
  by_cases e : s.mgr = .notStarted
  · right; right; exact ⟨e, by simp [e]⟩
  · left; simp [e]

theorem inv_submit {fn : Nat → Nat} {s : State} (h : Inv fn s) (arg : Nat) : Inv fn (submit s arg).1 := by
  unfold submit
  split
  · exact h
  · split
    · exact h
    · simp only [ensureRunning]
      apply inv_startManager
      split
      · exact inv_adjust (inv_register h arg)
      · exact inv_register h arg

theorem inv_shutdown {fn : Nat → Nat} {s : State} (h : Inv fn s) (kw : Bool) : Inv fn (shutdown s kw) :=
  h.of_same rfl rfl rfl rfl (fun _ hit => Or.inl hit) (fun w hw _ hc => Or.inl ⟨w, hw, hc⟩)
    (fun _ hm => Or.inl hm) (Or.inl rfl)

theorem mem_updWorker {ps : List Worker} {pid : Nat} {f : Worker → Worker} {w' : Worker}
    (h : w' ∈ updWorker ps pid f) : ∃ w ∈ ps, w' = if w.pid == pid then f w else w := by
  simp only [updWorker, List.mem_map] at h
  obtain ⟨w, hw, e⟩ := h
  exact ⟨w, hw, e.symm⟩

theorem getWorker_mem {ps : List Worker} {pid : Nat} {w : Worker} (h : getWorker ps pid = some w) :
    w ∈ ps ∧ w.pid = pid := by
  unfold getWorker at h
  exact ⟨List.mem_of_find?_eq_some h, by simpa using List.find?_some h⟩

/-- Worker-side events: only `processes`, `call_queue` (shrinks), `result_pipe` (one message appended) and
`partialMsg` change. -/
theorem inv_worker_event {fn : Nat → Nat} {s s' : State} (h : Inv fn s)
    (e1 : s'.futures = s.futures) (e2 : s'.pending_work_items = s.pending_work_items)
    (e3 : s'.running_work_items = s.running_work_items) (e4 : s'.work_ids = s.work_ids)
    (e5 : s'.mgr = s.mgr)
    (hcq : ∀ it ∈ s'.call_queue, it ∈ s.call_queue)
    (hcur : ∀ w ∈ s'.processes, ∀ it, w.current = some it →
      (∃ w0 ∈ s.processes, w0.current = some it) ∨ it ∈ s.call_queue)
    (hpipe : ∀ m ∈ s'.result_pipe, m ∈ s.result_pipe ∨ MsgOk fn s m) : Inv fn s' := by
  have hF : Frame s s' := Frame.refl' e1 e2 e3
  refine h.of_same e1 e2 e3 e4 (fun it hit => Or.inl (hcq it hit)) ?_ ?_ (Or.inl e5)
  · intro w hw it hc
    rcases hcur w hw it hc with h' | h'
    · exact Or.inl h'
    · exact Or.inr (hF.item (h.cq_ok it h'))
  · intro m hm
    rcases hpipe m hm with h' | h'
    · exact Or.inl h'
    · exact Or.inr (hF.msg h')


theorem updWorker_cur {ps : List Worker} {pid : Nat} {f : Worker → Worker} {w' : Worker} {it : CallItem}
    (hw : w' ∈ updWorker ps pid f) (hc : w'.current = some it)
    (hf : ∀ w, (f w).current = some it → w.current = some it ∨ False) :
    ∃ w0 ∈ ps, w0.current = some it := by
  obtain ⟨w, hwm, e⟩ := mem_updWorker hw
  subst e
  split at hc
  · rcases hf w hc with h | h
    · exact ⟨w, hwm, h⟩
    · exact h.elim
  · exact ⟨w, hwm, hc⟩

theorem inv_step {fn : Nat → Nat} {s : State} (h : Inv fn s) (e : Event) : Inv fn (step fn s e) := by
  cases e with
  | submit arg => exact inv_submit h arg
  | shutdown kw => exact inv_shutdown h kw
  | mgr => exact inv_managerStep h
  | take pid =>
    simp only [step]
    split
    · rename_i w item rest hg hq
      split
      · refine inv_worker_event h rfl rfl rfl rfl rfl ?_ ?_ (fun m hm => Or.inl hm)
        · intro it hit; rw [hq]; exact List.mem_cons_of_mem _ hit
        · intro w' hw' it hc
          obtain ⟨w0, hw0, e⟩ := mem_updWorker hw'
          subst e
          split at hc
          · simp at hc; subst hc; right; rw [hq]; simp
          · exact Or.inl ⟨w0, hw0, hc⟩
      · exact h
    · exact h
  | unpickleFail pid =>
    simp only [step]
    split
    · rename_i w item rest hg hq
      split
      · refine inv_worker_event h rfl rfl rfl rfl rfl ?_ ?_ ?_
        · intro it hit; rw [hq]; exact List.mem_cons_of_mem _ hit
        · intro w' hw' it hc
          exact Or.inl (updWorker_cur hw' hc (fun w hx => Or.inl hx))
        · intro m hm
          simp only [List.mem_append, List.mem_singleton] at hm
          rcases hm with hm | rfl
          · exact Or.inl hm
          · right; trivial
      · exact h
    · exact h
  | sendResult pid =>
    simp only [step]
    split
    · rename_i w hg
      split
      · rename_i item hcur
        split
        · refine inv_worker_event h rfl rfl rfl rfl rfl (fun _ hit => hit) ?_ ?_
          · intro w' hw' it hc
            exact Or.inl (updWorker_cur hw' hc (fun w hx => by simp at hx))
          · intro m hm
            simp only [List.mem_append, List.mem_singleton] at hm
            rcases hm with hm | rfl
            · exact Or.inl hm
            · right
              obtain ⟨⟨r, hr, ha⟩, hp⟩ := h.cur_ok w (getWorker_mem hg).1 item hcur
              exact ⟨⟨r, hr, by rw [ha]⟩, hp⟩
        · exact h
      · exact h
    · exact h
  | sendTaskExc pid =>
    simp only [step]
    split
    · rename_i w hg
      split
      · rename_i item hcur
        split
        · refine inv_worker_event h rfl rfl rfl rfl rfl (fun _ hit => hit) ?_ ?_
          · intro w' hw' it hc
            exact Or.inl (updWorker_cur hw' hc (fun w hx => by simp at hx))
          · intro m hm
            simp only [List.mem_append, List.mem_singleton] at hm
            rcases hm with hm | rfl
            · exact Or.inl hm
            · right
              obtain ⟨⟨r, hr, _⟩, hp⟩ := h.cur_ok w (getWorker_mem hg).1 item hcur
              exact ⟨⟨r, hr⟩, hp⟩
        · exact h
      · exact h
    · exact h
  | beginSend pid =>
    simp only [step]
    split
    · split
      · refine inv_worker_event h rfl rfl rfl rfl rfl (fun _ hit => hit) ?_ (fun m hm => Or.inl hm)
        intro w' hw' it hc
        exact Or.inl (updWorker_cur hw' hc (fun w hx => Or.inl hx))
      · exact h
    · exact h
  | endSend pid =>
    simp only [step]
    split
    · rename_i w hg
      split
      · rename_i item hcur
        split
        · refine inv_worker_event h rfl rfl rfl rfl rfl (fun _ hit => hit) ?_ ?_
          · intro w' hw' it hc
            exact Or.inl (updWorker_cur hw' hc (fun w hx => by simp at hx))
          · intro m hm
            simp only [List.mem_append, List.mem_singleton] at hm
            rcases hm with hm | rfl
            · exact Or.inl hm
            · right
              obtain ⟨⟨r, hr, ha⟩, hp⟩ := h.cur_ok w (getWorker_mem hg).1 item hcur
              exact ⟨⟨r, hr, by rw [ha]⟩, hp⟩
        · exact h
      · exact h
    · exact h
  | announceExit pid =>
    simp only [step]
    split
    · split
      · refine inv_worker_event h rfl rfl rfl rfl rfl (fun _ hit => hit) ?_ ?_
        · intro w' hw' it hc
          exact Or.inl (updWorker_cur hw' hc (fun w hx => Or.inl hx))
        · intro m hm
          simp only [List.mem_append, List.mem_singleton] at hm
          rcases hm with hm | rfl
          · exact Or.inl hm
          · right; trivial
      · exact h
    · exact h
  | kill pid =>
    simp only [step]
    refine inv_worker_event h rfl rfl rfl rfl rfl (fun _ hit => hit) ?_ (fun m hm => Or.inl hm)
    intro w' hw' it hc
    exact Or.inl (updWorker_cur hw' hc (fun w hx => Or.inl hx))

theorem inv_run {fn : Nat → Nat} {s : State} (h : Inv fn s) (evs : List Event) : Inv fn (run fn s evs) := by
  induction evs generalizing s with
  | nil => exact h
  | cons e es ih => exact ih (inv_step h e)


/-! ### A dead worker and the manager's loop -/


theorem addCallItems_same (s : State) :
    (addCallItems s).processes = s.processes ∧
    (addCallItems s).result_pipe = s.result_pipe ∧
    (addCallItems s).partialMsg = s.partialMsg ∧
    (addCallItems s).wakeups = s.wakeups ∧
    (addCallItems s).flags = s.flags ∧
    (addCallItems s).pending_work_items = s.pending_work_items ∧
    (addCallItems s).max_workers = s.max_workers ∧
    (addCallItems s).next_pid = s.next_pid := addCallItemsLoop_same _ s

theorem finishIteration_not_blocked (s : State) :
    (finishIteration s).2 = .crashed ∨ (finishIteration s).2 = .exited ∨ (finishIteration s).2 = .progressed := by
  unfold finishIteration
  split
  · simp
  · split
    · simp only []
      split <;> simp
    · simp

theorem finishIteration_ne_blockedInWait (s : State) : (finishIteration s).2 ≠ .blockedInWait := by
  rcases finishIteration_not_blocked s with h | h | h <;> rw [h] <;> simp

/-- With a dead process in `processes` the manager is never left sleeping in `wait`. -/
theorem managerStep_not_blockedInWait (s : State) (p : Nat) (hd : DeadIn s p) :
    (managerStep s).2 ≠ .blockedInWait := by
  unfold managerStep
  split
  · simp
  · simp only
    split
    · simp
    · split
      · split
        · simp
        · simp
        · exact finishIteration_ne_blockedInWait _
      · split <;> simp
      · split
        · exact finishIteration_ne_blockedInWait _
        · split
          · rename_i hempty
            exfalso
            have : p ∈ deadPids (addCallItems s).processes := by
              rw [(addCallItems_same s).1]; exact mem_deadPids.mpr hd
            simp at hempty
            rw [hempty] at this; cases this
          · simp


/-- No event other than the manager's own iteration takes a dead process out of the wait set. -/
theorem deadIn_step (fn : Nat → Nat) (s : State) (p : Nat) (e : Event) (hd : DeadIn s p) (hne : e ≠ .mgr) :
    DeadIn (step fn s e) p := by
  have hupd : ∀ (pid : Nat) (f : Worker → Worker),
      (∀ w, (f w).pid = w.pid ∧ (w.alive = false → (f w).alive = false)) →
      ∃ w ∈ updWorker s.processes pid f, w.pid = p ∧ w.alive = false :=
    fun pid f hf => updWorker_dead s.processes pid f hf p hd
  cases e with
  | mgr => exact absurd rfl hne
  | submit arg =>
    simp only [step, submit]
    split
    · exact hd
    · split
      · exact hd
      · simp only [ensureRunning, startManager]
        split
        · simp only [adjustProcessCount, spawn_eq, register]
          obtain ⟨w, hw, h1, h2⟩ := hd
          exact ⟨w, List.mem_append_left _ hw, h1, h2⟩
        · exact hd
  | shutdown kw => exact hd
  | take pid =>
    simp only [step]
    split
    · split
      · exact hupd pid _ (fun w => ⟨rfl, fun h => h⟩)
      · exact hd
    · exact hd
  | unpickleFail pid =>
    simp only [step]
    split
    · split
      · exact hupd pid _ (fun w => ⟨rfl, fun _ => rfl⟩)
      · exact hd
    · exact hd
  | sendResult pid =>
    simp only [step]
    split
    · split
      · split
        · exact hupd pid _ (fun w => ⟨rfl, fun h => h⟩)
        · exact hd
      · exact hd
    · exact hd
  | sendTaskExc pid =>
    simp only [step]
    split
    · split
      · split
        · exact hupd pid _ (fun w => ⟨rfl, fun h => h⟩)
        · exact hd
      · exact hd
    · exact hd
  | beginSend pid =>
    simp only [step]
    split
    · split
      · exact hupd pid _ (fun w => ⟨rfl, fun h => h⟩)
      · exact hd
    · exact hd
  | endSend pid =>
    simp only [step]
    split
    · split
      · split
        · exact hupd pid _ (fun w => ⟨rfl, fun h => h⟩)
        · exact hd
      · exact hd
    · exact hd
  | announceExit pid =>
    simp only [step]
    split
    · split
      · exact hupd pid _ (fun w => ⟨rfl, fun h => h⟩)
      · exact hd
    · exact hd
  | kill pid =>
    simp only [step]
    exact hupd pid _ (fun w => ⟨rfl, fun _ => rfl⟩)

/-- "No worker dies between the first and the last byte of its result message": a partial message in the pipe has
a live writer. -/
def NoTornMessage (s : State) : Prop := ∀ w, s.partialMsg = some w → writerAlive s w = true

theorem noTorn_of_none {s : State} (h : s.partialMsg = none) : NoTornMessage s := by
  intro w hw; rw [h] at hw; cases hw

/-- Every future is resolved (result or exception): none left pending or running. -/
def Resolved (s : State) : Prop :=
  ∀ (wid : Nat) (r : FutRec), s.futures[wid]? = some r → r.st.unresolved = false

theorem resolved_of_no_pending {fn : Nat → Nat} {s : State} (h : Inv fn s)
    (hp : s.pending_work_items = []) : Resolved s := by
  intro wid r hr
  cases hu : r.st.unresolved with
  | false => rfl
  | true => have := h.unres_pend wid r hr hu; rw [hp] at this; cases this

theorem terminateBroken_resolved {fn : Nat → Nat} {s : State} (h : Inv fn s) (e : Exc) :
    (terminateBroken s e).mgr = .exited ∧ Resolved (terminateBroken s e) :=
  ⟨rfl, resolved_of_no_pending (inv_terminateBroken h e) rfl⟩

theorem managerSteps_not_running (k : Nat) (s : State) (h : s.mgr ≠ .running) : managerSteps k s = s := by
  induction k with
  | zero => rfl
  | succ k ih =>
    have : (managerStep s).1 = s := by unfold managerStep; simp [h]
    simp [managerSteps, this, ih]

/-- How `finishIteration` ends from a running, consistent state. -/
theorem finishIteration_cases {fn : Nat → Nat} {s : State} (h : Inv fn s) (hr : s.mgr = .running) :
    ((finishIteration s).1.mgr = .exited ∧ Resolved (finishIteration s).1) ∨
    ((finishIteration s).2 = .progressed ∧ (finishIteration s).1.mgr = .running ∧
      (finishIteration s).1.processes = s.processes ∧ (finishIteration s).1.result_pipe = s.result_pipe ∧
      (finishIteration s).1.partialMsg = s.partialMsg ∧ (finishIteration s).1.wakeups = s.wakeups) := by
  have hI := inv_finishIteration h
  revert hI
  unfold finishIteration
  have hnc : ¬ s.mgr = .crashed := by rw [hr]; intro e; cases e
  simp only [hnc, if_false]
  split
  · unfold flagExecutorShuttingDown
    simp only []
    split
    · intro hI
      left
      exact ⟨rfl, resolved_of_no_pending hI rfl⟩
    · split
      · rename_i hp
        intro hI
        left
        refine ⟨rfl, resolved_of_no_pending hI ?_⟩
        simpa [joinExecutorInternals] using hp
      · intro _
        right
        exact ⟨rfl, hr, rfl, rfl, rfl, rfl⟩
  · intro _
    right
    exact ⟨rfl, hr, rfl, rfl, rfl, rfl⟩


theorem processResultItem_same (s : State) (m : Msg) (hm : ∀ q, m ≠ .pid q) :
    (processResultItem s m).processes = s.processes ∧
    (processResultItem s m).result_pipe = s.result_pipe ∧
    (processResultItem s m).partialMsg = s.partialMsg ∧
    (processResultItem s m).wakeups = s.wakeups ∧
    ((processResultItem s m).mgr = s.mgr ∨ (processResultItem s m).mgr = .crashed) := by
  cases m with
  | pid q => exact absurd rfl (hm q)
  | result wid v =>
    simp only [processResultItem]
    split
    · split <;> simp [complete]
    · simp
  | taskExc wid =>
    simp only [processResultItem]
    split
    · split <;> simp [complete]
    · simp
  | remoteTb => simp [processResultItem]
  | unpicklable => simp [processResultItem]

/-- One iteration of the manager with a dead process in its wait set, no partial message in the pipe and no
clean-exit announcement in flight: it ends the thread with every future resolved, or it consumed one complete
message, or (empty pipe) it consumed the pending wake-ups — and the situation persists. -/
theorem managerStep_cases {fn : Nat → Nat} {s : State} {p : Nat} (h : Inv fn s) (hr : s.mgr = .running)
    (hd : DeadIn s p) (hnt : NoTornMessage s) (hnp : ∀ q, Msg.pid q ∉ s.result_pipe) :
    ((managerStep s).1.mgr = .exited ∧ Resolved (managerStep s).1) ∨
    ((managerStep s).2 = .progressed ∧ Inv fn (managerStep s).1 ∧ (managerStep s).1.mgr = .running ∧
      DeadIn (managerStep s).1 p ∧ (managerStep s).1.partialMsg = s.partialMsg ∧
      ((∃ m, s.result_pipe = m :: (managerStep s).1.result_pipe) ∨
       (s.result_pipe = [] ∧ (managerStep s).1.result_pipe = [] ∧ s.wakeups > 0 ∧
        (managerStep s).1.wakeups = 0))) ∨
    (∃ w, (managerStep s).2 = .blockedInRecv w ∧ writerAlive s w = true ∧ s.result_pipe = [] ∧
      s.partialMsg = some w) := by
  have hI := inv_managerStep (fn := fn) h
  revert hI
  obtain ⟨h1, hr1⟩ := inv_addCallItems h hr
  obtain ⟨e1, e2, e3, e4, _, _, _, _⟩ := addCallItems_same s
  unfold managerStep
  have hnr : ¬ s.mgr ≠ .running := by simp [hr]
  have hnc : ¬ (addCallItems s).mgr = .crashed := by rw [hr1]; intro e; cases e
  simp only [hnr, hnc, if_false]
  split
  · rename_i _ m rest hpipe
    have hmem : ∀ x ∈ rest, x ∈ (addCallItems s).result_pipe := by
      intro x hx; rw [hpipe]; exact List.mem_cons_of_mem _ hx
    have h2 := inv_received h1 rest hmem
    have hmok : MsgOk fn (received (addCallItems s) rest) m :=
      (Frame.refl' rfl rfl rfl : Frame (addCallItems s) (received (addCallItems s) rest)).msg
        (h1.pipe_ok m (by rw [hpipe]; simp))
    have hs : s.result_pipe = m :: rest := by rw [← e2]; exact hpipe
    split
    · intro _; left; exact terminateBroken_resolved h2 _
    · intro _; left; exact terminateBroken_resolved h2 _
    · intro hI
      have hmp : ∀ q, m ≠ .pid q := by
        intro q e; apply hnp q; rw [hs, e]; simp
      have h3 := inv_processResultItem h2 m hmok
      obtain ⟨p1, p2, p3, p4, p5⟩ := processResultItem_same (received (addCallItems s) rest) m hmp
      have hr3 : (processResultItem (received (addCallItems s) rest) m).mgr = .running := by
        rcases p5 with p5 | p5
        · rw [p5]; exact hr1
        · exact absurd p5 h3.not_crashed
      rcases finishIteration_cases h3 hr3 with hc | ⟨c1, c2, c3, c4, c5, c6⟩
      · left; exact hc
      · right; left
        refine ⟨c1, hI, c2, ?_, ?_, Or.inl ⟨m, ?_⟩⟩
        · rw [DeadIn, c3, p1]; simp only [received]; rw [e1]; exact hd
        · rw [c5, p3]; simp only [received]; exact e3
        · rw [c4, p2]; simp only [received]; exact hs
  · rename_i _ w hpipe hpart
    have hpw : s.partialMsg = some w := by rw [← e3]; exact hpart
    have hal : writerAlive s w = true := hnt w hpw
    have hal' : writerAlive (addCallItems s) w = true := by
      unfold writerAlive at hal ⊢; rw [e1]; exact hal
    simp only [hal', if_true]
    intro _
    right; right
    exact ⟨w, rfl, hal, by rw [← e2]; exact hpipe, hpw⟩
  · rename_i _ hpipe _
    have hs : s.result_pipe = [] := by rw [← e2]; exact hpipe
    split
    · rename_i hw
      intro hI
      have h2 := inv_received h1 [] (by simp)
      rcases finishIteration_cases h2 hr1 with hc | ⟨c1, c2, c3, c4, c5, c6⟩
      · left; exact hc
      · right; left
        refine ⟨c1, hI, c2, ?_, ?_, Or.inr ⟨hs, ?_, ?_, ?_⟩⟩
        · rw [DeadIn, c3]; simp only [received]; rw [e1]; exact hd
        · rw [c5]; simp only [received]; exact e3
        · rw [c4]; rfl
        · rw [← e4]; exact hw
        · rw [c6]; rfl
    · split
      · rename_i hempty
        exfalso
        have : p ∈ deadPids (addCallItems s).processes := by
          rw [e1]; exact mem_deadPids.mpr hd
        simp at hempty
        rw [hempty] at this; cases this
      · intro _; left; exact terminateBroken_resolved h1 _


theorem managerSteps_succ (k : Nat) (s : State) : managerSteps (k + 1) s = managerSteps k (managerStep s).1 := rfl

/-- Empty pipe, no wake-up pending: the very next iteration sees only the sentinel and terminates. -/
theorem broken_now {fn : Nat → Nat} {s : State} {p : Nat} (h : Inv fn s) (hr : s.mgr = .running)
    (hd : DeadIn s p) (hnt : s.partialMsg = none) (hpipe : s.result_pipe = []) (hw : s.wakeups = 0) :
    (managerStep s).1.mgr = .exited ∧ Resolved (managerStep s).1 := by
  rcases managerStep_cases h hr hd (noTorn_of_none hnt) (by rw [hpipe]; simp) with
    hc | ⟨_, _, _, _, _, hx⟩ | ⟨w, _, _, _, hw'⟩
  · exact hc
  · rcases hx with ⟨m, hm⟩ | ⟨_, _, hw', _⟩
    · rw [hpipe] at hm; cases hm
    · omega
  · rw [hnt] at hw'; cases hw'

theorem broken_resolves_all_aux {fn : Nat → Nat} {p : Nat} :
    ∀ (n : Nat) (s : State), s.result_pipe.length = n → Inv fn s → s.mgr = .running → DeadIn s p →
      s.partialMsg = none → (∀ q, Msg.pid q ∉ s.result_pipe) →
      (managerSteps (n + 2) s).mgr = .exited ∧ Resolved (managerSteps (n + 2) s) := by
  intro n
  induction n with
  | zero =>
    intro s hlen h hr hd hnt hnp
    have hpipe : s.result_pipe = [] := List.eq_nil_of_length_eq_zero hlen
    rw [managerSteps_succ, managerSteps_succ]
    simp only [managerSteps]
    rcases managerStep_cases h hr hd (noTorn_of_none hnt) hnp with
      ⟨hx, hres⟩ | ⟨_, h', hr', hd', hnt', hx⟩ | ⟨w, _, _, _, hw'⟩
    · have : (managerStep (managerStep s).1).1 = (managerStep s).1 := by
        have := managerSteps_not_running 1 (managerStep s).1 (by rw [hx]; intro e; cases e)
        simpa [managerSteps] using this
      rw [this]; exact ⟨hx, hres⟩
    · rcases hx with ⟨m, hm⟩ | ⟨_, hp', _, hw'⟩
      · rw [hpipe] at hm; cases hm
      · exact broken_now h' hr' hd' (hnt'.trans hnt) hp' hw'
    · rw [hnt] at hw'; cases hw'
  | succ n ih =>
    intro s hlen h hr hd hnt hnp
    rw [managerSteps_succ]
    rcases managerStep_cases h hr hd (noTorn_of_none hnt) hnp with
      ⟨hx, hres⟩ | ⟨_, h', hr', hd', hnt', hx⟩ | ⟨w, _, _, _, hw'⟩
    · rw [managerSteps_not_running _ _ (by rw [hx]; intro e; cases e)]
      exact ⟨hx, hres⟩
    · rcases hx with ⟨m, hm⟩ | ⟨hp, _, _, _⟩
      · apply ih _ _ h' hr' hd' (hnt'.trans hnt)
        · intro q hq; apply hnp q; rw [hm]; exact List.mem_cons_of_mem _ hq
        · rw [hm] at hlen; simpa using hlen
      · rw [hp] at hlen; cases hlen
    · rw [hnt] at hw'; cases hw'




/-! ### F15: a torn message -/

/-- The hazard: the manager is running, the pipe holds only the first bytes of a message, and their writer is
a dead process still in `processes`. -/
def Torn (s : State) (w : Nat) : Prop :=
  s.mgr = .running ∧ s.result_pipe = [] ∧ s.partialMsg = some w ∧
    ∃ wk, getWorker s.processes w = some wk ∧ wk.alive = false

theorem torn_writer_dead {s : State} {w : Nat} (h : Torn s w) : writerAlive s w = false := by
  obtain ⟨_, _, _, wk, hg, ha⟩ := h
  simp [writerAlive, hg, ha]

theorem torn_stuck {fn : Nat → Nat} {s : State} {w : Nat} (hI : Inv fn s) (h : Torn s w) :
    (managerStep s).2 = .stuckInRecv w ∧ (managerStep s).1 = addCallItems s := by
  obtain ⟨h1, hr1⟩ := inv_addCallItems hI h.1
  obtain ⟨e1, e2, e3, _⟩ := addCallItems_same s
  have hwd := torn_writer_dead h
  unfold managerStep
  have hnr : ¬ s.mgr ≠ .running := by simp [h.1]
  have hnc : ¬ (addCallItems s).mgr = .crashed := by rw [hr1]; intro e; cases e
  simp only [hnr, hnc, if_false]
  split
  · rename_i hp; rw [e2, h.2.1] at hp; cases hp
  · rename_i w' _ hpart
    rw [e3, h.2.2.1] at hpart
    cases hpart
    have : writerAlive (addCallItems s) w = false := by
      unfold writerAlive at hwd ⊢; rw [e1]; exact hwd
    simp [this]
  · rename_i hpart; rw [e3, h.2.2.1] at hpart; cases hpart

theorem getWorker_updWorker (ps : List Worker) (pid w : Nat) (f : Worker → Worker)
    (hf : ∀ x, (f x).pid = x.pid) :
    getWorker (updWorker ps pid f) w = (getWorker ps w).map (fun x => if x.pid == pid then f x else x) := by
  unfold getWorker updWorker
  induction ps with
  | nil => rfl
  | cons a as ih =>
    simp only [List.map_cons, List.find?_cons]
    have : (if a.pid == pid then f a else a).pid = a.pid := by split <;> simp [hf]
    rw [this]
    split
    · simp
    · exact ih

theorem getWorker_append_of_some (ps l : List Worker) (w : Nat) (wk : Worker)
    (h : getWorker ps w = some wk) : getWorker (ps ++ l) w = some wk := by
  unfold getWorker at h ⊢
  rw [List.find?_append, h]; rfl


theorem torn_updWorker {s : State} {w : Nat} (pid : Nat) (f : Worker → Worker)
    (hf : ∀ x, (f x).pid = x.pid ∧ (x.alive = false → (f x).alive = false))
    (h : ∃ wk, getWorker s.processes w = some wk ∧ wk.alive = false) :
    ∃ wk, getWorker (updWorker s.processes pid f) w = some wk ∧ wk.alive = false := by
  obtain ⟨wk, hg, ha⟩ := h
  rw [getWorker_updWorker _ _ _ _ (fun x => (hf x).1), hg]
  refine ⟨_, rfl, ?_⟩
  dsimp only
  split
  · exact (hf wk).2 ha
  · exact ha

/-- Once the pipe is torn nothing the workers, the OS or the client can do mends it. -/
theorem torn_step {fn : Nat → Nat} {s : State} {w : Nat} (hI : Inv fn s) (h : Torn s w) (e : Event) :
    Torn (step fn s e) w := by
  obtain ⟨hr, hpipe, hpart, hwk⟩ := h
  have hpn : s.partialMsg.isNone = false := by rw [hpart]; rfl
  cases e with
  | mgr =>
    simp only [step]
    rw [(torn_stuck hI ⟨hr, hpipe, hpart, hwk⟩).2]
    obtain ⟨_, hr1⟩ := inv_addCallItems hI hr
    obtain ⟨e1, e2, e3, _⟩ := addCallItems_same s
    exact ⟨hr1, by rw [e2]; exact hpipe, by rw [e3]; exact hpart, by rw [e1]; exact hwk⟩
  | submit arg =>
    simp only [step, submit]
    split
    · exact ⟨hr, hpipe, hpart, hwk⟩
    · split
      · exact ⟨hr, hpipe, hpart, hwk⟩
      · simp only [ensureRunning, startManager]
        split
        · refine ⟨by simp [adjustProcessCount, spawn_eq, register, hr], ?_, ?_, ?_⟩
          · simpa [adjustProcessCount, spawn_eq, register] using hpipe
          · simpa [adjustProcessCount, spawn_eq, register] using hpart
          · obtain ⟨wk, hg, ha⟩ := hwk
            refine ⟨wk, ?_, ha⟩
            simp only [adjustProcessCount, spawn_eq, register]
            exact getWorker_append_of_some _ _ _ _ hg
        · exact ⟨by simp [register, hr], hpipe, hpart, hwk⟩
  | shutdown kw => exact ⟨hr, hpipe, hpart, hwk⟩
  | take pid =>
    simp only [step]
    split
    · split
      · exact ⟨hr, hpipe, hpart, torn_updWorker pid _ (fun x => ⟨rfl, fun hx => hx⟩) hwk⟩
      · exact ⟨hr, hpipe, hpart, hwk⟩
    · exact ⟨hr, hpipe, hpart, hwk⟩
  | unpickleFail pid =>
    simp only [step]
    split
    · split
      · rename_i hc; simp [hpn] at hc
      · exact ⟨hr, hpipe, hpart, hwk⟩
    · exact ⟨hr, hpipe, hpart, hwk⟩
  | sendResult pid =>
    simp only [step]
    split
    · split
      · split
        · rename_i hc; simp [hpn] at hc
        · exact ⟨hr, hpipe, hpart, hwk⟩
      · exact ⟨hr, hpipe, hpart, hwk⟩
    · exact ⟨hr, hpipe, hpart, hwk⟩
  | sendTaskExc pid =>
    simp only [step]
    split
    · split
      · split
        · rename_i hc; simp [hpn] at hc
        · exact ⟨hr, hpipe, hpart, hwk⟩
      · exact ⟨hr, hpipe, hpart, hwk⟩
    · exact ⟨hr, hpipe, hpart, hwk⟩
  | beginSend pid =>
    simp only [step]
    split
    · split
      · rename_i hc; simp [hpn] at hc
      · exact ⟨hr, hpipe, hpart, hwk⟩
    · exact ⟨hr, hpipe, hpart, hwk⟩
  | endSend pid =>
    simp only [step]
    split
    · rename_i w0 hg0
      split
      · split
        · rename_i hc
          exfalso
          simp only [Bool.and_eq_true, beq_iff_eq] at hc
          obtain ⟨⟨ha, _⟩, hp⟩ := hc
          rw [hpart] at hp
          cases hp
          obtain ⟨wk, hg, hd⟩ := hwk
          rw [hg] at hg0; cases hg0
          rw [hd] at ha; cases ha
        · exact ⟨hr, hpipe, hpart, hwk⟩
      · exact ⟨hr, hpipe, hpart, hwk⟩
    · exact ⟨hr, hpipe, hpart, hwk⟩
  | announceExit pid =>
    simp only [step]
    split
    · split
      · rename_i hc; simp [hpn] at hc
      · exact ⟨hr, hpipe, hpart, hwk⟩
    · exact ⟨hr, hpipe, hpart, hwk⟩
  | kill pid =>
    simp only [step]
    exact ⟨hr, hpipe, hpart, torn_updWorker pid _ (fun x => ⟨rfl, fun _ => rfl⟩) hwk⟩

/-- Only the manager's iteration and `submit` touch the futures table. -/
theorem step_futures_same (fn : Nat → Nat) (s : State) (e : Event) (h1 : e ≠ .mgr) (h2 : ∀ a, e ≠ .submit a) :
    (step fn s e).futures = s.futures := by
  cases e with
  | mgr => exact absurd rfl h1
  | submit a => exact absurd rfl (h2 a)
  | shutdown kw => rfl
  | take pid => simp only [step]; (repeat' split) <;> rfl
  | unpickleFail pid => simp only [step]; (repeat' split) <;> rfl
  | sendResult pid => simp only [step]; (repeat' split) <;> rfl
  | sendTaskExc pid => simp only [step]; (repeat' split) <;> rfl
  | beginSend pid => simp only [step]; (repeat' split) <;> rfl
  | endSend pid => simp only [step]; (repeat' split) <;> rfl
  | announceExit pid => simp only [step]; (repeat' split) <;> rfl
  | kill pid => rfl

/-- While the pipe is torn no event resolves a future. -/
theorem torn_step_unresolved {fn : Nat → Nat} {s : State} {w : Nat} (hI : Inv fn s) (h : Torn s w) (e : Event)
    (i : Nat) (r : FutRec) (hi : s.futures[i]? = some r) (hu : r.st.unresolved = true) :
    ∃ r' : FutRec, (step fn s e).futures[i]? = some r' ∧ r'.st.unresolved = true := by
  have hpn : s.partialMsg.isNone = false := by rw [h.2.2.1]; rfl
  have same : ∀ s' : State, s'.futures = s.futures →
      ∃ r' : FutRec, s'.futures[i]? = some r' ∧ r'.st.unresolved = true :=
    fun s' e => ⟨r, by rw [e]; exact hi, hu⟩
  cases e with
  | mgr =>
    simp only [step]
    rw [(torn_stuck hI h).2]
    obtain ⟨r', h1, _, h3⟩ := addCallItemsLoop_futures s.work_ids s i r hi
    refine ⟨r', h1, ?_⟩
    rcases h3 with h3 | h3
    · rw [h3]; exact hu
    · rw [h3]; rfl
  | submit arg =>
    simp only [step, submit]
    split
    · exact same _ rfl
    · split
      · exact same _ rfl
      · have hlt : i < s.futures.length := (List.getElem?_eq_some_iff.mp hi).1
        refine ⟨r, ?_, hu⟩
        simp only [ensureRunning, startManager]
        split
        · simp [adjustProcessCount, spawn_eq, register, List.getElem?_append_left hlt, hi]
        · simp [register, List.getElem?_append_left hlt, hi]
  | shutdown kw => exact same _ rfl
  | take pid => exact same _ (step_futures_same fn s _ (by simp) (by simp))
  | unpickleFail pid => exact same _ (step_futures_same fn s _ (by simp) (by simp))
  | sendResult pid => exact same _ (step_futures_same fn s _ (by simp) (by simp))
  | sendTaskExc pid => exact same _ (step_futures_same fn s _ (by simp) (by simp))
  | beginSend pid => exact same _ (step_futures_same fn s _ (by simp) (by simp))
  | endSend pid => exact same _ (step_futures_same fn s _ (by simp) (by simp))
  | announceExit pid => exact same _ (step_futures_same fn s _ (by simp) (by simp))
  | kill pid => exact same _ rfl

/-- The hazard is permanent: whatever happens next, the manager stays stuck in `recv` and every future that was
unresolved stays unresolved. -/
theorem torn_forever {fn : Nat → Nat} {w : Nat} (evs : List Event) :
    ∀ {s : State}, Inv fn s → Torn s w →
      Torn (run fn s evs) w ∧ (managerStep (run fn s evs)).2 = .stuckInRecv w ∧
      ∀ (i : Nat) (r : FutRec), s.futures[i]? = some r → r.st.unresolved = true →
        ∃ r' : FutRec, (run fn s evs).futures[i]? = some r' ∧ r'.st.unresolved = true := by
  induction evs with
  | nil =>
    intro s hI h
    exact ⟨h, (torn_stuck hI h).1, fun i r hi hu => ⟨r, hi, hu⟩⟩
  | cons e es ih =>
    intro s hI h
    obtain ⟨a, b, c⟩ := ih (inv_step hI e) (torn_step hI h e)
    refine ⟨a, b, ?_⟩
    intro i r hi hu
    obtain ⟨r1, h1, hu1⟩ := torn_step_unresolved hI h e i r hi hu
    exact c i r1 h1 hu1




/-! ### Flags are for ever; `get_reusable_executor` -/

theorem adjustProcessCount_flags (s : State) : (adjustProcessCount s).flags = s.flags := by
  simp [adjustProcessCount, spawn_eq]

theorem processResultItem_flags (s : State) (m : Msg) : (processResultItem s m).flags = s.flags := by
  cases m with
  | pid p => simp only [processResultItem, reapWorker]; split <;> simp [adjustProcessCount_flags]
  | result wid v => simp only [processResultItem]; (repeat' split) <;> simp [complete]
  | taskExc wid => simp only [processResultItem]; (repeat' split) <;> simp [complete]
  | remoteTb => rfl
  | unpicklable => rfl

theorem finishIteration_broken (s : State) : (finishIteration s).1.flags.broken = s.flags.broken := by
  unfold finishIteration
  split
  · rfl
  · split
    · unfold flagExecutorShuttingDown
      simp only []
      split
      · rfl
      · split <;> rfl
    · rfl

theorem managerStep_broken_sticky (s : State) (h : s.flags.broken.isSome = true) :
    (managerStep s).1.flags.broken.isSome = true := by
  have e5 := (addCallItems_same s).2.2.2.2.1
  unfold managerStep
  split
  · exact h
  · simp only []
    split
    · rw [e5]; exact h
    · split
      · split
        · rfl
        · rfl
        · rw [finishIteration_broken, processResultItem_flags]; simp only [received]; rw [e5]; exact h
      · split <;> (rw [e5]; exact h)
      · split
        · rw [finishIteration_broken]; simp only [received]; rw [e5]; exact h
        · split
          · rw [e5]; exact h
          · rfl


/-- Only the manager's iteration, `submit` and `shutdown` touch the flags; none of them clears `broken`. -/
theorem step_broken_sticky (fn : Nat → Nat) (s : State) (e : Event) (h : s.flags.broken.isSome = true) :
    (step fn s e).flags.broken.isSome = true := by
  cases e with
  | mgr => exact managerStep_broken_sticky s h
  | submit a =>
    simp only [step, submit]
    cases hb : s.flags.broken with
    | none => rw [hb] at h; cases h
    | some b => simp [hb]
  | shutdown kw => exact h
  | take pid => simp only [step]; (repeat' split) <;> exact h
  | unpickleFail pid => simp only [step]; (repeat' split) <;> exact h
  | sendResult pid => simp only [step]; (repeat' split) <;> exact h
  | sendTaskExc pid => simp only [step]; (repeat' split) <;> exact h
  | beginSend pid => simp only [step]; (repeat' split) <;> exact h
  | endSend pid => simp only [step]; (repeat' split) <;> exact h
  | announceExit pid => simp only [step]; (repeat' split) <;> exact h
  | kill pid => exact h

theorem resize_flags (s : State) (mw : Nat) : (resize s mw).flags = s.flags := by
  unfold resize
  split
  · rfl
  · split
    · rfl
    · simp [adjustProcessCount_flags]

/-- The executor `get_reusable_executor` hands out is neither flagged broken nor shut down. -/
theorem getReusableExecutor_healthy (p : Pool) (mw qs : Nat) (reuse kw : Bool) :
    ∃ e, (getReusableExecutor p mw qs reuse kw).1.execs[(getReusableExecutor p mw qs reuse kw).2.1]? = some e ∧
      e.flags.broken = none ∧ e.flags.shutdown = false := by
  unfold getReusableExecutor
  split
  · exact ⟨State.init mw qs (firstPid p.execs.length), by simp [createExecutor], rfl, rfl⟩
  · rename_i i _
    split
    · exact ⟨State.init mw qs (firstPid p.execs.length), by simp [createExecutor], rfl, rfl⟩
    · rename_i e he
      split
      · refine ⟨State.init mw qs (firstPid p.execs.length), ?_, rfl, rfl⟩
        simp [createExecutor]
      · rename_i hc
        simp only [Bool.or_eq_true, Bool.not_eq_true', not_or, Bool.not_eq_true] at hc
        obtain ⟨⟨h1, h2⟩, _⟩ := hc
        have hlt : i < p.execs.length := (List.getElem?_eq_some_iff.mp he).1
        refine ⟨resize e mw, by simp [hlt], ?_, ?_⟩
        · rw [resize_flags]; cases hb : e.flags.broken with
          | none => rfl
          | some b => rw [hb] at h1; cases h1
        · rw [resize_flags]; exact h2

/-- `get_reusable_executor` leaves the broken flag of every existing executor as it is (or sets nothing): an
executor that was broken stays broken, at the same position. -/
theorem getReusableExecutor_keeps_broken (p : Pool) (mw qs : Nat) (reuse kw : Bool) (j : Nat) (e : State)
    (hj : p.execs[j]? = some e) (hb : e.flags.broken.isSome = true) :
    ∃ e', (getReusableExecutor p mw qs reuse kw).1.execs[j]? = some e' ∧ e'.flags.broken.isSome = true := by
  have hlt : j < p.execs.length := (List.getElem?_eq_some_iff.mp hj).1
  unfold getReusableExecutor
  split
  · exact ⟨e, by simp [createExecutor, List.getElem?_append_left hlt, hj], hb⟩
  · rename_i i _
    split
    · exact ⟨e, by simp [createExecutor, List.getElem?_append_left hlt, hj], hb⟩
    · rename_i x hx
      split
      · by_cases hij : i = j
        · subst hij
          rw [hj] at hx; cases hx
          refine ⟨shutdown e kw, ?_, hb⟩
          simp [createExecutor, List.getElem?_append_left, hlt]
        · refine ⟨e, ?_, hb⟩
          have := (List.getElem?_eq_some_iff.mp hj).2
          simp [createExecutor, List.getElem?_append_left, hlt, hij, this]
      · by_cases hij : i = j
        · subst hij
          rw [hj] at hx; cases hx
          refine ⟨resize e mw, by simp [hlt], ?_⟩
          rw [resize_flags]; exact hb
        · exact ⟨e, by simp [hij, hj], hb⟩

theorem poolStep_keeps_broken (fn : Nat → Nat) (pr : Pool × List Nat) (op : PoolOp) (j : Nat) (e : State)
    (hj : pr.1.execs[j]? = some e) (hb : e.flags.broken.isSome = true) :
    ∃ e', (poolStep fn pr op).1.execs[j]? = some e' ∧ e'.flags.broken.isSome = true := by
  cases op with
  | exec i ev =>
    simp only [poolStep]
    split
    · rename_i x hx
      by_cases hij : i = j
      · subst hij
        rw [hj] at hx; cases hx
        have hlt : i < pr.1.execs.length := (List.getElem?_eq_some_iff.mp hj).1
        exact ⟨step fn e ev, by simp [hlt], step_broken_sticky fn e ev hb⟩
      · exact ⟨e, by simp [hij, hj], hb⟩
    · exact ⟨e, hj, hb⟩
  | get mw qs reuse kw =>
    simp only [poolStep]
    exact getReusableExecutor_keeps_broken pr.1 mw qs reuse kw j e hj hb

/-- For every history: an executor flagged broken is never handed out again. -/
theorem broken_never_returned (fn : Nat → Nat) (ops : List PoolOp) :
    ∀ (pr : Pool × List Nat) (j : Nat) (e : State), pr.1.execs[j]? = some e → e.flags.broken.isSome = true →
      j ∉ pr.2 → j ∉ (poolRun fn pr ops).2 := by
  induction ops with
  | nil => intro pr j e _ _ h; exact h
  | cons op ops ih =>
    intro pr j e hj hb hn
    obtain ⟨e', hj', hb'⟩ := poolStep_keeps_broken fn pr op j e hj hb
    simp only [poolRun, List.foldl_cons]
    apply ih (poolStep fn pr op) j e' hj' hb'
    cases op with
    | exec i ev => simp only [poolStep]; split <;> exact hn
    | get mw qs reuse kw =>
      simp only [poolStep, List.mem_cons, not_or]
      refine ⟨?_, hn⟩
      intro hji
      obtain ⟨x, hx, hxb, _⟩ := getReusableExecutor_healthy pr.1 mw qs reuse kw
      have := getReusableExecutor_keeps_broken pr.1 mw qs reuse kw j e hj hb
      obtain ⟨y, hy, hyb⟩ := this
      rw [← hji] at hx
      rw [hx] at hy; cases hy
      rw [hxb] at hyb; cases hyb


/-! ### What `terminate_broken` touches; idle deaths -/

theorem terminateBroken_untouched (s : State) (e : Exc) (wid : Nat) (h : wid ∉ s.pending_work_items) :
    (terminateBroken s e).futures[wid]? = s.futures[wid]? := by
  simp [terminateBroken, joinExecutorInternals, killWorkers, failPending, flagAsBroken, getElem?_failAll, h]

theorem terminateBroken_flags (s : State) (e : Exc) :
    (terminateBroken s e).flags.broken = some e ∧ (terminateBroken s e).flags.shutdown = true := ⟨rfl, rfl⟩

theorem submit_on_broken (s : State) (arg : Nat) (b : Exc) (h : s.flags.broken = some b) :
    submit s arg = (s, .error b) := by
  simp [submit, h]

/-- The executor is idle: manager asleep in `wait`, nothing pending, nothing in the pipes. -/
def Quiescent (s : State) : Prop :=
  s.mgr = .running ∧ s.pending_work_items = [] ∧ s.work_ids = [] ∧ s.result_pipe = [] ∧
    s.partialMsg = none ∧ s.wakeups = 0

theorem idle_death_step (s : State) (p : Nat) (hq : Quiescent s) (hd : DeadIn s p) :
    managerStep s = (terminateBroken s .terminatedWorker, .exited) ∧
    (terminateBroken s .terminatedWorker).futures = s.futures := by
  obtain ⟨hr, hp, hw, hpipe, hpart, hwk⟩ := hq
  have ha : addCallItems s = s := by simp [addCallItems, hw, addCallItemsLoop]
  constructor
  · unfold managerStep
    have hnr : ¬ s.mgr ≠ .running := by simp [hr]
    have hnc : ¬ s.mgr = .crashed := by rw [hr]; intro e; cases e
    simp only [hnr, ha, hnc, if_false, hpipe, hpart, hwk]
    have : (deadPids s.processes).isEmpty = false := by
      have := mem_deadPids.mpr hd
      cases hx : deadPids s.processes with
      | nil => rw [hx] at this; cases this
      | cons a l => rfl
    simp [this]
  · simp [terminateBroken, joinExecutorInternals, killWorkers, failPending, flagAsBroken, hp, failAll]



/-! ### The error message; `terminate_broken` with the client in between -/

theorem getExitcodeName_ok (names : List (Nat × String)) (e : Int) :
    getExitcodeName names e =
      .ok (if e < 0 then (names.lookup (-e).toNat).getD "UNKNOWN" else if e ≠ 255 then "EXIT" else "UNKNOWN") := by
  unfold getExitcodeName signalsName
  split
  · cases h : names.lookup (-e).toNat <;> simp
  · split <;> rfl

theorem formatExitcodes_ok (names : List (Nat × String)) (es : List Int) :
    ∃ s, formatExitcodes names es = .ok s := by
  have hm : ∀ l : List Int, ∃ parts, l.mapM (fun e => do
      let n ← getExitcodeName names e
      pure (n ++ "(" ++ toString e ++ ")")) = (.ok parts : Except PyErr (List String)) := by
    intro l
    induction l with
    | nil => exact ⟨[], rfl⟩
    | cons a l ih =>
      obtain ⟨parts, hp⟩ := ih
      rw [List.mapM_cons, getExitcodeName_ok, hp]
      exact ⟨_, rfl⟩
  obtain ⟨parts, hp⟩ := hm es
  exact ⟨_, by unfold formatExitcodes; rw [hp]; rfl⟩

theorem submits_on_broken (s : State) (args : List Nat) (b : Exc) (h : s.flags.broken = some b) :
    submits s args = s := by
  unfold submits
  induction args with
  | nil => rfl
  | cons a as ih => rw [List.foldl_cons, submit_on_broken s a b h]; exact ih

theorem terminateBrokenInterleaved_eq (s : State) (bpe : Exc) (a1 a2 a3 : List Nat) :
    terminateBrokenInterleaved s bpe a1 a2 a3 = terminateBroken s bpe := by
  unfold terminateBrokenInterleaved terminateBroken
  rw [submits_on_broken (flagAsBroken s bpe) a1 bpe rfl,
    submits_on_broken (failPending (flagAsBroken s bpe) bpe) a2 bpe rfl,
    submits_on_broken (killWorkers (failPending (flagAsBroken s bpe) bpe)) a3 bpe rfl]

end JoblibModel.LokyMgr
