import JoblibModel.LokyMgr
/-! Helper lemmas for C10 (kept apart from the property theorems): the futures table, the invariant
`Inv` of the executor state and its preservation by every event. -/
namespace JoblibModel.LokyMgr

/-! ### The futures table -/

theorem getElem?_setFut (fs : List FutRec) (wid i : Nat) (st : Fut) :
    (setFut fs wid st)[i]? =
      if i = wid then (fs[i]?).map (fun r => { r with st := st }) else fs[i]? := by
  unfold setFut
  split
  · rename_i r h
    have hlt : wid < fs.length := (List.getElem?_eq_some_iff.mp h).1
    by_cases hi : i = wid
    · subst hi
      obtain ⟨hl, he⟩ := List.getElem?_eq_some_iff.mp h
      simp [hlt, he]
    · simp [hi, List.getElem?_set]; intro h'; omega
  · rename_i h
    by_cases hi : i = wid
    · subst hi; simp [h]
    · simp [hi]

@[simp] theorem length_setFut (fs : List FutRec) (wid : Nat) (st : Fut) :
    (setFut fs wid st).length = fs.length := by
  unfold setFut; split <;> simp

@[simp] theorem length_failAll (wids : List Nat) (e : Exc) (fs : List FutRec) :
    (failAll fs wids e).length = fs.length := by
  unfold failAll
  induction wids generalizing fs with
  | nil => rfl
  | cons w ws ih => simp [List.foldl_cons, ih]

theorem getElem?_failAll (wids : List Nat) (e : Exc) (fs : List FutRec) (i : Nat) :
    (failAll fs wids e)[i]? =
      if i ∈ wids then (fs[i]?).map (fun r => { r with st := .exception e }) else fs[i]? := by
  unfold failAll
  induction wids generalizing fs with
  | nil => simp
  | cons w ws ih =>
    simp only [List.foldl_cons, ih, getElem?_setFut, List.mem_cons]
    by_cases h1 : i ∈ ws <;> by_cases h2 : i = w <;> simp [h1, h2]
    all_goals (cases fs[w]? <;> simp)

/-! ### Processes -/

/-- The workers `_adjust_process_count` starts. -/
def newWorkers (p : Nat) : Nat → List Worker
  | 0 => []
  | n + 1 => ⟨p, true, none, false, false⟩ :: newWorkers (p + 1) n

theorem spawn_eq (n : Nat) (s : State) :
    spawn n s = { s with processes := s.processes ++ newWorkers s.next_pid n,
                         next_pid := s.next_pid + n } := by
  induction n generalizing s with
  | zero => simp [spawn, newWorkers]
  | succ n ih =>
    simp only [spawn, ih, newWorkers, List.append_assoc, List.singleton_append]
    congr 1
    omega

theorem newWorkers_fresh (p n : Nat) : ∀ w ∈ newWorkers p n, w.alive = true ∧ w.current = none := by
  induction n generalizing p with
  | zero => simp [newWorkers]
  | succ n ih =>
    intro w hw
    simp only [newWorkers, List.mem_cons] at hw
    rcases hw with rfl | hw
    · simp
    · exact ih _ w hw

/-- A dead process `p` is (still) in the executor's `_processes`: its sentinel is in the wait set. -/
def DeadIn (s : State) (p : Nat) : Prop := ∃ w ∈ s.processes, w.pid = p ∧ w.alive = false

theorem mem_deadPids {ps : List Worker} {p : Nat} :
    p ∈ deadPids ps ↔ ∃ w ∈ ps, w.pid = p ∧ w.alive = false := by
  simp [deadPids]
  constructor
  · rintro ⟨w, ⟨h1, h2⟩, h3⟩; exact ⟨w, h1, h3, h2⟩
  · rintro ⟨w, h1, h3, h2⟩; exact ⟨w, ⟨h1, h2⟩, h3⟩

theorem updWorker_dead (ps : List Worker) (pid : Nat) (f : Worker → Worker)
    (hf : ∀ w, (f w).pid = w.pid ∧ (w.alive = false → (f w).alive = false))
    (p : Nat) (h : ∃ w ∈ ps, w.pid = p ∧ w.alive = false) :
    ∃ w ∈ updWorker ps pid f, w.pid = p ∧ w.alive = false := by
  obtain ⟨w, hw, hp, ha⟩ := h
  unfold updWorker
  refine ⟨if w.pid == pid then f w else w, List.mem_map.mpr ⟨w, hw, rfl⟩, ?_, ?_⟩
  · split
    · rw [(hf w).1]; exact hp
    · exact hp
  · split
    · exact (hf w).2 ha
    · exact ha

/-! ### The invariant -/

/-- A call item on its way (call queue, a worker's hands) belongs to a future with the same argument and,
while that future's work item is pending, its id is in `running_work_items`. -/
def ItemOk (s : State) (it : CallItem) : Prop :=
  (∃ r, s.futures[it.wid]? = some r ∧ r.arg = it.arg) ∧
  (it.wid ∈ s.pending_work_items → it.wid ∈ s.running_work_items)

/-- A complete message in the result pipe carries the value computed from the argument of ITS work id. -/
def MsgOk (fn : Nat → Nat) (s : State) : Msg → Prop
  | .result wid v =>
    (∃ r, s.futures[wid]? = some r ∧ v = fn r.arg) ∧
    (wid ∈ s.pending_work_items → wid ∈ s.running_work_items)
  | .taskExc wid =>
    (∃ r, s.futures[wid]? = some r) ∧ (wid ∈ s.pending_work_items → wid ∈ s.running_work_items)
  | _ => True

structure Inv (fn : Nat → Nat) (s : State) : Prop where
  pend_lt : ∀ wid ∈ s.pending_work_items, wid < s.futures.length
  unres_pend : ∀ (wid : Nat) (r : FutRec), s.futures[wid]? = some r → r.st.unresolved = true → wid ∈ s.pending_work_items
  ids_pend : s.mgr = .running ∨ s.mgr = .notStarted →
    ∀ wid ∈ s.work_ids, wid ∈ s.pending_work_items ∧ wid ∉ s.running_work_items
  res_ok : ∀ (wid : Nat) (r : FutRec) (v : Nat), s.futures[wid]? = some r → r.st = Fut.result v → v = fn r.arg
  cq_ok : ∀ it ∈ s.call_queue, ItemOk s it
  cur_ok : ∀ w ∈ s.processes, ∀ it, w.current = some it → ItemOk s it
  pipe_ok : ∀ m ∈ s.result_pipe, MsgOk fn s m
  not_crashed : s.mgr ≠ .crashed
  ids_lt : ∀ wid ∈ s.work_ids, wid < s.futures.length
  ids_nodup : s.work_ids.Nodup
  run_lt : ∀ wid ∈ s.running_work_items, wid < s.futures.length

/-- What every event guarantees about the three containers `ItemOk`/`MsgOk` look at. -/
structure Frame (s s' : State) : Prop where
  fut : ∀ (i : Nat) (r : FutRec), s.futures[i]? = some r → ∃ r' : FutRec, s'.futures[i]? = some r' ∧ r'.arg = r.arg
  pend : ∀ wid, wid ∈ s'.pending_work_items → wid ∈ s.pending_work_items ∨ s.futures[wid]? = none
  runn : ∀ wid, wid ∈ s.running_work_items → wid ∈ s'.pending_work_items → wid ∈ s'.running_work_items

theorem Frame.refl' {s s' : State} (h1 : s'.futures = s.futures)
    (h2 : s'.pending_work_items = s.pending_work_items)
    (h3 : s'.running_work_items = s.running_work_items) : Frame s s' := by
  refine ⟨?_, ?_, ?_⟩
  · intro i r h; exact ⟨r, by rw [h1]; exact h, rfl⟩
  · intro wid h; left; rw [← h2]; exact h
  · intro wid h _; rw [h3]; exact h

theorem Frame.item {s s' : State} (hF : Frame s s') {it : CallItem} (h : ItemOk s it) : ItemOk s' it := by
  obtain ⟨⟨r, hr, ha⟩, hp⟩ := h
  obtain ⟨r', hr', ha'⟩ := hF.fut _ _ hr
  refine ⟨⟨r', hr', by rw [ha', ha]⟩, ?_⟩
  intro hm
  rcases hF.pend _ hm with h1 | h1
  · exact hF.runn _ (hp h1) hm
  · rw [hr] at h1; cases h1

theorem Frame.msg {fn : Nat → Nat} {s s' : State} (hF : Frame s s') {m : Msg} (h : MsgOk fn s m) :
    MsgOk fn s' m := by
  cases m with
  | result wid v =>
    obtain ⟨⟨r, hr, hv⟩, hp⟩ := h
    obtain ⟨r', hr', ha'⟩ := hF.fut _ _ hr
    refine ⟨⟨r', hr', by rw [ha', hv]⟩, ?_⟩
    intro hm
    rcases hF.pend _ hm with h1 | h1
    · exact hF.runn _ (hp h1) hm
    · rw [hr] at h1; cases h1
  | taskExc wid =>
    obtain ⟨⟨r, hr⟩, hp⟩ := h
    obtain ⟨r', hr', _⟩ := hF.fut _ _ hr
    refine ⟨⟨r', hr'⟩, ?_⟩
    intro hm
    rcases hF.pend _ hm with h1 | h1
    · exact hF.runn _ (hp h1) hm
    · rw [hr] at h1; cases h1
  | pid p => trivial
  | remoteTb => trivial
  | unpicklable => trivial

/-- Assemble `Inv s'` from `Inv s`, a frame, and the fields that are not item-wise. -/
theorem Inv.of_frame {fn : Nat → Nat} {s s' : State} (h : Inv fn s) (hF : Frame s s')
    (hcq : ∀ it ∈ s'.call_queue, it ∈ s.call_queue ∨ ItemOk s' it)
    (hcur : ∀ w ∈ s'.processes, ∀ it, w.current = some it →
      (∃ w0 ∈ s.processes, w0.current = some it) ∨ ItemOk s' it)
    (hpipe : ∀ m ∈ s'.result_pipe, m ∈ s.result_pipe ∨ MsgOk fn s' m)
    (h1 : ∀ wid ∈ s'.pending_work_items, wid < s'.futures.length)
    (h2 : ∀ (wid : Nat) (r : FutRec), s'.futures[wid]? = some r → r.st.unresolved = true → wid ∈ s'.pending_work_items)
    (h3 : s'.mgr = .running ∨ s'.mgr = .notStarted →
      ∀ wid ∈ s'.work_ids, wid ∈ s'.pending_work_items ∧ wid ∉ s'.running_work_items)
    (h4 : ∀ (wid : Nat) (r : FutRec) (v : Nat), s'.futures[wid]? = some r → r.st = Fut.result v → v = fn r.arg)
    (h5 : s'.mgr ≠ .crashed)
    (h6 : ∀ wid ∈ s'.work_ids, wid < s'.futures.length)
    (h7 : s'.work_ids.Nodup)
    (h8 : ∀ wid ∈ s'.running_work_items, wid < s'.futures.length) : Inv fn s' := by
  refine ⟨h1, h2, h3, h4, ?_, ?_, ?_, h5, h6, h7, h8⟩
  · intro it hit
    rcases hcq it hit with h' | h'
    · exact hF.item (h.cq_ok it h')
    · exact h'
  · intro w hw it hc
    rcases hcur w hw it hc with ⟨w0, hw0, hc0⟩ | h'
    · exact hF.item (h.cur_ok w0 hw0 it hc0)
    · exact h'
  · intro m hm
    rcases hpipe m hm with h' | h'
    · exact hF.msg (h.pipe_ok m h')
    · exact h'

theorem inv_init (fn : Nat → Nat) (mw qs fp : Nat) : Inv fn (State.init mw qs fp) := by
  refine ⟨?_, ?_, ?_, ?_, ?_, ?_, ?_, ?_, ?_, ?_, ?_⟩ <;> simp [State.init]

end JoblibModel.LokyMgr
