import JoblibProofs.Lemmas.ParallelLock.StepsCb
import JoblibProofs.Lemmas.ParallelLock.Abort
import JoblibProofs.Lemmas.ParallelLock.Steps2Cb
import JoblibProofs.Lemmas.ParallelLock.Live
import JoblibProofs.Lemmas.ParallelLock.Steps3
/-! Umbrella import for the M1L (`ParallelLock`) lemma files. -/
