import JoblibProofs.Lemmas.ParallelLock.StepsCb
import JoblibProofs.Lemmas.ParallelLock.Abort
import JoblibProofs.Lemmas.ParallelLock.Steps2Cb
import JoblibProofs.Lemmas.ParallelLock.Live
import JoblibProofs.Lemmas.ParallelLock.Steps3
import JoblibProofs.Lemmas.ParallelLock.TermInv4
import JoblibProofs.Lemmas.ParallelLock.TermMeasure
import JoblibProofs.Lemmas.ParallelLock.TermCb
import JoblibProofs.Lemmas.ParallelLock.TermCaller
import JoblibProofs.Lemmas.ParallelLock.TermDrain
/-! Umbrella import for the M1L (`ParallelLock`) lemma files. -/
