import JoblibProofs.Lemmas.StoreWitness
/-! What survives a kill (C05): the invariant `CrashOK` is kept by every allowed, code-safe call — whole or torn. -/
namespace JoblibModel.Store

variable {π : Par}

/-- hypotheses on the comparison of `func_code.py` with the live source: the text joblib writes is not empty, and no
strict prefix of it compares equal to the live source -/
structure CodeOK (π : Par) : Prop where
  nonempty : π.cd.codeText π.ver ≠ []
  prefix_differs : ∀ d, d <+: π.cd.codeText π.ver → d ≠ π.cd.codeText π.ver → π.cd.checkCode π.ver d ≠ .same

/-- What every crash state satisfies: complete final names (possibly of an older source) and — if `func_code.py`
compares equal to the live source — only results of the live source. -/
def CrashOK (π : Par) (fs : FS) : Prop := Inv π false fs ∧ TrustK π false fs

theorem inv_true_of_live {s : Bool} {fs : FS} (hi : Inv π s fs) (hl : LiveOut π fs) : Inv π true fs :=
  ⟨hi.wf, hi.typD, hi.typF, fun a i d hg => by
    obtain ⟨g, hg'⟩ := hl a i d hg
    exact ⟨π.ver, g, hg', fun _ => rfl⟩, hi.metaOk, hi.up⟩

theorem codeSafe_tear {fs : FS} {o : Op} (n : Nat) (h : CodeSafe π fs o) : CodeSafe π fs (tear n o) := by
  rcases tear_eq n o with e | ⟨p, i, d, rfl, e⟩
  · rw [e]; exact h
  · rw [e]
    intro p1 i1 d1 c e1 hg
    cases e1
    rcases h p i d c rfl hg with hl | ⟨hc, hp, hne⟩
    · exact Or.inl hl
    · refine Or.inr ⟨hc, (List.take_prefix n d).trans hp, fun e2 => ?_⟩
      -- a prefix of a strict prefix is strict
      have l1 := (List.take_prefix n d).length_le
      have l2 := hp.length_le
      have : d = π.cd.codeText π.ver := hp.eq_of_length (by rw [← e2] at l2 ⊢; omega)
      exact hne this

/-- the state of `func_code.py` after a call, for the calls that can change it -/
theorem trust_apply (hco : CodeOK π) {lvl : Level} {who : Nat → Prop} {fs : FS} {o : Op}
    (h : CrashOK π fs) (ha : Allowed π lvl who fs o) (hs : CodeSafe π fs o) : CrashOK π (apply o fs).2 := by
  refine ⟨inv_apply h.1 ha, fun _ i d hg hsame => ?_⟩
  -- if `func_code.py` is as before, the trust carries over
  have same : (apply o fs).2.get pCode = fs.get pCode → Inv π true (apply o fs).2 := by
    intro e
    rw [e] at hg
    exact inv_apply (h.2 rfl i d hg hsame) ha
  have h0 : pCode ≠ [] := by simp [pCode]
  have upd : ∀ (p' : Path) (n : Option Node), p' ≠ pCode → (∀ q, (apply o fs).2.get q = getUpd fs p' n q) →
      Inv π true (apply o fs).2 := fun p' n hne hgq => same (by rw [hgq]; exact getUpd_ne h0 (fun e => hne e.symm))
  cases ha with
  | noop o _ e => exact same (by rw [e])
  | mkdir p hd =>
    rcases mkdir_spec p fs with ⟨e, _⟩ | ⟨_, _, _, _, _, hgq⟩
    · exact same (by rw [e])
    · exact upd p _ (by rintro rfl; exact dir_not_file hd (Or.inr (Or.inl rfl))) hgq
  | creat p hc =>
    rcases creat_spec p fs with ⟨e, _⟩ | ⟨i0, c0, _, _, _, _, hgq⟩ | ⟨_, _, _, _, _, hgq⟩
    · exact same (by rw [e])
    · by_cases hp : p = pCode
      · subst hp
        rw [hgq] at hg; unfold getUpd at hg; rw [if_neg h0, if_pos rfl] at hg
        cases hg
        exact absurd hsame (hco.prefix_differs [] List.nil_prefix (fun e => hco.nonempty e.symm))
      · exact upd p _ hp hgq
    · by_cases hp : p = pCode
      · subst hp
        rw [hgq] at hg; unfold getUpd at hg; rw [if_neg h0, if_pos rfl] at hg
        cases hg
        exact absurd hsame (hco.prefix_differs [] List.nil_prefix (fun e => hco.nonempty e.symm))
      · exact upd p _ hp hgq
  | write p j dd hw =>
    obtain ⟨_, _, _, hgq⟩ := write_spec p j dd fs
    rw [hgq] at hg
    obtain ⟨c0, hg0, hc⟩ := wr_file hg
    by_cases hij : i = j
    · subst hij
      rw [if_pos rfl] at hc
      rcases hs p i dd c0 rfl hg0 with hl | ⟨hc0, hp, hne⟩
      · exact inv_apply (lvl := lvl) (inv_true_of_live h.1 hl) (Allowed.write p i dd hw)
      · subst hc0
        rw [overwrite_nil] at hc
        subst hc
        exact absurd hsame (hco.prefix_differs _ hp hne)
    · rw [if_neg hij] at hc
      subst hc
      exact inv_apply (lvl := lvl) (h.2 rfl i _ hg0 hsame) (Allowed.write p j dd hw)
  | renameOut a o g hwo hd =>
    rcases rename_spec (pTmpOut a o) (pOut a) fs with e | ⟨_, _, _, _, _, _, _, _, hgq⟩
    · exact same (by rw [e])
    · refine same ?_
      rw [hgq]; unfold getMove
      rw [if_neg h0, if_neg (by simp [pCode, pOut]), if_neg (by simp [pCode, pTmpOut])]
  | renameMeta a o g hwo hd =>
    rcases rename_spec (pTmpMeta a o) (pMeta a) fs with e | ⟨_, _, _, _, _, _, _, _, hgq⟩
    · exact same (by rw [e])
    · refine same ?_
      rw [hgq]; unfold getMove
      rw [if_neg h0, if_neg (by simp [pCode, pMeta]), if_neg (by simp [pCode, pTmpMeta])]
  | unlinkE a p g _ _ =>
    rcases unlink_spec p _ fs with ⟨e, _⟩ | ⟨_, _, _, _, _, _, _, hgq⟩
    · exact same (by rw [e])
    · by_cases hp : p = pCode
      · subst hp; rw [hgq] at hg; unfold getUpd at hg; rw [if_neg h0, if_pos rfl] at hg; cases hg
      · exact upd p _ hp hgq
  | unlinkC p g _ _ =>
    rcases unlink_spec p _ fs with ⟨e, _⟩ | ⟨_, _, _, _, _, _, _, hgq⟩
    · exact same (by rw [e])
    · by_cases hp : p = pCode
      · subst hp; rw [hgq] at hg; unfold getUpd at hg; rw [if_neg h0, if_pos rfl] at hg; cases hg
      · exact upd p _ hp hgq
  | rmdirE a p g _ _ =>
    rcases rmdir_spec p _ fs with ⟨e, _⟩ | ⟨_, _, _, _, _, _, _, hgq⟩
    · exact same (by rw [e])
    · by_cases hp : p = pCode
      · subst hp; rw [hgq] at hg; unfold getUpd at hg; rw [if_neg h0, if_pos rfl] at hg; cases hg
      · exact upd p _ hp hgq
  | rmdirC p g _ _ =>
    rcases rmdir_spec p _ fs with ⟨e, _⟩ | ⟨_, _, _, _, _, _, _, hgq⟩
    · exact same (by rw [e])
    · by_cases hp : p = pCode
      · subst hp; rw [hgq] at hg; unfold getUpd at hg; rw [if_neg h0, if_pos rfl] at hg; cases hg
      · exact upd p _ hp hgq

/-- … whole or torn -/
theorem crashOK_step (hco : CodeOK π) {lvl : Level} {who : Nat → Prop} {fs : FS} {o : Op}
    (h : CrashOK π fs) (ha : Allowed π lvl who fs o) (hs : CodeSafe π fs o) :
    CrashOK π (apply o fs).2 ∧ ∀ n, CrashOK π (apply (tear n o) fs).2 :=
  ⟨trust_apply hco h ha hs, fun n => trust_apply hco h (ha.tear n) (codeSafe_tear n hs)⟩

/-- the state after all the calls of a solo run -/
theorem crash_all {α : Type} (p : Prog α) : ∀ fs, crash (steps p fs) none p fs = (run p fs).2 := by
  induction p with
  | ret a => intro fs; rfl
  | raise e => intro fs; rfl
  | op o k ih =>
    intro fs
    show crash (steps (k (apply o fs).1) (apply o fs).2 + 1) none (.op o k) fs = _
    unfold crash
    cases hst : steps (k (apply o fs).1) (apply o fs).2 with
    | zero => simp only; rw [← hst]; exact ih _ _
    | succ n => simp only; rw [← hst]; exact ih _ _

end JoblibModel.Store
