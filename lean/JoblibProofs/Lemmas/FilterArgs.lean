import JoblibModel.FilterArgs
/-! Helper lemmas for C07 (kept apart from the property theorems). Core Lean only. -/
namespace JoblibModel.FilterArgs

/-- Results can be compared by `decide` (concrete witnesses only). -/
instance instDecEqExcept {ε α : Type} [DecidableEq ε] [DecidableEq α] : DecidableEq (Except ε α)
  | .ok a, .ok b => if h : a = b then isTrue (by rw [h]) else isFalse (by intro e; cases e; exact h rfl)
  | .error a, .error b =>
    if h : a = b then isTrue (by rw [h]) else isFalse (by intro e; cases e; exact h rfl)
  | .ok _, .error _ => isFalse (by intro e; cases e)
  | .error _, .ok _ => isFalse (by intro e; cases e)

/-! ### Python dict as association list -/
section PyDict
variable {κ ν : Type} [DecidableEq κ]

theorem dget_dset_self (k : κ) (v : ν) (d : List (κ × ν)) : dget k (dset k v d) = some v := by
  induction d with
  | nil => simp [dset, dget]
  | cons x r ih =>
    obtain ⟨k', v'⟩ := x
    by_cases h : k' = k <;> simp [dset, dget, h, ih]

theorem dget_dset_ne {k k' : κ} (h : k' ≠ k) (v : ν) (d : List (κ × ν)) :
    dget k' (dset k v d) = dget k' d := by
  induction d with
  | nil => simp [dset, dget, Ne.symm h]
  | cons x r ih =>
    obtain ⟨k'', v''⟩ := x
    by_cases h1 : k'' = k
    · subst h1; simp [dset, dget, Ne.symm h]
    · by_cases h2 : k'' = k'
      · subst h2; simp [dset, dget, h1]
      · simp [dset, dget, h1, h2, ih]

theorem dset_of_none {k : κ} {d : List (κ × ν)} (h : dget k d = none) (v : ν) :
    dset k v d = d ++ [(k, v)] := by
  induction d with
  | nil => rfl
  | cons x r ih =>
    obtain ⟨k', v'⟩ := x
    by_cases h1 : k' = k
    · simp [dget, h1] at h
    · simp [dget, h1] at h; simp [dset, h1, ih h]

theorem dset_of_some {k : κ} {v : ν} {d : List (κ × ν)} (h : dget k d = some v) :
    dset k v d = d := by
  induction d with
  | nil => simp [dget] at h
  | cons x r ih =>
    obtain ⟨k', v'⟩ := x
    by_cases h1 : k' = k
    · simp [dget, h1] at h; simp [dset, h1, h]
    · simp [dget, h1] at h; simp [dset, h1, ih h]

theorem dget_isSome_iff (k : κ) (d : List (κ × ν)) : (dget k d).isSome ↔ k ∈ d.map Prod.fst := by
  induction d with
  | nil => simp [dget]
  | cons x r ih =>
    obtain ⟨k', v'⟩ := x
    by_cases h1 : k' = k
    · simp [dget, h1]
    · simp [dget, h1, ih]; intro h; exact absurd h.symm h1

theorem dget_none_iff (k : κ) (d : List (κ × ν)) : dget k d = none ↔ k ∉ d.map Prod.fst := by
  rw [← dget_isSome_iff]; cases dget k d <;> simp

theorem dget_append (k : κ) (d e : List (κ × ν)) :
    dget k (d ++ e) = match dget k d with | some v => some v | none => dget k e := by
  induction d with
  | nil => simp [dget]
  | cons x r ih =>
    obtain ⟨k', v'⟩ := x
    by_cases h1 : k' = k <;> simp [dget, h1, ih]

theorem dget_of_mem {k : κ} {v : ν} {d : List (κ × ν)} (hn : (d.map Prod.fst).Nodup)
    (h : (k, v) ∈ d) : dget k d = some v := by
  induction d with
  | nil => simp at h
  | cons x r ih =>
    obtain ⟨k', v'⟩ := x
    simp only [List.map_cons, List.nodup_cons] at hn
    rcases List.mem_cons.mp h with h | h
    · cases h; simp [dget]
    · have : k' ≠ k := by
        intro e; subst e; exact hn.1 (List.mem_map.mpr ⟨(k', v), h, rfl⟩)
      simp [dget, this, ih hn.2 h]

theorem mem_of_dget {k : κ} {v : ν} {d : List (κ × ν)} (h : dget k d = some v) : (k, v) ∈ d := by
  induction d with
  | nil => simp [dget] at h
  | cons x r ih =>
    obtain ⟨k', v'⟩ := x
    by_cases h1 : k' = k
    · simp [dget, h1] at h; simp [h1, h]
    · simp [dget, h1] at h; exact List.mem_cons_of_mem _ (ih h)

theorem keys_dset (k : κ) (v : ν) (d : List (κ × ν)) :
    (dset k v d).map Prod.fst = if (dget k d).isSome then d.map Prod.fst else d.map Prod.fst ++ [k] := by
  induction d with
  | nil => simp [dset, dget]
  | cons x r ih =>
    obtain ⟨k', v'⟩ := x
    by_cases h1 : k' = k
    · simp [dset, dget, h1]
    · simp only [dset, dget, h1, if_false, List.map_cons, ih]
      split <;> simp

theorem nodup_keys_dset (k : κ) (v : ν) {d : List (κ × ν)} (h : (d.map Prod.fst).Nodup) :
    ((dset k v d).map Prod.fst).Nodup := by
  rw [keys_dset]
  split
  · exact h
  · rename_i hk
    have : k ∉ d.map Prod.fst := by rw [← dget_isSome_iff]; exact hk
    rw [List.nodup_append]
    refine ⟨h, by simp, ?_⟩
    intro a ha b hb
    simp at hb; subst hb
    intro e; subst e; exact this ha

theorem dpop_eq_filter {d : List (κ × ν)} (hn : (d.map Prod.fst).Nodup) (k : κ) :
    dpop k d = d.filter (fun e => decide (e.1 ≠ k)) := by
  induction d with
  | nil => rfl
  | cons x r ih =>
    obtain ⟨k', v'⟩ := x
    simp only [List.map_cons, List.nodup_cons] at hn
    by_cases h1 : k' = k
    · subst h1
      have hr : r.filter (fun e => decide (e.1 ≠ k')) = r := by
        rw [List.filter_eq_self]
        intro e he
        have : e.1 ≠ k' := by
          intro h; apply hn.1; rw [← h]; exact List.mem_map.mpr ⟨e, he, rfl⟩
        simpa using this
      simp [dpop]
      simpa using hr.symm
    · simp [dpop, h1, ih hn.2]

theorem dpop_sublist (k : κ) (d : List (κ × ν)) : (dpop k d).Sublist d := by
  induction d with
  | nil => exact List.Sublist.slnil
  | cons x r ih =>
    obtain ⟨k', v'⟩ := x
    by_cases h1 : k' = k
    · simp [dpop, h1]
    · simp [dpop, h1, ih]

theorem nodup_keys_dpop (k : κ) {d : List (κ × ν)} (h : (d.map Prod.fst).Nodup) :
    ((dpop k d).map Prod.fst).Nodup :=
  List.Nodup.sublist ((dpop_sublist k d).map _) h

theorem dget_dpop_ne {k k' : κ} (h : k' ≠ k) (d : List (κ × ν)) :
    dget k' (dpop k d) = dget k' d := by
  induction d with
  | nil => rfl
  | cons x r ih =>
    obtain ⟨k'', v''⟩ := x
    by_cases h1 : k'' = k
    · subst h1; simp [dpop, dget, Ne.symm h]
    · by_cases h2 : k'' = k'
      · subst h2; simp [dpop, dget, h1]
      · simp [dpop, dget, h1, h2, ih]

end PyDict

/-! ### The parameter loop -/

/-- `p.kind = k` as a Bool (for `filter` / `any`). -/
def Param.is (k : Kind) (p : Param) : Bool := decide (p.kind = k)

theorem walkStep_argNames (w : Walk) (p : Param) :
    (walkStep w p).argNames = w.argNames ++ (if p.named then [p.name] else []) := by
  obtain ⟨n, k, dv⟩ := p
  cases k <;> cases dv <;> simp [walkStep, Param.named]

theorem walkStep_argKwonly (w : Walk) (p : Param) :
    (walkStep w p).argKwonly = w.argKwonly ++ (if p.is .kwOnly then [p.name] else []) := by
  obtain ⟨n, k, dv⟩ := p
  cases k <;> cases dv <;> simp [walkStep, Param.is]

theorem walkStep_argPosonly (w : Walk) (p : Param) :
    (walkStep w p).argPosonly = w.argPosonly ++ (if p.is .posOnly then [p.name] else []) := by
  obtain ⟨n, k, dv⟩ := p
  cases k <;> cases dv <;> simp [walkStep, Param.is]

theorem walkStep_argVarargs (w : Walk) (p : Param) :
    (walkStep w p).argVarargs.isSome = (w.argVarargs.isSome || p.is .varPos) := by
  obtain ⟨n, k, dv⟩ := p
  cases k <;> cases dv <;> simp [walkStep, Param.is]

theorem walkStep_argVarkw (w : Walk) (p : Param) :
    (walkStep w p).argVarkw.isSome = (w.argVarkw.isSome || p.is .varKw) := by
  obtain ⟨n, k, dv⟩ := p
  cases k <;> cases dv <;> simp [walkStep, Param.is]

theorem walkStep_argDefaults (w : Walk) (p : Param) :
    (walkStep w p).argDefaults =
      match p.default with
      | some dv => dset p.name dv w.argDefaults
      | none => w.argDefaults := by
  obtain ⟨n, k, dv⟩ := p
  cases k <;> cases dv <;> simp [walkStep]

theorem walkFrom_argNames (w : Walk) (s : Sig) :
    (walkFrom w s).argNames = w.argNames ++ (s.filter Param.named).map (·.name) := by
  induction s generalizing w with
  | nil => simp [walkFrom]
  | cons p ps ih =>
    simp only [walkFrom, ih, walkStep_argNames, List.filter_cons]
    cases p.named <;> simp

theorem walkFrom_argKwonly (w : Walk) (s : Sig) :
    (walkFrom w s).argKwonly = w.argKwonly ++ (s.filter (Param.is .kwOnly)).map (·.name) := by
  induction s generalizing w with
  | nil => simp [walkFrom]
  | cons p ps ih =>
    simp only [walkFrom, ih, walkStep_argKwonly, List.filter_cons]
    cases p.is .kwOnly <;> simp

theorem walkFrom_argPosonly (w : Walk) (s : Sig) :
    (walkFrom w s).argPosonly = w.argPosonly ++ (s.filter (Param.is .posOnly)).map (·.name) := by
  induction s generalizing w with
  | nil => simp [walkFrom]
  | cons p ps ih =>
    simp only [walkFrom, ih, walkStep_argPosonly, List.filter_cons]
    cases p.is .posOnly <;> simp

theorem walkFrom_argVarargs (w : Walk) (s : Sig) :
    (walkFrom w s).argVarargs.isSome = (w.argVarargs.isSome || s.any (Param.is .varPos)) := by
  induction s generalizing w with
  | nil => simp [walkFrom]
  | cons p ps ih => simp [walkFrom, ih, walkStep_argVarargs, Bool.or_assoc]

theorem walkFrom_argVarkw (w : Walk) (s : Sig) :
    (walkFrom w s).argVarkw.isSome = (w.argVarkw.isSome || s.any (Param.is .varKw)) := by
  induction s generalizing w with
  | nil => simp [walkFrom]
  | cons p ps ih => simp [walkFrom, ih, walkStep_argVarkw, Bool.or_assoc]

theorem walkFrom_argDefaults_notin (w : Walk) (s : Sig) (n : Nat) (h : n ∉ s.map (·.name)) :
    dget n (walkFrom w s).argDefaults = dget n w.argDefaults := by
  induction s generalizing w with
  | nil => simp [walkFrom]
  | cons p ps ih =>
    simp only [List.map_cons, List.mem_cons, not_or] at h
    rw [walkFrom, ih _ h.2, walkStep_argDefaults]
    cases p.default with
    | none => rfl
    | some dv => exact dget_dset_ne h.1 _ _

theorem walkFrom_argDefaults (w : Walk) (s : Sig) (hn : (s.map (·.name)).Nodup) (p : Param)
    (hp : p ∈ s) :
    dget p.name (walkFrom w s).argDefaults =
      match p.default with
      | some dv => some dv
      | none => dget p.name w.argDefaults := by
  induction s generalizing w with
  | nil => simp at hp
  | cons q ps ih =>
    simp only [List.map_cons, List.nodup_cons] at hn
    rcases List.mem_cons.mp hp with rfl | hp
    · rw [walkFrom, walkFrom_argDefaults_notin _ _ _ hn.1, walkStep_argDefaults]
      cases p.default with
      | none => rfl
      | some dv => exact dget_dset_self _ _ _
    · have hne : p.name ≠ q.name := by
        intro e; apply hn.1; rw [← e]; exact List.mem_map.mpr ⟨p, hp, rfl⟩
      rw [walkFrom, ih _ hn.2 hp, walkStep_argDefaults]
      cases p.default with
      | some dv => rfl
      | none =>
        cases q.default with
        | none => rfl
        | some dv => exact dget_dset_ne hne _ _

/-! ### Well-formed signatures -/

theorem WF.nodup_names {s : Sig} (h : WF s) : (s.map (·.name)).Nodup := by
  unfold WF at h
  rw [List.Nodup, List.pairwise_map]
  exact h.imp (fun hb => hb.1)

theorem eq_of_name_eq {s : Sig} (hn : (s.map (·.name)).Nodup) {p q : Param} (hp : p ∈ s) (hq : q ∈ s)
    (e : p.name = q.name) : p = q := by
  induction s with
  | nil => simp at hp
  | cons x r ih =>
    simp only [List.map_cons, List.nodup_cons] at hn
    rcases List.mem_cons.mp hp with hp' | hp' <;> rcases List.mem_cons.mp hq with hq' | hq'
    · rw [hp', hq']
    · subst hp'; exact (hn.1 (List.mem_map.mpr ⟨q, hq', e.symm⟩)).elim
    · subst hq'; exact (hn.1 (List.mem_map.mpr ⟨p, hp', e⟩)).elim
    · exact ih hn.2 hp' hq'

/-- What the rest of `filter_args` needs to know about the locals of the parameter loop. -/
structure WalkOK (w : Walk) (s : Sig) : Prop where
  names : w.argNames = (s.filter Param.named).map (·.name)
  kwonly : w.argKwonly = (s.filter (Param.is .kwOnly)).map (·.name)
  posonly : ∀ n, n ∈ w.argPosonly ↔ n ∈ (s.filter (Param.is .posOnly)).map (·.name)
  defaults : ∀ p ∈ s, dget p.name w.argDefaults = p.default
  varargs : w.argVarargs.isSome = s.any (Param.is .varPos)
  varkw : w.argVarkw.isSome = s.any (Param.is .varKw)

theorem walkOK_walk {s : Sig} (h : WF s) : WalkOK (walk s) s where
  names := by simp [walk, walkFrom_argNames]
  kwonly := by simp [walk, walkFrom_argKwonly]
  posonly := by simp [walk, walkFrom_argPosonly]
  defaults := by
    intro p hp
    rw [walk, walkFrom_argDefaults _ _ h.nodup_names p hp]
    cases p.default <;> simp [dget]
  varargs := by simp [walk, walkFrom_argVarargs]
  varkw := by simp [walk, walkFrom_argVarkw]

theorem WalkOK.mem_kwonly {w : Walk} {s : Sig} (ok : WalkOK w s) (h : WF s) {p : Param} (hp : p ∈ s) :
    p.name ∈ w.argKwonly ↔ p.kind = .kwOnly := by
  rw [ok.kwonly]
  constructor
  · intro hm
    obtain ⟨q, hq, e⟩ := List.mem_map.mp hm
    rw [List.mem_filter] at hq
    have := eq_of_name_eq h.nodup_names hq.1 hp e
    subst this
    simpa [Param.is] using hq.2
  · intro hk
    exact List.mem_map.mpr ⟨p, List.mem_filter.mpr ⟨hp, by simp [Param.is, hk]⟩, rfl⟩

theorem WalkOK.mem_posonly {w : Walk} {s : Sig} (ok : WalkOK w s) (h : WF s) {p : Param} (hp : p ∈ s) :
    p.name ∈ w.argPosonly ↔ p.kind = .posOnly := by
  rw [ok.posonly]
  constructor
  · intro hm
    obtain ⟨q, hq, e⟩ := List.mem_map.mp hm
    rw [List.mem_filter] at hq
    have := eq_of_name_eq h.nodup_names hq.1 hp e
    subst this
    simpa [Param.is] using hq.2
  · intro hk
    exact List.mem_map.mpr ⟨p, List.mem_filter.mpr ⟨hp, by simp [Param.is, hk]⟩, rfl⟩

/-! ### One step of `bindGo` -/

theorem map_eq_ok {ε α β : Type} {f : α → β} {x : Except ε α} {b : β} :
    x.map f = .ok b ↔ ∃ r, x = .ok r ∧ b = f r := by
  cases x <;> simp [Except.map, eq_comm]

/-- How one parameter is bound: `Step p args kw v args' kw'` — with `args` positionals and `kw`
keywords still unconsumed, `p` gets `v` and leaves `args'`, `kw'`. -/
inductive Step (p : Param) : List Nat → List (Nat × Nat) → Val → List Nat → List (Nat × Nat) → Prop
  | posOnlyArg (a : Nat) (as : List Nat) (kw : List (Nat × Nat)) :
      p.kind = .posOnly → Step p (a :: as) kw (.one a) as kw
  | posOnlyDefault (kw : List (Nat × Nat)) (dv : Nat) :
      p.kind = .posOnly → p.default = some dv → Step p [] kw (.one dv) [] kw
  | posKwArg (a : Nat) (as : List Nat) (kw : List (Nat × Nat)) :
      p.kind = .posKw → dget p.name kw = none → Step p (a :: as) kw (.one a) as kw
  | keyword (kw : List (Nat × Nat)) (x : Nat) :
      p.byKeyword = true → dget p.name kw = some x → Step p [] kw (.one x) [] (dpop p.name kw)
  | default (kw : List (Nat × Nat)) (dv : Nat) :
      p.byKeyword = true → dget p.name kw = none → p.default = some dv → Step p [] kw (.one dv) [] kw
  | varPos (as : List Nat) (kw : List (Nat × Nat)) :
      p.kind = .varPos → Step p as kw (.seq as) [] kw
  | varKw (kw : List (Nat × Nat)) :
      p.kind = .varKw → Step p [] kw (.map kw) [] []

theorem bindGo_nil_ok {as : List Nat} {kw : List (Nat × Nat)} {b : List (Nat × Val)}
    (h : bindGo [] as kw = .ok b) : as = [] ∧ kw = [] ∧ b = [] := by
  cases as <;> cases kw <;> simp [bindGo] at h
  exact ⟨rfl, rfl, h⟩

theorem bindGo_cons_ok {p : Param} {ps : List Param} {as : List Nat} {kw : List (Nat × Nat)}
    {b : List (Nat × Val)} (h : bindGo (p :: ps) as kw = .ok b) :
    ∃ v as' kw' r, Step p as kw v as' kw' ∧ bindGo ps as' kw' = .ok r ∧ b = (p.name, v) :: r := by
  unfold bindGo at h
  split at h
  · -- posOnly
    rename_i hk
    split at h
    · obtain ⟨r, hr, rfl⟩ := map_eq_ok.mp h
      exact ⟨_, _, _, r, .posOnlyArg _ _ _ hk, hr, rfl⟩
    · split at h
      · rename_i dv hd
        obtain ⟨r, hr, rfl⟩ := map_eq_ok.mp h
        exact ⟨_, _, _, r, .posOnlyDefault _ dv hk hd, hr, rfl⟩
      · simp at h
  · -- posKw
    rename_i hk
    have hbk : p.byKeyword = true := by simp [Param.byKeyword, hk]
    split at h
    · split at h
      · simp at h
      · rename_i hnone
        obtain ⟨r, hr, rfl⟩ := map_eq_ok.mp h
        refine ⟨_, _, _, r, .posKwArg _ _ _ hk ?_, hr, rfl⟩
        cases hg : dget p.name kw <;> simp [hg] at hnone ⊢
    · split at h
      · rename_i x hx
        obtain ⟨r, hr, rfl⟩ := map_eq_ok.mp h
        exact ⟨_, _, _, r, .keyword _ x hbk hx, hr, rfl⟩
      · rename_i hx
        split at h
        · rename_i dv hd
          obtain ⟨r, hr, rfl⟩ := map_eq_ok.mp h
          exact ⟨_, _, _, r, .default _ dv hbk hx hd, hr, rfl⟩
        · simp at h
  · -- varPos
    rename_i hk
    obtain ⟨r, hr, rfl⟩ := map_eq_ok.mp h
    exact ⟨_, _, _, r, .varPos _ _ hk, hr, rfl⟩
  · -- kwOnly
    rename_i hk
    have hbk : p.byKeyword = true := by simp [Param.byKeyword, hk]
    split at h
    · simp at h
    · split at h
      · rename_i x hx
        obtain ⟨r, hr, rfl⟩ := map_eq_ok.mp h
        exact ⟨_, _, _, r, .keyword _ x hbk hx, hr, rfl⟩
      · rename_i hx
        split at h
        · rename_i dv hd
          obtain ⟨r, hr, rfl⟩ := map_eq_ok.mp h
          exact ⟨_, _, _, r, .default _ dv hbk hx hd, hr, rfl⟩
        · simp at h
  · -- varKw
    rename_i hk
    split at h
    · simp at h
    · obtain ⟨r, hr, rfl⟩ := map_eq_ok.mp h
      exact ⟨_, _, _, r, .varKw _ hk, hr, rfl⟩

/-! ### Reading the bound mapping back, part by part -/

theorem drop_cons_inv {α : Type} {l : List α} {n : Nat} {a : α} {r : List α} (h : l.drop n = a :: r) :
    l[n]? = some a ∧ r = l.drop (n + 1) := by
  constructor
  · have := List.getElem?_drop (xs := l) (i := n) (j := 0)
    simp [h] at this; exact this.symm
  · have := congrArg List.tail h
    simp at this; exact this.symm

theorem drop_nil_inv {α : Type} {l : List α} {n : Nat} (h : l.drop n = []) :
    l[n]? = none ∧ l.drop (n + 1) = [] := by
  rw [List.drop_eq_nil_iff] at h
  constructor
  · simp; omega
  · rw [List.drop_eq_nil_iff]; omega

/-- The key `filter_args` uses for a parameter. -/
def keyOfParam (p : Param) : Key :=
  match p.kind with
  | .varPos => .star
  | .varKw => .dstar
  | _ => .name p.name

/-- The entries of a bound mapping `b` (aligned with `ps`) for the parameters selected by `sel`,
in `filter_args`' key format. -/
def parts (sel : Param → Bool) : List Param → List (Nat × Val) → Dict
  | p :: ps, e :: b => if sel p then (keyOfParam p, e.2) :: parts sel ps b else parts sel ps b
  | _, _ => []

theorem parts_none {sel : Param → Bool} {ps : List Param} (h : ∀ q ∈ ps, sel q = false)
    (b : List (Nat × Val)) : parts sel ps b = [] := by
  induction ps generalizing b with
  | nil => simp [parts]
  | cons p ps ih =>
    cases b with
    | nil => simp [parts]
    | cons e b =>
      simp only [parts, h p (List.mem_cons_self ..)]
      exact ih (fun q hq => h q (List.mem_cons_of_mem _ hq)) b

theorem Before.rank_of_not_named {p q : Param} (h : Before p q) (hp : p.named = false) :
    p.kind.rank < q.kind.rank := h.2.2 hp

theorem rank_le_four (k : Kind) : k.rank ≤ 4 := by cases k <;> simp [Kind.rank]

/-- Nothing follows `**kwargs`. -/
theorem nil_of_varKw {p : Param} {ps : List Param} (hk : p.kind = .varKw)
    (hb : ∀ q ∈ ps, Before p q) : ps = [] := by
  cases ps with
  | nil => rfl
  | cons q r =>
    have := (hb q (List.mem_cons_self ..)).rank_of_not_named (by simp [Param.named, hk])
    have h4 := rank_le_four q.kind
    rw [hk] at this
    have h5 : (4 : Nat) < q.kind.rank := this
    omega

theorem bindGo_names {ps : List Param} {as : List Nat} {kw : List (Nat × Nat)} {b : List (Nat × Val)}
    (h : bindGo ps as kw = .ok b) : b.map Prod.fst = ps.map (·.name) := by
  induction ps generalizing as kw b with
  | nil => obtain ⟨_, _, rfl⟩ := bindGo_nil_ok h; rfl
  | cons p ps ih =>
    obtain ⟨v, as', kw', r, _, hr, rfl⟩ := bindGo_cons_ok h
    simp [ih hr]

theorem not_is_of_byKeyword {p : Param} (h : p.byKeyword = true) :
    p.is .varKw = false ∧ p.is .varPos = false ∧ p.is .posOnly = false := by
  revert h; simp only [Param.byKeyword, Param.is]; cases p.kind <;> simp

/-- The `*args` entry: the positionals left after the positional parameters. -/
theorem bindGo_star {ps : List Param} {as : List Nat} {kw : List (Nat × Nat)} {b : List (Nat × Val)}
    (hw : ps.Pairwise Before) (h : bindGo ps as kw = .ok b) :
    parts (Param.is .varPos) ps b =
      if ps.any (Param.is .varPos) then
        [(Key.star, Val.seq (as.drop (ps.filter Param.positional).length))]
      else [] := by
  induction ps generalizing as kw b with
  | nil => obtain ⟨_, _, rfl⟩ := bindGo_nil_ok h; simp [parts]
  | cons p ps ih =>
    obtain ⟨v, as', kw', r, hs, hr, rfl⟩ := bindGo_cons_ok h
    rw [List.pairwise_cons] at hw
    have ih' := ih hw.2 hr
    cases hs with
    | posOnlyArg a as' kw hk =>
      simp [parts, Param.is, Param.positional, hk, ih']
    | posOnlyDefault kw dv hk hd =>
      simp [parts, Param.is, Param.positional, hk, ih']
    | posKwArg a as' kw hk hg =>
      simp [parts, Param.is, Param.positional, hk, ih']
    | keyword kw x hbk hg =>
      simp [parts, (not_is_of_byKeyword hbk).2.1, ih']
    | default kw dv hbk hg hd =>
      simp [parts, (not_is_of_byKeyword hbk).2.1, ih']
    | varPos as kw hk =>
      have hrank : ∀ q ∈ ps, 3 ≤ q.kind.rank := by
        intro q hq
        have := (hw.1 q hq).rank_of_not_named (by simp [Param.named, hk])
        rw [hk] at this
        have h5 : (2 : Nat) < q.kind.rank := this
        omega
      have h1 : parts (Param.is .varPos) ps r = [] :=
        parts_none (fun q hq => by
          have := hrank q hq
          simp only [Param.is]; cases hq' : q.kind <;> simp [hq', Kind.rank] at this ⊢) r
      have h2 : ps.filter Param.positional = [] := by
        rw [List.filter_eq_nil_iff]
        intro q hq
        have := hrank q hq
        simp only [Param.positional]; cases hq' : q.kind <;> simp [hq', Kind.rank] at this ⊢
      simp [parts, Param.is, Param.positional, hk, h1, h2, keyOfParam]
    | varKw kw hk =>
      simp [parts, Param.is, Param.positional, hk, ih']

/-- Names of the parameters that can take a keyword. -/
def kwNames (ps : List Param) : List Nat := (ps.filter Param.byKeyword).map (·.name)

/-- The keywords no parameter takes. -/
def finalKw (ps : List Param) (kw : List (Nat × Nat)) : List (Nat × Nat) :=
  kw.filter (fun e => decide (e.1 ∉ kwNames ps))

theorem finalKw_cons_absent {p : Param} {ps : List Param} {kw : List (Nat × Nat)}
    (h : dget p.name kw = none) : finalKw (p :: ps) kw = finalKw ps kw := by
  unfold finalKw
  apply List.filter_congr
  intro e he
  have hne : e.1 ≠ p.name := by
    intro eq
    have : p.name ∈ kw.map Prod.fst := List.mem_map.mpr ⟨e, he, eq⟩
    rw [← dget_isSome_iff, h] at this; simp at this
  simp only [kwNames, List.filter_cons]
  cases p.byKeyword <;> simp [hne]

theorem finalKw_cons_not_byKeyword {p : Param} {ps : List Param} {kw : List (Nat × Nat)}
    (h : p.byKeyword = false) : finalKw (p :: ps) kw = finalKw ps kw := by
  simp [finalKw, kwNames, h]

theorem finalKw_cons_pop {p : Param} {ps : List Param} {kw : List (Nat × Nat)}
    (hn : (kw.map Prod.fst).Nodup) (h : p.byKeyword = true) :
    finalKw (p :: ps) kw = finalKw ps (dpop p.name kw) := by
  simp only [finalKw, kwNames, List.filter_cons, h, if_true, List.map_cons, dpop_eq_filter hn,
    List.filter_filter]
  apply List.filter_congr
  intro e _
  by_cases he : e.1 = p.name <;> simp [he]

theorem dstar_step {p : Param} {ps : List Param} {kw kw' : List (Nat × Nat)} {v : Val}
    {r : List (Nat × Val)} (hpis : p.is .varKw = false)
    (hfin : finalKw (p :: ps) kw = finalKw ps kw')
    (ih : parts (Param.is .varKw) ps r =
          (if ps.any (Param.is .varKw) then [(Key.dstar, Val.map (finalKw ps kw'))] else []) ∧
        (ps.any (Param.is .varKw) = false → finalKw ps kw' = [])) :
    parts (Param.is .varKw) (p :: ps) ((p.name, v) :: r) =
        (if (p :: ps).any (Param.is .varKw) then [(Key.dstar, Val.map (finalKw (p :: ps) kw))]
         else []) ∧
      ((p :: ps).any (Param.is .varKw) = false → finalKw (p :: ps) kw = []) := by
  rw [List.any_cons, hpis, Bool.false_or, hfin]
  refine ⟨?_, ih.2⟩
  rw [parts, hpis]; exact ih.1

/-- The `**kwargs` entry: the keywords no parameter takes; without `**kwargs` there are none. -/
theorem bindGo_dstar {ps : List Param} {as : List Nat} {kw : List (Nat × Nat)} {b : List (Nat × Val)}
    (hw : ps.Pairwise Before) (hn : (kw.map Prod.fst).Nodup) (h : bindGo ps as kw = .ok b) :
    parts (Param.is .varKw) ps b =
        (if ps.any (Param.is .varKw) then [(Key.dstar, Val.map (finalKw ps kw))] else []) ∧
      (ps.any (Param.is .varKw) = false → finalKw ps kw = []) := by
  induction ps generalizing as kw b with
  | nil => obtain ⟨_, rfl, rfl⟩ := bindGo_nil_ok h; simp [parts, finalKw]
  | cons p ps ih =>
    obtain ⟨v, as', kw', r, hs, hr, rfl⟩ := bindGo_cons_ok h
    rw [List.pairwise_cons] at hw
    cases hs with
    | posOnlyArg a as' kw hk =>
      exact dstar_step (by simp [Param.is, hk])
        (finalKw_cons_not_byKeyword (by simp [Param.byKeyword, hk])) (ih hw.2 hn hr)
    | posOnlyDefault kw dv hk hd =>
      exact dstar_step (by simp [Param.is, hk])
        (finalKw_cons_not_byKeyword (by simp [Param.byKeyword, hk])) (ih hw.2 hn hr)
    | posKwArg a as' kw hk hg =>
      exact dstar_step (by simp [Param.is, hk]) (finalKw_cons_absent hg) (ih hw.2 hn hr)
    | keyword kw x hbk hg =>
      exact dstar_step (not_is_of_byKeyword hbk).1 (finalKw_cons_pop hn hbk)
        (ih hw.2 (nodup_keys_dpop _ hn) hr)
    | default kw dv hbk hg hd =>
      exact dstar_step (not_is_of_byKeyword hbk).1 (finalKw_cons_absent hg) (ih hw.2 hn hr)
    | varPos as kw hk =>
      exact dstar_step (by simp [Param.is, hk])
        (finalKw_cons_not_byKeyword (by simp [Param.byKeyword, hk])) (ih hw.2 hn hr)
    | varKw kw hk =>
      have hnil := nil_of_varKw hk hw.1
      subst hnil
      obtain ⟨_, _, rfl⟩ := bindGo_nil_ok hr
      simp [parts, Param.is, hk, keyOfParam, finalKw, kwNames, Param.byKeyword]
      exact (List.filter_eq_self.mpr (fun _ _ => rfl)).symm

/-! ### The `enumerate(arg_names)` loop against `bindGo` -/

/-- What the loop knows about a parameter through the locals of the parameter loop. -/
def MemOK (w : Walk) (p : Param) : Prop :=
  (p.name ∈ w.argKwonly ↔ p.kind = .kwOnly) ∧ (p.name ∈ w.argPosonly ↔ p.kind = .posOnly) ∧
    dget p.name w.argDefaults = p.default ∧ (p.kind = .varPos → w.argVarargs.isSome = true)

theorem parts_named_cons {p : Param} {ps : List Param} {v : Val} {r : List (Nat × Val)}
    (h : p.named = true) :
    parts Param.named (p :: ps) ((p.name, v) :: r) = (Key.name p.name, v) :: parts Param.named ps r := by
  have : keyOfParam p = .name p.name := by
    revert h; simp only [Param.named, keyOfParam]; cases p.kind <;> simp
  simp [parts, h, this]

theorem mainLoop_step {w : Walk} {args : List Nat} {kwargs : List (Nat × Nat)} {n : Nat} {ns : List Nat}
    {pos : Nat} {d : Dict} (v : Nat)
    (h : (∃ a, positionalArg w args n pos = some a ∧ n ∉ w.argKwonly ∧ v = a) ∨
      (positionalArg w args n pos = none ∧
        ((n ∉ w.argPosonly ∧ dget n kwargs = some v) ∨
         ((n ∈ w.argPosonly ∨ dget n kwargs = none) ∧ dget n w.argDefaults = some v)))) :
    mainLoop w args kwargs (n :: ns) pos d =
      mainLoop w args kwargs ns (pos + 1) (dset (.name n) (.one v) d) := by
  rw [mainLoop]
  rcases h with ⟨a, h1, h2, rfl⟩ | ⟨h1, h2⟩
  · simp [h1, h2]
  · rcases h2 with ⟨h2, h3⟩ | ⟨h2, h3⟩
    · simp [h1, h2, h3]
    · have : (if n ∈ w.argPosonly then none else dget n kwargs) = none := by
        rcases h2 with h2 | h2 <;> simp [h2]
      simp [h1, this, h3]

theorem mainLoop_spec (w : Walk) (args : List Nat) (kwargs : List (Nat × Nat)) :
    ∀ (ps : List Param) (pos : Nat) (d : Dict) (as : List Nat) (kw : List (Nat × Nat))
      (b : List (Nat × Val)),
      ps.Pairwise Before →
      (∀ p ∈ ps, MemOK w p) →
      (as = args.drop pos ∨ (as = [] ∧ w.argVarargs.isSome = true ∧ ∀ p ∈ ps, 3 ≤ p.kind.rank)) →
      (∀ p ∈ ps, dget p.name kw = dget p.name kwargs) →
      (∀ p ∈ ps, dget (Key.name p.name) d = none) →
      bindGo ps as kw = .ok b →
      mainLoop w args kwargs ((ps.filter Param.named).map (·.name)) pos d
        = .ok (d ++ parts Param.named ps b) := by
  intro ps
  induction ps with
  | nil =>
    intro pos d as kw b _ _ _ _ _ h
    obtain ⟨_, _, rfl⟩ := bindGo_nil_ok h
    simp [mainLoop, parts]
  | cons p ps ih =>
    intro pos d as kw b hw hm hA hkw hd h
    obtain ⟨v, as', kw', r, hs, hr, rfl⟩ := bindGo_cons_ok h
    rw [List.pairwise_cons] at hw
    obtain ⟨hm1, hm2, hm3, hm4⟩ := hm p (List.mem_cons_self ..)
    have hmr : ∀ q ∈ ps, MemOK w q := fun q hq => hm q (List.mem_cons_of_mem _ hq)
    have hne : ∀ q ∈ ps, q.name ≠ p.name := fun q hq => Ne.symm (hw.1 q hq).1
    have hdp : dget (Key.name p.name) d = none := hd p (List.mem_cons_self ..)
    -- the dict after binding `p` still has no entry for the later parameters
    have hd' : ∀ x : Val, ∀ q ∈ ps, dget (Key.name q.name) (dset (.name p.name) x d) = none := by
      intro x q hq
      rw [dget_dset_ne (by simpa using hne q hq)]
      exact hd q (List.mem_cons_of_mem _ hq)
    have hkwr : ∀ q ∈ ps, dget q.name kw = dget q.name kwargs :=
      fun q hq => hkw q (List.mem_cons_of_mem _ hq)
    -- shape of the goal when `p` is an entry of arg_names bound to `x`
    have close : ∀ (x : Nat) (as' : List Nat) (kw' : List (Nat × Nat)),
        p.named = true →
        bindGo ps as' kw' = .ok r →
        (as' = args.drop (pos + 1) ∨
          (as' = [] ∧ w.argVarargs.isSome = true ∧ ∀ q ∈ ps, 3 ≤ q.kind.rank)) →
        (∀ q ∈ ps, dget q.name kw' = dget q.name kwargs) →
        mainLoop w args kwargs (p.name :: (ps.filter Param.named).map (·.name)) pos d =
          mainLoop w args kwargs ((ps.filter Param.named).map (·.name)) (pos + 1)
            (dset (.name p.name) (.one x) d) →
        mainLoop w args kwargs (((p :: ps).filter Param.named).map (·.name)) pos d
          = .ok (d ++ parts Param.named (p :: ps) ((p.name, .one x) :: r)) := by
      intro x as' kw' hnamed hr' hA' hkw' hstep
      rw [List.filter_cons, if_pos hnamed, List.map_cons, hstep,
        ih (pos + 1) _ as' kw' r hw.2 hmr hA' hkw' (hd' _) hr', dset_of_none hdp,
        parts_named_cons hnamed]
      simp
    have hBrest : ∀ {as0 : List Nat}, (as0 = [] ∧ w.argVarargs.isSome = true ∧ ∀ q ∈ p :: ps, 3 ≤ q.kind.rank) →
        (([] : List Nat) = [] ∧ w.argVarargs.isSome = true ∧ ∀ q ∈ ps, 3 ≤ q.kind.rank) :=
      fun hB => ⟨rfl, hB.2.1, fun q hq => hB.2.2 q (List.mem_cons_of_mem _ hq)⟩
    cases hs with
    | posOnlyArg a as' kw hk =>
      have hnk : p.name ∉ w.argKwonly := by rw [hm1, hk]; simp
      rcases hA with hA | hB
      · obtain ⟨hget, hdrop⟩ := drop_cons_inv hA.symm
        refine close a as' kw (by simp [Param.named, hk]) hr (.inl hdrop) hkwr
          (mainLoop_step a (.inl ⟨a, ?_, hnk, rfl⟩))
        simp [positionalArg, hnk, hget]
      · simp at hB
    | posOnlyDefault kw dv hk hd0 =>
      have hnk : p.name ∉ w.argKwonly := by rw [hm1, hk]; simp
      rcases hA with hA | hB
      · obtain ⟨hget, hdrop⟩ := drop_nil_inv hA.symm
        refine close dv [] kw (by simp [Param.named, hk]) hr (.inl hdrop.symm) hkwr
          (mainLoop_step dv (.inr ⟨?_, .inr ⟨.inl (hm2.mpr hk), by rw [hm3, hd0]⟩⟩))
        simp [positionalArg, hnk, hget]
      · have := hB.2.2 p (List.mem_cons_self ..)
        rw [hk] at this; simp [Kind.rank] at this
    | posKwArg a as' kw hk hg =>
      have hnk : p.name ∉ w.argKwonly := by rw [hm1, hk]; simp
      rcases hA with hA | hB
      · obtain ⟨hget, hdrop⟩ := drop_cons_inv hA.symm
        refine close a as' kw (by simp [Param.named, hk]) hr (.inl hdrop) hkwr
          (mainLoop_step a (.inl ⟨a, ?_, hnk, rfl⟩))
        simp [positionalArg, hnk, hget]
      · simp at hB
    | keyword kw x hbk hg =>
      have hnamed : p.named = true := by
        revert hbk; simp only [Param.byKeyword, Param.named]; cases p.kind <;> simp
      have hnp : p.name ∉ w.argPosonly := by
        rw [hm2]; revert hbk; simp only [Param.byKeyword]; cases p.kind <;> simp
      have hpos : positionalArg w args p.name pos = none := by
        unfold positionalArg
        split
        · rfl
        · rename_i hc
          rcases hA with hA | hB
          · exact (drop_nil_inv hA.symm).1
          · exfalso; apply hc
            have := hB.2.2 p (List.mem_cons_self ..)
            refine ⟨hm1.mpr ?_, hB.2.1⟩
            revert hbk this; simp only [Param.byKeyword]
            cases p.kind <;> simp [Kind.rank]
      have hA' : ([] : List Nat) = args.drop (pos + 1) ∨
          (([] : List Nat) = [] ∧ w.argVarargs.isSome = true ∧ ∀ q ∈ ps, 3 ≤ q.kind.rank) := by
        rcases hA with hA | hB
        · exact .inl (drop_nil_inv hA.symm).2.symm
        · exact .inr (hBrest hB)
      refine close x [] _ hnamed hr hA' ?_
        (mainLoop_step x (.inr ⟨hpos, .inl ⟨hnp, ?_⟩⟩))
      · intro q hq
        rw [dget_dpop_ne (hne q hq)]; exact hkwr q hq
      · rw [← hkw p (List.mem_cons_self ..)]; exact hg
    | default kw dv hbk hg hd0 =>
      have hnamed : p.named = true := by
        revert hbk; simp only [Param.byKeyword, Param.named]; cases p.kind <;> simp
      have hpos : positionalArg w args p.name pos = none := by
        unfold positionalArg
        split
        · rfl
        · rename_i hc
          rcases hA with hA | hB
          · exact (drop_nil_inv hA.symm).1
          · exfalso; apply hc
            have := hB.2.2 p (List.mem_cons_self ..)
            refine ⟨hm1.mpr ?_, hB.2.1⟩
            revert hbk this; simp only [Param.byKeyword]
            cases p.kind <;> simp [Kind.rank]
      have hA' : ([] : List Nat) = args.drop (pos + 1) ∨
          (([] : List Nat) = [] ∧ w.argVarargs.isSome = true ∧ ∀ q ∈ ps, 3 ≤ q.kind.rank) := by
        rcases hA with hA | hB
        · exact .inl (drop_nil_inv hA.symm).2.symm
        · exact .inr (hBrest hB)
      refine close dv [] kw hnamed hr hA' hkwr
        (mainLoop_step dv (.inr ⟨hpos, .inr ⟨.inr ?_, by rw [hm3, hd0]⟩⟩))
      rw [← hkw p (List.mem_cons_self ..)]; exact hg
    | varPos as kw hk =>
      have hnn : p.named = false := by simp [Param.named, hk]
      have hrank : ∀ q ∈ ps, 3 ≤ q.kind.rank := by
        intro q hq
        have := (hw.1 q hq).rank_of_not_named hnn
        rw [hk] at this
        have h5 : (2 : Nat) < q.kind.rank := this
        omega
      rw [List.filter_cons, if_neg (by simp [hnn]),
        ih pos d [] kw r hw.2 hmr (.inr ⟨rfl, hm4 hk, hrank⟩) hkwr
          (fun q hq => hd q (List.mem_cons_of_mem _ hq)) hr]
      simp [parts, hnn]
    | varKw kw hk =>
      have hnn : p.named = false := by simp [Param.named, hk]
      have hnil := nil_of_varKw hk hw.1
      subst hnil
      obtain ⟨_, _, rfl⟩ := bindGo_nil_ok hr
      simp [mainLoop, parts, hnn]

/-- A parameter whose name is among the keywords is bound to that keyword's value. -/
theorem bindGo_keyword_value {ps : List Param} {as : List Nat} {kw : List (Nat × Nat)}
    {b : List (Nat × Val)} (hw : ps.Pairwise Before) (h : bindGo ps as kw = .ok b)
    {p : Param} (hp : p ∈ ps) (hbk : p.byKeyword = true) {v : Nat} (hv : dget p.name kw = some v) :
    (Key.name p.name, Val.one v) ∈ parts Param.named ps b := by
  induction ps generalizing as kw b with
  | nil => simp at hp
  | cons q ps ih =>
    obtain ⟨x, as', kw', r, hs, hr, rfl⟩ := bindGo_cons_ok h
    rw [List.pairwise_cons] at hw
    rcases List.mem_cons.mp hp with rfl | hp'
    · -- `p` itself: only the `keyword` step is possible
      have hnamed : p.named = true := by
        revert hbk; simp only [Param.byKeyword, Param.named]; cases p.kind <;> simp
      rw [parts_named_cons hnamed]
      cases hs with
      | posOnlyArg a as' kw hk => simp [Param.byKeyword, hk] at hbk
      | posOnlyDefault kw dv hk hd => simp [Param.byKeyword, hk] at hbk
      | posKwArg a as' kw hk hg => rw [hg] at hv; simp at hv
      | keyword kw x hbk' hg => rw [hg] at hv; cases hv; exact List.mem_cons_self ..
      | default kw dv hbk' hg hd => rw [hg] at hv; simp at hv
      | varPos as kw hk => simp [Param.byKeyword, hk] at hbk
      | varKw kw hk => simp [Param.byKeyword, hk] at hbk
    · have hne : p.name ≠ q.name := Ne.symm (hw.1 p hp').1
      have hmem : ∀ {kw''}, dget p.name kw'' = some v → bindGo ps as' kw'' = .ok r →
          (Key.name p.name, Val.one v) ∈ parts Param.named (q :: ps) ((q.name, x) :: r) := by
        intro kw'' hv' hr'
        have := ih hw.2 hr' hp' hv'
        simp only [parts]
        split
        · exact List.mem_cons_of_mem _ this
        · exact this
      cases hs with
      | posOnlyArg a as' kw hk => exact hmem hv hr
      | posOnlyDefault kw dv hk hd => exact hmem hv hr
      | posKwArg a as' kw hk hg => exact hmem hv hr
      | keyword kw x hbk' hg => exact hmem (by rw [dget_dpop_ne hne]; exact hv) hr
      | default kw dv hbk' hg hd => exact hmem hv hr
      | varPos as kw hk => exact hmem hv hr
      | varKw kw hk =>
        have hnil := nil_of_varKw hk hw.1
        subst hnil; simp at hp'

theorem parts_named_keys {ps : List Param} {b : List (Nat × Val)} (hl : b.length = ps.length) :
    (parts Param.named ps b).map Prod.fst = ((ps.filter Param.named).map (·.name)).map Key.name := by
  induction ps generalizing b with
  | nil => simp [parts]
  | cons p ps ih =>
    cases b with
    | nil => simp at hl
    | cons e b =>
      simp only [List.length_cons, Nat.add_right_cancel_iff] at hl
      simp only [parts, List.filter_cons]
      by_cases hn : p.named = true
      · have : keyOfParam p = .name p.name := by
          revert hn; simp only [Param.named, keyOfParam]; cases p.kind <;> simp
        simp [hn, this, ih hl]
      · simp [hn, ih hl]

/-! ### `sorted(kwargs.items())` -/

theorem insertKw_perm (e : Nat × Nat) (l : List (Nat × Nat)) : (insertKw e l).Perm (e :: l) := by
  induction l with
  | nil => simp [insertKw]
  | cons x r ih =>
    simp only [insertKw]
    split
    · exact List.Perm.refl _
    · exact (List.Perm.cons x ih).trans (List.Perm.swap e x r)

theorem sortKw_perm (l : List (Nat × Nat)) : (sortKw l).Perm l := by
  induction l with
  | nil => simp [sortKw]
  | cons e r ih => exact (insertKw_perm e _).trans (List.Perm.cons e ih)

/-! ### The keyword loop on a call Python accepts -/

/-- The test `arg_name in arg_dict and arg_name not in arg_posonlyargs`. -/
def kwTaken (w : Walk) (d : Dict) (k : Nat) : Bool :=
  decide ((dget (Key.name k) d).isSome = true ∧ k ∉ w.argPosonly)

theorem kwLoop_ok (w : Walk) (d : Dict) :
    ∀ (l vk : List (Nat × Nat)),
      (l.map Prod.fst).Nodup → (∀ e ∈ l, dget e.1 vk = none) →
      (∀ e ∈ l, kwTaken w d e.1 = true → dget (Key.name e.1) d = some (Val.one e.2)) →
      (∀ e ∈ l, kwTaken w d e.1 = false → w.argVarkw.isSome = true) →
      kwLoop w l d vk = .ok (d, vk ++ l.filter (fun e => !kwTaken w d e.1)) := by
  intro l
  induction l with
  | nil => intro vk _ _ _ _; simp [kwLoop]
  | cons e r ih =>
    intro vk hn hvk ht hf
    obtain ⟨k, v⟩ := e
    simp only [List.map_cons, List.nodup_cons] at hn
    have hr_t : ∀ e ∈ r, kwTaken w d e.1 = true → dget (Key.name e.1) d = some (Val.one e.2) :=
      fun e he => ht e (List.mem_cons_of_mem _ he)
    have hr_f : ∀ e ∈ r, kwTaken w d e.1 = false → w.argVarkw.isSome = true :=
      fun e he => hf e (List.mem_cons_of_mem _ he)
    by_cases hc : kwTaken w d k = true
    · have hc' : (dget (Key.name k) d).isSome = true ∧ k ∉ w.argPosonly := by
        simpa [kwTaken] using hc
      have hsame := ht (k, v) (List.mem_cons_self ..) hc
      rw [kwLoop, if_pos hc', dset_of_some hsame,
        ih vk hn.2 (fun e he => hvk e (List.mem_cons_of_mem _ he)) hr_t hr_f]
      simp [hc]
    · have hc' : ¬((dget (Key.name k) d).isSome = true ∧ k ∉ w.argPosonly) := by
        simpa [kwTaken] using hc
      have hc2 : kwTaken w d k = false := by simpa using hc
      have hvkw := hf (k, v) (List.mem_cons_self ..) hc2
      have hk_vk : dget k vk = none := hvk (k, v) (List.mem_cons_self ..)
      rw [kwLoop, if_neg hc', if_pos hvkw, dset_of_none hk_vk,
        ih (vk ++ [(k, v)]) hn.2 ?_ hr_t hr_f]
      · simp [hc2]
      · intro e he
        rw [dget_append, hvk e (List.mem_cons_of_mem _ he)]
        have : k ≠ e.1 := by
          intro eq; apply hn.1; rw [eq]; exact List.mem_map.mpr ⟨e, he, rfl⟩
        simp [dget, this]

/-! ### `rename`, `SameDict` -/

theorem find_of_mem {s : Sig} (hn : (s.map (·.name)).Nodup) {p : Param} (hp : p ∈ s) :
    s.find? (fun q => decide (q.name = p.name)) = some p := by
  induction s with
  | nil => simp at hp
  | cons x r ih =>
    simp only [List.map_cons, List.nodup_cons] at hn
    rcases List.mem_cons.mp hp with hp' | hp'
    · subst hp'; simp
    · have : x.name ≠ p.name := by
        intro e; apply hn.1; rw [e]; exact List.mem_map.mpr ⟨p, hp', rfl⟩
      simp [this, ih hn.2 hp']

theorem keyOf_of_mem {s : Sig} (h : WF s) {p : Param} (hp : p ∈ s) : keyOf s p.name = keyOfParam p := by
  unfold keyOf
  rw [find_of_mem h.nodup_names hp]
  obtain ⟨n, k, dv⟩ := p
  cases k <;> rfl

theorem rename_eq_parts (s : Sig) {ps : List Param} {b : List (Nat × Val)}
    (hb : b.map Prod.fst = ps.map (·.name)) (hk : ∀ p ∈ ps, keyOf s p.name = keyOfParam p) :
    b.map (fun e => (keyOf s e.1, e.2)) = parts (fun _ => true) ps b := by
  induction ps generalizing b with
  | nil => cases b <;> simp_all [parts]
  | cons p ps ih =>
    cases b with
    | nil => simp at hb
    | cons e b =>
      simp only [List.map_cons, List.cons.injEq] at hb
      simp only [List.map_cons, parts, if_true]
      rw [hb.1, hk p (List.mem_cons_self ..),
        ih hb.2 (fun q hq => hk q (List.mem_cons_of_mem _ hq))]

theorem kind_trichotomy (p : Param) :
    (p.named = true ∧ p.is .varKw = false ∧ p.is .varPos = false) ∨
    (p.named = false ∧ p.is .varKw = true ∧ p.is .varPos = false) ∨
    (p.named = false ∧ p.is .varKw = false ∧ p.is .varPos = true) := by
  simp only [Param.named, Param.is]; cases p.kind <;> simp

theorem parts_all_perm (ps : List Param) (b : List (Nat × Val)) :
    (parts (fun _ => true) ps b).Perm
      (parts Param.named ps b ++ parts (Param.is .varKw) ps b ++ parts (Param.is .varPos) ps b) := by
  induction ps generalizing b with
  | nil => simp [parts]
  | cons p ps ih =>
    cases b with
    | nil => simp [parts]
    | cons e b =>
      simp only [parts, if_true]
      rcases kind_trichotomy p with ⟨h1, h2, h3⟩ | ⟨h1, h2, h3⟩ | ⟨h1, h2, h3⟩
      · simp only [h1, h2, h3, if_true, Bool.false_eq_true, if_false, List.cons_append]
        exact List.Perm.cons _ (ih b)
      · simp only [h1, h2, h3, if_true, Bool.false_eq_true, if_false]
        refine (List.Perm.cons _ (ih b)).trans ?_
        rw [List.append_assoc, List.append_assoc]
        exact (List.perm_middle).symm
      · simp only [h1, h2, h3, if_true, Bool.false_eq_true, if_false]
        refine (List.Perm.cons _ (ih b)).trans ?_
        exact (List.perm_middle).symm

theorem ValEq.refl (v : Val) : ValEq v v := by
  cases v <;> simp [ValEq]

theorem EntriesEq.refl (d : Dict) : EntriesEq d d := by
  induction d with
  | nil => simp [EntriesEq]
  | cons x r ih => exact ⟨rfl, ValEq.refl _, ih⟩

theorem EntriesEq.append {a a' b b' : Dict} (h1 : EntriesEq a a') (h2 : EntriesEq b b') :
    EntriesEq (a ++ b) (a' ++ b') := by
  induction a generalizing a' with
  | nil => cases a' with
    | nil => simpa using h2
    | cons _ _ => simp [EntriesEq] at h1
  | cons x r ih => cases a' with
    | nil => simp [EntriesEq] at h1
    | cons y r' => exact ⟨h1.1, h1.2.1, ih h1.2.2⟩

theorem EntriesEq.keys {a b : Dict} (h : EntriesEq a b) : a.map Prod.fst = b.map Prod.fst := by
  induction a generalizing b with
  | nil => cases b with
    | nil => rfl
    | cons _ _ => simp [EntriesEq] at h
  | cons x r ih => cases b with
    | nil => simp [EntriesEq] at h
    | cons y r' => simp [h.1, ih h.2.2]

theorem EntriesEq.filter {a b : Dict} (f : Key → Bool) (h : EntriesEq a b) :
    EntriesEq (a.filter (fun e => f e.1)) (b.filter (fun e => f e.1)) := by
  induction a generalizing b with
  | nil => cases b with
    | nil => simp [EntriesEq]
    | cons _ _ => simp [EntriesEq] at h
  | cons x r ih => cases b with
    | nil => simp [EntriesEq] at h
    | cons y r' =>
      simp only [List.filter_cons, ← h.1]
      split
      · exact ⟨h.1, h.2.1, ih h.2.2⟩
      · exact ih h.2.2

/-- An entry-wise equal copy follows any reordering. -/
theorem EntriesEq.perm_transport {a X Y : Dict} (h : EntriesEq a X) (hp : X.Perm Y) :
    ∃ a', a.Perm a' ∧ EntriesEq a' Y := by
  induction hp generalizing a with
  | nil => exact ⟨a, List.Perm.refl _, h⟩
  | cons x _ ih =>
    cases a with
    | nil => simp [EntriesEq] at h
    | cons y r =>
      obtain ⟨a', pa, ea⟩ := ih h.2.2
      exact ⟨y :: a', List.Perm.cons _ pa, h.1, h.2.1, ea⟩
  | swap x y l =>
    cases a with
    | nil => simp [EntriesEq] at h
    | cons u r =>
      cases r with
      | nil => simp [EntriesEq] at h
      | cons v r' =>
        exact ⟨v :: u :: r', List.Perm.swap _ _ _, h.2.2.1, h.2.2.2.1, h.1, h.2.1, h.2.2.2.2⟩
  | trans _ _ ih1 ih2 =>
    obtain ⟨a1, p1, e1⟩ := ih1 h
    obtain ⟨a2, p2, e2⟩ := ih2 e1
    exact ⟨a2, p1.trans p2, e2⟩

theorem named_length (s : Sig) :
    (s.filter Param.named).length
      = (s.filter Param.positional).length + (s.filter (Param.is .kwOnly)).length := by
  induction s with
  | nil => rfl
  | cons p ps ih =>
    obtain ⟨n, k, dv⟩ := p
    cases k <;> simp [List.filter_cons, Param.named, Param.positional, Param.is, ih] <;> omega

/-! ### Putting the phases together -/

theorem WalkOK.memOK {w : Walk} {s : Sig} (ok : WalkOK w s) (h : WF s) {p : Param} (hp : p ∈ s) :
    MemOK w p := by
  refine ⟨ok.mem_kwonly h hp, ok.mem_posonly h hp, ok.defaults p hp, ?_⟩
  intro hk
  rw [ok.varargs, List.any_eq_true]
  exact ⟨p, hp, by simp [Param.is, hk]⟩

theorem named_of_byKeyword {p : Param} (h : p.byKeyword = true) : p.named = true := by
  revert h; simp only [Param.byKeyword, Param.named]; cases p.kind <;> simp

theorem byKeyword_of_named {p : Param} (h : p.named = true) (h2 : p.kind ≠ .posOnly) :
    p.byKeyword = true := by
  revert h h2; simp only [Param.byKeyword, Param.named]; cases p.kind <;> simp

/-- On the dict the main loop built, the keyword loop's test singles out exactly the keywords
that name a positional-or-keyword or keyword-only parameter. -/
theorem kwTaken_iff {w : Walk} {s : Sig} (ok : WalkOK w s) (h : WF s) {b : List (Nat × Val)}
    (hl : b.length = s.length) (k : Nat) :
    kwTaken w (parts Param.named s b) k = true ↔ k ∈ kwNames s := by
  have hkeys := parts_named_keys (ps := s) (b := b) hl
  simp only [kwTaken, decide_eq_true_eq, dget_isSome_iff, hkeys, ok.posonly]
  simp only [List.mem_map, List.mem_filter, kwNames]
  constructor
  · rintro ⟨⟨n, ⟨p, ⟨hp, hnamed⟩, rfl⟩, hn⟩, hnot⟩
    cases hn
    refine ⟨p, ⟨hp, byKeyword_of_named hnamed ?_⟩, rfl⟩
    intro hk
    exact hnot ⟨p, ⟨hp, by simp [Param.is, hk]⟩, rfl⟩
  · rintro ⟨p, ⟨hp, hbk⟩, rfl⟩
    refine ⟨⟨p.name, ⟨p, ⟨hp, named_of_byKeyword hbk⟩, rfl⟩, rfl⟩, ?_⟩
    rintro ⟨q, ⟨hq, hqk⟩, e⟩
    have := eq_of_name_eq h.nodup_names hq hp e
    subst this
    have := (not_is_of_byKeyword hbk).2.2
    rw [this] at hqk; simp at hqk

theorem core_nil_ignore (w : Walk) (ig : List Key) (args : List Nat) (kwargs : List (Nat × Nat)) :
    core w ig args kwargs =
      match core w [] args kwargs with
      | .ok d => ignoreLoop ig d
      | .error e => .error e := by
  unfold core
  cases mainLoop w args kwargs w.argNames 0 [] with
  | error e => rfl
  | ok d =>
    simp only
    cases kwLoop w (sortKw kwargs) d [] with
    | error e => rfl
    | ok r => simp [ignoreLoop]

/-- The heart of C07: for any locals `w` that describe the signature `s` faithfully, the body of
`filter_args` yields Python's bound mapping. -/
theorem core_eq_bind {w : Walk} {s : Sig} (hwf : WF s) (ok : WalkOK w s) {args : List Nat}
    {kwargs : List (Nat × Nat)} {b : List (Nat × Val)} (hc : (kwargs.map Prod.fst).Nodup)
    (hb : bindGo s args kwargs = .ok b) :
    ∃ d, core w [] args kwargs = .ok d ∧ SameDict d (rename s b) := by
  have hnames := bindGo_names hb
  have hlen : b.length = s.length := by
    have := congrArg List.length hnames; simpa using this
  -- phase 1: the enumerate(arg_names) loop
  have h1 : mainLoop w args kwargs w.argNames 0 [] = .ok (parts Param.named s b) := by
    rw [ok.names]
    have := mainLoop_spec w args kwargs s 0 [] args kwargs b hwf (fun p hp => ok.memOK hwf hp)
      (.inl (by simp)) (fun _ _ => rfl) (fun _ _ => rfl) hb
    simpa using this
  -- keys of that dict
  have hkeys := parts_named_keys (ps := s) (b := b) hlen
  have hnd : ((parts Param.named s b).map Prod.fst).Nodup := by
    rw [hkeys]
    have h1 : ((s.filter Param.named).map (·.name)).Nodup :=
      List.Nodup.sublist (List.Sublist.map _ List.filter_sublist) hwf.nodup_names
    rw [List.Nodup, List.pairwise_map]
    exact h1.imp (fun hne e => hne (by simpa using e))
  have hstar_none : dget Key.star (parts Param.named s b) = none := by
    rw [dget_none_iff, hkeys]; simp
  have hdstar_none : dget Key.dstar (parts Param.named s b) = none := by
    rw [dget_none_iff, hkeys]; simp
  -- phase 2: the sorted(kwargs.items()) loop
  obtain ⟨hds, hfin⟩ := bindGo_dstar hwf hc hb
  have hsperm := sortKw_perm kwargs
  have hsnd : ((sortKw kwargs).map Prod.fst).Nodup := (hsperm.map Prod.fst).nodup_iff.mpr hc
  have h2 : kwLoop w (sortKw kwargs) (parts Param.named s b) [] =
      .ok (parts Param.named s b, (sortKw kwargs).filter
        (fun e => !kwTaken w (parts Param.named s b) e.1)) := by
    have := kwLoop_ok w (parts Param.named s b) (sortKw kwargs) [] hsnd (fun _ _ => rfl) ?_ ?_
    · simpa using this
    · intro e he ht
      have hek : e ∈ kwargs := hsperm.mem_iff.mp he
      have hv : dget e.1 kwargs = some e.2 := dget_of_mem hc hek
      rw [kwTaken_iff ok hwf hlen] at ht
      obtain ⟨p, hp, hpn⟩ := List.mem_map.mp ht
      rw [List.mem_filter] at hp
      rw [← hpn] at hv ⊢
      exact dget_of_mem hnd (bindGo_keyword_value hwf hb hp.1 hp.2 hv)
    · intro e he hf
      rw [ok.varkw]
      cases hany : s.any (Param.is .varKw) with
      | true => rfl
      | false =>
        exfalso
        have hek : e ∈ kwargs := hsperm.mem_iff.mp he
        have hnot : e.1 ∉ kwNames s := by
          rw [← kwTaken_iff ok hwf hlen, hf]; simp
        have : e ∈ finalKw s kwargs := List.mem_filter.mpr ⟨hek, by simpa using hnot⟩
        rw [hfin hany] at this; simp at this
  -- the two variadic entries
  have hvk_perm : ((sortKw kwargs).filter (fun e => !kwTaken w (parts Param.named s b) e.1)).Perm
      (finalKw s kwargs) := by
    refine (hsperm.filter _).trans ?_
    unfold finalKw
    rw [List.filter_congr]
    intro e _
    have := kwTaken_iff ok hwf hlen e.1
    by_cases hm : e.1 ∈ kwNames s
    · simp [hm, this.mpr hm]
    · have : kwTaken w (parts Param.named s b) e.1 = false := by
        cases ht : kwTaken w (parts Param.named s b) e.1 with
        | false => rfl
        | true => exact absurd (this.mp ht) hm
      simp [hm, this]
  have hstar := bindGo_star hwf hb
  have hnpos : w.argNames.length - w.argKwonly.length = (s.filter Param.positional).length := by
    rw [ok.names, ok.kwonly, List.length_map, List.length_map, named_length]; omega
  -- the result of `core`
  let dF : Dict := parts Param.named s b ++
      (if s.any (Param.is .varKw) then
        [(Key.dstar, Val.map ((sortKw kwargs).filter
          (fun e => !kwTaken w (parts Param.named s b) e.1)))] else []) ++
      (if s.any (Param.is .varPos) then
        [(Key.star, Val.seq (args.drop (s.filter Param.positional).length))] else [])
  have hcore : core w [] args kwargs = .ok dF := by
    unfold core
    rw [h1]; simp only; rw [h2]; simp only [ignoreLoop]
    have hvkw := ok.varkw
    have hvar := ok.varargs
    cases hw1 : w.argVarkw <;> cases hw2 : w.argVarargs <;>
      simp only [hw1, hw2, Option.isSome_none, Option.isSome_some] at hvkw hvar <;>
      simp only [dF, ← hvkw, ← hvar, hnpos, if_true, Bool.false_eq_true, if_false, List.append_nil]
    · rw [dset_of_none hstar_none]
    · rw [dset_of_none hdstar_none]
    · rw [dset_of_none hdstar_none, dset_of_none]
      rw [dget_append, hstar_none]; simp [dget]
  refine ⟨dF, hcore, ?_⟩
  -- compare with Python's mapping, part by part
  have hE : EntriesEq dF (parts Param.named s b ++ parts (Param.is .varKw) s b ++
      parts (Param.is .varPos) s b) := by
    rw [hds, hstar]
    refine EntriesEq.append (EntriesEq.append (EntriesEq.refl _) ?_) (EntriesEq.refl _)
    cases s.any (Param.is .varKw) with
    | false => simp [EntriesEq]
    | true => exact ⟨rfl, hvk_perm, trivial⟩
  have hrename : rename s b = parts (fun _ => true) s b :=
    rename_eq_parts s hnames (fun p hp => keyOf_of_mem hwf hp)
  rw [hrename]
  exact hE.perm_transport (parts_all_perm s b).symm

/-- The bound-method block leaves the locals as the parameter loop over `self + signature` would
(up to the order of `arg_posonlyargs`, which is only tested for membership). -/
theorem walkOK_method {selfP : Param} {s : Sig} (h : WF (selfP :: s))
    (hpos : selfP.positional = true) (hd : selfP.default = none) :
    WalkOK (methodWalk selfP (walk s)) (selfP :: s) := by
  have hs : WF s := (List.pairwise_cons.mp h).2
  have ok := walkOK_walk hs
  have hnamed : selfP.named = true := by
    revert hpos; simp only [Param.positional, Param.named]; cases selfP.kind <;> simp
  have hnk : selfP.is .kwOnly = false := by
    revert hpos; simp only [Param.positional, Param.is]; cases selfP.kind <;> simp
  have hnvp : selfP.is .varPos = false := by
    revert hpos; simp only [Param.positional, Param.is]; cases selfP.kind <;> simp
  have hnvk : selfP.is .varKw = false := by
    revert hpos; simp only [Param.positional, Param.is]; cases selfP.kind <;> simp
  refine ⟨?_, ?_, ?_, ?_, ?_, ?_⟩
  · simp [methodWalk, ok.names, hnamed]
  · simp [methodWalk, ok.kwonly, hnk]
  · intro n
    simp only [methodWalk, List.filter_cons]
    by_cases hk : selfP.kind = .posOnly
    · simp only [hk, if_true, Param.is, decide_true, List.map_cons, List.mem_append, List.mem_cons,
        List.not_mem_nil, or_false]
      rw [ok.posonly]; exact Or.comm
    · have : selfP.is .posOnly = false := by simp [Param.is, hk]
      simp only [hk, if_false, this, Bool.false_eq_true]
      exact ok.posonly n
  · intro p hp
    rcases List.mem_cons.mp hp with rfl | hp'
    · have hnot : p.name ∉ s.map (·.name) := (List.nodup_cons.mp h.nodup_names).1
      simp only [methodWalk, walk]
      rw [walkFrom_argDefaults_notin _ _ _ hnot, hd]; rfl
    · exact ok.defaults p hp'
  · simp [methodWalk, ok.varargs, hnvp]
  · simp [methodWalk, ok.varkw, hnvk]

/-! ### The ignore list -/

theorem ignoreLoop_ok_iff {d : Dict} (hn : (d.map Prod.fst).Nodup) (ig : List Key) (d' : Dict) :
    ignoreLoop ig d = .ok d' ↔
      ig.Nodup ∧ (∀ k ∈ ig, k ∈ d.map Prod.fst) ∧ d' = d.filter (fun e => decide (e.1 ∉ ig)) := by
  induction ig generalizing d with
  | nil =>
    have hf : d.filter (fun e => decide (e.1 ∉ ([] : List Key))) = d := by
      rw [List.filter_eq_self]; intro e _; simp
    rw [hf]
    simp only [ignoreLoop, Except.ok.injEq, List.nodup_nil, List.not_mem_nil, true_and]
    constructor
    · rintro rfl; exact ⟨fun k h => h.elim, rfl⟩
    · rintro ⟨_, h⟩; exact h.symm
  | cons k r ih =>
    rw [ignoreLoop]
    by_cases hk : (dget k d).isSome = true
    · rw [if_pos hk, ih (nodup_keys_dpop k hn), dpop_eq_filter hn]
      have hkm : k ∈ d.map Prod.fst := (dget_isSome_iff k d).mp hk
      have hmem : ∀ k' : Key, k' ∈ (d.filter (fun e => decide (e.1 ≠ k))).map Prod.fst ↔
          (k' ≠ k ∧ k' ∈ d.map Prod.fst) := by
        intro k'
        simp only [List.mem_map, List.mem_filter, decide_eq_true_eq]
        constructor
        · rintro ⟨e, ⟨he, hne⟩, rfl⟩; exact ⟨hne, e, he, rfl⟩
        · rintro ⟨hne, e, he, rfl⟩; exact ⟨e, ⟨he, hne⟩, rfl⟩
      have hfilt : (d.filter (fun e => decide (e.1 ≠ k))).filter (fun e => decide (e.1 ∉ r))
          = d.filter (fun e => decide (e.1 ∉ k :: r)) := by
        rw [List.filter_filter]
        apply List.filter_congr
        intro e _
        by_cases h1 : e.1 = k <;> by_cases h2 : e.1 ∈ r <;> simp [h1, h2]
      rw [hfilt]
      simp only [List.nodup_cons, List.mem_cons, forall_eq_or_imp]
      constructor
      · rintro ⟨hnd, hall, rfl⟩
        refine ⟨⟨?_, hnd⟩, ⟨hkm, fun k' hk' => ((hmem k').mp (hall k' hk')).2⟩, rfl⟩
        intro hkr
        exact ((hmem k).mp (hall k hkr)).1 rfl
      · rintro ⟨⟨hkr, hnd⟩, ⟨_, hall⟩, rfl⟩
        refine ⟨hnd, fun k' hk' => (hmem k').mpr ⟨?_, hall k' hk'⟩, rfl⟩
        rintro rfl; exact hkr hk'
    · rw [if_neg hk]
      have hkm : k ∉ d.map Prod.fst := fun h => hk ((dget_isSome_iff k d).mpr h)
      constructor
      · intro h; simp at h
      · rintro ⟨_, hall, _⟩; exact absurd (hall k (List.mem_cons_self ..)) hkm

theorem ignoreLoop_error {ig : List Key} {d : Dict} {e : Err} (h : ignoreLoop ig d = .error e) :
    e = .ignoreUndefined := by
  induction ig generalizing d with
  | nil => simp [ignoreLoop] at h
  | cons k r ih =>
    rw [ignoreLoop] at h
    split at h
    · exact ih h
    · cases h; rfl

/-! ### Distinct keys of the result -/

theorem mainLoop_nodup {w : Walk} {args : List Nat} {kwargs : List (Nat × Nat)} :
    ∀ (ns : List Nat) (pos : Nat) (d d' : Dict), (d.map Prod.fst).Nodup →
      mainLoop w args kwargs ns pos d = .ok d' → (d'.map Prod.fst).Nodup := by
  intro ns
  induction ns with
  | nil => intro pos d d' hn h; simp [mainLoop] at h; rw [← h]; exact hn
  | cons n ns ih =>
    intro pos d d' hn h
    rw [mainLoop] at h
    split at h
    · split at h
      · simp at h
      · exact ih _ _ _ (nodup_keys_dset _ _ hn) h
    · split at h
      · exact ih _ _ _ (nodup_keys_dset _ _ hn) h
      · split at h
        · exact ih _ _ _ (nodup_keys_dset _ _ hn) h
        · simp at h

theorem kwLoop_nodup {w : Walk} :
    ∀ (l : List (Nat × Nat)) (d : Dict) (vk : List (Nat × Nat)) (r : Dict × List (Nat × Nat)),
      (d.map Prod.fst).Nodup → kwLoop w l d vk = .ok r → (r.1.map Prod.fst).Nodup := by
  intro l
  induction l with
  | nil => intro d vk r hn h; simp [kwLoop] at h; rw [← h]; exact hn
  | cons e l ih =>
    intro d vk r hn h
    obtain ⟨k, v⟩ := e
    rw [kwLoop] at h
    split at h
    · exact ih _ _ _ (nodup_keys_dset _ _ hn) h
    · split at h
      · exact ih _ _ _ hn h
      · simp at h

theorem ignoreLoop_nodup : ∀ (ig : List Key) (d d' : Dict), (d.map Prod.fst).Nodup →
    ignoreLoop ig d = .ok d' → (d'.map Prod.fst).Nodup := by
  intro ig
  induction ig with
  | nil => intro d d' hn h; simp [ignoreLoop] at h; rw [← h]; exact hn
  | cons k r ih =>
    intro d d' hn h
    rw [ignoreLoop] at h
    split at h
    · exact ih _ _ (nodup_keys_dpop k hn) h
    · simp at h

theorem core_nodup {w : Walk} {ig : List Key} {args : List Nat} {kwargs : List (Nat × Nat)} {d : Dict}
    (h : core w ig args kwargs = .ok d) : (d.map Prod.fst).Nodup := by
  unfold core at h
  split at h
  · simp at h
  · rename_i d1 h1
    have n1 := mainLoop_nodup _ _ _ _ (by simp) h1
    split at h
    · simp at h
    · rename_i d2 vk h2
      have n2 : (d2.map Prod.fst).Nodup := kwLoop_nodup _ _ _ _ n1 h2
      refine ignoreLoop_nodup _ _ _ ?_ h
      cases w.argVarkw <;> cases w.argVarargs <;> simp only <;>
        first | exact n2 | exact nodup_keys_dset _ _ n2 | exact nodup_keys_dset _ _ (nodup_keys_dset _ _ n2)

end JoblibModel.FilterArgs
