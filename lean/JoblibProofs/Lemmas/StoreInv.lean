import JoblibProofs.Lemmas.StoreFS
/-! Invariants of the store directory and the rely/guarantee vocabulary (C05, C11):
`WF` (inode bookkeeping, preserved by every call), `Allowed` (what a participant may do at a level),
`Inv` (typing + complete final names, preserved by every allowed call), knowledge facts and their stability. -/
namespace JoblibModel.Store

/-! ### Inode bookkeeping: preserved by every system call -/

structure WF (fs : FS) : Prop where
  distinct : ∀ p q i c c', fs.get p = some (.file i c) → fs.get q = some (.file i c') → p = q
  fresh : ∀ p i c, fs.get p = some (.file i c) → i < fs.next
  orphFresh : ∀ q i c, (q, i, c) ∈ fs.orphans → i < fs.next
  sep : ∀ p i c q c', fs.get p = some (.file i c) → (q, i, c') ∈ fs.orphans → False

theorem getUpd_file {fs : FS} {p : Path} {n : Option Node} {q : Path} {i : Nat} {c : Bytes}
    (h : getUpd fs p n q = some (.file i c)) : (q = p ∧ n = some (.file i c)) ∨ (q ≠ p ∧ fs.get q = some (.file i c)) := by
  unfold getUpd at h
  split at h
  · cases h
  · split at h
    · rename_i h1; exact Or.inl ⟨h1, h⟩
    · rename_i h1; exact Or.inr ⟨h1, h⟩

theorem wr_file {i : Nat} {d : Bytes} {n : Option Node} {j : Nat} {c : Bytes}
    (h : n.map (wr i d) = some (.file j c)) : ∃ c0, n = some (.file j c0) ∧ c = if j = i then overwrite c0 d else c0 := by
  cases n with
  | none => cases h
  | some nd =>
    cases nd with
    | dir k => simp [wr] at h
    | file k c0 =>
      simp [wr] at h
      obtain ⟨rfl, rfl⟩ := h
      exact ⟨c0, rfl, rfl⟩

theorem mem_writeOrphans {i : Nat} {d : Bytes} {l : List (Path × Nat × Bytes)} {q : Path} {j : Nat} {c : Bytes}
    (h : (q, j, c) ∈ writeOrphans i d l) : ∃ c0, (q, j, c0) ∈ l := by
  induction l with
  | nil => simp [writeOrphans] at h
  | cons x r ih =>
    obtain ⟨q', j', c'⟩ := x
    simp only [writeOrphans, List.mem_cons] at h
    rcases h with h | h
    · simp only [Prod.mk.injEq] at h
      obtain ⟨rfl, rfl, _⟩ := h
      exact ⟨c', List.mem_cons_self⟩
    · obtain ⟨c0, h0⟩ := ih h
      exact ⟨c0, List.mem_cons_of_mem _ h0⟩

theorem wf_apply (o : Op) (fs : FS) (h : WF fs) : WF (apply o fs).2 := by
  cases o with
  | stat p => rw [observer_noop _ _ (Or.inl ⟨p, rfl⟩)]; exact h
  | lstat p g => rw [lstat_noop]; exact h
  | openr p => rw [observer_noop _ _ (Or.inr (Or.inl ⟨p, rfl⟩))]; exact h
  | read p i => rw [observer_noop _ _ (Or.inr (Or.inr (Or.inl ⟨p, i, rfl⟩)))]; exact h
  | opendir p g => rw [observer_noop _ _ (Or.inr (Or.inr (Or.inr (Or.inl ⟨p, g, rfl⟩))))]; exact h
  | readdir p i => rw [observer_noop _ _ (Or.inr (Or.inr (Or.inr (Or.inr ⟨p, i, rfl⟩))))]; exact h
  | mkdir p =>
    rcases mkdir_spec p fs with ⟨e, _⟩ | ⟨_, _, _, hn, ho, hg⟩
    · rw [e]; exact h
    · constructor
      · intro p1 q1 i c c' h1 h2
        rw [hg] at h1 h2
        rcases getUpd_file h1 with ⟨_, e⟩ | ⟨_, h1⟩
        · cases e
        rcases getUpd_file h2 with ⟨_, e⟩ | ⟨_, h2⟩
        · cases e
        exact h.distinct _ _ _ _ _ h1 h2
      · intro p1 i c h1
        rw [hg] at h1
        rcases getUpd_file h1 with ⟨_, e⟩ | ⟨_, h1⟩
        · cases e
        have := h.fresh _ _ _ h1; omega
      · intro q i c h1
        rw [ho] at h1
        have := h.orphFresh _ _ _ h1; omega
      · intro p1 i c q c' h1 h2
        rw [hg] at h1; rw [ho] at h2
        rcases getUpd_file h1 with ⟨_, e⟩ | ⟨_, h1⟩
        · cases e
        exact h.sep _ _ _ _ _ h1 h2
  | creat p =>
    rcases creat_spec p fs with ⟨e, _⟩ | ⟨i0, c0, hp, _, hn, ho, hg⟩ | ⟨hp, _, _, hn, ho, hg⟩
    · rw [e]; exact h
    · constructor
      · intro p1 q1 i c c' h1 h2
        rw [hg] at h1 h2
        rcases getUpd_file h1 with ⟨e1, e⟩ | ⟨n1, h1⟩ <;> rcases getUpd_file h2 with ⟨e2, e'⟩ | ⟨n2, h2⟩
        · rw [e1, e2]
        · cases e; exact absurd (h.distinct _ _ _ _ _ hp h2) (fun x => n2 x.symm)
        · cases e'; exact absurd (h.distinct _ _ _ _ _ h1 hp) n1
        · exact h.distinct _ _ _ _ _ h1 h2
      · intro p1 i c h1
        rw [hg] at h1; rw [hn]
        rcases getUpd_file h1 with ⟨_, e⟩ | ⟨_, h1⟩
        · cases e; exact h.fresh _ _ _ hp
        · exact h.fresh _ _ _ h1
      · intro q i c h1
        rw [ho] at h1; rw [hn]; exact h.orphFresh _ _ _ h1
      · intro p1 i c q c' h1 h2
        rw [hg] at h1; rw [ho] at h2
        rcases getUpd_file h1 with ⟨_, e⟩ | ⟨_, h1⟩
        · cases e; exact h.sep _ _ _ _ _ hp h2
        · exact h.sep _ _ _ _ _ h1 h2
    · constructor
      · intro p1 q1 i c c' h1 h2
        rw [hg] at h1 h2
        rcases getUpd_file h1 with ⟨e1, e⟩ | ⟨n1, h1⟩ <;> rcases getUpd_file h2 with ⟨e2, e'⟩ | ⟨n2, h2⟩
        · rw [e1, e2]
        · cases e; have := h.fresh _ _ _ h2; omega
        · cases e'; have := h.fresh _ _ _ h1; omega
        · exact h.distinct _ _ _ _ _ h1 h2
      · intro p1 i c h1
        rw [hg] at h1; rw [hn]
        rcases getUpd_file h1 with ⟨_, e⟩ | ⟨_, h1⟩
        · cases e; omega
        · have := h.fresh _ _ _ h1; omega
      · intro q i c h1
        rw [ho] at h1; rw [hn]; have := h.orphFresh _ _ _ h1; omega
      · intro p1 i c q c' h1 h2
        rw [hg] at h1; rw [ho] at h2
        rcases getUpd_file h1 with ⟨_, e⟩ | ⟨_, h1⟩
        · cases e; have := h.orphFresh _ _ _ h2; omega
        · exact h.sep _ _ _ _ _ h1 h2
  | write p i d =>
    obtain ⟨_, hn, ho, hg⟩ := write_spec p i d fs
    constructor
    · intro p1 q1 j c c' h1 h2
      rw [hg] at h1 h2
      obtain ⟨c1, h1, _⟩ := wr_file h1
      obtain ⟨c2, h2, _⟩ := wr_file h2
      exact h.distinct _ _ _ _ _ h1 h2
    · intro p1 j c h1
      rw [hg] at h1; rw [hn]
      obtain ⟨c1, h1, _⟩ := wr_file h1
      exact h.fresh _ _ _ h1
    · intro q j c h1
      rw [ho] at h1; rw [hn]
      obtain ⟨c0, h0⟩ := mem_writeOrphans h1
      exact h.orphFresh _ _ _ h0
    · intro p1 j c q c' h1 h2
      rw [hg] at h1; rw [ho] at h2
      obtain ⟨c1, h1, _⟩ := wr_file h1
      obtain ⟨c0, h0⟩ := mem_writeOrphans h2
      exact h.sep _ _ _ _ _ h1 h0
  | unlink p g =>
    rcases unlink_spec p _ fs with ⟨e, _⟩ | ⟨i0, c0, hp, _, _, hn, ho, hg⟩
    · rw [e]; exact h
    · constructor
      · intro p1 q1 i c c' h1 h2
        rw [hg] at h1 h2
        rcases getUpd_file h1 with ⟨_, e⟩ | ⟨_, h1⟩
        · cases e
        rcases getUpd_file h2 with ⟨_, e⟩ | ⟨_, h2⟩
        · cases e
        exact h.distinct _ _ _ _ _ h1 h2
      · intro p1 i c h1
        rw [hg] at h1; rw [hn]
        rcases getUpd_file h1 with ⟨_, e⟩ | ⟨_, h1⟩
        · cases e
        exact h.fresh _ _ _ h1
      · intro q i c h1
        rw [ho] at h1; rw [hn]
        rcases List.mem_cons.mp h1 with e | h1
        · cases e; exact h.fresh _ _ _ hp
        · exact h.orphFresh _ _ _ h1
      · intro p1 i c q c' h1 h2
        rw [hg] at h1; rw [ho] at h2
        rcases getUpd_file h1 with ⟨_, e⟩ | ⟨n1, h1⟩
        · cases e
        rcases List.mem_cons.mp h2 with e | h2
        · cases e; exact n1 (h.distinct _ _ _ _ _ h1 hp)
        · exact h.sep _ _ _ _ _ h1 h2
  | rmdir p g =>
    rcases rmdir_spec p _ fs with ⟨e, _⟩ | ⟨j, hp, _, _, _, hn, ho, hg⟩
    · rw [e]; exact h
    · constructor
      · intro p1 q1 i c c' h1 h2
        rw [hg] at h1 h2
        rcases getUpd_file h1 with ⟨_, e⟩ | ⟨_, h1⟩
        · cases e
        rcases getUpd_file h2 with ⟨_, e⟩ | ⟨_, h2⟩
        · cases e
        exact h.distinct _ _ _ _ _ h1 h2
      · intro p1 i c h1
        rw [hg] at h1; rw [hn]
        rcases getUpd_file h1 with ⟨_, e⟩ | ⟨_, h1⟩
        · cases e
        exact h.fresh _ _ _ h1
      · intro q i c h1
        rw [ho] at h1; rw [hn]; exact h.orphFresh _ _ _ h1
      · intro p1 i c q c' h1 h2
        rw [hg] at h1; rw [ho] at h2
        rcases getUpd_file h1 with ⟨_, e⟩ | ⟨_, h1⟩
        · cases e
        exact h.sep _ _ _ _ _ h1 h2
  | rename p q =>
    rcases rename_spec p q fs with e | ⟨i0, c0, hp, hne, _, _, hn, hor, hg⟩
    · rw [e]; exact h
    · have key : ∀ x i c, (apply (.rename p q) fs).2.get x = some (.file i c) →
          (x = q ∧ i = i0 ∧ c = c0) ∨ (x ≠ q ∧ x ≠ p ∧ fs.get x = some (.file i c)) := by
        intro x i c hx
        rw [hg] at hx
        unfold getMove at hx
        split at hx
        · cases hx
        · split at hx
          · rename_i hxq; cases hx; exact Or.inl ⟨hxq, rfl, rfl⟩
          · split at hx
            · cases hx
            · rename_i a b; exact Or.inr ⟨a, b, hx⟩
      constructor
      · intro p1 q1 i c c' h1 h2
        rcases key _ _ _ h1 with ⟨e1, i1, _⟩ | ⟨a1, b1, h1⟩ <;> rcases key _ _ _ h2 with ⟨e2, i2, _⟩ | ⟨a2, b2, h2⟩
        · rw [e1, e2]
        · subst i1; exact absurd (h.distinct _ _ _ _ _ h2 hp) b2
        · subst i2; exact absurd (h.distinct _ _ _ _ _ h1 hp) b1
        · exact h.distinct _ _ _ _ _ h1 h2
      · intro p1 i c h1
        rw [hn]
        rcases key _ _ _ h1 with ⟨_, i1, _⟩ | ⟨_, _, h1⟩
        · subst i1; exact h.fresh _ _ _ hp
        · exact h.fresh _ _ _ h1
      · intro x i c h1
        rw [hn]
        rcases hor with ⟨_, ho⟩ | ⟨j, c', hq, ho⟩
        · rw [ho] at h1; exact h.orphFresh _ _ _ h1
        · rw [ho] at h1
          rcases List.mem_cons.mp h1 with e | h1
          · cases e; exact h.fresh _ _ _ hq
          · exact h.orphFresh _ _ _ h1
      · intro p1 i c x c' h1 h2
        rcases hor with ⟨_, ho⟩ | ⟨j, c'', hq, ho⟩
        · rw [ho] at h2
          rcases key _ _ _ h1 with ⟨_, i1, _⟩ | ⟨_, _, h1⟩
          · subst i1; exact h.sep _ _ _ _ _ hp h2
          · exact h.sep _ _ _ _ _ h1 h2
        · rw [ho] at h2
          rcases List.mem_cons.mp h2 with e | h2
          · cases e
            rcases key _ _ _ h1 with ⟨_, i1, _⟩ | ⟨a1, _, h1⟩
            · subst i1; exact hne (h.distinct _ _ _ _ _ hq hp)
            · exact a1 (h.distinct _ _ _ _ _ h1 hq)
          · rcases key _ _ _ h1 with ⟨_, i1, _⟩ | ⟨_, _, h1⟩
            · subst i1; exact h.sep _ _ _ _ _ hp h2
            · exact h.sep _ _ _ _ _ h1 h2


/-! ### Shapes, levels, allowed calls -/

inductive Level
  | calls | evict | clear
deriving DecidableEq, Repr

/-- a private temporary of a participant whose id satisfies `who` -/
def IsTmp (who : Nat → Prop) (p : Path) : Prop := ∃ a o, who o ∧ (p = pTmpOut a o ∨ p = pTmpMeta a o)

def DirShaped (p : Path) : Prop := p = pCache ∨ p = pLoc ∨ p = pMod ∨ p = pFunc ∨ ∃ a, p = pEntry a

def FileShaped (p : Path) : Prop :=
  p = pGit ∨ p = pCode ∨ ∃ a, p = pOut a ∨ p = pMeta a ∨ ∃ o, p = pTmpOut a o ∨ p = pTmpMeta a o

/-- `q` lies strictly below `p` -/
def Below (p q : Path) : Prop := p <+: q ∧ q ≠ p

/-- a location of inode `i`: a name it is linked at, or the name an open-but-removed file had -/
def Loc (fs : FS) (i : Nat) (q : Path) : Prop :=
  (∃ c, fs.get q = some (.file i c)) ∨ (∃ c, (q, i, c) ∈ fs.orphans)

structure Par where
  cd : Codec
  ver : Nat

/-- names a participant may write to in place: its own temporaries, `.gitignore`, and `func_code.py` with (a prefix of)
the text of the live source -/
def Writable (π : Par) (who : Nat → Prop) (d : Bytes) (q : Path) : Prop :=
  IsTmp who q ∨ q = pGit ∨ (q = pCode ∧ d <+: π.cd.codeText π.ver)

/-- What a participant (with an id satisfying `who`) may do to the shared directory in state `fs`.
`calls`: create directories; create / write its own temporaries; rename a complete temporary onto its final name;
(re)write `func_code.py` and `.gitignore` in place. `evict`: additionally remove anything inside entry directories and
the entry directories. `clear`: additionally remove anything below `<location>/joblib`. -/
inductive Allowed (π : Par) (lvl : Level) (who : Nat → Prop) (fs : FS) : Op → Prop
  | noop (o : Op) : (∀ p i d, o ≠ .write p i d) → (apply o fs).2 = fs → Allowed π lvl who fs o
  | mkdir (p : Path) : DirShaped p → Allowed π lvl who fs (.mkdir p)
  | creat (p : Path) : (IsTmp who p ∨ p = pGit ∨ p = pCode) → Allowed π lvl who fs (.creat p)
  | write (p : Path) (i : Nat) (d : Bytes) : (∀ q, Loc fs i q → Writable π who d q) → Allowed π lvl who fs (.write p i d)
  | renameOut (a o g : Nat) : who o → fs.dataAt (pTmpOut a o) = some (π.cd.pickle ⟨π.ver, a, g⟩) →
      Allowed π lvl who fs (.rename (pTmpOut a o) (pOut a))
  | renameMeta (a o g : Nat) : who o → fs.dataAt (pTmpMeta a o) = some (π.cd.metaText g) →
      Allowed π lvl who fs (.rename (pTmpMeta a o) (pMeta a))
  | unlinkE (a : Nat) (p : Path) (g : Option Nat) : lvl ≠ .calls → Below (pEntry a) p → Allowed π lvl who fs (.unlink p g)
  | rmdirE (a : Nat) (p : Path) (g : Option Nat) : lvl ≠ .calls → pEntry a <+: p → Allowed π lvl who fs (.rmdir p g)
  | unlinkC (p : Path) (g : Option Nat) : lvl = .clear → Below pLoc p → Allowed π lvl who fs (.unlink p g)
  | rmdirC (p : Path) (g : Option Nat) : lvl = .clear → Below pLoc p → Allowed π lvl who fs (.rmdir p g)

theorem Allowed.mono_level {π : Par} {lvl lvl' : Level} {who : Nat → Prop} {fs : FS} {o : Op}
    (h : Allowed π lvl who fs o) (hl : lvl = .calls ∨ (lvl = .evict ∧ lvl' ≠ .calls) ∨ lvl' = .clear) :
    Allowed π lvl' who fs o := by
  cases h with
  | noop o hw e => exact .noop o hw e
  | mkdir p hp => exact .mkdir p hp
  | creat p hp => exact .creat p hp
  | write p i d hw => exact .write p i d hw
  | renameOut a o g hw hd => exact .renameOut a o g hw hd
  | renameMeta a o g hw hd => exact .renameMeta a o g hw hd
  | unlinkE a p g hl' hb =>
    rcases hl with e | ⟨_, e⟩ | e
    · exact absurd e hl'
    · exact .unlinkE a p g e hb
    · exact .unlinkE a p g (by rw [e]; decide) hb
  | rmdirE a p g hl' hb =>
    rcases hl with e | ⟨_, e⟩ | e
    · exact absurd e hl'
    · exact .rmdirE a p g e hb
    · exact .rmdirE a p g (by rw [e]; decide) hb
  | unlinkC p g hl' hb =>
    rcases hl with e | ⟨e, _⟩ | e
    · rw [e] at hl'; cases hl'
    · rw [e] at hl'; cases hl'
    · exact .unlinkC p g e hb
  | rmdirC p g hl' hb =>
    rcases hl with e | ⟨e, _⟩ | e
    · rw [e] at hl'; cases hl'
    · rw [e] at hl'; cases hl'
    · exact .rmdirC p g e hb

/-- a torn write is allowed whenever the whole write is -/
theorem Allowed.tear {π : Par} {lvl : Level} {who : Nat → Prop} {fs : FS} {o : Op} (n : Nat)
    (h : Allowed π lvl who fs o) : Allowed π lvl who fs (tear n o) := by
  rcases tear_eq n o with e | ⟨p, i, d, rfl, e⟩
  · rw [e]; exact h
  · rw [e]
    cases h with
    | noop _ hno _ => exact absurd rfl (hno p i d)
    | write _ _ _ hw =>
      refine .write p i _ fun q hq => ?_
      rcases hw q hq with h1 | h1 | ⟨h1, h2⟩
      · exact Or.inl h1
      · exact Or.inr (Or.inl h1)
      · exact Or.inr (Or.inr ⟨h1, (List.take_prefix n d).trans h2⟩)


/-! ### Shape facts -/

theorem dir_not_file {p : Path} (h : DirShaped p) : ¬ FileShaped p := by
  intro hf
  rcases h with rfl | rfl | rfl | rfl | ⟨a, rfl⟩ <;>
    rcases hf with e | e | ⟨b, e | e | ⟨o, e | e⟩⟩ <;>
    simp [pCache, pLoc, pMod, pFunc, pEntry, pGit, pCode, pOut, pMeta, pTmpOut, pTmpMeta] at e

theorem isTmp_file {who : Nat → Prop} {p : Path} (h : IsTmp who p) : FileShaped p := by
  obtain ⟨a, o, _, e | e⟩ := h
  · exact Or.inr (Or.inr ⟨a, Or.inr (Or.inr ⟨o, Or.inl e⟩)⟩)
  · exact Or.inr (Or.inr ⟨a, Or.inr (Or.inr ⟨o, Or.inr e⟩)⟩)

theorem creatable_file {who : Nat → Prop} {p : Path} (h : IsTmp who p ∨ p = pGit ∨ p = pCode) : FileShaped p := by
  rcases h with h | h | h
  · exact isTmp_file h
  · exact Or.inl h
  · exact Or.inr (Or.inl h)

theorem out_file (a : Nat) : FileShaped (pOut a) := Or.inr (Or.inr ⟨a, Or.inl rfl⟩)
theorem meta_file (a : Nat) : FileShaped (pMeta a) := Or.inr (Or.inr ⟨a, Or.inr (Or.inl rfl)⟩)

theorem not_creatable_out {who : Nat → Prop} (a : Nat) : ¬ (IsTmp who (pOut a) ∨ pOut a = pGit ∨ pOut a = pCode) := by
  rintro (⟨b, o, _, e | e⟩ | e | e) <;> simp [pOut, pTmpOut, pTmpMeta, pGit, pCode] at e

theorem not_creatable_meta {who : Nat → Prop} (a : Nat) : ¬ (IsTmp who (pMeta a) ∨ pMeta a = pGit ∨ pMeta a = pCode) := by
  rintro (⟨b, o, _, e | e⟩ | e | e) <;> simp [pMeta, pTmpOut, pTmpMeta, pGit, pCode] at e

theorem not_writable_out {π : Par} {who : Nat → Prop} {d : Bytes} (a : Nat) : ¬ Writable π who d (pOut a) := by
  rintro (h | h | ⟨h, _⟩)
  · exact not_creatable_out a (Or.inl h)
  · exact not_creatable_out (who := who) a (Or.inr (Or.inl h))
  · exact not_creatable_out (who := who) a (Or.inr (Or.inr h))

theorem not_writable_meta {π : Par} {who : Nat → Prop} {d : Bytes} (a : Nat) : ¬ Writable π who d (pMeta a) := by
  rintro (h | h | ⟨h, _⟩)
  · exact not_creatable_meta a (Or.inl h)
  · exact not_creatable_meta (who := who) a (Or.inr (Or.inl h))
  · exact not_creatable_meta (who := who) a (Or.inr (Or.inr h))

/-! ### The invariant of the store directory -/

/-- `strict = true`: every result file holds the value of the live source version (all users run the same source);
`strict = false`: it holds the value of *some* version for the right argument (the cache may have been filled by an
older source). -/
structure Inv (π : Par) (strict : Bool) (fs : FS) : Prop where
  wf : WF fs
  typD : ∀ p j, fs.get p = some (.dir j) → ¬ FileShaped p
  typF : ∀ p i c, fs.get p = some (.file i c) → ¬ DirShaped p
  out : ∀ a i d, fs.get (pOut a) = some (.file i d) → ∃ v g, d = π.cd.pickle ⟨v, a, g⟩ ∧ (strict = true → v = π.ver)
  metaOk : ∀ a i d, fs.get (pMeta a) = some (.file i d) → ∃ g, d = π.cd.metaText g
  /-- the names form a tree: whatever exists lies in a directory -/
  up : ∀ p, p ≠ [] → (fs.get p).isSome = true → ∃ j, fs.get (parent p) = some (.dir j)

theorem parent_ne {p : Path} (h : p ≠ []) : parent p ≠ p := by
  intro e
  have := congrArg List.length e
  simp [parent] at this
  have : 0 < p.length := List.length_pos_iff.mpr h
  omega

theorem up_add {fs fs' : FS} {p : Path} {n : Node}
    (hup : ∀ q, q ≠ [] → (fs.get q).isSome = true → ∃ j, fs.get (parent q) = some (.dir j))
    (hg : ∀ q, fs'.get q = getUpd fs p (some n) q) (hp : p ≠ [])
    (hpar : ∃ j, fs.get (parent p) = some (.dir j))
    (hkind : ∀ j, fs.get p = some (.dir j) → ∃ j', n = .dir j') :
    ∀ q, q ≠ [] → (fs'.get q).isSome = true → ∃ j, fs'.get (parent q) = some (.dir j) := by
  intro q hq hs
  have par : ∀ x, (∃ j, fs.get x = some (.dir j)) → ∃ j, fs'.get x = some (.dir j) := by
    rintro x ⟨j, hj⟩
    rw [hg]; unfold getUpd
    by_cases h0 : x = []
    · rw [if_pos h0]; exact ⟨0, rfl⟩
    · rw [if_neg h0]
      by_cases hx : x = p
      · subst hx; rw [if_pos rfl]
        obtain ⟨j', rfl⟩ := hkind j hj
        exact ⟨j', rfl⟩
      · rw [if_neg hx]; exact ⟨j, hj⟩
  by_cases hqp : q = p
  · subst hqp; exact par _ hpar
  · rw [hg] at hs
    unfold getUpd at hs
    rw [if_neg hq, if_neg hqp] at hs
    exact par _ (hup q hq hs)

theorem up_remove {fs fs' : FS} {p : Path}
    (hup : ∀ q, q ≠ [] → (fs.get q).isSome = true → ∃ j, fs.get (parent q) = some (.dir j))
    (hg : ∀ q, fs'.get q = getUpd fs p none q)
    (hno : ∀ q, q ≠ [] → parent q = p → fs.get q = none) :
    ∀ q, q ≠ [] → (fs'.get q).isSome = true → ∃ j, fs'.get (parent q) = some (.dir j) := by
  intro q hq hs
  rw [hg] at hs
  unfold getUpd at hs
  rw [if_neg hq] at hs
  by_cases hqp : q = p
  · rw [if_pos hqp] at hs; cases hs
  · rw [if_neg hqp] at hs
    obtain ⟨j, hj⟩ := hup q hq hs
    rw [hg]; unfold getUpd
    by_cases h0 : parent q = []
    · rw [if_pos h0]; exact ⟨0, rfl⟩
    · rw [if_neg h0]
      by_cases hx : parent q = p
      · have := hno q hq hx
        rw [this] at hs; cases hs
      · rw [if_neg hx]; exact ⟨j, hj⟩

theorem file_no_child {fs : FS} {p : Path} {i : Nat} {c : Bytes}
    (hup : ∀ q, q ≠ [] → (fs.get q).isSome = true → ∃ j, fs.get (parent q) = some (.dir j))
    (hp : fs.get p = some (.file i c)) : ∀ q, q ≠ [] → parent q = p → fs.get q = none := by
  intro q hq hpq
  cases hg : fs.get q with
  | none => rfl
  | some n =>
    obtain ⟨j, hj⟩ := hup q hq (by rw [hg]; rfl)
    rw [hpq, hp] at hj; cases hj

theorem getUpd_dir {fs : FS} {p : Path} {n : Option Node} {q : Path} {j : Nat}
    (h : getUpd fs p n q = some (.dir j)) :
    q = [] ∨ (q = p ∧ n = some (.dir j)) ∨ (q ≠ p ∧ fs.get q = some (.dir j)) := by
  unfold getUpd at h
  split at h
  · rename_i h0; exact Or.inl h0
  · split at h
    · rename_i h1; exact Or.inr (Or.inl ⟨h1, h⟩)
    · rename_i h1; exact Or.inr (Or.inr ⟨h1, h⟩)

theorem nil_not_file : ¬ FileShaped ([] : Path) := by
  rintro (e | e | ⟨b, e | e | ⟨o, e | e⟩⟩) <;> simp [pGit, pCode, pOut, pMeta, pTmpOut, pTmpMeta] at e

/-- removing a name preserves the invariant -/
theorem inv_remove {π : Par} {s : Bool} {fs fs' : FS} {p : Path} (h : Inv π s fs) (hwf : WF fs')
    (hg : ∀ q, fs'.get q = getUpd fs p none q)
    (hno : ∀ q, q ≠ [] → parent q = p → fs.get q = none) : Inv π s fs' := by
  refine ⟨hwf, ?_, ?_, ?_, ?_, up_remove h.up hg hno⟩
  · intro q j hq
    rw [hg] at hq
    rcases getUpd_dir hq with rfl | ⟨_, e⟩ | ⟨_, hq⟩
    · exact nil_not_file
    · cases e
    · exact h.typD _ _ hq
  · intro q i c hq
    rw [hg] at hq
    rcases getUpd_file hq with ⟨_, e⟩ | ⟨_, hq⟩
    · cases e
    · exact h.typF _ _ _ hq
  · intro a i d hq
    rw [hg] at hq
    rcases getUpd_file hq with ⟨_, e⟩ | ⟨_, hq⟩
    · cases e
    · exact h.out _ _ _ hq
  · intro a i d hq
    rw [hg] at hq
    rcases getUpd_file hq with ⟨_, e⟩ | ⟨_, hq⟩
    · cases e
    · exact h.metaOk _ _ _ hq

theorem dataAt_eq {fs : FS} {p : Path} {d : Bytes} (h : fs.dataAt p = some d) : ∃ i, fs.get p = some (.file i d) := by
  unfold FS.dataAt at h
  split at h
  · rename_i i c hg; cases h; exact ⟨i, hg⟩
  · cases h

theorem inv_rename {π : Par} {s : Bool} {fs : FS} {p q : Path} (h : Inv π s fs)
    (hq : (∃ a g, q = pOut a ∧ ∃ i, fs.get p = some (.file i (π.cd.pickle ⟨π.ver, a, g⟩))) ∨
          (∃ a g, q = pMeta a ∧ ∃ i, fs.get p = some (.file i (π.cd.metaText g)))) :
    Inv π s (apply (.rename p q) fs).2 := by
  have hwf := wf_apply (.rename p q) fs h.wf
  rcases rename_spec p q fs with e | ⟨i0, c0, hp, hne, _, _, hn, hor, hg⟩
  · rw [e]; exact h
  · have key : ∀ x i c, (apply (.rename p q) fs).2.get x = some (.file i c) →
        (x = q ∧ i = i0 ∧ c = c0) ∨ (x ≠ q ∧ x ≠ p ∧ fs.get x = some (.file i c)) := by
      intro x i c hx
      rw [hg] at hx
      unfold getMove at hx
      split at hx
      · cases hx
      · split at hx
        · rename_i hxq; cases hx; exact Or.inl ⟨hxq, rfl, rfl⟩
        · split at hx
          · cases hx
          · rename_i a b; exact Or.inr ⟨a, b, hx⟩
    have qfile : FileShaped q := by
      rcases hq with ⟨a, _, rfl, _⟩ | ⟨a, _, rfl, _⟩
      · exact out_file a
      · exact meta_file a
    refine ⟨hwf, ?_, ?_, ?_, ?_, ?_⟩
    rotate_left 4
    · -- tree shape
      rename_i hpardst _
      obtain ⟨jd, hjd⟩ := hpardst
      have qne : q ≠ [] := by
        rcases hq with ⟨a, _, rfl, _⟩ | ⟨a, _, rfl, _⟩ <;> simp [pOut, pMeta]
      have dstfile : ∀ j, fs.get q ≠ some (.dir j) := by
        intro j hj
        rcases hor with ⟨h1, _⟩ | ⟨j', c', h1, _⟩ <;> rw [h1] at hj <;> cases hj
      have par : ∀ x, (∃ j, fs.get x = some (.dir j)) → ∃ j, (apply (.rename p q) fs).2.get x = some (.dir j) := by
        rintro x ⟨j, hj⟩
        rw [hg]; unfold getMove
        by_cases h0 : x = []
        · rw [if_pos h0]; exact ⟨0, rfl⟩
        · rw [if_neg h0]
          by_cases h1 : x = q
          · subst h1; exact absurd hj (dstfile j)
          · rw [if_neg h1]
            by_cases h2 : x = p
            · subst h2; rw [hp] at hj; cases hj
            · rw [if_neg h2]; exact ⟨j, hj⟩
      intro x hx hs
      by_cases hxq : x = q
      · subst hxq; exact par _ ⟨jd, hjd⟩
      · rw [hg] at hs
        unfold getMove at hs
        rw [if_neg hx, if_neg hxq] at hs
        by_cases hxp : x = p
        · rw [if_pos hxp] at hs; cases hs
        · rw [if_neg hxp] at hs
          exact par _ (h.up x hx hs)
    · intro x j hx
      rw [hg] at hx
      unfold getMove at hx
      split at hx
      · rename_i h0; rw [h0]; exact nil_not_file
      · split at hx
        · cases hx
        · split at hx
          · cases hx
          · exact h.typD _ _ hx
    · intro x i c hx
      rcases key _ _ _ hx with ⟨rfl, _, _⟩ | ⟨_, _, hx⟩
      · exact fun hd => dir_not_file hd qfile
      · exact h.typF _ _ _ hx
    · intro a i d hx
      rcases key _ _ _ hx with ⟨e, _, rfl⟩ | ⟨_, _, hx⟩
      · rcases hq with ⟨a', g', rfl, i', hp'⟩ | ⟨a', _, rfl, _⟩
        · have : a = a' := by simpa [pOut] using e
          subst this
          rw [hp] at hp'; cases hp'
          exact ⟨π.ver, g', rfl, fun _ => rfl⟩
        · simp [pOut, pMeta] at e
      · exact h.out _ _ _ hx
    · intro a i d hx
      rcases key _ _ _ hx with ⟨e, _, rfl⟩ | ⟨_, _, hx⟩
      · rcases hq with ⟨a', _, rfl, _⟩ | ⟨a', g', rfl, i', hp'⟩
        · simp [pOut, pMeta] at e
        · rw [hp] at hp'; cases hp'; exact ⟨g', rfl⟩
      · exact h.metaOk _ _ _ hx

/-- every allowed call preserves the invariant -/
theorem inv_apply {π : Par} {s : Bool} {lvl : Level} {who : Nat → Prop} {fs : FS} {o : Op}
    (h : Inv π s fs) (ha : Allowed π lvl who fs o) : Inv π s (apply o fs).2 := by
  have hwf := wf_apply o fs h.wf
  cases ha with
  | noop o _ e => rw [e]; exact h
  | mkdir p hp =>
    rcases mkdir_spec p fs with ⟨e, _⟩ | ⟨_, hpn, hpar, _, _, hg⟩
    · rw [e]; exact h
    · have hp0 : p ≠ [] := by rintro rfl; simp at hpn
      refine ⟨hwf, ?_, ?_, ?_, ?_, up_add h.up hg hp0 hpar (fun j hj => by rw [hpn] at hj; cases hj)⟩
      · intro q j hq
        rw [hg] at hq
        rcases getUpd_dir hq with rfl | ⟨rfl, _⟩ | ⟨_, hq⟩
        · exact nil_not_file
        · exact dir_not_file hp
        · exact h.typD _ _ hq
      · intro q i c hq
        rw [hg] at hq
        rcases getUpd_file hq with ⟨_, e⟩ | ⟨_, hq⟩
        · cases e
        · exact h.typF _ _ _ hq
      · intro a i d hq
        rw [hg] at hq
        rcases getUpd_file hq with ⟨_, e⟩ | ⟨_, hq⟩
        · cases e
        · exact h.out _ _ _ hq
      · intro a i d hq
        rw [hg] at hq
        rcases getUpd_file hq with ⟨_, e⟩ | ⟨_, hq⟩
        · cases e
        · exact h.metaOk _ _ _ hq
  | creat p hp =>
    have hpf := creatable_file hp
    have main : ∀ (n : Node), (∃ i, n = .file i []) →
        (∀ q, (apply (.creat p) fs).2.get q = getUpd fs p (some n) q) → p ≠ [] →
        (∃ j, fs.get (parent p) = some (.dir j)) → (∀ j, fs.get p ≠ some (.dir j)) →
        Inv π s (apply (.creat p) fs).2 := by
      rintro n ⟨i0, rfl⟩ hg hp0 hpar hnd
      refine ⟨hwf, ?_, ?_, ?_, ?_, up_add h.up hg hp0 hpar (fun j hj => absurd hj (hnd j))⟩
      · intro q j hq
        rw [hg] at hq
        rcases getUpd_dir hq with rfl | ⟨_, e⟩ | ⟨_, hq⟩
        · exact nil_not_file
        · cases e
        · exact h.typD _ _ hq
      · intro q i c hq
        rw [hg] at hq
        rcases getUpd_file hq with ⟨rfl, _⟩ | ⟨_, hq⟩
        · exact fun hd => dir_not_file hd hpf
        · exact h.typF _ _ _ hq
      · intro a i d hq
        rw [hg] at hq
        rcases getUpd_file hq with ⟨e, _⟩ | ⟨_, hq⟩
        · rw [← e] at hp; exact absurd hp (not_creatable_out a)
        · exact h.out _ _ _ hq
      · intro a i d hq
        rw [hg] at hq
        rcases getUpd_file hq with ⟨e, _⟩ | ⟨_, hq⟩
        · rw [← e] at hp; exact absurd hp (not_creatable_meta a)
        · exact h.metaOk _ _ _ hq
    rcases creat_spec p fs with ⟨e, _⟩ | ⟨i0, c0, hpe, _, _, _, hg⟩ | ⟨hpn, hpar, _, _, _, hg⟩
    · rw [e]; exact h
    · have hp0 : p ≠ [] := by rintro rfl; simp at hpe
      exact main _ ⟨i0, rfl⟩ hg hp0 (h.up p hp0 (by rw [hpe]; rfl)) (fun j hj => by rw [hpe] at hj; cases hj)
    · have hp0 : p ≠ [] := by rintro rfl; simp at hpn
      exact main _ ⟨fs.next, rfl⟩ hg hp0 hpar (fun j hj => by rw [hpn] at hj; cases hj)
  | write p i d hw =>
    obtain ⟨_, _, _, hg⟩ := write_spec p i d fs
    refine ⟨hwf, ?_, ?_, ?_, ?_, ?_⟩
    rotate_left 4
    · intro q hq hs
      rw [hg] at hs
      have hs' : (fs.get q).isSome = true := by
        cases hq0 : fs.get q with
        | none => rw [hq0] at hs; cases hs
        | some _ => rfl
      obtain ⟨j, hj⟩ := h.up q hq hs'
      exact ⟨j, by rw [hg, hj]; rfl⟩
    · intro q j hq
      rw [hg] at hq
      cases hq0 : fs.get q with
      | none => rw [hq0] at hq; cases hq
      | some nd =>
        rw [hq0] at hq
        cases nd with
        | dir k => exact h.typD _ _ hq0
        | file k c => simp [wr] at hq
    · intro q j c hq
      rw [hg] at hq
      obtain ⟨c0, hq0, _⟩ := wr_file hq
      exact h.typF _ _ _ hq0
    · intro a j c hq
      rw [hg] at hq
      obtain ⟨c0, hq0, hc⟩ := wr_file hq
      by_cases hji : j = i
      · subst hji
        exact absurd (hw _ (Or.inl ⟨c0, hq0⟩)) (not_writable_out a)
      · rw [if_neg hji] at hc; rw [hc]; exact h.out _ _ _ hq0
    · intro a j c hq
      rw [hg] at hq
      obtain ⟨c0, hq0, hc⟩ := wr_file hq
      by_cases hji : j = i
      · subst hji
        exact absurd (hw _ (Or.inl ⟨c0, hq0⟩)) (not_writable_meta a)
      · rw [if_neg hji] at hc; rw [hc]; exact h.metaOk _ _ _ hq0
  | renameOut a o g _ hd =>
    obtain ⟨i, hi⟩ := dataAt_eq hd
    exact inv_rename h (Or.inl ⟨a, g, rfl, i, hi⟩)
  | renameMeta a o g _ hd =>
    obtain ⟨i, hi⟩ := dataAt_eq hd
    exact inv_rename h (Or.inr ⟨a, g, rfl, i, hi⟩)
  | unlinkE a p g _ _ =>
    rcases unlink_spec p _ fs with ⟨e, _⟩ | ⟨_, _, hp, _, _, _, _, hg⟩
    · rw [e]; exact h
    · exact inv_remove h hwf hg (file_no_child h.up hp)
  | unlinkC p g _ _ =>
    rcases unlink_spec p _ fs with ⟨e, _⟩ | ⟨_, _, hp, _, _, _, _, hg⟩
    · rw [e]; exact h
    · exact inv_remove h hwf hg (file_no_child h.up hp)
  | rmdirE a p g _ _ =>
    rcases rmdir_spec p _ fs with ⟨e, _⟩ | ⟨_, _, _, hc, _, _, _, hg⟩
    · rw [e]; exact h
    · exact inv_remove h hwf hg (fun q hq hpq => children_empty hc hq hpq)
  | rmdirC p g _ _ =>
    rcases rmdir_spec p _ fs with ⟨e, _⟩ | ⟨_, _, _, hc, _, _, _, hg⟩
    · rw [e]; exact h
    · exact inv_remove h hwf hg (fun q hq hpq => children_empty hc hq hpq)

end JoblibModel.Store
